(* C05 lemmas, part 6: catch-up from the log is guaranteed as long as no truncation gives up entries a member lacks.

   A raft snapshot of RaftDiskStorage carries no shard data (Model.snap_install_node: index and log position jump, the
   shard is untouched). So a rejoining store catches up - applies every committed entry it lacks - only if the
   leader can still ship those entries. This file states precisely when that is guaranteed, over the group machine:

     every truncation uses an index that every member of the group, also a dead one, already holds as part of the
     committed sequence ([sound]: the healthy branch with the Match of ALL members is of this kind, and so is any
     branch under trunc_all; the tolerate-time branch - Match of the ACTIVE members only - and the size branch are
     not, unless they happen to stay below what the dead member holds).

   Then, in every reachable state, every node's log starts strictly inside what every member holds
   (efirst n = 0 \/ efirst n < length (elog m)): the entry before the member's next one is in the leader's log, the
   leader appends (Trunc.send_append / Props.follower_with_prev_in_log_gets_entries) and RSnapshot is never enabled.
   The configuration may be today's (trunc_all = false, snap_install = true). *)
From Coq Require Import List Arith NArith ZArith Bool Lia.
From OG Require Import C05.Model C05.Proofs C05.Invariant C05.Theorems.
Import ListNotations.

(* length of the longest common prefix *)
Fixpoint lcp (a b : list entry) : nat :=
  match a, b with
  | x :: a', y :: b' => if entry_eqb x y then S (lcp a' b') else 0
  | _, _ => 0
  end.

(* how much of the committed sequence member m durably holds *)
Definition clen (s : sys) (m : nat) : nat := lcp (elog (nodes s m)) (glog s).

(* a cut position c is harmless: it lies strictly inside what every member holds of the committed sequence *)
Definition below (s : sys) (c : nat) : Prop := forall m, m < nn (cfg s) -> c = 0 \/ c < clen s m.

Definition sound (s : sys) (e : event) : Prop :=
  match e with
  | TruncPropose mm | TruncForce mm => trunc_all (cfg s) = true \/ forall m, m < nn (cfg s) -> mm <= clen s m
  | TruncLocal n => trunc_all (cfg s) = true \/ forall m, m < nn (cfg s) -> snap (nodes s n) <= clen s m
  | RSnapshot m => m < nn (cfg s)           (* raft sends snapshots to members of the group only *)
  | _ => True
  end.

Lemma entry_eqb_refl : forall x, entry_eqb x x = true.
Proof. intros x; apply entry_eqb_eq; reflexivity. Qed.

Lemma lcp_le_l : forall a b, lcp a b <= length a.
Proof. induction a as [|x a IH]; intros [|y b]; cbn; try lia. destruct (entry_eqb x y); [specialize (IH b)|]; lia. Qed.

Lemma lcp_app_l : forall a t b, lcp a b <= lcp (a ++ t) b.
Proof.
  induction a as [|x a IH]; intros t [|y b]; cbn; try lia.
  destruct (entry_eqb x y); [specialize (IH t b)|]; lia.
Qed.

Lemma lcp_app_r : forall a b t, lcp a b <= lcp a (b ++ t).
Proof.
  induction a as [|x a IH]; intros [|y b] t; cbn; try lia.
  destruct (entry_eqb x y); [specialize (IH b t)|]; lia.
Qed.

Lemma lcp_pre_r : forall a g g', pre g g' -> lcp a g <= lcp a g'.
Proof. intros a g g' [t ->]; apply lcp_app_r. Qed.

Lemma lcp_firstn_pre : forall g t k, lcp (firstn k (g ++ t)) g = Nat.min k (length g).
Proof.
  induction g as [|x g IH]; intros t k; cbn.
  - destruct (firstn k t); cbn; lia.
  - destruct k; cbn; [reflexivity|]. rewrite entry_eqb_refl, IH. reflexivity.
Qed.

Lemma lcp_firstn_eq : forall a g h, firstn h a = firstn h g -> h <= length g -> h <= lcp a g.
Proof.
  induction a as [|x a IH]; intros [|y g] h H Hl; destruct h; cbn in *; try lia; try discriminate.
  inversion H; subst. rewrite entry_eqb_refl. apply le_n_S. apply IH; [assumption|lia].
Qed.

Lemma tr_first_mono : forall f a b, a <= b -> tr_first f a <= tr_first f b.
Proof.
  intros f a b H. unfold tr_first.
  destruct (Nat.eqb a 0) eqn:Ea; [lia|]. apply Nat.eqb_neq in Ea.
  destruct (Nat.eqb b 0) eqn:Eb; [apply Nat.eqb_eq in Eb; lia|].
  destruct f as [|f]; [cbn; lia|]. apply Nat.mul_le_mono_r. apply Nat.div_le_mono; lia.
Qed.

Lemma trunc_idx_cut : forall c mm snp, tr_first (fsz c) (trunc_idx c mm snp) <= tr_first (fsz c) mm.
Proof.
  intros c mm snp. unfold trunc_idx, same_file.
  destruct (Nat.eqb (tr_first (fsz c) mm) (tr_first (fsz c) snp)) eqn:E.
  - apply Nat.eqb_eq in E. lia.
  - apply tr_first_mono. lia.
Qed.

Lemma below_le : forall s c c', c' <= c -> below s c -> below s c'.
Proof. intros s c c' H Hb m Hm. destruct (Hb m Hm) as [->|Hlt]; [left; lia|]. destruct c'; [left; reflexivity|right; lia]. Qed.

Lemma below_max : forall s a b, below s a -> below s b -> below s (Nat.max a b).
Proof. intros s a b Ha Hb m Hm. destruct (Ha m Hm), (Hb m Hm); subst; try (left; reflexivity); right; lia. Qed.

Lemma below_tr_first : forall s f t, (forall m, m < nn (cfg s) -> t <= clen s m) -> below s (tr_first f t).
Proof.
  intros s f t H m Hm. specialize (H m Hm). pose proof (tr_first_le f t) as Ht.
  destruct t; [left; reflexivity|]. destruct (tr_first f (S t)); [left; reflexivity|right; lia].
Qed.

(* the invariant *)
Definition InvK (s : sys) : Prop :=
  (forall n idx, In (EClear idx) (elog (nodes s n)) -> below s (tr_first (fsz (cfg s)) idx)) /\
  (forall n, below s (efirst (nodes s n))).

Lemma below_mono : forall s s' c, cfg s' = cfg s -> (forall m, m < nn (cfg s) -> clen s m <= clen s' m) -> below s c -> below s' c.
Proof.
  intros s s' c Hc Hm Hb m Hlt. rewrite Hc in Hlt. destruct (Hb m Hlt) as [->|H]; [left; reflexivity|].
  right. specialize (Hm m Hlt). lia.
Qed.

Lemma invk_frame : forall s s', InvK s -> cfg s' = cfg s ->
  (forall m, m < nn (cfg s) -> clen s m <= clen s' m) ->
  (forall n idx, In (EClear idx) (elog (nodes s' n)) ->
     (exists n0, In (EClear idx) (elog (nodes s n0))) \/ below s (tr_first (fsz (cfg s)) idx)) ->
  (forall n, efirst (nodes s' n) = efirst (nodes s n) \/ below s (efirst (nodes s' n))) ->
  InvK s'.
Proof.
  intros s s' [K1 K2] Hc Hm F1 F2. split.
  - intros n idx Hin. rewrite Hc. apply (below_mono s s' _ Hc Hm).
    destruct (F1 _ _ Hin) as [[n0 H0]|Hb]; [eapply K1; eassumption|assumption].
  - intros n. apply (below_mono s s' _ Hc Hm). destruct (F2 n) as [->|Hb]; [apply K2|assumption].
Qed.

(* nothing about logs, first indexes or the committed sequence changes *)
Lemma invk_same : forall s s', InvK s -> cfg s' = cfg s -> glog s' = glog s ->
  (forall n, elog (nodes s' n) = elog (nodes s n) /\ efirst (nodes s' n) = efirst (nodes s n)) -> InvK s'.
Proof.
  intros s s' HK Hc Hg Hn. apply (invk_frame s s' HK Hc).
  - intros m _. unfold clen. rewrite Hg. destruct (Hn m) as [-> _]. lia.
  - intros n idx Hin. destruct (Hn n) as [E _]. rewrite E in Hin. left; eauto.
  - intros n. left. apply Hn.
Qed.

Section Catch.
  Variable raft_ok : sys -> event -> bool.
  Hypothesis H_elect : forall s n, raft_ok s (RElect n) = true ->
    up (nodes s n) = true /\ prefixb (glog s) (elog (nodes s n)) = true.
  Hypothesis H_repl : forall s m k, raft_ok s (RReplicate m k) = true ->
    exists l, leader s = Some l /\ m <> l /\ up (nodes s m) = true /\ hcommit (nodes s m) <= k /\
              k <= length (elog (nodes s l)) /\
              (prefixb (glog s) (elog (nodes s m)) = true -> length (glog s) <= k).
  Hypothesis H_commit : forall s k, raft_ok s (RCommit k) = true ->
    exists l, leader s = Some l /\ length (glog s) <= k /\ k <= length (elog (nodes s l)) /\
              nn (cfg s) < 2 * count (fun m => prefixb (firstn k (elog (nodes s l))) (elog (nodes s m))) (nn (cfg s)).
  Hypothesis H_learn : forall s m c, raft_ok s (RLearn m c) = true ->
    up (nodes s m) = true /\ hcommit (nodes s m) <= c /\ c <= length (glog s) /\
    firstn c (elog (nodes s m)) = firstn c (glog s).
  (* log matching, second half: replication never removes a committed entry from a follower's log *)
  Hypothesis H_keep : forall s m k, raft_ok s (RReplicate m k) = true -> lcp (elog (nodes s m)) (glog s) <= k.

  Ltac same_logs H := inversion H; subst; clear H;
    (eapply invk_same; [eassumption|reflexivity|reflexivity|
      let n0 := fresh "n0" in let E := fresh "E" in intros n0; cbn; unfold upd;
      match goal with |- context [Nat.eqb n0 ?k] => destruct (Nat.eqb n0 k) eqn:E; [apply Nat.eqb_eq in E; subst n0|] end;
      cbn; split; reflexivity]).

  Lemma hcommit_le_clen : forall s m, Inv s -> hcommit (nodes s m) <= clen s m.
  Proof.
    intros s m (HN & _ & _). destruct (HN m) as [A B _ _ _]. unfold clen. apply lcp_firstn_eq; assumption.
  Qed.

  Lemma step_invk : forall s e s', Inv s -> InvK s -> sound s e -> step raft_ok s e = Some s' -> InvK s'.
  Proof.
    intros s e s' HI HK Hsnd H.
    assert (Hcfg : cfg s' = cfg s) by (eapply step_cfg; eassumption).
    destruct e; cbn [step] in H.
    - (* Propose *)
      destruct (avail (nodes s n)); [|discriminate].
      set (x := nodes s n) in *.
      set (x' := mkNode (up x) (paused x) (elog x) (efirst x) (hcommit x) (snap x) (wal x) (walold x) (files x)
                        (applied x) (snapc x) (mem x) (imm x) (sig x) ((N.succ (nextpid x), b) :: pend x) (N.succ (nextpid x))) in *.
      assert (Hx2 : efirst x' = efirst x) by reflexivity.
      assert (Hx3 : elog x' = elog x) by reflexivity.
      clearbody x'.
      destruct (leader s) as [l|].
      + cbn [set_node set_nodes nodes] in H.
        destruct (avail (upd (nodes s) n x' l)); inversion H; subst; clear H.
        * eapply (invk_frame s); [exact HK|reflexivity| | |]; cbn; unfold upd.
          -- intros m _. unfold clen; cbn. unfold upd. destruct (Nat.eqb m l) eqn:E1; cbn.
             ++ destruct (Nat.eqb l n) eqn:E2.
                ** apply Nat.eqb_eq in E1, E2; subst. rewrite Hx3. fold x. apply lcp_app_l.
                ** apply Nat.eqb_eq in E1; subst. apply lcp_app_l.
             ++ destruct (Nat.eqb m n) eqn:E2; [apply Nat.eqb_eq in E2; subst; rewrite Hx3; fold x|]; lia.
          -- intros n0 idx Hin. left. destruct (Nat.eqb n0 l) eqn:E1; cbn in Hin.
             ++ apply in_app_or in Hin. destruct Hin as [Hin | [Hin | [] ] ]; [|discriminate].
                destruct (Nat.eqb l n) eqn:E2; [apply Nat.eqb_eq in E2; subst; rewrite Hx3 in Hin|]; eauto.
             ++ destruct (Nat.eqb n0 n) eqn:E2; [apply Nat.eqb_eq in E2; subst; rewrite Hx3 in Hin|]; eauto.
          -- intros n0. left. destruct (Nat.eqb n0 l) eqn:E1; cbn.
             ++ apply Nat.eqb_eq in E1; subst. destruct (Nat.eqb l n) eqn:E2; [apply Nat.eqb_eq in E2; subst; fold x; lia|reflexivity].
             ++ destruct (Nat.eqb n0 n) eqn:E2; [apply Nat.eqb_eq in E2; subst; fold x; lia|reflexivity].
        * eapply invk_same; [eassumption|reflexivity|reflexivity|].
          intros n0; cbn; unfold upd. destruct (Nat.eqb n0 n) eqn:E2; [apply Nat.eqb_eq in E2; subst; fold x; split; assumption|split; reflexivity].
      + inversion H; subst; clear H. eapply invk_same; [eassumption|reflexivity|reflexivity|].
        intros n0; cbn; unfold upd. destruct (Nat.eqb n0 n) eqn:E2; [apply Nat.eqb_eq in E2; subst; fold x; split; assumption|split; reflexivity].
    - (* Timeout *) same_logs H.
    - (* RElect *)
      destruct (raft_ok s (RElect n)); [|discriminate]. inversion H; subst; clear H.
      eapply invk_same; [eassumption|reflexivity|reflexivity|intros; split; reflexivity].
    - (* RStepDown *)
      inversion H; subst; clear H. eapply invk_same; [eassumption|reflexivity|reflexivity|intros; split; reflexivity].
    - (* RReplicate *)
      destruct (raft_ok s (RReplicate m k)) eqn:Hr; [|discriminate]. cbn [andb] in H.
      destruct (H_repl _ _ _ Hr) as (l & Hl & Hml & _ & _ & Hk & _). pose proof (H_keep _ _ _ Hr) as Hkeep.
      rewrite Hl in H. destruct (Nat.leb _ _) in H; [|discriminate]. inversion H; subst; clear H.
      cbn [raft_effect]. rewrite Hl.
      destruct HI as (HN & HL & _). destruct (HL l Hl) as [[t Ht] _].
      eapply (invk_frame s); [exact HK|reflexivity| | |]; cbn; unfold upd.
      + intros m0 _. unfold clen; cbn. unfold upd. destruct (Nat.eqb m0 m) eqn:E; [|lia].
        apply Nat.eqb_eq in E; subst m0. cbn. rewrite Ht, lcp_firstn_pre.
        pose proof (lcp_le_l (glog s) (elog (nodes s m))).
        assert (lcp (elog (nodes s m)) (glog s) <= length (glog s)).
        { clear. generalize (glog s). induction (elog (nodes s m)) as [|x a IH]; intros [|y g]; cbn; try lia.
          destruct (entry_eqb x y); [specialize (IH g)|]; lia. }
        lia.
      + intros n0 idx Hin. left. destruct (Nat.eqb n0 m); cbn in Hin; [exists l; eapply In_firstn; eassumption|eauto].
      + intros n0. left. destruct (Nat.eqb n0 m) eqn:E; [apply Nat.eqb_eq in E; subst n0|]; reflexivity.
    - (* RCommit *)
      destruct (raft_ok s (RCommit k)) eqn:Hr; [|discriminate]. inversion H; subst; clear H.
      destruct (H_commit _ _ Hr) as (l & Hl & Hk1 & Hk2 & _).
      cbn [raft_effect]. rewrite Hl.
      destruct HI as (HN & HL & _). destruct (HL l Hl) as [Hpl _].
      eapply (invk_frame s); [exact HK|reflexivity| | |]; cbn.
      + intros m _. unfold clen; cbn. apply lcp_pre_r. apply pre_firstn; assumption.
      + intros n0 idx Hin. left; eauto.
      + intros n0. left; reflexivity.
    - (* RLearn *)
      destruct (raft_ok s (RLearn m c)); [|discriminate]. same_logs H.
    - (* Apply *)
      set (x := nodes s n) in *.
      destruct (avail x && Nat.ltb (applied x) (hcommit x) && Nat.leb (efirst x) (applied x)); [|discriminate].
      destruct (nth_error (elog x) (applied x)) as [en|] eqn:Hnth; [|discriminate].
      inversion H; subst; clear H. destruct HK as [K1 K2].
      eapply (invk_frame s); [exact (conj K1 K2)|reflexivity| | |]; cbn -[Nat.max Nat.min tr_first]; unfold upd.
      + intros m _. unfold clen; cbn -[Nat.max Nat.min tr_first]. unfold upd.
        destruct (Nat.eqb m n) eqn:E; [apply Nat.eqb_eq in E; subst; cbn -[Nat.max Nat.min tr_first]; fold x|]; lia.
      + intros n0 idx Hin. left. destruct (Nat.eqb n0 n) eqn:E; [apply Nat.eqb_eq in E; subst; cbn -[Nat.max Nat.min tr_first] in Hin; fold x in Hin|]; eauto.
      + intros n0. destruct (Nat.eqb n0 n) eqn:E; [|left; reflexivity]. apply Nat.eqb_eq in E; subst n0.
        cbn -[Nat.max Nat.min tr_first]. destruct en; try (left; reflexivity).
        right. apply below_max; [apply K2|].
        apply nth_error_In in Hnth. specialize (K1 n idx Hnth).
        destruct (clamp (cfg s)); [|assumption].
        eapply below_le; [|exact K1]. apply tr_first_mono. lia.
    - (* UpdSnapc *) destruct (avail (nodes s n)); [|discriminate]. same_logs H.
    - (* FlushSwap *)
      match type of H with (if ?b then _ else _) = _ => destruct b; [|discriminate] end. same_logs H.
    - (* SnapPersist *)
      match type of H with (if ?b then _ else _) = _ => destruct b; [|discriminate] end. same_logs H.
    - (* FlushCommit *) destruct (avail (nodes s n)); [|discriminate]. same_logs H.
    - (* TruncPropose *)
      destruct (leader s) as [l|] eqn:Hl; [|discriminate].
      match type of H with (if ?b then _ else _) = _ => destruct b eqn:Hg; [|discriminate] end.
      inversion H; subst; clear H.
      eapply (invk_frame s); [exact HK|reflexivity| | |]; cbn; unfold upd.
      + intros m _. unfold clen; cbn. unfold upd. destruct (Nat.eqb m l) eqn:E; [apply Nat.eqb_eq in E; subst; cbn; apply lcp_app_l|lia].
      + intros n0 idx Hin. destruct (Nat.eqb n0 l) eqn:E; cbn in Hin; [|left; eauto].
        apply in_app_or in Hin. destruct Hin as [Hin | [Hin | [] ] ]; [left; eauto|]. inversion Hin; subst idx. right.
        cbn in Hsnd. destruct Hsnd as [Hta|Hmm]; [|eapply below_le; [apply trunc_idx_cut|apply below_tr_first; assumption]].
        (* trunc_all: every member has persisted the index as committed *)
        rewrite Hta in Hg. cbn [negb orb] in Hg. apply andb_prop in Hg. destruct Hg as [_ Hmh].
        unfold members_have in Hmh. rewrite forallb_forall in Hmh.
        apply below_tr_first. intros m Hm. etransitivity; [|apply hcommit_le_clen; assumption].
        apply Nat.leb_le; apply Hmh; apply in_seq; lia.
      + intros n0. left. destruct (Nat.eqb n0 l) eqn:E; [apply Nat.eqb_eq in E; subst n0|]; reflexivity.
    - (* TruncForce *)
      destruct (leader s) as [l|] eqn:Hl; [|discriminate].
      match type of H with (if ?b then _ else _) = _ => destruct b eqn:Hg; [|discriminate] end.
      inversion H; subst; clear H.
      eapply (invk_frame s); [exact HK|reflexivity| | |]; cbn; unfold upd.
      + intros m _. unfold clen; cbn. unfold upd. destruct (Nat.eqb m l) eqn:E; [apply Nat.eqb_eq in E; subst; cbn; apply lcp_app_l|lia].
      + intros n0 idx Hin. destruct (Nat.eqb n0 l) eqn:E; cbn in Hin; [|left; eauto].
        apply in_app_or in Hin. destruct Hin as [Hin | [Hin | [] ] ]; [left; eauto|]. inversion Hin; subst idx. right.
        cbn in Hsnd. destruct Hsnd as [Hta|Hmm]; [|eapply below_le; [apply trunc_idx_cut|apply below_tr_first; assumption]].
        rewrite Hta in Hg. cbn [negb orb] in Hg. apply andb_prop in Hg. destruct Hg as [_ Hmh].
        unfold members_have in Hmh. rewrite forallb_forall in Hmh.
        apply below_tr_first. intros m Hm. etransitivity; [|apply hcommit_le_clen; assumption].
        apply Nat.leb_le; apply Hmh; apply in_seq; lia.
      + intros n0. left. destruct (Nat.eqb n0 l) eqn:E; [apply Nat.eqb_eq in E; subst n0|]; reflexivity.
    - (* TruncLocal *)
      set (x := nodes s n) in *.
      match type of H with (if ?b then _ else _) = _ => destruct b eqn:Hg; [|discriminate] end.
      inversion H; subst; clear H. destruct HK as [K1 K2].
      eapply (invk_frame s); [exact (conj K1 K2)|reflexivity| | |]; cbn -[Nat.max tr_first]; unfold upd.
      + intros m _. unfold clen; cbn -[Nat.max tr_first]. unfold upd.
        destruct (Nat.eqb m n) eqn:E; [apply Nat.eqb_eq in E; subst; cbn -[Nat.max tr_first]; fold x|]; lia.
      + intros n0 idx Hin. left. destruct (Nat.eqb n0 n) eqn:E; [apply Nat.eqb_eq in E; subst; cbn -[Nat.max tr_first] in Hin; fold x in Hin|]; eauto.
      + intros n0. destruct (Nat.eqb n0 n) eqn:E; [|left; reflexivity]. apply Nat.eqb_eq in E; subst n0.
        cbn -[Nat.max tr_first]. right. apply below_max; [apply K2|].
        cbn in Hsnd. fold x in Hsnd. destruct Hsnd as [Hta|Hmm]; [|apply below_tr_first; assumption].
        rewrite Hta in Hg. cbn [negb orb] in Hg. apply andb_prop in Hg. destruct Hg as [_ Hmh].
        unfold members_have in Hmh. rewrite forallb_forall in Hmh.
        apply below_tr_first. intros m Hm. etransitivity; [|apply hcommit_le_clen; assumption].
        apply Nat.leb_le; apply Hmh; apply in_seq; lia.
    - (* RSnapshot: not enabled *)
      exfalso. destruct (leader s) as [l|] eqn:Hl; [|discriminate].
      match type of H with (if ?b then _ else _) = _ => destruct b eqn:Hg; [|discriminate] end.
      repeat (apply andb_prop in Hg; destruct Hg as [Hg ?]).
      match goal with Hlt : Nat.ltb _ _ = true |- _ => apply Nat.ltb_lt in Hlt; rename Hlt into Hshort end.
      cbn in Hsnd. destruct HK as [_ K2]. destruct (K2 l m Hsnd) as [E0|Hlt]; [lia|].
      pose proof (lcp_le_l (elog (nodes s m)) (glog s)). unfold clen in Hlt. lia.
    - (* Kill *) destruct (up (nodes s n)); [|discriminate]. same_logs H.
    - (* Restart *) destruct (up (nodes s n)); [discriminate|]. same_logs H.
    - (* Pause *) destruct (up (nodes s n)); [|discriminate]. same_logs H.
    - (* Resume *) destruct (up (nodes s n)); [|discriminate]. same_logs H.
    - (* Rotate *)
      destruct (get_new_rg (master s) (peers s) newm) as [[m' ps']|]; [|discriminate]. inversion H; subst; clear H.
      eapply invk_same; [eassumption|reflexivity|reflexivity|intros; split; reflexivity].
  Qed.

  (* every step of the run is sound *)
  Fixpoint sound_run (s : sys) (es : list event) : Prop :=
    match es with
    | [] => True
    | e :: r => sound s e /\ match step raft_ok s e with Some s' => sound_run s' r | None => True end
    end.

  Definition base_cfg (c : config) : Prop := 0 < nn c /\ wal_on c = true /\ clamp c = true.

  Lemma run_invk : forall es s s', wal_on (cfg s) = true -> clamp (cfg s) = true -> Inv s -> InvK s ->
    sound_run s es -> run raft_ok s es = Some s' -> Inv s' /\ InvK s' /\ cfg s' = cfg s.
  Proof.
    induction es as [|e es IH]; intros s s' Hw Hc HI HK Hs H; cbn in H.
    - inversion H; subst. split; [assumption|split; [assumption|reflexivity]].
    - destruct (step raft_ok s e) as [s1|] eqn:Es; [|discriminate]. cbn in Hs. rewrite Es in Hs. destruct Hs as [Hs1 Hs2].
      pose proof (step_cfg raft_ok _ _ _ Es) as Hc1.
      assert (HK1 : InvK s1) by (eapply step_invk; eassumption).
      assert (HI1 : Inv s1).
      { eapply (step_inv_gen raft_ok H_elect H_repl H_commit H_learn); try eassumption.
        right. intros m ->.
        (* an enabled RSnapshot contradicts InvK (shown in step_invk): replay that argument *)
        cbn [step] in Es. destruct (leader s) as [l|] eqn:Hl; [|discriminate].
        match type of Es with (if ?b then _ else _) = _ => destruct b eqn:Hg; [|discriminate] end.
        repeat (apply andb_prop in Hg; destruct Hg as [Hg ?]).
        match goal with Hlt : Nat.ltb _ _ = true |- _ => apply Nat.ltb_lt in Hlt; rename Hlt into Hshort end.
        cbn in Hs1. destruct HK as [_ K2]. destruct (K2 l m Hs1) as [E0|Hlt]; [lia|].
        pose proof (lcp_le_l (elog (nodes s m)) (glog s)). unfold clen in Hlt. lia. }
      destruct (IH s1 s') as (A & B & C); try assumption; try (rewrite Hc1; assumption).
      split; [assumption|split; [assumption|congruence]].
  Qed.

  Lemma invk_init : forall c, InvK (init c).
  Proof. intros c. split; cbn; [intros n idx []|intros n m Hm; left; reflexivity]. Qed.

  (* the theorem: as long as every truncation is sound, every member can be caught up from the log *)
  Lemma catch_up_from_log : forall c es s n m, base_cfg c ->
    sound_run (init c) es -> run raft_ok (init c) es = Some s -> m < nn c ->
    (efirst (nodes s n) = 0 \/ efirst (nodes s n) < length (elog (nodes s m))) /\
    step raft_ok s (RSnapshot m) = None.
  Proof.
    intros c es s n m (Hn & Hw & Hc) Hs H Hm.
    destruct (run_invk es (init c) s Hw Hc (inv_init c Hn) (invk_init c) Hs H) as (HI & [K1 K2] & Hcfg).
    assert (Hm' : m < nn (cfg s)) by (rewrite Hcfg; exact Hm). clear Hm. rename Hm' into Hm.
    assert (Hb : forall n0, efirst (nodes s n0) = 0 \/ efirst (nodes s n0) < length (elog (nodes s m))).
    { intros n0. destruct (K2 n0 m Hm) as [E|Hlt]; [left; assumption|right].
      pose proof (lcp_le_l (elog (nodes s m)) (glog s)). unfold clen in Hlt. lia. }
    split; [apply Hb|].
    cbn [step]. destruct (leader s) as [l|]; [|reflexivity].
    destruct (Nat.ltb (length (elog (nodes s m))) (efirst (nodes s l))) eqn:E.
    - apply Nat.ltb_lt in E. destruct (Hb l); lia.
    - rewrite !andb_false_r. reflexivity.
  Qed.
End Catch.

(* what the installation of a raft snapshot means for the shard: nothing is transferred *)
Lemma snapshot_install_no_data : forall raft_ok s m s', step raft_ok s (RSnapshot m) = Some s' ->
  exists l, leader s = Some l /\
    view (nodes s' m) = view (nodes s m) /\ dview (nodes s' m) = dview (nodes s m) /\
    applied (nodes s' m) = snap (nodes s l) /\ hcommit (nodes s' m) = snap (nodes s l) /\
    length (elog (nodes s m)) < efirst (nodes s l).
Proof.
  intros raft_ok s m s' H. cbn [step] in H. destruct (leader s) as [l|]; [|discriminate]. exists l.
  match type of H with (if ?b then _ else _) = _ => destruct b eqn:Hg; [|discriminate] end.
  inversion H; subst; clear H. repeat (apply andb_prop in Hg; destruct Hg as [Hg ?]).
  match goal with Hlt : Nat.ltb _ _ = true |- _ => apply Nat.ltb_lt in Hlt end.
  cbn. rewrite upd_same. cbn. repeat split; try reflexivity. assumption.
Qed.

(* a reference oracle that also has the second half of log matching *)
Definition raft_ref2 (s : sys) (e : event) : bool :=
  raft_ref s e && match e with RReplicate m k => Nat.leb (lcp (elog (nodes s m)) (glog s)) k | _ => true end.

Lemma ref2_ref : forall s e, raft_ref2 s e = true -> raft_ref s e = true.
Proof. intros s e H; unfold raft_ref2 in H; apply andb_prop in H; tauto. Qed.

Lemma ref2_keep : forall s m k, raft_ref2 s (RReplicate m k) = true -> lcp (elog (nodes s m)) (glog s) <= k.
Proof. intros s m k H; unfold raft_ref2 in H; apply andb_prop in H; destruct H as [_ H]; apply Nat.leb_le; assumption. Qed.
