(* C05 lemmas, part 3: acknowledgement soundness, availability under a minority of failures, catch-up, replica-group
   rotation, the DataWrapper codec, and the reference raft oracle. *)
From Coq Require Import List Arith NArith ZArith Bool Lia Permutation.
From OG Require Import C05.Model C05.Proofs C05.Invariant.
Import ListNotations.

(* ------------------------------------------------------------------ proposals and acknowledgements *)
Definition entry_prop (P : list (nat * N * batch)) (e : entry) : Prop :=
  match e with EData o p b => In (o, p, b) P | _ => True end.

Record InvP (s : sys) : Prop := mkInvP {
  p_logs : forall m e, In e (elog (nodes s m)) -> entry_prop (proposed s) e;
  p_glog : forall e, In e (glog s) -> entry_prop (proposed s) e;
  p_pend : forall n p b, In (p, b) (pend (nodes s n)) -> In (n, p, b) (proposed s);
  p_max : forall o p b, In (o, p, b) (proposed s) -> (p <= nextpid (nodes s o))%N;
  p_fun : forall o p b b', In (o, p, b) (proposed s) -> In (o, p, b') (proposed s) -> b = b';
  p_ack : forall o p b, In (o, p, b) (acked s) -> In (EData o p b) (glog s) }.

Lemma In_firstn : forall (A : Type) (l : list A) k x, In x (firstn k l) -> In x l.
Proof. intros A l k x H. rewrite <- (firstn_skipn k l). apply in_or_app; left; assumption. Qed.

Lemma invp_frame : forall s c nd' ld ms ps,
  InvP s ->
  (forall m e, In e (elog (nd' m)) -> entry_prop (proposed s) e) ->
  (forall m p b, In (p, b) (pend (nd' m)) -> In (p, b) (pend (nodes s m))) ->
  (forall m, (nextpid (nodes s m) <= nextpid (nd' m))%N) ->
  InvP (mkSys c nd' (glog s) ld ms ps (proposed s) (acked s)).
Proof.
  intros s c nd' ld ms ps [A B C D E F] H1 H2 H3. constructor; cbn; try assumption.
  - intros n p b H. apply C. apply H2. assumption.
  - intros o p b H. specialize (D o p b H). specialize (H3 o). lia.
Qed.

Lemma pend_lookup_In : forall p pid b, pend_lookup p pid = Some b -> In (pid, b) p.
Proof.
  intros p pid b H. unfold pend_lookup in H.
  destruct (find (fun x => N.eqb (fst x) pid) p) as [[q b']|] eqn:E; [|discriminate].
  inversion H; subst. apply find_some in E. destruct E as [E1 E2]. cbn in E2. apply N.eqb_eq in E2; subst. assumption.
Qed.

Lemma pend_remove_In : forall p pid x, In x (pend_remove p pid) -> In x p.
Proof. intros p pid x H. unfold pend_remove in H. apply filter_In in H. tauto. Qed.

Ltac node_cases m n :=
  let Hm := fresh "Hm" in
  destruct (Nat.eq_dec m n) as [->|Hm]; [rewrite ?upd_same in *|rewrite ?upd_other in * by assumption].

Section Acks.
  Variable raft_ok : sys -> event -> bool.
  Hypothesis H_repl : forall s m k, raft_ok s (RReplicate m k) = true ->
    exists l, leader s = Some l /\ m <> l /\ up (nodes s m) = true /\ hcommit (nodes s m) <= k /\
              k <= length (elog (nodes s l)) /\
              (prefixb (glog s) (elog (nodes s m)) = true -> length (glog s) <= k).
  Hypothesis H_commit : forall s k, raft_ok s (RCommit k) = true ->
    exists l, leader s = Some l /\ length (glog s) <= k /\ k <= length (elog (nodes s l)) /\
              nn (cfg s) < 2 * count (fun m => prefixb (firstn k (elog (nodes s l))) (elog (nodes s m))) (nn (cfg s)).

  Lemma step_invp : forall s e s', pid_fresh (cfg s) = true -> Inv s -> InvP s -> step raft_ok s e = Some s' -> InvP s'.
  Proof.
    intros s e s' Hfresh HI HP H.
    destruct e; cbn [step] in H.
    - (* Propose *)
      destruct (avail (nodes s n)) eqn:Hav; [|discriminate].
      set (x := nodes s n) in *. set (pid := N.succ (nextpid x)) in *.
      set (x' := mkNode (up x) (paused x) (elog x) (efirst x) (hcommit x) (snap x) (wal x) (walold x) (files x)
                        (applied x) (snapc x) (mem x) (imm x) (sig x) ((pid, b) :: pend x) pid) in *.
      destruct HP as [A B C D E F].
      assert (Hnew : forall b', In (n, pid, b') (proposed s) -> False).
      { intros b' Hb. specialize (D _ _ _ Hb). fold x in D. unfold pid in D. lia. }
      (* characterise the node map of the result *)
      assert (Hchar : exists nd', (match leader s with
                  | Some l => if avail (nodes (set_node s n x') l)
                              then set_node (set_node s n x') l (with_elog (nodes (set_node s n x') l) (elog (nodes (set_node s n x') l) ++ [EData n pid b]))
                              else set_node s n x'
                  | None => set_node s n x' end) = set_nodes s nd' /\
               (forall m e, In e (elog (nd' m)) -> In e (elog (nodes s m)) \/ e = EData n pid b) /\
               (forall m, pend (nd' m) = if Nat.eqb m n then (pid, b) :: pend x else pend (nodes s m)) /\
               (forall m, nextpid (nd' m) = if Nat.eqb m n then pid else nextpid (nodes s m))).
      { destruct (leader s) as [l|].
        - destruct (avail (nodes (set_node s n x') l)).
          + eexists; split; [reflexivity|]. cbn. repeat split; intros m.
            * intros e He. unfold upd in He. destruct (Nat.eqb m l) eqn:E1.
              -- cbn in He. apply in_app_or in He. destruct He as [He | [He | [] ] ]; [|right; auto].
                 left. apply Nat.eqb_eq in E1; subst m. unfold upd in He. destruct (Nat.eqb l n) eqn:E2; [apply Nat.eqb_eq in E2; subst; exact He|exact He].
              -- left. destruct (Nat.eqb m n) eqn:E2; [apply Nat.eqb_eq in E2; subst; exact He|exact He].
            * unfold upd. destruct (Nat.eqb m l) eqn:E1; cbn.
              -- apply Nat.eqb_eq in E1; subst m. destruct (Nat.eqb l n); reflexivity.
              -- destruct (Nat.eqb m n); reflexivity.
            * unfold upd. destruct (Nat.eqb m l) eqn:E1; cbn.
              -- apply Nat.eqb_eq in E1; subst m. destruct (Nat.eqb l n); reflexivity.
              -- destruct (Nat.eqb m n); reflexivity.
          + eexists; split; [reflexivity|]. cbn. repeat split; intros m.
            * intros e He. left. unfold upd in He. destruct (Nat.eqb m n) eqn:E2; [apply Nat.eqb_eq in E2; subst; exact He|exact He].
            * unfold upd. destruct (Nat.eqb m n); reflexivity.
            * unfold upd. destruct (Nat.eqb m n); reflexivity.
        - eexists; split; [reflexivity|]. cbn. repeat split; intros m.
          + intros e He. left. unfold upd in He. destruct (Nat.eqb m n) eqn:E2; [apply Nat.eqb_eq in E2; subst; exact He|exact He].
          + unfold upd. destruct (Nat.eqb m n); reflexivity.
          + unfold upd. destruct (Nat.eqb m n); reflexivity. }
      destruct Hchar as (nd' & Heq & Hl & Hpd & Hnp).
      cbn [set_node] in H. cbn [set_node] in Heq. rewrite Heq in H. inversion H; subst; clear H. cbn.
      constructor; cbn.
      + intros m e He. destruct (Hl m e He) as [He' | -> ]; [|left; reflexivity].
        specialize (A m e He'). destruct e; cbn in *; auto.
      + intros e He. specialize (B e He). destruct e; cbn in *; auto.
      + intros m p b0 Hin. rewrite Hpd in Hin. destruct (Nat.eqb m n) eqn:E1.
        * apply Nat.eqb_eq in E1; subst m. destruct Hin as [Hin|Hin]; [inversion Hin; subst; left; reflexivity|].
          right. apply C. assumption.
        * right. apply C. assumption.
      + intros o p b0 [Hin|Hin].
        * inversion Hin; subst. rewrite Hnp, Nat.eqb_refl. lia.
        * specialize (D _ _ _ Hin). rewrite Hnp. destruct (Nat.eqb o n) eqn:E1; [|assumption].
          apply Nat.eqb_eq in E1; subst o. fold x in D. unfold pid. lia.
      + intros o p b0 b1 [H0|H0] [H1|H1].
        * congruence.
        * inversion H0; subst. exfalso; eapply Hnew; eassumption.
        * inversion H1; subst. exfalso; eapply Hnew; eassumption.
        * eapply E; eassumption.
      + assumption.
    - (* Timeout *)
      inversion H; subst. apply invp_frame; [assumption| | |]; intros m; node_cases m n; cbn; intros;
        try (eapply p_logs; eassumption); try assumption; try lia.
      eapply pend_remove_In; eassumption.
    - (* RElect *)
      destruct (raft_ok s (RElect n)); [|discriminate]. inversion H; subst. cbn.
      apply invp_frame; [assumption| | |]; intros; try (eapply p_logs; eassumption); try assumption; lia.
    - (* RStepDown *)
      inversion H; subst. apply invp_frame; [assumption| | |]; intros; try (eapply p_logs; eassumption); try assumption; lia.
    - (* RReplicate *)
      destruct (raft_ok s (RReplicate m k)) eqn:Hr; [|discriminate]. cbn [andb] in H.
      destruct (match leader s with Some l => Nat.leb (efirst (nodes s l)) (length (elog (nodes s m))) | None => false end); [|discriminate].
      inversion H; subst; clear H.
      destruct (H_repl _ _ _ Hr) as (l & Hl & _). cbn [raft_effect]. rewrite Hl.
      apply invp_frame; [assumption| | |]; intros m0; node_cases m0 m; cbn; intros;
        try (eapply p_logs; eassumption); try assumption; try lia.
      eapply p_logs; [eassumption|]. eapply In_firstn; eassumption.
    - (* RCommit *)
      destruct (raft_ok s (RCommit k)) eqn:Hr; [|discriminate]. inversion H; subst; clear H.
      destruct (H_commit _ _ Hr) as (l & Hl & Hk1 & Hk2 & _). cbn [raft_effect]. rewrite Hl.
      destruct HI as (HN & HL & HQ). destruct (HL l Hl) as [Hpl _].
      destruct HP as [A B C D E F]. constructor; cbn; try assumption.
      + intros e He. eapply A. eapply In_firstn; eassumption.
      + intros o p b Hin. eapply pre_In; [apply pre_firstn; eassumption|]. apply F; assumption.
    - (* RLearn *)
      destruct (raft_ok s (RLearn m c)); [|discriminate]. inversion H; subst; clear H. cbn.
      apply invp_frame; [assumption| | |]; intros m0; node_cases m0 m; cbn; intros;
        try (eapply p_logs; eassumption); try assumption; try lia.
    - (* Apply *)
      set (x := nodes s n) in *.
      destruct (avail x && Nat.ltb (applied x) (hcommit x) && Nat.leb (efirst x) (applied x)) eqn:Hg; [|discriminate].
      apply andb_prop in Hg; destruct Hg as [Hg Hef]; apply andb_prop in Hg; destruct Hg as [Hav Hlt]. apply Nat.ltb_lt in Hlt.
      destruct (nth_error (elog x) (applied x)) as [en|] eqn:Hnth; [|discriminate].
      inversion H; subst; clear H.
      assert (Hg : In en (glog s)).
      { destruct HI as (HN & _ & _). specialize (HN n). fold x in HN. destruct HN as [A B _ _ _].
        apply (In_firstn _ _ (hcommit x)). rewrite <- B. apply nth_error_In with (n := applied x). rewrite nth_firstn by assumption. assumption. }
      assert (HP1 : InvP (mkSys (cfg s) (nodes (set_node s n (apply_node (cfg s) n x en))) (glog s) (leader s) (master s) (peers s) (proposed s) (acked s))).
      { apply invp_frame; [assumption| | |]; intros m0; cbn; node_cases m0 n; cbn; intros;
          try (eapply p_logs; eassumption); try assumption; try lia; try (unfold x; lia).
        destruct en; try assumption. destruct (Nat.eqb owner n); [eapply pend_remove_In; eassumption|assumption]. }
      destruct HP1 as [A B C D E F]. constructor; cbn in *; try assumption.
      intros o p b Hin. apply in_app_or in Hin. destruct Hin as [Hin|Hin]; [|apply F; assumption].
      unfold ack_of in Hin. destruct en as [o' pid b'| |]; try contradiction.
      destruct (Nat.eqb o' n) eqn:Eo; [|contradiction]. apply Nat.eqb_eq in Eo; subst o'.
      destruct (pend_lookup (pend x) pid) as [b0|] eqn:Ep; [|contradiction].
      destruct Hin as [Hin|[]]. inversion Hin; subst o p b0.
      apply pend_lookup_In in Ep.
      pose proof (p_pend _ HP n pid b Ep) as P1. pose proof (p_glog _ HP _ Hg) as P2. cbn in P2.
      rewrite (p_fun _ HP _ _ _ _ P1 P2). assumption.
    - (* UpdSnapc *)
      destruct (avail (nodes s n)); [|discriminate]. inversion H; subst. cbn.
      apply invp_frame; [assumption| | |]; intros m0; node_cases m0 n; cbn; intros;
        try (eapply p_logs; eassumption); try assumption; try lia.
    - (* FlushSwap *)
      destruct (avail (nodes s n) && match imm (nodes s n) with [] => true | _ => false end && match walold (nodes s n) with [] => true | _ => false end); [|discriminate].
      inversion H; subst. cbn.
      apply invp_frame; [assumption| | |]; intros m0; node_cases m0 n; cbn; intros;
        try (eapply p_logs; eassumption); try assumption; try lia.
    - (* SnapPersist *)
      destruct (avail (nodes s n) && sig (nodes s n)); [|discriminate]. inversion H; subst. cbn.
      apply invp_frame; [assumption| | |]; intros m0; node_cases m0 n; cbn; intros;
        try (eapply p_logs; eassumption); try assumption; try lia.
    - (* FlushCommit *)
      destruct (avail (nodes s n)); [|discriminate]. inversion H; subst. cbn.
      apply invp_frame; [assumption| | |]; intros m0; node_cases m0 n; cbn; intros;
        try (eapply p_logs; eassumption); try assumption; try lia.
    - (* TruncPropose *)
      destruct (leader s) as [l|] eqn:Hl; [|discriminate].
      match type of H with (if ?b then _ else _) = _ => destruct b; [|discriminate] end.
      inversion H; subst. cbn.
      apply invp_frame; [assumption| | |]; intros m0; node_cases m0 l; cbn; intros;
        try (eapply p_logs; eassumption); try assumption; try lia.
      match goal with He : In _ (_ ++ _) |- _ => apply in_app_or in He; destruct He as [He | [He | [] ] ] end;
        [eapply p_logs; eassumption|subst; exact I].
    - (* TruncForce *)
      destruct (leader s) as [l|] eqn:Hl; [|discriminate].
      match type of H with (if ?b then _ else _) = _ => destruct b; [|discriminate] end.
      inversion H; subst. cbn.
      apply invp_frame; [assumption| | |]; intros m0; node_cases m0 l; cbn; intros;
        try (eapply p_logs; eassumption); try assumption; try lia.
      match goal with He : In _ (_ ++ _) |- _ => apply in_app_or in He; destruct He as [He | [He | [] ] ] end;
        [eapply p_logs; eassumption|subst; exact I].
    - (* TruncLocal *)
      match type of H with (if ?b then _ else _) = _ => destruct b; [|discriminate] end.
      inversion H; subst. cbn.
      apply invp_frame; [assumption| | |]; intros m0; node_cases m0 n; cbn; intros;
        try (eapply p_logs; eassumption); try assumption; try lia.
    - (* RSnapshot *)
      destruct (leader s) as [l|] eqn:Hl; [|discriminate].
      match type of H with (if ?b then _ else _) = _ => destruct b; [|discriminate] end.
      inversion H; subst. cbn.
      apply invp_frame; [assumption| | |]; intros m0; node_cases m0 m; cbn; intros;
        try (eapply p_logs; eassumption); try assumption; try lia.
      eapply p_logs; [eassumption|]. eapply In_firstn; eassumption.
    - (* Kill *)
      destruct (up (nodes s n)); [|discriminate]. inversion H; subst. cbn.
      apply invp_frame; [assumption| | |]; intros m0; node_cases m0 n; cbn; intros;
        try (eapply p_logs; eassumption); try assumption; try lia; try contradiction.
      rewrite Hfresh. lia.
    - (* Restart *)
      destruct (up (nodes s n)); [discriminate|]. inversion H; subst. cbn.
      apply invp_frame; [assumption| | |]; intros m0; node_cases m0 n; cbn; intros;
        try (eapply p_logs; eassumption); try assumption; try lia; try contradiction.
    - (* Pause *)
      destruct (up (nodes s n)); [|discriminate]. inversion H; subst. cbn.
      apply invp_frame; [assumption| | |]; intros m0; node_cases m0 n; cbn; intros;
        try (eapply p_logs; eassumption); try assumption; try lia.
    - (* Resume *)
      destruct (up (nodes s n)); [|discriminate]. inversion H; subst. cbn.
      apply invp_frame; [assumption| | |]; intros m0; node_cases m0 n; cbn; intros;
        try (eapply p_logs; eassumption); try assumption; try lia.
    - (* Rotate *)
      destruct (get_new_rg (master s) (peers s) newm) as [[m' ps']|]; [|discriminate].
      inversion H; subst. apply invp_frame; [assumption| | |]; intros; try (eapply p_logs; eassumption); try assumption; lia.
  Qed.
End Acks.

Lemma invp_init : forall c, InvP (init c).
Proof. intros c. constructor; cbn; intros; try contradiction. Qed.
