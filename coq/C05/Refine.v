(* C05 - the truncation-decision model (Trunc.decide, tied to the real deleteEntryLog round by round) refines the group
   machine (Model.step): a layered machine runs the decision of every node on the state of the group machine, with a
   wall clock and one tolerance timer per node, and performs what the decision says as TruncPropose / TruncForce.
     trun_refines             every layered run projects onto a run of the group machine (all trace theorems apply)
     round_appends_decision   the ClearEntryLog entry appended by a round carries exactly the decision's index
     group_forced_not_within_tolerance_of_health   (repaired timer rule) a node forces a truncation only when its
                              last round that saw every member alive lies more than the tolerate time back *)
From Coq Require Import List Arith NArith ZArith Bool Lia.
From OG Require Import C05.Model C05.Proofs C05.Invariant C05.Trunc C05.TruncProofs.
Import ListNotations.

Record tsys := mkT {
  tb : sys;                       (* the group machine *)
  tclock : Z;                     (* wall clock *)
  ttim : nat -> option Z;         (* RaftNode.tolerateStartTime of every node (None = 0) *)
  tseen : nat -> option Z }.      (* ghost: when the node's decision last saw every member alive *)

Inductive tevent :=
| TBase (e : event)               (* any event of the group machine except the two truncation proposals *)
| TTick (d : Z)                   (* time passes *)
| TRound (n : nat) (ms : list N). (* deleteEntryLog on node n; ms = Progress.Match of the members as raft reports them *)

Definition upd_o {A} (f : nat -> A) (n : nat) (x : A) : nat -> A := fun m => if Nat.eqb m n then x else f m.

Definition round_of (ts : tsys) (n : nat) (ms : list N) : round :=
  let s := tb ts in
  mkRound (tclock ts)
          (match leader s with Some l => Nat.eqb l n | None => false end)
          (map (fun m => up (nodes s m)) (seq 0 (nn (cfg s))))
          ms
          (N.of_nat (snap (nodes s n))).

Definition lay_of (s : sys) (n : nat) : layout :=
  mkLay (N.of_nat (fsz (cfg s))) (N.of_nat (efirst (nodes s n)) + 1) (N.of_nat (length (elog (nodes s n)))).

(* the decision looked at the members and found all of them alive *)
Definition saw_health (r : round) : bool := all_alive r && (negb (r_lead r) || negb (r_snap r =? 0)%N).

Section Layered.
  Variable raft_ok : sys -> event -> bool.
  Variable tc : tcfg.
  Variable T : Z.

  Definition tstep (ts : tsys) (te : tevent) : option tsys :=
    match te with
    | TBase e =>
        match e with
        | TruncPropose _ | TruncForce _ => None
        | _ => match step raft_ok (tb ts) e with
               | Some s' => Some (mkT s' (tclock ts)
                                      (match e with Kill n | Restart n => upd_o (ttim ts) n None | _ => ttim ts end)
                                      (tseen ts))
               | None => None
               end
        end
    | TTick d => if (0 <=? d)%Z then Some (mkT (tb ts) (tclock ts + d) (ttim ts) (tseen ts)) else None
    | TRound n ms =>
        let s := tb ts in
        if avail (nodes s n) then
          let r := round_of ts n ms in
          let res := decide tc T (lay_of s n) (ttim ts n) r in
          let tim' := upd_o (ttim ts) n (fst res) in
          let seen' := if saw_health r then upd_o (tseen ts) n (Some (tclock ts)) else tseen ts in
          match snd res with
          | DNone => Some (mkT s (tclock ts) tim' seen')
          | DHealthy idx => match step raft_ok s (TruncPropose (N.to_nat idx)) with
                            | Some s' => Some (mkT s' (tclock ts) tim' seen') | None => None end
          | DForce idx => match step raft_ok s (TruncForce (N.to_nat idx)) with
                          | Some s' => Some (mkT s' (tclock ts) tim' seen') | None => None end
          end
        else None
    end.

  Fixpoint trun (ts : tsys) (tes : list tevent) : option tsys :=
    match tes with
    | [] => Some ts
    | te :: r => match tstep ts te with Some ts' => trun ts' r | None => None end
    end.

  (* ---------------------------------------------------------------- refinement *)
  Lemma tstep_refines : forall ts te ts', tstep ts te = Some ts' ->
    tb ts' = tb ts \/ exists e, step raft_ok (tb ts) e = Some (tb ts').
  Proof.
    intros ts te ts' H. destruct te as [e|d|n ms]; cbn [tstep] in H.
    - right. exists e.
      destruct e; try discriminate;
        (destruct (step raft_ok (tb ts) _) as [s'|] eqn:E; [|discriminate]; inversion H; subst; reflexivity).
    - destruct (0 <=? d)%Z; [|discriminate]. inversion H; subst. left; reflexivity.
    - destruct (avail (nodes (tb ts) n)); [|discriminate].
      destruct (snd (decide tc T (lay_of (tb ts) n) (ttim ts n) (round_of ts n ms))) as [|idx|idx].
      + inversion H; subst. left; reflexivity.
      + destruct (step raft_ok (tb ts) (TruncPropose (N.to_nat idx))) as [s'|] eqn:E; [|discriminate].
        inversion H; subst. right; eexists; exact E.
      + destruct (step raft_ok (tb ts) (TruncForce (N.to_nat idx))) as [s'|] eqn:E; [|discriminate].
        inversion H; subst. right; eexists; exact E.
  Qed.

  Lemma trun_refines : forall tes ts ts', trun ts tes = Some ts' -> exists es, run raft_ok (tb ts) es = Some (tb ts').
  Proof.
    induction tes as [|te tes IH]; intros ts ts' H; cbn in H.
    - inversion H; subst. exists []. reflexivity.
    - destruct (tstep ts te) as [ts1|] eqn:E; [|discriminate].
      destruct (IH _ _ H) as [es Hes]. destruct (tstep_refines _ _ _ E) as [Heq|[e He]].
      + exists es. rewrite <- Heq. assumption.
      + exists (e :: es). cbn. rewrite He. assumption.
  Qed.
End Layered.

(* ---------------------------------------------------------------- the index of the proposal is the decision's index *)
Lemma quot_between : forall f q x : N, (0 < f)%N -> (q * f < x)%N -> (x <= q * f + f)%N -> ((x - 1) / f = q)%N.
Proof.
  intros f q x Hf H1 H2. rewrite (N.mul_comm q f) in *. symmetry. apply (N.div_unique (x - 1) f q (x - 1 - f * q)); lia.
Qed.

Lemma file_no_same : forall L a s, (0 < lay_fsz L)%N -> (1 <= lay_first L)%N -> (1 <= a)%N -> (a <= s)%N ->
  ((a - 1) / lay_fsz L = (s - 1) / lay_fsz L)%N -> file_no L a = file_no L s.
Proof.
  intros [f fi la] a s Hf Hfi Ha Has Hq. cbn [lay_fsz lay_first lay_last] in *. unfold file_no. cbn [lay_fsz lay_first lay_last].
  set (q := ((s - 1) / f)%N) in *.
  assert (A1 : (q * f < a)%N).
  { pose proof (N.mul_div_le (a - 1) f ltac:(lia)) as H. rewrite Hq in H. lia. }
  assert (A2 : (s <= q * f + f)%N).
  { pose proof (N.mul_succ_div_gt (s - 1) f ltac:(lia)) as H. fold q in H. lia. }
  destruct (N.lt_ge_cases s fi) as [C1|C1].
  { replace (N.max fi (N.min a la)) with fi by lia. replace (N.max fi (N.min s la)) with fi by lia. reflexivity. }
  destruct (N.lt_ge_cases la a) as [C2|C2].
  { replace (N.min a la) with la by lia. replace (N.min s la) with la by lia. reflexivity. }
  rewrite (quot_between f q (N.max fi (N.min a la))) by lia.
  rewrite (quot_between f q (N.max fi (N.min s la))) by lia.
  reflexivity.
Qed.

Lemma file_no_zero_one : forall L, (1 <= lay_first L)%N -> file_no L 0 = file_no L 1.
Proof. intros [f fi la] H. unfold file_no; cbn [lay_fsz lay_first lay_last] in *. f_equal. f_equal. lia. Qed.

Lemma same_file_quot : forall f a b, 0 < f -> 1 <= a -> 1 <= b -> same_file f a b = true -> (a - 1) / f = (b - 1) / f.
Proof.
  intros f a b Hf Ha Hb H. unfold same_file, tr_first in H.
  destruct (Nat.eqb a 0) eqn:Ea; [apply Nat.eqb_eq in Ea; lia|].
  destruct (Nat.eqb b 0) eqn:Eb; [apply Nat.eqb_eq in Eb; lia|].
  apply Nat.eqb_eq in H. apply Nat.mul_cancel_r in H; lia.
Qed.

Lemma same_file_refl : forall f a, same_file f a a = true.
Proof. intros; unfold same_file; apply Nat.eqb_refl. Qed.

(* genProposeData with the file ids SlotGe reports (relative to the present log) = the group machine's trunc_idx on
   the decision's own result *)
Lemma trunc_idx_of_gen_idx : forall c ef len snp mm,
  let L := mkLay (N.of_nat (fsz c)) (N.of_nat ef + 1) (N.of_nat len) in
  let idx := gen_idx L (N.of_nat snp) mm in
  trunc_idx c (N.to_nat idx) snp = N.to_nat idx.
Proof.
  intros c ef len snp mm L idx. unfold trunc_idx.
  assert (Hsnp : N.to_nat (N.of_nat snp) = snp) by apply Nat2N.id.
  subst idx. destruct mm as [m|]; cbn [gen_idx].
  2:{ rewrite Hsnp, same_file_refl. reflexivity. }
  destruct (file_no L m =? file_no L (N.of_nat snp))%N eqn:Ef.
  { rewrite Hsnp, same_file_refl. reflexivity. }
  destruct (N.le_gt_cases (N.of_nat snp) m) as [Hge|Hlt].
  { rewrite N.min_r by assumption. rewrite Hsnp, same_file_refl. reflexivity. }
  rewrite N.min_l by lia.
  assert (Hlt' : N.to_nat m < snp) by lia.
  destruct (same_file (fsz c) (N.to_nat m) snp) eqn:Es; [|lia].
  (* the same file in absolute terms would be the same file in SlotGe's terms *)
  exfalso. apply N.eqb_neq in Ef. apply Ef.
  destruct (fsz c) as [|f'] eqn:Efz.
  { unfold file_no, L. cbn [lay_fsz]. assert (Z0 : forall x : N, (x / 0 = 0)%N) by (intros [|p]; reflexivity). rewrite !Z0. reflexivity. }
  assert (HL1 : (0 < lay_fsz L)%N) by (unfold L; cbn; lia).
  assert (HL2 : (1 <= lay_first L)%N) by (unfold L; cbn [lay_first]; lia).
  destruct (N.eq_dec m 0) as [->|Hm0].
  - rewrite (file_no_zero_one L HL2). apply file_no_same; try assumption; try lia.
    cbn [N.to_nat] in Es. unfold same_file, tr_first in Es. cbn [Nat.eqb] in Es.
    destruct (Nat.eqb snp 0) eqn:E0; [apply Nat.eqb_eq in E0; lia|].
    assert (Eq0 : (snp - 1) / S f' = 0).
    { destruct ((snp - 1) / S f' * S f') eqn:Ep; [|discriminate]. apply Nat.eq_mul_0_l in Ep; [assumption|lia]. }
    unfold L; cbn [lay_fsz]. cbn [N.sub]. rewrite N.div_0_l by lia.
    replace (N.of_nat snp - 1)%N with (N.of_nat (snp - 1)) by lia.
    rewrite <- Nat2N.inj_div, Eq0. reflexivity.
  - apply file_no_same; try assumption; try lia.
    pose proof (same_file_quot (S f') (N.to_nat m) snp ltac:(lia) ltac:(lia) ltac:(lia) Es) as Hq.
    unfold L; cbn [lay_fsz].
    replace (m - 1)%N with (N.of_nat (N.to_nat m - 1)) by lia.
    replace (N.of_nat snp - 1)%N with (N.of_nat (snp - 1)) by lia.
    rewrite <- !Nat2N.inj_div, Hq. reflexivity.
Qed.

Section Layered2.
  Variable raft_ok : sys -> event -> bool.
  Variable tc : tcfg.
  Variable T : Z.

  (* a round whose decision proposes idx appends exactly ClearEntryLog(idx) to the leader's log (and nothing else
     changes in the group machine) *)
  Lemma round_appends_decision : forall ts n ms ts' idx,
    tstep raft_ok tc T ts (TRound n ms) = Some ts' ->
    (snd (decide tc T (lay_of (tb ts) n) (ttim ts n) (round_of ts n ms)) = DHealthy idx \/
     snd (decide tc T (lay_of (tb ts) n) (ttim ts n) (round_of ts n ms)) = DForce idx) ->
    leader (tb ts) = Some n /\
    tb ts' = set_node (tb ts) n (with_elog (nodes (tb ts) n) (elog (nodes (tb ts) n) ++ [EClear (N.to_nat idx)])).
  Proof.
    intros ts n ms ts' idx H Hd. cbn [tstep] in H.
    destruct (avail (nodes (tb ts) n)); [|discriminate].
    assert (Hlead : leader (tb ts) = Some n).
    { unfold decide in Hd. cbn [round_of r_lead] in Hd.
      destruct (leader (tb ts)) as [l|]; [|cbn in Hd; destruct Hd; discriminate].
      destruct (Nat.eqb l n) eqn:E; [apply Nat.eqb_eq in E; subst; reflexivity|cbn in Hd; destruct Hd; discriminate]. }
    split; [assumption|].
    assert (Hidx : exists mm, idx = gen_idx (lay_of (tb ts) n) (N.of_nat (snap (nodes (tb ts) n))) mm).
    { unfold decide in Hd. cbn [round_of r_lead r_snap r_now r_alive r_match] in Hd.
      destruct (negb _) in Hd; [cbn in Hd; destruct Hd; discriminate|].
      destruct (N.of_nat (snap (nodes (tb ts) n)) =? 0)%N in Hd; [cbn in Hd; destruct Hd; discriminate|].
      destruct (all_alive _) in Hd.
      - cbn [snd] in Hd. destruct Hd as [Hd|Hd]; [|discriminate]. inversion Hd. eexists; reflexivity.
      - destruct (T <? _)%Z in Hd; cbn [snd] in Hd; destruct Hd as [Hd|Hd]; try discriminate. inversion Hd. eexists; reflexivity. }
    destruct Hidx as [mm Hidx].
    pose proof (trunc_idx_of_gen_idx (cfg (tb ts)) (efirst (nodes (tb ts) n)) (length (elog (nodes (tb ts) n)))
                                     (snap (nodes (tb ts) n)) mm) as Hti.
    cbn zeta in Hti. fold (lay_of (tb ts) n) in Hti. rewrite <- Hidx in Hti.
    destruct Hd as [Hd|Hd]; rewrite Hd in H.
    - destruct (step raft_ok (tb ts) (TruncPropose (N.to_nat idx))) as [s'|] eqn:E; [|discriminate].
      inversion H; subst ts'; cbn [tb]. cbn [step] in E. rewrite Hlead in E.
      match type of E with (if ?b then _ else _) = _ => destruct b; [|discriminate] end.
      rewrite Hti in E. inversion E; reflexivity.
    - destruct (step raft_ok (tb ts) (TruncForce (N.to_nat idx))) as [s'|] eqn:E; [|discriminate].
      inversion H; subst ts'; cbn [tb]. cbn [step] in E. rewrite Hlead in E.
      match type of E with (if ?b then _ else _) = _ => destruct b; [|discriminate] end.
      rewrite Hti in E. inversion E; reflexivity.
  Qed.
End Layered2.

(* ---------------------------------------------------------------- the timer theorem on the group level *)
Definition tinit (c : config) : tsys := mkT (init c) 0 (fun _ => None) (fun _ => None).

(* a running timer was started at or after the node's last sight of a healthy group; nothing lies in the future *)
Definition TInv (ts : tsys) : Prop :=
  (forall n t, ttim ts n = Some t -> (t <= tclock ts)%Z /\ forall z, tseen ts n = Some z -> (z <= t)%Z) /\
  (forall n z, tseen ts n = Some z -> (z <= tclock ts)%Z).

Section Timer.
  Variable raft_ok : sys -> event -> bool.
  Variable T : Z.

  Lemma tinv_step : forall ts te ts', TInv ts -> tstep raft_ok tcfg_repaired T ts te = Some ts' -> TInv ts'.
  Proof.
    intros ts te ts' [I1 I2] H. destruct te as [e|d|n ms]; cbn [tstep] in H.
    - assert (Hgen : forall s' tim', (forall m t, tim' m = Some t -> ttim ts m = Some t) ->
                                    TInv (mkT s' (tclock ts) tim' (tseen ts))).
      { intros s' tim' Hsub. split; cbn; [intros m t Ht; apply I1; apply Hsub; assumption|assumption]. }
      assert (Hupd : forall k m t, upd_o (ttim ts) k None m = Some t -> ttim ts m = Some t).
      { intros k m t Hm. unfold upd_o in Hm. destruct (Nat.eqb m k); [discriminate|assumption]. }
      destruct e; try discriminate;
        (destruct (step raft_ok (tb ts) _) as [s'|]; [|discriminate]; inversion H; subst; apply Hgen; auto; apply Hupd).
    - destruct (0 <=? d)%Z eqn:Ed; [|discriminate]. apply Z.leb_le in Ed. inversion H; subst. split; cbn.
      + intros m t Ht. destruct (I1 m t Ht) as [A B]. split; [lia|assumption].
      + intros m z Hz. specialize (I2 m z Hz). lia.
    - destruct (avail (nodes (tb ts) n)); [|discriminate].
      set (r := round_of ts n ms) in *. set (L := lay_of (tb ts) n) in *.
      assert (Hnow : r_now r = tclock ts) by reflexivity. clearbody r L.
      (* what the decision does to the timer of node n, for the repaired rule *)
      assert (Hcore : forall s', TInv (mkT s' (tclock ts) (upd_o (ttim ts) n (fst (decide tcfg_repaired T L (ttim ts n) r)))
                                           (if saw_health r then upd_o (tseen ts) n (Some (tclock ts)) else tseen ts))).
      { intros s'. unfold decide, saw_health. cbn [t_clear_follower t_clear_health tcfg_repaired].
        destruct (r_lead r) eqn:Hl; cbn [negb orb].
        2:{ (* not the leader: timer cleared *)
            split; cbn.
            - intros m t Ht. unfold upd_o in Ht. destruct (Nat.eqb m n) eqn:E; [discriminate|].
              destruct (I1 m t Ht) as [A B]. split; [assumption|]. intros z Hz.
              destruct (all_alive r); cbn in Hz; [unfold upd_o in Hz; rewrite E in Hz|]; apply B; assumption.
            - intros m z Hz. destruct (all_alive r); cbn in Hz; [|apply I2 with m; assumption].
              unfold upd_o in Hz. destruct (Nat.eqb m n); [inversion Hz; lia|apply I2 with m; assumption]. }
        destruct (r_snap r =? 0)%N eqn:Hs; cbn [negb andb].
        { (* no snapshot yet: nothing looked at *)
          rewrite andb_false_r. split; cbn.
          - intros m t Ht. unfold upd_o in Ht. destruct (Nat.eqb m n) eqn:E; [apply Nat.eqb_eq in E; subst m|]; apply I1; assumption.
          - assumption. }
        rewrite andb_true_r.
        destruct (all_alive r) eqn:Ha.
        { (* healthy: timer cleared, sight recorded *)
          split; cbn.
          - intros m t Ht. unfold upd_o in Ht. destruct (Nat.eqb m n) eqn:E; [discriminate|].
            destruct (I1 m t Ht) as [A B]. split; [assumption|]. intros z Hz. unfold upd_o in Hz. rewrite E in Hz. apply B; assumption.
          - intros m z Hz. unfold upd_o in Hz. destruct (Nat.eqb m n); [inversion Hz; lia|apply I2 with m; assumption]. }
        (* a member is down *)
        split; cbn; [|assumption].
        intros m t Ht. unfold upd_o in Ht. destruct (Nat.eqb m n) eqn:E; [|apply I1; assumption].
        apply Nat.eqb_eq in E; subst m.
        destruct (ttim ts n) as [t0|] eqn:Et.
        - destruct (T <? r_now r - t0)%Z; cbn [fst] in Ht; [discriminate|]. inversion Ht; subst t. apply I1; assumption.
        - destruct (T <? r_now r - r_now r)%Z; cbn [fst] in Ht; [discriminate|]. inversion Ht; subst t. rewrite Hnow.
          split; [lia|]. intros z Hz. apply I2 with n; assumption. }
      destruct (snd (decide tcfg_repaired T L (ttim ts n) r)) as [|idx|idx].
      + inversion H; subst. apply Hcore.
      + destruct (step raft_ok (tb ts) (TruncPropose (N.to_nat idx))) as [s'|]; [|discriminate]. inversion H; subst. apply Hcore.
      + destruct (step raft_ok (tb ts) (TruncForce (N.to_nat idx))) as [s'|]; [|discriminate]. inversion H; subst. apply Hcore.
  Qed.

  Lemma tinv_run : forall tes ts ts', TInv ts -> trun raft_ok tcfg_repaired T ts tes = Some ts' -> TInv ts'.
  Proof.
    induction tes as [|te tes IH]; intros ts ts' HI H; cbn in H; [inversion H; subst; assumption|].
    destruct (tstep raft_ok tcfg_repaired T ts te) as [ts1|] eqn:E; [|discriminate].
    eapply IH; [eapply tinv_step; eassumption|assumption].
  Qed.

  Lemma tinv_init : forall c, TInv (tinit c).
  Proof. intros c; split; cbn; intros; discriminate. Qed.

  (* in every reachable state of the layered machine: if the decision of node n forces a truncation now, the last time
     n saw every member alive (in any role) lies more than T back *)
  Lemma group_forced_after_tolerance : forall c tes ts n ms idx z,
    trun raft_ok tcfg_repaired T (tinit c) tes = Some ts ->
    snd (decide tcfg_repaired T (lay_of (tb ts) n) (ttim ts n) (round_of ts n ms)) = DForce idx ->
    tseen ts n = Some z -> (T < tclock ts - z)%Z.
  Proof.
    intros c tes ts n ms idx z Hrun Hd Hz.
    destruct (tinv_run _ _ _ (tinv_init c) Hrun) as [I1 I2].
    unfold decide in Hd. cbn [t_clear_follower t_clear_health tcfg_repaired] in Hd.
    destruct (negb (r_lead (round_of ts n ms))); [discriminate|].
    destruct (r_snap (round_of ts n ms) =? 0)%N; [discriminate|].
    destruct (all_alive (round_of ts n ms)); [discriminate|].
    change (r_now (round_of ts n ms)) with (tclock ts) in Hd.
    destruct (ttim ts n) as [t|] eqn:Et.
    - destruct (T <? tclock ts - t)%Z eqn:E; [|discriminate]. apply Z.ltb_lt in E.
      destruct (I1 n t Et) as [_ B]. specialize (B z Hz). lia.
    - destruct (T <? tclock ts - tclock ts)%Z eqn:E; [|discriminate]. apply Z.ltb_lt in E.
      specialize (I2 n z Hz). lia.
  Qed.
End Timer.
