(* C05 - restart replay vs. entries committed after the restart.
   EngineImpl.startRaftNode starts the commit reader (readCommitFromRaft) and Assign then registers the partition and
   runs the restart replay (readReplayForReplication re-applies the entries (snapshot index, persisted commit]).
   Model.restart_node makes the replay atomic with the restart (the repaired order: the commit reader waits until the
   replay has been applied, fix3.patch). Today nothing orders the two: [apply_then_replay] is the other extreme - the
   entries the leader ships after the restart are applied first, the replay lands on top. *)
From Coq Require Import List Arith NArith ZArith Bool Lia.
From OG Require Import C05.Model C05.Proofs.
Import ListNotations.

Definition apply_all (c : config) (n : nat) (x : node) (es : list entry) : node :=
  fold_left (fun y e => apply_node c n y e) es x.

(* repaired order: restart (with its replay), then the newer entries in log order *)
Definition replay_then_apply (c : config) (n : nat) (x : node) (es : list entry) : node :=
  apply_all c n (restart_node c x) es.

(* what the replay of restart_node puts on top of the shard *)
Definition replay_part (x : node) : store :=
  let lo := Nat.max 1 (snap x) in
  if Nat.leb lo (efirst x) then [] else ents_store (seg lo (hcommit x) (elog x)).

(* the restart without its replay: shard WAL only *)
Definition restart_no_replay (c : config) (x : node) : node :=
  let base := wal x ++ walold x in
  mkNode true false (elog x) (efirst x) (hcommit x) (snap x) (if wal_on c then base else []) [] (files x)
         (hcommit x) (snap x) base [] false [] (nextpid x).

(* today's other extreme: newer entries first, the replay afterwards *)
Definition apply_then_replay (c : config) (n : nat) (x : node) (es : list entry) : node :=
  let y := apply_all c n (restart_no_replay c x) es in
  mkNode (up y) (paused y) (elog y) (efirst y) (hcommit y) (snap y)
         (if wal_on c then replay_part x ++ wal y else wal y) (walold y) (files y)
         (applied y) (snapc y) (replay_part x ++ mem y) (imm y) (sig y) (pend y) (nextpid y).

Lemma apply_all_mem : forall c n es x,
  mem (apply_all c n x es) = ents_store es ++ mem x /\ imm (apply_all c n x es) = imm x /\
  files (apply_all c n x es) = files x /\ applied (apply_all c n x es) = applied x + length es.
Proof.
  intros c n es. induction es as [|e es IH]; intros x; cbn [apply_all fold_left].
  - cbn. repeat split; lia.
  - destruct (IH (apply_node c n x e)) as (A & B & C & D). unfold apply_all in *. rewrite A, B, C, D. cbn.
    repeat split; try reflexivity; try lia. rewrite <- app_assoc. reflexivity.
Qed.

(* the repaired order gives the image of the log: if the restart alone reconstructs the first hc entries, the newer
   entries on top give the first hc + |es| entries *)
Lemma replay_then_apply_log_order : forall c n x es pre,
  sim (view (restart_node c x)) (ents_store pre) ->
  sim (view (replay_then_apply c n x es)) (ents_store (pre ++ es)) /\
  applied (replay_then_apply c n x es) = hcommit x + length es.
Proof.
  intros c n x es pre H. unfold replay_then_apply.
  destruct (apply_all_mem c n es (restart_node c x)) as (A & B & C & D). split.
  - unfold view in *. rewrite A, B, C, ents_store_app, <- app_assoc. apply sim_app_l. exact H.
  - rewrite D. reflexivity.
Qed.
