(* C05 - raft's persistence-before-send rule per role (lib/raftconn/node.go serveChannels).
   A member handles a Ready either on the FOLLOWER path (write entries + hard state, sync, then send its messages) or on
   the LEADER path (send first, write in parallel). The leader path is sound only for a leader: its own MsgApp does not
   acknowledge anything. A follower's MsgAppResp tells the leader "I hold the log up to index i"; the leader counts it
   towards the quorum, commits and acknowledges the client. Machine: per member the volatile log length v (what raft
   holds in memory) and the durable one d (what survives a kill); the leader's view match[m]; the committed index.
   path_ok = true: an acknowledgement carries only what is durable (follower path); false: it carries the volatile
   length (a follower that keeps using the leader path - e.g. an ex-leader whose flag is never reset). *)
From Coq Require Import List Arith Bool Lia.
Import ListNotations.

Record pst := mkP { pv : nat -> nat; pd : nat -> nat; pmatch : nat -> nat; pcommit : nat }.

Inductive pev :=
| PRecv (m k : nat)      (* member m receives an append: its in-memory log reaches k *)
| PPersist (m : nat)     (* SaveToStorage + TrySync *)
| PAck (m : nat)         (* MsgAppResp leaves member m and reaches the leader *)
| PKill (m : nat)        (* SIGKILL + restart: the in-memory log is what was durable *)
| PCommit (c : nat).     (* the leader commits c (and acknowledges the client) *)

Definition updf (f : nat -> nat) (m x : nat) : nat -> nat := fun j => if Nat.eqb j m then x else f j.
Definition cnt (n : nat) (p : nat -> bool) : nat := length (filter p (seq 0 n)).

Definition pstep (n : nat) (path_ok : bool) (s : pst) (e : pev) : option pst :=
  match e with
  | PRecv m k => if Nat.leb (pv s m) k then Some (mkP (updf (pv s) m k) (pd s) (pmatch s) (pcommit s)) else None
  | PPersist m => Some (mkP (pv s) (updf (pd s) m (pv s m)) (pmatch s) (pcommit s))
  | PAck m => Some (mkP (pv s) (pd s) (updf (pmatch s) m (Nat.max (pmatch s m) (if path_ok then pd s m else pv s m))) (pcommit s))
  | PKill m => Some (mkP (updf (pv s) m (pd s m)) (pd s) (pmatch s) (pcommit s))
  | PCommit c => if Nat.leb (pcommit s) c && Nat.ltb n (2 * cnt n (fun m => Nat.leb c (pmatch s m)))
                 then Some (mkP (pv s) (pd s) (pmatch s) c) else None
  end.

Fixpoint prun (n : nat) (path_ok : bool) (s : pst) (es : list pev) : option pst :=
  match es with [] => Some s | e :: r => match pstep n path_ok s e with Some s' => prun n path_ok s' r | None => None end end.

Definition pinit : pst := mkP (fun _ => 0) (fun _ => 0) (fun _ => 0) 0.

Lemma cnt_mono : forall n (p q : nat -> bool), (forall m, p m = true -> q m = true) -> cnt n p <= cnt n q.
Proof.
  intros n p q H. unfold cnt. induction (seq 0 n) as [|x l IH]; cbn; [lia|].
  destruct (p x) eqn:E; [rewrite (H x E); cbn; lia|destruct (q x); cbn; lia].
Qed.

(* what the leader believes of a member is durable there; what is committed is durable on a quorum *)
Definition PI (n : nat) (s : pst) : Prop :=
  (forall m, pmatch s m <= pd s m) /\ (forall m, pd s m <= pv s m) /\
  (pcommit s = 0 \/ n < 2 * cnt n (fun m => Nat.leb (pcommit s) (pd s m))).

Lemma updf_same : forall f m x, updf f m x m = x.
Proof. intros; unfold updf; rewrite Nat.eqb_refl; reflexivity. Qed.
Lemma updf_cases : forall f m x j, updf f m x j = x /\ j = m \/ updf f m x j = f j /\ j <> m.
Proof. intros f m x j. unfold updf. destruct (Nat.eqb j m) eqn:E; [left; apply Nat.eqb_eq in E; tauto|right; apply Nat.eqb_neq in E; tauto]. Qed.

Ltac ucase j := match goal with |- context [updf ?f ?m ?x j] => destruct (updf_cases f m x j) as [[-> ->]|[-> _]] end.

(* follower path: the invariant holds at every instant, whatever is killed whenever *)
Lemma pstep_inv : forall n s e s', PI n s -> pstep n true s e = Some s' -> PI n s'.
Proof.
  intros n s e s' (I1 & I2 & I3) H. destruct e as [m k|m|m|m|c]; unfold pstep in H; cbv iota in H.
  - destruct (Nat.leb (pv s m) k) eqn:E; [|discriminate]. apply Nat.leb_le in E. inversion H; subst; clear H. unfold PI. cbn [pv pd pmatch pcommit].
    split; [assumption|]. split; [|assumption]. intros j. ucase j; [specialize (I2 m); lia|apply I2].
  - inversion H; subst; clear H. unfold PI. cbn [pv pd pmatch pcommit]. split; [|split].
    + intros j. ucase j; [specialize (I1 m); specialize (I2 m); lia|apply I1].
    + intros j. ucase j; [lia|apply I2].
    + destruct I3 as [I3|I3]; [left; assumption|right]. eapply Nat.lt_le_trans; [exact I3|]. apply Nat.mul_le_mono_l. apply cnt_mono.
      intros j Hj. apply Nat.leb_le in Hj. apply Nat.leb_le.
      ucase j; [specialize (I2 m); lia|assumption].
  - inversion H; subst; clear H. unfold PI. cbn [pv pd pmatch pcommit]. split; [|split; assumption].
    intros j. ucase j; [specialize (I1 m); lia|apply I1].
  - inversion H; subst; clear H. unfold PI. cbn [pv pd pmatch pcommit]. split; [assumption|]. split; [|assumption].
    intros j. ucase j; [lia|apply I2].
  - destruct (Nat.leb (pcommit s) c && Nat.ltb n (2 * cnt n (fun m => Nat.leb c (pmatch s m)))) eqn:E; [|discriminate].
    apply andb_prop in E. destruct E as [_ E]. apply Nat.ltb_lt in E. inversion H; subst; clear H. unfold PI. cbn [pv pd pmatch pcommit].
    split; [assumption|]. split; [assumption|]. right.
    assert (Hm : cnt n (fun m => Nat.leb c (pmatch s m)) <= cnt n (fun m => Nat.leb c (pd s m))).
    { apply cnt_mono. intros j Hj. apply Nat.leb_le in Hj. apply Nat.leb_le. specialize (I1 j). lia. }
    lia.
Qed.

Lemma prun_inv : forall n es s s', PI n s -> prun n true s es = Some s' -> PI n s'.
Proof.
  intros n. induction es as [|e es IH]; intros s s' HI H; cbn in H; [inversion H; subst; assumption|].
  destruct (pstep n true s e) as [s1|] eqn:E; [|discriminate]. eapply IH; [eapply pstep_inv; eassumption|assumption].
Qed.

Lemma pi_init : forall n, PI n pinit.
Proof. intros n. split; [intros; cbn; lia|]. split; [intros; cbn; lia|left; reflexivity]. Qed.

(* acknowledged to the client (committed) => on the disk of a quorum, at every instant of every run *)
Lemma committed_on_disk_of_quorum : forall n es s, prun n true pinit es = Some s ->
  pcommit s = 0 \/ n < 2 * cnt n (fun m => Nat.leb (pcommit s) (pd s m)).
Proof. intros n es s H. destruct (prun_inv n es pinit s (pi_init n) H) as (_ & _ & I3). exact I3. Qed.
