(* C05 lemmas, part 1: lists, last-write-wins stores, replay idempotence, counting/quorum intersection. *)
From Coq Require Import List Arith NArith ZArith Bool Lia.
From OG Require Import C05.Model.
Import ListNotations.

Definition sim (a b : store) : Prop := forall k, get a k = get b k.
Definition pre (a b : list entry) : Prop := exists t, b = a ++ t.

Lemma get_app : forall a b k, get (a ++ b) k = match get a k with Some v => Some v | None => get b k end.
Proof.
  induction a as [|[k' v] a IH]; intros b k; cbn [get app]; [reflexivity|].
  destruct (N.eqb k k'); [reflexivity|apply IH].
Qed.

Lemma sim_refl : forall a, sim a a. Proof. intros a k; reflexivity. Qed.
Lemma sim_trans : forall a b c, sim a b -> sim b c -> sim a c.
Proof. intros a b c H1 H2 k; rewrite H1; apply H2. Qed.
Lemma sim_app_l : forall p a b, sim a b -> sim (p ++ a) (p ++ b).
Proof. intros p a b H k; rewrite !get_app, H; reflexivity. Qed.
Lemma sim_dup : forall z y x, sim (z ++ y ++ y ++ x) (z ++ y ++ x).
Proof. intros z y x k; rewrite !get_app; destruct (get z k); [reflexivity|]; destruct (get y k); reflexivity. Qed.

Lemma ents_store_app : forall a b, ents_store (a ++ b) = ents_store b ++ ents_store a.
Proof.
  induction a as [|e a IH]; intros b; cbn [ents_store app].
  - rewrite app_nil_r; reflexivity.
  - rewrite IH, app_assoc; reflexivity.
Qed.

Lemma ents_store_snoc : forall a e, ents_store (a ++ [e]) = entry_pairs e ++ ents_store a.
Proof. intros; rewrite ents_store_app; cbn [ents_store]; reflexivity. Qed.

Lemma firstn_S_nth : forall (A : Type) (l : list A) i x, nth_error l i = Some x -> firstn (S i) l = firstn i l ++ [x].
Proof.
  induction l as [|y l IH]; intros i x H; destruct i; cbn in *; try discriminate.
  - inversion H; reflexivity.
  - rewrite (IH _ _ H); reflexivity.
Qed.

Lemma skipn_split : forall (A : Type) (F : list A) j d, j <= d -> d <= length F ->
  skipn j F = skipn j (firstn d F) ++ skipn d F.
Proof.
  intros A F j d Hj Hd.
  rewrite <- (firstn_skipn d F) at 1.
  rewrite skipn_app, firstn_length, Nat.min_l by assumption.
  replace (j - d) with 0 by lia; reflexivity.
Qed.

Lemma firstn_pre : forall (g t : list entry) i, i <= length g -> firstn i (g ++ t) = firstn i g.
Proof. intros; rewrite firstn_app; replace (i - length g) with 0 by lia; cbn; rewrite app_nil_r; reflexivity. Qed.

Lemma replay_lists : forall X Y Z base, sim base (ents_store (X ++ Y)) ->
  sim (ents_store (Y ++ Z) ++ base) (ents_store (X ++ Y ++ Z)).
Proof.
  intros X Y Z base Hb. rewrite !ents_store_app in *.
  eapply sim_trans.
  - rewrite <- app_assoc. apply sim_app_l. apply sim_app_l. exact Hb.
  - rewrite <- !app_assoc. apply sim_dup.
Qed.

(* replaying entries (j, c] on top of a shard that already contains the first d entries, j <= d <= c, gives exactly
   the first c entries: re-applied older writes are overwritten again by the re-applied newer ones *)
Lemma replay_idem : forall (g : list entry) base j d c,
  j <= d -> d <= c -> c <= length g ->
  sim base (ents_store (firstn d g)) ->
  sim (ents_store (skipn j (firstn c g)) ++ base) (ents_store (firstn c g)).
Proof.
  intros g base j d c Hj Hd Hc Hb.
  assert (HF : length (firstn c g) = c) by (rewrite firstn_length; lia).
  assert (Hd' : firstn d (firstn c g) = firstn d g) by (rewrite firstn_firstn; f_equal; lia).
  assert (E3 : firstn d g = firstn j g ++ skipn j (firstn d g)).
  { rewrite <- (firstn_skipn j (firstn d g)) at 1. rewrite firstn_firstn, Nat.min_l by lia; reflexivity. }
  assert (E1 : skipn j (firstn c g) = skipn j (firstn d g) ++ skipn d (firstn c g)).
  { rewrite <- Hd'. apply skipn_split; lia. }
  assert (E2 : firstn c g = firstn j g ++ skipn j (firstn d g) ++ skipn d (firstn c g)).
  { rewrite <- (firstn_skipn d (firstn c g)) at 1. rewrite Hd'. rewrite E3 at 1. rewrite <- app_assoc; reflexivity. }
  rewrite E3 in Hb. rewrite E1.
  pose proof (replay_lists _ _ (skipn d (firstn c g)) _ Hb) as H.
  rewrite <- E2 in H. exact H.
Qed.

(* ---------------------------------------------------------------- entry equality / prefix *)
Lemma batch_eqb_eq : forall a b, batch_eqb a b = true <-> a = b.
Proof.
  induction a as [|[k v] a IH]; destruct b as [|[k' v'] b]; cbn; split; intros H; try reflexivity; try discriminate.
  - apply andb_prop in H; destruct H as [H H3]; apply andb_prop in H; destruct H as [H1 H2].
    apply N.eqb_eq in H1; apply Z.eqb_eq in H2; apply IH in H3; subst; reflexivity.
  - inversion H; subst. rewrite N.eqb_refl, Z.eqb_refl; cbn. apply IH; reflexivity.
Qed.

Lemma entry_eqb_eq : forall x y, entry_eqb x y = true <-> x = y.
Proof.
  destruct x, y; cbn; split; intros H; try reflexivity; try discriminate.
  - apply andb_prop in H; destruct H as [H H3]; apply andb_prop in H; destruct H as [H1 H2].
    apply Nat.eqb_eq in H1; apply N.eqb_eq in H2; apply batch_eqb_eq in H3; subst; reflexivity.
  - inversion H; subst. rewrite Nat.eqb_refl, N.eqb_refl; cbn. apply batch_eqb_eq; reflexivity.
  - apply Nat.eqb_eq in H; subst; reflexivity.
  - inversion H; apply Nat.eqb_refl.
Qed.

Lemma prefixb_spec : forall a b, prefixb a b = true <-> pre a b.
Proof.
  unfold prefixb, pre. induction a as [|x a IH]; intros b; cbn.
  - split; intros _; [exists b|]; reflexivity.
  - destruct b as [|y b]; cbn.
    + split; [discriminate|intros [t H]; discriminate].
    + split.
      * intros H; apply andb_prop in H; destruct H as [H1 H2]. apply entry_eqb_eq in H1; subst.
        apply IH in H2; destruct H2 as [t ->]. exists t; reflexivity.
      * intros [t H]; inversion H; subst. apply andb_true_intro; split; [apply entry_eqb_eq; reflexivity|].
        apply IH; exists t; reflexivity.
Qed.

Lemma pre_refl : forall a, pre a a. Proof. intros a; exists []; rewrite app_nil_r; reflexivity. Qed.
Lemma pre_app : forall a b t, pre a b -> pre a (b ++ t).
Proof. intros a b t [u ->]; exists (u ++ t); rewrite app_assoc; reflexivity. Qed.
Lemma pre_firstn : forall a b k, pre a b -> length a <= k -> pre a (firstn k b).
Proof.
  intros a b k [t ->] H. exists (firstn (k - length a) t).
  rewrite firstn_app. f_equal. rewrite firstn_all2 by lia; reflexivity.
Qed.
Lemma pre_firstn_self : forall (b : list entry) k, pre (firstn k b) b.
Proof. intros b k; exists (skipn k b); symmetry; apply firstn_skipn. Qed.
Lemma pre_length : forall a b, pre a b -> length a <= length b.
Proof. intros a b [t ->]; rewrite app_length; lia. Qed.
Lemma pre_firstn_eq : forall a b i, pre a b -> i <= length a -> firstn i b = firstn i a.
Proof. intros a b i [t ->] H; apply firstn_pre; assumption. Qed.
Lemma pre_trans : forall a b c, pre a b -> pre b c -> pre a c.
Proof. intros a b c [t ->] [u ->]; exists (t ++ u); rewrite app_assoc; reflexivity. Qed.
Lemma pre_In : forall a b e, pre a b -> In e a -> In e b.
Proof. intros a b e [t ->] H; apply in_or_app; left; assumption. Qed.

(* ---------------------------------------------------------------- counting: two majorities intersect *)
Lemma count_mono_list : forall (p q : nat -> bool) l, (forall m, In m l -> p m = true -> q m = true) ->
  length (filter p l) <= length (filter q l).
Proof.
  induction l as [|x l IH]; intros H; cbn; [lia|].
  assert (IH' : length (filter p l) <= length (filter q l)) by (apply IH; intros; apply H; [right|]; assumption).
  destruct (p x) eqn:Hp.
  - rewrite (H x (or_introl eq_refl) Hp); cbn; lia.
  - destruct (q x); cbn; lia.
Qed.

Lemma count_inter_list : forall (p q : nat -> bool) l,
  length (filter p l) + length (filter q l) <= length l + length (filter (fun m => p m && q m) l).
Proof.
  induction l as [|x l IH]; cbn; [lia|].
  destruct (p x), (q x); cbn; lia.
Qed.

Lemma majorities_meet : forall (p q : nat -> bool) n,
  n < 2 * count p n -> n < 2 * count q n -> exists m, m < n /\ p m = true /\ q m = true.
Proof.
  intros p q n Hp Hq. unfold count in *.
  pose proof (count_inter_list p q (seq 0 n)) as H. rewrite seq_length in H.
  destruct (filter (fun m => p m && q m) (seq 0 n)) as [|m r] eqn:E.
  - cbn in H; lia.
  - assert (Hin : In m (filter (fun m => p m && q m) (seq 0 n))) by (rewrite E; left; reflexivity).
    apply filter_In in Hin; destruct Hin as [Hs Hb]. apply in_seq in Hs. apply andb_prop in Hb.
    exists m; split; [lia|exact Hb].
Qed.

(* ---------------------------------------------------------------- truncation arithmetic *)
Lemma tr_first_le : forall f t, tr_first f t <= t - 1.
Proof.
  intros f t; unfold tr_first. destruct (Nat.eqb t 0) eqn:E; [lia|].
  destruct f as [|f]; [cbn; lia|].
  rewrite Nat.mul_comm. apply Nat.mul_div_le. lia.
Qed.
