(* C05 lemmas, part 4: trace-level statements, replica-group rotation, reference oracle. *)
From Coq Require Import List Arith NArith ZArith Bool Lia Permutation.
From OG Require Import C05.Model C05.Proofs C05.Invariant C05.Theorems.
Import ListNotations.

Definition wf_cfg (c : config) : Prop :=
  0 < nn c /\ wal_on c = true /\ clamp c = true /\ pid_fresh c = true /\ trunc_all c = true /\ snap_install c = false.

Section Traces.
  Variable raft_ok : sys -> event -> bool.
  Hypothesis H_elect : forall s n, raft_ok s (RElect n) = true ->
    up (nodes s n) = true /\ prefixb (glog s) (elog (nodes s n)) = true.
  Hypothesis H_repl : forall s m k, raft_ok s (RReplicate m k) = true ->
    exists l, leader s = Some l /\ m <> l /\ up (nodes s m) = true /\ hcommit (nodes s m) <= k /\
              k <= length (elog (nodes s l)) /\
              (prefixb (glog s) (elog (nodes s m)) = true -> length (glog s) <= k).
  Hypothesis H_commit : forall s k, raft_ok s (RCommit k) = true ->
    exists l, leader s = Some l /\ length (glog s) <= k /\ k <= length (elog (nodes s l)) /\
              nn (cfg s) < 2 * count (fun m => prefixb (firstn k (elog (nodes s l))) (elog (nodes s m))) (nn (cfg s)).
  Hypothesis H_learn : forall s m c, raft_ok s (RLearn m c) = true ->
    up (nodes s m) = true /\ hcommit (nodes s m) <= c /\ c <= length (glog s) /\
    firstn c (elog (nodes s m)) = firstn c (glog s).

  Lemma run_invp : forall es s s', good_cfg (cfg s) -> pid_fresh (cfg s) = true -> Inv s -> InvP s ->
    run raft_ok s es = Some s' -> InvP s'.
  Proof.
    induction es as [|e es IH]; intros s s' Hc Hf HI HP H; cbn in H.
    - inversion H; subst; assumption.
    - destruct (step raft_ok s e) as [s1|] eqn:Hs; [|discriminate].
      pose proof (step_cfg raft_ok _ _ _ Hs) as Hc1.
      apply (IH s1 s'); try (rewrite Hc1; assumption); try assumption.
      + eapply (step_inv raft_ok H_elect H_repl H_commit H_learn); eassumption.
      + eapply (step_invp raft_ok H_repl H_commit); eassumption.
  Qed.

  Lemma reach : forall c es s, wf_cfg c -> run raft_ok (init c) es = Some s -> Inv s /\ InvP s /\ cfg s = c.
  Proof.
    intros c es s (Hn & Hw & Hcl & Hf & Hta & Hsi) H.
    destruct (run_inv raft_ok H_elect H_repl H_commit H_learn es (init c) s) as [A B]; try assumption.
    - repeat split; assumption.
    - apply inv_init; assumption.
    - split; [assumption|split; [|assumption]].
      apply (run_invp es (init c) s); [repeat split; assumption|assumption|apply inv_init; assumption|apply invp_init|assumption].
  Qed.

  (* an acknowledged write is a committed entry carrying exactly the acknowledged batch *)
  Lemma ack_committed : forall c es s o p b, wf_cfg c -> run raft_ok (init c) es = Some s ->
    In (o, p, b) (acked s) -> In (EData o p b) (glog s).
  Proof. intros c es s o p b Hc H Hin. destruct (reach _ _ _ Hc H) as (_ & HP & _). eapply p_ack; eassumption. Qed.

  (* durable logs agree with the committed sequence; what is read is the last-write-wins image of the applied
     prefix; with a majority available some available node holds every committed entry *)
  Lemma survives : forall c es s, wf_cfg c -> run raft_ok (init c) es = Some s ->
    (forall n, hcommit (nodes s n) <= length (glog s) /\
               firstn (hcommit (nodes s n)) (elog (nodes s n)) = firstn (hcommit (nodes s n)) (glog s)) /\
    (forall l, leader s = Some l -> pre (glog s) (elog (nodes s l))) /\
    (forall n, up (nodes s n) = true ->
               applied (nodes s n) <= hcommit (nodes s n) /\
               forall k, read s n k = get (ents_store (firstn (applied (nodes s n)) (glog s))) k) /\
    (minority_down s = true -> exists n, n < nn c /\ avail (nodes s n) = true /\ pre (glog s) (elog (nodes s n))).
  Proof.
    intros c es s Hc H. destruct (reach _ _ _ Hc H) as ((HN & HL & HQ) & _ & Hcfg).
    split; [|split; [|split]].
    - intros n. destruct (HN n) as [A B _ _ _]. split; assumption.
    - intros l Hl. apply HL; assumption.
    - intros n Hu. destruct (HN n) as [_ _ _ D _]. destruct (D Hu) as (D1 & _ & _ & _ & D5 & _). split; [assumption|apply D5].
    - intros Hm. unfold minority_down, quorum in Hm. apply Nat.ltb_lt in Hm. rewrite Hcfg in *.
      destruct (majorities_meet _ _ _ HQ Hm) as (n & Hn & Hp & Ha).
      exists n; split; [assumption|split; [assumption|apply prefixb_spec; assumption]].
  Qed.

  (* which replica answers does not matter: two caught-up replicas return the last committed write of every key *)
  Lemma replicas_agree : forall c es s n m k, wf_cfg c -> run raft_ok (init c) es = Some s ->
    caught_up s n = true -> caught_up s m = true ->
    read s n k = read s m k /\ read s n k = get (ents_store (glog s)) k.
  Proof.
    intros c es s n m k Hc H Hn Hm. destruct (survives _ _ _ Hc H) as (_ & _ & HR & _).
    unfold caught_up in *. apply andb_prop in Hn; destruct Hn as [Hn1 Hn2]. apply andb_prop in Hm; destruct Hm as [Hm1 Hm2].
    apply Nat.eqb_eq in Hn2, Hm2. apply avail_up in Hn1. apply avail_up in Hm1.
    destruct (HR n Hn1) as [_ Rn]. destruct (HR m Hm1) as [_ Rm].
    rewrite Rn, Rm, Hn2, Hm2, firstn_all. split; reflexivity.
  Qed.

  (* snapshot index obligation: the persisted snapshot index never exceeds what the durable shard state (files and
     shard WAL) contains; a restart therefore reconstructs every entry up to the persisted commit index *)
  Lemma snapshot_safe : forall c es s n, wf_cfg c -> run raft_ok (init c) es = Some s ->
    (up (nodes s n) = true -> snap (nodes s n) <= applied (nodes s n) /\ dview (nodes s n) = view (nodes s n)) /\
    (up (nodes s n) = false ->
       (exists d, snap (nodes s n) <= d /\ d <= hcommit (nodes s n) /\
                  forall k, get (dview (nodes s n)) k = get (ents_store (firstn d (glog s))) k) /\
       forall s', step raft_ok s (Restart n) = Some s' ->
                  applied (nodes s' n) = hcommit (nodes s n) /\
                  forall k, read s' n k = get (ents_store (firstn (hcommit (nodes s n)) (glog s))) k).
  Proof.
    intros c es s n Hc H. destruct (reach _ _ _ Hc H) as (HI & _ & Hcfg). pose proof HI as (HN & _ & _).
    split.
    - intros Hu. destruct (HN n) as [_ _ _ D _]. destruct (D Hu) as (D1 & D2 & D3 & D4 & D5 & D6 & D7).
      split; [lia|]. unfold dview, view. rewrite D6, D7; reflexivity.
    - intros Hd. split.
      + destruct (HN n) as [_ _ _ _ E]. destruct (E Hd) as (d & E1 & E2 & E3 & E4). exists d; repeat split; assumption.
      + intros s' Hs.
        assert (HI' : Inv s').
        { eapply (step_inv raft_ok H_elect H_repl H_commit H_learn); [|exact HI|exact Hs].
          destruct Hc as (_ & Hw & Hcl & _ & _ & Hsi). rewrite Hcfg; repeat split; assumption. }
        cbn [step] in Hs. rewrite Hd in Hs. inversion Hs; subst s'; clear Hs.
        destruct HI' as (HN' & _ & _). specialize (HN' n). cbn in HN'. rewrite upd_same in HN'.
        destruct HN' as [_ _ _ D _]. cbn in D. destruct (D eq_refl) as (_ & _ & _ & _ & D5 & _).
        cbn. rewrite upd_same. split; [reflexivity|]. intros k. unfold read. cbn. rewrite upd_same. apply D5.
  Qed.

  (* truncation never removes an entry the member may still have to replay, nor one it has not applied *)
  Lemma truncate_safe_all : forall c es s n, wf_cfg c -> run raft_ok (init c) es = Some s ->
    (efirst (nodes s n) = 0 \/ efirst (nodes s n) < snap (nodes s n)) /\
    (up (nodes s n) = true -> efirst (nodes s n) <= applied (nodes s n)).
  Proof.
    intros c es s n Hc H. destruct (reach _ _ _ Hc H) as ((HN & _ & _) & _ & _).
    destruct (HN n) as [_ _ C D _]. split; [assumption|]. intros Hu. destruct (D Hu) as (_ & _ & _ & D4 & _). assumption.
  Qed.

  (* a rejoined (or lagging) replica can always apply the next committed entry it knows of *)
  Lemma apply_enabled : forall c es s n, wf_cfg c -> run raft_ok (init c) es = Some s ->
    avail (nodes s n) = true -> applied (nodes s n) < hcommit (nodes s n) ->
    exists s', step raft_ok s (Apply n) = Some s' /\ applied (nodes s' n) = S (applied (nodes s n)).
  Proof.
    intros c es s n Hc H Ha Hlt. destruct (reach _ _ _ Hc H) as ((HN & _ & _) & _ & _).
    pose proof (hc_le_elog _ _ (HN n)) as Hl. destruct (HN n) as [_ _ _ D _].
    destruct (D (avail_up _ Ha)) as (_ & _ & _ & D4 & _).
    cbn [step]. rewrite Ha. apply Nat.ltb_lt in Hlt. rewrite Hlt. apply Nat.leb_le in D4. rewrite D4. cbn [andb].
    destruct (nth_error (elog (nodes s n)) (applied (nodes s n))) eqn:E.
    - eexists; split; [reflexivity|]. cbn. rewrite upd_same. reflexivity.
    - apply nth_error_None in E. apply Nat.ltb_lt in Hlt. lia.
  Qed.
  (* ---- the leader keeps what any member (also a dead one) still lacks: with trunc_all every truncation index has
     been persisted as committed by EVERY member, so no member ever needs a raft snapshot *)
  Definition InvJ (s : sys) : Prop :=
    (forall n idx, In (EClear idx) (elog (nodes s n)) -> forall m, m < nn (cfg s) -> idx <= hcommit (nodes s m)) /\
    (forall n m, m < nn (cfg s) -> efirst (nodes s n) <= hcommit (nodes s m)).

  Lemma members_have_spec : forall s idx m, members_have s idx = true -> m < nn (cfg s) -> idx <= hcommit (nodes s m).
  Proof.
    intros s idx m H Hm. unfold members_have in H. rewrite forallb_forall in H.
    apply Nat.leb_le. apply H. apply in_seq. lia.
  Qed.

  Lemma invj_frame_node : forall s s' n x', InvJ s ->
    nodes s' = upd (nodes s) n x' -> cfg s' = cfg s ->
    (forall idx, In (EClear idx) (elog x') -> (exists n0, In (EClear idx) (elog (nodes s n0))) \/
                                            (forall m, m < nn (cfg s) -> idx <= hcommit (nodes s m))) ->
    hcommit (nodes s n) <= hcommit x' -> (forall m, m < nn (cfg s) -> efirst x' <= hcommit (nodes s m)) -> InvJ s'.
  Proof.
    intros s s' n x' [J1 J2] Hn Hc F1 F2 F3. split.
    - intros n0 idx Hin m Hm. rewrite Hc in Hm. rewrite Hn in *. unfold upd in *.
      assert (Hh : hcommit (nodes s m) <= hcommit (if Nat.eqb m n then x' else nodes s m)).
      { destruct (Nat.eqb m n) eqn:E; [apply Nat.eqb_eq in E; subst; assumption|lia]. }
      destruct (Nat.eqb n0 n) eqn:E.
      + destruct (F1 _ Hin) as [[n1 H1]|H1]; [specialize (J1 _ _ H1 m Hm)|specialize (H1 m Hm)]; lia.
      + specialize (J1 _ _ Hin m Hm). lia.
    - intros n0 m Hm. rewrite Hc in Hm. rewrite Hn. unfold upd.
      assert (Hh : hcommit (nodes s m) <= hcommit (if Nat.eqb m n then x' else nodes s m)).
      { destruct (Nat.eqb m n) eqn:E; [apply Nat.eqb_eq in E; subst; assumption|lia]. }
      destruct (Nat.eqb n0 n) eqn:E.
      + apply Nat.eqb_eq in E; subst. specialize (F3 m Hm). lia.
      + specialize (J2 n0 m Hm). lia.
  Qed.

  Lemma step_invj : forall s e s', trunc_all (cfg s) = true -> snap_install (cfg s) = false ->
    InvJ s -> step raft_ok s e = Some s' -> InvJ s'.
  Proof.
    intros s e s' Hta Hsi [J1 J2] H.
    assert (Hcfg : cfg s' = cfg s) by (eapply step_cfg; eassumption).
    (* generic frame: logs only keep/copy EClear entries already in some log, hcommit only grows, efirst unchanged *)
    assert (Frame : (forall n idx, In (EClear idx) (elog (nodes s' n)) -> exists n0, In (EClear idx) (elog (nodes s n0))) ->
                    (forall m, hcommit (nodes s m) <= hcommit (nodes s' m)) ->
                    (forall n, efirst (nodes s' n) = efirst (nodes s n)) -> InvJ s').
    { intros F1 F2 F3. split.
      - intros n idx Hin m Hm. rewrite Hcfg in Hm. destruct (F1 _ _ Hin) as [n0 H0]. specialize (J1 _ _ H0 m Hm). specialize (F2 m). lia.
      - intros n m Hm. rewrite Hcfg in Hm. rewrite F3. specialize (J2 n m Hm). specialize (F2 m). lia. }
    destruct e; cbn [step] in H.
    - (* Propose *)
      destruct (avail (nodes s n)); [|discriminate].
      set (x := nodes s n) in *.
      set (x' := mkNode (up x) (paused x) (elog x) (efirst x) (hcommit x) (snap x) (wal x) (walold x) (files x)
                        (applied x) (snapc x) (mem x) (imm x) (sig x) ((N.succ (nextpid x), b) :: pend x) (N.succ (nextpid x))) in *.
      assert (Hx1 : hcommit x' = hcommit x) by reflexivity.
      assert (Hx2 : efirst x' = efirst x) by reflexivity.
      assert (Hx3 : elog x' = elog x) by reflexivity.
      clearbody x'.
      destruct (leader s) as [l|].
      + cbn [set_node set_nodes nodes] in H.
        destruct (avail (upd (nodes s) n x' l)); inversion H; subst; clear H; apply Frame; cbn; unfold upd.
        * intros n0 idx Hin. destruct (Nat.eqb n0 l) eqn:E1; cbn in Hin.
          -- apply in_app_or in Hin. destruct Hin as [Hin | [Hin | [] ] ]; [|discriminate].
             destruct (Nat.eqb l n) eqn:E2; [apply Nat.eqb_eq in E2; subst; rewrite Hx3 in Hin|]; eauto.
          -- destruct (Nat.eqb n0 n) eqn:E2; [apply Nat.eqb_eq in E2; subst; rewrite Hx3 in Hin|]; eauto.
        * intros m. destruct (Nat.eqb m l) eqn:E1; cbn.
          -- apply Nat.eqb_eq in E1; subst. destruct (Nat.eqb l n) eqn:E2; [apply Nat.eqb_eq in E2; subst; fold x; lia|lia].
          -- destruct (Nat.eqb m n) eqn:E2; [apply Nat.eqb_eq in E2; subst; fold x; lia|lia].
        * intros m. destruct (Nat.eqb m l) eqn:E1; cbn.
          -- apply Nat.eqb_eq in E1; subst. destruct (Nat.eqb l n) eqn:E2; [apply Nat.eqb_eq in E2; subst; fold x; lia|reflexivity].
          -- destruct (Nat.eqb m n) eqn:E2; [apply Nat.eqb_eq in E2; subst; fold x; lia|reflexivity].
        * intros n0 idx Hin. destruct (Nat.eqb n0 n) eqn:E2; [apply Nat.eqb_eq in E2; subst; rewrite Hx3 in Hin|]; eauto.
        * intros m. destruct (Nat.eqb m n) eqn:E2; [apply Nat.eqb_eq in E2; subst; fold x; lia|lia].
        * intros m. destruct (Nat.eqb m n) eqn:E2; [apply Nat.eqb_eq in E2; subst; fold x; lia|reflexivity].
      + inversion H; subst; clear H; apply Frame; cbn; unfold upd.
        * intros n0 idx Hin. destruct (Nat.eqb n0 n) eqn:E2; [apply Nat.eqb_eq in E2; subst; rewrite Hx3 in Hin|]; eauto.
        * intros m. destruct (Nat.eqb m n) eqn:E2; [apply Nat.eqb_eq in E2; subst; fold x; lia|lia].
        * intros m. destruct (Nat.eqb m n) eqn:E2; [apply Nat.eqb_eq in E2; subst; fold x; lia|reflexivity].
    - inversion H; subst; eapply (invj_frame_node s _ n); [split; assumption|reflexivity|reflexivity|cbn; intros; left; eauto|cbn; lia|cbn; intros; apply J2; assumption].
    - destruct (raft_ok s (RElect n)); inversion H; subst; apply Frame; cbn; intros; try lia; eauto.
    - inversion H; subst; apply Frame; cbn; intros; try lia; eauto.
    - (* RReplicate *)
      destruct (raft_ok s (RReplicate m k)) eqn:Hr; [|discriminate]. cbn [andb] in H.
      destruct (H_repl _ _ _ Hr) as (l & Hl & _). rewrite Hl in H.
      destruct (Nat.leb _ _) in H; [|discriminate]. inversion H; subst; clear H. cbn [raft_effect]. rewrite Hl.
      eapply (invj_frame_node s _ m); [split; assumption|reflexivity|reflexivity| |cbn; lia|cbn; intros; apply J2; assumption].
      cbn. intros idx Hin. left. exists l. eapply In_firstn; eassumption.
    - (* RCommit *)
      destruct (raft_ok s (RCommit k)) eqn:Hr; [|discriminate]. inversion H; subst; clear H.
      cbn [raft_effect]. destruct (leader s); apply Frame; cbn; intros; try lia; eauto.
    - (* RLearn *)
      destruct (raft_ok s (RLearn m c)) eqn:Hr; [|discriminate]. inversion H; subst; clear H.
      destruct (H_learn _ _ _ Hr) as (_ & Hc1 & _).
      eapply (invj_frame_node s _ m); [split; assumption|reflexivity|reflexivity|cbn; intros; left; eauto|cbn; lia|cbn; intros; apply J2; assumption].
    - (* Apply *)
      set (x := nodes s n) in *.
      destruct (avail x && Nat.ltb (applied x) (hcommit x) && Nat.leb (efirst x) (applied x)); [|discriminate].
      destruct (nth_error (elog x) (applied x)) as [en|] eqn:Hnth; [|discriminate].
      inversion H; subst; clear H.
      eapply (invj_frame_node s _ n); [split; assumption|reflexivity|reflexivity|cbn; intros; left; eauto|cbn; unfold x; lia|].
      intros m Hm. cbn -[Nat.max Nat.min tr_first]. fold x.
      destruct en; try (apply J2; assumption).
      apply nth_error_In in Hnth. specialize (J1 n idx Hnth m Hm). specialize (J2 n m Hm). fold x in J2.
      pose proof (tr_first_le (fsz (cfg s)) (if clamp (cfg s) then Nat.min idx (snap x) else idx)).
      destruct (clamp (cfg s)); lia.
    - destruct (avail (nodes s n)); [|discriminate]. inversion H; subst; eapply (invj_frame_node s _ n); [split; assumption|reflexivity|reflexivity|cbn; intros; left; eauto|cbn; lia|cbn; intros; apply J2; assumption].
    - match type of H with (if ?b then _ else _) = _ => destruct b; [|discriminate] end.
      inversion H; subst; eapply (invj_frame_node s _ n); [split; assumption|reflexivity|reflexivity|cbn; intros; left; eauto|cbn; lia|cbn; intros; apply J2; assumption].
    - match type of H with (if ?b then _ else _) = _ => destruct b; [|discriminate] end.
      inversion H; subst; eapply (invj_frame_node s _ n); [split; assumption|reflexivity|reflexivity|cbn; intros; left; eauto|cbn; lia|cbn; intros; apply J2; assumption].
    - destruct (avail (nodes s n)); [|discriminate]. inversion H; subst; eapply (invj_frame_node s _ n); [split; assumption|reflexivity|reflexivity|cbn; intros; left; eauto|cbn; lia|cbn; intros; apply J2; assumption].
    - (* TruncPropose *)
      destruct (leader s) as [l|] eqn:Hl; [|discriminate].
      destruct (avail (nodes s l) && all_up s && negb (Nat.eqb (snap (nodes s l)) 0)); cbn [andb] in H; [|discriminate].
      rewrite Hta in H. cbn [negb orb] in H.
      destruct (members_have s (trunc_idx (cfg s) mm (snap (nodes s l)))) eqn:Hmh; [|discriminate].
      inversion H; subst; clear H.
      eapply (invj_frame_node s _ l); [split; assumption|reflexivity|reflexivity| |cbn; lia|cbn; intros; apply J2; assumption].
      cbn. intros idx Hin. apply in_app_or in Hin. destruct Hin as [Hin | [Hin | [] ] ]; [left; eauto|].
      inversion Hin; subst idx. right. intros m Hm. eapply members_have_spec; eassumption.
    - (* TruncForce *)
      destruct (leader s) as [l|] eqn:Hl; [|discriminate].
      destruct (avail (nodes s l) && negb (Nat.eqb (snap (nodes s l)) 0)); cbn [andb] in H; [|discriminate].
      rewrite Hta in H. cbn [negb orb] in H.
      destruct (members_have s (trunc_idx (cfg s) mm (snap (nodes s l)))) eqn:Hmh; [|discriminate].
      inversion H; subst; clear H.
      eapply (invj_frame_node s _ l); [split; assumption|reflexivity|reflexivity| |cbn; lia|cbn; intros; apply J2; assumption].
      cbn. intros idx Hin. apply in_app_or in Hin. destruct Hin as [Hin | [Hin | [] ] ]; [left; eauto|].
      inversion Hin; subst idx. right. intros m Hm. eapply members_have_spec; eassumption.
    - (* TruncLocal *)
      set (x := nodes s n) in *.
      destruct (avail x); cbn [andb] in H; [|discriminate]. rewrite Hta in H. cbn [negb orb] in H.
      destruct (members_have s (snap x)) eqn:Hmh; [|discriminate].
      inversion H; subst; clear H.
      eapply (invj_frame_node s _ n); [split; assumption|reflexivity|reflexivity|cbn; intros; left; eauto|cbn; unfold x; lia|].
      intros m Hm. cbn -[Nat.max tr_first]. fold x.
      pose proof (tr_first_le (fsz (cfg s)) (snap x)). pose proof (members_have_spec _ _ m Hmh Hm). specialize (J2 n m Hm). fold x in J2. lia.
    - (* RSnapshot *)
      destruct (leader s); [|discriminate]. rewrite Hsi in H. cbn in H. discriminate.
    - (* Kill *)
      destruct (up (nodes s n)); [|discriminate]. inversion H; subst; eapply (invj_frame_node s _ n); [split; assumption|reflexivity|reflexivity|cbn; intros; left; eauto|cbn; lia|cbn; intros; apply J2; assumption].
    - (* Restart *)
      destruct (up (nodes s n)); [discriminate|]. inversion H; subst; eapply (invj_frame_node s _ n); [split; assumption|reflexivity|reflexivity|cbn; intros; left; eauto|cbn; lia|cbn; intros; apply J2; assumption].
    - destruct (up (nodes s n)); [|discriminate]. inversion H; subst; eapply (invj_frame_node s _ n); [split; assumption|reflexivity|reflexivity|cbn; intros; left; eauto|cbn; lia|cbn; intros; apply J2; assumption].
    - destruct (up (nodes s n)); [|discriminate]. inversion H; subst; eapply (invj_frame_node s _ n); [split; assumption|reflexivity|reflexivity|cbn; intros; left; eauto|cbn; lia|cbn; intros; apply J2; assumption].
    - destruct (get_new_rg (master s) (peers s) newm) as [[m' ps']|]; inversion H; subst; apply Frame; cbn; intros; try lia; eauto.
  Qed.

  Lemma members_keep_entries : forall c es s n m, wf_cfg c -> run raft_ok (init c) es = Some s ->
    m < nn c -> efirst (nodes s n) <= hcommit (nodes s m) /\ efirst (nodes s n) <= length (elog (nodes s m)).
  Proof.
    intros c es s n m Hc H Hm.
    assert (HJ : forall es s0 s1, cfg s0 = c -> InvJ s0 -> run raft_ok s0 es = Some s1 -> InvJ s1 /\ cfg s1 = c).
    { clear es s H. induction es as [|e es IH]; intros s0 s1 Hc0 HJ0 H; cbn in H.
      - inversion H; subst; split; [assumption|reflexivity].
      - destruct (step raft_ok s0 e) as [s2|] eqn:Hs; [|discriminate].
        apply (IH s2 s1); [rewrite (step_cfg raft_ok _ _ _ Hs); assumption| |assumption].
        destruct Hc as (_ & _ & _ & _ & Hta & Hsi). eapply step_invj; try eassumption; rewrite Hc0; assumption. }
    destruct (HJ es (init c) s eq_refl) as [[J1 J2] Hcs]; [|assumption|].
    - split; cbn; intros; [contradiction|lia].
    - destruct (reach _ _ _ Hc H) as ((HN & _ & _) & _ & _).
      rewrite <- Hcs in Hm. specialize (J2 n m Hm). pose proof (hc_le_elog _ _ (HN m)). lia.
  Qed.
End Traces.

(* ------------------------------------------------------------------ the reference oracle satisfies the raft facts *)
Lemma ref_elect : forall s n, raft_ref s (RElect n) = true ->
  up (nodes s n) = true /\ prefixb (glog s) (elog (nodes s n)) = true.
Proof.
  intros s n H. cbn in H. apply andb_prop in H; destruct H as [H _]. apply andb_prop in H; destruct H as [H1 H2].
  split; [apply avail_up|]; assumption.
Qed.

Lemma ref_repl : forall s m k, raft_ref s (RReplicate m k) = true ->
  exists l, leader s = Some l /\ m <> l /\ up (nodes s m) = true /\ hcommit (nodes s m) <= k /\
            k <= length (elog (nodes s l)) /\
            (prefixb (glog s) (elog (nodes s m)) = true -> length (glog s) <= k).
Proof.
  intros s m k H. cbn in H. destruct (leader s) as [l|]; [|discriminate]. exists l.
  repeat (apply andb_prop in H; destruct H as [H ?]).
  split; [reflexivity|]. split; [apply Nat.eqb_neq; apply negb_true_iff; assumption|].
  split; [apply avail_up; assumption|]. split; [apply Nat.leb_le; assumption|]. split; [apply Nat.leb_le; assumption|].
  intros Hp. rewrite Hp in *. cbn in *. apply Nat.leb_le; assumption.
Qed.

Lemma ref_commit : forall s k, raft_ref s (RCommit k) = true ->
  exists l, leader s = Some l /\ length (glog s) <= k /\ k <= length (elog (nodes s l)) /\
            nn (cfg s) < 2 * count (fun m => prefixb (firstn k (elog (nodes s l))) (elog (nodes s m))) (nn (cfg s)).
Proof.
  intros s k H. cbn in H. destruct (leader s) as [l|]; [|discriminate]. exists l.
  repeat (apply andb_prop in H; destruct H as [H ?]).
  split; [reflexivity|]. split; [apply Nat.leb_le; assumption|]. split; [apply Nat.leb_le; assumption|].
  unfold quorum in *. apply Nat.ltb_lt; assumption.
Qed.

Lemma ref_learn : forall s m c, raft_ref s (RLearn m c) = true ->
  up (nodes s m) = true /\ hcommit (nodes s m) <= c /\ c <= length (glog s) /\
  firstn c (elog (nodes s m)) = firstn c (glog s).
Proof.
  intros s m c H. cbn in H. repeat (apply andb_prop in H; destruct H as [H ?]).
  split; [first [assumption|apply avail_up; assumption]|]. split; [apply Nat.leb_le; assumption|].
  assert (Hc : c <= length (glog s)) by (apply Nat.leb_le; assumption). split; [assumption|].
  match goal with Hp : prefixb _ _ = true |- _ => apply prefixb_spec in Hp; destruct Hp as [t Hp] end.
  match goal with Hp : elog _ = _ |- _ => rewrite Hp end.
  rewrite firstn_app, firstn_firstn, Nat.min_id, firstn_length, Nat.min_l by assumption.
  rewrite Nat.sub_diag. cbn. rewrite app_nil_r. reflexivity.
Qed.

(* ------------------------------------------------------------------ replica-group rotation *)
Lemma filter_neq_id : forall x l, ~ In x l -> filter (fun p => negb (Nat.eqb p x)) l = l.
Proof.
  intros x l. induction l as [|z l IH]; intros H; cbn; [reflexivity|].
  destruct (Nat.eqb z x) eqn:Ez; cbn.
  - apply Nat.eqb_eq in Ez; subst. exfalso; apply H; left; reflexivity.
  - rewrite IH; [reflexivity|]. intros Hc; apply H; right; assumption.
Qed.

Lemma filter_neq_perm : forall x l, NoDup l -> In x l ->
  Permutation (x :: filter (fun p => negb (Nat.eqb p x)) l) l /\ ~ In x (filter (fun p => negb (Nat.eqb p x)) l).
Proof.
  intros x l Hnd Hin. split.
  - induction l as [|y l IH]; [contradiction|]. inversion Hnd as [|? ? Hy Hnd']; subst. cbn.
    destruct (Nat.eqb y x) eqn:E; cbn.
    + apply Nat.eqb_eq in E; subst y. rewrite filter_neq_id by assumption. apply Permutation_refl.
    + destruct Hin as [->|Hin]; [rewrite Nat.eqb_refl in E; discriminate|].
      eapply perm_trans; [apply perm_swap|]. apply perm_skip. apply IH; assumption.
  - intros Hc. apply filter_In in Hc. destruct Hc as [_ Hc]. rewrite Nat.eqb_refl in Hc. discriminate.
Qed.

Lemma NoDup_filter : forall (f : nat -> bool) l, NoDup l -> NoDup (filter f l).
Proof.
  induction l as [|x l IH]; intros H; cbn; [constructor|]. inversion H; subst.
  destruct (f x); [constructor; [intros Hc; apply filter_In in Hc; tauto|]|]; apply IH; assumption.
Qed.

Lemma get_new_rg_ok : forall m ps newm m' ps', ~ In m ps -> NoDup ps ->
  get_new_rg m ps newm = Some (m', ps') ->
  m' = newm /\ In newm ps /\ Permutation (m' :: ps') (m :: ps) /\ ~ In m' ps' /\ NoDup ps' /\ length ps' = length ps.
Proof.
  intros m ps newm m' ps' Hm Hnd H. unfold get_new_rg in H.
  destruct (Nat.eqb newm m) eqn:E1; [discriminate|]. apply Nat.eqb_neq in E1.
  destruct (existsb (Nat.eqb newm) ps) eqn:E2; [|discriminate].
  destruct (Nat.eqb (length (m :: filter (fun p => negb (Nat.eqb p newm)) ps)) (length ps)) eqn:E3; [|discriminate].
  inversion H; subst; clear H. apply Nat.eqb_eq in E3.
  apply existsb_exists in E2. destruct E2 as (y & Hy & Ey). apply Nat.eqb_eq in Ey; subst y.
  destruct (filter_neq_perm m' ps Hnd Hy) as [P1 P2].
  split; [reflexivity|]. split; [assumption|]. split; [|split; [|split]].
  - eapply perm_trans; [apply perm_swap|]. apply perm_skip. assumption.
  - intros [Hc|Hc]; [congruence|contradiction].
  - constructor; [intros Hc; apply filter_In in Hc; tauto|apply NoDup_filter; assumption].
  - assumption.
Qed.

Lemma get_new_rg_total : forall m ps newm, ~ In m ps -> NoDup ps -> In newm ps -> get_new_rg m ps newm <> None.
Proof.
  intros m ps newm Hm Hnd Hin. unfold get_new_rg.
  destruct (Nat.eqb newm m) eqn:E1; [apply Nat.eqb_eq in E1; subst; contradiction|].
  assert (E2 : existsb (Nat.eqb newm) ps = true) by (apply existsb_exists; exists newm; split; [assumption|apply Nat.eqb_refl]).
  rewrite E2. destruct (filter_neq_perm newm ps Hnd Hin) as [P1 _]. apply Permutation_length in P1. cbn in P1.
  cbn [length]. rewrite P1, Nat.eqb_refl. discriminate.
Qed.

Lemma generate_new_peer_ok : forall m ps newm, ~ In m ps -> NoDup ps -> In newm ps ->
  let ps' := generate_new_peer m ps newm in
  Permutation (newm :: ps') (m :: ps) /\ ~ In newm ps' /\ NoDup ps'.
Proof.
  intros m ps newm Hm Hnd Hin. unfold generate_new_peer.
  destruct (Nat.eqb newm m) eqn:E1; [apply Nat.eqb_eq in E1; subst; contradiction|]. apply Nat.eqb_neq in E1.
  destruct (filter_neq_perm newm ps Hnd Hin) as [P1 P2]. cbn. split; [|split].
  - eapply perm_trans; [apply perm_swap|]. apply perm_skip. assumption.
  - intros [Hc|Hc]; [congruence|contradiction].
  - constructor; [intros Hc; apply filter_In in Hc; tauto|apply NoDup_filter; assumption].
Qed.

Lemma elect_rg_master_ok : forall online ps m nm ps',
  elect_rg_master m ps online = Some (nm, ps') ->
  Permutation (nm :: ps') (m :: map fst ps) /\ In nm (map fst ps) /\ online nm = true /\ length ps' = length ps.
Proof.
  intros online. induction ps as [|[p sl] r IH]; intros m nm ps' H; cbn in H; [discriminate|].
  destruct (sl && online p) eqn:E.
  - inversion H; subst. apply andb_prop in E. cbn. split; [apply perm_swap|]. split; [left; reflexivity|]. split; [tauto|].
    rewrite map_length; reflexivity.
  - destruct (elect_rg_master m r online) as [[nm0 r0]|] eqn:Er; [|discriminate]. inversion H; subst.
    destruct (IH _ _ _ Er) as (P & I1 & O & L). cbn. split; [|split; [right; assumption|split; [assumption|lia]]].
    eapply perm_trans; [apply perm_swap|]. eapply perm_trans; [apply perm_skip; exact P|]. apply perm_swap.
Qed.

(* rotation inside a trace keeps the replica group a permutation of its members with exactly one master *)
Definition rg_ok (s : sys) : Prop :=
  ~ In (master s) (peers s) /\ NoDup (peers s) /\ Permutation (master s :: peers s) (seq 0 (nn (cfg s))).

Lemma rg_init : forall c, 0 < nn c -> rg_ok (init c).
Proof.
  intros c H. unfold rg_ok, init; cbn. split; [|split].
  - intros Hc. apply in_seq in Hc. lia.
  - apply seq_NoDup.
  - destruct (nn c) as [|k]; [lia|]. cbn. rewrite Nat.sub_0_r. apply Permutation_refl.
Qed.

Lemma rg_step : forall raft_ok s e s', rg_ok s -> step raft_ok s e = Some s' -> rg_ok s'.
Proof.
  intros raft_ok s e s' (A & B & C) H.
  assert (Hsame : master s' = master s /\ peers s' = peers s /\ cfg s' = cfg s -> rg_ok s').
  { intros (E1 & E2 & E3). unfold rg_ok. rewrite E1, E2, E3. repeat split; assumption. }
  destruct e; cbn [step] in H;
    repeat match type of H with
           | (if ?b then _ else _) = Some _ => destruct b eqn:?; try discriminate
           | match ?x with Some _ => _ | None => _ end = Some _ => destruct x eqn:?; try discriminate
           | match ?x with (_, _) => _ end = Some _ => destruct x eqn:?
           end;
    try (inversion H; subst; apply Hsame; cbn; repeat match goal with |- context [match ?x with _ => _ end] => destruct x end; auto; fail).
  inversion H; subst; clear H. unfold rg_ok; cbn.
  match goal with Hg : get_new_rg _ _ _ = Some _ |- _ => destruct (get_new_rg_ok _ _ _ _ _ A B Hg) as (E1 & E2 & P & N1 & N2 & _) end.
  split; [assumption|split; [assumption|]]. eapply perm_trans; eassumption.
Qed.

Lemma rg_run : forall raft_ok es s s', rg_ok s -> run raft_ok s es = Some s' -> rg_ok s'.
Proof.
  intros raft_ok. induction es as [|e es IH]; intros s s' Hs H; cbn in H; [inversion H; subst; assumption|].
  destruct (step raft_ok s e) as [s1|] eqn:E; [|discriminate]. eapply IH; [eapply rg_step; eassumption|assumption].
Qed.

(* ------------------------------------------------------------------ acknowledgement rule of dealCommitData *)
Lemma commit_result_repaired_sound : forall u a, commit_result_repaired u a = true -> a = true.
Proof. intros u a H; unfold commit_result_repaired in H; apply andb_prop in H; tauto. Qed.

(* ------------------------------------------------------------------ coordinator retry loop *)
Lemma coord_ack_sound : forall fuel script last calls,
  fst (coord_retry fuel script last calls) = true -> In WOk (script ++ [last]).
Proof.
  induction fuel as [|f IH]; intros script last calls H; destruct script as [|x r]; cbn in *.
  - destruct last; cbn in H; try discriminate; left; reflexivity.
  - destruct x; cbn in H; try discriminate; left; reflexivity.
  - destruct last; cbn in H; try discriminate; [left; reflexivity|]. specialize (IH [] WRetry _ H). cbn in IH. destruct IH as [IH|[]]. discriminate.
  - destruct x; cbn in H; try discriminate; [left; reflexivity|]. right. exact (IH _ _ _ H).
Qed.

Lemma coord_retries_until_ok : forall k fuel last calls, k <= fuel ->
  coord_retry fuel (repeat WRetry k ++ [WOk]) last calls = (true, S (k + calls)).
Proof.
  induction k as [|k IH]; intros fuel last calls H; cbn.
  - destruct fuel; reflexivity.
  - destruct fuel as [|f]; [lia|]. cbn. rewrite IH by lia. f_equal. lia.
Qed.
