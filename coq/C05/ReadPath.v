(* C05 - read path: which replica answers. The coordinator maps a query of a replicated database to shards through
   metaclient.Client.GetAliveShards (getAliveShardsForRepDB): replica group Health (a majority of its partitions
   online) -> the shard of the MASTER partition; SubHealth -> the first Online partition of the group in shard order.
   When the store owning the master partition fails, ts-meta's electRgMaster (Model.elect_rg_master) makes the first
   Online slave peer the master. Neither looks at how far the chosen replica has caught up. *)
From Coq Require Import List Arith NArith ZArith Bool Lia.
From OG Require Import C05.Model C05.Proofs C05.Invariant C05.Theorems C05.Final.
Import ListNotations.

(* positions (in shard-group order) of the shards a query reads; shard_pts = owner partition of every shard *)
Fixpoint first_online (online : nat -> bool) (shard_pts : list nat) (i : nat) : list nat :=
  match shard_pts with
  | [] => []
  | p :: r => if online p then [i] else first_online online r (S i)
  end.
Fixpoint positions_of (m : nat) (shard_pts : list nat) (i : nat) : list nat :=
  match shard_pts with
  | [] => []
  | p :: r => if Nat.eqb p m then i :: positions_of m r (S i) else positions_of m r (S i)
  end.
Definition read_shards (health : bool) (master : nat) (online : nat -> bool) (shard_pts : list nat) : list nat :=
  if health then positions_of master shard_pts 0 else first_online online shard_pts 0.

(* a member is down during an acknowledged overwrite, restarts, and right then the master's store is killed *)
Definition lagmaster_trace : list event :=
  [ RElect 0;
    Propose 0 [(1%N, 10%Z)]; RReplicate 1 1; RReplicate 2 1; RCommit 1; RLearn 0 1; RLearn 1 1; RLearn 2 1;
    Apply 0; Apply 1; Apply 2;
    Kill 1;
    Propose 0 [(1%N, 11%Z)]; RReplicate 2 2; RCommit 2; RLearn 0 2; RLearn 2 2; Apply 0; Apply 2;
    Restart 1; Kill 0 ].

(* the master meta elects: among the members that are merely available (today), or among those that have caught up *)
Definition elect_today (s : sys) : option (nat * list nat) :=
  elect_rg_master (master s) (map (fun p => (p, true)) (peers s)) (fun n => avail (nodes s n)).
Definition elect_caught_up (s : sys) : option (nat * list nat) :=
  elect_rg_master (master s) (map (fun p => (p, true)) (peers s)) (caught_up s).

Section ReadPath.
  Variable raft_ok : sys -> event -> bool.
  Hypothesis H_elect : forall s n, raft_ok s (RElect n) = true ->
    up (nodes s n) = true /\ prefixb (glog s) (elog (nodes s n)) = true.
  Hypothesis H_repl : forall s m k, raft_ok s (RReplicate m k) = true ->
    exists l, leader s = Some l /\ m <> l /\ up (nodes s m) = true /\ hcommit (nodes s m) <= k /\
              k <= length (elog (nodes s l)) /\
              (prefixb (glog s) (elog (nodes s m)) = true -> length (glog s) <= k).
  Hypothesis H_commit : forall s k, raft_ok s (RCommit k) = true ->
    exists l, leader s = Some l /\ length (glog s) <= k /\ k <= length (elog (nodes s l)) /\
              nn (cfg s) < 2 * count (fun m => prefixb (firstn k (elog (nodes s l))) (elog (nodes s m))) (nn (cfg s)).
  Hypothesis H_learn : forall s m c, raft_ok s (RLearn m c) = true ->
    up (nodes s m) = true /\ hcommit (nodes s m) <= c /\ c <= length (glog s) /\
    firstn c (elog (nodes s m)) = firstn c (glog s).

  (* if the new master is chosen among the caught-up members, the replica that answers returns the latest
     committed value of every key, whatever the peer order *)
  Lemma caught_up_master_answers_latest : forall c es s nm ps' k, wf_cfg c -> run raft_ok (init c) es = Some s ->
    elect_caught_up s = Some (nm, ps') -> read s nm k = get (ents_store (glog s)) k.
  Proof.
    intros c es s nm ps' k Hc H He. unfold elect_caught_up in He.
    destruct (elect_rg_master_ok _ _ _ _ _ He) as (_ & _ & Hon & _).
    destruct (replicas_agree raft_ok H_elect H_repl H_commit H_learn c es s nm nm k Hc H Hon Hon) as [_ R]. exact R.
  Qed.
End ReadPath.

(* ---------------------------------------------------------------- the weakest election rule
   What the property needs of the replica that answers is not that it has caught up with everything committed, only
   that its applied prefix contains every ACKNOWLEDGED write ("promote only a member whose applied index has reached
   the last index acknowledged by the old master"). *)
Definition covers_acks (s : sys) (n : nat) : bool :=
  avail (nodes s n) &&
  forallb (fun a => match a with (o, p, b) =>
             existsb (entry_eqb (EData o p b)) (firstn (applied (nodes s n)) (glog s)) end) (acked s).
Definition elect_covering (s : sys) : option (nat * list nat) :=
  elect_rg_master (master s) (map (fun p => (p, true)) (peers s)) (covers_acks s).

Lemma get_tail_none : forall (a b : list entry) k, get (ents_store b) k = None ->
  get (ents_store (a ++ b)) k = get (ents_store a) k.
Proof. intros a b k H. rewrite ents_store_app, get_app, H. reflexivity. Qed.

Section ReadPath2.
  Variable raft_ok : sys -> event -> bool.
  Hypothesis H_elect : forall s n, raft_ok s (RElect n) = true ->
    up (nodes s n) = true /\ prefixb (glog s) (elog (nodes s n)) = true.
  Hypothesis H_repl : forall s m k, raft_ok s (RReplicate m k) = true ->
    exists l, leader s = Some l /\ m <> l /\ up (nodes s m) = true /\ hcommit (nodes s m) <= k /\
              k <= length (elog (nodes s l)) /\
              (prefixb (glog s) (elog (nodes s m)) = true -> length (glog s) <= k).
  Hypothesis H_commit : forall s k, raft_ok s (RCommit k) = true ->
    exists l, leader s = Some l /\ length (glog s) <= k /\ k <= length (elog (nodes s l)) /\
              nn (cfg s) < 2 * count (fun m => prefixb (firstn k (elog (nodes s l))) (elog (nodes s m))) (nn (cfg s)).
  Hypothesis H_learn : forall s m c, raft_ok s (RLearn m c) = true ->
    up (nodes s m) = true /\ hcommit (nodes s m) <= c /\ c <= length (glog s) /\
    firstn c (elog (nodes s m)) = firstn c (glog s).

  (* a master elected among the members whose applied prefix contains every acknowledged write: its answers are the
     last-write-wins image of a committed prefix that contains every acknowledged write; and for a key that no
     committed entry beyond that prefix writes, the answer is the latest committed value *)
  Lemma covering_master_answers : forall c es s nm ps', wf_cfg c -> run raft_ok (init c) es = Some s ->
    elect_covering s = Some (nm, ps') ->
    let a := applied (nodes s nm) in
    (forall k, read s nm k = get (ents_store (firstn a (glog s))) k) /\
    (forall o p b, In (o, p, b) (acked s) -> In (EData o p b) (firstn a (glog s))) /\
    (forall k, get (ents_store (skipn a (glog s))) k = None -> read s nm k = get (ents_store (glog s)) k).
  Proof.
    intros c es s nm ps' Hc H He a. unfold elect_covering in He.
    destruct (elect_rg_master_ok _ _ _ _ _ He) as (_ & _ & Hon & _).
    unfold covers_acks in Hon. apply andb_prop in Hon. destruct Hon as [Hav Hall].
    destruct (survives raft_ok H_elect H_repl H_commit H_learn c es s Hc H) as (_ & _ & HR & _).
    destruct (HR nm (avail_up _ Hav)) as [_ Rd]. fold a in Rd.
    split; [exact Rd|]. split.
    - intros o p b Hin. rewrite forallb_forall in Hall. specialize (Hall _ Hin). cbn in Hall.
      apply existsb_exists in Hall. destruct Hall as (e & He1 & He2). apply entry_eqb_eq in He2. subst e. exact He1.
    - intros k Hk. rewrite Rd. rewrite <- (firstn_skipn a (glog s)) at 2. symmetry. apply get_tail_none. exact Hk.
  Qed.
End ReadPath2.
