(* C05 - replicated data survives the loss of a minority of store nodes.
   Executable model (definitions only).

   A replica group of [nn] partitions. Every partition (node) has
     durable raft storage : entry log [elog] (index i = position i-1), number of deleted leading entries [efirst],
                            hard-state commit [hcommit], snapshot index [snap]               (lib/raftlog)
     durable shard state  : shard WAL [wal]/[walold] (switched WAL files not yet removed), data files [files]
     volatile state       : applied index, SnapShotter.CommittedIndex [snapc], active memtable [mem], snapshot
                            memtable [imm], pending flush signal [sig], committedDataC [pend], propose counter.
   etcd/raft is ABSTRACT: its events (election, replication, commit, learning the commit index) happen exactly when
   an oracle [raft_ok] allows them. What the theorems need from raft is stated as hypotheses about the oracle in
   Proofs.v (leader completeness, log matching, state-machine safety, quorum commit). openGemini's own steps are
   concrete: propose/ack-after-apply, follower apply, memtable swap + snapshot index, data-file commit, entry-log
   truncation, restart replay, replica-group master rotation, kill/restart/pause.

   Variants (config flags) mirror today's code vs. the minimal repair for the confirmed defects:
     clamp     = false : a ClearEntryLog entry deletes up to the LEADER's index on every member (today)
               = true  : a member never deletes beyond its OWN snapshot index (repair)
     pid_fresh = false : the propose counter restarts at 0 after a restart (today)
               = true  : propose ids are never reused by a later incarnation (repair)
     wal_on            : shard WAL enabled (default true in the product).
     trunc_all / snap_install : see the config record (forced truncation branches and raft snapshot installation). *)
From Coq Require Import List Arith NArith ZArith Bool Lia.
Import ListNotations.

(* ------------------------------------------------------------------ data *)
Definition key := N.
Definition val := Z.
Definition batch := list (key * val).
Definition store := list (key * val).          (* newest first; lookup = first match = last write wins *)

Fixpoint get (s : store) (k : key) : option val :=
  match s with
  | [] => None
  | (k', v) :: r => if N.eqb k k' then Some v else get r k
  end.

Inductive entry :=
| EData (owner : nat) (pid : N) (b : batch)    (* DataWrapper Normal: Identity, ProposeId, rows *)
| EClear (idx : nat)                            (* DataWrapper ClearEntryLog *)
| ENoop.                                        (* conf changes / empty entries *)

Definition entry_pairs (e : entry) : store :=
  match e with EData _ _ b => rev b | _ => [] end.

(* contents after applying the entries oldest-first to an empty shard *)
Fixpoint ents_store (es : list entry) : store :=
  match es with
  | [] => []
  | e :: r => ents_store r ++ entry_pairs e
  end.

(* entries lo..hi (1-based, inclusive) *)
Definition seg (lo hi : nat) (l : list entry) : list entry := skipn (lo - 1) (firstn hi l).

Fixpoint is_prefix (a b : list entry) (eqb : entry -> entry -> bool) : bool :=
  match a, b with
  | [], _ => true
  | x :: a', y :: b' => eqb x y && is_prefix a' b' eqb
  | _ :: _, [] => false
  end.

Fixpoint batch_eqb (a b : batch) : bool :=
  match a, b with
  | [], [] => true
  | (k, v) :: a', (k', v') :: b' => N.eqb k k' && Z.eqb v v' && batch_eqb a' b'
  | _, _ => false
  end.

Definition entry_eqb (x y : entry) : bool :=
  match x, y with
  | EData o p b, EData o' p' b' => Nat.eqb o o' && N.eqb p p' && batch_eqb b b'
  | EClear i, EClear j => Nat.eqb i j
  | ENoop, ENoop => true
  | _, _ => false
  end.

Definition prefixb (a b : list entry) : bool := is_prefix a b entry_eqb.

(* ------------------------------------------------------------------ configuration *)
Record config := mkCfg {
  nn : nat;            (* replicas *)
  fsz : nat;           (* entries per entry-log file (maxNumEntries) *)
  wal_on : bool;
  clamp : bool;
  pid_fresh : bool;
  trunc_all : bool;     (* true: an index is proposed/used for truncation only if EVERY member (also a dead one) has
                           persisted it as committed (repair); false: today's rules (healthy branch: all members alive;
                           tolerate-time branch: only the ACTIVE members' Match counts; size branch: nothing counts) *)
  snap_install : bool } (* true: a member that needs entries the leader has deleted gets a raft snapshot, which carries
                           no shard data (today); false: this never has to happen *).

(* number of leading entries removed by DeleteBefore(t): whole files before the file that contains index t *)
Definition tr_first (fsz t : nat) : nat := if Nat.eqb t 0 then 0 else ((t - 1) / fsz) * fsz.
Definition same_file (fsz a b : nat) : bool := Nat.eqb (tr_first fsz a) (tr_first fsz b).

(* ------------------------------------------------------------------ state *)
Record node := mkNode {
  up : bool; paused : bool;
  elog : list entry; efirst : nat; hcommit : nat; snap : nat;
  wal : store; walold : store; files : store;
  applied : nat; snapc : nat; mem : store; imm : store; sig : bool;
  pend : list (N * batch);
  nextpid : N }.

Definition view (x : node) : store := mem x ++ imm x ++ files x.        (* what a query on this replica reads *)
Definition dview (x : node) : store := wal x ++ walold x ++ files x.    (* what survives a kill *)

Record sys := mkSys {
  cfg : config;
  nodes : nat -> node;
  glog : list entry;                 (* ghost: the sequence of entries raft has committed so far *)
  leader : option nat;
  master : nat; peers : list nat;    (* the replica group as meta records it *)
  proposed : list (nat * N * batch); (* ghost: every proposal ever made *)
  acked : list (nat * N * batch) }.  (* ghost: proposals whose WriteToRaft returned nil *)

Definition upd (f : nat -> node) (n : nat) (x : node) : nat -> node :=
  fun m => if Nat.eqb m n then x else f m.

Definition set_nodes (s : sys) (f : nat -> node) : sys :=
  mkSys (cfg s) f (glog s) (leader s) (master s) (peers s) (proposed s) (acked s).
Definition set_node (s : sys) (n : nat) (x : node) : sys := set_nodes s (upd (nodes s) n x).

Definition avail (x : node) : bool := up x && negb (paused x).

Definition count (p : nat -> bool) (n : nat) : nat := length (filter p (seq 0 n)).
Definition quorum (s : sys) (p : node -> bool) : bool :=
  Nat.ltb (nn (cfg s)) (2 * count (fun m => p (nodes s m)) (nn (cfg s))).

(* ------------------------------------------------------------------ replica group rotation (meta) *)
(* GetNewRg / GenerateNewPeer: the old master takes the first peer slot, the new master leaves the peers *)
Definition get_new_rg (m : nat) (ps : list nat) (newm : nat) : option (nat * list nat) :=
  if Nat.eqb newm m then None
  else if existsb (Nat.eqb newm) ps
       then let ps' := m :: filter (fun p => negb (Nat.eqb p newm)) ps in
            if Nat.eqb (length ps') (length ps) then Some (newm, ps') else None
       else None.

(* GenerateNewPeer (master balance): same result, but no validation (identity if newm is the master) *)
Definition generate_new_peer (m : nat) (ps : list nat) (newm : nat) : list nat :=
  if Nat.eqb newm m then ps else m :: filter (fun p => negb (Nat.eqb p newm)) ps.

(* electRgMaster (owner of the master failed): the first online slave peer swaps places with the master *)
Fixpoint elect_rg_master (m : nat) (ps : list (nat * bool)) (online : nat -> bool) : option (nat * list nat) :=
  match ps with
  | [] => None
  | (p, slave) :: r =>
      if slave && online p then Some (p, m :: map fst r)
      else match elect_rg_master m r online with
           | Some (nm, r') => Some (nm, p :: r')
           | None => None
           end
  end.

(* ------------------------------------------------------------------ what dealCommitData reports to the waiting writer *)
Definition commit_result_current (unmarshal_ok apply_ok : bool) : bool := unmarshal_ok.
Definition commit_result_repaired (unmarshal_ok apply_ok : bool) : bool := unmarshal_ok && apply_ok.

(* ------------------------------------------------------------------ coordinator: per-shard write with retry
   (PointsWriter.writeRowToShard): the store's answers in order (the last one repeats); `fuel` = attempts that fit
   into the coordinator's timeout. Result: (acknowledged to the client, store calls made). *)
Inductive wres := WOk | WRetry | WFail.
Fixpoint coord_retry (fuel : nat) (script : list wres) (last : wres) (calls : nat) : bool * nat :=
  let r := match script with [] => last | x :: _ => x end in
  match r with
  | WOk => (true, S calls)
  | WFail => (false, S calls)
  | WRetry => match fuel with
              | O => (false, S calls)
              | S f => coord_retry f (tl script) last (S calls)
              end
  end.

(* ------------------------------------------------------------------ events *)
Inductive event :=
| Propose (n : nat) (b : batch)          (* WriteToRaft on node n: register in committedDataC, hand to raft *)
| Timeout (n : nat) (pid : N)            (* WaitCommitTimeout: the writer gives up (no ack) *)
| RElect (n : nat) | RStepDown
| RReplicate (m k : nat)                 (* follower m's durable log becomes the first k entries of the leader's *)
| RCommit (k : nat)                      (* raft commits the first k entries of the leader's log *)
| RLearn (m c : nat)                     (* node m persists HardState.Commit = c *)
| Apply (n : nat)                        (* readCommitFromRaft/dealCommitData applies the next committed entry *)
| UpdSnapc (n : nat)                     (* TryToUpdateCommittedIndex after a commit batch *)
| FlushSwap (n : nat)                    (* writeSnapshot: WAL switch, memtable swap, RaftFlushC signal *)
| SnapPersist (n : nat)                  (* snapshotAfterFlush: CreateSnapshot(SnapShotter.CommittedIndex) *)
| FlushCommit (n : nat)                  (* commitSnapshot + RemoveWalFiles *)
| TruncPropose (mm : nat)                (* deleteEntryLog on the leader, healthy branch; mm = min Progress.Match *)
| TruncForce (mm : nat)                  (* forceDeleteEntryLog after clear-entryLog-tolerate-time: mm = min Match of the ACTIVE members *)
| TruncLocal (n : nat)                   (* forceDeleteEntryLogBySize: local DeleteBefore(own snapshot index) *)
| RSnapshot (m : nat)                    (* raft MsgSnap: the leader no longer has the entries member m needs *)
| Kill (n : nat) | Restart (n : nat) | Pause (n : nat) | Resume (n : nat)
| Rotate (newm : nat).                   (* meta: UpdateReplication with GetNewRg's result *)

Definition is_raft_event (e : event) : bool :=
  match e with RElect _ | RReplicate _ _ | RCommit _ | RLearn _ _ => true | _ => false end.

Definition pend_lookup (p : list (N * batch)) (pid : N) : option batch :=
  match find (fun x => N.eqb (fst x) pid) p with Some x => Some (snd x) | None => None end.
Definition pend_remove (p : list (N * batch)) (pid : N) : list (N * batch) :=
  filter (fun x => negb (N.eqb (fst x) pid)) p.

Definition all_up (s : sys) : bool := forallb (fun m => up (nodes s m)) (seq 0 (nn (cfg s))).
(* every member of the group has persisted index idx as committed *)
Definition members_have (s : sys) (idx : nat) : bool :=
  forallb (fun m => Nat.leb idx (hcommit (nodes s m))) (seq 0 (nn (cfg s))).
Definition trunc_idx (c : config) (mm snp : nat) : nat := if same_file (fsz c) mm snp then snp else Nat.min mm snp.

(* what a raft snapshot installs on member x (today's code: Snapshot.Data is the literal "snapshot", no shard data):
   the log is replaced by the snapshot point, applied index jumps, the shard is untouched *)
Definition snap_install_node (x lx : node) : node :=
  mkNode (up x) (paused x) (firstn (snap lx) (elog lx)) (snap lx) (snap lx) (snap lx) (wal x) (walold x) (files x)
         (snap lx) (snap lx) (mem x) (imm x) (sig x) (pend x) (nextpid x).

(* restart: shard WAL replay, then raft replay of entries [max 1 snap .. hcommit] unless the range is compacted *)
Definition restart_node (c : config) (x : node) : node :=
  let base := wal x ++ walold x in
  let lo := Nat.max 1 (snap x) in
  let rep := if Nat.leb lo (efirst x) then [] else ents_store (seg lo (hcommit x) (elog x)) in
  mkNode true false (elog x) (efirst x) (hcommit x) (snap x)
         (if wal_on c then rep ++ base else []) [] (files x)
         (hcommit x) (snap x) (rep ++ base) [] false [] (nextpid x).

Definition kill_node (c : config) (x : node) : node :=
  mkNode false false (elog x) (efirst x) (hcommit x) (snap x) (wal x) (walold x) (files x)
         0 0 [] [] false [] (if pid_fresh c then nextpid x else 0%N).

Definition apply_node (c : config) (n : nat) (x : node) (e : entry) : node :=
  let ps := entry_pairs e in
  let ef := match e with
            | EClear idx => Nat.max (efirst x) (tr_first (fsz c) (if clamp c then Nat.min idx (snap x) else idx))
            | _ => efirst x
            end in
  let pd := match e with
            | EData o pid _ => if Nat.eqb o n then pend_remove (pend x) pid else pend x
            | _ => pend x
            end in
  mkNode (up x) (paused x) (elog x) ef (hcommit x) (snap x)
         (if wal_on c then ps ++ wal x else wal x) (walold x) (files x)
         (S (applied x)) (snapc x) (ps ++ mem x) (imm x) (sig x) pd (nextpid x).

(* the acknowledgement produced by applying e on node n (ack only to a writer waiting on this node) *)
Definition ack_of (n : nat) (x : node) (e : entry) : list (nat * N * batch) :=
  match e with
  | EData o pid _ => if Nat.eqb o n then match pend_lookup (pend x) pid with Some b => [(n, pid, b)] | None => [] end else []
  | _ => []
  end.

Definition with_elog (x : node) (l : list entry) : node :=
  mkNode (up x) (paused x) l (efirst x) (hcommit x) (snap x) (wal x) (walold x) (files x)
         (applied x) (snapc x) (mem x) (imm x) (sig x) (pend x) (nextpid x).

(* effect of an enabled raft event *)
Definition raft_effect (s : sys) (e : event) : sys :=
  match e with
  | RElect n => mkSys (cfg s) (nodes s) (glog s) (Some n) (master s) (peers s) (proposed s) (acked s)
  | RReplicate m k =>
      match leader s with
      | Some l => set_node s m (with_elog (nodes s m) (firstn k (elog (nodes s l))))
      | None => s
      end
  | RCommit k =>
      match leader s with
      | Some l => mkSys (cfg s) (nodes s) (firstn k (elog (nodes s l))) (leader s) (master s) (peers s) (proposed s) (acked s)
      | None => s
      end
  | RLearn m c =>
      let x := nodes s m in
      set_node s m (mkNode (up x) (paused x) (elog x) (efirst x) c (snap x) (wal x) (walold x) (files x)
                           (applied x) (snapc x) (mem x) (imm x) (sig x) (pend x) (nextpid x))
  | _ => s
  end.

Section Step.
  Variable raft_ok : sys -> event -> bool.

  Definition step (s : sys) (e : event) : option sys :=
    let c := cfg s in
    match e with
    | RReplicate m _ =>
        (* the leader can ship entries only if it still has what the member lacks *)
        if raft_ok s e && match leader s with
                          | Some l => Nat.leb (efirst (nodes s l)) (length (elog (nodes s m)))
                          | None => false
                          end
        then Some (raft_effect s e) else None
    | RElect _ | RCommit _ | RLearn _ _ =>
        if raft_ok s e then Some (raft_effect s e) else None
    | RStepDown => Some (mkSys c (nodes s) (glog s) None (master s) (peers s) (proposed s) (acked s))
    | Propose n b =>
        let x := nodes s n in
        if avail x then
          let pid := N.succ (nextpid x) in
          let x' := mkNode (up x) (paused x) (elog x) (efirst x) (hcommit x) (snap x) (wal x) (walold x) (files x)
                           (applied x) (snapc x) (mem x) (imm x) (sig x) ((pid, b) :: pend x) pid in
          let s1 := set_node s n x' in
          let s2 := match leader s with
                    | Some l => if avail (nodes s1 l)
                                then set_node s1 l (with_elog (nodes s1 l) (elog (nodes s1 l) ++ [EData n pid b]))
                                else s1
                    | None => s1
                    end in
          Some (mkSys c (nodes s2) (glog s) (leader s) (master s) (peers s) ((n, pid, b) :: proposed s) (acked s))
        else None
    | Timeout n pid =>
        let x := nodes s n in
        Some (set_node s n (mkNode (up x) (paused x) (elog x) (efirst x) (hcommit x) (snap x) (wal x) (walold x) (files x)
                                   (applied x) (snapc x) (mem x) (imm x) (sig x) (pend_remove (pend x) pid) (nextpid x)))
    | Apply n =>
        let x := nodes s n in
        if avail x && Nat.ltb (applied x) (hcommit x) && Nat.leb (efirst x) (applied x) then
          match nth_error (elog x) (applied x) with
          | Some en =>
              let s1 := set_node s n (apply_node c n x en) in
              Some (mkSys c (nodes s1) (glog s) (leader s) (master s) (peers s) (proposed s) (ack_of n x en ++ acked s))
          | None => None
          end
        else None
    | UpdSnapc n =>
        let x := nodes s n in
        if avail x then
          Some (set_node s n (mkNode (up x) (paused x) (elog x) (efirst x) (hcommit x) (snap x) (wal x) (walold x) (files x)
                                     (applied x) (Nat.max (snapc x) (applied x)) (mem x) (imm x) (sig x) (pend x) (nextpid x)))
        else None
    | FlushSwap n =>
        let x := nodes s n in
        if avail x && match imm x with [] => true | _ => false end && match walold x with [] => true | _ => false end then
          Some (set_node s n (mkNode (up x) (paused x) (elog x) (efirst x) (hcommit x) (snap x) [] (wal x) (files x)
                                     (applied x) (snapc x) [] (mem x) true (pend x) (nextpid x)))
        else None
    | SnapPersist n =>
        let x := nodes s n in
        if avail x && sig x then
          let sp := if Nat.leb (snapc x) (efirst x) then snap x else snapc x in   (* ErrSnapOutOfDate is ignored *)
          Some (set_node s n (mkNode (up x) (paused x) (elog x) (efirst x) (hcommit x) sp (wal x) (walold x) (files x)
                                     (applied x) (snapc x) (mem x) (imm x) false (pend x) (nextpid x)))
        else None
    | FlushCommit n =>
        let x := nodes s n in
        if avail x then
          Some (set_node s n (mkNode (up x) (paused x) (elog x) (efirst x) (hcommit x) (snap x) (wal x) [] (imm x ++ files x)
                                     (applied x) (snapc x) (mem x) [] (sig x) (pend x) (nextpid x)))
        else None
    | TruncPropose mm =>
        match leader s with
        | Some l =>
            let x := nodes s l in
            let idx := trunc_idx c mm (snap x) in
            if avail x && all_up s && negb (Nat.eqb (snap x) 0) && (negb (trunc_all c) || members_have s idx) then
              Some (set_node s l (with_elog x (elog x ++ [EClear idx])))
            else None
        | None => None
        end
    | TruncForce mm =>
        match leader s with
        | Some l =>
            let x := nodes s l in
            let idx := trunc_idx c mm (snap x) in
            if avail x && negb (Nat.eqb (snap x) 0) && (negb (trunc_all c) || members_have s idx) then
              Some (set_node s l (with_elog x (elog x ++ [EClear idx])))
            else None
        | None => None
        end
    | TruncLocal n =>
        let x := nodes s n in
        if avail x && (negb (trunc_all c) || members_have s (snap x)) then
          Some (set_node s n (mkNode (up x) (paused x) (elog x) (Nat.max (efirst x) (tr_first (fsz c) (snap x))) (hcommit x) (snap x)
                                     (wal x) (walold x) (files x) (applied x) (snapc x) (mem x) (imm x) (sig x) (pend x) (nextpid x)))
        else None
    | RSnapshot m =>
        match leader s with
        | Some l =>
            if snap_install c && avail (nodes s l) && avail (nodes s m) && negb (Nat.eqb m l)
               && Nat.ltb (length (elog (nodes s m))) (efirst (nodes s l))
            then Some (set_node s m (snap_install_node (nodes s m) (nodes s l)))
            else None
        | None => None
        end
    | Kill n =>
        let x := nodes s n in
        if up x then
          let s1 := set_node s n (kill_node c x) in
          Some (mkSys c (nodes s1) (glog s)
                      (match leader s with Some l => if Nat.eqb l n then None else Some l | None => None end)
                      (master s) (peers s) (proposed s) (acked s))
        else None
    | Restart n =>
        let x := nodes s n in
        if up x then None else Some (set_node s n (restart_node c x))
    | Pause n =>
        let x := nodes s n in
        if up x then
          Some (set_node s n (mkNode (up x) true (elog x) (efirst x) (hcommit x) (snap x) (wal x) (walold x) (files x)
                                     (applied x) (snapc x) (mem x) (imm x) (sig x) (pend x) (nextpid x)))
        else None
    | Resume n =>
        let x := nodes s n in
        if up x then
          Some (set_node s n (mkNode (up x) false (elog x) (efirst x) (hcommit x) (snap x) (wal x) (walold x) (files x)
                                     (applied x) (snapc x) (mem x) (imm x) (sig x) (pend x) (nextpid x)))
        else None
    | Rotate newm =>
        match get_new_rg (master s) (peers s) newm with
        | Some (m', ps') => Some (mkSys c (nodes s) (glog s) (leader s) m' ps' (proposed s) (acked s))
        | None => None
        end
    end.

  Fixpoint run (s : sys) (es : list event) : option sys :=
    match es with
    | [] => Some s
    | e :: r => match step s e with Some s' => run s' r | None => None end
    end.
End Step.

(* ------------------------------------------------------------------ a reference raft oracle (for Examples and the
   correspondence evaluator): allows exactly the raft events that satisfy the safety facts. *)
Definition raft_ref (s : sys) (e : event) : bool :=
  match e with
  | RElect n =>
      avail (nodes s n) && prefixb (glog s) (elog (nodes s n))
      && quorum s avail
  | RReplicate m k =>
      match leader s with
      | Some l =>
          avail (nodes s l) && avail (nodes s m) && negb (Nat.eqb m l)
          && Nat.leb (hcommit (nodes s m)) k && Nat.leb k (length (elog (nodes s l)))
          && (negb (prefixb (glog s) (elog (nodes s m))) || Nat.leb (length (glog s)) k)
      | None => false
      end
  | RCommit k =>
      match leader s with
      | Some l =>
          avail (nodes s l) && Nat.leb (length (glog s)) k && Nat.leb k (length (elog (nodes s l)))
          && quorum s (fun x => prefixb (firstn k (elog (nodes s l))) (elog x))
      | None => false
      end
  | RLearn m c =>
      avail (nodes s m) && Nat.leb (hcommit (nodes s m)) c && Nat.leb c (length (glog s))
      && prefixb (firstn c (glog s)) (elog (nodes s m))
  | _ => false
  end.

Definition node0 : node := mkNode true false [] 0 0 0 [] [] [] 0 0 [] [] false [] 0%N.
Definition init (c : config) : sys :=
  mkSys c (fun _ => node0) [] None 0 (seq 1 (nn c - 1)) [] [].

(* the product's defaults with the repairs / as the code is today *)
Definition cfg_repaired (n f : nat) : config := mkCfg n f true true true true false.
Definition cfg_current (n f : nat) : config := mkCfg n f true false false false true.
(* the tree after the three fix: commits (clamp, fresh propose ids), truncation branches as coded *)
Definition cfg_today (n f : nat) : config := mkCfg n f true true true false true.

(* observations *)
Definition read (s : sys) (n : nat) (k : key) : option val := get (view (nodes s n)) k.
Definition caught_up (s : sys) (n : nat) : bool := avail (nodes s n) && Nat.eqb (applied (nodes s n)) (length (glog s)).
Definition minority_down (s : sys) : bool := quorum s avail.

(* ------------------------------------------------------------------ DataWrapper codec (lib/raftlog/datawrapper.go) *)
Definition byte := N.
Fixpoint be_put (n : nat) (x : N) : list byte :=     (* n bytes, big endian *)
  match n with
  | O => []
  | S n' => be_put n' (N.div x 256) ++ [N.modulo x 256]
  end.
Fixpoint be_get (l : list byte) (acc : N) : N :=
  match l with [] => acc | b :: r => be_get r (acc * 256 + b)%N end.

Record dwrap := mkDw { dw_type : N; dw_ident : list byte; dw_pid : N; dw_data : list byte }.

Definition dw_marshal (d : dwrap) : list byte :=
  be_put 4 (dw_type d) ++ [N.modulo (N.of_nat (length (dw_ident d))) 256] ++ dw_ident d ++ be_put 8 (dw_pid d) ++ dw_data d.

(* None where the Go function returns an error or panics on a short buffer *)
Definition dw_unmarshal (l : list byte) : option dwrap :=
  if Nat.ltb (length l) 4 then None else
  let ty := be_get (firstn 4 l) 0 in
  let l1 := skipn 4 l in
  match l1 with
  | [] => None
  | ln :: l2 =>
      let n := N.to_nat ln in
      if Nat.leb (length l1) n then None else
      let ident := firstn n l2 in
      let l3 := skipn n l2 in
      if Nat.ltb (length l3) 8 then None else
      Some (mkDw ty ident (be_get (firstn 8 l3) 0) (skipn 8 l3))
  end.

Definition dw_wf (d : dwrap) : Prop :=
  (dw_type d < 2 ^ 32)%N /\ (dw_pid d < 2 ^ 64)%N /\ length (dw_ident d) < 256 /\
  Forall (fun b => (b < 256)%N) (dw_ident d).
