(* C05 - coordinator: one write request that touches several shards (PointsWriter.writeShardMap): every shard is written
   through the per-shard retry loop (Model.coord_retry) concurrently; the request fails if any shard failed. *)
From Coq Require Import List Arith Bool Lia.
From OG Require Import C05.Model C05.Final.
Import ListNotations.

(* per shard: the store's answers in order (the last one repeats). Result: acknowledged to the client?, per-shard
   (stored?, store calls) *)
Definition shard_write (fuel : nat) (sc : list wres) : bool * nat :=
  coord_retry fuel (removelast sc) (last sc WFail) 0.
Definition batch_write (fuel : nat) (scripts : list (list wres)) : bool * list (bool * nat) :=
  let rs := map (shard_write fuel) scripts in (forallb fst rs, rs).

Lemma shard_ack_sound : forall fuel sc, sc <> [] -> fst (shard_write fuel sc) = true -> In WOk sc.
Proof.
  intros fuel sc Hne H. unfold shard_write in H. apply coord_ack_sound in H.
  rewrite <- (app_removelast_last WFail Hne) in H. exact H.
Qed.

(* acknowledged to the client => every shard of the request was acknowledged by its store *)
Lemma batch_ack_every_shard : forall fuel scripts, Forall (fun sc => sc <> []) scripts ->
  fst (batch_write fuel scripts) = true -> Forall (fun sc => In WOk sc) scripts.
Proof.
  intros fuel scripts Hne H. unfold batch_write in H. cbn [fst] in H. rewrite forallb_forall in H.
  rewrite Forall_forall in *. intros sc Hin. apply (shard_ack_sound fuel); [apply Hne; assumption|].
  apply H. apply in_map. assumption.
Qed.

(* a request of which one shard was not stored is not acknowledged, whatever happened on the other shards *)
Lemma batch_partial_not_acked : forall fuel scripts sc, In sc scripts -> fst (shard_write fuel sc) = false ->
  fst (batch_write fuel scripts) = false.
Proof.
  intros fuel scripts sc Hin H. unfold batch_write. cbn [fst].
  destruct (forallb fst (map (shard_write fuel) scripts)) eqn:E; [|reflexivity].
  rewrite forallb_forall in E. rewrite (E _ (in_map _ _ _ Hin)) in H. discriminate.
Qed.

(* ... and it is acknowledged as soon as every shard is stored within the budget *)
Lemma batch_all_stored_acked : forall fuel scripts,
  Forall (fun sc => fst (shard_write fuel sc) = true) scripts -> fst (batch_write fuel scripts) = true.
Proof.
  intros fuel scripts H. unfold batch_write. cbn [fst]. apply forallb_forall. intros x Hx.
  apply in_map_iff in Hx. destruct Hx as (sc & <- & Hin). rewrite Forall_forall in H. apply H. assumption.
Qed.
