(* C05: what fails for the variants that mirror today's code (cfg_current), under the reference raft oracle (which has
   all the assumed raft safety properties), with at most a minority of nodes down at every step. Witnesses closed by
   vm_compute. Each defect was first reproduced on the real code by the harness (see props/C05/NOTES.md). *)
From Coq Require Import List Arith NArith ZArith Bool Lia.
From OG Require Import C05.Model.
Import ListNotations.

(* every prefix of the trace keeps a majority available *)
Fixpoint minority_always (s : sys) (es : list event) : bool :=
  minority_down s &&
  match es with
  | [] => true
  | e :: r => match step raft_ref s e with Some s' => minority_always s' r | None => false end
  end.

(* (1) ClearEntryLog is applied with the LEADER's index on every member. A member whose own snapshot index lies in an
   earlier entry-log file loses the entries (snapshot, first) from its log; its next restart gets ErrCompacted from
   Entries(snapshot, commit+1), replays nothing, yet sets appliedIndex = commit: committed entries it had not applied
   before the kill are never applied. The replica counts as caught up and answers with a stale value. *)
Definition trunc_witness : list event :=
  [ RElect 0;
    Propose 0 [(1%N, 10%Z)]; RReplicate 1 1; RReplicate 2 1; RCommit 1; RLearn 0 1; RLearn 1 1; RLearn 2 1;
    Apply 0; Apply 1; Apply 2;
    UpdSnapc 1; FlushSwap 1; SnapPersist 1; FlushCommit 1;                       (* member 1 flushes: snapshot index 1 *)
    Propose 0 [(2%N, 20%Z)]; Propose 0 [(3%N, 30%Z)]; RReplicate 1 3; RReplicate 2 3; RCommit 3;
    RLearn 0 3; RLearn 1 3; RLearn 2 3; Apply 0; Apply 0; Apply 1; Apply 1; Apply 2; Apply 2;
    UpdSnapc 0; FlushSwap 0; SnapPersist 0; FlushCommit 0;                       (* leader flushes: snapshot index 3 *)
    TruncPropose 3; RReplicate 1 4; RReplicate 2 4; RCommit 4; RLearn 0 4; RLearn 1 4; RLearn 2 4;
    Apply 0; Apply 1; Apply 2;                                                   (* file 1 (entries 1,2) deleted everywhere *)
    Propose 0 [(1%N, 11%Z)]; RReplicate 1 5; RReplicate 2 5; RCommit 5; RLearn 0 5; Apply 0;  (* acknowledged overwrite *)
    RLearn 1 5;                                                                  (* member 1 persisted commit 5, applied 4 *)
    Kill 1; Restart 1 ].

Theorem truncate_replay_refuted :
  exists es s, run raft_ref (init (cfg_current 3 2)) es = Some s /\
    minority_always (init (cfg_current 3 2)) es = true /\
    In (0, 4%N, [(1%N, 11%Z)]) (acked s) /\
    caught_up s 1 = true /\ read s 1 1%N = Some 10%Z /\ get (ents_store (glog s)) 1%N = Some 11%Z.
Proof. exists trunc_witness. eexists. vm_compute. repeat split. left; reflexivity. Qed.

(* the same trace is harmless with the member-local clamp *)
Example truncate_witness_repaired :
  match run raft_ref (init (cfg_repaired 3 2)) trunc_witness with
  | Some s => caught_up s 1 = true /\ read s 1 1%N = Some 11%Z
  | None => False
  end.
Proof. vm_compute. repeat split. Qed.

(* (2) the propose counter restarts at 0 with the process: an entry proposed by the previous incarnation (same
   identity, same propose id) that commits after the restart acknowledges a NEW waiting writer whose own entry is
   not committed - and may never be. *)
Definition pid_witness : list event :=
  [ RElect 1;
    Propose 0 [(1%N, 10%Z)];            (* node 0, propose id 1, forwarded to leader 1 *)
    Kill 0; Restart 0;                  (* killed during the write; counter restarts *)
    RReplicate 2 1; RCommit 1;
    Propose 0 [(1%N, 99%Z)];            (* propose id 1 again, waiting *)
    RReplicate 0 1; RLearn 0 1; Apply 0 (* old entry applied: the new writer is acknowledged *) ].

Theorem proposeid_reuse_refuted :
  exists es s o p b, run raft_ref (init (cfg_current 3 2)) es = Some s /\
    minority_always (init (cfg_current 3 2)) es = true /\
    In (o, p, b) (acked s) /\ existsb (entry_eqb (EData o p b)) (glog s) = false /\
    read s 0 1%N = Some 10%Z.
Proof. exists pid_witness. eexists. exists 0, 1%N, [(1%N, 99%Z)]. vm_compute. repeat split. left; reflexivity. Qed.

Example proposeid_witness_repaired :
  match run raft_ref (init (cfg_repaired 3 2)) pid_witness with
  | Some s => acked s = []
  | None => False
  end.
Proof. vm_compute. reflexivity. Qed.

(* (4) forced truncation (clear-entryLog-tolerate-time expired, or the size branch): the leader deletes entries a dead
   member still lacks; when the member rejoins raft installs a snapshot that carries no shard data: the member counts
   as caught up, yet never applies the entries in between. cfg_today = the tree with the three fix: commits. *)
Definition forced_witness : list event :=
  [ RElect 0;
    Propose 0 [(1%N, 10%Z)]; RReplicate 1 1; RReplicate 2 1; RCommit 1; RLearn 0 1; RLearn 1 1; RLearn 2 1;
    Apply 0; Apply 1; Apply 2;
    Kill 2;                                                                        (* a long outage begins *)
    Propose 0 [(1%N, 11%Z)]; Propose 0 [(2%N, 20%Z)]; RReplicate 1 3; RCommit 3; RLearn 0 3; RLearn 1 3;
    Apply 0; Apply 0; Apply 1; Apply 1;                                            (* acknowledged overwrite of key 1 *)
    UpdSnapc 0; FlushSwap 0; SnapPersist 0; FlushCommit 0; UpdSnapc 1; FlushSwap 1; SnapPersist 1; FlushCommit 1;
    TruncForce 3; RReplicate 1 4; RCommit 4; RLearn 0 4; RLearn 1 4; Apply 0; Apply 1;   (* entries 1,2 deleted on 0 and 1 *)
    Restart 2; RSnapshot 2 ].

Theorem forced_truncation_strands_member_refuted :
  exists es s, run raft_ref (init (cfg_today 3 2)) es = Some s /\
    minority_always (init (cfg_today 3 2)) es = true /\
    In (0, 2%N, [(1%N, 11%Z)]) (acked s) /\
    avail (nodes s 2) = true /\ applied (nodes s 2) = 3 /\ read s 2 1%N = Some 10%Z /\ read s 2 2%N = None /\
    get (ents_store (firstn 3 (glog s))) 1%N = Some 11%Z.
Proof. exists forced_witness. eexists. vm_compute. repeat split. right; left; reflexivity. Qed.

(* with trunc_all the forced proposal is simply not enabled while a member lacks the index *)
Example forced_witness_repaired : run raft_ref (init (cfg_repaired 3 2)) forced_witness = None.
Proof. vm_compute. reflexivity. Qed.

(* (3) dealCommitData hands the waiting writer the result of Unmarshal only (the deferred call captures err before
   the apply runs): a failed local apply is acknowledged as success. *)
Theorem ack_despite_apply_error_refuted :
  exists u a, commit_result_current u a = true /\ a = false.
Proof. exists true, false. split; reflexivity. Qed.
