(* C05: what fails for the variants that mirror today's code (cfg_current), under the reference raft oracle (which has
   all the assumed raft safety properties), with at most a minority of nodes down at every step. Witnesses closed by
   vm_compute. Each defect was first reproduced on the real code by the harness (see props/C05/NOTES.md). *)
From Coq Require Import List Arith NArith ZArith Bool Lia.
From OG Require Import C05.Model C05.Trunc C05.Catchup C05.ReadPath C05.RestartRace C05.TruncPM C05.Persist.
Import ListNotations.

(* every prefix of the trace keeps a majority available *)
Fixpoint minority_always (s : sys) (es : list event) : bool :=
  minority_down s &&
  match es with
  | [] => true
  | e :: r => match step raft_ref s e with Some s' => minority_always s' r | None => false end
  end.

(* (1) ClearEntryLog is applied with the LEADER's index on every member. A member whose own snapshot index lies in an
   earlier entry-log file loses the entries (snapshot, first) from its log; its next restart gets ErrCompacted from
   Entries(snapshot, commit+1), replays nothing, yet sets appliedIndex = commit: committed entries it had not applied
   before the kill are never applied. The replica counts as caught up and answers with a stale value. *)
Definition trunc_witness : list event :=
  [ RElect 0;
    Propose 0 [(1%N, 10%Z)]; RReplicate 1 1; RReplicate 2 1; RCommit 1; RLearn 0 1; RLearn 1 1; RLearn 2 1;
    Apply 0; Apply 1; Apply 2;
    UpdSnapc 1; FlushSwap 1; SnapPersist 1; FlushCommit 1;                       (* member 1 flushes: snapshot index 1 *)
    Propose 0 [(2%N, 20%Z)]; Propose 0 [(3%N, 30%Z)]; RReplicate 1 3; RReplicate 2 3; RCommit 3;
    RLearn 0 3; RLearn 1 3; RLearn 2 3; Apply 0; Apply 0; Apply 1; Apply 1; Apply 2; Apply 2;
    UpdSnapc 0; FlushSwap 0; SnapPersist 0; FlushCommit 0;                       (* leader flushes: snapshot index 3 *)
    TruncPropose 3; RReplicate 1 4; RReplicate 2 4; RCommit 4; RLearn 0 4; RLearn 1 4; RLearn 2 4;
    Apply 0; Apply 1; Apply 2;                                                   (* file 1 (entries 1,2) deleted everywhere *)
    Propose 0 [(1%N, 11%Z)]; RReplicate 1 5; RReplicate 2 5; RCommit 5; RLearn 0 5; Apply 0;  (* acknowledged overwrite *)
    RLearn 1 5;                                                                  (* member 1 persisted commit 5, applied 4 *)
    Kill 1; Restart 1 ].

Theorem truncate_replay_refuted :
  exists es s, run raft_ref (init (cfg_current 3 2)) es = Some s /\
    minority_always (init (cfg_current 3 2)) es = true /\
    In (0, 4%N, [(1%N, 11%Z)]) (acked s) /\
    caught_up s 1 = true /\ read s 1 1%N = Some 10%Z /\ get (ents_store (glog s)) 1%N = Some 11%Z.
Proof. exists trunc_witness. eexists. vm_compute. repeat split. left; reflexivity. Qed.

(* the same trace is harmless with the member-local clamp *)
Example truncate_witness_repaired :
  match run raft_ref (init (cfg_repaired 3 2)) trunc_witness with
  | Some s => caught_up s 1 = true /\ read s 1 1%N = Some 11%Z
  | None => False
  end.
Proof. vm_compute. repeat split. Qed.

(* (2) the propose counter restarts at 0 with the process: an entry proposed by the previous incarnation (same
   identity, same propose id) that commits after the restart acknowledges a NEW waiting writer whose own entry is
   not committed - and may never be. *)
Definition pid_witness : list event :=
  [ RElect 1;
    Propose 0 [(1%N, 10%Z)];            (* node 0, propose id 1, forwarded to leader 1 *)
    Kill 0; Restart 0;                  (* killed during the write; counter restarts *)
    RReplicate 2 1; RCommit 1;
    Propose 0 [(1%N, 99%Z)];            (* propose id 1 again, waiting *)
    RReplicate 0 1; RLearn 0 1; Apply 0 (* old entry applied: the new writer is acknowledged *) ].

Theorem proposeid_reuse_refuted :
  exists es s o p b, run raft_ref (init (cfg_current 3 2)) es = Some s /\
    minority_always (init (cfg_current 3 2)) es = true /\
    In (o, p, b) (acked s) /\ existsb (entry_eqb (EData o p b)) (glog s) = false /\
    read s 0 1%N = Some 10%Z.
Proof. exists pid_witness. eexists. exists 0, 1%N, [(1%N, 99%Z)]. vm_compute. repeat split. left; reflexivity. Qed.

Example proposeid_witness_repaired :
  match run raft_ref (init (cfg_repaired 3 2)) pid_witness with
  | Some s => acked s = []
  | None => False
  end.
Proof. vm_compute. reflexivity. Qed.

(* (4) forced truncation (clear-entryLog-tolerate-time expired, or the size branch): the leader deletes entries a dead
   member still lacks; when the member rejoins raft installs a snapshot that carries no shard data: the member counts
   as caught up, yet never applies the entries in between. cfg_today = the tree with the three fix: commits. *)
Definition forced_witness : list event :=
  [ RElect 0;
    Propose 0 [(1%N, 10%Z)]; RReplicate 1 1; RReplicate 2 1; RCommit 1; RLearn 0 1; RLearn 1 1; RLearn 2 1;
    Apply 0; Apply 1; Apply 2;
    Kill 2;                                                                        (* a long outage begins *)
    Propose 0 [(1%N, 11%Z)]; Propose 0 [(2%N, 20%Z)]; RReplicate 1 3; RCommit 3; RLearn 0 3; RLearn 1 3;
    Apply 0; Apply 0; Apply 1; Apply 1;                                            (* acknowledged overwrite of key 1 *)
    UpdSnapc 0; FlushSwap 0; SnapPersist 0; FlushCommit 0; UpdSnapc 1; FlushSwap 1; SnapPersist 1; FlushCommit 1;
    TruncForce 3; RReplicate 1 4; RCommit 4; RLearn 0 4; RLearn 1 4; Apply 0; Apply 1;   (* entries 1,2 deleted on 0 and 1 *)
    Restart 2; RSnapshot 2 ].

Theorem forced_truncation_strands_member_refuted :
  exists es s, run raft_ref (init (cfg_today 3 2)) es = Some s /\
    minority_always (init (cfg_today 3 2)) es = true /\
    In (0, 2%N, [(1%N, 11%Z)]) (acked s) /\
    avail (nodes s 2) = true /\ applied (nodes s 2) = 3 /\ read s 2 1%N = Some 10%Z /\ read s 2 2%N = None /\
    get (ents_store (firstn 3 (glog s))) 1%N = Some 11%Z.
Proof. exists forced_witness. eexists. vm_compute. repeat split. right; left; reflexivity. Qed.

(* with trunc_all the forced proposal is simply not enabled while a member lacks the index *)
Example forced_witness_repaired : run raft_ref (init (cfg_repaired 3 2)) forced_witness = None.
Proof. vm_compute. reflexivity. Qed.

(* (3) dealCommitData hands the waiting writer the result of Unmarshal only (the deferred call captures err before
   the apply runs): a failed local apply is acknowledged as success. *)
Theorem ack_despite_apply_error_refuted :
  exists u a, commit_result_current u a = true /\ a = false.
Proof. exists true, false. split; reflexivity. Qed.

(* (5) the tolerance timer of the truncation decision survives the loss of the leadership (today's code: a round in
   which the node is not the leader returns before the timer is looked at). A node that led during a first, short
   outage and gets the leadership back during a second short outage days later forces the truncation at once:
   every member was seen alive one minute before, the tolerate time is six hours. Time in minutes. *)
Definition stale_rounds : list round :=
  let dn := [true; true; false] in let al := [true; true; true] in
  [ mkRound 0 true dn [100%N; 100%N; 40%N] 90%N;        (* first outage seen as the leader: timer starts *)
    mkRound 1 false dn [100%N; 100%N; 40%N] 90%N;       (* leadership lost *)
    mkRound 2 false al [100%N; 100%N; 100%N] 90%N;      (* member back, group healthy: seen as a follower *)
    mkRound 4000 false al [200%N; 200%N; 200%N] 90%N ]. (* days later, still healthy *)
Definition stale_last : round := mkRound 4001 true [true; true; false] [200%N; 200%N; 150%N] 190%N.

Theorem stale_tolerance_timer_refuted :
  exists T L pre r idx q, clock_mono (pre ++ [r]) /\ snap_stays (pre ++ [r]) /\
    snd (decide tcfg_current T L (tstate tcfg_current T L None pre) r) = DForce idx /\
    In q pre /\ all_alive q = true /\ (r_now r - r_now q <= T)%Z.
Proof.
  exists 360%Z, (mkLay 30000 1 200), stale_rounds, stale_last, 190%N, (mkRound 4000 false [true; true; true] [200%N; 200%N; 200%N] 90%N).
  split; [|split; [|split; [vm_compute; reflexivity|split; [right; right; right; left; reflexivity|split; [reflexivity|vm_compute; discriminate]]]]].
  - cbn. repeat split; intros x Hx; cbn in Hx; repeat (destruct Hx as [<-|Hx]; [cbn; lia|]); contradiction.
  - cbn. repeat split; intros _ x Hx; cbn in Hx; repeat (destruct Hx as [<-|Hx]; [cbn; discriminate|]); contradiction.
Qed.

(* the repaired rule does not force anything in that round *)
Example stale_rounds_repaired :
  snd (decide tcfg_repaired 360 (mkLay 30000 1 200) (tstate tcfg_repaired 360 (mkLay 30000 1 200) None stale_rounds) stale_last) = DNone.
Proof. vm_compute. reflexivity. Qed.

(* (6) the variant that never clears the timer on health (not today's code; the class of the change): a second outage
   long after a first one that was resolved is treated as already expired although the leader itself saw the group
   healthy in between *)
Theorem never_cleared_timer_refuted :
  exists T L pre r idx q, clock_mono (pre ++ [r]) /\ snap_stays (pre ++ [r]) /\
    snd (decide tcfg_noclear T L (tstate tcfg_noclear T L None pre) r) = DForce idx /\
    In q pre /\ r_lead q = true /\ r_snap q <> 0%N /\ all_alive q = true /\ (r_now r - r_now q <= T)%Z.
Proof.
  exists 360%Z, (mkLay 30000 1 200),
         [ mkRound 0 true [true; true; false] [100%N; 100%N; 40%N] 90%N; mkRound 1 true [true; true; true] [100%N; 100%N; 100%N] 90%N;
           mkRound 4000 true [true; true; true] [200%N; 200%N; 200%N] 190%N ],
         (mkRound 4001 true [true; true; false] [200%N; 200%N; 150%N] 190%N), 190%N,
         (mkRound 4000 true [true; true; true] [200%N; 200%N; 200%N] 190%N).
  split; [|split; [|split; [vm_compute; reflexivity|split; [right; right; left; reflexivity|split; [reflexivity|split; [discriminate|split; [reflexivity|vm_compute; discriminate]]]]]]].
  - cbn. repeat split; intros x Hx; cbn in Hx; repeat (destruct Hx as [<-|Hx]; [cbn; lia|]); contradiction.
  - cbn. repeat split; intros _ x Hx; cbn in Hx; repeat (destruct Hx as [<-|Hx]; [cbn; discriminate|]); contradiction.
Qed.

(* (7) entry-log lookup without the "raftIndex is exactly the first index of a rotated file" case (not today's code;
   the class of the change): the first entry of a middle file is not found, its term is unavailable, and the leader
   sends a snapshot (which carries no shard data) to a follower that only needs entries the leader still has *)
Theorem lookup_without_exact_case_refuted :
  exists E i snp, wf_files E /\ (log_first E <= i)%N /\ (i <= log_last E)%N /\
    seek false E i <> SFound i /\ send_append false E snp (i + 1) = false /\ send_append true E snp (i + 1) = true.
Proof.
  exists (layout_files 3 1 8), 4%N, 7%N. vm_compute. repeat split; try reflexivity; try discriminate.
Qed.

(* the forced step of forced_witness is exactly what the hypothesis of Props.catch_up_from_log_guaranteed excludes:
   member 2 holds one committed entry when the leader forces the truncation with index 3 *)
Fixpoint upto_force (es : list event) : list event :=
  match es with
  | [] => []
  | TruncForce _ :: _ => []
  | e :: r => e :: upto_force r
  end.

Example forced_step_is_not_sound :
  match run raft_ref (init (cfg_today 3 2)) (upto_force forced_witness) with
  | Some s => ~ sound s (TruncForce 3)
  | None => False
  end.
Proof.
  vm_compute. intros [H|H]; [discriminate|]. specialize (H 2). vm_compute in H. lia.
Qed.

(* (8) the read path: when the store of the master partition fails, electRgMaster makes the FIRST ONLINE slave peer the
   master and queries read the master partition - whether or not that member has caught up. Member 1 is down during
   an acknowledged overwrite, restarts, and right then the master's store is killed: with one store down the replica
   that answers returns the old value. Holds with every repair of this round switched on (cfg_repaired). *)
Theorem master_elected_before_catch_up_refuted :
  exists es s nm ps', run raft_ref (init (cfg_repaired 3 2)) es = Some s /\
    minority_always (init (cfg_repaired 3 2)) es = true /\
    In (0, 2%N, [(1%N, 11%Z)]) (acked s) /\
    elect_today s = Some (nm, ps') /\ avail (nodes s nm) = true /\ caught_up s nm = false /\
    read s nm 1%N = Some 10%Z /\ get (ents_store (glog s)) 1%N = Some 11%Z.
Proof. exists lagmaster_trace. eexists. exists 1, [0; 2]. vm_compute. repeat split. left; reflexivity. Qed.

(* (9) today the restart replay is not ordered before the entries raft publishes after the restart (startRaftNode starts
   the commit reader, Assign runs the replay later): a member killed with entry 1 applied ((1,10)), entry 2 = the
   acknowledged overwrite (1,11) committed while it was down. If entry 2 is applied first and the replay of entry 1
   lands on top, the member counts both entries as applied and answers 10 for good. *)
Definition race_node : node :=
  mkNode false false [EData 0 1%N [(1%N, 10%Z)]; EData 0 2%N [(1%N, 11%Z)]] 0 1 0 [(1%N, 10%Z)] [] [] 0 0 [] [] false [] 0%N.

Theorem replay_after_newer_entries_refuted :
  exists c n x es, applied (apply_then_replay c n x es) = 2 /\
    get (view (apply_then_replay c n x es)) 1%N = Some 10%Z /\
    get (ents_store (firstn 2 (elog x))) 1%N = Some 11%Z /\
    get (view (replay_then_apply c n x es)) 1%N = Some 11%Z.
Proof. exists (cfg_today 3 2), 1, race_node, [EData 0 2%N [(1%N, 11%Z)]]. vm_compute. repeat split. Qed.

(* (8b) the same state seen through the weakest rule: the member today's election picks does NOT cover the acknowledged
   overwrite (covers_acks = false) and answers stale; an election among covering members picks member 2, which answers 11 *)
Theorem master_not_covering_acks_refuted :
  exists es s, run raft_ref (init (cfg_repaired 3 2)) es = Some s /\
    elect_today s = Some (1, [0; 2]) /\ covers_acks s 1 = false /\ read s 1 1%N = Some 10%Z /\
    elect_covering s = Some (2, [1; 0]) /\ read s 2 1%N = Some 11%Z.
Proof. exists lagmaster_trace. eexists. vm_compute. repeat split. Qed.

(* (10) when the forced branch can still strand a member with the repaired timer (today's code): the timer is per GROUP.
   Member 1 is down for six hours; it comes back and member 2 goes down between two rounds - no round sees the group
   healthy, the timer runs on, and the next round gives up member 2's entries although member 2 was alive two minutes
   before (its Match 90 is below the forced index 95). *)
Definition handover_rounds : list round :=
  map (fun t => mkRound t true [true; false; true] [100%N; 40%N; 100%N] 95%N) [0; 60; 120; 180; 240; 300; 359]%Z.
Definition handover_last : round := mkRound 361 true [true; true; false] [100%N; 100%N; 90%N] 95%N.

Theorem group_timer_gives_up_recently_alive_member_refuted :
  exists T L pre r idx q j, clock_mono (pre ++ [r]) /\ snap_stays (pre ++ [r]) /\
    snd (decide tcfg_repaired T L (tstate tcfg_repaired T L None pre) r) = DForce idx /\
    In q pre /\ nth j (r_alive q) true = true /\ nth j (r_alive r) true = false /\ (r_now r - r_now q <= T)%Z /\
    (nth j (r_match r) 0 < idx)%N.
Proof.
  exists 360%Z, (mkLay 30000 1 100), handover_rounds, handover_last, 95%N,
         (mkRound 359 true [true; false; true] [100%N; 40%N; 100%N] 95%N), 2.
  split; [|split; [|split; [vm_compute; reflexivity|split; [|split; [reflexivity|split; [reflexivity|split; [vm_compute; discriminate|vm_compute; reflexivity]]]]]]].
  - cbn. repeat split; intros x Hx; cbn in Hx; repeat (destruct Hx as [<-|Hx]; [cbn; lia|]); contradiction.
  - cbn. repeat split; intros _ x Hx; cbn in Hx; repeat (destruct Hx as [<-|Hx]; [cbn; discriminate|]); contradiction.
  - unfold handover_rounds. cbn. do 6 right. left. reflexivity.
Qed.

(* (11) a follower that answers on the LEADER path (send first, write in parallel) - e.g. an ex-leader whose flag is never
   reset on step-down (not today's code; the class of the change): member 1 acknowledges index 1 before it is durable,
   the leader (member 0) commits with the quorum {0,1} and acknowledges the client, member 1 is killed: the write is
   durable on one member of three; if the leader's store is lost next, no surviving member has it *)
Theorem ack_before_persist_refuted :
  exists es s, prun 3 false pinit es = Some s /\ pcommit s = 1 /\
    cnt 3 (fun m => Nat.leb (pcommit s) (pd s m)) = 1 /\ ~ 3 < 2 * cnt 3 (fun m => Nat.leb (pcommit s) (pd s m)).
Proof.
  exists [PRecv 0 1; PPersist 0; PAck 0; PRecv 1 1; PAck 1; PCommit 1; PKill 1]. eexists. vm_compute. repeat split. lia.
Qed.
