(* C05 - per-member tolerance periods for the forced truncation branch (a design variant, not today's code).
   Today one timer per node covers the whole group: it runs while ANY member is down, so when it expires the entries of
   EVERY member that is down in that round are given up - also of a member that was alive a moment ago (another member
   had been down before it; Refuted.group_timer_gives_up_recently_alive_member_refuted). Per-member variant: member j's
   period is the repaired timer rule of Trunc.decide run on the group as seen through j alone (a round "sees the group
   healthy" iff j is alive); the forced index is computed from the Match of every member whose OWN period has not
   expired. Defined from the history of rounds (executable). *)
From Coq Require Import List NArith ZArith Bool Lia.
From OG Require Import C05.Trunc C05.TruncProofs.
Import ListNotations.

(* the round as far as member j is concerned *)
Definition proj (j : nat) (r : round) : round :=
  mkRound (r_now r) (r_lead r) [nth j (r_alive r) true] [] (r_snap r).

Definition pm_state (T : Z) (L : layout) (pre : list round) (j : nat) : option Z :=
  tstate tcfg_repaired T L None (map (proj j) pre).

(* member j's own outage has lasted longer than T in this round: its entries are given up *)
Definition pm_expired (T : Z) (L : layout) (pre : list round) (r : round) (j : nat) : bool :=
  match snd (decide tcfg_repaired T L (pm_state T L pre j) (proj j r)) with DForce _ => true | _ => false end.

Definition pm_counted (n : nat) (T : Z) (L : layout) (pre : list round) (r : round) : list bool :=
  map (fun j => negb (pm_expired T L pre r j)) (seq 0 n).

(* the decision of a node for a group of n members *)
Definition decide_pm (n : nat) (T : Z) (L : layout) (pre : list round) (r : round) : decision :=
  if negb (r_lead r) then DNone
  else if (r_snap r =? 0)%N then DNone
  else if all_alive r then DHealthy (gen_idx L (r_snap r) (min_list (r_match r)))
  else if existsb (pm_expired T L pre r) (seq 0 n)
       then DForce (gen_idx L (r_snap r) (min_list (sel (pm_counted n T L pre r) (r_match r))))
       else DNone.

Lemma all_alive_proj : forall j q, all_alive (proj j q) = nth j (r_alive q) true.
Proof. intros; unfold all_alive, proj; cbn. apply andb_true_r. Qed.

Lemma snap_stays_map_proj : forall j rs, snap_stays rs -> snap_stays (map (proj j) rs).
Proof.
  induction rs as [|r rs IH]; cbn; [trivial|]. intros [H1 H2]. split; [|apply IH; assumption].
  intros Hs x Hx. apply in_map_iff in Hx. destruct Hx as (y & <- & Hy). cbn. apply H1; assumption.
Qed.

(* member j is given up only after ITS OWN continuous outage: in every decision round of a window longer than T this
   node was the leader and saw j not alive *)
Lemma pm_given_up_after_own_outage : forall T L pre r j,
  snap_stays (pre ++ [r]) -> pm_expired T L pre r j = true ->
  exists p a w, pre ++ [r] = p ++ a :: w /\ (T < r_now r - r_now a)%Z /\
                forall q, In q (a :: w) -> r_lead q = true /\ nth j (r_alive q) true = false.
Proof.
  intros T L pre r j Hss H. unfold pm_expired, pm_state in H.
  destruct (snd (decide tcfg_repaired T L (tstate tcfg_repaired T L None (map (proj j) pre)) (proj j r))) as [| |idx] eqn:Hd;
    try discriminate.
  assert (Hss' : snap_stays (map (proj j) pre ++ [proj j r])).
  { change [proj j r] with (map (proj j) [r]). rewrite <- map_app. apply snap_stays_map_proj. assumption. }
  destruct (forced_continuous_outage T L _ _ _ Hss' Hd) as (p' & a' & w' & E & Ht & Hw).
  change [proj j r] with (map (proj j) [r]) in E. rewrite <- map_app in E.
  apply map_eq_app in E. destruct E as (p & rest & E1 & E2 & E3).
  destruct rest as [|a w]; [discriminate|]. cbn in E3. inversion E3 as [[Ea Ew]].
  exists p, a, w. split; [assumption|]. split.
  - subst a'. cbn in Ht. assumption.
  - intros q Hq. assert (Hin : In (proj j q) (a' :: w')).
    { rewrite <- Ea, <- Ew. change (proj j a :: map (proj j) w) with (map (proj j) (a :: w)). apply in_map. assumption. }
    destruct (Hw _ Hin) as [A B]. rewrite all_alive_proj in B. split; assumption.
Qed.

Lemma min_list_le : forall l m x, min_list l = Some m -> In x l -> (m <= x)%N.
Proof.
  induction l as [|y l IH]; intros m x H Hin; [contradiction|]. cbn in H.
  destruct (min_list l) as [m'|] eqn:E.
  - inversion H; subst. destruct Hin as [->|Hin]; [lia|]. specialize (IH m' x eq_refl Hin). lia.
  - inversion H; subst. destruct Hin as [->|Hin]; [lia|]. destruct l; [contradiction|]. cbn in E. destruct (min_list l); discriminate.
Qed.

Lemma sel_nth_in : forall (fl : list bool) (l : list N) j, nth j fl false = true -> j < length l -> In (nth j l 0%N) (sel fl l).
Proof.
  induction fl as [|f fl IH]; intros l j Hf Hj; [destruct j; discriminate|].
  destruct l as [|x l]; [cbn in Hj; lia|]. destruct j; cbn in *.
  - subst f. left; reflexivity.
  - destruct f; [right|]; apply IH; try assumption; lia.
Qed.

(* the forced index takes the Match of every member whose own period has not expired into account *)
Lemma pm_forced_counts_members_within_tolerance : forall n T L pre r idx,
  decide_pm n T L pre r = DForce idx ->
  exists mm, idx = gen_idx L (r_snap r) mm /\
    forall j m, j < n -> j < length (r_match r) -> pm_expired T L pre r j = false -> mm = Some m -> (m <= nth j (r_match r) 0)%N.
Proof.
  intros n T L pre r idx H. unfold decide_pm in H.
  destruct (negb (r_lead r)); [discriminate|]. destruct (r_snap r =? 0)%N; [discriminate|].
  destruct (all_alive r); [discriminate|]. destruct (existsb _ _); [|discriminate]. inversion H; subst idx; clear H.
  eexists; split; [reflexivity|]. intros j m Hj Hl He Hm.
  eapply min_list_le; [exact Hm|]. apply sel_nth_in; [|assumption].
  unfold pm_counted. rewrite (nth_indep _ false (negb (pm_expired T L pre r 0))) by (rewrite map_length, seq_length; assumption).
  rewrite (map_nth (fun j0 => negb (pm_expired T L pre r j0)) (seq 0 n) 0 j), seq_nth by assumption. cbn. rewrite He. reflexivity.
Qed.
