(* C03 fault correspondence evaluator: runs FaultModel.replace_exec (+ the deletion of the out-of-order inputs) on what the
   fault-injection harness recorded from the real ReplaceFiles / merge and compares, per run:
   the files on disk and the intent-log state after the failed operation, the LIVE file list, the files loaded after the
   restart and the log state after it. Both variants of the delete loop are evaluated; the result says which one the
   working tree implements. The fault-free run must attempt exactly the canonical step list. *)
From Coq Require Import NArith List Bool Arith.
From OG Require Import C03.Model C03.FaultModel.
Import ListNotations.

Record frun := mkfrun {
  f_fail : option nat;                 (* ordinal of the failing attempt *)
  f_old : list N; f_new : list N;      (* as named by the intent log (order matters: the loops walk them in this order) *)
  f_disk : list (N * bool);            (* files on disk after the operation *)
  f_log : nat;                         (* intent-log files on disk after the operation *)
  f_live : list N;                     (* live file list after the operation *)
  f_reopened : list N;                 (* files loaded after the restart *)
  f_log_re : nat                       (* intent-log files after the restart *)
}.

Record fcase := mkfcase {
  fc_univ : list N;
  fc_fs0 : list (N * bool);            (* files on disk before the operation *)
  fc_unord : list N;                   (* out-of-order inputs deleted after the replacement (merge) *)
  fc_inuse : list N;                   (* files referenced by a reader (parked instead of removed) *)
  fc_attempts : list step;             (* the fault-free run: protocol mutations attempted, in order *)
  fc_runs : list frun
}.

Definition fs0_of (l : list (N * bool)) : fs := mkfs (files_of (map (fun e => (fst e, snd e, 1%N)) l)) NoLog.

Fixpoint insert (x : N) (l : list N) : list N :=
  match l with
  | [] => [x]
  | y :: r => if N.leb x y then x :: l else y :: insert x r
  end.
Definition sortN (l : list N) : list N := fold_right insert [] l.

Fixpoint listN_eqb (a b : list N) : bool :=
  match a, b with
  | [], [] => true
  | x :: a', y :: b' => N.eqb x y && listN_eqb a' b'
  | _, _ => false
  end.

Definition disk_listing (univ : list N) (st : fs) : list (N * bool) :=
  flat_map (fun n => (if present st (n, false) then [(n, false)] else []) ++ (if present st (n, true) then [(n, true)] else [])) univ.

Fixpoint listing_eqb (a b : list (N * bool)) : bool :=
  match a, b with
  | [], [] => true
  | (x, i) :: a', (y, j) :: b' => N.eqb x y && Bool.eqb i j && listing_eqb a' b'
  | _, _ => false
  end.

Definition log_count (st : fs) : nat := match logs st with NoLog => 0 | _ => 1 end.

(* vd: variant of the delete loop of ReplaceFiles; vu: variant of deleteUnorderedFiles; vl: is an intent log that could not be
   written / synced removed again (Repaired) or left behind (Current) *)
Definition model_run (vd vu vl : variant) (c : fcase) (r : frun) : fs * list N :=
  let inuse := fun n => mem n (fc_inuse c) in
  let fails := fun i => match f_fail r with Some j => Nat.eqb i j | None => false end in
  let live0 := map fst (filter (fun e => negb (snd e)) (fc_fs0 c)) in
  let x := replace_exec_c (match vl with Repaired => true | Current => false end) vd inuse fails 0 (f_old r) (f_new r)
                          (fs0_of (fc_fs0 c)) live0 in
  if r_err x then (r_fs x, r_live x)
  else unord_loop_v vu inuse fails (r_next x) (fc_unord c) (r_fs x) (r_live x).

(* 0 = agrees *)
Definition run_code (vd vu vl : variant) (c : fcase) (r : frun) : nat :=
  let '(st, live) := model_run vd vu vl c r in
  let re := recover (fc_univ c) st in
  if negb (listing_eqb (f_disk r) (disk_listing (fc_univ c) st)) then 61
  else if negb (Nat.eqb (f_log r) (log_count st)) then 62
  else if negb (listN_eqb (sortN (f_live r)) (sortN live)) then 63
  else if negb (listN_eqb (sortN (f_reopened r)) (map fst (filter (fun e => negb (snd e)) (disk_listing (fc_univ c) re)))) then 64
  else if negb (Nat.eqb (f_log_re r) (log_count re)) then 65
  else 0.

Definition step_same (a b : step) : bool :=
  match a, b with
  | LogWrite o n, LogWrite o' n' => listN_eqb o o' && listN_eqb n n'
  | _, _ => step_eqb a b
  end.
Fixpoint steps_same (a b : list step) : bool :=
  match a, b with
  | [], [] => true
  | x :: a', y :: b' => step_same x y && steps_same a' b'
  | _, _ => false
  end.

(* the attempts of the fault-free run: the canonical step list of the replacement, then the out-of-order inputs - removed /
   parked one by one (today), or parked and then removed unless in use (after fix5) *)
Definition unord_steps_rep (inuse : N -> bool) (unord : list N) : list step :=
  flat_map (fun u => if inuse u then [Mv (u, false) (u, true)] else [Mv (u, false) (u, true); Rm (u, true)]) unord.

Definition shape_code (c : fcase) : nat :=
  match fc_runs c with
  | r :: _ =>
      let inuse := fun n => mem n (fc_inuse c) in
      if steps_same (fc_attempts c) (merge_steps inuse (f_old r) (f_new r) (fc_unord c)) then 0
      else if steps_same (fc_attempts c) (replace_steps inuse (f_old r) (f_new r) ++ unord_steps_rep inuse (fc_unord c)) then 0
      else 60
  | [] => 0
  end.

(* which of the eight variant combinations agree with the run: bit 1 = delete loop as before e369601, bit 2 = deleteUnorderedFiles
   as today, bit 4 = failed log left behind as today; the result has bit 2^k set iff combination k agrees *)
Definition vof (b : bool) : variant := if b then Current else Repaired.
Definition agree_mask (c : fcase) (r : frun) : nat :=
  fold_left (fun acc k =>
               let d := Nat.odd k in let u := Nat.odd (k / 2) in let l := Nat.odd (k / 4) in
               match run_code (vof d) (vof u) (vof l) c r with 0 => acc + 2 ^ k | _ => acc end)
            (seq 0 8) 0.

(* per run: (index, code under the fully repaired model, agreement mask) when the fully repaired model does not agree *)
Fixpoint runs_from (c : fcase) (i : nat) (l : list frun) : list (nat * nat * nat) :=
  match l with
  | [] => []
  | r :: rest => match run_code Repaired Repaired Repaired c r with
                 | 0 => runs_from c (S i) rest
                 | code => (i, code, agree_mask c r) :: runs_from c (S i) rest
                 end
  end.

Definition fcase_mismatches (ci : nat) (c : fcase) : list (nat * nat * nat * nat) :=
  (match shape_code c with 0 => [] | code => [(ci, 0, code, 0)] end) ++
  map (fun t => match t with (i, a, b) => (ci, i, a, b) end) (runs_from c 0 (fc_runs c)).

Fixpoint fmismatches_from (ci : nat) (cs : list fcase) : list (nat * nat * nat * nat) :=
  match cs with
  | [] => []
  | c :: r => fcase_mismatches ci c ++ fmismatches_from (S ci) r
  end.
Definition fmismatches := fmismatches_from 0.
