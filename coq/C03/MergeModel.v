(* C03 out-of-order merge at column level: what the merge writes for ONE column of ONE series.
   Code mirrored: lib/record/meger.go MergeHelper.merge / ColMergePerformer (two cursors over the ordered and the unordered
   (time, cell) sequences; on equal times MergeSameTime takes the unordered cell unless it is nil, then the ordered one);
   engine/immutable/unordered_reader.go UnorderedReader.Read (a nil column over the union of the times of all out-of-order
   files, then every file merged in, oldest first); merge_performer.go Handle / writeUnorderedCol (a column absent from the
   ordered chunk counts as nil at the ordered times). Executable definitions only. *)
From Coq Require Import ZArith List Bool.
Import ListNotations.

Definition mcell := option Z.                 (* None = nil *)
Definition tcol := list (Z * mcell).          (* (time, cell), strictly ascending in time *)

(* the two-cursor merge; u is the newer side *)
Fixpoint merge_col (o : tcol) : tcol -> tcol :=
  fix inner (u : tcol) : tcol :=
    match o, u with
    | [], _ => u
    | _, [] => o
    | (t1, c1) :: o', (t2, c2) :: u' =>
        if Z.eqb t1 t2 then (t1, match c2 with Some _ => c2 | None => c1 end) :: merge_col o' u'     (* MergeSameTime *)
        else if Z.ltb t1 t2 then (t1, c1) :: merge_col o' u                                           (* MergeOrder *)
        else (t2, c2) :: inner u'                                                                     (* MergeUnordered *)
    end.

(* the out-of-order side: all files of the series merged oldest first *)
Definition merge_files (us : list tcol) : tcol := fold_left merge_col us [].

(* the column after the merge: the ordered chunks (file order = time order) with the out-of-order files merged in *)
Definition merge_series (os us : list tcol) : tcol := merge_col (concat os) (merge_files us).

Fixpoint assoc (t : Z) (l : tcol) : option mcell :=
  match l with
  | [] => None
  | (t', c) :: r => if Z.eqb t t' then Some c else assoc t r
  end.

(* the value a query sees at time t: nil and "no row" both read as no value *)
Definition val (t : Z) (l : tcol) : option Z := match assoc t l with Some (Some v) => Some v | _ => None end.

(* strictly ascending, all times above lo *)
Fixpoint asc_from (lo : Z) (l : tcol) : Prop :=
  match l with
  | [] => True
  | (t, _) :: r => (lo < t)%Z /\ asc_from t r
  end.
Definition asc (l : tcol) : Prop := match l with [] => True | (t, _) :: r => asc_from t r end.

(* the documented mutant: on equal times the ordered (older) cell wins *)
Fixpoint merge_col_old_wins (o : tcol) : tcol -> tcol :=
  fix inner (u : tcol) : tcol :=
    match o, u with
    | [], _ => u
    | _, [] => o
    | (t1, c1) :: o', (t2, c2) :: u' =>
        if Z.eqb t1 t2 then (t1, match c1 with Some _ => c1 | None => c2 end) :: merge_col_old_wins o' u'
        else if Z.ltb t1 t2 then (t1, c1) :: merge_col_old_wins o' u
        else (t2, c2) :: inner u'
    end.
