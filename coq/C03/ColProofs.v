(* C03 column-compaction proofs: for well-formed input chunks the code-shaped compactor writes exactly the cells of the
   inputs, in order, absent columns as nils, in segments of max-rows (the last one shorter): nothing lost, duplicated,
   reordered or shifted against the time column. *)
From Coq Require Import NArith ZArith List Bool Arith Lia.
From OG Require Import C03.ColModel.
Import ListNotations.

Lemma total_app a b : total (a ++ b) = total a + total b.
Proof. unfold total. induction a as [|x a IH]; cbn; [reflexivity | rewrite IH; lia]. Qed.

Lemma total_cons x l : total (x :: l) = x + total l.
Proof. reflexivity. Qed.

Lemma wf_rows_cons2 m r r2 rest : wf_rows m (r :: r2 :: rest) <-> r = m /\ wf_rows m (r2 :: rest).
Proof. reflexivity. Qed.

Lemma wf_rows_one m r : wf_rows m [r] <-> 1 <= r <= m.
Proof. reflexivity. Qed.

Lemma wf_rows_total_pos m rows : wf_rows m rows -> 1 <= total rows.
Proof.
  induction rows as [|r rest IH]; [cbn; tauto|].
  intro H. rewrite total_cons. destruct rest as [|r2 rest2].
  - pose proof (proj1 (wf_rows_one _ _) H) as H1. change (total []) with 0. lia.
  - pose proof (proj1 (wf_rows_cons2 _ _ _ _) H) as [_ H1]. specialize (IH H1). lia.
Qed.

(* ---- nil padding = a present column full of nils (well-formed chunks only) ---- *)
Lemma pad_as_present {A} (nil : A) m lastItr rows st :
  wf_rows m rows ->
  seg_loop PadCounter nil m lastItr rows None (total rows) st =
  seg_loop PadCounter nil m lastItr rows (Some (map (repeat nil) rows)) (total rows) st.
Proof.
  revert st. induction rows as [|r rest IH]; intros st Hwf; [reflexivity|].
  cbn [seg_loop map]. destruct rest as [|r2 rest2].
  - cbn in Hwf. unfold pad_step. cbn [total fold_right]. rewrite Nat.add_0_r.
    destruct (Nat.ltb_spec m r); [lia|]. reflexivity.
  - destruct Hwf as [Hr Hwf]. subst r.
    pose proof (wf_rows_total_pos _ _ Hwf) as Hp.
    unfold pad_step. change (total (m :: r2 :: rest2)) with (m + total (r2 :: rest2)).
    destruct (Nat.ltb_spec m (m + total (r2 :: rest2))); [|lia].
    replace (m + total (r2 :: rest2) - m) with (total (r2 :: rest2)) by lia.
    cbn [andb]. rewrite (IH _ Hwf).
    (* the rowCount argument is irrelevant once the column is present *)
    assert (Hirr : forall rows' (col : list (list A)) rc1 rc2 li s,
               seg_loop PadCounter nil m li rows' (Some col) rc1 s = seg_loop PadCounter nil m li rows' (Some col) rc2 s).
    { clear. induction rows' as [|x rows' IH']; intros col rc1 rc2 li s; [reflexivity|].
      cbn [seg_loop]. destruct col as [|seg segs].
      - destruct (_ && _ && _); [reflexivity|]. apply IH'.
      - destruct (_ && _ && _); [reflexivity|]. apply IH'. }
    apply Hirr.
Qed.

(* ---- the invariant between segments: fewer than max-rows rows buffered, only full segments written ---- *)
Definition inv {A} (m : nat) (st : list A * list (list A)) : Prop :=
  length (fst st) < m /\ Forall (fun s => length s = m) (snd st).

Definition flat {A} (st : list A * list (list A)) : list A := concat (snd st) ++ fst st.

Lemma concat_snoc {A} (l : list (list A)) x : concat (l ++ [x]) = concat l ++ x.
Proof. rewrite concat_app. cbn. rewrite app_nil_r. reflexivity. Qed.

Lemma Forall_snoc {A} (P : A -> Prop) l x : Forall P l -> P x -> Forall P (l ++ [x]).
Proof. intros H1 H2. apply Forall_app. split; [exact H1 | constructor; [exact H2 | constructor]]. Qed.

(* writing when the buffer holds between max-rows and 2*max-rows - 1 rows *)
Lemma write_full {A} m (buf : list A) out :
  0 < m -> m <= length buf < 2 * m -> Forall (fun s => length s = m) out ->
  inv m (write_segment m (buf, out)) /\ flat (write_segment m (buf, out)) = concat out ++ buf.
Proof.
  intros Hm Hl Ho. unfold write_segment, inv, flat.
  destruct (Nat.ltb_spec m (length buf)); cbn [fst snd].
  - split; [split|].
    + rewrite skipn_length. lia.
    + apply Forall_snoc; [exact Ho|]. rewrite firstn_length. lia.
    + rewrite concat_snoc, <- app_assoc, firstn_skipn. reflexivity.
  - split; [split|].
    + cbn. lia.
    + apply Forall_snoc; [exact Ho | lia].
    + rewrite concat_snoc, app_nil_r. reflexivity.
Qed.

Lemma write_segment_gt {A} m (buf : list A) out :
  m < length buf -> write_segment m (buf, out) = (skipn m buf, out ++ [firstn m buf]).
Proof. intro H. unfold write_segment. destruct (Nat.ltb_spec m (length buf)); [reflexivity | lia]. Qed.

Lemma write_segment_le {A} m (buf : list A) out :
  length buf <= m -> write_segment m (buf, out) = ([], out ++ [buf]).
Proof. intro H. unfold write_segment. destruct (Nat.ltb_spec m (length buf)); [lia | reflexivity]. Qed.

(* non-last input chunk: the invariant is kept and exactly the chunk's cells are consumed *)
Lemma seg_loop_mid {A} (nil : A) m rows : forall (segs : list (list A)) rc st,
  0 < m -> wf_rows m rows -> map (@length A) segs = rows -> inv m st ->
  let st' := seg_loop PadCounter nil m false rows (Some segs) rc st in
  inv m st' /\ flat st' = flat st ++ concat segs.
Proof.
  induction rows as [|r rest IH]; intros segs rc st Hm Hwf Hlen Hinv; [cbn in Hwf; tauto|].
  destruct segs as [|seg segs]; [discriminate|]. cbn in Hlen. injection Hlen as Hseg Hlen.
  destruct st as [buf out]. destruct Hinv as [Hb Ho]. cbn [fst snd] in Hb, Ho.
  cbn [seg_loop fst snd negb andb]. destruct rest as [|r2 rest2].
  - (* last segment of the chunk *)
    cbn in Hwf. destruct segs; [|discriminate]. cbn [andb].
    destruct (Nat.ltb_spec (length (buf ++ seg)) m) as [Hlt|Hge].
    + cbn [concat]. rewrite app_nil_r. unfold inv, flat. cbn [fst snd]. split; [split; assumption|].
      rewrite app_assoc. reflexivity.
    + cbn [andb seg_loop]. rewrite app_length in Hge.
      destruct (write_full m (buf ++ seg) out Hm) as [Hi Hf]; [rewrite app_length; lia | exact Ho|].
      split; [exact Hi|]. rewrite Hf. unfold flat. cbn [fst snd concat]. rewrite app_nil_r, app_assoc. reflexivity.
  - destruct Hwf as [Hr Hwf]. cbn [andb].
    destruct (write_full m (buf ++ seg) out Hm) as [Hi Hf]; [rewrite app_length; lia | exact Ho|].
    specialize (IH segs rc (write_segment m (buf ++ seg, out)) Hm Hwf Hlen Hi).
    cbn zeta in IH. destruct IH as [IH1 IH2]. split; [exact IH1|].
    rewrite IH2, Hf. unfold flat. cbn [fst snd concat]. rewrite <- !app_assoc. reflexivity.
Qed.

(* the shape of a finished column: full segments followed by one segment of 1..max-rows rows *)
Definition done_shape {A} (m : nat) (out : list (list A)) : Prop :=
  exists full lastseg, out = full ++ [lastseg] /\ Forall (fun s => length s = m) full /\ 1 <= length lastseg <= m.

(* last input chunk: everything is flushed *)
Lemma seg_loop_last {A} (nil : A) m rows : forall (segs : list (list A)) rc st,
  0 < m -> wf_rows m rows -> map (@length A) segs = rows -> inv m st ->
  let st' := seg_loop PadCounter nil m true rows (Some segs) rc st in
  fst st' = [] /\ done_shape m (snd st') /\ concat (snd st') = flat st ++ concat segs.
Proof.
  induction rows as [|r rest IH]; intros segs rc st Hm Hwf Hlen Hinv; [cbn in Hwf; tauto|].
  destruct segs as [|seg segs]; [discriminate|]. cbn in Hlen. injection Hlen as Hseg Hlen.
  destruct st as [buf out]. destruct Hinv as [Hb Ho]. cbn [fst snd] in Hb, Ho.
  cbn [seg_loop fst snd negb andb]. destruct rest as [|r2 rest2].
  - cbn in Hwf. destruct segs; [|discriminate]. cbn [andb seg_loop].
    destruct (Nat.ltb_spec m (length (buf ++ seg))) as [Hgt|Hle].
    + (* more than a segment: a full one, then the rest *)
      rewrite (write_segment_gt m (buf ++ seg) out Hgt). cbn [fst].
      assert (Hsk : 1 <= length (skipn m (buf ++ seg)) < m) by (rewrite skipn_length, app_length in *; lia).
      destruct (Nat.ltb_spec 0 (length (skipn m (buf ++ seg)))); [|lia].
      rewrite write_segment_le by lia. cbn [fst snd].
      split; [reflexivity|]. split.
      * exists (out ++ [firstn m (buf ++ seg)]), (skipn m (buf ++ seg)). split; [reflexivity|]. split; [|lia].
        apply Forall_snoc; [exact Ho|]. rewrite firstn_length. lia.
      * rewrite !concat_snoc, <- app_assoc, firstn_skipn. unfold flat. cbn [fst snd concat].
        rewrite app_nil_r, app_assoc. reflexivity.
    + rewrite (write_segment_le m (buf ++ seg) out Hle). cbn [fst snd length]. cbn [Nat.ltb Nat.leb].
      split; [reflexivity|]. split.
      * exists out, (buf ++ seg). split; [reflexivity|]. split; [exact Ho|]. rewrite app_length in *. lia.
      * cbn [snd]. rewrite concat_snoc. unfold flat. cbn [fst snd concat]. rewrite app_nil_r, app_assoc. reflexivity.
  - destruct Hwf as [Hr Hwf]. cbn [andb].
    destruct (write_full m (buf ++ seg) out Hm) as [Hi Hf]; [rewrite app_length; lia | exact Ho|].
    specialize (IH segs rc (write_segment m (buf ++ seg, out)) Hm Hwf Hlen Hi).
    cbn zeta in IH. destruct IH as [IH1 [IH2 IH3]]. split; [exact IH1|]. split; [exact IH2|].
    rewrite IH3, Hf. unfold flat. cbn [fst snd concat]. rewrite <- !app_assoc. reflexivity.
Qed.

(* a source with the padding made explicit *)
Definition present {A} (nil : A) (s : src A) : list (list A) :=
  match s_col s with Some segs => segs | None => map (repeat nil) (s_rows s) end.

Lemma present_len {A} (nil : A) m s : wf_src m s -> map (@length A) (present nil s) = s_rows s.
Proof.
  intros [_ H]. unfold present. destruct (s_col s); [exact H|].
  rewrite map_map. rewrite <- (map_id (s_rows s)) at 2. apply map_ext. intro. apply repeat_length.
Qed.

Lemma concat_map_repeat {A} (nil : A) rows : concat (map (repeat nil) rows) = repeat nil (total rows).
Proof. induction rows as [|r rows IH]; [reflexivity|]. cbn [map concat]. rewrite total_cons, IH, repeat_app. reflexivity. Qed.

Lemma present_expand {A} (nil : A) s : concat (present nil s) = expand nil s.
Proof. unfold present, expand. destruct (s_col s); [reflexivity | apply concat_map_repeat]. Qed.

Lemma seg_loop_present {A} (nil : A) m li s st :
  wf_src m s ->
  seg_loop PadCounter nil m li (s_rows s) (s_col s) (total (s_rows s)) st =
  seg_loop PadCounter nil m li (s_rows s) (Some (present nil s)) (total (s_rows s)) st.
Proof.
  intros [Hwf _]. unfold present. destruct (s_col s); [reflexivity|]. apply pad_as_present. exact Hwf.
Qed.

Lemma itr_loop_spec {A} (nil : A) m srcs : forall st,
  0 < m -> srcs <> [] -> Forall (wf_src m) srcs -> inv m st ->
  let st' := itr_loop PadCounter nil m srcs st in
  fst st' = [] /\ done_shape m (snd st') /\ concat (snd st') = flat st ++ concat (map (expand nil) srcs).
Proof.
  induction srcs as [|s rest IH]; intros st Hm Hne Hall Hinv; [congruence|].
  inversion Hall as [|? ? Hs Hrest]; subst. cbn [itr_loop map concat].
  rewrite (seg_loop_present nil m _ s st Hs).
  destruct rest as [|s2 rest2].
  - cbn [itr_loop].
    destruct (seg_loop_last nil m (s_rows s) (present nil s) (total (s_rows s)) st Hm (proj1 Hs) (present_len nil m s Hs) Hinv)
      as [H1 [H2 H3]].
    split; [exact H1|]. split; [exact H2|]. rewrite H3, present_expand. cbn [map concat]. rewrite app_nil_r. reflexivity.
  - destruct (seg_loop_mid nil m (s_rows s) (present nil s) (total (s_rows s)) st Hm (proj1 Hs) (present_len nil m s Hs) Hinv)
      as [H1 H2].
    assert (Hne2 : s2 :: rest2 <> []) by discriminate.
    destruct (IH _ Hm Hne2 Hrest H1) as [I1 [I2 I3]].
    split; [exact I1|]. split; [exact I2|]. rewrite I3, H2, present_expand, <- app_assoc. reflexivity.
Qed.

Lemma done_shape_wf {A} m (out : list (list A)) : done_shape m out -> wf_rows m (map (@length A) out).
Proof.
  intros [full [lastseg [E [Hf Hl]]]]. subst out. rewrite map_app. cbn [map].
  induction full as [|x full IH]; cbn [map app].
  - cbn. exact Hl.
  - inversion Hf; subst. cbn [wf_rows]. destruct (map _ full ++ [length lastseg]) eqn:E.
    + destruct (map _ full); discriminate.
    + split; [reflexivity | apply IH; assumption].
Qed.

(* MAIN: the column written by the compactor *)
Lemma compact_col_correct {A} (nil : A) m srcs :
  0 < m -> srcs <> [] -> Forall (wf_src m) srcs ->
  concat (compact_col nil m srcs) = concat (map (expand nil) srcs) /\
  wf_rows m (map (@length A) (compact_col nil m srcs)).
Proof.
  intros Hm Hne Hall. unfold compact_col, compact_col_gen.
  assert (Hinv : inv m (([] : list A), ([] : list (list A)))) by (split; cbn; [lia | constructor]).
  destruct (itr_loop_spec nil m srcs _ Hm Hne Hall Hinv) as [H1 [H2 H3]]. cbn zeta in *.
  rewrite H1. cbn [length Nat.ltb Nat.leb]. split; [rewrite H3; reflexivity | apply done_shape_wf; exact H2].
Qed.

(* two well-formed segmentations of the same number of rows are the same segmentation *)
Lemma wf_rows_unique m : forall a b, wf_rows m a -> wf_rows m b -> total a = total b -> a = b.
Proof.
  induction a as [|x a IH]; intros b Ha Hb Ht; [cbn in Ha; tauto|].
  destruct b as [|y b]; [cbn in Hb; tauto|].
  cbn [wf_rows] in Ha, Hb. destruct a as [|x2 a2]; destruct b as [|y2 b2].
  - cbn in Ht. f_equal. lia.
  - destruct Hb as [Hy Hb]. pose proof (wf_rows_total_pos _ _ Hb). cbn [total fold_right] in *. lia.
  - destruct Ha as [Hx Ha]. pose proof (wf_rows_total_pos _ _ Ha). cbn [total fold_right] in *. lia.
  - destruct Ha as [Hx Ha], Hb as [Hy Hb]. subst. f_equal. apply IH; try assumption.
    cbn [total fold_right] in *. lia.
Qed.

Lemma total_map_length_concat {A} (l : list (list A)) : total (map (@length A) l) = length (concat l).
Proof. induction l as [|x l IH]; [reflexivity|]. cbn [map concat]. rewrite total_cons, app_length, IH. reflexivity. Qed.

Lemma expand_length {A} (nil : A) m s : wf_src m s -> length (expand nil s) = total (s_rows s).
Proof.
  intros [_ H]. unfold expand. destruct (s_col s) as [segs|].
  - rewrite <- H. symmetry. apply total_map_length_concat.
  - apply repeat_length.
Qed.

(* any two columns of the same chunks (e.g. a field and the time column) are cut into segments at the same rows *)
Lemma columns_aligned {A B} (nilA : A) (nilB : B) m (sa : list (src A)) (sb : list (src B)) :
  0 < m -> sa <> [] -> Forall (wf_src m) sa -> Forall (wf_src m) sb -> map s_rows sa = map s_rows sb ->
  map (@length A) (compact_col nilA m sa) = map (@length B) (compact_col nilB m sb).
Proof.
  intros Hm Hne Ha Hb Hrows.
  assert (Hneb : sb <> []) by (destruct sa; [congruence|]; destruct sb; [discriminate | discriminate]).
  destruct (compact_col_correct nilA m sa Hm Hne Ha) as [A1 A2].
  destruct (compact_col_correct nilB m sb Hm Hneb Hb) as [B1 B2].
  apply (wf_rows_unique m); try assumption.
  rewrite !total_map_length_concat, A1, B1.
  clear A1 A2 B1 B2 Hne Hneb. revert sb Hb Hrows. induction sa as [|a sa IH]; intros sb Hb Hrows.
  - destruct sb; [reflexivity | discriminate].
  - destruct sb as [|b sb]; [discriminate|]. cbn in Hrows. injection Hrows as Hr Hrows.
    inversion Ha; subst. inversion Hb; subst. cbn [map concat]. rewrite !app_length.
    rewrite (expand_length nilA m a), (expand_length nilB m b), Hr by assumption. f_equal. apply IH; assumption.
Qed.

(* ---------- the repaired padding (PadActual): exact for every chunk whose segments are not longer than max-rows ---------- *)
Lemma pad_actual_as_present {A} (nil : A) m lastItr rows : forall rc st,
  seg_loop PadActual nil m lastItr rows None rc st =
  seg_loop PadActual nil m lastItr rows (Some (map (repeat nil) rows)) rc st.
Proof.
  induction rows as [|r rest IH]; intros rc st; [reflexivity|].
  cbn [seg_loop map pad_step]. destruct (_ && _ && _); [reflexivity|]. apply IH.
Qed.

Lemma write_any {A} m (buf : list A) out :
  0 < m -> length buf < 2 * m ->
  length (fst (write_segment m (buf, out))) < m /\ flat (write_segment m (buf, out)) = concat out ++ buf.
Proof.
  intros Hm Hl. unfold write_segment, flat. destruct (Nat.ltb_spec m (length buf)); cbn [fst snd].
  - split; [rewrite skipn_length; lia|]. rewrite concat_snoc, <- app_assoc, firstn_skipn. reflexivity.
  - split; [cbn; lia|]. rewrite concat_snoc, app_nil_r. reflexivity.
Qed.

Lemma seg_loop_bounded_mid {A} (mode : padmode) (nil : A) m rows : forall (segs : list (list A)) rc st,
  0 < m -> Forall (fun r => r <= m) rows -> map (@length A) segs = rows -> length (fst st) < m ->
  let st' := seg_loop mode nil m false rows (Some segs) rc st in
  length (fst st') < m /\ flat st' = flat st ++ concat segs.
Proof.
  induction rows as [|r rest IH]; intros segs rc st Hm Hb Hlen Hinv.
  - destruct segs; [|discriminate]. cbn. rewrite app_nil_r. split; [exact Hinv | reflexivity].
  - destruct segs as [|seg segs]; [discriminate|]. cbn in Hlen. injection Hlen as Hseg Hlen.
    apply Forall_cons_iff in Hb. destruct Hb as [Hr Hb']. rewrite <- Hseg in Hr.
    destruct st as [buf out]. cbn [fst snd] in Hinv. cbn [seg_loop fst snd negb andb].
    assert (Hl2 : length (buf ++ seg) < 2 * m) by (rewrite app_length; lia).
    destruct (write_any m (buf ++ seg) out Hm Hl2) as [Hi Hf].
    destruct rest as [|r2 rest2].
    + destruct segs; [|discriminate]. cbn [andb].
      destruct (Nat.ltb_spec (length (buf ++ seg)) m) as [Hlt|Hge].
      * cbn [concat]. rewrite app_nil_r. unfold flat. cbn [fst snd]. split; [exact Hlt|]. rewrite app_assoc. reflexivity.
      * cbn [andb seg_loop]. split; [exact Hi|]. rewrite Hf. unfold flat. cbn [fst snd concat].
        rewrite app_nil_r, app_assoc. reflexivity.
    + cbn [andb].
      specialize (IH segs rc (write_segment m (buf ++ seg, out)) Hm Hb' Hlen Hi). cbn zeta in IH.
      destruct IH as [IH1 IH2]. split; [exact IH1|]. rewrite IH2, Hf. unfold flat. cbn [fst snd concat].
      rewrite <- !app_assoc. reflexivity.
Qed.

Lemma seg_loop_bounded_last {A} (mode : padmode) (nil : A) m rows : forall (segs : list (list A)) rc st,
  0 < m -> rows <> [] -> Forall (fun r => r <= m) rows -> map (@length A) segs = rows -> length (fst st) < m ->
  let st' := seg_loop mode nil m true rows (Some segs) rc st in
  fst st' = [] /\ concat (snd st') = flat st ++ concat segs.
Proof.
  induction rows as [|r rest IH]; intros segs rc st Hm Hne Hb Hlen Hinv; [congruence|].
  destruct segs as [|seg segs]; [discriminate|]. cbn in Hlen. injection Hlen as Hseg Hlen.
  apply Forall_cons_iff in Hb. destruct Hb as [Hr Hb']. rewrite <- Hseg in Hr.
  destruct st as [buf out]. cbn [fst snd] in Hinv. cbn [seg_loop fst snd negb andb].
  assert (Hl2 : length (buf ++ seg) < 2 * m) by (rewrite app_length; lia).
  destruct (write_any m (buf ++ seg) out Hm Hl2) as [Hi Hf].
  destruct rest as [|r2 rest2].
  - destruct segs; [|discriminate]. cbn [andb seg_loop].
    destruct (write_segment m (buf ++ seg, out)) as [b1 o1] eqn:E1. cbn [fst snd] in *.
    unfold flat in Hf. cbn [fst snd] in Hf.
    destruct (Nat.ltb_spec 0 (length b1)) as [Hpos|Hz].
    + rewrite (write_segment_le m b1 o1) by lia. cbn [fst snd]. split; [reflexivity|].
      rewrite concat_snoc, Hf. unfold flat. cbn [fst snd concat]. rewrite app_nil_r, app_assoc. reflexivity.
    + destruct b1; [|cbn in Hz; lia]. cbn [fst snd]. split; [reflexivity|].
      rewrite app_nil_r in Hf. rewrite Hf. unfold flat. cbn [fst snd concat]. rewrite app_nil_r, app_assoc. reflexivity.
  - cbn [andb].
    assert (Hne2 : r2 :: rest2 <> []) by discriminate.
    specialize (IH segs rc (write_segment m (buf ++ seg, out)) Hm Hne2 Hb' Hlen Hi). cbn zeta in IH.
    destruct IH as [IH1 IH2]. split; [exact IH1|]. rewrite IH2, Hf. unfold flat. cbn [fst snd concat].
    rewrite <- !app_assoc. reflexivity.
Qed.

Lemma present_len_b {A} (nil : A) m s : bounded_src m s -> map (@length A) (present nil s) = s_rows s.
Proof.
  intros [_ [_ H]]. unfold present. destruct (s_col s); [exact H|].
  rewrite map_map. rewrite <- (map_id (s_rows s)) at 2. apply map_ext. intro. apply repeat_length.
Qed.

Lemma itr_loop_actual {A} (nil : A) m srcs : forall st,
  0 < m -> srcs <> [] -> Forall (bounded_src m) srcs -> length (fst st) < m ->
  let st' := itr_loop PadActual nil m srcs st in
  fst st' = [] /\ concat (snd st') = flat st ++ concat (map (expand nil) srcs).
Proof.
  induction srcs as [|s rest IH]; intros st Hm Hne Hall Hinv; [congruence|].
  inversion Hall as [|? ? Hs Hrest]; subst. cbn [itr_loop map concat].
  assert (Epre : forall li, seg_loop PadActual nil m li (s_rows s) (s_col s) (total (s_rows s)) st =
                            seg_loop PadActual nil m li (s_rows s) (Some (present nil s)) (total (s_rows s)) st).
  { intro li. unfold present. destruct (s_col s); [reflexivity | apply pad_actual_as_present]. }
  rewrite Epre. destruct Hs as [Hs1 [Hs2 Hs3]].
  destruct rest as [|s2 rest2].
  - cbn [itr_loop].
    destruct (seg_loop_bounded_last PadActual nil m (s_rows s) (present nil s) (total (s_rows s)) st Hm Hs1 Hs2
                (present_len_b nil m s (conj Hs1 (conj Hs2 Hs3))) Hinv) as [H1 H2].
    split; [exact H1|]. rewrite H2, present_expand. cbn [map concat]. rewrite app_nil_r. reflexivity.
  - destruct (seg_loop_bounded_mid PadActual nil m (s_rows s) (present nil s) (total (s_rows s)) st Hm Hs2
                (present_len_b nil m s (conj Hs1 (conj Hs2 Hs3))) Hinv) as [H1 H2].
    assert (Hne2 : s2 :: rest2 <> []) by discriminate.
    destruct (IH _ Hm Hne2 Hrest H1) as [I1 I2].
    split; [exact I1|]. rewrite I2, H2, present_expand, <- app_assoc. reflexivity.
Qed.

(* MAIN (repaired padding): nothing lost, duplicated, reordered or shifted, without the full-inner-segments premise *)
Lemma compact_col_actual_correct {A} (nil : A) m srcs :
  0 < m -> srcs <> [] -> Forall (bounded_src m) srcs ->
  concat (compact_col_actual nil m srcs) = concat (map (expand nil) srcs).
Proof.
  intros Hm Hne Hall. unfold compact_col_actual, compact_col_gen.
  assert (Hinv : length (fst (([] : list A), ([] : list (list A)))) < m) by (cbn; lia).
  destruct (itr_loop_actual nil m srcs _ Hm Hne Hall Hinv) as [H1 H2]. cbn zeta in *.
  rewrite H1. cbn [length Nat.ltb Nat.leb]. rewrite H2. reflexivity.
Qed.

(* on well-formed chunks the repair changes nothing *)
Lemma actual_eq_counter_on_wf {A} (nil : A) m srcs :
  Forall (wf_src m) srcs -> compact_col_actual nil m srcs = compact_col nil m srcs.
Proof.
  intro Hall. unfold compact_col_actual, compact_col, compact_col_gen.
  assert (E : forall st, itr_loop PadActual nil m srcs st = itr_loop PadCounter nil m srcs st).
  { induction srcs as [|s rest IH]; intro st; [reflexivity|]. inversion Hall as [|? ? Hs Hrest]; subst.
    cbn [itr_loop]. rewrite (IH Hrest).
    f_equal. rewrite (seg_loop_present nil m _ s st Hs).
    unfold present. destruct (s_col s) eqn:Ec.
    - clear. generalize (total (s_rows s)) as rc. revert st l.
      induction (s_rows s) as [|r rows IHr]; intros st l rc; [reflexivity|].
      cbn [seg_loop]. destruct l as [|seg segs]; (destruct (_ && _ && _); [reflexivity | apply IHr]).
    - rewrite pad_actual_as_present.
      generalize (total (s_rows s)) as rc. generalize (map (repeat nil) (s_rows s)) as l. clear. revert st.
      induction (s_rows s) as [|r rows IHr]; intros st l rc; [reflexivity|].
      cbn [seg_loop]. destruct l as [|seg segs]; (destruct (_ && _ && _); [reflexivity | apply IHr]). }
  rewrite E. reflexivity.
Qed.

Lemma rows_preserved (A : Type) (nil : A) (m : nat) (st : list (src Z)) (sf : list (src A)) :
  0 < m -> st <> [] -> Forall (wf_src m) st -> Forall (wf_src m) sf -> map s_rows st = map s_rows sf ->
  combine (concat (compact_col 0%Z m st)) (concat (compact_col nil m sf)) =
  combine (concat (map (expand 0%Z) st)) (concat (map (expand nil) sf)).
Proof.
  intros Hm Hne Ht Hf Hr.
  assert (Hnf : sf <> []) by (destruct st; [congruence|]; destruct sf; discriminate).
  rewrite (proj1 (compact_col_correct 0%Z m st Hm Hne Ht)), (proj1 (compact_col_correct nil m sf Hm Hnf Hf)). reflexivity.
Qed.

(* sensitivity: the padding counter that is never decremented writes too many nils for a chunk of two segments *)
Lemma nodec_refuted :
  exists (m : nat) (srcs : list (src (option Z))),
    0 < m /\ Forall (wf_src m) srcs /\
    concat (compact_col_nodec None m srcs) <> concat (map (expand None) srcs).
Proof.
  exists 2, [mksrc [2; 1] None; mksrc [1] (Some [[Some 7%Z]])]. split; [lia|]. split.
  - repeat constructor; cbn; lia.
  - vm_compute. discriminate.
Qed.

(* the well-formedness premise is needed: a chunk whose inner segments are shorter than max-rows (a file written under
   a smaller max-rows-per-segment) is padded with too many nils by the counter arithmetic *)
Lemma short_inner_segments_refuted :
  exists (m : nat) (srcs : list (src (option Z))),
    0 < m /\ concat (compact_col None m srcs) <> concat (map (expand None) srcs).
Proof.
  exists 4, [mksrc [2; 2; 1] None; mksrc [1] (Some [[Some 7%Z]])]. split; [lia|]. vm_compute. discriminate.
Qed.

(* finding C03-pad-segment-size: the counter arithmetic is wrong for chunks with short inner segments although no segment is
   longer than max-rows (files written under a smaller max-rows-per-segment) *)
Lemma counter_padding_refuted :
  exists (m : nat) (srcs : list (src (option Z))),
    0 < m /\ srcs <> [] /\ Forall (bounded_src m) srcs /\
    concat (compact_col None m srcs) <> concat (map (expand None) srcs).
Proof.
  exists 4, [mksrc [2; 2; 1] None; mksrc [1] (Some [[Some 7%Z]])]. split; [lia|]. split; [discriminate|]. split.
  - repeat constructor; cbn; try lia; discriminate.
  - vm_compute. discriminate.
Qed.
