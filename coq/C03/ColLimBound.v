(* C03: no output file of the split holds more than max-segment-limit segments of the series (the purpose of the limit). *)
From Coq Require Import NArith ZArith List Bool Arith Lia.
From OG Require Import C03.ColModel C03.ColLimModel C03.ColLimProofs.
Import ListNotations.

Section Bound.
Context {A : Type} (nil : A) (m limit : nat).
Hypothesis Hlim : 0 < limit.

Definition cnt (st : lst A) : Prop := length (l_out st) = l_n st.

Lemma write_len (buf : list A) out : length (snd (write_segment m (buf, out))) = S (length out).
Proof. unfold write_segment. destruct (m <? length buf); cbn [snd]; rewrite app_length; cbn; lia. Qed.

Lemma lseg_bound li i : forall rows col j st,
  cnt st -> l_n st < limit ->
  match lseg_loop nil m limit li i j rows col st with
  | Go st' => cnt st' /\ l_n st' <= limit
  | Split st' _ _ => cnt st' /\ l_n st' <= limit
  end.
Proof.
  induction rows as [|r0 rest IH]; intros col j st Hc Hn.
  - cbn [lseg_loop]. split; [exact Hc | lia].
  - rewrite (lseg_cons nil m limit li i j r0 rest col st). cbn zeta.
    set (buf1 := l_buf st ++ add_of nil r0 col).
    destruct (isnil rest && negb li && (length buf1 <? m)).
    + unfold cnt in *. cbn [l_out l_n]. split; [exact Hc | lia].
    + pose proof (write_len buf1 (l_out st)) as Hw. set (w := write_segment m (buf1, l_out st)) in *.
      destruct ((limit <=? S (l_n st)) && (negb li || negb (isnil rest) || (0 <? length (fst w)))) eqn:Esp.
      * destruct (isnil rest); unfold cnt in *; cbn [l_out l_n]; split; lia.
      * destruct (li && isnil rest && (0 <? length (fst w)) && (S (l_n st) <? limit)) eqn:E2.
        -- apply andb_prop in E2. destruct E2 as [E2 E3]. apply Nat.ltb_lt in E3.
           apply andb_prop in E2. destruct E2 as [E2 _]. apply andb_prop in E2. destruct E2 as [_ E2].
           destruct rest; [|discriminate]. cbn [lseg_loop]. unfold cnt in *. cbn [l_out l_n].
           destruct w as [wb wo]. cbn [fst snd] in *. rewrite write_len. split; lia.
        -- destruct (Nat.ltb_spec (S (l_n st)) limit) as [Hlt|Hge].
           ++ apply IH; unfold cnt in *; cbn [l_out l_n]; lia.
           ++ (* the limit is reached and nothing is left: this was the very last segment *)
              destruct rest as [|r1 rest1]; [cbn [lseg_loop]; unfold cnt in *; cbn [l_out l_n]; split; lia|].
              (* more segments would have forced the split *)
              exfalso. cbn [isnil negb] in Esp. rewrite orb_true_r in Esp. cbn [orb] in Esp. rewrite andb_true_r in Esp.
              apply Nat.leb_gt in Esp. lia.
Qed.

(* a chunk that is not the last one never ends with the limit reached: more data follows, so the file would have been split *)
Lemma lseg_go_nonlast i : forall rows col j st st',
  l_n st < limit -> lseg_loop nil m limit false i j rows col st = Go st' -> l_n st' < limit.
Proof.
  induction rows as [|r0 rest IHr]; intros col j st0 st' Hn0 E.
  - cbn in E. injection E as <-. exact Hn0.
  - rewrite (lseg_cons nil m limit false i j r0 rest col st0) in E. cbn zeta in E. cbn [negb andb] in E.
    rewrite andb_true_r in E.
    destruct (isnil rest && (length (l_buf st0 ++ add_of nil r0 col) <? m)).
    + injection E as <-. cbn [l_n]. exact Hn0.
    + cbn [orb] in E.
      destruct (limit <=? S (l_n st0)) eqn:El; cbn [andb] in E.
      * destruct (isnil rest); discriminate.
      * apply Nat.leb_gt in El. refine (IHr _ _ _ _ _ E). cbn [l_n]. exact El.
Qed.

Lemma litr_bound : forall (L : list (src A)) i j0 st,
  cnt st -> l_n st < limit ->
  match litr_loop false nil m limit i j0 L st with
  | Go st' => cnt st' /\ l_n st' <= limit
  | Split st' _ _ => cnt st' /\ l_n st' <= limit
  end.
Proof.
  induction L as [|s r IH]; intros i j0 st Hc Hn; [cbn; split; [exact Hc | lia]|].
  cbn [litr_loop].
  pose proof (lseg_bound (match r with [] => true | _ => false end) i (skipn j0 (s_rows s)) (option_skipn j0 (s_col s)) j0 st Hc Hn) as H.
  destruct (lseg_loop nil m limit _ i j0 (skipn j0 (s_rows s)) (option_skipn j0 (s_col s)) st) as [st'|st' i' j'] eqn:E; [|exact H].
  destruct H as [H1 H2]. destruct (Nat.ltb_spec (l_n st') limit) as [Hlt|Hge].
  - apply IH; assumption.
  - (* the limit was reached without a split: only possible at the very end *)
    destruct r as [|s2 r2]; [cbn; split; assumption|].
    exfalso. pose proof (lseg_go_nonlast i _ _ _ _ _ Hn E). lia.
Qed.

(* every output file holds at most `limit` segments of the series *)
Lemma lrounds_bound (srcs : list (src A)) : forall fuel i0 j0 b,
  Forall (fun f => length f <= limit) (lrounds fuel false nil m limit srcs i0 j0 b).
Proof.
  induction fuel as [|f IH]; intros i0 j0 b; [constructor|].
  cbn [lrounds]. unfold lround.
  assert (Hc : cnt (mklst b ([] : list (list A)) 0)) by reflexivity.
  pose proof (litr_bound (skipn i0 srcs) i0 j0 (mklst b [] 0) Hc Hlim) as H.
  destruct (litr_loop false nil m limit i0 j0 (skipn i0 srcs) (mklst b [] 0)) as [st'|st' i' j'].
  - destruct H as [H1 H2]. unfold cnt in H1.
    destruct ((0 <? length (l_buf st')) && (l_n st' <? limit)) eqn:E.
    + apply andb_prop in E. destruct E as [_ E]. apply Nat.ltb_lt in E.
      constructor; [|constructor]. rewrite write_len. lia.
    + constructor; [lia | constructor].
  - destruct H as [H1 H2]. unfold cnt in H1. constructor; [lia | apply IH].
Qed.

Lemma compact_col_lim_bound (srcs : list (src A)) :
  Forall (fun f => length f <= limit) (compact_col_lim nil m limit srcs).
Proof. apply lrounds_bound. Qed.

End Bound.
