(* C03 property theorems. Statements closed by `exact lemma`, followed by Print Assumptions; Examples show that the
   hypotheses are satisfiable. *)
From Coq Require Import NArith ZArith List Bool Lia.
From OG Require Import C03.Model C03.Proofs C03.ColModel C03.ColProofs C03.ColLimModel C03.ColLimProofs C03.ColLimBound C03.FaultModel C03.FaultProofs C03.MergeModel C03.MergeProofs.
Import ListNotations.

(* Main theorem, for the whole family of protocols "log first, log removal last, any interleaving of renaming the
   new files and deleting/parking the old ones in between" (ReplaceFiles is one member, see the next theorem):
   for every file system satisfying the protocol's precondition, every crash prefix k of the step list, and every
   finite sequence cr of further crashes inside the recovery pass itself, the state reached by the final complete
   recovery shows either exactly the old files or exactly the new files (every other file untouched, contents
   included), contains no .init file at all, holds no complete intent log, and is a fixpoint of recovery. *)
Theorem C03_crash_atomic : forall st0 old new univ body k cr,
  protocol_pre st0 old new univ -> body_okb old new body = true ->
  let steps := [LogCreate; LogWrite old new; LogSync] ++ body ++ [LogRemove] in
  let st' := recover_with_crashes univ cr (run (firstn k steps) st0) in
  ((forall n, visible st' n = view_old st0 n) \/ (forall n, visible st' n = view_new st0 old new n)) /\
  (forall n, files st' (n, true) = None) /\
  notfull st' /\
  recover univ st' = st'.
Proof. intros st0 old new univ body k cr Hp Hb. exact (crash_atomic_all st0 old new univ Hp body k cr Hb). Qed.
Print Assumptions C03_crash_atomic.

(* both directories of a measurement: file ids are per directory (ordered directory: even ids, out-of-order directory: odd
   ids - the harness numbers the files of both directories in one id space). A replacement whose intent log has
   IsOrder = b names files of directory b only; the theorem above applies to it verbatim, and "every other file untouched"
   covers the whole other directory (recovery per directory; the loader's purge of .init files runs over both). *)
Definition dir_id (is_order : bool) (n : N) : N := (2 * n + (if is_order then 0 else 1))%N.
Theorem dir_ids_disjoint : forall a b, dir_id true a <> dir_id false b.
Proof. intros a b. unfold dir_id. rewrite N.add_0_r. intro H. apply (f_equal N.even) in H. rewrite N.even_mul, N.add_1_r, N.even_succ, N.odd_mul in H. cbn in H. discriminate. Qed.
Theorem C03_crash_atomic_both_directories : forall (is_order : bool) st0 old new univ body k cr,
  let old' := map (dir_id is_order) old in
  let new' := map (dir_id is_order) new in
  protocol_pre st0 old' new' univ -> body_okb old' new' body = true ->
  let steps := [LogCreate; LogWrite old' new'; LogSync] ++ body ++ [LogRemove] in
  let st' := recover_with_crashes univ cr (run (firstn k steps) st0) in
  ((forall n, visible st' n = view_old st0 n) \/ (forall n, visible st' n = view_new st0 old' new' n)) /\
  (forall n, files st' (n, true) = None) /\
  notfull st' /\
  recover univ st' = st' /\
  (forall n, visible st' (dir_id (negb is_order) n) = visible st0 (dir_id (negb is_order) n)).
Proof.
  intros is_order st0 old new univ body k cr old' new' Hp Hb steps st'.
  pose proof (crash_atomic_all st0 old' new' univ Hp body k cr Hb) as [H1 [H2 [H3 H4]]].
  repeat split; auto.
  intro n. assert (Hno : ~ In (dir_id (negb is_order) n) old' /\ ~ In (dir_id (negb is_order) n) new').
  { split; intro Hi; apply in_map_iff in Hi; destruct Hi as [x [E _]]; destruct is_order; cbn [negb] in E;
      [ | symmetry in E | | symmetry in E]; exact (dir_ids_disjoint _ _ E). }
  destruct Hno as [Ho Hn]. fold st'.
  destruct H1 as [H1|H1]; rewrite H1; [reflexivity|].
  unfold view_new, visible. apply mem_false in Ho, Hn. rewrite Hn, Ho. reflexivity.
Qed.
Print Assumptions C03_crash_atomic_both_directories.

(* "contents unchanged": for every reader semantics sem that depends only on the visible data files (names and
   contents) and gives the same answer on the old and on the new file set - which is what compaction / merge
   guarantee, see compact_preserves_contents and merge_ooo_preserves_contents - the answer after any crash prefix,
   any crashes during recovery, and the final recovery equals the answer before the reorganisation began *)
Theorem C03_contents_unchanged : forall (L : Type) (sem : (N -> option content) -> L) st0 old new univ body k cr,
  protocol_pre st0 old new univ -> body_okb old new body = true ->
  (forall a b, (forall n, a n = b n) -> sem a = sem b) ->
  sem (view_new st0 old new) = sem (view_old st0) ->
  sem (visible (recover_with_crashes univ cr
                  (run (firstn k ([LogCreate; LogWrite old new; LogSync] ++ body ++ [LogRemove])) st0)))
  = sem (view_old st0).
Proof.
  intros L sem st0 old new univ body k cr Hp Hb Hext Heq.
  exact (contents_unchanged L sem st0 old new _ Hext Heq (proj1 (crash_atomic_all st0 old new univ Hp body k cr Hb))).
Qed.
Print Assumptions C03_contents_unchanged.

(* the step list of MmsTables.ReplaceFiles (write+sync log, rename each new file, delete or park each old file,
   remove the log) belongs to the family, whatever files are still in use by readers *)
Theorem C03_replace_files_in_family : forall inuse old new,
  replace_steps inuse old new =
    [LogCreate; LogWrite old new; LogSync] ++ (map rename_new new ++ map (del_old inuse) old) ++ [LogRemove] /\
  body_okb old new (map rename_new new ++ map (del_old inuse) old) = true.
Proof. intros. split; [exact (replace_steps_shape inuse old new) | exact (canonical_body_ok inuse old new)]. Qed.
Print Assumptions C03_replace_files_in_family.

(* a torn write of the intent log (classified dirty by the reader) is the state after the log file was created *)
Theorem C03_torn_log_is_dirty : forall st0 old new body,
  torn_write (run (firstn 1 ([LogCreate; LogWrite old new; LogSync] ++ body ++ [LogRemove])) st0)
  = run (firstn 1 ([LogCreate; LogWrite old new; LogSync] ++ body ++ [LogRemove])) st0.
Proof. exact torn_write_state. Qed.
Print Assumptions C03_torn_log_is_dirty.

(* compaction of an adjacent run of files (in read-precedence order) into their last-write-wins union changes no
   cell of any series / time / field; sparse columns and schema differences are cells absent from some files *)
Theorem compact_preserves_contents : forall pre mid post k,
  read (pre ++ [compact mid] ++ post) k = read (pre ++ mid ++ post) k.
Proof. exact compact_preserves. Qed.
Print Assumptions compact_preserves_contents.

(* out-of-order merge: if the rewritten ordered files read as the old ordered files overlaid with all merged
   out-of-order inputs, then with any suffix (the newest inputs) of the out-of-order list still on disk - the states a
   crash can leave while the inputs are deleted oldest first - every read is unchanged *)
Theorem merge_ooo_preserves_contents : forall O O' Upre Usuf k,
  (forall q, read O' q = over (read O) (read (Upre ++ Usuf)) q) ->
  read (O' ++ Usuf) k = read (O ++ Upre ++ Usuf) k.
Proof. intros O O' Upre Usuf k H. exact (merge_suffix_safe O O' Upre Usuf H k). Qed.
Print Assumptions merge_ooo_preserves_contents.

(* sensitivity: protocol orders a wrong edit would produce allow a crash prefix whose recovery shows neither the old
   nor the new file set (documented mutants, not findings) *)
Theorem order_matters_refuted_log_after_first_rename :
  exists st0 old new univ k, protocol_pre st0 old new univ /\
    neither st0 (recover univ (run (firstn k (mutant_log_late old new)) st0)) old new.
Proof. exact log_late_refuted. Qed.
Print Assumptions order_matters_refuted_log_after_first_rename.

Theorem order_matters_refuted_delete_before_log :
  exists st0 old new univ k, protocol_pre st0 old new univ /\
    neither st0 (recover univ (run (firstn k (mutant_delete_before_log old new)) st0)) old new.
Proof. exact delete_before_log_refuted. Qed.
Print Assumptions order_matters_refuted_delete_before_log.

Theorem order_matters_refuted_log_removed_before_deletes :
  exists st0 old new univ k, protocol_pre st0 old new univ /\
    neither st0 (recover univ (run (firstn k (mutant_log_removed_early old new)) st0)) old new.
Proof. exact log_removed_early_refuted. Qed.
Print Assumptions order_matters_refuted_log_removed_before_deletes.

Theorem order_matters_refuted_merge_newest_input_deleted_first :
  exists O O' Upre Usuf k,
    (forall q, read O' q = over (read O) (read (Upre ++ Usuf)) q) /\ read (O' ++ Upre) k <> read (O ++ Upre ++ Usuf) k.
Proof. exact merge_newest_first_refuted. Qed.
Print Assumptions order_matters_refuted_merge_newest_input_deleted_first.

Theorem compact_nonadjacent_refuted_thm : exists a b c k, read [compact [a; c]; b] k <> read [a; b; c] k.
Proof. exact compact_nonadjacent_refuted. Qed.
Print Assumptions compact_nonadjacent_refuted_thm.

(* non-vacuity: the precondition is satisfiable, and on that instance both outcomes occur *)
Example protocol_pre_satisfiable : protocol_pre ex_fs [0; 1]%N [2; 3]%N [0; 1; 2; 3]%N.
Proof. exact ex_pre. Qed.

Example crash_before_log_keeps_old :
  map (visible (recover [0; 1; 2; 3]%N (run (firstn 1 (replace_steps (fun _ => false) [0; 1]%N [2; 3]%N)) ex_fs))) [0; 1; 2; 3; 7]%N
  = [Some 10; Some 11; None; None; Some 17]%N.
Proof. vm_compute. reflexivity. Qed.

Example crash_mid_rename_completes_new :
  map (visible (recover [0; 1; 2; 3]%N (run (firstn 4 (replace_steps (fun n => N.eqb n 1) [0; 1]%N [2; 3]%N)) ex_fs))) [0; 1; 2; 3; 7]%N
  = [None; None; Some 12; Some 13; Some 17]%N.
Proof. vm_compute. reflexivity. Qed.

(* ---------- what compaction writes, column by column (streaming compactor, code-shaped model ColModel.compact_col) ----------
   For every max-rows > 0 and every non-empty list of well-formed input chunks of a series (any number of files, any
   number of segments per chunk, the column present in some chunks and absent from others, any cells): the segments
   written for the column hold exactly the cells of the input chunks in file order, one nil for every row of a chunk
   that lacks the column - nothing lost, duplicated, reordered or shifted - and the written chunk is well-formed again
   (full segments, then one of 1..max-rows rows), so the premise is an invariant of repeated compaction. *)
Theorem C03_compact_column_exact : forall (A : Type) (nil : A) (maxRows : nat) (srcs : list (src A)),
  0 < maxRows -> srcs <> [] -> Forall (wf_src maxRows) srcs ->
  concat (compact_col nil maxRows srcs) = concat (map (expand nil) srcs) /\
  wf_rows maxRows (map (@length A) (compact_col nil maxRows srcs)).
Proof. exact (@compact_col_correct). Qed.
Print Assumptions C03_compact_column_exact.

(* the same with the repaired padding (as many nils as the chunk's time segment has rows, props/C03/fix3.patch): exact for every
   chunk whose segments are not longer than max-rows - the full-inner-segments premise is gone, so files written under a
   smaller max-rows-per-segment are compacted correctly; on well-formed chunks the repair changes nothing *)
Theorem C03_compact_column_exact_repaired : forall (A : Type) (nil : A) (maxRows : nat) (srcs : list (src A)),
  0 < maxRows -> srcs <> [] -> Forall (bounded_src maxRows) srcs ->
  concat (compact_col_actual nil maxRows srcs) = concat (map (expand nil) srcs).
Proof. exact (@compact_col_actual_correct). Qed.
Print Assumptions C03_compact_column_exact_repaired.

Theorem C03_padding_repair_conservative : forall (A : Type) (nil : A) (maxRows : nat) (srcs : list (src A)),
  Forall (wf_src maxRows) srcs -> compact_col_actual nil maxRows srcs = compact_col nil maxRows srcs.
Proof. exact (@actual_eq_counter_on_wf). Qed.
Print Assumptions C03_padding_repair_conservative.

(* every column of the series (a field of any type, the time column) is cut into segments at the same rows: addressing
   a cell by (segment, offset) hits the same row in every column, so no value moves to another timestamp *)
Theorem C03_compact_columns_aligned : forall (A B : Type) (nilA : A) (nilB : B) (maxRows : nat)
    (sa : list (src A)) (sb : list (src B)),
  0 < maxRows -> sa <> [] -> Forall (wf_src maxRows) sa -> Forall (wf_src maxRows) sb -> map s_rows sa = map s_rows sb ->
  map (@length A) (compact_col nilA maxRows sa) = map (@length B) (compact_col nilB maxRows sb).
Proof. exact (@columns_aligned). Qed.
Print Assumptions C03_compact_columns_aligned.

(* rows: pairing the written time column with the written field column gives the pairs of the inputs *)
Theorem C03_compact_rows_preserved : forall (A : Type) (nil : A) (maxRows : nat) (st : list (src Z)) (sf : list (src A)),
  0 < maxRows -> st <> [] -> Forall (wf_src maxRows) st -> Forall (wf_src maxRows) sf -> map s_rows st = map s_rows sf ->
  combine (concat (compact_col 0%Z maxRows st)) (concat (compact_col nil maxRows sf)) =
  combine (concat (map (expand 0%Z) st)) (concat (map (expand nil) sf)).
Proof. exact (@rows_preserved). Qed.
Print Assumptions C03_compact_rows_preserved.

(* sensitivity (documented mutants, not findings): a padding counter that is never decremented over-counts the nils of a
   chunk with two segments; and the well-formedness premise is necessary *)
Theorem padding_counter_mutant_refuted :
  exists (m : nat) (srcs : list (src (option Z))),
    0 < m /\ Forall (wf_src m) srcs /\ concat (compact_col_nodec None m srcs) <> concat (map (expand None) srcs).
Proof. exact nodec_refuted. Qed.
Print Assumptions padding_counter_mutant_refuted.

Theorem short_inner_segments_refuted_thm :
  exists (m : nat) (srcs : list (src (option Z))),
    0 < m /\ concat (compact_col None m srcs) <> concat (map (expand None) srcs).
Proof. exact short_inner_segments_refuted. Qed.
Print Assumptions short_inner_segments_refuted_thm.

Example wf_src_satisfiable :
  Forall (wf_src 2) [mksrc [2; 1] (None : option (list (list (option Z)))); mksrc [2; 2] (Some [[Some 1%Z; None]; [Some 2%Z; Some 3%Z]])] /\
  compact_col None 2 [mksrc [2; 1] None; mksrc [2; 2] (Some [[Some 1%Z; None]; [Some 2%Z; Some 3%Z]])]
  = [[None; None]; [None; Some 1%Z]; [None; Some 2%Z]; [Some 3%Z]].
Proof. split; [repeat constructor; cbn; lia | vm_compute; reflexivity]. Qed.

(* ---------- a series split over several output files (max-segment-limit; ColLimModel, code after /repo 95cf0b3) ----------
   For every max-rows > 0, every limit > 0 and all bounded input chunks: the column's segments in the output files, laid end to
   end in file order, are EXACTLY the segments the compactor writes without a limit - leaving compactColumn at the limit,
   carrying the buffered rows (lastSeg) and resuming at (iteratorStart, segmentIndex) only inserts file boundaries. *)
Theorem C03_split_files_concat : forall (A : Type) (nil : A) (maxRows limit : nat),
  0 < maxRows -> 0 < limit -> forall srcs : list (src A), Forall (bounded_src maxRows) srcs ->
  concat (compact_col_lim nil maxRows limit srcs) = compact_col_actual nil maxRows srcs.
Proof. exact (@compact_col_lim_correct). Qed.
Print Assumptions C03_split_files_concat.

(* and no output file holds more than max-segment-limit segments of the series (what the limit is for) *)
Theorem C03_split_files_within_limit : forall (A : Type) (nil : A) (maxRows limit : nat),
  0 < limit -> forall srcs : list (src A), Forall (fun f => length f <= limit) (compact_col_lim nil maxRows limit srcs).
Proof. exact (@compact_col_lim_bound). Qed.
Print Assumptions C03_split_files_within_limit.

(* hence no cell of the series is lost, duplicated, reordered or shifted by the split *)
Theorem C03_split_cells_exact : forall (A : Type) (nil : A) (maxRows limit : nat) (srcs : list (src A)),
  0 < maxRows -> 0 < limit -> srcs <> [] -> Forall (bounded_src maxRows) srcs ->
  concat (concat (compact_col_lim nil maxRows limit srcs)) = concat (map (expand nil) srcs).
Proof. exact (@compact_col_lim_cells). Qed.
Print Assumptions C03_split_cells_exact.

(* sensitivity (the code before 95cf0b3, finding C03-stream-split): restarting EVERY later chunk at the resume segment index
   loses the leading segments of those chunks *)
Theorem split_resume_all_chunks_refuted :
  exists (m limit : nat) (srcs : list (src (option Z))),
    0 < m /\ 0 < limit /\ Forall (wf_src m) srcs /\
    concat (concat (compact_col_lim_resume_all None m limit srcs)) <> concat (map (expand None) srcs).
Proof. exact resume_all_refuted. Qed.
Print Assumptions split_resume_all_chunks_refuted.

Example split_example :
  compact_col_lim None 2 2 [mksrc [2; 2; 1] (Some [[Some 1%Z; Some 2%Z]; [Some 3%Z; Some 4%Z]; [Some 5%Z]]); mksrc [2] None]
  = [[[Some 1%Z; Some 2%Z]; [Some 3%Z; Some 4%Z]]; [[Some 5%Z; None]; [None]]].
Proof. vm_compute. reflexivity. Qed.

(* ---------- out-of-order merge, column by column (MergeModel: the two-cursor merge of lib/record/meger.go, the files of the
   out-of-order side merged oldest first, a column absent from a chunk = nil in its rows) ----------
   For all strictly ascending inputs (the ordered chunks of the series laid end to end, every out-of-order chunk): the merged
   column is strictly ascending, and what a query sees at any time t is the last-write-wins overlay of the inputs in file
   order - the value of the newest out-of-order file that has a non-nil cell at t, else the next older one, ..., else the
   ordered value (a nil of a newer file never hides an older value). This is Model.read / Model.over for one (series, field). *)
Theorem C03_merge_column_lww : forall (os us : list tcol) (lo : Z),
  asc_from lo (concat os) -> Forall (asc_from lo) us ->
  asc_from lo (merge_series os us) /\
  forall t, val t (merge_series os us) = fold_left (newer_wins t) us (val t (concat os)).
Proof. exact merge_series_lww. Qed.
Print Assumptions C03_merge_column_lww.

(* rows: a time is in the merged column iff it is in some input (no row lost, none invented) *)
Theorem C03_merge_column_rows : forall (os us : list tcol) (lo t : Z),
  asc_from lo (concat os) -> Forall (asc_from lo) us ->
  (assoc t (merge_series os us) = None <-> assoc t (concat os) = None /\ Forall (fun u => assoc t u = None) us).
Proof. exact merge_series_rows. Qed.
Print Assumptions C03_merge_column_rows.

Theorem merge_old_wins_refuted :
  exists o u t, asc_from 0 o /\ asc_from 0 u /\
    val t (merge_col_old_wins o u) <> match val t u with Some v => Some v | None => val t o end.
Proof. exact old_wins_refuted. Qed.
Print Assumptions merge_old_wins_refuted.

Example merge_example :
  merge_series [[(1, Some 10); (3, None)]; [(5, Some 50)]]%Z [[(3, Some 31); (4, None)]; [(3, None); (5, Some 51); (9, Some 90)]]%Z
  = [(1, Some 10); (3, Some 31); (4, None); (5, Some 51); (9, Some 90)]%Z.
Proof. vm_compute. reflexivity. Qed.

(* ---------- reorganisations that FAIL (I/O errors instead of process kills; FaultModel.replace_exec / merge_exec) ----------
   Any set of failing file-system mutations (fails : ordinal of the attempt -> bool), today's or the repaired delete loop,
   any in-use pattern: the disk state ReplaceFiles leaves behind is a crash-prefix state of a member of the protocol family,
   hence the next start-up (with any crashes inside that recovery) shows exactly the old or exactly the new file set, no
   .init file, no complete log, and is a fixpoint of recovery. *)
Theorem C03_fault_restart_atomic : forall v inuse fails i0 st0 old new univ live cr,
  protocol_pre st0 old new univ ->
  let st' := recover_with_crashes univ cr (r_fs (replace_exec v inuse fails i0 old new st0 live)) in
  ((forall n, visible st' n = view_old st0 n) \/ (forall n, visible st' n = view_new st0 old new n)) /\
  (forall n, files st' (n, true) = None) /\ notfull st' /\ recover univ st' = st'.
Proof. exact fault_restart_atomic. Qed.
Print Assumptions C03_fault_restart_atomic.

(* answers after the restart that follows a failed reorganisation = answers before it, for every reader semantics that
   depends only on the visible files and agrees on the old and the new set *)
Theorem C03_fault_contents_unchanged : forall (L : Type) (sem : (N -> option content) -> L) v inuse fails i0 st0 old new univ live cr,
  protocol_pre st0 old new univ ->
  (forall a b, (forall n, a n = b n) -> sem a = sem b) ->
  sem (view_new st0 old new) = sem (view_old st0) ->
  sem (visible (recover_with_crashes univ cr (r_fs (replace_exec v inuse fails i0 old new st0 live)))) = sem (view_old st0).
Proof. exact fault_contents_unchanged. Qed.
Print Assumptions C03_fault_contents_unchanged.

(* the LIVE file list (what running queries read) with the repaired delete loop: unchanged or completely swapped, never
   partial, whatever fails; and for both variants: no error returned -> completely swapped *)
Theorem C03_fault_live_atomic_repaired : forall inuse fails i0 old new st live,
  let r := replace_exec Repaired inuse fails i0 old new st live in
  r_live r = live \/ r_live r = swapped old new live.
Proof. exact live_atomic_repaired. Qed.
Print Assumptions C03_fault_live_atomic_repaired.

Theorem C03_fault_success_swapped : forall v inuse fails i0 old new st live,
  let r := replace_exec v inuse fails i0 old new st live in
  r_err r = false -> r_live r = swapped old new live.
Proof. exact live_success_swapped. Qed.
Print Assumptions C03_fault_success_swapped.

(* out-of-order merge, repository order (replace, then delete the inputs only if the replacement returned no error): whatever
   fails, either no out-of-order input has left the live list, or the ordered list has been swapped completely and all
   inputs have left; on disk the inputs are untouched whenever the replacement returned an error. This is the obligation
   "delete the out-of-order inputs only after the replacement is committed". *)
Theorem C03_merge_unordered_after_commit : forall v inuse fails old new unord st liveO liveU,
  let m := merge_exec false v inuse fails old new unord st liveO liveU in
  m_liveU m = liveU \/ (m_liveO m = swapped old new liveO /\ m_liveU m = lrm_all unord liveU).
Proof. exact unordered_after_commit. Qed.
Print Assumptions C03_merge_unordered_after_commit.

Theorem C03_merge_unordered_disk_after_commit : forall v inuse fails old new unord st liveO liveU,
  let r := replace_exec v inuse fails 0 old new st liveO in
  let m := merge_exec false v inuse fails old new unord st liveO liveU in
  r_err r = true -> m_fs m = r_fs r.
Proof. exact unordered_disk_after_commit. Qed.
Print Assumptions C03_merge_unordered_disk_after_commit.

(* writeCompactedFileInfo after fix6 (a log that could not be written or synced is removed again): nothing at all is left of the
   given-up replacement - the disk is the state before it and the live list is unchanged - and the restart theorem holds for the
   protocol with this cleanup as well *)
Theorem C03_failed_log_leaves_nothing : forall v inuse fails i0 old new st live,
  logs st = NoLog -> fails i0 = false -> fails (S i0) || fails (S (S i0)) = true ->
  r_fs (replace_exec_c true v inuse fails i0 old new st live) = st /\
  r_live (replace_exec_c true v inuse fails i0 old new st live) = live.
Proof. exact replace_exec_c_nothing. Qed.
Print Assumptions C03_failed_log_leaves_nothing.

Theorem C03_fault_restart_atomic_with_log_cleanup : forall cleanup v inuse fails i0 st0 old new univ live cr,
  protocol_pre st0 old new univ -> logs st0 = NoLog ->
  let st' := recover_with_crashes univ cr (r_fs (replace_exec_c cleanup v inuse fails i0 old new st0 live)) in
  ((forall n, visible st' n = view_old st0 n) \/ (forall n, visible st' n = view_new st0 old new n)) /\
  (forall n, files st' (n, true) = None) /\ notfull st' /\ recover univ st' = st'.
Proof. exact fault_restart_atomic_c. Qed.
Print Assumptions C03_fault_restart_atomic_with_log_cleanup.

(* deleteUnorderedFiles after fix5 (park first, stop at the first input that cannot be parked): whatever fails, the inputs that
   are still visible on disk - and in the live list - are a SUFFIX of the merged inputs (the newest ones); every other file and
   the intent-log state are untouched. With merge_ooo_preserves_contents: answers unchanged live and after restart. *)
Theorem C03_unordered_inputs_stay_a_suffix : forall inuse fails us i st liveU,
  NoDup us ->
  exists k, k <= length us /\
    snd (unord_rep inuse fails i us st liveU) = lrm_all (firstn k us) liveU /\
    (forall u, In u (firstn k us) -> files (fst (unord_rep inuse fails i us st liveU)) (u, false) = None) /\
    (forall u b, In u (skipn k us) -> files (fst (unord_rep inuse fails i us st liveU)) (u, b) = files st (u, b)) /\
    (forall p, ~ In (fst p) us -> files (fst (unord_rep inuse fails i us st liveU)) p = files st p) /\
    logs (fst (unord_rep inuse fails i us st liveU)) = logs st.
Proof. exact unord_rep_suffix. Qed.
Print Assumptions C03_unordered_inputs_stay_a_suffix.

(* sensitivity (documented mutant): deleting the out-of-order inputs BEFORE the replacement loses them when the replacement
   then fails (here: the intent log cannot be created) *)
Theorem order_matters_refuted_unordered_deleted_before_replace :
  exists inuse fails old new unord st liveO liveU,
    let m := merge_exec true Repaired inuse fails old new unord st liveO liveU in
    m_liveO m = liveO /\ m_liveU m <> liveU /\ files (m_fs m) (9%N, false) = None /\ files st (9%N, false) <> None.
Proof. exact early_unordered_delete_refuted. Qed.
Print Assumptions order_matters_refuted_unordered_deleted_before_replace.

Example fault_rename_error_rolls_forward :
  map (visible (recover [0; 1; 2; 3]%N (r_fs (replace_exec Repaired (fun _ => false) (fun i => Nat.eqb i 4) 0 [0; 1]%N [2; 3]%N ex_fs [0; 1; 7]%N))))
      [0; 1; 2; 3; 7]%N = [None; None; Some 12; Some 13; Some 17]%N /\
  r_live (replace_exec Repaired (fun _ => false) (fun i => Nat.eqb i 4) 0 [0; 1]%N [2; 3]%N ex_fs [0; 1; 7]%N) = [0; 1; 7]%N.
Proof. vm_compute. split; reflexivity. Qed.
