(* C03 column-level correspondence evaluator: runs the code-shaped column compactor (ColModel.compact_col) on the
   physical layout of the input chunks of one series as the harness read them from the real files, and compares the
   result with the physical layout of the chunk that the real compaction (streaming or not) wrote: same column set (the
   union of the inputs' columns), same segments, same cells in the same rows. *)
From Coq Require Import NArith ZArith List Bool Arith.
From OG Require Import C03.ColModel C03.ColLimModel.
Import ListNotations.

Definition cellv := option Z.     (* None = nil *)

Record chunk := mkchunk {
  k_t : list (list Z);                        (* time segments *)
  k_c : list (N * list (list cellv))          (* column id -> its segments *)
}.

Record colcase := mkcc {
  cc_max : nat;                (* max-rows-per-segment *)
  cc_limit : nat;              (* max-segment-limit if the case runs with a small one (the series may be split over several files), else 0 *)
  cc_fields : list N;          (* the union of the column ids, in the compactor's (name) order *)
  cc_in : list chunk;          (* the series' chunk in every input file, in file order *)
  cc_out : list chunk          (* the series' chunk in every output file *)
}.

Fixpoint lookup (f : N) (l : list (N * list (list cellv))) : option (list (list cellv)) :=
  match l with
  | [] => None
  | (g, v) :: r => if N.eqb f g then Some v else lookup f r
  end.

Definition rows_of (c : chunk) : list nat := map (@length Z) (k_t c).

Definition src_of_field (f : N) (c : chunk) : src cellv := mksrc (rows_of c) (lookup f (k_c c)).
Definition src_of_time (c : chunk) : src cellv := mksrc (rows_of c) (Some (map (map (fun t => Some t)) (k_t c))).

Definition model_field (mode : padmode) (cc : colcase) (f : N) : list (list cellv) :=
  compact_col_gen mode None (cc_max cc) (map (src_of_field f) (cc_in cc)).
Definition model_time (mode : padmode) (cc : colcase) : list (list cellv) :=
  compact_col_gen mode None (cc_max cc) (map src_of_time (cc_in cc)).

Definition cell_eqb (a b : cellv) : bool :=
  match a, b with
  | None, None => true
  | Some x, Some y => Z.eqb x y
  | _, _ => false
  end.

Fixpoint list_eqb {A} (eqb : A -> A -> bool) (a b : list A) : bool :=
  match a, b with
  | [], [] => true
  | x :: a', y :: b' => eqb x y && list_eqb eqb a' b'
  | _, _ => false
  end.

Definition segs_eqb := list_eqb (list_eqb cell_eqb).

(* is the chunk well-formed for this max-rows (the premise of the theorems)? *)
Fixpoint wf_rowsb (m : nat) (rows : list nat) : bool :=
  match rows with
  | [] => false
  | r :: rest => match rest with
                 | [] => (1 <=? r) && (r <=? m)
                 | _ => (r =? m) && wf_rowsb m rest
                 end
  end.
Definition wf_chunkb (m : nat) (c : chunk) : bool :=
  wf_rowsb m (rows_of c) &&
  forallb (fun e => list_eqb Nat.eqb (map (@length cellv) (snd e)) (rows_of c)) (k_c c).

(* 0 = agrees *)
Definition colcase_code (mode : padmode) (cc : colcase) : nat :=
  match cc_out cc with
  | [o] =>
      if negb (segs_eqb (map (map (fun t => Some t)) (k_t o)) (model_time mode cc)) then 52
      else if negb (forallb (fun f => match lookup f (k_c o) with
                                      | Some segs => segs_eqb segs (model_field mode cc f)
                                      | None => false
                                      end)
                            (filter (fun f => existsb (fun c => match lookup f (k_c c) with Some _ => true | None => false end) (cc_in cc))
                                    (cc_fields cc))) then 53
      else if negb (forallb (fun e => existsb (fun c => match lookup (fst e) (k_c c) with Some _ => true | None => false end) (cc_in cc))
                            (k_c o)) then 54
      else if forallb (wf_chunkb (cc_max cc)) (cc_in cc) && negb (wf_chunkb (cc_max cc) o) then 55
      else 0
  | _ => 51
  end.

(* ---- with a max-segment-limit: the series' chunk in EVERY output file, in file order, against ColLimModel ---- *)
Definition lim_field (cc : colcase) (f : N) : list (list (list cellv)) :=
  compact_col_lim None (cc_max cc) (cc_limit cc) (map (src_of_field f) (cc_in cc)).
Definition lim_time (cc : colcase) : list (list (list cellv)) :=
  compact_col_lim None (cc_max cc) (cc_limit cc) (map src_of_time (cc_in cc)).

Definition files_eqb := list_eqb segs_eqb.

Definition in_fields (cc : colcase) : list N :=
  filter (fun f => existsb (fun c => match lookup f (k_c c) with Some _ => true | None => false end) (cc_in cc)) (cc_fields cc).

Definition colcase_lim_code (cc : colcase) : nat :=
  if negb (files_eqb (map (fun o => map (map (fun t => Some t)) (k_t o)) (cc_out cc)) (lim_time cc)) then 56
  else if negb (forallb (fun f => files_eqb (map (fun o => match lookup f (k_c o) with Some segs => segs | None => [] end) (cc_out cc))
                                            (lim_field cc f)) (in_fields cc)) then 57
  else if negb (forallb (fun o => forallb (fun e => existsb (N.eqb (fst e)) (in_fields cc)) (k_c o)) (cc_out cc)) then 54
  else if negb (forallb (fun o => Nat.leb (length (k_t o)) (cc_limit cc)) (cc_out cc)) then 58
  else 0.

(* (index, code under the repaired padding PadActual, code under today's counter padding PadCounter) whenever the repaired
   model does not agree; on well-formed inputs the two models coincide (ColProofs.actual_eq_counter_on_wf) *)
Fixpoint col_mismatches_from (i : nat) (l : list colcase) : list (nat * nat * nat) :=
  match l with
  | [] => []
  | c :: r =>
      match cc_limit c with
      | 0 => match colcase_code PadActual c with
             | 0 => col_mismatches_from (S i) r
             | code => (i, code, colcase_code PadCounter c) :: col_mismatches_from (S i) r
             end
      | _ => match colcase_lim_code c with
             | 0 => col_mismatches_from (S i) r
             | code => (i, code, code) :: col_mismatches_from (S i) r
             end
      end
  end.
Definition col_mismatches := col_mismatches_from 0.
