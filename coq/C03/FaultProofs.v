(* C03 fault proofs: ReplaceFiles / merge under any pattern of failing file-system mutations.
   (1) the disk state left behind is always a crash-prefix state of a member of the protocol family of C03_crash_atomic, so
       the next start-up shows exactly the old or exactly the new file set (fault_restart_atomic);
   (2) with the repaired delete loop the LIVE file list is never partial: unchanged, or completely swapped
       (live_atomic_repaired); today's loop is refuted (live_partial_current);
   (3) merge: an out-of-order input leaves the live list / the disk only after the replacement has been committed
       (unordered_after_commit), the early-deletion order is refuted. *)
From Coq Require Import NArith List Bool Arith Lia.
From OG Require Import C03.Model C03.Proofs C03.FaultModel.
Import ListNotations.

Definition logA (old new : list N) : list step := [LogCreate; LogWrite old new; LogSync].

(* st is what a crash after k steps of some member of the protocol family leaves *)
Definition is_crash_state (old new : list N) (st0 st : fs) : Prop :=
  exists body k, body_okb old new body = true /\ st = run (firstn k (logA old new ++ body ++ [LogRemove])) st0.

Lemma firstn_app_exact {A} (l1 l2 : list A) : firstn (length l1) (l1 ++ l2) = l1.
Proof. rewrite firstn_app, Nat.sub_diag, firstn_all. cbn. apply app_nil_r. Qed.

Lemma crash_state_of_trace old new st0 body trace rest :
  body_okb old new body = true -> logA old new ++ body ++ [LogRemove] = trace ++ rest ->
  is_crash_state old new st0 (run trace st0).
Proof.
  intros Hb E. exists body, (length trace). split; [exact Hb|]. rewrite E, firstn_app_exact. reflexivity.
Qed.

(* ---- abort-on-failure phase ---- *)
Lemma run_abort_spec fails : forall l i st st' i' ab,
  run_abort fails i l st = (st', i', ab) ->
  exists k, k <= length l /\ st' = run (firstn k l) st /\ (ab = false -> k = length l) /\ i' = i + k + (if ab then 1 else 0).
Proof.
  induction l as [|s r IH]; intros i st st' i' ab H; cbn in H.
  - injection H as <- <- <-. exists 0. cbn. repeat split; lia.
  - destruct (fails i).
    + injection H as <- <- <-. exists 0. cbn. repeat split; try lia; try discriminate.
    + destruct (IH _ _ _ _ _ H) as [k [H1 [H2 [H3 H4]]]]. exists (S k). cbn [length firstn]. repeat split; try lia.
      * rewrite H2. reflexivity.
      * intro Hab. rewrite (H3 Hab). reflexivity.
Qed.

(* ---- delete loops ---- *)
Lemma lrm_all_cons o os l : lrm_all (o :: os) l = lrm_all os (lrm o l).
Proof. reflexivity. Qed.

Lemma lrm_all_snoc os o l : lrm_all (os ++ [o]) l = lrm o (lrm_all os l).
Proof. unfold lrm_all. rewrite fold_left_app. reflexivity. Qed.

Lemma del_loop_current inuse fails : forall olds i st live err st' live' err' i' ab,
  del_loop Current inuse fails i olds st live err = (st', live', err', i', ab) ->
  exists k, k <= length olds /\ st' = run (map (del_old inuse) (firstn k olds)) st /\
            (ab = false -> k = length olds /\ live' = lrm_all olds live /\ err' = err /\ i' = i + length olds) /\
            (ab = true -> k < length olds /\ live' = lrm_all (firstn (S k) olds) live /\ err' = true).
Proof.
  induction olds as [|o rest IH]; intros i st live err st' live' err' i' ab H; cbn [del_loop] in H.
  - injection H as <- <- <- <- <-. exists 0. cbn. repeat split; try lia; discriminate.
  - destruct (fails i).
    + injection H as <- <- <- <- <-. exists 0. cbn [firstn map length]. repeat split; try lia; try discriminate.
    + destruct (IH _ _ _ _ _ _ _ _ _ H) as [k [H1 [H2 [H3 H4]]]]. exists (S k). cbn [firstn map length].
      split; [lia|]. split; [rewrite H2; reflexivity|]. split.
      * intro Hab. destruct (H3 Hab) as [A1 [A2 [A3 A4]]]. repeat split; try lia; assumption.
      * intro Hab. destruct (H4 Hab) as [A1 [A2 A3]]. repeat split; try lia; assumption.
Qed.

(* Repaired: never aborts; the successful and the failed deletions partition the old files *)
Lemma del_loop_repaired inuse fails : forall olds i st live err st' live' err' i' ab,
  del_loop Repaired inuse fails i olds st live err = (st', live', err', i', ab) ->
  ab = false /\ live' = lrm_all olds live /\ i' = i + length olds /\
  exists okl failedl, st' = run (map (del_old inuse) okl) st /\
                      (forall o, In o olds <-> In o (okl ++ failedl)) /\
                      (err' = false -> failedl = [] /\ okl = olds /\ err = false).
Proof.
  induction olds as [|o rest IH]; intros i st live err st' live' err' i' ab H; cbn [del_loop] in H.
  - injection H as <- <- <- <- <-. split; [reflexivity|]. split; [reflexivity|]. split; [cbn; lia|].
    exists [], []. cbn. split; [reflexivity|]. split; [tauto|]. intro; subst; repeat split; reflexivity.
  - destruct (fails i).
    + destruct (IH _ _ _ _ _ _ _ _ _ H) as [A1 [A2 [A3 [okl [failedl [B1 [B2 B3]]]]]]].
      split; [assumption|]. split; [assumption|]. split; [cbn [length]; lia|].
      exists okl, (o :: failedl). split; [exact B1|]. split.
      * intro x. rewrite in_app_iff. cbn [In]. rewrite (B2 x), in_app_iff. tauto.
      * intro He. destruct (B3 He) as [_ [_ C]]. discriminate.
    + destruct (IH _ _ _ _ _ _ _ _ _ H) as [A1 [A2 [A3 [okl [failedl [B1 [B2 B3]]]]]]].
      split; [assumption|]. split; [assumption|]. split; [cbn [length]; lia|].
      exists (o :: okl), failedl. split; [rewrite B1; reflexivity|]. split.
      * intro x. cbn [In app]. rewrite (B2 x). tauto.
      * intro He. destruct (B3 He) as [C1 [C2 C3]]. subst. repeat split; reflexivity || assumption.
Qed.

(* a list of deletions covering exactly the old files, in any order, completes the family's body *)
Lemma body_ok_any_order inuse old new dl :
  (forall o, In o old <-> In o dl) ->
  body_okb old new (map rename_new new ++ map (del_old inuse) dl) = true.
Proof.
  intro Hdl. unfold body_okb. apply andb_true_intro. split; [apply andb_true_intro; split|].
  - rewrite forallb_app. apply andb_true_intro. split; apply forallb_forall; intros s Hs; apply in_map_iff in Hs;
      destruct Hs as [x [<- Hx]].
    + cbn. rewrite N.eqb_refl. cbn. apply mem_In. exact Hx.
    + apply Hdl in Hx. unfold del_old. destruct (inuse x); cbn; [rewrite N.eqb_refl; cbn|]; apply mem_In; exact Hx.
  - apply forallb_forall. intros n Hin. rewrite existsb_app. apply orb_true_iff. left.
    apply existsb_exists. exists (rename_new n). split; [apply in_map; exact Hin | apply step_eqb_refl_mv].
  - apply forallb_forall. intros o Hin. apply Hdl in Hin. unfold del_old.
    destruct (inuse o) eqn:E; apply orb_true_iff; [right|left]; rewrite existsb_app; apply orb_true_iff; right;
      apply existsb_exists.
    + exists (Mv (o, false) (o, true)). split; [|apply step_eqb_refl_mv].
      apply in_map_iff. exists o. rewrite E. split; [reflexivity | exact Hin].
    + exists (Rm (o, false)). split; [|apply step_eqb_refl_rm].
      apply in_map_iff. exists o. rewrite E. split; [reflexivity | exact Hin].
Qed.

Lemma firstn_map {A B} (f : A -> B) k l : firstn k (map f l) = map f (firstn k l).
Proof. revert l. induction k; intros [|x l]; cbn; try reflexivity. rewrite IHk. reflexivity. Qed.

(* ---- (1) the disk state after any failure pattern ---- *)
Lemma replace_exec_crash_state v inuse fails i0 old new st live :
  is_crash_state old new st (r_fs (replace_exec v inuse fails i0 old new st live)).
Proof.
  unfold replace_exec.
  set (pre := [LogCreate; LogWrite old new; LogSync] ++ map rename_new new).
  set (dels := map (del_old inuse) old).
  assert (Hcanon : logA old new ++ (map rename_new new ++ dels) ++ [LogRemove] = pre ++ dels ++ [LogRemove]).
  { unfold logA, pre. rewrite <- !app_assoc. reflexivity. }
  assert (Hcb : body_okb old new (map rename_new new ++ dels) = true) by apply canonical_body_ok.
  destruct (run_abort fails i0 pre st) as [[st1 i1] ab1] eqn:E1.
  destruct (run_abort_spec _ _ _ _ _ _ _ E1) as [k [Hk [Hst1 [Hab1 _]]]].
  destruct ab1.
  - (* aborted before the delete loop *)
    cbn [r_fs]. subst st1.
    apply (crash_state_of_trace old new st _ (firstn k pre) (skipn k pre ++ dels ++ [LogRemove]) Hcb).
    rewrite Hcanon. rewrite <- (firstn_skipn k pre) at 1. rewrite <- app_assoc. reflexivity.
  - specialize (Hab1 eq_refl). subst k. rewrite firstn_all in Hst1.
    destruct v.
    + (* today's loop *)
      destruct (del_loop Current inuse fails i1 old st1 live false) as [[[[st2 live2] err2] i2] ab2] eqn:E2.
      destruct (del_loop_current _ _ _ _ _ _ _ _ _ _ _ _ E2) as [j [Hj [Hst2 [Hno Hab]]]].
      assert (Htr : st2 = run (pre ++ firstn j dels) st).
      { rewrite run_app, <- Hst1, Hst2. unfold dels. rewrite firstn_map. reflexivity. }
      destruct ab2.
      * assert (Hgoal : is_crash_state old new st st2).
        { rewrite Htr. apply (crash_state_of_trace old new st _ _ (skipn j dels ++ [LogRemove]) Hcb).
          rewrite Hcanon. rewrite <- (firstn_skipn j dels) at 1. rewrite <- !app_assoc. reflexivity. }
        destruct err2; exact Hgoal.
      * destruct (Hno eq_refl) as [Hjl [_ [He _]]]. subst err2.
        assert (Hfd : firstn j dels = dels).
        { rewrite Hjl. unfold dels. rewrite <- (map_length (del_old inuse) old). apply firstn_all. }
        assert (Hall : st2 = run (pre ++ dels) st) by (rewrite Htr, Hfd; reflexivity).
        destruct (fails i2); cbn [r_fs].
        -- rewrite Hall. apply (crash_state_of_trace old new st _ _ [LogRemove] Hcb).
           rewrite Hcanon, <- app_assoc. reflexivity.
        -- replace (run_step LogRemove st2) with (run ((pre ++ dels) ++ [LogRemove]) st) by (rewrite run_app, <- Hall; reflexivity).
           apply (crash_state_of_trace old new st _ _ [] Hcb).
           rewrite Hcanon, app_nil_r, <- app_assoc. reflexivity.
    + (* repaired loop *)
      destruct (del_loop Repaired inuse fails i1 old st1 live false) as [[[[st2 live2] err2] i2] ab2] eqn:E2.
      destruct (del_loop_repaired _ _ _ _ _ _ _ _ _ _ _ _ E2) as [Hab2 [_ [_ [okl [failedl [Hst2 [Hpart Herr]]]]]]].
      subst ab2.
      assert (Hb : body_okb old new (map rename_new new ++ map (del_old inuse) (okl ++ failedl)) = true)
        by (apply body_ok_any_order; exact Hpart).
      assert (Htr : st2 = run (pre ++ map (del_old inuse) okl) st) by (rewrite run_app, <- Hst1; exact Hst2).
      assert (Hfull : logA old new ++ (map rename_new new ++ map (del_old inuse) (okl ++ failedl)) ++ [LogRemove]
                      = (pre ++ map (del_old inuse) okl) ++ map (del_old inuse) failedl ++ [LogRemove]).
      { unfold logA, pre. rewrite map_app, <- !app_assoc. reflexivity. }
      destruct err2.
      * cbn [r_fs]. rewrite Htr. apply (crash_state_of_trace old new st _ _ _ Hb Hfull).
      * destruct (Herr eq_refl) as [Hf [Hok _]]. subst failedl okl.
        destruct (fails i2); cbn [r_fs].
        -- rewrite Htr. apply (crash_state_of_trace old new st _ _ _ Hb Hfull).
        -- replace (run_step LogRemove st2) with (run ((pre ++ map (del_old inuse) old) ++ [LogRemove]) st)
             by (rewrite run_app, <- Htr; reflexivity).
           apply (crash_state_of_trace old new st _ _ [] Hb).
           rewrite Hfull. cbn [map app]. rewrite app_nil_r. reflexivity.
Qed.

(* restart after a reorganisation that failed anywhere: exactly the old or exactly the new files, no .init, no complete
   log, and a fixpoint of recovery (also with crashes inside that recovery) *)
Lemma fault_restart_atomic v inuse fails i0 st0 old new univ live cr :
  protocol_pre st0 old new univ ->
  let st' := recover_with_crashes univ cr (r_fs (replace_exec v inuse fails i0 old new st0 live)) in
  ((forall n, visible st' n = view_old st0 n) \/ (forall n, visible st' n = view_new st0 old new n)) /\
  (forall n, files st' (n, true) = None) /\ notfull st' /\ recover univ st' = st'.
Proof.
  intros Hp. destruct (replace_exec_crash_state v inuse fails i0 old new st0 live) as [body [k [Hb E]]].
  cbn zeta. rewrite E. exact (crash_atomic_all st0 old new univ Hp body k cr Hb).
Qed.

Lemma fault_contents_unchanged (L : Type) (sem : (N -> option content) -> L) v inuse fails i0 st0 old new univ live cr :
  protocol_pre st0 old new univ ->
  (forall a b, (forall n, a n = b n) -> sem a = sem b) ->
  sem (view_new st0 old new) = sem (view_old st0) ->
  sem (visible (recover_with_crashes univ cr (r_fs (replace_exec v inuse fails i0 old new st0 live)))) = sem (view_old st0).
Proof.
  intros Hp Hext Heq.
  exact (contents_unchanged L sem st0 old new _ Hext Heq (proj1 (fault_restart_atomic v inuse fails i0 st0 old new univ live cr Hp))).
Qed.

(* ---- (2) the live list ---- *)
Lemma live_atomic_repaired inuse fails i0 old new st live :
  let r := replace_exec Repaired inuse fails i0 old new st live in
  r_live r = live \/ r_live r = swapped old new live.
Proof.
  unfold replace_exec.
  destruct (run_abort fails i0 _ st) as [[st1 i1] ab1]. destruct ab1; [left; reflexivity|].
  destruct (del_loop Repaired inuse fails i1 old st1 live false) as [[[[st2 live2] err2] i2] ab2] eqn:E2.
  destruct (del_loop_repaired _ _ _ _ _ _ _ _ _ _ _ _ E2) as [Hab2 [Hl _]]. subst ab2 live2.
  right. destruct err2; [reflexivity|]. destruct (fails i2); reflexivity.
Qed.

(* no error returned -> swapped, log removed is implied by construction; an error never leaves a partial list *)
Lemma live_success_swapped v inuse fails i0 old new st live :
  let r := replace_exec v inuse fails i0 old new st live in
  r_err r = false -> r_live r = swapped old new live.
Proof.
  unfold replace_exec.
  destruct (run_abort fails i0 _ st) as [[st1 i1] ab1]. destruct ab1; [cbn; discriminate|].
  destruct v.
  - destruct (del_loop Current inuse fails i1 old st1 live false) as [[[[st2 live2] err2] i2] ab2] eqn:E2.
    destruct (del_loop_current _ _ _ _ _ _ _ _ _ _ _ _ E2) as [j [_ [_ [Hno _]]]].
    destruct ab2; [destruct err2; cbn; discriminate|]. destruct (Hno eq_refl) as [_ [Hl [He _]]]. subst.
    destruct (fails i2); cbn; [discriminate | reflexivity].
  - destruct (del_loop Repaired inuse fails i1 old st1 live false) as [[[[st2 live2] err2] i2] ab2] eqn:E2.
    destruct (del_loop_repaired _ _ _ _ _ _ _ _ _ _ _ _ E2) as [Hab2 [Hl _]]. subst.
    destruct err2; [cbn; discriminate|]. destruct (fails i2); cbn; [discriminate | reflexivity].
Qed.

(* today's loop: a failing deletion of the second old file leaves a live list that is neither the old nor the new one *)
Lemma live_partial_current :
  exists inuse fails old new st live,
    let r := replace_exec Current inuse fails 0 old new st live in
    r_live r <> live /\ r_live r <> swapped old new live.
Proof.
  exists (fun _ => false), (fun i => Nat.eqb i 5), [0; 1]%N, [2]%N, ex_fs, [0; 1; 7]%N.
  vm_compute. split; discriminate.
Qed.

(* ---- (3) merge: out-of-order inputs go only after the commit ---- *)
Lemma unord_loop_live inuse fails : forall us i st liveU, snd (unord_loop inuse fails i us st liveU) = lrm_all us liveU.
Proof. induction us as [|u us IH]; intros i st liveU; [reflexivity|]. cbn [unord_loop]. rewrite IH. reflexivity. Qed.

(* the repository's order: whatever fails, either no out-of-order input has left the live list, or the ordered list has
   been swapped completely (so the merged files are live) *)
Lemma unordered_after_commit v inuse fails old new unord st liveO liveU :
  let m := merge_exec false v inuse fails old new unord st liveO liveU in
  m_liveU m = liveU \/ (m_liveO m = swapped old new liveO /\ m_liveU m = lrm_all unord liveU).
Proof.
  unfold merge_exec.
  pose proof (live_success_swapped v inuse fails 0 old new st liveO) as Hs. cbn zeta in Hs.
  destruct (r_err (replace_exec v inuse fails 0 old new st liveO)) eqn:E; [left; reflexivity|].
  right. destruct (unord_loop inuse fails _ unord _ liveU) as [st2 liveU2] eqn:E2. cbn [m_liveO m_liveU].
  split; [apply Hs; reflexivity|].
  pose proof (unord_loop_live inuse fails unord (r_next (replace_exec v inuse fails 0 old new st liveO))
                (r_fs (replace_exec v inuse fails 0 old new st liveO)) liveU) as H. rewrite E2 in H. exact H.
Qed.

(* on disk: the inputs are untouched unless ReplaceFiles returned without error (which includes the log removal) *)
Lemma unordered_disk_after_commit v inuse fails old new unord st liveO liveU :
  let r := replace_exec v inuse fails 0 old new st liveO in
  let m := merge_exec false v inuse fails old new unord st liveO liveU in
  r_err r = true -> m_fs m = r_fs r.
Proof. unfold merge_exec. cbn zeta. intro H. rewrite H. reflexivity. Qed.

(* the early-deletion order (documented mutant): the log cannot be created, the inputs are already gone from the live
   list and from the disk while the ordered list still holds the old files *)
Lemma early_unordered_delete_refuted :
  exists inuse fails old new unord st liveO liveU,
    let m := merge_exec true Repaired inuse fails old new unord st liveO liveU in
    m_liveO m = liveO /\ m_liveU m <> liveU /\ files (m_fs m) (9%N, false) = None /\ files st (9%N, false) <> None.
Proof.
  exists (fun _ => false), (fun i => Nat.eqb i 1), [0; 1]%N, [2; 3]%N, [9]%N,
         (mkfs (files_of [(0, false, 10); (1, false, 11); (2, true, 12); (3, true, 13); (9, false, 19)]%N) NoLog),
         [0; 1]%N, [9]%N.
  vm_compute. repeat split; discriminate.
Qed.

(* ---- (4) deleteUnorderedFiles: the inputs that stay visible are a SUFFIX of the merged inputs ---- *)
Lemma files_mv_other st a b p : p <> a -> p <> b -> files (run_step (Mv a b) st) p = files st p.
Proof.
  intros Ha Hb. cbn [run_step]. destruct (files st a); [|reflexivity]. cbn [files].
  rewrite upd_other by exact Ha. rewrite upd_other by exact Hb. reflexivity.
Qed.

Lemma files_mv_src st a b : a <> b -> files (run_step (Mv a b) st) a = None.
Proof.
  intro H. cbn [run_step]. destruct (files st a) eqn:E; [|exact E]. cbn [files]. apply upd_same.
Qed.

Lemma files_rm_other st a p : p <> a -> files (run_step (Rm a) st) p = files st p.
Proof. intro H. cbn [run_step files]. apply upd_other. exact H. Qed.

Lemma logs_mv st a b : logs (run_step (Mv a b) st) = logs st.
Proof. cbn [run_step]. destruct (files st a); reflexivity. Qed.

Lemma In_skipn_in {X} k (l : list X) x : In x (skipn k l) -> In x l.
Proof. revert l. induction k; intros [|y l] H; cbn in *; try tauto. right. apply IHk. exact H. Qed.

Lemma unord_rep_suffix inuse fails : forall us i st liveU,
  NoDup us ->
  exists k, k <= length us /\
    snd (unord_rep inuse fails i us st liveU) = lrm_all (firstn k us) liveU /\
    (forall u, In u (firstn k us) -> files (fst (unord_rep inuse fails i us st liveU)) (u, false) = None) /\
    (forall u b, In u (skipn k us) ->
       files (fst (unord_rep inuse fails i us st liveU)) (u, b) = files st (u, b)) /\
    (forall p, ~ In (fst p) us -> files (fst (unord_rep inuse fails i us st liveU)) p = files st p) /\
    logs (fst (unord_rep inuse fails i us st liveU)) = logs st.
Proof.
  induction us as [|u rest IH]; intros i st liveU Hnd.
  - exists 0. cbn. repeat split; try tauto; lia.
  - inversion Hnd as [|? ? Hnotin Hnd']; subst. cbn [unord_rep].
    destruct (fails i).
    + exists 0. cbn. repeat split; try tauto; lia.
    + set (st1 := run_step (Mv (u, false) (u, true)) st).
      assert (Hst1_other : forall p, fst p <> u -> files st1 p = files st p).
      { intros [n b] Hp. cbn [fst] in Hp. unfold st1. apply files_mv_other; intro E; inversion E; congruence. }
      assert (Hst1_u : files st1 (u, false) = None) by (unfold st1; apply files_mv_src; intro E; inversion E).
      assert (Hlog1 : logs st1 = logs st) by (unfold st1; apply logs_mv).
      assert (Gen : forall st2 i2,
                 (forall p, fst p <> u -> files st2 p = files st p) -> files st2 (u, false) = None -> logs st2 = logs st ->
                 exists k, k <= length (u :: rest) /\
                   snd (unord_rep inuse fails i2 rest st2 (lrm u liveU)) = lrm_all (firstn k (u :: rest)) liveU /\
                   (forall x, In x (firstn k (u :: rest)) -> files (fst (unord_rep inuse fails i2 rest st2 (lrm u liveU))) (x, false) = None) /\
                   (forall x b, In x (skipn k (u :: rest)) ->
                      files (fst (unord_rep inuse fails i2 rest st2 (lrm u liveU))) (x, b) = files st (x, b)) /\
                   (forall p, ~ In (fst p) (u :: rest) -> files (fst (unord_rep inuse fails i2 rest st2 (lrm u liveU))) p = files st p) /\
                   logs (fst (unord_rep inuse fails i2 rest st2 (lrm u liveU))) = logs st).
      { intros st2 i2 Hother Hu Hlog.
        destruct (IH i2 st2 (lrm u liveU) Hnd') as [k [K1 [K2 [K3 [K4 [K5 K6]]]]]].
        exists (S k). cbn [length firstn skipn]. split; [lia|]. split; [rewrite K2; reflexivity|]. split; [|split; [|split]].
        - intros x [Hx|Hx]; [subst x; rewrite K5; [exact Hu | cbn [fst]; exact Hnotin] | apply K3; exact Hx].
        - intros x b Hx. rewrite (K4 x b Hx). apply Hother. cbn [fst]. intro E. subst x.
          apply Hnotin. apply (In_skipn_in k). exact Hx.
        - intros p Hp. rewrite K5 by (intro H; apply Hp; right; exact H). apply Hother. intro E. apply Hp. left. symmetry. exact E.
        - rewrite K6. exact Hlog. }
      destruct (inuse u).
      * apply Gen; assumption.
      * destruct (fails (S i)).
        -- apply Gen; assumption.
        -- apply Gen.
           ++ intros [n b] Hp. cbn [fst] in Hp. rewrite files_rm_other by (intro E; inversion E; congruence).
              apply Hst1_other. exact Hp.
           ++ rewrite files_rm_other by (intro E; inversion E). exact Hst1_u.
           ++ cbn [run_step logs]. exact Hlog1.
Qed.

(* today's loop (unord_loop): the removal of the middle input fails, the newer one is removed: not a suffix *)
Lemma unord_current_gap_refuted :
  exists inuse fails us st liveU,
    let r := unord_loop inuse fails 0 us st liveU in
    files (fst r) (1%N, false) <> None /\ files (fst r) (2%N, false) = None /\ files st (2%N, false) <> None.
Proof.
  exists (fun _ => false), (fun i => Nat.eqb i 1), [0; 1; 2]%N,
         (mkfs (files_of [(0, false, 10); (1, false, 11); (2, false, 12)]%N) NoLog), [0; 1; 2]%N.
  vm_compute. repeat split; discriminate.
Qed.

(* ---- (5) a log that could not be written / synced is removed: nothing is left of the failed replacement ---- *)
Lemma replace_exec_c_nothing v inuse fails i0 old new st live :
  logs st = NoLog -> fails i0 = false -> fails (S i0) || fails (S (S i0)) = true ->
  r_fs (replace_exec_c true v inuse fails i0 old new st live) = st /\
  r_live (replace_exec_c true v inuse fails i0 old new st live) = live.
Proof.
  intros Hl H0 H12. unfold replace_exec_c. rewrite H0, H12. cbn [andb negb r_fs r_live run_step files logs].
  split; [|reflexivity]. destruct st as [f l]. cbn in Hl. subst l. reflexivity.
Qed.

Lemma fault_restart_atomic_c cleanup v inuse fails i0 st0 old new univ live cr :
  protocol_pre st0 old new univ -> logs st0 = NoLog ->
  let st' := recover_with_crashes univ cr (r_fs (replace_exec_c cleanup v inuse fails i0 old new st0 live)) in
  ((forall n, visible st' n = view_old st0 n) \/ (forall n, visible st' n = view_new st0 old new n)) /\
  (forall n, files st' (n, true) = None) /\ notfull st' /\ recover univ st' = st'.
Proof.
  intros Hp Hl. unfold replace_exec_c.
  destruct (cleanup && negb (fails i0) && (fails (S i0) || fails (S (S i0)))) eqn:E.
  - cbn [r_fs run_step files logs].
    replace (mkfs (files st0) NoLog) with (run (firstn 0 (logA old new ++ (map rename_new new ++ map (del_old inuse) old) ++ [LogRemove])) st0)
      by (destruct st0 as [f l]; cbn in Hl; subst l; reflexivity).
    exact (crash_atomic_all st0 old new univ Hp _ 0 cr (canonical_body_ok inuse old new)).
  - apply fault_restart_atomic. exact Hp.
Qed.

(* today: after a failed sync the COMPLETE log stays although the replacement was given up *)
Lemma stale_log_current :
  exists inuse fails old new st live,
    let r := replace_exec Current inuse fails 0 old new st live in
    r_err r = true /\ r_live r = live /\ logs (r_fs r) = FullLog old new.
Proof.
  exists (fun _ => false), (fun i => Nat.eqb i 2), [0; 1]%N, [2; 3]%N, ex_fs, [0; 1; 7]%N. vm_compute. repeat split.
Qed.
