(* C03 proofs: crash atomicity of the replace protocol under every crash prefix and every sequence of crashes inside
   the recovery pass; last-write-wins lemmas for compaction and out-of-order merge. *)
From Coq Require Import NArith ZArith List Bool Lia Arith.
From OG Require Import C03.Model.
Import ListNotations.

(* ---------- basics ---------- *)
Lemma fname_eqb_spec a b : reflect (a = b) (fname_eqb a b).
Proof.
  destruct a as [a1 a2], b as [b1 b2]. unfold fname_eqb; cbn [fst snd].
  destruct (N.eqb_spec a1 b1); destruct (Bool.eqb_spec a2 b2); cbn; constructor; congruence.
Qed.

Lemma upd_same f p v : upd f p v p = v.
Proof. unfold upd. destruct (fname_eqb_spec p p); congruence. Qed.

Lemma upd_other f p v q : q <> p -> upd f p v q = f q.
Proof. intro H. unfold upd. destruct (fname_eqb_spec q p); congruence. Qed.

Ltac pb_split := split; [split; [split | split; [| split]] | split].

Ltac upds :=
  cbn [files logs]; unfold upd;
  repeat match goal with
         | |- context [fname_eqb ?a ?b] => destruct (fname_eqb_spec a b)
         end; try congruence.

Lemma mem_In n l : mem n l = true <-> In n l.
Proof.
  unfold mem. rewrite existsb_exists. split.
  - intros [x [Hx He]]. apply N.eqb_eq in He. subst. exact Hx.
  - intro H. exists n. split; [exact H | apply N.eqb_refl].
Qed.

Lemma mem_false n l : mem n l = false <-> ~ In n l.
Proof. rewrite <- mem_In. destruct (mem n l); split; congruence. Qed.

Lemma step_eqb_eq a b : step_eqb a b = true -> a = b.
Proof.
  destruct a, b; cbn; try discriminate; try reflexivity.
  - intro H. apply andb_prop in H. destruct H as [H1 H2].
    destruct (fname_eqb_spec src src0); try discriminate. destruct (fname_eqb_spec dst dst0); try discriminate. congruence.
  - intro H. destruct (fname_eqb_spec p p0); try discriminate. congruence.
Qed.

Lemma step_eqb_refl_mv a b : step_eqb (Mv a b) (Mv a b) = true.
Proof. cbn. destruct (fname_eqb_spec a a); destruct (fname_eqb_spec b b); cbn; congruence. Qed.

Lemma step_eqb_refl_rm a : step_eqb (Rm a) (Rm a) = true.
Proof. cbn. destruct (fname_eqb_spec a a); congruence. Qed.

Lemma run_app l1 l2 st : run (l1 ++ l2) st = run l2 (run l1 st).
Proof. unfold run. apply fold_left_app. Qed.

Lemma forallb_firstn {A} (f : A -> bool) l k : forallb f l = true -> forallb f (firstn k l) = true.
Proof.
  revert k. induction l as [|x l IH]; intros k H; destruct k; cbn in *; try reflexivity.
  apply andb_prop in H. destruct H as [H1 H2]. rewrite H1. cbn. apply IH. exact H2.
Qed.

Lemma filter_present_nil st (l : list N) :
  (forall x, files st (x, true) = None) -> filter (fun n => present st (n, true)) l = [].
Proof.
  intro Hc. induction l as [|x l IH]; [reflexivity|]. cbn. unfold present at 1. rewrite (Hc x). exact IH.
Qed.

(* ---------- the invariant ---------- *)
Section Protocol.
Variables (st0 : fs) (old new univ : list N).

Definition protocol_pre : Prop :=
  (forall x, In x old -> ~ In x new) /\
  (forall o, In o old -> files st0 (o, false) <> None) /\
  (forall n, In n new -> files st0 (n, true) <> None /\ files st0 (n, false) = None) /\
  (forall o, In o old -> In o univ) /\
  (forall n, ~ In n univ -> files st0 (n, true) = None) /\
  (forall a b, logs st0 <> FullLog a b).

Hypothesis Hpre : protocol_pre.

Let Hdisj : forall x, In x old -> ~ In x new := proj1 Hpre.
Let Hold : forall o, In o old -> files st0 (o, false) <> None := proj1 (proj2 Hpre).
Let Hnew : forall n, In n new -> files st0 (n, true) <> None /\ files st0 (n, false) = None := proj1 (proj2 (proj2 Hpre)).
Let Holdu : forall o, In o old -> In o univ := proj1 (proj2 (proj2 (proj2 Hpre))).
Let Huniv : forall n, ~ In n univ -> files st0 (n, true) = None := proj1 (proj2 (proj2 (proj2 (proj2 Hpre)))).
Let Hlog0 : forall a b, logs st0 <> FullLog a b := proj2 (proj2 (proj2 (proj2 (proj2 Hpre)))).

Definition Com (st : fs) : Prop :=
  (forall n, ~ In n old -> ~ In n new -> files st (n, false) = files st0 (n, false)) /\
  (forall n, ~ In n univ -> files st (n, true) = None).
Definition notfull (st : fs) : Prop := forall a b, logs st <> FullLog a b.
Definition renamed (st : fs) (n : N) : Prop := files st (n, false) = files st0 (n, true) /\ files st (n, true) = None.
Definition pending (st : fs) (n : N) : Prop := files st (n, true) = files st0 (n, true) /\ files st (n, false) = None.
Definition gone (st : fs) (o : N) : Prop := files st (o, false) = None.

Definition PA (st : fs) : Prop :=
  Com st /\ notfull st /\ (forall o, In o old -> files st (o, false) = files st0 (o, false)) /\
  (forall n, In n new -> files st (n, false) = None).
Definition PB (st : fs) : Prop :=
  Com st /\ logs st = FullLog old new /\ (forall n, In n new -> renamed st n \/ pending st n) /\
  (forall o, In o old -> files st (o, false) = files st0 (o, false) \/ gone st o).
Definition PC (st : fs) : Prop :=
  Com st /\ notfull st /\ (forall n, In n new -> files st (n, false) = files st0 (n, true)) /\
  (forall o, In o old -> gone st o).
Definition Inv (st : fs) : Prop := PA st \/ PB st \/ PC st.

Lemma new_in_univ n : In n new -> In n univ.
Proof.
  intro H. destruct (in_dec N.eq_dec n univ) as [Hi|Hi]; [exact Hi|].
  exfalso. apply (proj1 (Hnew n H)). apply Huniv. exact Hi.
Qed.

(* ---------- one body step keeps PB and never undoes progress ---------- *)
Lemma PB_body_step st s :
  PB st -> body_stepb old new s = true ->
  PB (run_step s st) /\
  (forall n, In n new -> renamed st n -> renamed (run_step s st) n) /\
  (forall o, In o old -> gone st o -> gone (run_step s st) o).
Proof.
  intros HB0 Hs. pose proof HB0 as [[Hc1 Hc2] [Hl [Hn Ho]]].
  destruct s as [| | | |[a ai] [b bi]|[a ai]]; cbn in Hs; try discriminate.
  - (* LogSync *) cbn [run_step]. split; [exact HB0 | split; intros; assumption].
  - (* Mv *)
    destruct ai, bi; try discriminate.
    + (* rename new: (a,true) -> (b,false) *)
      apply andb_prop in Hs. destruct Hs as [Hab Hm]. apply N.eqb_eq in Hab. subst b. apply mem_In in Hm.
      cbn [run_step]. destruct (files st (a, true)) as [c|] eqn:Hsrc.
      2:{ split; [exact HB0 | split; intros; assumption]. }
      assert (Hna : ~ In a old) by (intro Hx; exact (Hdisj a Hx Hm)).
      pb_split; cbn [files logs].
      * intros n H1 H2. assert (n <> a) by congruence. upds. apply Hc1; assumption.
      * intros n H1. upds. apply Hc2. exact H1.
      * exact Hl.
      * intros n Hin. destruct (N.eq_dec n a) as [->|Hne].
        -- left. destruct (Hn a Hm) as [[_ Hr]|[Hp _]]; [congruence|]. split; upds.
        -- destruct (Hn n Hin) as [[H1 H2]|[H1 H2]]; [left|right]; split; upds.
      * intros o Hin. assert (o <> a) by congruence. destruct (Ho o Hin) as [H1|H1]; [left|right]; unfold gone in *; upds.
      * intros n Hin [H1 H2]. split; upds.
      * intros o Hin H1. assert (o <> a) by congruence. unfold gone in *. upds.
    + (* park old: (a,false) -> (b,true) *)
      apply andb_prop in Hs. destruct Hs as [Hab Hm]. apply N.eqb_eq in Hab. subst b. apply mem_In in Hm.
      cbn [run_step]. destruct (files st (a, false)) as [c|] eqn:Hsrc.
      2:{ split; [exact HB0 | split; intros; assumption]. }
      assert (Hna : ~ In a new) by (apply Hdisj; exact Hm).
      pb_split; cbn [files logs].
      * intros n H1 H2. assert (n <> a) by congruence. upds. apply Hc1; assumption.
      * intros n H1. assert (n <> a) by (intro; subst; apply H1; apply Holdu; exact Hm). upds. apply Hc2. exact H1.
      * exact Hl.
      * intros n Hin. assert (n <> a) by congruence.
        destruct (Hn n Hin) as [[H1 H2]|[H1 H2]]; [left|right]; split; upds.
      * intros o Hin. destruct (N.eq_dec o a) as [->|Hne].
        -- right. unfold gone. upds.
        -- destruct (Ho o Hin) as [H1|H1]; [left|right]; unfold gone in *; upds.
      * intros n Hin [H1 H2]. assert (n <> a) by congruence. split; upds.
      * intros o Hin H1. unfold gone in *. destruct (N.eq_dec o a) as [->|Hne]; upds.
  - (* Rm (a,false) *)
    destruct ai; try discriminate. apply mem_In in Hs.
    assert (Hna : ~ In a new) by (apply Hdisj; exact Hs).
    pb_split; cbn [run_step files logs].
    + intros n H1 H2. assert (n <> a) by congruence. upds. apply Hc1; assumption.
    + intros n H1. upds. apply Hc2. exact H1.
    + exact Hl.
    + intros n Hin. assert (n <> a) by congruence.
      destruct (Hn n Hin) as [[H1 H2]|[H1 H2]]; [left|right]; split; upds.
    + intros o Hin. destruct (N.eq_dec o a) as [->|Hne].
      * right. unfold gone. upds.
      * destruct (Ho o Hin) as [H1|H1]; [left|right]; unfold gone in *; upds.
    + intros n Hin [H1 H2]. assert (n <> a) by congruence. split; upds.
    + intros o Hin H1. unfold gone in *. destruct (N.eq_dec o a) as [->|Hne]; upds.
Qed.

Lemma PB_body st body :
  PB st -> forallb (body_stepb old new) body = true ->
  PB (run body st) /\
  (forall n, In n new -> renamed st n -> renamed (run body st) n) /\
  (forall o, In o old -> gone st o -> gone (run body st) o).
Proof.
  revert st. induction body as [|s body IH]; intros st HB Hf.
  - cbn. auto.
  - cbn in Hf. apply andb_prop in Hf. destruct Hf as [Hs Hf].
    destruct (PB_body_step st s HB Hs) as [HB1 [Hn1 Ho1]].
    destruct (IH (run_step s st) HB1 Hf) as [HB2 [Hn2 Ho2]].
    change (run (s :: body) st) with (run body (run_step s st)).
    split; [exact HB2 | split].
    + intros n Hin Hr. apply Hn2; auto.
    + intros o Hin Hg. apply Ho2; auto.
Qed.

Lemma rename_achieves st n : PB st -> In n new -> renamed (run_step (rename_new n) st) n.
Proof.
  intros [[Hc1 Hc2] [Hl [Hn Ho]]] Hin. unfold rename_new. cbn [run_step].
  destruct (Hn n Hin) as [[H1 H2]|[H1 H2]].
  - rewrite H2. split; assumption.
  - destruct (files st (n, true)) as [c|] eqn:Hsrc.
    + split; cbn [files]; upds.
    + exfalso. apply (proj1 (Hnew n Hin)). congruence.
Qed.

Lemma del_achieves st o s :
  s = Rm (o, false) \/ s = Mv (o, false) (o, true) -> gone (run_step s st) o.
Proof.
  intros [->| ->]; unfold gone; cbn [run_step].
  - cbn [files]. upds.
  - destruct (files st (o, false)) as [c|] eqn:Hsrc; [cbn [files]; upds | exact Hsrc].
Qed.

Lemma body_new_done st body n :
  PB st -> forallb (body_stepb old new) body = true -> In n new ->
  renamed st n \/ existsb (step_eqb (rename_new n)) body = true ->
  renamed (run body st) n.
Proof.
  revert st. induction body as [|s body IH]; intros st HB Hf Hin Hd.
  - destruct Hd as [Hd|Hd]; [exact Hd | discriminate].
  - cbn in Hf. apply andb_prop in Hf. destruct Hf as [Hs Hf].
    destruct (PB_body_step st s HB Hs) as [HB1 [Hn1 _]].
    change (run (s :: body) st) with (run body (run_step s st)).
    apply IH; auto.
    destruct Hd as [Hd|Hd]; [left; auto|].
    cbn [existsb] in Hd. apply orb_prop in Hd. destruct Hd as [Hd|Hd]; [|right; exact Hd].
    left. apply step_eqb_eq in Hd. subst s. apply rename_achieves; assumption.
Qed.

Lemma body_old_done st body o :
  PB st -> forallb (body_stepb old new) body = true -> In o old ->
  gone st o \/ existsb (step_eqb (Rm (o, false))) body || existsb (step_eqb (Mv (o, false) (o, true))) body = true ->
  gone (run body st) o.
Proof.
  revert st. induction body as [|s body IH]; intros st HB Hf Hin Hd.
  - destruct Hd as [Hd|Hd]; [exact Hd | discriminate].
  - cbn in Hf. apply andb_prop in Hf. destruct Hf as [Hs Hf].
    destruct (PB_body_step st s HB Hs) as [HB1 [_ Ho1]].
    change (run (s :: body) st) with (run body (run_step s st)).
    apply IH; auto.
    destruct Hd as [Hd|Hd]; [left; auto|].
    cbn [existsb] in Hd.
    destruct (step_eqb (Rm (o, false)) s) eqn:E1.
    { left. apply step_eqb_eq in E1. subst s. apply del_achieves. left. reflexivity. }
    destruct (step_eqb (Mv (o, false) (o, true)) s) eqn:E2.
    { left. apply step_eqb_eq in E2. subst s. apply del_achieves. right. reflexivity. }
    right. cbn [orb] in Hd. exact Hd.
Qed.

(* every crash prefix of  body ++ [LogRemove]  started in PB stays inside the invariant; the full run ends in PC *)
Lemma PB_done_PC st :
  PB st -> (forall n, In n new -> renamed st n) -> (forall o, In o old -> gone st o) -> PC (run_step LogRemove st).
Proof.
  intros [Hc [Hl [Hn Ho]]] Hr Hg. repeat split; cbn [run_step files logs]; try apply Hc.
  - intros a b. discriminate.
  - intros n Hin. apply (proj1 (Hr n Hin)).
  - exact Hg.
Qed.

Lemma body_prefix_inv st body :
  PB st -> forallb (body_stepb old new) body = true ->
  (forall n, In n new -> renamed (run body st) n) -> (forall o, In o old -> gone (run body st) o) ->
  (forall k, Inv (run (firstn k (body ++ [LogRemove])) st)) /\ PC (run (body ++ [LogRemove]) st).
Proof.
  intros HB Hf Hr Hg. split.
  - intro k. rewrite firstn_app, run_app.
    destruct (Nat.le_gt_cases k (length body)) as [Hle|Hgt].
    + replace (k - length body) with 0 by lia. cbn [firstn run fold_left].
      right; left. apply (PB_body st (firstn k body) HB). apply forallb_firstn. exact Hf.
    + rewrite (firstn_all2 body) by lia.
      destruct (k - length body) as [|j] eqn:Hj; [lia|]. cbn [firstn]. rewrite firstn_nil.
      right; right. apply PB_done_PC; auto. apply (PB_body st body HB Hf).
  - rewrite run_app. apply PB_done_PC; auto. apply (PB_body st body HB Hf).
Qed.

(* ---------- the protocol's crash prefixes ---------- *)
Lemma PA_st0 : PA st0.
Proof.
  repeat split; auto.
  - intros n Hin. apply (proj2 (Hnew n Hin)).
Qed.

Lemma PB_after_log : PB (run [LogCreate; LogWrite old new; LogSync] st0).
Proof.
  cbn. repeat split; cbn [files logs]; auto.
  - intros n Hin. right. split; [reflexivity | apply (proj2 (Hnew n Hin))].
Qed.

Lemma body_ok_parts body :
  body_okb old new body = true ->
  forallb (body_stepb old new) body = true /\
  (forall n, In n new -> existsb (step_eqb (rename_new n)) body = true) /\
  (forall o, In o old -> existsb (step_eqb (Rm (o, false))) body || existsb (step_eqb (Mv (o, false) (o, true))) body = true).
Proof.
  unfold body_okb. intro H. apply andb_prop in H. destruct H as [H H3]. apply andb_prop in H. destruct H as [H1 H2].
  split; [exact H1|]. split.
  - intros n Hin. rewrite forallb_forall in H2. apply H2. exact Hin.
  - intros o Hin. rewrite forallb_forall in H3. apply H3. exact Hin.
Qed.

Lemma protocol_prefix_inv body k :
  body_okb old new body = true ->
  Inv (run (firstn k ([LogCreate; LogWrite old new; LogSync] ++ body ++ [LogRemove])) st0).
Proof.
  intro Hb. destruct (body_ok_parts body Hb) as [Hf [Hn Ho]].
  destruct k as [|[|[|k]]].
  - left. exact PA_st0.
  - left. cbn. destruct PA_st0 as [Hc [_ [H1 H2]]]. repeat split; cbn [files logs]; try apply Hc; auto. intros a b; discriminate.
  - right; left. pose proof PB_after_log as HB. cbn in HB. cbn. exact HB.
  - change (firstn (S (S (S k))) ([LogCreate; LogWrite old new; LogSync] ++ body ++ [LogRemove]))
      with ([LogCreate; LogWrite old new; LogSync] ++ firstn k (body ++ [LogRemove])).
    rewrite run_app.
    pose proof PB_after_log as HB.
    apply (body_prefix_inv _ body HB Hf).
    + intros n Hin. apply body_new_done; auto.
    + intros o Hin. apply body_old_done; auto.
Qed.

(* ---------- recovery ---------- *)
Definition shrink_init (st st' : fs) : Prop :=
  logs st' = logs st /\ (forall n, files st' (n, false) = files st (n, false)) /\
  (forall n, files st' (n, true) = None \/ files st' (n, true) = files st (n, true)).

Lemma shrink_refl st : shrink_init st st.
Proof. repeat split; auto. Qed.

Lemma run_purge_list l st :
  shrink_init st (run (map (fun n => Rm (n, true)) l) st) /\
  (forall n, In n l -> files (run (map (fun n => Rm (n, true)) l) st) (n, true) = None).
Proof.
  revert st. induction l as [|x l IH]; intro st.
  - cbn. split; [apply shrink_refl | intros n []].
  - cbn [map]. change (run (Rm (x, true) :: map (fun n => Rm (n, true)) l) st)
      with (run (map (fun n => Rm (n, true)) l) (run_step (Rm (x, true)) st)).
    destruct (IH (run_step (Rm (x, true)) st)) as [[H1 [H2 H3]] H4].
    split.
    + repeat split.
      * rewrite H1. reflexivity.
      * intro n. rewrite H2. cbn [run_step files]. upds.
      * intro n. destruct (H3 n) as [H|H]; [left; exact H|].
        rewrite H. cbn [run_step files]. destruct (N.eq_dec n x) as [->|Hne]; [left|right]; upds.
    + intros n [->|Hin]; [|apply H4; exact Hin].
      destruct (H3 n) as [H|H]; [exact H|]. rewrite H. cbn [run_step files]. upds.
Qed.

Lemma PA_shrink st st' : PA st -> shrink_init st st' -> PA st'.
Proof.
  intros [[Hc1 Hc2] [Hl [Ho Hn]]] [S1 [S2 S3]]. repeat split.
  - intros n H1 H2. rewrite S2. apply Hc1; assumption.
  - intros n H1. destruct (S3 n) as [H|H]; [exact H | rewrite H; apply Hc2; exact H1].
  - intros a b. rewrite S1. apply Hl.
  - intros o Hin. rewrite S2. apply Ho. exact Hin.
  - intros n Hin. rewrite S2. apply Hn. exact Hin.
Qed.

Lemma PC_shrink st st' : PC st -> shrink_init st st' -> PC st'.
Proof.
  intros [[Hc1 Hc2] [Hl [Hn Ho]]] [S1 [S2 S3]]. repeat split.
  - intros n H1 H2. rewrite S2. apply Hc1; assumption.
  - intros n H1. destruct (S3 n) as [H|H]; [exact H | rewrite H; apply Hc2; exact H1].
  - intros a b. rewrite S1. apply Hl.
  - intros n Hin. rewrite S2. apply Hn. exact Hin.
  - intros o Hin. unfold gone. rewrite S2. apply Ho. exact Hin.
Qed.

Definition clean (st : fs) : Prop := forall n, files st (n, true) = None.
Definition settled (st : fs) : Prop := (PA st \/ PC st) /\ clean st.

Lemma purge_prefix_shrink Y st j : shrink_init st (run (firstn j (purge_steps univ Y)) st).
Proof.
  unfold purge_steps. rewrite firstn_map. apply run_purge_list.
Qed.

Lemma purge_full_clean st : Com st -> clean (run (purge_steps univ st) st).
Proof.
  intros [_ Hc2] n. unfold purge_steps.
  destruct (run_purge_list (filter (fun n0 => present st (n0, true)) univ) st) as [[S1 [S2 S3]] H4].
  destruct (in_dec N.eq_dec n univ) as [Hi|Hi].
  - destruct (files st (n, true)) as [c|] eqn:Hp.
    + apply H4. apply filter_In. split; [exact Hi|]. unfold present. rewrite Hp. reflexivity.
    + destruct (S3 n) as [H|H]; [exact H | rewrite H; exact Hp].
  - destruct (S3 n) as [H|H]; [exact H | rewrite H; apply Hc2; exact Hi].
Qed.

Lemma log_steps_notfull st : notfull st -> log_steps st = [].
Proof.
  intro H. unfold log_steps. destruct (logs st) eqn:E; try reflexivity. exfalso. exact (H old0 new0 E).
Qed.

(* in PB the start-up pass always takes the "all new files exist" branch; its step list is a body followed by the
   removal of the log, and it finishes every pending rename and every remaining delete *)
Lemma PB_log_steps st :
  PB st ->
  exists body, log_steps st = body ++ [LogRemove] /\ forallb (body_stepb old new) body = true /\
    (forall n, In n new -> renamed st n \/ existsb (step_eqb (rename_new n)) body = true) /\
    (forall o, In o old -> gone st o \/
        existsb (step_eqb (Rm (o, false))) body || existsb (step_eqb (Mv (o, false) (o, true))) body = true).
Proof.
  intros [Hc [Hl [Hn Ho]]].
  unfold log_steps. rewrite Hl.
  assert (Hall : forallb (any_form st) new = true).
  { apply forallb_forall. intros n Hin. unfold any_form, present.
    destruct (Hn n Hin) as [[H1 H2]|[H1 H2]].
    - rewrite H1. destruct (files st0 (n, true)) eqn:E; [apply orb_true_r | exfalso; apply (proj1 (Hnew n Hin)); exact E].
    - rewrite H1. destruct (files st0 (n, true)) eqn:E; [reflexivity | exfalso; apply (proj1 (Hnew n Hin)); exact E]. }
  rewrite Hall.
  eexists. split; [reflexivity|]. split; [|split].
  - rewrite forallb_app. apply andb_true_intro. split; apply forallb_forall; intros s Hs; apply in_map_iff in Hs;
      destruct Hs as [x [<- Hx]]; apply filter_In in Hx; destruct Hx as [Hx _].
    + cbn. rewrite N.eqb_refl. cbn. apply mem_In. exact Hx.
    + cbn. apply mem_In. exact Hx.
  - intros n Hin. destruct (Hn n Hin) as [Hr|[H1 H2]]; [left; exact Hr|]. right.
    rewrite existsb_app. apply orb_true_iff. left.
    apply existsb_exists. exists (rename_new n). split; [|apply step_eqb_refl_mv].
    apply in_map. apply filter_In. split; [exact Hin|]. unfold present. rewrite H1.
    destruct (files st0 (n, true)) eqn:E; [reflexivity | exfalso; apply (proj1 (Hnew n Hin)); exact E].
  - intros o Hin. destruct (files st (o, false)) as [c|] eqn:Hp; [right | left; exact Hp].
    apply orb_true_iff. left. rewrite existsb_app. apply orb_true_iff. right.
    apply existsb_exists. exists (Rm (o, false)). split; [|apply step_eqb_refl_rm].
    apply in_map_iff. exists o. split; [reflexivity|]. apply filter_In. split; [exact Hin|]. unfold present. rewrite Hp. reflexivity.
Qed.

Lemma PC_Com st : PC st -> Com st. Proof. intros [H _]. exact H. Qed.
Lemma PA_Com st : PA st -> Com st. Proof. intros [H _]. exact H. Qed.

Lemma crash_in_recover_inv st j : Inv st -> Inv (crash_in_recover univ st j).
Proof.
  unfold crash_in_recover, recover_steps. intros [HA|[HB|HC]].
  - rewrite (log_steps_notfull st) by apply HA. cbn [app run fold_left].
    left. apply (PA_shrink st); [exact HA | apply purge_prefix_shrink].
  - destruct (PB_log_steps st HB) as [body [E [Hf [Hn Ho]]]]. rewrite E.
    destruct (body_prefix_inv st body HB Hf) as [Hpre' Hfin].
    { intros n Hin. apply body_new_done; auto. }
    { intros o Hin. apply body_old_done; auto. }
    rewrite firstn_app, run_app.
    destruct (Nat.le_gt_cases j (length (body ++ [LogRemove]))) as [Hle|Hgt].
    + replace (j - length (body ++ [LogRemove])) with 0 by lia. cbn [firstn run fold_left]. apply Hpre'.
    + rewrite (firstn_all2 (body ++ [LogRemove])) by lia.
      right; right. apply (PC_shrink (run (body ++ [LogRemove]) st)); [exact Hfin | apply purge_prefix_shrink].
  - rewrite (log_steps_notfull st) by apply HC. cbn [app run fold_left].
    right; right. apply (PC_shrink st); [exact HC | apply purge_prefix_shrink].
Qed.

Lemma recover_settles st : Inv st -> settled (recover univ st).
Proof.
  unfold recover, recover_steps. intros [HA|[HB|HC]].
  - rewrite (log_steps_notfull st) by apply HA. cbn [app run fold_left]. split.
    + left. apply (PA_shrink st); [exact HA|]. unfold purge_steps. apply run_purge_list.
    + apply purge_full_clean. apply PA_Com. exact HA.
  - destruct (PB_log_steps st HB) as [body [E [Hf [Hn Ho]]]]. rewrite E.
    destruct (body_prefix_inv st body HB Hf) as [_ Hfin].
    { intros n Hin. apply body_new_done; auto. }
    { intros o Hin. apply body_old_done; auto. }
    rewrite run_app. split.
    + right. apply (PC_shrink (run (body ++ [LogRemove]) st)); [exact Hfin|]. unfold purge_steps. apply run_purge_list.
    + apply purge_full_clean. apply PC_Com. exact Hfin.
  - rewrite (log_steps_notfull st) by apply HC. cbn [app run fold_left]. split.
    + right. apply (PC_shrink st); [exact HC|]. unfold purge_steps. apply run_purge_list.
    + apply purge_full_clean. apply PC_Com. exact HC.
Qed.

Lemma settled_fixpoint st : settled st -> recover univ st = st.
Proof.
  intros [Hp Hc]. unfold recover, recover_steps.
  assert (Hnf : notfull st) by (destruct Hp as [H|H]; apply H).
  rewrite (log_steps_notfull st Hnf). cbn [app run fold_left].
  unfold purge_steps. rewrite (filter_present_nil st univ Hc). reflexivity.
Qed.

Lemma crashes_inv cr st : Inv st -> Inv (fold_left (crash_in_recover univ) cr st).
Proof.
  revert st. induction cr as [|j cr IH]; intros st H; [exact H|]. cbn. apply IH. apply crash_in_recover_inv. exact H.
Qed.

Lemma PA_view st : PA st -> forall n, visible st n = view_old st0 n.
Proof.
  intros [[Hc1 _] [_ [Ho Hn]]] n. unfold visible, view_old.
  destruct (in_dec N.eq_dec n old) as [H1|H1]; [apply Ho; exact H1|].
  destruct (in_dec N.eq_dec n new) as [H2|H2]; [|apply Hc1; assumption].
  rewrite (Hn n H2). symmetry. apply (proj2 (Hnew n H2)).
Qed.

Lemma PC_view st : PC st -> forall n, visible st n = view_new st0 old new n.
Proof.
  intros [[Hc1 _] [_ [Hn Ho]]] n. unfold visible, view_new.
  destruct (mem n new) eqn:E1.
  - apply Hn. apply mem_In. exact E1.
  - destruct (mem n old) eqn:E2.
    + apply Ho. apply mem_In. exact E2.
    + apply Hc1; apply mem_false; assumption.
Qed.

Theorem crash_atomic_all body k cr :
  body_okb old new body = true ->
  let steps := [LogCreate; LogWrite old new; LogSync] ++ body ++ [LogRemove] in
  let st' := recover_with_crashes univ cr (run (firstn k steps) st0) in
  ((forall n, visible st' n = view_old st0 n) \/ (forall n, visible st' n = view_new st0 old new n)) /\
  (forall n, files st' (n, true) = None) /\
  notfull st' /\
  recover univ st' = st'.
Proof.
  intros Hb steps st'.
  assert (Hs : settled st').
  { unfold st', recover_with_crashes. apply recover_settles. apply crashes_inv. apply protocol_prefix_inv. exact Hb. }
  split; [|split; [|split]].
  - destruct Hs as [[HA|HC] _]; [left; apply PA_view; exact HA | right; apply PC_view; exact HC].
  - apply Hs.
  - destruct Hs as [[HA|HC] _]; [apply HA | apply HC].
  - apply settled_fixpoint. exact Hs.
Qed.

(* a torn log write (any strict prefix, classified dirty by the reader) gives the state after LogCreate *)
Lemma torn_write_state body :
  torn_write (run (firstn 1 ([LogCreate; LogWrite old new; LogSync] ++ body ++ [LogRemove])) st0)
  = run (firstn 1 ([LogCreate; LogWrite old new; LogSync] ++ body ++ [LogRemove])) st0.
Proof. reflexivity. Qed.

End Protocol.

(* the canonical step list of ReplaceFiles is a member of the family, for every in-use pattern *)
Lemma mem_refl_in n l : In n l -> mem n l = true.
Proof. apply mem_In. Qed.

Lemma canonical_body_ok inuse old new :
  body_okb old new (map rename_new new ++ map (del_old inuse) old) = true.
Proof.
  unfold body_okb. apply andb_true_intro. split; [apply andb_true_intro; split|].
  - rewrite forallb_app. apply andb_true_intro. split; apply forallb_forall; intros s Hs; apply in_map_iff in Hs;
      destruct Hs as [x [<- Hx]].
    + cbn. rewrite N.eqb_refl. cbn. apply mem_In. exact Hx.
    + unfold del_old. destruct (inuse x); cbn; [rewrite N.eqb_refl; cbn|]; apply mem_In; exact Hx.
  - apply forallb_forall. intros n Hin. rewrite existsb_app. apply orb_true_iff. left.
    apply existsb_exists. exists (rename_new n). split; [apply in_map; exact Hin | apply step_eqb_refl_mv].
  - apply forallb_forall. intros o Hin. unfold del_old.
    destruct (inuse o) eqn:E; apply orb_true_iff; [right|left]; rewrite existsb_app; apply orb_true_iff; right;
      apply existsb_exists.
    + exists (Mv (o, false) (o, true)). split; [|apply step_eqb_refl_mv].
      apply in_map_iff. exists o. rewrite E. split; [reflexivity | exact Hin].
    + exists (Rm (o, false)). split; [|apply step_eqb_refl_rm].
      apply in_map_iff. exists o. rewrite E. split; [reflexivity | exact Hin].
Qed.

Lemma replace_steps_shape inuse old new :
  replace_steps inuse old new =
  [LogCreate; LogWrite old new; LogSync] ++ (map rename_new new ++ map (del_old inuse) old) ++ [LogRemove].
Proof. unfold replace_steps. rewrite <- app_assoc. reflexivity. Qed.

(* ---------- logical contents ---------- *)
Definition store_eq (a b : store) : Prop := forall k, a k = b k.

Lemma over_assoc a b c : store_eq (over (over a b) c) (over a (over b c)).
Proof. intro k. unfold over. destruct (c k); reflexivity. Qed.

Lemma fold_over_ext l a b : store_eq a b -> store_eq (fold_left over l a) (fold_left over l b).
Proof.
  revert a b. induction l as [|x l IH]; intros a b H; [exact H|]. cbn. apply IH.
  intro k. unfold over. rewrite (H k). reflexivity.
Qed.

Lemma fold_over_base' l : forall a k,
  fold_left over l a k = match fold_left over l empty_store k with Some v => Some v | None => a k end.
Proof.
  induction l as [|x l IH]; intros a k; cbn [fold_left].
  - reflexivity.
  - rewrite (IH (over a x) k), (IH (over empty_store x) k).
    destruct (fold_left over l empty_store k); [reflexivity|].
    unfold over, empty_store. destruct (x k); reflexivity.
Qed.

Lemma fold_over_base l a : store_eq (fold_left over l a) (over a (fold_left over l empty_store)).
Proof. intro k. rewrite fold_over_base'. reflexivity. Qed.

Lemma compact_preserves pre mid post : store_eq (read (pre ++ [compact mid] ++ post)) (read (pre ++ mid ++ post)).
Proof.
  unfold read, compact, read. rewrite !fold_left_app. cbn [fold_left].
  apply fold_over_ext. intro k. symmetry. apply fold_over_base.
Qed.

(* out-of-order merge: the rewritten ordered files carry old-ordered overlaid with all merged out-of-order inputs.
   Whatever suffix (newest inputs) of the out-of-order list is still on disk at a crash, reads are unchanged. *)
Lemma over_apply a b k : over a b k = match b k with Some v => Some v | None => a k end.
Proof. reflexivity. Qed.

Lemma merge_suffix_safe O O' Upre Usuf :
  store_eq (read O') (over (read O) (read (Upre ++ Usuf))) ->
  store_eq (read (O' ++ Usuf)) (read (O ++ Upre ++ Usuf)).
Proof.
  intros H k. pose proof (H k) as Hk. unfold read in *. rewrite !fold_left_app.
  rewrite (fold_over_base' Usuf (fold_left over O' empty_store) k).
  rewrite (fold_over_base' Usuf (fold_left over Upre (fold_left over O empty_store)) k).
  destruct (fold_left over Usuf empty_store k) eqn:E; [reflexivity|].
  rewrite Hk. rewrite over_apply. rewrite fold_left_app.
  rewrite (fold_over_base' Usuf (fold_left over Upre empty_store) k). rewrite E.
  rewrite (fold_over_base' Upre (fold_left over O empty_store) k). reflexivity.
Qed.

(* ---------- refuted mutants (sensitivity of the model to a wrong protocol order) ---------- *)
Lemma ex_pre : protocol_pre ex_fs [0; 1]%N [2; 3]%N [0; 1; 2; 3]%N.
Proof.
  unfold protocol_pre. repeat split.
  - intros x [<-|[<-|[]]] [H|[H|[]]]; discriminate.
  - intros o [<-|[<-|[]]]; vm_compute; discriminate.
  - destruct H as [<-|[<-|[]]]; vm_compute; discriminate.
  - destruct H as [<-|[<-|[]]]; vm_compute; reflexivity.
  - intros o [<-|[<-|[]]]; cbn; auto.
  - intros n Hn. unfold ex_fs, files_of. cbn [files find fst snd].
    repeat match goal with
           | |- context [fname_eqb ?a ?b] =>
               let E := fresh "E" in let E1 := fresh "E" in
               destruct (fname_eqb_spec a b) as [E|E];
               [try discriminate E; injection E as E1; subst n; exfalso; apply Hn; cbn; auto 6 |]
           end.
    reflexivity.
  - intros a b. cbn. discriminate.
Qed.

Definition neither (st0 st' : fs) (old new : list N) : Prop :=
  ~ (forall n, visible st' n = view_old st0 n) /\ ~ (forall n, visible st' n = view_new st0 old new n).

Lemma log_late_refuted :
  exists st0 old new univ k, protocol_pre st0 old new univ /\
    neither st0 (recover univ (run (firstn k (mutant_log_late old new)) st0)) old new.
Proof.
  exists ex_fs, [0; 1]%N, [2; 3]%N, [0; 1; 2; 3]%N, 1. split; [exact ex_pre|]. split; intro H.
  - specialize (H 2%N). vm_compute in H. discriminate.
  - specialize (H 0%N). vm_compute in H. discriminate.
Qed.

Lemma delete_before_log_refuted :
  exists st0 old new univ k, protocol_pre st0 old new univ /\
    neither st0 (recover univ (run (firstn k (mutant_delete_before_log old new)) st0)) old new.
Proof.
  exists ex_fs, [0; 1]%N, [2; 3]%N, [0; 1; 2; 3]%N, 1. split; [exact ex_pre|]. split; intro H.
  - specialize (H 0%N). vm_compute in H. discriminate.
  - specialize (H 1%N). vm_compute in H. discriminate.
Qed.

Lemma log_removed_early_refuted :
  exists st0 old new univ k, protocol_pre st0 old new univ /\
    neither st0 (recover univ (run (firstn k (mutant_log_removed_early old new)) st0)) old new.
Proof.
  exists ex_fs, [0; 1]%N, [2; 3]%N, [0; 1; 2; 3]%N, 7. split; [exact ex_pre|]. split; intro H.
  - specialize (H 2%N). vm_compute in H. discriminate.
  - specialize (H 1%N). vm_compute in H. discriminate.
Qed.

(* deleting the newest out-of-order input first: a crash leaves an older input that overrides the merged value *)
Lemma merge_newest_first_refuted :
  exists O O' Upre Usuf k,
    store_eq (read O') (over (read O) (read (Upre ++ Usuf))) /\ read (O' ++ Upre) k <> read (O ++ Upre ++ Usuf) k.
Proof.
  pose (k := (1%N, 5%Z, 1%N)).
  exists [cell k 1], [cell k 3], [cell k 2], [cell k 3], k. split.
  - intro q. unfold read, over, cell, empty_store. cbn [fold_left app]. destruct (key_eqb q k); reflexivity.
  - vm_compute. discriminate.
Qed.

(* compacting files that are not adjacent in precedence order changes an answer *)
Lemma compact_nonadjacent_refuted :
  exists a b c k, read [compact [a; c]; b] k <> read [a; b; c] k.
Proof.
  pose (k := (1%N, 5%Z, 1%N)). exists (cell k 1), (cell k 2), (cell k 3), k. vm_compute. discriminate.
Qed.

(* contents: any reader semantics that depends only on the visible files and agrees on the old and the new set *)
Lemma contents_unchanged (L : Type) (sem : (N -> option content) -> L) st0 old new (v : N -> option content) :
  (forall a b, (forall n, a n = b n) -> sem a = sem b) ->
  sem (view_new st0 old new) = sem (view_old st0) ->
  ((forall n, v n = view_old st0 n) \/ (forall n, v n = view_new st0 old new n)) ->
  sem v = sem (view_old st0).
Proof.
  intros Hext Heq [H|H].
  - apply Hext. exact H.
  - rewrite <- Heq. apply Hext. exact H.
Qed.
