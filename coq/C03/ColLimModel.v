(* C03 column model with the max-segment-limit: a series whose merged chunk would have more than `limit` segments is split
   over several output files. compactColumn leaves at a segment boundary, returns the position (iteratorStart, segmentIndex)
   at which the next file resumes, the rows still buffered go to lastSeg; compact() closes the file and calls compactColumn
   again with that position.
   Code mirrored (engine/immutable/stream_compact.go after /repo 95cf0b3): compactColumn (lastSeg prepended, chunk loop from
   c.iteratorStart, `segStart = c.segmentIndex` only for the chunk at which the previous file stopped, padding by the real
   segment sizes, continueMerge, writeSegment, `segmentN >= maxSegmentLimit` -> nextSegmentPosition + saveSegment, lastSegment,
   writeLastSegment) and the `for splitFile` loop of compact().
   `resume_all = true` is the code BEFORE 95cf0b3 (every chunk from iteratorStart on starts at segmentIndex): kept as the
   documented mutant that the refutation is about. Executable definitions only. *)
From Coq Require Import NArith ZArith List Bool Arith.
From OG Require Import C03.ColModel.
Import ListNotations.

Record lst (A : Type) := mklst { l_buf : list A; l_out : list (list A); l_n : nat }.
Arguments mklst {A} _ _ _.
Arguments l_buf {A} _.
Arguments l_out {A} _.
Arguments l_n {A} _.

Inductive outcome (A : Type) :=
| Go (st : lst A)                       (* the chunk is finished *)
| Split (st : lst A) (i j : nat).       (* file full: the next file resumes at chunk i, segment j; l_buf st goes to lastSeg *)
Arguments Go {A} _.
Arguments Split {A} _ _ _.

Definition option_skipn {A} (j : nat) (c : option (list A)) : option (list A) :=
  match c with Some l => Some (skipn j l) | None => None end.

(* the segment loop of chunk i; j = index of the first remaining segment, rows / col = the remaining segments *)
Fixpoint lseg_loop {A} (nil : A) (m limit : nat) (lastItr : bool) (i j : nat) (rows : list nat)
         (col : option (list (list A))) (st : lst A) : outcome A :=
  match rows with
  | [] => Go st
  | r :: rest =>
      let '(add, col') :=
        match col with
        | Some (seg :: segs) => (seg, Some segs)
        | Some [] => ([], Some [])
        | None => (repeat nil r, None)
        end in
      let buf1 := l_buf st ++ add in
      let lastSeg := match rest with [] => true | _ => false end in
      if lastSeg && negb lastItr && (length buf1 <? m) then Go (mklst buf1 (l_out st) (l_n st))       (* continueMerge *)
      else
        let w := write_segment m (buf1, l_out st) in
        let n1 := S (l_n st) in
        if (limit <=? n1) && (negb lastItr || negb lastSeg || (0 <? length (fst w))) then
          (* nextSegmentPosition says there is more: saveSegment, return *)
          if lastSeg then Split (mklst (fst w) (snd w) n1) (S i) 0 else Split (mklst (fst w) (snd w) n1) i (S j)
        else
          let st2 := if lastItr && lastSeg && (0 <? length (fst w)) && (n1 <? limit)
                     then let w2 := write_segment m w in mklst (fst w2) (snd w2) (S n1)
                     else mklst (fst w) (snd w) n1 in
          lseg_loop nil m limit lastItr i (S j) rest col' st2
  end.

(* the chunk loop: srcs = the chunks from chunk i on; the first of them is resumed at segment j0 *)
Fixpoint litr_loop {A} (resume_all : bool) (nil : A) (m limit : nat) (i j0 : nat) (srcs : list (src A)) (st : lst A)
  : outcome A :=
  match srcs with
  | [] => Go st
  | s :: rest =>
      let lastItr := match rest with [] => true | _ => false end in
      match lseg_loop nil m limit lastItr i j0 (skipn j0 (s_rows s)) (option_skipn j0 (s_col s)) st with
      | Go st' => litr_loop resume_all nil m limit (S i) (if resume_all then j0 else 0) rest st'
      | sp => sp
      end
  end.

(* one call of compactColumn = the column's part of one output file *)
Definition lround {A} (resume_all : bool) (nil : A) (m limit : nat) (srcs : list (src A)) (i0 j0 : nat) (lastseg : list A)
  : list (list A) * option (nat * nat * list A) :=
  match litr_loop resume_all nil m limit i0 j0 (skipn i0 srcs) (mklst lastseg [] 0) with
  | Split st i j => (l_out st, Some (i, j, l_buf st))
  | Go st =>
      (* writeLastSegment *)
      if (0 <? length (l_buf st)) && (l_n st <? limit) then (snd (write_segment m (l_buf st, l_out st)), None)
      else (l_out st, None)
  end.

(* the `for splitFile` loop *)
Fixpoint lrounds {A} (fuel : nat) (resume_all : bool) (nil : A) (m limit : nat) (srcs : list (src A)) (i0 j0 : nat)
         (lastseg : list A) : list (list (list A)) :=
  match fuel with
  | 0 => []
  | S f =>
      match lround resume_all nil m limit srcs i0 j0 lastseg with
      | (file, None) => [file]
      | (file, Some (i, j, b)) => file :: lrounds f resume_all nil m limit srcs i j b
      end
  end.

Definition nsegs {A} (srcs : list (src A)) : nat := total (map (fun s => length (s_rows s)) srcs).

(* the column's segments in every output file of the series, in file order *)
Definition compact_col_lim_gen {A} (resume_all : bool) (nil : A) (m limit : nat) (srcs : list (src A)) : list (list (list A)) :=
  lrounds (S (S (nsegs srcs))) resume_all nil m limit srcs 0 0 [].

Definition compact_col_lim {A} := @compact_col_lim_gen A false.
Definition compact_col_lim_resume_all {A} := @compact_col_lim_gen A true.
