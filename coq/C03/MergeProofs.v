(* C03 out-of-order merge at column level: the merged column is the last-write-wins overlay of the inputs in file order
   (ordered chunk first, then the out-of-order files oldest to newest), cell by cell; a nil of a newer file never hides an
   older value; the rows are the union of the rows; the result is again strictly ascending. *)
From Coq Require Import ZArith List Bool Lia.
From OG Require Import C03.MergeModel.
Import ListNotations.
Local Open Scope Z_scope.

Definition lww (a b : option mcell) : option mcell :=
  match b with
  | Some (Some v) => Some (Some v)
  | Some None => match a with Some c => Some c | None => Some None end
  | None => a
  end.

Lemma merge_col_nil_l u : merge_col [] u = u.
Proof. destruct u; reflexivity. Qed.

Lemma merge_col_nil_r o : merge_col o [] = o.
Proof. destruct o as [|[t c] o]; reflexivity. Qed.

Lemma merge_col_cons t1 c1 o' t2 c2 u' :
  merge_col ((t1, c1) :: o') ((t2, c2) :: u') =
  if Z.eqb t1 t2 then (t1, match c2 with Some _ => c2 | None => c1 end) :: merge_col o' u'
  else if Z.ltb t1 t2 then (t1, c1) :: merge_col o' ((t2, c2) :: u')
  else (t2, c2) :: merge_col ((t1, c1) :: o') u'.
Proof. reflexivity. Qed.

Lemma assoc_below lo l t : asc_from lo l -> t <= lo -> assoc t l = None.
Proof.
  revert lo. induction l as [|[t' c] r IH]; intros lo H Hle; [reflexivity|].
  cbn in H. destruct H as [H1 H2]. cbn [assoc]. destruct (Z.eqb_spec t t'); [lia|]. apply (IH t'); [exact H2 | lia].
Qed.

Lemma asc_from_weaken lo lo' l : lo' <= lo -> asc_from lo l -> asc_from lo' l.
Proof. destruct l as [|[t c] r]; cbn; [tauto|]. intros H [H1 H2]. split; [lia | exact H2]. Qed.

Lemma merge_col_spec : forall o u lo,
  asc_from lo o -> asc_from lo u ->
  asc_from lo (merge_col o u) /\ forall t, assoc t (merge_col o u) = lww (assoc t o) (assoc t u).
Proof.
  induction o as [|[t1 c1] o' IHo]; intros u.
  - intros lo _ Hu. rewrite merge_col_nil_l. split; [exact Hu|]. intro t. cbn [assoc]. unfold lww.
    destruct (assoc t u) as [[v|]|]; reflexivity.
  - induction u as [|[t2 c2] u' IHu]; intros lo Ho Hu.
    + rewrite merge_col_nil_r. split; [exact Ho|]. intro t. cbn [assoc lww]. reflexivity.
    + rewrite merge_col_cons. cbn [asc_from] in Ho, Hu. destruct Ho as [Ho1 Ho2], Hu as [Hu1 Hu2].
      destruct (Z.eqb_spec t1 t2) as [E|NE].
      * subst t2. destruct (IHo u' t1 Ho2 Hu2) as [A1 A2]. split; [cbn [asc_from]; split; assumption|].
        intro t. cbn [assoc]. destruct (Z.eqb_spec t t1).
        -- cbn [lww]. destruct c2; reflexivity.
        -- apply A2.
      * destruct (Z.ltb_spec t1 t2) as [Hlt|Hge].
        -- assert (Hu' : asc_from t1 ((t2, c2) :: u')) by (cbn [asc_from]; split; assumption).
           destruct (IHo ((t2, c2) :: u') t1 Ho2 Hu') as [A1 A2]. split; [cbn [asc_from]; split; assumption|].
           intro t. cbn [assoc]. destruct (Z.eqb_spec t t1) as [E|NE2].
           ++ subst t. destruct (Z.eqb_spec t1 t2); [lia|].
              rewrite (assoc_below t2 u' t1 Hu2) by lia. reflexivity.
           ++ rewrite A2. cbn [assoc]. reflexivity.
        -- assert (Ho' : asc_from t2 ((t1, c1) :: o')) by (cbn [asc_from]; split; [lia | assumption]).
           destruct (IHu t2 Ho' Hu2) as [A1 A2]. split; [cbn [asc_from]; split; assumption|].
           intro t. cbn [assoc]. destruct (Z.eqb_spec t t2) as [E|NE2].
           ++ subst t. destruct (Z.eqb_spec t2 t1); [lia|].
              rewrite (assoc_below t1 o' t2 Ho2) by lia. cbn [lww]. destruct c2; reflexivity.
           ++ rewrite A2. cbn [assoc]. reflexivity.
Qed.

(* what a query sees: the newer side's value if it has one, else the older side's *)
Lemma merge_col_val o u lo t :
  asc_from lo o -> asc_from lo u ->
  val t (merge_col o u) = match val t u with Some v => Some v | None => val t o end.
Proof.
  intros Ho Hu. unfold val. rewrite (proj2 (merge_col_spec o u lo Ho Hu) t). unfold lww.
  destruct (assoc t u) as [[v|]|]; destruct (assoc t o) as [[w|]|]; reflexivity.
Qed.

(* rows: exactly the union *)
Lemma merge_col_rows o u lo t :
  asc_from lo o -> asc_from lo u ->
  (assoc t (merge_col o u) = None <-> assoc t o = None /\ assoc t u = None).
Proof.
  intros Ho Hu. rewrite (proj2 (merge_col_spec o u lo Ho Hu) t). unfold lww.
  destruct (assoc t u) as [[v|]|]; destruct (assoc t o) as [[w|]|]; split; try tauto; try discriminate;
    intros [H1 H2]; discriminate.
Qed.

Definition newer_wins (t : Z) (a : option Z) (c : tcol) : option Z := match val t c with Some v => Some v | None => a end.

Lemma merge_fold us : forall acc lo t,
  asc_from lo acc -> Forall (asc_from lo) us ->
  asc_from lo (fold_left merge_col us acc) /\
  val t (fold_left merge_col us acc) = fold_left (newer_wins t) us (val t acc).
Proof.
  induction us as [|u us IH]; intros acc lo t Ha Hall; [split; [exact Ha | reflexivity]|].
  inversion Hall as [|? ? Hu Hus]; subst. cbn [fold_left].
  destruct (merge_col_spec acc u lo Ha Hu) as [A1 _].
  destruct (IH (merge_col acc u) lo t A1 Hus) as [B1 B2]. split; [exact B1|].
  rewrite B2. unfold newer_wins at 2. rewrite (merge_col_val acc u lo t Ha Hu). reflexivity.
Qed.

(* MAIN: the merged column of the series *)
Lemma merge_series_lww os us lo :
  asc_from lo (concat os) -> Forall (asc_from lo) us ->
  asc_from lo (merge_series os us) /\
  forall t, val t (merge_series os us) = fold_left (newer_wins t) us (val t (concat os)).
Proof.
  intros Ho Hus. unfold merge_series, merge_files.
  assert (Hnil : asc_from lo []) by exact I.
  split.
  - apply merge_col_spec; [exact Ho | apply (merge_fold us [] lo 0 Hnil Hus)].
  - intro t. destruct (merge_fold us [] lo t Hnil Hus) as [U1 U2].
    rewrite (merge_col_val (concat os) (fold_left merge_col us []) lo t Ho U1), U2.
    (* folding from "no value" and falling back to the ordered value = folding from the ordered value *)
    assert (G : forall l a b, (match fold_left (newer_wins t) l a with Some v => Some v | None => b end)
                              = fold_left (newer_wins t) l (match a with Some v => Some v | None => b end)).
    { clear. induction l as [|c l IH]; intros a b; [reflexivity|]. cbn [fold_left]. rewrite IH. f_equal.
      unfold newer_wins. destruct (val t c); [reflexivity|]. reflexivity. }
    rewrite G. reflexivity.
Qed.

Lemma merge_series_rows os us lo t :
  asc_from lo (concat os) -> Forall (asc_from lo) us ->
  (assoc t (merge_series os us) = None <-> assoc t (concat os) = None /\ Forall (fun u => assoc t u = None) us).
Proof.
  intros Ho Hus. unfold merge_series, merge_files.
  assert (G : forall l acc, asc_from lo acc -> Forall (asc_from lo) l ->
               asc_from lo (fold_left merge_col l acc) /\
               (assoc t (fold_left merge_col l acc) = None <-> assoc t acc = None /\ Forall (fun u => assoc t u = None) l)).
  { induction l as [|u l IH]; intros acc Ha Hl.
    - split; [exact Ha|]. cbn. split; [intro H; split; [exact H | constructor] | tauto].
    - inversion Hl as [|? ? Hu Hl']; subst. cbn [fold_left].
      destruct (merge_col_spec acc u lo Ha Hu) as [A1 _]. destruct (IH (merge_col acc u) A1 Hl') as [B1 B2].
      split; [exact B1|]. rewrite B2, (merge_col_rows acc u lo t Ha Hu). split.
      + intros [[H1 H2] H3]. split; [exact H1 | constructor; assumption].
      + intros [H1 H2]. inversion H2; subst. tauto. }
  destruct (G us [] I Hus) as [U1 U2].
  rewrite (merge_col_rows (concat os) (fold_left merge_col us []) lo t Ho U1), U2. cbn [assoc]. tauto.
Qed.

(* sensitivity: if the older cell wins on equal times the overlay is wrong *)
Lemma old_wins_refuted :
  exists o u t, asc_from 0 o /\ asc_from 0 u /\
    val t (merge_col_old_wins o u) <> match val t u with Some v => Some v | None => val t o end.
Proof. exists [(1, Some 10)], [(1, Some 20)], 1. cbn. repeat split; try lia. discriminate. Qed.
