(* C03 proofs for the column model with the max-segment-limit (ColLimModel): the files written for a series, laid end to
   end, are exactly the segments the compactor writes without a limit (compact_col_actual) - the split only inserts file
   boundaries; with the pre-95cf0b3 resume (every later chunk restarted at segmentIndex) rows are lost (refuted). *)
From Coq Require Import NArith ZArith List Bool Arith Lia.
From OG Require Import C03.ColModel C03.ColProofs C03.ColLimModel.
Import ListNotations.

Definition isnil {X} (l : list X) : bool := match l with [] => true | _ => false end.

Section Lim.
Context {A : Type} (nil : A) (m limit : nat).
Hypothesis Hm : 0 < m.
Hypothesis Hlim : 0 < limit.

(* the compactor without a limit, continued from a state and a list of remaining chunks, up to the final flush *)
Definition sl (li : bool) (rows : list nat) (col : option (list (list A))) (st : list A * list (list A)) :=
  seg_loop PadActual nil m li rows col 0 st.

Definition F (rem : list (src A)) (st : list A * list (list A)) : list (list A) :=
  let st' := itr_loop PadActual nil m rem st in
  if 0 <? length (fst st') then snd (write_segment m st') else snd st'.

Definition add_of (r0 : nat) (col : option (list (list A))) : list A :=
  match col with Some (seg :: _) => seg | Some [] => [] | None => repeat nil r0 end.
Definition tl_of (col : option (list (list A))) : option (list (list A)) :=
  match col with Some (_ :: segs) => Some segs | Some [] => Some [] | None => None end.

Lemma seg_loop_rc_irrel li rows : forall col rc st,
  seg_loop PadActual nil m li rows col rc st = sl li rows col st.
Proof.
  unfold sl. induction rows as [|r rest IH]; intros col rc st; [reflexivity|].
  cbn [seg_loop pad_step]. destruct col as [[|seg segs]|]; (destruct (_ && _ && _); [reflexivity | apply IH]).
Qed.

Lemma sl_cons li r0 rest col st :
  sl li (r0 :: rest) col st =
  let buf1 := fst st ++ add_of r0 col in
  if isnil rest && negb li && (length buf1 <? m) then (buf1, snd st)
  else let st1 := write_segment m (buf1, snd st) in
       let st2 := if li && isnil rest && (0 <? length (fst st1)) then write_segment m st1 else st1 in
       sl li rest (tl_of col) st2.
Proof.
  unfold sl. cbn [seg_loop pad_step]. destruct col as [[|seg segs]|]; cbn [add_of tl_of];
    (destruct (_ && _ && _); [reflexivity|]); rewrite seg_loop_rc_irrel; reflexivity.
Qed.

Lemma lseg_cons li i j r0 rest col st :
  lseg_loop nil m limit li i j (r0 :: rest) col st =
  let buf1 := l_buf st ++ add_of r0 col in
  if isnil rest && negb li && (length buf1 <? m) then Go (mklst buf1 (l_out st) (l_n st))
  else let w := write_segment m (buf1, l_out st) in
       let n1 := S (l_n st) in
       if (limit <=? n1) && (negb li || negb (isnil rest) || (0 <? length (fst w))) then
         if isnil rest then Split (mklst (fst w) (snd w) n1) (S i) 0 else Split (mklst (fst w) (snd w) n1) i (S j)
       else
         let st2 := if li && isnil rest && (0 <? length (fst w)) && (n1 <? limit)
                    then let w2 := write_segment m w in mklst (fst w2) (snd w2) (S n1)
                    else mklst (fst w) (snd w) n1 in
         lseg_loop nil m limit li i (S j) rest (tl_of col) st2.
Proof. cbn [lseg_loop]. destruct col as [[|seg segs]|]; reflexivity. Qed.

Lemma F_cons s r st : F (s :: r) st = F r (sl (isnil r) (s_rows s) (s_col s) st).
Proof. unfold F. cbn [itr_loop]. rewrite seg_loop_rc_irrel. reflexivity. Qed.

Lemma F_nil st : F [] st = if 0 <? length (fst st) then snd (write_segment m st) else snd st.
Proof. reflexivity. Qed.

Lemma write_prefix (buf : list A) O out :
  write_segment m (buf, O ++ out) = (fst (write_segment m (buf, out)), O ++ snd (write_segment m (buf, out))).
Proof. unfold write_segment. destruct (m <? length buf); cbn [fst snd]; rewrite app_assoc; reflexivity. Qed.

Lemma write_fst_lt (buf : list A) out : length buf < 2 * m -> length (fst (write_segment m (buf, out))) < m.
Proof. intro H. exact (proj1 (write_any m buf out Hm H)). Qed.

Lemma write_short (buf : list A) out : length buf <= m -> write_segment m (buf, out) = ([], out ++ [buf]).
Proof. apply write_segment_le. Qed.

Lemma add_len r0 col :
  match col with Some segs => exists rest, map (@length A) segs = r0 :: rest | None => True end ->
  length (add_of r0 col) = r0.
Proof.
  destruct col as [[|seg segs]|]; cbn [add_of].
  - intros [rest H]. discriminate.
  - intros [rest H]. cbn in H. injection H as H _. exact H.
  - intros _. apply repeat_length.
Qed.

Definition col_ok (rows : list nat) (col : option (list (list A))) : Prop :=
  match col with Some segs => map (@length A) segs = rows | None => True end.

Lemma col_ok_tl r0 rest col : col_ok (r0 :: rest) col -> col_ok rest (tl_of col).
Proof.
  destruct col as [[|seg segs]|]; cbn [col_ok tl_of]; try tauto; try discriminate.
  intro H. cbn in H. injection H as _ H. exact H.
Qed.

Lemma col_ok_add r0 rest col : col_ok (r0 :: rest) col -> length (add_of r0 col) = r0.
Proof.
  intro H. apply add_len. destruct col as [segs|]; [|exact I]. exists rest. exact H.
Qed.

Lemma option_skipn_1 r0 rest col : col_ok (r0 :: rest) col -> option_skipn 1 col = tl_of col.
Proof. destruct col as [[|seg segs]|]; cbn; try reflexivity; try discriminate. Qed.

Lemma option_skipn_S k (col : option (list (list A))) : option_skipn (S k) col = option_skipn k (option_skipn 1 col).
Proof. destruct col as [[|seg segs]|]; cbn [option_skipn skipn]; try reflexivity. destruct k; reflexivity. Qed.

(* ---------- the segment loop ---------- *)
Lemma lseg_sim (r : list (src A)) i : forall rows col j buf out n O,
  Forall (fun x => x <= m) rows -> col_ok rows col -> length buf < m -> n < limit ->
  let li := isnil r in
  match lseg_loop nil m limit li i j rows col (mklst buf out n) with
  | Go st' =>
      length (l_buf st') < m /\ (l_n st' < limit \/ (li = true /\ l_buf st' = [])) /\
      sl li rows col (buf, O ++ out) = (l_buf st', O ++ l_out st')
  | Split st' i' j' =>
      length (l_buf st') < m /\
      exists k, 0 < k <= length rows /\
        ((k < length rows /\ i' = i /\ j' = j + k) \/ (k = length rows /\ i' = S i /\ j' = 0)) /\
        F r (sl li rows col (buf, O ++ out)) =
        F r (sl li (skipn k rows) (option_skipn k col) (l_buf st', O ++ l_out st'))
  end.
Proof.
  induction rows as [|r0 rest IH]; intros col j buf out n O Hle Hcol Hb Hn li.
  - cbn [lseg_loop l_buf l_n l_out]. split; [exact Hb|]. split; [left; exact Hn | reflexivity].
  - rewrite lseg_cons. cbn [l_buf l_out l_n]. cbn zeta.
    apply Forall_cons_iff in Hle. destruct Hle as [Hr0 Hle].
    pose proof (col_ok_add _ _ _ Hcol) as Hadd. pose proof (col_ok_tl _ _ _ Hcol) as Hcol'.
    set (buf1 := buf ++ add_of r0 col).
    assert (Hb1 : length buf1 < 2 * m) by (unfold buf1; rewrite app_length, Hadd; lia).
    rewrite (sl_cons li r0 rest col (buf, O ++ out)). cbn [fst snd]. cbn zeta. fold buf1.
    destruct (isnil rest && negb li && (length buf1 <? m)) eqn:Ecm.
    + (* continueMerge *)
      cbn [l_buf l_n l_out]. apply andb_prop in Ecm. destruct Ecm as [_ Hlt]. apply Nat.ltb_lt in Hlt.
      split; [exact Hlt|]. split; [left; exact Hn | reflexivity].
    + rewrite (write_prefix buf1 O out).
      assert (Hw0 : length (fst (write_segment m (buf1, out))) < m) by (apply write_fst_lt; exact Hb1).
      destruct (write_segment m (buf1, out)) as [wb wo] eqn:Ew. cbn [fst snd] in *.
      destruct ((limit <=? S n) && (negb li || negb (isnil rest) || (0 <? length wb))) eqn:Esp.
      * (* the file is full and there is more *)
        destruct rest as [|r1 rest1]; cbn [isnil].
        -- (* last segment of the chunk: resume at the next chunk *)
           cbn [l_buf l_out l_n]. split; [exact Hw0|]. exists 1. split; [cbn; lia|]. split; [right; cbn; repeat split; lia|].
           cbn [skipn length]. rewrite (option_skipn_1 _ _ _ Hcol). cbn [isnil andb].
           unfold sl. cbn [seg_loop fst snd].
           destruct li eqn:Eli; cbn [andb]; [|reflexivity].
           (* last chunk: without a limit the rest is written at once, with the limit by writeLastSegment of the next file *)
           destruct (Nat.ltb_spec 0 (length wb)) as [Hp|Hz]; [|reflexivity].
           rewrite (write_short wb (O ++ wo)) by lia.
           subst li. destruct r; [|discriminate]. rewrite !F_nil. cbn [fst snd].
           replace (0 <? length (@Datatypes.nil A)) with false by reflexivity.
           rewrite (proj2 (Nat.ltb_lt _ _) Hp).
           rewrite (write_short wb (O ++ wo)) by lia. reflexivity.
        -- cbn [l_buf l_out l_n]. split; [exact Hw0|]. exists 1. split; [cbn; lia|]. split; [left; cbn; repeat split; lia|].
           cbn [skipn]. rewrite (option_skipn_1 _ _ _ Hcol). rewrite !andb_false_r. cbn [andb]. reflexivity.
      * (* go on in the same file *)
        destruct rest as [|r1 rest1].
        -- (* that was the last segment of the chunk *)
           cbn [isnil andb lseg_loop]. rewrite !andb_true_r.
           unfold sl. cbn [seg_loop].
           destruct li eqn:Eli; cbn [andb negb orb] in *.
           ++ destruct (Nat.ltb_spec 0 (length wb)) as [Hp|Hz].
              ** (* rows left over at the very end: written at once (the limit is not reached, else we had split) *)
                 rewrite orb_true_r, andb_true_r in Esp. apply Nat.leb_gt in Esp.
                 destruct (Nat.ltb_spec (S n) limit); [|lia]. cbn [andb].
                 rewrite (write_prefix wb O wo). rewrite (write_short wb wo) by lia. cbn [l_buf l_out l_n fst snd length].
                 split; [lia|]. split; [right; split; reflexivity | reflexivity].
              ** cbn [andb l_buf l_out l_n]. split; [exact Hw0|]. split; [|reflexivity].
                 right. split; [reflexivity|]. destruct wb; [reflexivity | cbn in Hz; lia].
           ++ cbn [l_buf l_out l_n]. split; [exact Hw0|]. split; [|reflexivity].
              left. rewrite andb_true_r in Esp. apply Nat.leb_gt in Esp. exact Esp.
        -- (* more segments of this chunk *)
           cbn [isnil]. rewrite !andb_false_r. cbn [andb].
           assert (Hn1 : S n < limit).
           { cbn [isnil negb orb] in Esp. rewrite orb_true_r in Esp. cbn [orb] in Esp. rewrite andb_true_r in Esp.
             apply Nat.leb_gt in Esp. exact Esp. }
           specialize (IH (tl_of col) (S j) wb wo (S n) O Hle Hcol' Hw0 Hn1). cbn zeta in IH.
           fold li in IH.
           destruct (lseg_loop nil m limit li i (S j) (r1 :: rest1) (tl_of col) (mklst wb wo (S n))) as [st'|st' i' j'].
           ++ exact IH.
           ++ destruct IH as [I1 [k [Hk [Hpos HF]]]]. split; [exact I1|]. exists (S k).
              split; [cbn [length] in *; lia|]. split.
              ** cbn [length] in *. destruct Hpos as [[P1 [P2 P3]]|[P1 [P2 P3]]]; [left | right]; repeat split; lia.
              ** rewrite HF. cbn [skipn]. rewrite option_skipn_S, (option_skipn_1 _ _ _ Hcol). reflexivity.
Qed.

(* ---------- positions ---------- *)
Definition cut_src (j : nat) (s : src A) : src A := mksrc (skipn j (s_rows s)) (option_skipn j (s_col s)).
Definition cutL (j : nat) (L : list (src A)) : list (src A) :=
  match L with [] => [] | s :: r => cut_src j s :: r end.

Lemma cutL_0 L : cutL 0 L = L.
Proof. destruct L as [|[rows [c|]] r]; reflexivity. Qed.

Definition okc (s : src A) : Prop := Forall (fun x => x <= m) (s_rows s) /\ col_ok (s_rows s) (s_col s).

Lemma okc_of_bounded s : bounded_src m s -> okc s.
Proof. intros [_ [H1 H2]]. split; [exact H1 | exact H2]. Qed.

Lemma Forall_skipn {X} (P : X -> Prop) k l : Forall P l -> Forall P (skipn k l).
Proof. revert l. induction k; intros [|x l] H; cbn; try assumption. inversion H; subst. apply IHk. assumption. Qed.

Lemma col_ok_skipn k rows col : col_ok rows col -> col_ok (skipn k rows) (option_skipn k col).
Proof.
  destruct col as [segs|]; cbn [col_ok option_skipn]; [|tauto]. intro H. rewrite <- H.
  clear H. revert segs. induction k; intros [|x segs]; cbn; try reflexivity. apply IHk.
Qed.

Lemma nsegs_cons s (r : list (src A)) : nsegs (s :: r) = length (s_rows s) + nsegs r.
Proof. reflexivity. Qed.

Lemma skipn_skipn {X} a b (l : list X) : skipn a (skipn b l) = skipn (b + a) l.
Proof.
  revert l. induction b; intro l; [reflexivity|]. destruct l; [destruct a; reflexivity|]. cbn [skipn Nat.add]. apply IHb.
Qed.

Lemma option_skipn_skipn a b (c : option (list (list A))) : option_skipn a (option_skipn b c) = option_skipn (b + a) c.
Proof. destruct c; cbn [option_skipn]; [rewrite skipn_skipn|]; reflexivity. Qed.

(* ---------- the chunk loop ---------- *)
Lemma litr_sim : forall (L : list (src A)) i j0 buf out n O,
  Forall okc L -> length buf < m -> n < limit ->
  match litr_loop false nil m limit i j0 L (mklst buf out n) with
  | Go st' =>
      length (l_buf st') < m /\ (l_n st' < limit \/ l_buf st' = []) /\
      F (cutL j0 L) (buf, O ++ out) = F [] (l_buf st', O ++ l_out st')
  | Split st' i' j' =>
      length (l_buf st') < m /\ i <= i' /\
      nsegs (cutL j' (skipn (i' - i) L)) < nsegs (cutL j0 L) /\
      F (cutL j0 L) (buf, O ++ out) = F (cutL j' (skipn (i' - i) L)) (l_buf st', O ++ l_out st')
  end.
Proof.
  induction L as [|s r IH]; intros i j0 buf out n O Hok Hb Hn.
  - cbn [litr_loop l_buf l_n l_out cutL]. split; [exact Hb|]. split; [left; exact Hn | reflexivity].
  - inversion Hok as [|? ? [Hs1 Hs2] Hr]; subst. cbn [litr_loop cutL].
    pose proof (lseg_sim r i (skipn j0 (s_rows s)) (option_skipn j0 (s_col s)) j0 buf out n O
                  (Forall_skipn _ _ _ Hs1) (col_ok_skipn _ _ _ Hs2) Hb Hn) as HA. cbn zeta in HA.
    fold (isnil r) in *.
    rewrite (F_cons (cut_src j0 s) r). cbn [cut_src s_rows s_col].
    destruct (lseg_loop nil m limit (isnil r) i j0 (skipn j0 (s_rows s)) (option_skipn j0 (s_col s)) (mklst buf out n))
      as [st'|st' i' j'].
    + destruct HA as [A1 [A2 A3]]. rewrite A3.
      destruct r as [|s2 r2].
      * cbn [litr_loop]. split; [exact A1|]. split; [|reflexivity].
        destruct A2 as [A2|[_ A2]]; [left | right]; assumption.
      * assert (Hn' : l_n st' < limit) by (destruct A2 as [A2|[A2 _]]; [exact A2 | discriminate]).
        destruct st' as [b' o' n']. cbn [l_buf l_out l_n] in *.
        specialize (IH (S i) 0 b' o' n' O Hr A1 Hn'). rewrite cutL_0 in IH.
        destruct (litr_loop false nil m limit (S i) 0 (s2 :: r2) (mklst b' o' n')) as [st''|st'' i'' j''].
        -- exact IH.
        -- destruct IH as [I1 [I2 [I3 I4]]]. split; [exact I1|]. split; [lia|].
           replace (i'' - i) with (S (i'' - S i)) by lia. cbn [skipn]. split; [|exact I4].
           rewrite nsegs_cons. lia.
    + destruct HA as [A1 [k [Hk [Hpos HF]]]]. split; [exact A1|].
      destruct Hpos as [[P1 [P2 P3]]|[P1 [P2 P3]]]; subst i' j'.
      * split; [lia|]. rewrite Nat.sub_diag. cbn [skipn cutL]. split.
        -- rewrite !nsegs_cons. cbn [cut_src s_rows]. rewrite <- (skipn_skipn k j0). rewrite !skipn_length in *. lia.
        -- rewrite HF, (F_cons (cut_src (j0 + k) s) r). cbn [cut_src s_rows s_col].
           rewrite skipn_skipn, option_skipn_skipn. reflexivity.
      * split; [lia|]. replace (S i - i) with 1 by lia. cbn [skipn]. rewrite cutL_0. split.
        -- rewrite nsegs_cons. cbn [cut_src s_rows]. lia.
        -- rewrite HF, P1, skipn_all. unfold sl. cbn [seg_loop]. reflexivity.
Qed.

(* ---------- the file loop ---------- *)
Lemma skipn_sub_skipn {X} a b (l : list X) : a <= b -> skipn (b - a) (skipn a l) = skipn b l.
Proof. intro H. rewrite skipn_skipn. f_equal. lia. Qed.

Lemma lrounds_sim (srcs : list (src A)) : forall fuel i0 j0 b O,
  Forall okc srcs -> length b < m -> nsegs (cutL j0 (skipn i0 srcs)) < fuel ->
  O ++ concat (lrounds fuel false nil m limit srcs i0 j0 b) = F (cutL j0 (skipn i0 srcs)) (b, O).
Proof.
  induction fuel as [|f IH]; intros i0 j0 b O Hok Hb Hfuel; [lia|].
  cbn [lrounds]. unfold lround.
  pose proof (litr_sim (skipn i0 srcs) i0 j0 b [] 0 O (Forall_skipn _ _ _ Hok) Hb Hlim) as HB.
  rewrite app_nil_r in HB.
  destruct (litr_loop false nil m limit i0 j0 (skipn i0 srcs) (mklst b [] 0)) as [st'|st' i' j'].
  - destruct HB as [B1 [B2 B3]]. rewrite B3, F_nil. cbn [fst snd].
    destruct (Nat.ltb_spec 0 (length (l_buf st'))) as [Hp|Hz]; cbn [andb].
    + destruct B2 as [B2|B2]; [|rewrite B2 in Hp; cbn in Hp; lia].
      destruct (Nat.ltb_spec (l_n st') limit); [|lia]. cbn [concat]. rewrite app_nil_r, write_prefix. reflexivity.
    + cbn [concat]. rewrite app_nil_r. reflexivity.
  - destruct HB as [B1 [B2 [B3 B4]]]. rewrite (skipn_sub_skipn _ _ _ B2) in B3, B4.
    cbn [concat]. rewrite app_assoc, (IH i' j' (l_buf st') (O ++ l_out st') Hok B1); [symmetry; exact B4 | lia].
Qed.

(* MAIN: laid end to end, the column's segments in the output files are the segments written without a limit *)
Lemma compact_col_lim_correct (srcs : list (src A)) :
  Forall (bounded_src m) srcs ->
  concat (compact_col_lim nil m limit srcs) = compact_col_actual nil m srcs.
Proof.
  intro Hall. unfold compact_col_lim, compact_col_lim_gen.
  assert (Hok : Forall okc srcs) by (eapply Forall_impl; [|exact Hall]; intros; apply okc_of_bounded; assumption).
  pose proof (lrounds_sim srcs (S (S (nsegs srcs))) 0 0 [] [] Hok) as H. cbn [skipn app] in H. rewrite cutL_0 in H.
  rewrite H; [reflexivity | cbn; lia | lia].
Qed.

End Lim.

(* cells: nothing lost, duplicated, reordered or shifted although the series is spread over several files *)
Lemma compact_col_lim_cells {A} (nil : A) m limit (srcs : list (src A)) :
  0 < m -> 0 < limit -> srcs <> [] -> Forall (bounded_src m) srcs ->
  concat (concat (compact_col_lim nil m limit srcs)) = concat (map (expand nil) srcs).
Proof.
  intros Hm Hl Hne Hall. rewrite (compact_col_lim_correct nil m limit Hm Hl srcs Hall).
  apply compact_col_actual_correct; assumption.
Qed.

(* the pre-95cf0b3 resume: every chunk after the one at which the file was closed is restarted at the same segment index, its
   leading segments are never read *)
Lemma resume_all_refuted :
  exists (m limit : nat) (srcs : list (src (option Z))),
    0 < m /\ 0 < limit /\ Forall (wf_src m) srcs /\
    concat (concat (compact_col_lim_resume_all None m limit srcs)) <> concat (map (expand None) srcs).
Proof.
  exists 2, 2, [mksrc [2; 2; 1] (Some [[Some 1%Z; Some 2%Z]; [Some 3%Z; Some 4%Z]; [Some 5%Z]]);
                mksrc [2; 2; 1] (Some [[Some 6%Z; Some 7%Z]; [Some 8%Z; Some 9%Z]; [Some 10%Z]])].
  split; [lia|]. split; [lia|]. split.
  - repeat constructor; cbn; lia.
  - vm_compute. discriminate.
Qed.
