(* C03 merge correspondence evaluator: per series of a real out-of-order merge, the (time, cell) sequence of every column
   read from the new ordered files (laid end to end in file order) must be MergeModel.merge_series of the series' chunks in
   the replaced ordered files and in the consumed out-of-order files; the premises of the theorem (ascending inputs) are
   checked on the inputs; every written chunk must be well-formed for max-rows. *)
From Coq Require Import NArith ZArith List Bool Arith.
From OG Require Import C03.ColModel C03.ColCorr C03.MergeModel.
Import ListNotations.

Record mergecase := mkmc {
  mc_max : nat;
  mc_fields : list N;
  mc_ord : list chunk;      (* the series' chunk in the replaced ordered files, file order *)
  mc_unord : list chunk;    (* ... in the consumed out-of-order files, oldest first *)
  mc_out : list chunk       (* ... in the new ordered files, file order *)
}.

Definition times_of (c : chunk) : list Z := concat (k_t c).

(* one column of one chunk as (time, cell) pairs; a column absent from the chunk is nil in every row *)
Definition chunk_tcol (f : option N) (c : chunk) : tcol :=
  let ts := times_of c in
  let cells := match f with
               | Some g => match lookup g (k_c c) with Some segs => concat segs | None => repeat None (length ts) end
               | None => repeat None (length ts)
               end in
  combine ts cells.

Fixpoint ascb_from (lo : Z) (l : tcol) : bool :=
  match l with
  | [] => true
  | (t, _) :: r => Z.ltb lo t && ascb_from t r
  end.

Definition tcol_eqb (a b : tcol) : bool :=
  list_eqb (fun x y => Z.eqb (fst x) (fst y) && cell_eqb (snd x) (snd y)) a b.

Definition lo_of (mc : mergecase) : Z :=
  fold_left Z.min (concat (map times_of (mc_ord mc ++ mc_unord mc))) 0%Z - 1.

Definition cols_ok (c : chunk) : bool :=
  forallb (fun e => Nat.eqb (length (concat (snd e))) (length (times_of c))) (k_c c).

(* 0 = agrees *)
Definition mergecase_code (mc : mergecase) : nat :=
  let lo := lo_of mc in
  let fs := None :: map Some (mc_fields mc) in
  if negb (forallb cols_ok (mc_ord mc ++ mc_unord mc ++ mc_out mc)) then 70
  else if negb (ascb_from lo (concat (map (chunk_tcol None) (mc_ord mc))) &&
                forallb (fun c => ascb_from lo (chunk_tcol None c)) (mc_unord mc)) then 71      (* premise of the theorem violated *)
  else if negb (forallb (fun f => tcol_eqb (concat (map (chunk_tcol f) (mc_out mc)))
                                           (merge_series (map (chunk_tcol f) (mc_ord mc)) (map (chunk_tcol f) (mc_unord mc)))) fs) then 72
  else if negb (forallb (wf_chunkb (mc_max mc)) (mc_out mc)) then 73
  else 0.

Fixpoint merge_mismatches_from (i : nat) (l : list mergecase) : list (nat * nat) :=
  match l with
  | [] => []
  | c :: r => match mergecase_code c with
              | 0 => merge_mismatches_from (S i) r
              | code => (i, code) :: merge_mismatches_from (S i) r
              end
  end.
Definition merge_mismatches := merge_mismatches_from 0.
