(* C03 fault model: MmsTables.ReplaceFiles and mergeTool.merge with FAILING file-system mutations (I/O errors instead of
   process kills). Every attempted mutation has an ordinal; `fails i = true` means the i-th attempt returns an error and
   does not happen. Any set of failing ordinals is allowed. Besides the disk (Model.fs) the state holds the LIVE file
   list of the directory (what running queries see). Executable definitions only.

   Code mirrored (engine/immutable): mms_tables.go ReplaceFiles (error handling of writeCompactedFileInfo, RenameTmpFiles,
   the delete loop `fs.deleteFile(f); m.deleteFiles(f)`, the final append of the new files and the log removal),
   merge_tool.go merge (replaceMergedFiles, then deleteUnorderedFiles only if the replacement returned no error),
   merge_out_of_order.go deleteUnorderedFiles / removeFile (errors are logged, the file is handed to the GC). *)
From Coq Require Import NArith List Bool Arith.
From OG Require Import C03.Model.
Import ListNotations.

Definition lrm (o : N) (l : list N) : list N := filter (fun x => negb (N.eqb x o)) l.
Definition lrm_all (os : list N) (l : list N) : list N := fold_left (fun acc o => lrm o acc) os l.

(* Current: today's delete loop returns at the first failing deletion, after the file has already left the live list and
   before the new files are added. Repaired: the loop goes on, the new files are added, the error is returned and the
   intent log is kept (props/C03/fix2.patch). *)
Inductive variant := Current | Repaired.

Record rstate := mkr {
  r_fs : fs;
  r_live : list N;
  r_err : bool;          (* ReplaceFiles returned an error *)
  r_next : nat           (* ordinal of the next attempt *)
}.

(* steps that abort the protocol when they fail: executed one after the other from ordinal i *)
Fixpoint run_abort (fails : nat -> bool) (i : nat) (l : list step) (st : fs) : fs * nat * bool :=
  match l with
  | [] => (st, i, false)
  | s :: r => if fails i then (st, S i, true) else run_abort fails (S i) r (run_step s st)
  end.

(* the delete loop over the old files *)
Fixpoint del_loop (v : variant) (inuse : N -> bool) (fails : nat -> bool) (i : nat) (olds : list N)
         (st : fs) (live : list N) (err : bool) : fs * list N * bool * nat * bool :=
  match olds with
  | [] => (st, live, err, i, false)
  | o :: rest =>
      let live' := lrm o live in
      if fails i then
        match v with
        | Current => (st, live', true, S i, true)                          (* return err *)
        | Repaired => del_loop v inuse fails (S i) rest st live' true      (* remember the error, go on *)
        end
      else del_loop v inuse fails (S i) rest (run_step (del_old inuse o) st) live' err
  end.

Definition replace_exec (v : variant) (inuse : N -> bool) (fails : nat -> bool) (i0 : nat) (old new : list N)
           (st : fs) (live : list N) : rstate :=
  let pre := [LogCreate; LogWrite old new; LogSync] ++ map rename_new new in
  match run_abort fails i0 pre st with
  | (st1, i1, true) => mkr st1 live true i1       (* log create / write / sync or a rename failed: nothing swapped *)
  | (st1, i1, false) =>
      match del_loop v inuse fails i1 old st1 live false with
      | (st2, live2, _, i2, true) => mkr st2 live2 true i2                 (* Current only: aborted inside the loop *)
      | (st2, live2, true, i2, false) => mkr st2 (live2 ++ new) true i2    (* Repaired: swapped, log kept *)
      | (st2, live2, false, i2, false) =>
          if fails i2 then mkr st2 (live2 ++ new) true (S i2)              (* log removal failed: log stays *)
          else mkr (run_step LogRemove st2) (live2 ++ new) false (S i2)
      end
  end.

(* the live list after a complete swap *)
Definition swapped (old new live : list N) : list N := lrm_all old live ++ new.

(* removal of the out-of-order inputs (deleteUnorderedFiles): the file leaves the live list, a failing removal is only
   logged (the file stays on disk for the GC) *)
Fixpoint unord_loop (inuse : N -> bool) (fails : nat -> bool) (i : nat) (us : list N) (st : fs) (liveU : list N)
  : fs * list N :=
  match us with
  | [] => (st, liveU)
  | u :: rest =>
      let st' := if fails i then st else run_step (del_old inuse u) st in
      unord_loop inuse fails (S i) rest st' (lrm u liveU)
  end.

Record mstate := mkm { m_fs : fs; m_liveO : list N; m_liveU : list N }.

(* mergeTool.merge after execute(): early = false is the repository's order (replace, then - only without error - delete the
   out-of-order inputs); early = true is the documented mutant that deletes the inputs first *)
Definition merge_exec (early : bool) (v : variant) (inuse : N -> bool) (fails : nat -> bool) (old new unord : list N)
           (st : fs) (liveO liveU : list N) : mstate :=
  if early then
    let '(st1, liveU1) := unord_loop inuse fails 0 unord st liveU in
    let r := replace_exec v inuse fails (length unord) old new st1 liveO in
    mkm (r_fs r) (r_live r) liveU1
  else
    let r := replace_exec v inuse fails 0 old new st liveO in
    if r_err r then mkm (r_fs r) (r_live r) liveU
    else let '(st2, liveU2) := unord_loop inuse fails (r_next r) unord (r_fs r) liveU in
         mkm st2 (r_live r) liveU2.

(* deleteUnorderedFiles after props/C03/fix5.patch: every input is PARKED first (renamed to .init: from then on a restart
   ignores it), then removed unless a reader still holds it; the loop stops at the first input that cannot be parked - that
   input and all newer ones stay in the live list and on disk (a suffix of the inputs, merged again later). A failing
   removal of a parked file is harmless. Ordinals: one attempt for the rename, one more for the removal if not in use. *)
Fixpoint unord_rep (inuse : N -> bool) (fails : nat -> bool) (i : nat) (us : list N) (st : fs) (liveU : list N)
  : fs * list N :=
  match us with
  | [] => (st, liveU)
  | u :: rest =>
      if fails i then (st, liveU)
      else
        let st1 := run_step (Mv (u, false) (u, true)) st in
        if inuse u then unord_rep inuse fails (S i) rest st1 (lrm u liveU)
        else
          let st2 := if fails (S i) then st1 else run_step (Rm (u, true)) st1 in
          unord_rep inuse fails (S (S i)) rest st2 (lrm u liveU)
  end.

Definition unord_loop_v (v : variant) := match v with Current => unord_loop | Repaired => unord_rep end.

(* writeCompactedFileInfo after props/C03/fix6.patch: an intent log that could not be written or synced completely is removed
   again before the error is returned (today the file stays: dirty after a failed write, COMPLETE after a failed sync - and a
   complete log left in a store that lives on is rolled forward by a later start-up against files that have changed since).
   cleanup = true: ordinals S i0 (write) and S (S i0) (sync) failing leave no log at all. *)
Definition replace_exec_c (cleanup : bool) (v : variant) (inuse : N -> bool) (fails : nat -> bool) (i0 : nat)
           (old new : list N) (st : fs) (live : list N) : rstate :=
  if cleanup && negb (fails i0) && (fails (S i0) || fails (S (S i0)))
  then mkr (run_step LogRemove (run_step LogCreate st)) live true (S (S (S i0)))
  else replace_exec v inuse fails i0 old new st live.
