(* C03 column-compaction model: what the streaming compactor writes for ONE column of ONE series.
   Code mirrored: engine/immutable/stream_compact.go StreamIterators.compactColumn (iterator loop, segment loop, nil
   padding of a column that is absent from an input chunk, continueMerge / lastSegment / writeLastSegment),
   writeSegment + splitColumn (a buffer longer than max-rows-per-segment is cut at max-rows-per-segment, the rest stays
   in the buffer). The max-segment-limit split of a chunk over several files is NOT in this model (finding C03-stream-split: the
   repository's split / resume logic is defective). Executable definitions only. *)
From Coq Require Import NArith ZArith List Bool Arith.
Import ListNotations.

(* one input chunk as one column of the compactor sees it: the row count of every time segment of the chunk, and the
   column's own segments if the chunk has the column (None: the column is absent from this chunk) *)
Record src (A : Type) := mksrc { s_rows : list nat; s_col : option (list (list A)) }.
Arguments mksrc {A} _ _.
Arguments s_rows {A} _.
Arguments s_col {A} _.

Definition total (l : list nat) : nat := fold_right Nat.add 0 l.

(* writeSegment: write the first max-rows rows of the buffer (all of it if it is not longer), keep the rest *)
Definition write_segment {A} (maxRows : nat) (st : list A * list (list A)) : list A * list (list A) :=
  let (buf, out) := st in
  if maxRows <? length buf then (skipn maxRows buf, out ++ [firstn maxRows buf]) else ([], out ++ [buf]).

(* how many nil cells the code appends for one segment of a chunk without the column, and the new rowCount.
   PadCounter is the repository's code: counter arithmetic (a full segment while more than max-rows rows remain, rowCount -=
   maxRows after it, the remainder at the end) - it never looks at the real size r of the chunk's time segment.
   PadNoDec is the documented mutant that forgets the decrement. PadActual is the repair (props/C03/fix3.patch): as many
   nils as the time segment has rows. *)
Inductive padmode := PadCounter | PadNoDec | PadActual.

Definition pad_step (mode : padmode) (maxRows rowCount r : nat) : nat * nat :=
  match mode with
  | PadActual => (r, rowCount)
  | _ => if maxRows <? rowCount
         then (maxRows, match mode with PadCounter => rowCount - maxRows | _ => rowCount end)
         else (rowCount, rowCount)
  end.

(* the segment loop over one input chunk. rows: the remaining time segments; col: the remaining column segments;
   rowCount: the padding counter; lastItr: this is the last input chunk of the series *)
Fixpoint seg_loop {A} (mode : padmode) (nil : A) (maxRows : nat) (lastItr : bool) (rows : list nat)
         (col : option (list (list A))) (rowCount : nat) (st : list A * list (list A)) : list A * list (list A) :=
  match rows with
  | [] => st
  | r :: rest =>
      let '(add, col', rc') :=
        match col with
        | Some (seg :: segs) => (seg, Some segs, rowCount)
        | Some [] => ([], Some [], rowCount)
        | None => let (n, rc) := pad_step mode maxRows rowCount r in (repeat nil n, None, rc)
        end in
      let buf1 := fst st ++ add in
      let lastSeg := match rest with [] => true | _ => false end in
      if lastSeg && negb lastItr && (length buf1 <? maxRows) then (buf1, snd st)          (* continueMerge: break *)
      else
        let st1 := write_segment maxRows (buf1, snd st) in
        let st2 := if lastItr && lastSeg && (0 <? length (fst st1)) then write_segment maxRows st1 else st1 in
        seg_loop mode nil maxRows lastItr rest col' rc' st2
  end.

Fixpoint itr_loop {A} (mode : padmode) (nil : A) (maxRows : nat) (srcs : list (src A)) (st : list A * list (list A))
  : list A * list (list A) :=
  match srcs with
  | [] => st
  | s :: rest =>
      let lastItr := match rest with [] => true | _ => false end in
      itr_loop mode nil maxRows rest (seg_loop mode nil maxRows lastItr (s_rows s) (s_col s) (total (s_rows s)) st)
  end.

(* compactColumn followed by writeLastSegment: the segments written for the column *)
Definition compact_col_gen {A} (mode : padmode) (nil : A) (maxRows : nat) (srcs : list (src A)) : list (list A) :=
  let st := itr_loop mode nil maxRows srcs ([], []) in
  if 0 <? length (fst st) then snd (write_segment maxRows st) else snd st.

Definition compact_col {A} := @compact_col_gen A PadCounter.
(* the mutant: padding counter never decremented *)
Definition compact_col_nodec {A} := @compact_col_gen A PadNoDec.
(* the repair: padding by the real segment size *)
Definition compact_col_actual {A} := @compact_col_gen A PadActual.

(* specification side: the cells the column contributes, chunk after chunk (absent column = one nil per row) *)
Definition expand {A} (nil : A) (s : src A) : list A :=
  match s_col s with
  | Some segs => concat segs
  | None => repeat nil (total (s_rows s))
  end.

(* a well-formed chunk: at least one segment, every segment but the last has exactly max-rows rows, the last one has
   between 1 and max-rows rows (what MsBuilder, the merge column writer and the compactor itself write) *)
Fixpoint wf_rows (maxRows : nat) (rows : list nat) : Prop :=
  match rows with
  | [] => False
  | r :: rest => match rest with
                 | [] => 1 <= r <= maxRows
                 | _ => r = maxRows /\ wf_rows maxRows rest
                 end
  end.

Definition wf_src {A} (maxRows : nat) (s : src A) : Prop :=
  wf_rows maxRows (s_rows s) /\
  match s_col s with Some segs => map (@length A) segs = s_rows s | None => True end.

(* the weaker shape that files written under another (smaller or equal) max-rows-per-segment still have: at least one
   segment, no segment longer than max-rows *)
Definition bounded_src {A} (maxRows : nat) (s : src A) : Prop :=
  s_rows s <> [] /\ Forall (fun r => r <= maxRows) (s_rows s) /\
  match s_col s with Some segs => map (@length A) segs = s_rows s | None => True end.
