(* C03: properties that TODAY'S code violates (findings), refuted on the _current variants of the models. *)
From Coq Require Import NArith ZArith List Bool Lia.
From OG Require Import C03.Model C03.Proofs C03.FaultModel C03.FaultProofs.
Import ListNotations.

(* finding C03-replace-delete-abort: today's delete loop of ReplaceFiles returns at the first failing deletion, after the
   file has left the live list and before the new files are added: the live list is neither the old nor the new one *)
Theorem C03_live_partial_current_refuted :
  exists inuse fails old new st live,
    let r := replace_exec Current inuse fails 0 old new st live in
    r_live r <> live /\ r_live r <> swapped old new live.
Proof. exact live_partial_current. Qed.
Print Assumptions C03_live_partial_current_refuted.
