(* C03: properties that TODAY'S code violates (findings), refuted on the _current variants of the models. *)
From Coq Require Import NArith ZArith List Bool Lia.
From OG Require Import C03.Model C03.Proofs C03.FaultModel C03.FaultProofs C03.ColModel C03.ColProofs.
Import ListNotations.

(* finding C03-replace-delete-abort: today's delete loop of ReplaceFiles returns at the first failing deletion, after the
   file has left the live list and before the new files are added: the live list is neither the old nor the new one *)
Theorem C03_live_partial_current_refuted :
  exists inuse fails old new st live,
    let r := replace_exec Current inuse fails 0 old new st live in
    r_live r <> live /\ r_live r <> swapped old new live.
Proof. exact live_partial_current. Qed.
Print Assumptions C03_live_partial_current_refuted.

(* finding C03-pad-segment-size: today's nil padding (counter arithmetic over max-rows-per-segment) writes too many nils for
   a chunk that lacks the column and whose inner segments are shorter than max-rows (a file written under a smaller
   max-rows-per-segment), although no segment is longer than max-rows: the column gets longer than the time column *)
Theorem C03_counter_padding_current_refuted :
  exists (m : nat) (srcs : list (src (option Z))),
    0 < m /\ srcs <> [] /\ Forall (bounded_src m) srcs /\
    concat (compact_col None m srcs) <> concat (map (expand None) srcs).
Proof. exact counter_padding_refuted. Qed.
Print Assumptions C03_counter_padding_current_refuted.

(* finding C03-unordered-delete-gap: today's deleteUnorderedFiles goes on after a failed removal: an older input stays visible
   while a newer one is gone (not a suffix of the inputs: after restart its rows override newer merged rows) *)
Theorem C03_unordered_gap_current_refuted :
  exists inuse fails us st liveU,
    let r := unord_loop inuse fails 0 us st liveU in
    files (fst r) (1%N, false) <> None /\ files (fst r) (2%N, false) = None /\ files st (2%N, false) <> None.
Proof. exact unord_current_gap_refuted. Qed.
Print Assumptions C03_unordered_gap_current_refuted.

(* finding C03-stale-intent-log: today a failed sync of the intent log gives the replacement up (error returned, live list
   unchanged) but leaves the COMPLETE log on disk; the store lives on and a later start-up rolls it forward *)
Theorem C03_stale_log_current_refuted :
  exists inuse fails old new st live,
    let r := replace_exec Current inuse fails 0 old new st live in
    r_err r = true /\ r_live r = live /\ logs (r_fs r) = FullLog old new.
Proof. exact stale_log_current. Qed.
Print Assumptions C03_stale_log_current_refuted.
