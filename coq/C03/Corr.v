(* C03 correspondence evaluator: runs the model on what the harness recorded from the real code.
   Per protocol instance: (1) the recorded step list must belong to the protocol family of C03_crash_atomic (log
   create, log write naming exactly old/new, log sync, then renames/deletes, log removal, then - for a merge - the
   out-of-order inputs deleted oldest first); (2) the file system at protocol start must satisfy protocol_pre;
   (3) for every crash image, the files (names + content ids) the real loader shows after the real recovery must equal
   the model's recover on the model state of that crash point, the real recovery's own mutations must lead to the same
   state as the model's recovery, and for second-level crashes (a prefix of the real recovery's mutations) the final
   recovery must again agree. *)
From Coq Require Import NArith ZArith List Bool.
From OG Require Import C03.Model.
Import ListNotations.

Record image := mkimg {
  i_k : option nat;          (* None: crash in the write phase before the protocol; Some k: k protocol steps applied *)
  i_sub : option nat;        (* Some j: second crash after j mutations of the recovery pass *)
  i_vis : list (N * content);
  i_left : nat;              (* .init files left after recovery *)
  i_rsteps : list step       (* the recovery pass' own mutations (of the parent image for a second-level crash) *)
}.

Record ccase := mkcase {
  c_univ : list N;
  c_fs0 : list (N * bool * content);
  c_old : list N; c_new : list N; c_unord : list N;
  c_steps : list step;
  c_images : list image
}.

Definition fs_of (l : list (N * bool * content)) : fs := mkfs (files_of l) NoLog.

Fixpoint list_eqb {A} (eqb : A -> A -> bool) (a b : list A) : bool :=
  match a, b with
  | [], [] => true
  | x :: a', y :: b' => eqb x y && list_eqb eqb a' b'
  | _, _ => false
  end.

Definition listing (univ : list N) (st : fs) : list (N * content) :=
  flat_map (fun n => match files st (n, false) with Some c => [(n, c)] | None => [] end) univ.
Definition listing_init (univ : list N) (st : fs) : list (N * content) :=
  flat_map (fun n => match files st (n, true) with Some c => [(n, c)] | None => [] end) univ.
Definition pair_eqb (a b : N * content) : bool := N.eqb (fst a) (fst b) && N.eqb (snd a) (snd b).
Definition logst_eqb (a b : logst) : bool :=
  match a, b with
  | NoLog, NoLog | DirtyLog, DirtyLog => true
  | FullLog o n, FullLog o' n' => list_eqb N.eqb o o' && list_eqb N.eqb n n'
  | _, _ => false
  end.
Definition state_eqb (univ : list N) (a b : fs) : bool :=
  list_eqb pair_eqb (listing univ a) (listing univ b) && list_eqb pair_eqb (listing_init univ a) (listing_init univ b) &&
  logst_eqb (logs a) (logs b).

(* split at the first LogRemove *)
Fixpoint split_at_logremove (l : list step) : option (list step * list step) :=
  match l with
  | [] => None
  | LogRemove :: r => Some ([], r)
  | s :: r => match split_at_logremove r with Some (a, b) => Some (s :: a, b) | None => None end
  end.

Fixpoint ascending (l : list N) : bool :=
  match l with
  | a :: ((b :: _) as r) => N.ltb a b && ascending r
  | _ => true
  end.

Definition tail_stepb (s : step) (u : N) : bool :=
  step_eqb s (Rm (u, false)) || step_eqb s (Mv (u, false) (u, true)).

(* the out-of-order inputs after the log removal, oldest first: each one removed or parked (today), or parked and then - unless a
   reader holds it - removed (deleteUnorderedFiles after fix5) *)
Fixpoint tail_okb (tail : list step) (unord : list N) : bool :=
  match tail, unord with
  | [], [] => true
  | s :: t, u :: r =>
      tail_stepb s u &&
      match t with
      | s2 :: t2 => if step_eqb s (Mv (u, false) (u, true)) && step_eqb s2 (Rm (u, true)) then tail_okb t2 r else tail_okb t r
      | [] => tail_okb t r
      end
  | _, _ => false
  end.

(* code 0 = ok *)
Definition protocol_code (c : ccase) : nat :=
  match c_steps c with
  | LogCreate :: LogWrite o n :: LogSync :: rest =>
      if negb (list_eqb N.eqb o (c_old c) && list_eqb N.eqb n (c_new c)) then 2 else
      match split_at_logremove rest with
      | Some (body, tail) =>
          if negb (body_okb (c_old c) (c_new c) body) then 3
          else if negb (tail_okb tail (c_unord c)) then 4
          else if negb (ascending (c_unord c)) then 5
          else 0
      | None => 6
      end
  | _ => 1
  end.

Definition disjointb (a b : list N) : bool := forallb (fun x => negb (mem x b)) a.

Definition pre_code (c : ccase) : nat :=
  let st := fs_of (c_fs0 c) in
  if negb (disjointb (c_old c) (c_new c)) then 11
  else if negb (forallb (fun o => present st (o, false)) (c_old c)) then 12
  else if negb (forallb (fun n => present st (n, true) && negb (present st (n, false))) (c_new c)) then 13
  else if negb (forallb (fun o => mem o (c_univ c)) (c_old c)) then 14
  else if negb (forallb (fun e => mem (fst (fst e)) (c_univ c)) (c_fs0 c)) then 15
  else 0.

Definition image_code (c : ccase) (im : image) : nat :=
  let univ := c_univ c in
  let st0 := fs_of (c_fs0 c) in
  match i_k im with
  | None =>
      (* crash while the new files were being written: only the old files may be visible *)
      if negb (list_eqb pair_eqb (i_vis im) (listing univ st0)) then 21 else if negb (Nat.eqb (i_left im) 0) then 22 else 0
  | Some k =>
      let stk := run (firstn k (c_steps c)) st0 in
      match i_sub im with
      | None =>
          let fin := recover univ stk in
          if negb (list_eqb pair_eqb (i_vis im) (listing univ fin)) then 31
          else if negb (Nat.eqb (i_left im) 0) then 32
          else if negb (state_eqb univ (run (i_rsteps im) stk) fin) then 33
          else 0
      | Some j =>
          let fin := recover univ (run (firstn j (i_rsteps im)) stk) in
          if negb (list_eqb pair_eqb (i_vis im) (listing univ fin)) then 41
          else if negb (Nat.eqb (i_left im) 0) then 42
          else 0
      end
  end.

Fixpoint images_from (c : ccase) (i : nat) (l : list image) : list (nat * nat) :=
  match l with
  | [] => []
  | im :: r => match image_code c im with
               | 0 => images_from c (S i) r
               | code => (i, code) :: images_from c (S i) r
               end
  end.

(* (case index, image index or 0, code) for every disagreement *)
Definition case_mismatches (ci : nat) (c : ccase) : list (nat * nat * nat) :=
  (match protocol_code c with 0 => [] | code => [(ci, 0, code)] end) ++
  (match pre_code c with 0 => [] | code => [(ci, 0, code)] end) ++
  map (fun p => (ci, fst p, snd p)) (images_from c 0 (c_images c)).

Fixpoint mismatches_from (ci : nat) (cs : list ccase) : list (nat * nat * nat) :=
  match cs with
  | [] => []
  | c :: r => case_mismatches ci c ++ mismatches_from (S ci) r
  end.
Definition mismatches := mismatches_from 0.
