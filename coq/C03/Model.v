(* C03 model: the replace protocol of compaction / out-of-order merge over a file system with process-kill crashes,
   the start-up recovery pass (intent-log processing + loader purge of .init files), and a last-write-wins row model of
   what compaction and merge do to the logical contents.  Executable definitions only.

   Code mirrored (engine/immutable): MmsTables.ReplaceFiles, RenameTmpFiles, deleteFiles (mms_tables.go, compact.go),
   writeCompactedFileInfo / readCompactLogFile / procCompactLog / processLog / processFiles (compaction_file_info.go),
   fileLoader.Load / removeTmpFile (mms_loader.go), mergeTool.merge / deleteUnorderedFiles (merge_tool.go,
   merge_out_of_order.go). *)
From Coq Require Import NArith ZArith List Bool.
Import ListNotations.

(* ---- file system ---- *)
(* a data file name: (id, false) is "<id>.tssp", (id, true) is "<id>.tssp.init"; ids are assigned by the harness in
   directory-load order (ordered directory first, then out-of-order, each sorted by name) *)
Definition fname := (N * bool)%type.
Definition content := N.

(* the intent log of one replacement: absent, present without the magic trailer (created, torn or empty: "dirty",
   skipped by start-up and left in place), or complete *)
Inductive logst := NoLog | DirtyLog | FullLog (old new : list N).

Record fs := mkfs { files : fname -> option content; logs : logst }.

Definition fname_eqb (a b : fname) : bool := N.eqb (fst a) (fst b) && Bool.eqb (snd a) (snd b).

Definition upd (f : fname -> option content) (p : fname) (v : option content) : fname -> option content :=
  fun q => if fname_eqb q p then v else f q.

Inductive step :=
| LogCreate                      (* OpenFile(O_CREATE) of a fresh log file *)
| LogWrite (old new : list N)    (* the single Write of marshal(info) ++ magic *)
| LogSync
| LogRemove
| Mv (src dst : fname)           (* rename; replaces dst *)
| Rm (p : fname).

Definition run_step (s : step) (st : fs) : fs :=
  match s with
  | LogCreate => mkfs (files st) DirtyLog
  | LogWrite o n => mkfs (files st) (FullLog o n)
  | LogSync => st
  | LogRemove => mkfs (files st) NoLog
  | Mv a b => match files st a with
              | Some c => mkfs (upd (upd (files st) b (Some c)) a None) (logs st)
              | None => st
              end
  | Rm p => mkfs (upd (files st) p None) (logs st)
  end.

Definition run (l : list step) (st : fs) : fs := fold_left (fun s x => run_step x s) l st.

(* a torn write of the log leaves a file without the magic trailer *)
Definition torn_write (st : fs) : fs := mkfs (files st) DirtyLog.

(* ---- the replace protocol ---- *)
Definition rename_new (n : N) : step := Mv (n, true) (n, false).
(* an old file still referenced by a reader is renamed to .init and collected later; otherwise removed *)
Definition del_old (inuse : N -> bool) (o : N) : step :=
  if inuse o then Mv (o, false) (o, true) else Rm (o, false).

Definition replace_steps (inuse : N -> bool) (old new : list N) : list step :=
  [LogCreate; LogWrite old new; LogSync] ++ map rename_new new ++ map (del_old inuse) old ++ [LogRemove].

(* out-of-order merge: replace the ordered inputs, then delete the out-of-order inputs (no log) *)
Definition merge_steps (inuse : N -> bool) (old new unord : list N) : list step :=
  replace_steps inuse old new ++ map (del_old inuse) unord.

(* ---- start-up pass ---- *)
Definition present (st : fs) (p : fname) : bool := match files st p with Some _ => true | None => false end.
Definition any_form (st : fs) (n : N) : bool := present st (n, true) || present st (n, false).

Definition log_steps (st : fs) : list step :=
  match logs st with
  | FullLog old new =>
      (if forallb (any_form st) new then
         map rename_new (filter (fun n => present st (n, true)) new) ++
         map (fun o => Rm (o, false)) (filter (fun o => present st (o, false)) old)
       else if forallb (any_form st) old then
         map (fun o => Mv (o, true) (o, false)) (filter (fun o => present st (o, true)) old)
       else [])
      ++ [LogRemove]
  | _ => []
  end.

(* the loader removes every .init file it meets; univ enumerates the ids that may exist *)
Definition purge_steps (univ : list N) (st : fs) : list step :=
  map (fun n => Rm (n, true)) (filter (fun n => present st (n, true)) univ).

Definition recover_steps (univ : list N) (st : fs) : list step :=
  let a := log_steps st in a ++ purge_steps univ (run a st).

Definition recover (univ : list N) (st : fs) : fs := run (recover_steps univ st) st.

(* a crash inside the recovery pass after j of its mutations *)
Definition crash_in_recover (univ : list N) (st : fs) (j : nat) : fs := run (firstn j (recover_steps univ st)) st.

Definition recover_with_crashes (univ : list N) (cr : list nat) (st : fs) : fs :=
  recover univ (fold_left (crash_in_recover univ) cr st).

(* what a reader sees after load: the non-.init data files *)
Definition visible (st : fs) (n : N) : option content := files st (n, false).

Definition mem (n : N) (l : list N) : bool := existsb (N.eqb n) l.

Definition view_old (st0 : fs) : N -> option content := fun n => files st0 (n, false).
Definition view_new (st0 : fs) (old new : list N) : N -> option content :=
  fun n => if mem n new then files st0 (n, true) else if mem n old then None else files st0 (n, false).

(* the family of protocols covered by the theorem: log first, removal of the log last, in between any interleaving
   of "rename a new file" and "delete/park an old file" that does each of them at least once *)
Definition body_stepb (old new : list N) (s : step) : bool :=
  match s with
  | Mv (a, true) (b, false) => N.eqb a b && mem a new
  | Mv (a, false) (b, true) => N.eqb a b && mem a old
  | Rm (a, false) => mem a old
  | LogSync => true
  | _ => false
  end.

Definition step_eqb (a b : step) : bool :=
  match a, b with
  | LogCreate, LogCreate | LogSync, LogSync | LogRemove, LogRemove => true
  | Mv a1 a2, Mv b1 b2 => fname_eqb a1 b1 && fname_eqb a2 b2
  | Rm a1, Rm b1 => fname_eqb a1 b1
  | _, _ => false
  end.

Definition body_okb (old new : list N) (body : list step) : bool :=
  forallb (body_stepb old new) body &&
  forallb (fun n => existsb (step_eqb (rename_new n)) body) new &&
  forallb (fun o => existsb (step_eqb (Rm (o, false))) body || existsb (step_eqb (Mv (o, false) (o, true))) body) old.

(* ---- logical contents: last-write-wins rows ---- *)
Definition key := (N * Z * N)%type.          (* series, time, field *)
Definition store := key -> option Z.
Definition empty_store : store := fun _ => None.
(* b is newer than a: each cell b carries replaces a's, the others stay *)
Definition over (a b : store) : store := fun k => match b k with Some v => Some v | None => a k end.
(* reading a list of files in precedence order (ordered files by sequence, then out-of-order files by sequence) *)
Definition read (fl : list store) : store := fold_left over fl empty_store.
(* compaction / merge of a run of files writes their last-write-wins union *)
Definition compact (fl : list store) : store := read fl.

Definition key_eqb (a b : key) : bool :=
  match a, b with (s1, t1, f1), (s2, t2, f2) => N.eqb s1 s2 && Z.eqb t1 t2 && N.eqb f1 f2 end.
(* a file holding one cell *)
Definition cell (k : key) (v : Z) : store := fun q => if key_eqb q k then Some v else None.

(* ---- mutants of the protocol (what a wrong edit of ReplaceFiles would produce); refuted in Proofs.v ---- *)
(* the intent log is written only after the first new file was renamed into place *)
Definition mutant_log_late (old new : list N) : list step :=
  match new with
  | [] => []
  | n :: rest => rename_new n :: [LogCreate; LogWrite old new; LogSync] ++ map rename_new rest ++
                 map (fun o => Rm (o, false)) old ++ [LogRemove]
  end.
(* old files are deleted before the intent log exists *)
Definition mutant_delete_before_log (old new : list N) : list step :=
  map (fun o => Rm (o, false)) old ++ [LogCreate; LogWrite old new; LogSync] ++ map rename_new new ++ [LogRemove].
(* the intent log is removed before the old files are deleted *)
Definition mutant_log_removed_early (old new : list N) : list step :=
  [LogCreate; LogWrite old new; LogSync] ++ map rename_new new ++ [LogRemove] ++ map (fun o => Rm (o, false)) old.

(* a concrete file system used by the Examples and the refutations: old = [0;1] in place, new = [2;3] as .init *)
Definition files_of (l : list (N * bool * content)) : fname -> option content :=
  fun p => match find (fun e => fname_eqb (fst e) p) l with Some e => Some (snd e) | None => None end.
Definition ex_fs : fs := mkfs (files_of [(0, false, 10); (1, false, 11); (2, true, 12); (3, true, 13); (7, false, 17)]%N) NoLog.
