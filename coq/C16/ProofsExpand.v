(* C16: ExpandGroups (Expand.v) hands out only fresh identifiers and never lowers a counter - the two facts on which
   "identifiers are never handed out twice" rests, for the expansion that interleaves the id ranges of different groups. *)
From Coq Require Import ZArith List Bool Lia ZifyBool Sorting.Permutation.
From OG Require Import C16.Model C16.Wf C16.Lists C16.Proofs C16.ProofsCmd C16.ProofsSg C16.ProofsRun C16.ProofsIds C16.Expand.
Import ListNotations.
Open Scope Z_scope.

(* c1 is c with the four group counters raised *)
Definition ctr_ext (c c1 : cat) : Prop :=
  exists a b d e, c1 = set_sg_counters c a b d e /\ max_sg c <= a /\ max_sh c <= b /\ max_ig c <= d /\ max_ix c <= e.

Lemma ctr_ext_refl : forall c, ctr_ext c c.
Proof. intros c. exists (max_sg c), (max_sh c), (max_ig c), (max_ix c). split; [destruct c; reflexivity | lia]. Qed.

Lemma ctr_ext_trans : forall c c1 c2, ctr_ext c c1 -> ctr_ext c1 c2 -> ctr_ext c c2.
Proof.
  intros c c1 c2 (a & b & d & e & -> & A) (a' & b' & d' & e' & -> & B). cbn [max_sg max_sh max_ig max_ix set_sg_counters] in B.
  exists a', b', d', e'. split; [reflexivity | lia].
Qed.

Lemma ctr_ext_facts : forall c c1, ctr_ext c c1 ->
  ptnum c1 = ptnum c /\ nodes c1 = nodes c /\ max_mst c1 = max_mst c /\ max_node c1 = max_node c /\ clampst c1 = clampst c /\
  max_sg c <= max_sg c1 /\ max_sh c <= max_sh c1 /\ max_ig c <= max_ig c1 /\ max_ix c <= max_ix c1.
Proof. intros c c1 (a & b & d & e & -> & A). cbn. repeat split; lia. Qed.

Lemma ctr_ext_issued : forall c c1 k, ctr_ext c c1 -> issued k c <= issued k c1.
Proof. intros c c1 k H. destruct (ctr_ext_facts _ _ H) as (_ & _ & E1 & E2 & _ & ?). destruct k; cbn [issued]; lia. Qed.

(* ---- index groups get one index per missing partition ---- *)
Lemma expand_ig_spec : forall n mx g mx1 g1, expand_ig n mx g = (mx1, g1) ->
  mx <= mx1 /\ ig_id g1 = ig_id g /\
  forall id, In id (map ix_id (ig_indexes g1)) -> In id (map ix_id (ig_indexes g)) \/ mx < id.
Proof.
  intros n mx g mx1 g1. unfold expand_ig. set (k := Z.of_nat (length (ig_indexes g))).
  destruct (k <? n) eqn:E; intros X; inversion X; subst; clear X.
  - split; [lia|]. split; [reflexivity|]. intros id Hin. cbn [ig_set_indexes ig_indexes] in Hin. rewrite map_app in Hin.
    apply in_app_iff in Hin. destruct Hin as [Hin|Hin]; [left; exact Hin | right].
    rewrite map_map in Hin. apply in_map_iff in Hin. destruct Hin as [i [<- Hi]]. cbn [ix_id].
    apply (in_zseq _ (Z.to_nat (n - k)) k i eq_refl) in Hi. lia.
  - split; [lia|]. split; [reflexivity|]. intros id Hin. left. exact Hin.
Qed.

Lemma expand_igs_spec : forall n l mx mx1 l1, expand_igs n mx l = (mx1, l1) ->
  mx <= mx1 /\ map ig_id l1 = map ig_id l /\
  forall id, In id (flat_map (fun g => map ix_id (ig_indexes g)) l1) -> In id (flat_map (fun g => map ix_id (ig_indexes g)) l) \/ mx < id.
Proof.
  intros n. induction l as [|g r IH]; intros mx mx1 l1; cbn [expand_igs].
  - intros X. inversion X; subst. split; [lia|]. split; [reflexivity|]. intros id [].
  - destruct (expand_ig n mx g) as [mxa g1] eqn:E1. destruct (expand_igs n mxa r) as [mxb r1] eqn:E2. intros X. inversion X; subst; clear X.
    destruct (expand_ig_spec _ _ _ _ _ E1) as (A1 & A2 & A3). destruct (IH _ _ _ E2) as (B1 & B2 & B3).
    split; [lia|]. split; [cbn; rewrite A2, B2; reflexivity|].
    intros id Hin. cbn [flat_map] in *. apply in_app_iff in Hin. destruct Hin as [Hin|Hin].
    + destruct (A3 id Hin) as [X|X]; [left; apply in_app_iff; left; exact X | right; exact X].
    + destruct (B3 id Hin) as [X|X]; [left; apply in_app_iff; right; exact X | right; lia].
Qed.

(* ---- shard groups get one shard per missing partition ---- *)
Definition pol_grow (c : cat) (p p1 : policy) : Prop :=
  rp_msts p1 = rp_msts p /\ rp_sgs p1 = rp_sgs p /\
  (forall id, In id (map ig_id (rp_igs p1)) -> In id (map ig_id (rp_igs p)) \/ max_ig c < id) /\
  (forall id, In id (ix_ids_of p1) -> In id (ix_ids_of p) \/ max_ix c < id).

Lemma pol_grow_refl : forall c p, pol_grow c p p.
Proof. intros. unfold pol_grow. auto. Qed.

Lemma pol_grow_trans : forall c c1 p p1 p2, ctr_ext c c1 -> pol_grow c p p1 -> pol_grow c1 p1 p2 -> pol_grow c p p2.
Proof.
  intros c c1 p p1 p2 H (A1 & A2 & A3 & A4) (B1 & B2 & B3 & B4). destruct (ctr_ext_facts _ _ H) as (_ & _ & _ & _ & _ & _ & _ & Hig & Hix).
  unfold pol_grow. split; [congruence|]. split; [congruence|]. split.
  - intros id Hin. destruct (B3 id Hin) as [X|X]; [apply A3; exact X | right; lia].
  - intros id Hin. destruct (B4 id Hin) as [X|X]; [apply A4; exact X | right; lia].
Qed.

Lemma expand_shards_spec : forall parts c p g c1 p1 g1, 0 <= ptnum c -> expand_shards c p g parts = (c1, p1, g1) ->
  ctr_ext c c1 /\ pol_grow c p p1 /\ sg_id g1 = sg_id g /\
  forall id, In id (map sh_id (sg_shards g1)) -> In id (map sh_id (sg_shards g)) \/ max_sh c < id.
Proof.
  induction parts as [|i r IH]; intros c p g c1 p1 g1 Hn; cbn [expand_shards].
  - intros X. inversion X; subst. split; [apply ctr_ext_refl|]. split; [apply pol_grow_refl|]. split; [reflexivity|]. intros id Hin. left. exact Hin.
  - destruct (ensure_ig c p (sg_start g) (sg_end g) (sg_eng g)) as [ig isnew] eqn:Eig.
    destruct (ensure_ig_spec _ _ _ _ _ _ _ Eig Hn) as (_ & _ & Inew).
    set (pa := if isnew then pol_set_igs p (insert_ig ig (rp_igs p)) else p).
    set (ca := set_sg_counters c (max_sg c) (max_sh c + 1) (if isnew then max_ig c + 1 else max_ig c) (if isnew then max_ix c + ptnum c else max_ix c)).
    intros X.
    assert (Hca : ctr_ext c ca).
    { exists (max_sg c), (max_sh c + 1), (if isnew then max_ig c + 1 else max_ig c), (if isnew then max_ix c + ptnum c else max_ix c).
      split; [reflexivity|]. destruct isnew; lia. }
    assert (Hpa : pol_grow c p pa).
    { unfold pa. destruct isnew; [|apply pol_grow_refl]. unfold pol_grow. cbn [rp_msts rp_sgs rp_igs pol_set_igs]. split; [reflexivity|]. split; [reflexivity|].
      rewrite (Inew eq_refl). split.
      - intros id Hin. apply in_map_iff in Hin. destruct Hin as [x [<- Hx]]. apply In_insert_ig in Hx. destruct Hx as [->|Hx].
        + right. cbn. lia.
        + left. apply in_map. exact Hx.
      - intros id Hin. unfold ix_ids_of in *. cbn [rp_igs pol_set_igs] in Hin. apply in_flat_map in Hin. destruct Hin as [x [Hx Hid]].
        apply In_insert_ig in Hx. destruct Hx as [->|Hx].
        + right. cbn [new_igroup ig_indexes] in Hid. rewrite map_map in Hid. apply in_map_iff in Hid. destruct Hid as [j [<- Hj]]. cbn [ix_id].
          apply (in_zseq _ (Z.to_nat (ptnum c)) 0 j eq_refl) in Hj. lia.
        + left. apply in_flat_map. exists x. split; assumption. }
    assert (Hn' : 0 <= ptnum ca) by (cbn; exact Hn).
    destruct (IH _ _ _ _ _ _ Hn' X) as (B1 & B2 & B3 & B4).
    split; [eapply ctr_ext_trans; eassumption|]. split; [eapply pol_grow_trans; eassumption|]. split; [rewrite B3; reflexivity|].
    intros id Hin. destruct (B4 id Hin) as [Y|Y].
    + cbn [sg_set_shards sg_shards] in Y. rewrite map_app in Y. apply in_app_iff in Y. destruct Y as [Y|[<-|[]]]; [left; exact Y | right; cbn; lia].
    + right. cbn [ca max_sh set_sg_counters] in Y. lia.
Qed.

Lemma expand_sgs_spec : forall l c p c1 p1 l1, 0 <= ptnum c -> expand_sgs c p l = (c1, p1, l1) ->
  ctr_ext c c1 /\ pol_grow c p p1 /\ map sg_id l1 = map sg_id l /\
  forall id, In id (flat_map (fun g => map sh_id (sg_shards g)) l1) -> In id (flat_map (fun g => map sh_id (sg_shards g)) l) \/ max_sh c < id.
Proof.
  induction l as [|g r IH]; intros c p c1 p1 l1 Hn; cbn [expand_sgs].
  - intros X. inversion X; subst. split; [apply ctr_ext_refl|]. split; [apply pol_grow_refl|]. split; [reflexivity|]. intros id [].
  - destruct (expand_shards c p g _) as [[ca pa] ga] eqn:E1. destruct (expand_sgs ca pa r) as [[cb pb] rb] eqn:E2.
    intros X. inversion X; subst; clear X.
    destruct (expand_shards_spec _ _ _ _ _ _ _ Hn E1) as (A1 & A2 & A3 & A4).
    destruct (ctr_ext_facts _ _ A1) as (Ep & _ & _ & _ & _ & _ & Hsh & _).
    assert (Hn' : 0 <= ptnum ca) by (rewrite Ep; exact Hn).
    destruct (IH _ _ _ _ _ Hn' E2) as (B1 & B2 & B3 & B4).
    split; [eapply ctr_ext_trans; eassumption|]. split; [eapply pol_grow_trans; eassumption|]. split; [cbn; rewrite A3, B3; reflexivity|].
    intros id Hin. cbn [flat_map] in *. apply in_app_iff in Hin. destruct Hin as [Hin|Hin].
    + destruct (A4 id Hin) as [Y|Y]; [left; apply in_app_iff; left; exact Y | right; exact Y].
    + destruct (B4 id Hin) as [Y|Y]; [left; apply in_app_iff; right; exact Y | right; lia].
Qed.

(* ---- one policy, all policies ---- *)
Lemma expand_pol_spec : forall c p c1 p1, 0 <= ptnum c -> expand_pol c p = (c1, p1) ->
  ctr_ext c c1 /\ forall k id, In id (pol_ids k p1) -> In id (pol_ids k p) \/ issued k c < id.
Proof.
  intros c p c1 p1 Hn. unfold expand_pol.
  destruct (expand_igs (ptnum c) (max_ix c) (rp_igs p)) as [mx igs1] eqn:E1.
  set (c0 := set_sg_counters c (max_sg c) (max_sh c) (max_ig c) mx).
  destruct (expand_sgs c0 (pol_set_igs p igs1) (rp_sgs p)) as [[cb pb] sgs1] eqn:E2. intros X. inversion X; subst; clear X.
  destruct (expand_igs_spec _ _ _ _ _ E1) as (A1 & A2 & A3).
  assert (H0 : ctr_ext c c0) by (exists (max_sg c), (max_sh c), (max_ig c), mx; split; [reflexivity | lia]).
  assert (Hn0 : 0 <= ptnum c0) by (cbn; exact Hn).
  destruct (expand_sgs_spec _ _ _ _ _ _ Hn0 E2) as (B1 & (G1 & G2 & G3 & G4) & B3 & B4).
  split; [eapply ctr_ext_trans; eassumption|].
  intros k id Hin. destruct k; cbn [pol_ids issued] in *; unfold sh_ids_of in *; cbn [rp_sgs rp_igs rp_msts pol_set_sgs pol_set_igs] in *.
  - left. rewrite B3 in Hin. exact Hin.
  - destruct (B4 id Hin) as [Y|Y]; [left; exact Y | right; cbn [c0 max_sh set_sg_counters] in Y; exact Y].
  - destruct (G3 id Hin) as [Y|Y]; [left; cbn [rp_igs pol_set_igs] in Y; rewrite A2 in Y; exact Y | right; cbn [c0 max_ig set_sg_counters] in Y; exact Y].
  - destruct (G4 id Hin) as [Y|Y].
    + unfold ix_ids_of in Y. cbn [rp_igs pol_set_igs] in Y. destruct (A3 id Y) as [Z|Z]; [left; exact Z | right; exact Z].
    + right. cbn [c0 max_ix set_sg_counters] in Y. lia.
  - left. rewrite G1 in Hin. exact Hin.
  - contradiction.
Qed.

Lemma expand_pols_spec : forall l c c1 l1, 0 <= ptnum c -> expand_pols c l = (c1, l1) ->
  ctr_ext c c1 /\ forall k id, In id (flat_map (pol_ids k) l1) -> In id (flat_map (pol_ids k) l) \/ issued k c < id.
Proof.
  induction l as [|p r IH]; intros c c1 l1 Hn; cbn [expand_pols].
  - intros X. inversion X; subst. split; [apply ctr_ext_refl|]. intros k id [].
  - destruct (expand_pol c p) as [ca pa] eqn:E1. destruct (expand_pols ca r) as [cb rb] eqn:E2. intros X. inversion X; subst; clear X.
    destruct (expand_pol_spec _ _ _ _ Hn E1) as (A1 & A2).
    destruct (ctr_ext_facts _ _ A1) as (Ep & _).
    assert (Hn' : 0 <= ptnum ca) by (rewrite Ep; exact Hn).
    destruct (IH _ _ _ Hn' E2) as (B1 & B2).
    split; [eapply ctr_ext_trans; eassumption|].
    intros k id Hin. cbn [flat_map] in *. apply in_app_iff in Hin. destruct Hin as [Hin|Hin].
    + destruct (A2 k id Hin) as [Y|Y]; [left; apply in_app_iff; left; exact Y | right; exact Y].
    + destruct (B2 k id Hin) as [Y|Y]; [left; apply in_app_iff; right; exact Y | right].
      pose proof (ctr_ext_issued _ _ k A1). lia.
Qed.

Lemma insert_pol_perm : forall x l, Permutation (insert_pol x l) (x :: l).
Proof.
  induction l; cbn; [apply Permutation_refl|]. destruct (pol_le x a); [apply Permutation_refl|].
  eapply Permutation_trans; [apply perm_skip; exact IHl | apply perm_swap].
Qed.

Lemma sort_pols_perm : forall l, Permutation (sort_pols l) l.
Proof.
  induction l; cbn; [constructor|]. eapply Permutation_trans; [apply insert_pol_perm | apply perm_skip; exact IHl].
Qed.

(* ---- the two facts ---- *)
Lemma expand_ctr_ext : forall c, 0 <= ptnum c -> exists c1 l1, expand_pols c (sort_pols (pols c)) = (c1, l1) /\ expand_groups c = set_pols c1 l1.
Proof.
  intros c Hn. unfold expand_groups. destruct (expand_pols c (sort_pols (pols c))) as [c1 l1]. exists c1, l1. split; reflexivity.
Qed.

Theorem expand_ids_step : forall c k id, 0 <= ptnum c ->
  In id (ids k (expand_groups c)) -> In id (ids k c) \/ issued k c < id.
Proof.
  intros c k id Hn Hin. destruct (expand_ctr_ext c Hn) as (c1 & l1 & E & Eg). rewrite Eg in Hin.
  destruct (expand_pols_spec _ _ _ _ Hn E) as (A & B). destruct (ctr_ext_facts _ _ A) as (_ & En & _).
  destruct k; cbn [ids] in *; unfold sg_ids, sh_ids, ig_ids, ix_ids, mst_ids, node_ids in *; cbn [pols nodes set_pols] in Hin.
  - destruct (B KSg id Hin) as [Y|Y]; [left | right; exact Y].
    eapply Permutation_in; [apply (Permutation_flat_map _ (sort_pols_perm (pols c))) | exact Y].
  - destruct (B KSh id Hin) as [Y|Y]; [left | right; exact Y].
    eapply Permutation_in; [apply (Permutation_flat_map _ (sort_pols_perm (pols c))) | exact Y].
  - destruct (B KIg id Hin) as [Y|Y]; [left | right; exact Y].
    eapply Permutation_in; [apply (Permutation_flat_map _ (sort_pols_perm (pols c))) | exact Y].
  - destruct (B KIx id Hin) as [Y|Y]; [left | right; exact Y].
    eapply Permutation_in; [apply (Permutation_flat_map _ (sort_pols_perm (pols c))) | exact Y].
  - destruct (B KMst id Hin) as [Y|Y]; [left | right; exact Y].
    eapply Permutation_in; [apply (Permutation_flat_map _ (sort_pols_perm (pols c))) | exact Y].
  - left. rewrite En in Hin. exact Hin.
Qed.

Theorem expand_counters_le : forall c, 0 <= ptnum c -> counters_le c (expand_groups c).
Proof.
  intros c Hn. destruct (expand_ctr_ext c Hn) as (c1 & l1 & E & Eg). rewrite Eg.
  destruct (expand_pols_spec _ _ _ _ Hn E) as (A & _). destruct (ctr_ext_facts _ _ A) as (E1 & _ & E3 & E4 & _ & ?).
  unfold counters_le. cbn [max_sg max_sh max_ig max_ix max_mst max_node ptnum set_pols]. lia.
Qed.
