(* C16: today's code (apply_current) violates the statement; witnesses closed by vm_compute. *)
From Coq Require Import ZArith List Bool.
From OG Require Import C16.Model C16.Wf.
Import ListNotations.
Open Scope Z_scope.

(* groups of 1 h; the shard-group duration is altered to 1 d; a group is created for an instant of the same day outside
   every existing group: the new group [00:00, 24:00) overlaps the old hour [10:00, 11:00) *)
Definition overlap_witness : list cmd :=
  [CreateNode 1 1; CreateDb 1 1 0 HOUR; CreateMst 1 1 1; CreateSg 1 1 1700042400000000005 0;
   UpdateRp 1 1 None (Some DAY) false; CreateSg 1 1 1700053200000000000 0].

Definition overlapping (a b : sgroup) : Prop :=
  sg_del a = false /\ sg_del b = false /\ sg_eng a = sg_eng b /\ sg_start a < sg_end b /\ sg_start b < sg_end a.

Theorem C16_overlap_refuted :
  exists cs p a b, In p (pols (run false false (init_cat 1 true) cs)) /\
    In a (rp_sgs p) /\ In b (rp_sgs p) /\ sg_id a <> sg_id b /\ overlapping a b.
Proof.
  exists overlap_witness.
  set (c := run false false (init_cat 1 true) overlap_witness).
  vm_compute in c.
  eexists. eexists. eexists.
  split. { left. reflexivity. }
  split. { left. reflexivity. }
  split. { right. left. reflexivity. }
  split. { vm_compute. discriminate. }
  unfold overlapping. cbn. repeat split; try reflexivity.
Qed.
Print Assumptions C16_overlap_refuted.

(* the default policy is marked, then dropped: the database's default name no longer resolves *)
Definition dangling_witness : list cmd := [CreateNode 1 1; CreateDb 1 1 0 HOUR; MarkRp 1 1; DropRp 1 1].

Theorem C16_default_dangling_refuted :
  exists cs d, let c := run false false (init_cat 1 true) cs in
    In d (dbs c) /\ db_default d <> 0 /\ ~ In (db_name d, db_default d) (pol_keys c).
Proof.
  exists dangling_witness.
  eexists. cbv zeta.
  set (c := run false false (init_cat 1 true) dangling_witness).
  vm_compute in c.
  split. { left. reflexivity. }
  split. { cbn. discriminate. }
  cbn. tauto.
Qed.
Print Assumptions C16_default_dangling_refuted.

(* hence today's step function does not preserve well-formedness: the very theorem proved for the repaired one fails *)
Theorem C16_current_not_wf :
  (exists cs, ~ wf (run false false (init_cat 1 true) cs)) /\
  (exists cs, ~ wf (run true false (init_cat 1 true) cs)) /\
  (exists cs, ~ wf (run false true (init_cat 1 true) cs)).
Proof.
  split; [|split].
  - exists overlap_witness. intro W. apply wf_b_iff in W. vm_compute in W. discriminate.
  - exists dangling_witness. intro W. apply wf_b_iff in W. vm_compute in W. discriminate.
  - exists overlap_witness. intro W. apply wf_b_iff in W. vm_compute in W. discriminate.
Qed.
Print Assumptions C16_current_not_wf.

(* the same sequences are well-formed under the repaired step function *)
Example C16_repaired_on_witnesses :
  wf_b (run true true (init_cat 1 true) overlap_witness) = true /\
  wf_b (run true true (init_cat 1 true) dangling_witness) = true /\
  wf_b (run false false (init_cat 1 true) overlap_witness) = false /\
  wf_b (run false false (init_cat 1 true) dangling_witness) = false.
Proof. vm_compute. repeat split. Qed.

(* a group for an instant at the very beginning of the time domain starts before -2^63 ns; persisting the catalogue as int64
   nanoseconds wraps that start around: after a snapshot/restore the group ends before it starts (no switch repairs this) *)
Definition restore_witness : list cmd :=
  [CreateNode 1 1; CreateDb 1 1 0 (7 * DAY); CreateMst 1 1 1; CreateSg 1 1 MINNANO 0; Restore].

Theorem C16_restore_wraps_refuted :
  forall clip cleardef, wf_b (run clip cleardef (init_cat 1 true) (removelast restore_witness)) = true /\
                        wf_b (run clip cleardef (init_cat 1 true) restore_witness) = false.
Proof. intros [|] [|]; vm_compute; split; reflexivity. Qed.
Print Assumptions C16_restore_wraps_refuted.

(* with group starts clamped to models.MinNanoTime (props/C16/fix2.patch) the same sequence survives the restore *)
Example C16_clamped_restore_ok : forall clip cleardef, wf_b (run clip cleardef (init_cat_v 1 true true) restore_witness) = true.
Proof. intros [|] [|]; vm_compute; reflexivity. Qed.

(* ---- the variants before the repairs of round 4/5 ---- *)
(* CreateMeasurement with a schema list naming a field twice with different types, before /repo f21700b: the measurement is
   registered (MaxMstID moves), then the command fails - a failed command changed the catalogue *)
Definition half_witness : list cmd := [CreateNode 1 1; CreateDb 1 1 0 HOUR].

Theorem C16_half_applied_refuted :
  exists c x, schemafirst c = false /\ snd (apply_current c x) = false /\ max_mst (fst (apply_current c x)) <> max_mst c.
Proof.
  exists (run false false (init_cat 1 true) half_witness), (CreateMstBad 1 1 1).
  vm_compute. repeat split; discriminate.
Qed.
Print Assumptions C16_half_applied_refuted.

Example C16_half_applied_repaired :
  let c := run true true (init_cat_rep 1 true) half_witness in
  apply_repaired c (CreateMstBad 1 1 1) = (c, false).
Proof. vm_compute. reflexivity. Qed.

(* a policy rename before /repo f36a23d: the Name changes, the map key does not; with makeDefault the database's default
   names a policy that cannot be found *)
Definition rename_witness : list cmd := [CreateNode 1 1; CreateDb 1 1 0 HOUR; RenameRp 1 1 2 None None true].

Theorem C16_rename_stale_key_refuted :
  exists cs p d, let c := run false true (init_cat_v 1 true true) cs in
    In p (pols c) /\ rp_nm p <> rp_name p /\ In d (dbs c) /\ db_default d <> 0 /\ ~ In (db_name d, db_default d) (pol_keys c).
Proof.
  exists rename_witness. eexists. eexists. cbv zeta.
  set (c := run false true (init_cat_v 1 true true) rename_witness). vm_compute in c.
  split. { left. reflexivity. }
  split. { cbn. discriminate. }
  split. { left. reflexivity. }
  split. { cbn. discriminate. }
  cbn. intros [E|[]]. discriminate.
Qed.
Print Assumptions C16_rename_stale_key_refuted.

(* a shard group is marked deleted, a write creates a new group for the same span, the deletion is cancelled
   (RevertRetentionPolicyDelete): two live groups with the same span *)
Definition cancel_witness : list cmd :=
  [CreateNode 1 1; CreateDb 1 1 0 HOUR; CreateMst 1 1 1; CreateSg 1 1 1700042400000000005 0; DeleteSg 1 1 1;
   CreateSg 1 1 1700042400000000005 0; CancelDeleteSg 1 1 1].

Theorem C16_cancel_delete_overlap_refuted :
  exists cs p a b, In p (pols (run true true (init_cat_o 1 true true true true false) cs)) /\
    In a (rp_sgs p) /\ In b (rp_sgs p) /\ sg_id a <> sg_id b /\ sg_dur a = sg_dur b /\ overlapping a b.
Proof.
  exists cancel_witness.
  set (c := run true true (init_cat_o 1 true true true true false) cancel_witness).
  vm_compute in c.
  eexists. eexists. eexists.
  split. { left. reflexivity. }
  split. { left. reflexivity. }
  split. { right. left. reflexivity. }
  split. { vm_compute. discriminate. }
  split. { reflexivity. }
  unfold overlapping. cbn. repeat split; try reflexivity.
Qed.
Print Assumptions C16_cancel_delete_overlap_refuted.

(* the three sequences under the repaired step function *)
Example C16_round5_repaired_on_witnesses :
  wf_b (run true true (init_cat_rep 1 true) rename_witness) = true /\
  wf_b (run true true (init_cat_rep 1 true) cancel_witness) = true /\
  wf_b (run false true (init_cat_v 1 true true) rename_witness) = false /\
  wf_b (run true true (init_cat_o 1 true true true true false) cancel_witness) = false.
Proof. vm_compute. repeat split. Qed.

(* ---- the guard of a cancelled deletion must be an INTERVAL-overlap test ----
   A guard that only asks whether a live group of the same engine kind serves the START of the group being revived is equivalent
   while all groups are cells of one grid; after the shard-group duration was shortened a live group can lie inside the deleted
   group's span without containing its start. *)
Definition serves_start (l : list sgroup) (g : sgroup) : bool := existsb (fun x => covers x (sg_start g) (sg_eng g)) l.
Definition cancel_delete_start_only (c : cat) (db rp id : Z) : cat * bool :=
  match get_pol c db rp with
  | None => err c
  | Some p =>
      match find (fun g => sg_id g =? id) (rp_sgs p) with
      | None => ok c
      | Some g =>
          if negb (sg_del g) then ok c else
          if serves_start (rp_sgs p) g then ok c else
          ok (upd_pol c db (rp_name p) (fun q => pol_set_sgs q (upd_first (fun g => sg_id g =? id) sg_set_live (rp_sgs q))))
      end
  end.

(* [10:00,12:00) created under 2h groups and marked deleted; the duration becomes 1h; a group is created for 11:30: [11:00,12:00) *)
Definition shorter_witness : list cmd :=
  [CreateNode 1 1; CreateDb 1 1 0 (2 * HOUR); CreateMst 1 1 1; CreateSg 1 1 1700042400000000005 0; DeleteSg 1 1 1;
   UpdateRp 1 1 None (Some HOUR) false; CreateSg 1 1 1700047800000000000 0].

Theorem C16_cancel_start_only_refuted :
  exists cs p a b, let c := fst (cancel_delete_start_only (run true true (init_cat_rep 1 true) cs) 1 1 1) in
    In p (pols c) /\ In a (rp_sgs p) /\ In b (rp_sgs p) /\ sg_id a <> sg_id b /\ overlapping a b.
Proof.
  exists shorter_witness. cbv zeta.
  set (c := fst (cancel_delete_start_only (run true true (init_cat_rep 1 true) shorter_witness) 1 1 1)).
  vm_compute in c.
  eexists. eexists. eexists.
  split. { left. reflexivity. }
  split. { left. reflexivity. }
  split. { right. left. reflexivity. }
  split. { vm_compute. discriminate. }
  unfold overlapping. cbn. repeat split; try reflexivity.
Qed.
Print Assumptions C16_cancel_start_only_refuted.

(* the interval-overlap guard of the code refuses on the same state: the catalogue stays as it is, well-formed *)
Example C16_cancel_overlap_guard_refuses :
  let c := run true true (init_cat_rep 1 true) shorter_witness in
  apply_repaired c (CancelDeleteSg 1 1 1) = (c, true) /\ wf_b c = true /\
  wf_b (fst (cancel_delete_start_only c 1 1 1)) = false.
Proof. vm_compute. repeat split. Qed.
