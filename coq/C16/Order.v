(* C15 on the C16 command model: map iteration order made explicit.
   The two modelled commands whose implementation ranges over a Go map and keeps what it reaches first -
   Data.CreateShardGroup (`for _, mst := range rpi.Measurements { msti = mst; break }`) and
   RetentionPolicyInfo.validMeasurementShardType inside Data.CreateMeasurement (any OTHER measurement of the policy) -
   take an ORACLE that returns an element of the collection, standing for whatever order the runtime chooses. What the
   code does with the picked measurement is its sharding type: HASH (0) leads to the modelled creation, another type to
   the RANGE branch, which is not modelled and is kept abstract (a function of the state, the policy and the instant,
   not of the pick). Under uniform sharding (all measurements of a policy have one type, the invariant that
   validMeasurementShardType itself maintains) the outcome, result value included, does not depend on the oracle; a
   snapshot/restore inserted anywhere is invisible (ProofsRun.restore_transparent). Every other modelled command has no
   map range whose order matters (the model implements them with order-free list functions): 18 of the 20. *)
From Coq Require Import ZArith List Bool Lia.
From OG Require Import C16.Model C16.Wf C16.Lists C16.Proofs C16.ProofsRun.
Import ListNotations.
Open Scope Z_scope.

Section Order.
  (* the sharding type of a measurement (fixed when it is created; 0 = HASH) *)
  Variable shard_type : mst -> Z.
  (* the unmodelled RANGE-sharding branch of CreateShardGroup *)
  Variable range_create : cat -> policy -> Z -> Z -> cat * bool.
  Variables clip cleardef : bool.

  (* an oracle returns some element of a non-empty collection *)
  Definition oracle := list mst -> option mst.
  Definition valid (o : oracle) : Prop :=
    forall l, match o l with Some m => In m l | None => l = [] end.

  Definition create_sgO (o : oracle) (c : cat) (db rp t eng : Z) : cat * bool :=
    if ptnum c =? 0 then err c else
    match get_pol c db rp with
    | None => err c
    | Some p =>
        if existsb (fun g => covers g t eng) (rp_sgs p) then ok c else
        match o (rp_msts p) with
        | None => err c                                           (* no measurement in the policy *)
        | Some m => if shard_type m =? 0 then create_sg clip c db rp t eng else range_create c p t eng
        end
    end.

  (* the measurement CreateMeasurement would add *)
  Definition next_mst (c : cat) (p : policy) (m : Z) : option mst :=
    let mk v := Some {| ms_name := m; ms_ver := v; ms_id := max_mst c; ms_mark := false |} in
    match assoc m (rp_vers p) with
    | None => mk 0
    | Some v => match find_mst p m v with
                | None => mk (Z.land (v + 1) 65535)
                | Some x => if ms_mark x then mk (Z.land (v + 1) 65535) else None
                end
    end.

  Definition create_mstO (o : oracle) (c : cat) (db rp m : Z) : cat * bool :=
    match get_pol c db rp with
    | None => err c
    | Some p =>
        match next_mst c p m with
        | None => create_mst c db rp m
        | Some nm =>
            (* validMeasurementShardType: any other measurement of the policy must have the new one's type *)
            match o (filter (fun x => negb (ms_name x =? m)) (rp_msts p)) with
            | Some other => if shard_type other =? shard_type nm then create_mst c db rp m else err c
            | None => create_mst c db rp m
            end
        end
    end.

  Definition applyO (o : oracle) (c : cat) (x : cmd) : cat * bool :=
    match x with
    | CreateSg db rp t eng => create_sgO o c db rp t eng
    | CreateMst db rp m => create_mstO o c db rp m
    | _ => apply clip cleardef c x
    end.

  Definition uniform_sharding (c : cat) : Prop :=
    forall p m1 m2, In p (pols c) -> In m1 (rp_msts p) -> In m2 (rp_msts p) -> shard_type m1 = shard_type m2.

  Lemma apply_order_independent_lemma : forall c x o1 o2, valid o1 -> valid o2 -> uniform_sharding c ->
    applyO o1 c x = applyO o2 c x.
  Proof.
    intros c x o1 o2 V1 V2 U. destruct x; try reflexivity; cbn [applyO].
    - (* CreateMst *)
      unfold create_mstO. destruct (get_pol c db rp) as [p|] eqn:Eg; [|reflexivity].
      destruct (get_pol_spec _ _ _ _ Eg) as (_ & Hp & _).
      destruct (next_mst c p m) as [nm|]; [|reflexivity].
      set (l := filter (fun x => negb (ms_name x =? m)) (rp_msts p)).
      pose proof (V1 l) as A1. pose proof (V2 l) as A2.
      destruct (o1 l) as [a|] eqn:E1, (o2 l) as [b|] eqn:E2.
      + assert (shard_type a = shard_type b).
        { apply (U p); [exact Hp | |]; [apply filter_In in A1 | apply filter_In in A2]; tauto. }
        rewrite H. reflexivity.
      + subst l. rewrite A2 in A1. contradiction.
      + rewrite A1 in A2. contradiction.
      + reflexivity.
    - (* CreateSg *)
      unfold create_sgO. destruct (ptnum c =? 0); [reflexivity|].
      destruct (get_pol c db rp) as [p|] eqn:Eg; [|reflexivity].
      destruct (get_pol_spec _ _ _ _ Eg) as (_ & Hp & _).
      destruct (existsb _ (rp_sgs p)); [reflexivity|].
      pose proof (V1 (rp_msts p)) as A1. pose proof (V2 (rp_msts p)) as A2.
      destruct (o1 (rp_msts p)) as [a|] eqn:E1, (o2 (rp_msts p)) as [b|] eqn:E2.
      + rewrite (U p a b Hp A1 A2). reflexivity.
      + rewrite A2 in A1. contradiction.
      + rewrite A1 in A2. contradiction.
      + reflexivity.
  Qed.

  (* with the HASH-only catalogue of the C16 model the oracle step is the C16 step *)
  Lemma applyO_hash : forall o c x, valid o -> (forall m, shard_type m = 0) -> applyO o c x = apply clip cleardef c x.
  Proof.
    intros o c x V Hh. destruct x; try reflexivity; cbn [applyO apply].
    - unfold create_mstO. destruct (get_pol c db rp) as [p|] eqn:Eg; [|unfold create_mst; rewrite Eg; reflexivity].
      destruct (next_mst c p m); [|reflexivity].
      destruct (o _); [rewrite !Hh; reflexivity | reflexivity].
    - unfold create_sgO, create_sg. destruct (ptnum c =? 0) eqn:Ept; [reflexivity|].
      destruct (get_pol c db rp) as [p|] eqn:Eg; [|reflexivity].
      destruct (existsb _ (rp_sgs p)) eqn:Ex; [reflexivity|].
      pose proof (V (rp_msts p)) as A. destruct (o (rp_msts p)) as [a|].
      + rewrite Hh. reflexivity.
      + rewrite A. reflexivity.
  Qed.

  (* runs: one oracle per step (and per replica); results are collected *)
  Fixpoint runO (os : list oracle) (c : cat) (xs : list cmd) : cat * list bool :=
    match xs, os with
    | x :: r, o :: os' => let '(c1, b) := applyO o c x in let '(c2, bs) := runO os' c1 r in (c2, b :: bs)
    | _, _ => (c, [])
    end.

  (* uniform sharding holds in every state the first replica goes through *)
  Fixpoint uniform_along (os : list oracle) (c : cat) (xs : list cmd) : Prop :=
    match xs, os with
    | x :: r, o :: os' => uniform_sharding c /\ uniform_along os' (fst (applyO o c x)) r
    | _, _ => True
    end.

  Lemma convergence_lemma : forall xs os1 os2 c, length os1 = length xs -> length os2 = length xs ->
    Forall valid os1 -> Forall valid os2 -> uniform_along os1 c xs -> runO os1 c xs = runO os2 c xs.
  Proof.
    induction xs as [|x r IH]; intros os1 os2 c L1 L2 V1 V2 U; destruct os1 as [|o1 t1], os2 as [|o2 t2]; try discriminate; [reflexivity|].
    cbn [runO]. cbn [uniform_along] in U. destruct U as [U0 U1].
    inversion V1; subst. inversion V2; subst.
    rewrite (apply_order_independent_lemma c x o1 o2) in * by assumption.
    destruct (applyO o2 c x) as [c1 b] eqn:E. cbn [fst] in U1.
    cbn in L1, L2. rewrite (IH t1 t2 c1) by (assumption || lia). reflexivity.
  Qed.

  (* NOTE: uniform sharding is NOT an invariant of today's code. validMeasurementShardType compares the new measurement only
     with measurements of OTHER names, so a measurement that is marked deleted and re-created under the same name may come
     back with another sharding type while its old version is still in the policy; CreateShardGroup then picks between the
     two in map order. (Tried as a lemma; the case "no other name in the policy" is the counterexample. See
     props/C15/NOTES.md.) The convergence theorem therefore carries uniform_along as a hypothesis. *)
End Order.
