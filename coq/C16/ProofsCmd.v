(* C16: well-formedness is preserved by every command except shard-group creation (ProofsSg.v). *)
From Coq Require Import ZArith List Bool Lia ZifyBool Sorting.Sorted Sorting.Permutation.
From OG Require Import C16.Model C16.Wf C16.Lists C16.Proofs.
Import ListNotations.
Open Scope Z_scope.

Lemma uniq_le_subl : forall l1 l2 m, subl l1 l2 -> uniq_le l2 m -> uniq_le l1 m.
Proof. intros l1 l2 m S [H1 H2]. split; [eapply subl_NoDup | eapply subl_Forall]; eassumption. Qed.
Lemma uniq_lt_subl : forall l1 l2 m, subl l1 l2 -> uniq_lt l2 m -> uniq_lt l1 m.
Proof. intros l1 l2 m S [H1 H2]. split; [eapply subl_NoDup | eapply subl_Forall]; eassumption. Qed.

Lemma uniq_le_perm : forall l1 l2 m, Permutation l1 l2 -> uniq_le l2 m -> uniq_le l1 m.
Proof.
  intros l1 l2 m HP [H1 H2]. split.
  - eapply Permutation_NoDup; [apply Permutation_sym; exact HP | assumption].
  - eapply Permutation_Forall; [apply Permutation_sym; exact HP | assumption].
Qed.

(* fresh ids above the counter *)
Lemma uniq_le_extend : forall extra l m m', uniq_le l m -> NoDup extra -> Forall (fun x => m < x <= m') extra -> m <= m' -> 0 <= m ->
  uniq_le (extra ++ l) m'.
Proof.
  intros extra l m m' [H1 H2] HN HF Hm H0. split.
  - apply (NoDup_app_bound extra l m); try assumption.
    + eapply Forall_impl; [|exact HF]. cbn. intros. lia.
    + eapply Forall_impl; [|exact H2]. cbn. intros. lia.
  - apply Forall_app. split.
    + eapply Forall_impl; [|exact HF]. cbn. intros. lia.
    + eapply Forall_impl; [|exact H2]. cbn. intros. lia.
Qed.

Lemma uniq_le_weaken : forall l m m', uniq_le l m -> m <= m' -> uniq_le l m'.
Proof. intros l m m' [H1 H2] Hm. split; [assumption|]. eapply Forall_impl; [|exact H2]. cbn. intros. lia. Qed.

Ltac same H :=
  first [ exact (wf_groups _ H) | exact (wf_sg _ H) | exact (wf_sh _ H) | exact (wf_ig _ H) | exact (wf_ix _ H)
        | exact (wf_mst _ H) | exact (wf_node _ H) | exact (wf_dbn _ H) | exact (wf_poln _ H) | exact (wf_poldb _ H)
        | exact (wf_refs _ H) | exact (wf_def _ H) | exact (wf_ptv _ H) | exact (wf_nonneg _ H) | exact (wf_dur _ H)
        | exact (wf_nm _ H) ].

Lemma nonneg_get : forall c, wf c ->
  0 <= max_sg c /\ 0 <= max_sh c /\ 0 <= max_ig c /\ 0 <= max_ix c /\ 0 <= max_mst c /\ 0 <= max_node c /\ 0 <= ptnum c.
Proof.
  intros c H. pose proof (wf_nonneg _ H) as N. repeat (apply Forall_cons_iff in N; destruct N as [? N]). tauto.
Qed.

(* ---------------------------------------------------------------- nodes and the partition view *)
Lemma wf_update_pt : forall c db pt co cs o s, wf c -> wf (fst (update_pt c db pt co cs o s)).
Proof.
  intros c db pt co cs o s H. unfold update_pt.
  destruct (find _ (ptview c)) as [e|] eqn:Ef; [|exact H].
  destruct ((pt <? 0) || _); [exact H|].
  destruct (nth_error _ _); [|exact H].
  destruct (negb _); [exact H|].
  destruct (_ && _); [exact H|].
  cbn [fst ok]. constructor; try (same H).
  cbn [ptview set_ptview ptnum].
  apply updf_Forall; [|exact (wf_ptv _ H)].
  intros x _ Hx. cbn [fst snd]. rewrite <- Hx. f_equal.
  clear. generalize (Z.to_nat pt). induction (snd x); intros [|n]; cbn; auto.
Qed.

Lemma wf_create_ptview : forall c db, wf c -> wf (fst (create_ptview c db)).
Proof.
  intros c db H. unfold create_ptview.
  destruct (existsb _ _); [exact H|].
  destruct (nodes c) as [|n0 r] eqn:En; [exact H|].
  destruct (ptnum c =? 0) eqn:E0; [exact H|].
  cbn [fst ok]. constructor; try (same H).
  cbn [ptview set_ptview ptnum]. apply Forall_app. split; [exact (wf_ptv _ H)|].
  constructor; [|constructor]. cbn [snd]. rewrite map_length, length_zseq. pose proof (nonneg_get _ H). lia.
Qed.

Lemma wf_create_node : forall c h t, wf c -> wf (fst (create_node c h t)).
Proof.
  intros c h t H. unfold create_node.
  destruct (existsb (fun n => nd_http n =? h) (nodes c)).
  { cbn [fst ok]. constructor; try (same H).
    unfold node_ids. cbn [nodes set_nodes max_node]. rewrite updf_map_same; [exact (wf_node _ H) | reflexivity]. }
  destruct (existsb (fun n => nd_tcp n =? t) (nodes c)).
  { cbn [fst ok]. constructor; try (same H).
    unfold node_ids. cbn [nodes set_nodes max_node]. rewrite updf_map_same; [exact (wf_node _ H) | reflexivity]. }
  cbn [fst ok].
  set (l := nodes c ++ _). set (want := ptper c * Z.of_nat (length l)).
  set (pn := if ptnum c <? want then want else ptnum c).
  assert (Hpn : ptnum c <= pn) by (unfold pn; destruct (ptnum c <? want) eqn:E; lia).
  pose proof (nonneg_get _ H) as NN.
  constructor; try (same H).
  - (* node ids *)
    unfold node_ids. cbn [nodes set_nodes max_node]. unfold l. rewrite map_app. cbn [map nd_id].
    apply (uniq_le_perm _ ([max_node c + 1] ++ map nd_id (nodes c))); [apply Permutation_app_comm|].
    apply (uniq_le_extend _ _ (max_node c)); [exact (wf_node _ H) | constructor; [cbn; tauto | constructor] | constructor; [lia | constructor] | lia | lia].
  - (* references: the partition count only grows *)
    cbn [pols set_nodes]. eapply Forall_impl; [|exact (wf_refs _ H)]. intros p Hp.
    eapply refs_ok_mono; [| |exact Hpn|exact Hp]; [|auto].
    intros g' Hg'. exists g'. split; [assumption | apply sg_sim_refl].
  - (* partition views are extended to the new count *)
    cbn [ptview set_nodes ptnum]. rewrite Forall_map. eapply Forall_impl; [|exact (wf_ptv _ H)].
    intros e He. cbn [snd ptnum set_nodes]. rewrite app_length, repeat_length. cbv beta in He. clearbody pn. lia.
  - cbn [max_sg max_sh max_ig max_ix max_mst max_node ptnum set_nodes]. repeat constructor; lia.
Qed.

(* ---------------------------------------------------------------- generic: one database entry changes *)
Lemma wf_upd_db_gen : forall c db g, wf c -> (forall x, db_name (g x) = db_name x) ->
  (forall x, db_name x = db -> default_ok c x -> default_ok c (g x)) -> wf (upd_db c db g).
Proof.
  intros c db g H Hn Hd. unfold upd_db. constructor; try (same H).
  - cbn [dbs set_dbs]. rewrite updf_map_same; [exact (wf_dbn _ H) | intros; apply Hn].
  - cbn [dbs set_dbs pols]. rewrite updf_map_same; [exact (wf_poldb _ H) | intros; apply Hn].
  - cbn [dbs set_dbs]. apply updf_Forall; [|exact (wf_def _ H)].
    intros x Px Qx. apply Hd; [lia | exact Qx].
Qed.

Lemma refs_ok_same : forall c c' p, ptnum c = ptnum c' -> refs_ok c p -> refs_ok c' p.
Proof.
  intros c c' p E HR. eapply refs_ok_mono; [| |rewrite E; apply Z.le_refl|exact HR]; [|auto].
  intros g' Hg'. exists g'. split; [assumption | apply sg_sim_refl].
Qed.

(* ---------------------------------------------------------------- generic: one policy changes, its groups do not *)
Lemma updf_map_NoDup : forall {A B} (P : A -> bool) (g : A -> A) (h : A -> B) l, NoDup (map h l) ->
  (forall y, In y l -> P y = true -> h (g y) = h y \/ ~ In (h (g y)) (map h l)) -> NoDup (map h (upd_first P g l)).
Proof.
  intros A B P g h. induction l as [|a l IH]; cbn [upd_first map]; intros HN Hg; [constructor|].
  inversion HN; subst. destruct (P a) eqn:E; cbn [map].
  - constructor; [|assumption]. destruct (Hg a (or_introl eq_refl) E) as [Eq|Nin]; [rewrite Eq; assumption|].
    intro Hin. apply Nin. cbn. right. exact Hin.
  - constructor.
    + intro Hin. apply in_map_iff in Hin. destruct Hin as [y [Ey Hy]]. apply updf_In in Hy.
      destruct Hy as [Hy|[z [Hz [Pz ->]]]].
      * apply H1. rewrite <- Ey. apply in_map. exact Hy.
      * destruct (Hg z (or_intror Hz) Pz) as [Eq|Nin].
        -- apply H1. rewrite <- Ey, Eq. apply in_map. exact Hz.
        -- apply Nin. rewrite Ey. cbn. left. reflexivity.
    + apply IH; [assumption|]. intros y Hy Py. destruct (Hg y (or_intror Hy) Py) as [Eq|Nin]; [left; exact Eq|right].
      intro Hin. apply Nin. cbn. right. exact Hin.
Qed.

Lemma updf_map_In_other : forall {A B} (P : A -> bool) (g : A -> A) (h : A -> B) l k, In k (map h l) ->
  (forall y, P y = true -> h y <> k) -> In k (map h (upd_first P g l)).
Proof.
  intros A B P g h. induction l as [|a l IH]; cbn [upd_first map]; intros k Hin Hk; [contradiction|].
  destruct (P a) eqn:E; cbn [map].
  - destruct Hin as [Ha|Hin]; [exfalso; exact (Hk a E Ha) | right; exact Hin].
  - destruct Hin as [Ha|Hin]; [left; exact Ha | right; apply IH; assumption].
Qed.

(* the policy may change its key and the databases their default names, as long as keys stay unique and defaults resolve *)
Lemma wf_pols_meta_gen2 : forall c c' P g, wf c ->
  pols c' = upd_first P g (pols c) ->
  (forall q, rp_db (g q) = rp_db q /\ rp_sgs (g q) = rp_sgs q /\ rp_igs (g q) = rp_igs q) ->
  (forall q, 0 < rp_sgdur q -> 0 < rp_sgdur (g q)) ->
  (forall q, rp_nm q = rp_name q -> rp_nm (g q) = rp_name (g q)) ->
  NoDup (pol_keys c') -> map db_name (dbs c') = map db_name (dbs c) -> Forall (default_ok c') (dbs c') ->
  nodes c' = nodes c -> ptview c' = ptview c -> ptnum c' = ptnum c ->
  (max_sg c' = max_sg c /\ max_sh c' = max_sh c /\ max_ig c' = max_ig c /\ max_ix c' = max_ix c /\ max_node c' = max_node c) ->
  uniq_lt (mst_ids c') (max_mst c') -> 0 <= max_mst c' ->
  wf c'.
Proof.
  intros c c' P g H Ep Hg Hdur Hnm Hkeys Ed Hdef End Epv Epn (E1 & E2 & E3 & E4 & E6) Hm Hm0.
  constructor.
  - rewrite Ep. apply updf_Forall; [|exact (wf_groups _ H)]. intros x _ Q. destruct (Hg x) as (_ & -> & _). exact Q.
  - unfold sg_ids. rewrite Ep, E1. rewrite updf_flat_map_same; [exact (wf_sg _ H)|].
    intros x _. destruct (Hg x) as (_ & -> & _). reflexivity.
  - unfold sh_ids, sh_ids_of. rewrite Ep, E2. rewrite updf_flat_map_same; [exact (wf_sh _ H)|].
    intros x _. destruct (Hg x) as (_ & -> & _). reflexivity.
  - unfold ig_ids. rewrite Ep, E3. rewrite updf_flat_map_same; [exact (wf_ig _ H)|].
    intros x _. destruct (Hg x) as (_ & _ & ->). reflexivity.
  - unfold ix_ids, ix_ids_of. rewrite Ep, E4. rewrite updf_flat_map_same; [exact (wf_ix _ H)|].
    intros x _. destruct (Hg x) as (_ & _ & ->). reflexivity.
  - exact Hm.
  - unfold node_ids. rewrite End, E6. exact (wf_node _ H).
  - rewrite Ed. exact (wf_dbn _ H).
  - exact Hkeys.
  - rewrite Ep, Ed. apply updf_Forall; [|exact (wf_poldb _ H)]. intros x _ Q. destruct (Hg x) as (-> & _). exact Q.
  - rewrite Ep. apply updf_Forall.
    + intros x _ Q. destruct (Hg x) as (_ & E1' & E2').
      eapply refs_ok_mono; [| |apply Z.le_refl|exact Q].
      * intros g' Hg'. rewrite E1' in Hg'. exists g'. split; [assumption | apply sg_sim_refl].
      * unfold ix_ids_of. rewrite E2'. auto.
    + eapply Forall_impl; [|exact (wf_refs _ H)]. intros p. apply refs_ok_same. symmetry. exact Epn.
  - exact Hdef.
  - rewrite Epv, Epn. exact (wf_ptv _ H).
  - pose proof (nonneg_get _ H). rewrite E1, E2, E3, E4, E6, Epn. repeat (constructor; [lia|]). constructor.
  - rewrite Ep. apply updf_Forall; [|exact (wf_dur _ H)]. intros x _ Q. apply Hdur. exact Q.
  - rewrite Ep. apply updf_Forall; [|exact (wf_nm _ H)]. intros x _ Q. apply Hnm. exact Q.
Qed.

Lemma wf_pols_meta_gen : forall c c' P g, wf c ->
  pols c' = upd_first P g (pols c) ->
  (forall q, rp_db (g q) = rp_db q /\ rp_name (g q) = rp_name q /\ rp_nm (g q) = rp_nm q /\ rp_sgs (g q) = rp_sgs q /\ rp_igs (g q) = rp_igs q) ->
  (forall q, 0 < rp_sgdur q -> 0 < rp_sgdur (g q)) ->
  dbs c' = dbs c -> nodes c' = nodes c -> ptview c' = ptview c -> ptnum c' = ptnum c ->
  (max_sg c' = max_sg c /\ max_sh c' = max_sh c /\ max_ig c' = max_ig c /\ max_ix c' = max_ix c /\ max_node c' = max_node c) ->
  uniq_lt (mst_ids c') (max_mst c') -> 0 <= max_mst c' ->
  wf c'.
Proof.
  intros c c' P g H Ep Hg Hdur Ed End Epv Epn Ec Hm Hm0.
  assert (Ek : pol_keys c' = pol_keys c).
  { unfold pol_keys. rewrite Ep. apply updf_map_same. intros x _. destruct (Hg x) as (-> & -> & _). reflexivity. }
  eapply (wf_pols_meta_gen2 c c' P g); try eassumption.
  - intros q. destruct (Hg q) as (? & ? & ? & ? & ?). tauto.
  - intros q Q. destruct (Hg q) as (_ & -> & -> & _). exact Q.
  - rewrite Ek. exact (wf_poln _ H).
  - rewrite Ed. reflexivity.
  - rewrite Ed. eapply Forall_impl; [|exact (wf_def _ H)]. intros d. unfold default_ok. rewrite Ek. auto.
Qed.

Lemma wf_upd_pol_meta : forall c db n g, wf c ->
  (forall q, rp_db (g q) = rp_db q /\ rp_name (g q) = rp_name q /\ rp_nm (g q) = rp_nm q /\ rp_sgs (g q) = rp_sgs q /\ rp_igs (g q) = rp_igs q /\
             subl (map ms_id (rp_msts (g q))) (map ms_id (rp_msts q))) ->
  (forall q, 0 < rp_sgdur q -> 0 < rp_sgdur (g q)) ->
  wf (upd_pol c db n g).
Proof.
  intros c db n g H Hg Hdur. unfold upd_pol.
  eapply (wf_pols_meta_gen c _ (is_pol db n) g); try reflexivity; [exact H | | exact Hdur | cbn; tauto | | ].
  - intros q. destruct (Hg q) as (? & ? & ? & ? & ? & _). tauto.
  - unfold mst_ids. cbn [pols set_pols max_mst]. eapply uniq_lt_subl; [|exact (wf_mst _ H)].
    apply upd_first_flat_map_subl. intros x _. destruct (Hg x) as (_ & _ & _ & _ & _ & S). exact S.
  - cbn [max_mst set_pols]. pose proof (nonneg_get _ H). lia.
Qed.

Lemma pol_keys_upd_pol : forall c db n g, (forall q, rp_db (g q) = rp_db q /\ rp_name (g q) = rp_name q) ->
  pol_keys (upd_pol c db n g) = pol_keys c.
Proof.
  intros. unfold pol_keys, upd_pol. cbn [pols set_pols]. apply updf_map_same. intros x _. destruct (H x) as (-> & ->). reflexivity.
Qed.

Lemma wf_set_default : forall c db n, wf c -> n = 0 \/ In (db, n) (pol_keys c) -> wf (set_default c db n).
Proof.
  intros c db n H Hn. unfold set_default. apply wf_upd_db_gen; [assumption | reflexivity|].
  intros x Ex _. unfold default_ok. cbn [db_default db_name]. rewrite Ex. assumption.
Qed.

(* ---------------------------------------------------------------- databases *)
Lemma wf_mark_db : forall c db, wf c -> wf (fst (mark_db c db)).
Proof.
  intros c db H. unfold mark_db. destruct (find_db c db) as [x|]; [|exact H]. destruct (db_mark x); [exact H|].
  cbn [fst ok]. apply wf_upd_db_gen; [assumption | reflexivity|]. intros y _ Q. exact Q.
Qed.

Lemma wf_drop_db : forall c db, wf c -> wf (fst (drop_db c db)).
Proof.
  intros c db H. unfold drop_db. destruct (find_db c db) as [x0|]; [|exact H]. clear x0. cbn [fst ok].
  set (fp := fun p => negb (rp_db p =? db)).
  constructor; cbn [pols dbs ptview ptnum set_ptview set_pols set_dbs max_sg max_sh max_ig max_ix max_mst max_node].
  - eapply subl_Forall; [apply subl_filter | exact (wf_groups _ H)].
  - eapply uniq_le_subl; [|exact (wf_sg _ H)]. apply subl_flat_map, subl_filter.
  - eapply uniq_le_subl; [|exact (wf_sh _ H)]. apply subl_flat_map, subl_filter.
  - eapply uniq_le_subl; [|exact (wf_ig _ H)]. apply subl_flat_map, subl_filter.
  - eapply uniq_le_subl; [|exact (wf_ix _ H)]. apply subl_flat_map, subl_filter.
  - eapply uniq_lt_subl; [|exact (wf_mst _ H)]. apply subl_flat_map, subl_filter.
  - exact (wf_node _ H).
  - eapply subl_NoDup; [|exact (wf_dbn _ H)]. apply subl_map, subl_filter.
  - eapply subl_NoDup; [|exact (wf_poln _ H)]. apply subl_map, subl_filter.
  - apply Forall_forall. intros p Hp. apply filter_In in Hp. destruct Hp as [Hp Hf].
    pose proof (wf_poldb _ H) as PD. rewrite Forall_forall in PD. specialize (PD p Hp).
    apply in_map_iff in PD. destruct PD as [d [Ed Hd]]. apply in_map_iff. exists d. split; [assumption|].
    apply filter_In. split; [assumption|]. unfold fp in Hf. lia.
  - apply Forall_forall. intros p Hp. apply filter_In in Hp. destruct Hp as [Hp _].
    pose proof (wf_refs _ H) as R. rewrite Forall_forall in R. eapply refs_ok_same; [|apply R; assumption]. reflexivity.
  - apply Forall_forall. intros d Hd. apply filter_In in Hd. destruct Hd as [Hd Hf].
    pose proof (wf_def _ H) as D. rewrite Forall_forall in D. destruct (D d Hd) as [E|Hin]; [left; assumption|right].
    unfold pol_keys in *. cbn [pols set_ptview set_pols]. apply in_map_iff in Hin. destruct Hin as [p [Ep Hp]].
    apply in_map_iff. exists p. split; [assumption|]. apply filter_In. split; [assumption|]. inversion Ep. cbv beta in Hf. unfold fp. lia.
  - eapply subl_Forall; [apply subl_filter | exact (wf_ptv _ H)].
  - exact (wf_nonneg _ H).
  - eapply subl_Forall; [apply subl_filter | exact (wf_dur _ H)].
  - eapply subl_Forall; [apply subl_filter | exact (wf_nm _ H)].
Qed.

(* ---------------------------------------------------------------- a policy without groups is added *)
Lemma flat_map_snoc_nil : forall {A B} (f : A -> list B) l x, f x = [] -> flat_map f (l ++ [x]) = flat_map f l.
Proof. intros. rewrite flat_map_app. cbn. rewrite H. rewrite !app_nil_r. reflexivity. Qed.

Lemma groups_ok_nil : groups_ok [].
Proof. repeat split; constructor. Qed.

Lemma refs_ok_new : forall c db n d sgd igd, refs_ok c (new_policy db n d sgd igd).
Proof. intros c db n d sgd igd g s Hg. cbn in Hg. contradiction. Qed.

Lemma wf_add_pol : forall c c' db n d sgd igd, wf c ->
  pols c' = pols c ++ [new_policy db n d sgd igd] ->
  (exists extra, dbs c' = dbs c ++ extra /\ NoDup (map db_name (dbs c')) /\ Forall (default_ok c') extra) ->
  In db (map db_name (dbs c')) -> ~ In (db, n) (pol_keys c) -> 0 < sgd ->
  ptnum c' = ptnum c -> ptview c' = ptview c -> nodes c' = nodes c ->
  (max_sg c' = max_sg c /\ max_sh c' = max_sh c /\ max_ig c' = max_ig c /\ max_ix c' = max_ix c /\ max_mst c' = max_mst c /\ max_node c' = max_node c) ->
  wf c'.
Proof.
  intros c c' db n d sgd igd H Ep (extra & Ed & Hnd & Hdef) Hdb Hkey Hsgd Epn Epv End (E1 & E2 & E3 & E4 & E5 & E6).
  assert (Ek : pol_keys c' = pol_keys c ++ [(db, n)]).
  { unfold pol_keys. rewrite Ep, map_app. reflexivity. }
  constructor.
  - rewrite Ep. apply Forall_app. split; [exact (wf_groups _ H)|]. constructor; [apply groups_ok_nil | constructor].
  - unfold sg_ids. rewrite Ep, E1, flat_map_snoc_nil by reflexivity. exact (wf_sg _ H).
  - unfold sh_ids. rewrite Ep, E2, flat_map_snoc_nil by reflexivity. exact (wf_sh _ H).
  - unfold ig_ids. rewrite Ep, E3, flat_map_snoc_nil by reflexivity. exact (wf_ig _ H).
  - unfold ix_ids. rewrite Ep, E4, flat_map_snoc_nil by reflexivity. exact (wf_ix _ H).
  - unfold mst_ids. rewrite Ep, E5, flat_map_snoc_nil by reflexivity. exact (wf_mst _ H).
  - unfold node_ids. rewrite End, E6. exact (wf_node _ H).
  - exact Hnd.
  - rewrite Ek. apply NoDup_snoc; [exact (wf_poln _ H) | exact Hkey].
  - rewrite Ep. apply Forall_app. split.
    + eapply Forall_impl; [|exact (wf_poldb _ H)]. intros p Hp. cbv beta in Hp. rewrite Ed, map_app, in_app_iff. left. exact Hp.
    + constructor; [exact Hdb | constructor].
  - rewrite Ep. apply Forall_app. split.
    + eapply Forall_impl; [|exact (wf_refs _ H)]. intros p. apply refs_ok_same. symmetry. exact Epn.
    + constructor; [apply refs_ok_new | constructor].
  - rewrite Ed. apply Forall_app. split; [|exact Hdef].
    eapply Forall_impl; [|exact (wf_def _ H)]. intros x. unfold default_ok. rewrite Ek, in_app_iff. tauto.
  - rewrite Epv, Epn. exact (wf_ptv _ H).
  - rewrite E1, E2, E3, E4, E5, E6, Epn. exact (wf_nonneg _ H).
  - rewrite Ep. apply Forall_app. split; [exact (wf_dur _ H)|]. constructor; [exact Hsgd | constructor].
  - rewrite Ep. apply Forall_app. split; [exact (wf_nm _ H)|]. constructor; [reflexivity | constructor].
Qed.

Lemma norm_sgd_pos : forall sgd d, 0 < norm_sgd sgd d.
Proof.
  intros. unfold norm_sgd, sg_default, DAY. unfold HOUR. destruct (sgd =? 0); cbv iota.
  - destruct (_ || _); cbv iota; [lia|]. destruct (d >=? _); cbv iota; lia.
  - destruct (Z.ltb_spec sgd 3600000000000); lia.
Qed.

Lemma find_db_none : forall c db, find_db c db = None -> ~ In db (map db_name (dbs c)).
Proof.
  unfold find_db. intros c db Hf Hin. apply in_map_iff in Hin. destruct Hin as [d [E Hd]].
  pose proof (find_none _ _ Hf d Hd) as X. cbv beta in X. lia.
Qed.

Lemma find_pol_none : forall c db n, find_pol c db n = None -> ~ In (db, n) (pol_keys c).
Proof.
  unfold find_pol, pol_keys. intros c db n Hf Hin. apply in_map_iff in Hin. destruct Hin as [p [E Hp]].
  pose proof (find_none _ _ Hf p Hp) as X. unfold is_pol in X. inversion E. lia.
Qed.

Lemma wf_create_db : forall c db rp d sgd, wf c -> wf (fst (create_db c db rp d sgd)).
Proof.
  intros c db rp d sgd H. unfold create_db.
  destruct (db =? 0); [exact H|]. destruct (ptnum c =? 0); [exact H|].
  destruct (find_db c db) as [x|] eqn:Ef; [destruct (db_mark x); exact H|].
  destruct (rp =? 0); [exact H|]. destruct (negb _); [exact H|].
  cbn [fst ok]. pose proof (find_db_none _ _ Ef) as Hn.
  eapply (wf_add_pol c _ db rp); [exact H | reflexivity | | | | apply norm_sgd_pos | reflexivity | reflexivity | reflexivity | cbn; tauto].
  - eexists. split; [reflexivity|]. cbn [dbs set_dbs set_pols]. split.
    + rewrite map_app. apply NoDup_snoc; [exact (wf_dbn _ H) | exact Hn].
    + constructor; [|constructor]. right. unfold pol_keys. cbn [pols set_pols db_name db_default].
      rewrite map_app, in_app_iff. right. left. reflexivity.
  - cbn [dbs set_dbs set_pols]. rewrite map_app, in_app_iff. right. left. reflexivity.
  - intro Hin. unfold pol_keys in Hin. apply in_map_iff in Hin. destruct Hin as [p [E Hp]].
    pose proof (wf_poldb _ H) as PD. rewrite Forall_forall in PD. specialize (PD p Hp). inversion E. subst. contradiction.
Qed.

Lemma wf_create_rp : forall c db rp d sgd k, wf c -> wf (fst (create_rp c db rp d sgd k)).
Proof.
  intros c db rp d sgd k H. unfold create_rp.
  destruct (get_db c db) as [x|] eqn:Eg; [|exact H].
  destruct (rp =? 0) eqn:Erp; [exact H|]. destruct (negb (spec_valid _ _)); [exact H|].
  destruct (find_pol c db rp) as [q|] eqn:Ef.
  { destruct (negb _); [exact H|]. destruct (_ && _); exact H. }
  cbn [fst ok]. destruct (get_db_spec _ _ _ Eg) as (Hx & Ex & _).
  assert (W : wf (set_pols c (pols c ++ [new_policy db rp d (norm_sgd sgd d) (norm_igd 0 (norm_sgd sgd d))]))).
  { eapply (wf_add_pol c _ db rp); [exact H | reflexivity | | | | apply norm_sgd_pos | reflexivity | reflexivity | reflexivity | cbn; tauto].
    - exists []. cbn [dbs set_pols]. rewrite app_nil_r. split; [reflexivity|]. split; [exact (wf_dbn _ H) | constructor].
    - cbn [dbs set_pols]. rewrite <- Ex. apply in_map. exact Hx.
    - apply find_pol_none. exact Ef. }
  destruct k; [|exact W].
  apply wf_set_default; [exact W|]. right. unfold pol_keys. cbn [pols set_pols]. rewrite map_app, in_app_iff. right. left. reflexivity.
Qed.

(* ---------------------------------------------------------------- policy metadata *)
Lemma wf_update_rp : forall c db rp d sgd k, wf c -> wf (fst (update_rp c db rp d sgd k)).
Proof.
  intros c db rp d sgd k H. unfold update_rp.
  destruct (get_pol c db rp) as [p|] eqn:Eg; [|exact H]. destruct (negb _); [exact H|].
  cbn [fst ok]. destruct (get_pol_spec _ _ _ _ Eg) as (_ & Hp & Edb & _).
  match goal with |- wf (if k then set_default ?c1 _ _ else _) => assert (W : wf c1) end.
  { apply wf_upd_pol_meta; [exact H| |]; [intros q; cbn; repeat split; apply subl_refl | intros q _; cbn; apply norm_sgd_pos]. }
  destruct k; [|exact W]. apply wf_set_default; [exact W|]. right.
  rewrite pol_keys_upd_pol by (intros; cbn; tauto). rewrite <- Edb. apply In_pol_keys. exact Hp.
Qed.

Lemma wf_mark_rp : forall c db rp, wf c -> wf (fst (mark_rp c db rp)).
Proof.
  intros c db rp H. unfold mark_rp. destruct (get_pol c db rp) as [p|]; [|exact H]. cbn [fst ok].
  apply wf_upd_pol_meta; [exact H| |]; [intros q; cbn; repeat split; apply subl_refl | intros q Q; exact Q].
Qed.

Lemma get_pol_name : forall c db n p, get_pol c db n = Some p -> n = 0 \/ rp_name p = n.
Proof.
  unfold get_pol. intros c db n p H. destruct (get_db c db) as [d|]; [|discriminate].
  destruct (resolve d n =? 0); [discriminate|].
  destruct (find_pol c db (resolve d n)) as [q|] eqn:Eq; [|discriminate].
  destruct (rp_mark q); [discriminate|]. inversion H; subst q.
  destruct (find_is_pol _ _ _ _ Eq) as (_ & _ & E). unfold resolve in E. destruct (n =? 0) eqn:En; [left; lia | right; exact E].
Qed.

Lemma wf_set_default_rp : forall c db rp, wf c -> wf (fst (set_default_rp c db rp)).
Proof.
  intros c db rp H. unfold set_default_rp. destruct (get_pol c db rp) as [p|] eqn:Eg; [|exact H]. cbn [fst ok].
  apply wf_set_default; [exact H|]. destruct (get_pol_name _ _ _ _ Eg) as [E|E]; [left; exact E|right].
  destruct (get_pol_spec _ _ _ _ Eg) as (_ & Hp & Edb & _). rewrite <- E, <- Edb. apply In_pol_keys. exact Hp.
Qed.

(* dropping a policy, with the repair: the default name is cleared when it named the dropped policy *)
Lemma wf_drop_rp : forall c db rp, wf c -> wf (fst (drop_rp true c db rp)).
Proof.
  intros c db rp H. unfold drop_rp. destruct (get_db c db) as [x|] eqn:Eg; [|exact H]. cbn [fst ok andb].
  destruct (get_db_spec _ _ _ Eg) as (Hx & Ex & _).
  set (c1 := set_pols c (filter (fun p => negb (is_pol db rp p)) (pols c))).
  assert (K : forall d, default_ok c d -> (db_name d = db /\ db_default d = rp) \/ default_ok c1 d).
  { intros d [E|Hin]; [right; left; exact E|].
    destruct (Z.eq_dec (db_name d) db) as [E1|E1]; [destruct (Z.eq_dec (db_default d) rp) as [E2|E2]|]; [left; tauto| |];
      right; right; unfold pol_keys in *; cbn [pols c1 set_pols]; apply in_map_iff in Hin; destruct Hin as [p [Ep Hp]];
      apply in_map_iff; exists p; (split; [assumption|]); apply filter_In; (split; [assumption|]); unfold is_pol; inversion Ep; lia. }
  assert (Wrest : forall c2, pols c2 = pols c1 -> ptnum c2 = ptnum c -> ptview c2 = ptview c -> nodes c2 = nodes c ->
     map db_name (dbs c2) = map db_name (dbs c) -> Forall (default_ok c2) (dbs c2) ->
     (max_sg c2 = max_sg c /\ max_sh c2 = max_sh c /\ max_ig c2 = max_ig c /\ max_ix c2 = max_ix c /\ max_mst c2 = max_mst c /\ max_node c2 = max_node c) ->
     wf c2).
  { intros c2 Ep Epn Epv End Edn Hdef (E1 & E2 & E3 & E4 & E5 & E6). constructor.
    - rewrite Ep. cbn [pols c1 set_pols]. eapply subl_Forall; [apply subl_filter | exact (wf_groups _ H)].
    - unfold sg_ids. rewrite Ep, E1. eapply uniq_le_subl; [|exact (wf_sg _ H)]. apply subl_flat_map, subl_filter.
    - unfold sh_ids. rewrite Ep, E2. eapply uniq_le_subl; [|exact (wf_sh _ H)]. apply subl_flat_map, subl_filter.
    - unfold ig_ids. rewrite Ep, E3. eapply uniq_le_subl; [|exact (wf_ig _ H)]. apply subl_flat_map, subl_filter.
    - unfold ix_ids. rewrite Ep, E4. eapply uniq_le_subl; [|exact (wf_ix _ H)]. apply subl_flat_map, subl_filter.
    - unfold mst_ids. rewrite Ep, E5. eapply uniq_lt_subl; [|exact (wf_mst _ H)]. apply subl_flat_map, subl_filter.
    - unfold node_ids. rewrite End, E6. exact (wf_node _ H).
    - rewrite Edn. exact (wf_dbn _ H).
    - unfold pol_keys. rewrite Ep. eapply subl_NoDup; [|exact (wf_poln _ H)]. apply subl_map, subl_filter.
    - rewrite Ep, Edn. cbn [pols c1 set_pols]. eapply subl_Forall; [apply subl_filter | exact (wf_poldb _ H)].
    - rewrite Ep. cbn [pols c1 set_pols]. eapply subl_Forall; [apply subl_filter|].
      eapply Forall_impl; [|exact (wf_refs _ H)]. intros p. apply refs_ok_same. symmetry. exact Epn.
    - exact Hdef.
    - rewrite Epv, Epn. exact (wf_ptv _ H).
    - rewrite E1, E2, E3, E4, E5, E6, Epn. exact (wf_nonneg _ H).
    - rewrite Ep. cbn [pols c1 set_pols]. eapply subl_Forall; [apply subl_filter | exact (wf_dur _ H)].
    - rewrite Ep. cbn [pols c1 set_pols]. eapply subl_Forall; [apply subl_filter | exact (wf_nm _ H)]. }
  pose proof (wf_def _ H) as D.
  destruct (db_default x =? rp) eqn:Edef.
  - (* the default named the dropped policy: cleared *)
    unfold set_default, upd_db. rewrite (upd_first_as_map db_name db) by exact (wf_dbn _ H).
    apply Wrest; try reflexivity; [| |cbn; tauto].
    + cbn [dbs set_dbs c1 set_pols]. rewrite map_map. apply map_ext. intros a. destruct (db_name a =? db); reflexivity.
    + cbn [dbs set_dbs c1 set_pols]. rewrite Forall_map. eapply Forall_impl; [|exact D]. intros d Hd. cbv beta.
      destruct (db_name d =? db) eqn:Ed; [left; reflexivity|].
      destruct (K d Hd) as [[E1 _]|Ok1]; [lia|]. exact Ok1.
  - apply Wrest; try reflexivity; [|cbn; tauto].
    cbn [dbs c1 set_pols]. apply Forall_forall. intros d Hd. rewrite Forall_forall in D.
    destruct (K d (D d Hd)) as [[E1 E2]|Ok1]; [|exact Ok1].
    assert (d = x) by (eapply (NoDup_map_eq db_name); [exact (wf_dbn _ H) | exact Hd | exact Hx | congruence]).
    subst d. lia.
Qed.


(* ---------------------------------------------------------------- measurements *)
Lemma wf_add_mst : forall c p m ver, wf c -> find_pol c (rp_db p) (rp_name p) = Some p -> wf (add_mst c p m ver).
Proof.
  intros c p m ver H Hf. unfold add_mst, upd_pol. pose proof (nonneg_get _ H) as NN.
  eapply (wf_pols_meta_gen c _ (is_pol (rp_db p) (rp_name p))); try reflexivity; [exact H | | intros q Q; exact Q | cbn; tauto | | ].
  - intros q. cbn. tauto.
  - unfold mst_ids. cbn [pols set_pols set_max_mst max_mst].
    destruct (wf_mst _ H) as [N1 N2].
    assert (HP : Permutation (flat_map (fun p0 => map ms_id (rp_msts p0))
                 (upd_first (is_pol (rp_db p) (rp_name p))
                    (fun q => pol_set_msts q (rp_msts q ++ [{| ms_name := m; ms_ver := ver; ms_id := max_mst c; ms_mark := false |}])
                                (assoc_set m ver (rp_vers q))) (pols c)))
              ([max_mst c] ++ mst_ids c)).
    { apply (updf_flat_map_perm _ _ _ _ p); [exact Hf|]. cbn [rp_msts pol_set_msts]. rewrite map_app. cbn [map ms_id].
      apply Permutation_app_comm. }
    split.
    + eapply Permutation_NoDup; [apply Permutation_sym; exact HP|]. cbn [app]. constructor; [|exact N1].
      intro Hin. rewrite Forall_forall in N2. specialize (N2 _ Hin). cbn in N2. lia.
    + eapply Permutation_Forall; [apply Permutation_sym; exact HP|]. cbn [app]. constructor; [lia|].
      eapply Forall_impl; [|exact N2]. cbn. intros. lia.
  - cbn [max_mst set_max_mst]. lia.
Qed.

Lemma wf_create_mst : forall c db rp m, wf c -> wf (fst (create_mst c db rp m)).
Proof.
  intros c db rp m H. unfold create_mst. destruct (get_pol c db rp) as [p|] eqn:Eg; [|exact H].
  destruct (get_pol_spec _ _ _ _ Eg) as (Hf & _ & Edb & _). rewrite <- Edb in Hf.
  destruct (assoc m (rp_vers p)); [destruct (find_mst p m z) as [x|]; [destruct (ms_mark x)|]|]; cbn [fst ok];
    try exact H; apply wf_add_mst; assumption.
Qed.

Lemma wf_mark_mst : forall c db rp m, wf c -> wf (fst (mark_mst c db rp m)).
Proof.
  intros c db rp m H. unfold mark_mst. destruct (get_pol c db rp) as [p|]; [|exact H].
  destruct (cur_mst p m) as [x|]; [|exact H]. destruct (ms_mark x); [exact H|]. cbn [fst ok].
  apply wf_upd_pol_meta; [exact H| |intros q Q; exact Q]. intros q. cbn [rp_db rp_name rp_sgs rp_igs rp_msts pol_set_msts]. repeat split.
  rewrite updf_map_same; [apply subl_refl | reflexivity].
Qed.

Lemma wf_drop_mst : forall c db rp m v, wf c -> wf (fst (drop_mst c db rp m v)).
Proof.
  intros c db rp m v H. unfold drop_mst. destruct (get_pol c db rp) as [p|]; [|exact H]. cbn [fst ok].
  apply wf_upd_pol_meta; [exact H| |intros q Q; exact Q]. intros q. cbn [rp_db rp_name rp_sgs rp_igs rp_msts pol_set_msts]. repeat split.
  apply subl_map, subl_filter.
Qed.

(* ---------------------------------------------------------------- groups are marked, deleted or pruned *)
Lemma groups_ok_subl : forall l1 l2, subl l1 l2 -> groups_ok l2 -> groups_ok l1.
Proof.
  intros l1 l2 S [H1 [H2 H3]]. split; [|split].
  - apply (LocallySorted_Strongly _ key_leP_trans). eapply subl_StronglySorted; [exact S|].
    apply (LocallySorted_Strongly _ key_leP_trans). exact H1.
  - eapply subl_Forall; eassumption.
  - eapply subl_ForallOrdPairs; eassumption.
Qed.

Definition pol_shrink (p p' : policy) : Prop :=
  rp_sgdur p' = rp_sgdur p /\ rp_db p' = rp_db p /\ rp_name p' = rp_name p /\
  (exists mid, Forall2 sg_sim (rp_sgs p) mid /\ subl (rp_sgs p') mid) /\
  subl (map ig_id (rp_igs p')) (map ig_id (rp_igs p)) /\ subl (ix_ids_of p') (ix_ids_of p) /\
  subl (map ms_id (rp_msts p')) (map ms_id (rp_msts p)) /\
  (forall g s, In g (rp_sgs p) -> In s (sg_shards g) -> In (sh_index s) (ix_ids_of p) -> In (sh_index s) (ix_ids_of p')).

Lemma pol_shrink_refl : forall p, pol_shrink p p.
Proof.
  intros p. unfold pol_shrink. repeat split; try apply subl_refl; [|auto].
  exists (rp_sgs p). split; [|apply subl_refl]. clear. induction (rp_sgs p); constructor; [apply sg_sim_refl | assumption].
Qed.

Lemma wf_pols_shrink_gen : forall c c', wf c -> Forall2 pol_shrink (pols c) (pols c') ->
  Forall2 (fun p p' => rp_nm p' = rp_nm p) (pols c) (pols c') ->
  dbs c' = dbs c -> nodes c' = nodes c -> ptview c' = ptview c -> ptnum c' = ptnum c ->
  (max_sg c' = max_sg c /\ max_sh c' = max_sh c /\ max_ig c' = max_ig c /\ max_ix c' = max_ix c /\ max_mst c' = max_mst c /\ max_node c' = max_node c) ->
  wf c'.
Proof.
  intros c c' H HS HNM Ed End Epv Epn (E1 & E2 & E3 & E4 & E5 & E6).
  assert (Ek : pol_keys c' = pol_keys c).
  { unfold pol_keys. eapply Forall2_map_eq; [|exact HS]. intros x y (_ & -> & -> & _). reflexivity. }
  constructor.
  - eapply Forall2_Forall; [|exact HS|exact (wf_groups _ H)]. intros x y (_ & _ & _ & (mid & M1 & M2) & _) Q. cbv beta in *.
    eapply groups_ok_subl; [exact M2|]. eapply sg_sim_groups_ok; eassumption.
  - unfold sg_ids. rewrite E1. eapply uniq_le_subl; [|exact (wf_sg _ H)]. apply Forall2_flat_map_subl.
    eapply (Forall2_impl pol_shrink); [|exact HS]. intros x y (_ & _ & _ & (mid & M1 & M2) & _). cbv beta.
    rewrite <- (sg_sim_ids _ _ M1). apply subl_map. exact M2.
  - unfold sh_ids, sh_ids_of. rewrite E2. eapply uniq_le_subl; [|exact (wf_sh _ H)]. apply Forall2_flat_map_subl.
    eapply (Forall2_impl pol_shrink); [|exact HS]. intros x y (_ & _ & _ & (mid & M1 & M2) & _). cbv beta.
    rewrite <- (sg_sim_sh_ids _ _ M1). apply subl_flat_map. exact M2.
  - unfold ig_ids. rewrite E3. eapply uniq_le_subl; [|exact (wf_ig _ H)]. apply Forall2_flat_map_subl.
    eapply (Forall2_impl pol_shrink); [|exact HS]. intros x y (_ & _ & _ & _ & S & _). exact S.
  - unfold ix_ids. rewrite E4. eapply uniq_le_subl; [|exact (wf_ix _ H)]. apply Forall2_flat_map_subl.
    eapply (Forall2_impl pol_shrink); [|exact HS]. intros x y (_ & _ & _ & _ & _ & S & _). exact S.
  - unfold mst_ids. rewrite E5. eapply uniq_lt_subl; [|exact (wf_mst _ H)]. apply Forall2_flat_map_subl.
    eapply (Forall2_impl pol_shrink); [|exact HS]. intros x y (_ & _ & _ & _ & _ & _ & S & _). exact S.
  - unfold node_ids. rewrite End, E6. exact (wf_node _ H).
  - rewrite Ed. exact (wf_dbn _ H).
  - rewrite Ek. exact (wf_poln _ H).
  - rewrite Ed. eapply Forall2_Forall; [|exact HS|exact (wf_poldb _ H)]. intros x y (_ & -> & _) Q. exact Q.
  - apply Forall_forall. intros p' Hp'. destruct (Forall2_In_r _ _ _ _ HS Hp') as [p [Hp (_ & _ & _ & (mid & M1 & M2) & _ & _ & _ & Keep)]].
    pose proof (wf_refs _ H) as Q. rewrite Forall_forall in Q. specialize (Q p Hp). intros g' s' Hg' Hs'.
    apply (subl_In _ _ _ M2) in Hg'. destruct (Forall2_In_r _ _ _ _ M1 Hg') as [g [Hg Hsim]].
    destruct Hsim as (_ & _ & _ & _ & _ & _ & X7). destruct (sh_sim_In _ _ _ X7 Hs') as [s [Hs [I1 I2]]].
    destruct (Q g s Hg Hs) as (R1 & R2 & R3). rewrite I1, I2, Epn. split; [|split; assumption]. eapply Keep; eassumption.
  - rewrite Ed. eapply Forall_impl; [|exact (wf_def _ H)]. intros d. unfold default_ok. rewrite Ek. auto.
  - rewrite Epv, Epn. exact (wf_ptv _ H).
  - rewrite E1, E2, E3, E4, E5, E6, Epn. exact (wf_nonneg _ H).
  - eapply Forall2_Forall; [|exact HS|exact (wf_dur _ H)]. intros x y (-> & _) Q. exact Q.
  - assert (HB : Forall2 (fun p p' => rp_nm p' = rp_nm p /\ rp_name p' = rp_name p) (pols c) (pols c')).
    { clear - HS HNM. revert HNM. induction HS; intros HNM; inversion HNM; subst; constructor; [|auto].
      destruct H as (_ & _ & -> & _). auto. }
    eapply Forall2_Forall; [|exact HB|exact (wf_nm _ H)]. intros x y (-> & ->) Q. exact Q.
Qed.

Lemma nm_same_updf : forall P g (l : list policy), (forall q, rp_nm (g q) = rp_nm q) ->
  Forall2 (fun p p' => rp_nm p' = rp_nm p) l (upd_first P g l).
Proof. intros. apply updf_Forall2; [reflexivity | intros; auto]. Qed.
Lemma nm_same_map : forall g (l : list policy), (forall q, rp_nm (g q) = rp_nm q) ->
  Forall2 (fun p p' => rp_nm p' = rp_nm p) l (map g l).
Proof. intros. apply Forall2_map_r. auto. Qed.

Lemma sg_sim_set_del : forall g, sg_sim g (sg_set_del g).
Proof. intros. unfold sg_sim. cbn. repeat split; auto. apply sh_sim_refl. Qed.

Lemma wf_delete_sg : forall c db rp id, wf c -> wf (fst (delete_sg c db rp id)).
Proof.
  intros c db rp id H. unfold delete_sg. destruct (get_pol c db rp) as [p|]; [|exact H]. cbn [fst ok]. unfold upd_pol.
  eapply (wf_pols_shrink_gen c); try reflexivity; [exact H | | apply nm_same_updf; reflexivity | cbn; tauto].
  cbn [pols set_pols]. apply updf_Forall2; [apply pol_shrink_refl|]. intros q _.
  unfold pol_shrink. cbn [rp_sgdur rp_db rp_name rp_sgs rp_igs rp_msts pol_set_sgs]. repeat split; try apply subl_refl; [|auto].
  eexists. split; [|apply subl_refl]. apply updf_Forall2; [apply sg_sim_refl | intros; apply sg_sim_set_del].
Qed.

Lemma wf_delete_ig : forall c db rp id, wf c -> wf (fst (delete_ig c db rp id)).
Proof.
  intros c db rp id H. unfold delete_ig. destruct (get_pol c db rp) as [p|]; [|exact H]. cbn [fst ok]. unfold upd_pol.
  eapply (wf_pols_shrink_gen c); try reflexivity; [exact H | | apply nm_same_updf; reflexivity | cbn; tauto].
  cbn [pols set_pols]. apply updf_Forall2; [apply pol_shrink_refl|]. intros q _.
  assert (EI : ix_ids_of (pol_set_igs q (upd_first (fun g => ig_id g =? id) ig_set_del (rp_igs q))) = ix_ids_of q).
  { unfold ix_ids_of. cbn [rp_igs pol_set_igs]. apply updf_flat_map_same. reflexivity. }
  unfold pol_shrink. rewrite EI. cbn [rp_sgdur rp_db rp_name rp_sgs rp_igs rp_msts pol_set_igs]. repeat split; try apply subl_refl; [| |auto].
  - exists (rp_sgs q). split; [|apply subl_refl]. clear. induction (rp_sgs q); constructor; [apply sg_sim_refl | assumption].
  - rewrite updf_map_same; [apply subl_refl | reflexivity].
Qed.

Lemma sg_sim_prune_mark : forall id g, sg_sim g (prune_mark_sg id g).
Proof.
  intros. unfold prune_mark_sg. destruct (_ && _); [|apply sg_sim_refl]. unfold sg_sim. cbn. repeat split; auto.
  apply updf_Forall2; [auto | intros x _; destruct (sh_id x =? id); cbn; auto].
Qed.

Lemma prune_sg_pol_shrink : forall c id p, pol_shrink p (prune_sg_pol c id p).
Proof.
  intros c id p. unfold prune_sg_pol.
  assert (B : pol_shrink p (pol_set_sgs p (filter (fun g => negb (sg_gone g)) (map (prune_mark_sg id) (rp_sgs p))))).
  { unfold pol_shrink. cbn [rp_sgdur rp_db rp_name rp_sgs rp_igs rp_msts pol_set_sgs]. repeat split; try apply subl_refl; [|auto].
    exists (map (prune_mark_sg id) (rp_sgs p)). split; [|apply subl_filter]. apply Forall2_map_r. apply sg_sim_prune_mark. }
  destruct (_ && _); [|exact B].
  destruct B as (B0 & B1 & B2 & B3 & B4 & B5 & B6 & B7). unfold pol_shrink. cbn [rp_sgdur rp_db rp_name rp_sgs rp_igs rp_msts pol_set_sgs pol_set_msts] in *.
  repeat split; try assumption.
  rewrite map_map. erewrite map_ext; [apply subl_refl|]. intros a. cbv beta.
  destruct (assoc (ms_name a) (rp_vers p)); [destruct (ms_ver a =? z)|]; reflexivity.
Qed.

Lemma wf_prune_sg : forall c id, wf c -> wf (fst (prune_sg c id)).
Proof.
  intros c id H. unfold prune_sg. cbn [fst ok].
  eapply (wf_pols_shrink_gen c); try reflexivity; [exact H | | | cbn; tauto].
  - cbn [pols set_pols]. apply Forall2_map_r. apply prune_sg_pol_shrink.
  - cbn [pols set_pols]. apply nm_same_map. intros q. unfold prune_sg_pol. destruct (_ && _); reflexivity.
Qed.

(* environment assumption of index pruning: an index group that the command removes is not referred to by any shard *)
Definition prune_ig_env (c : cat) (id : Z) : Prop :=
  forall p g ix sg s, In p (pols c) -> In g (rp_igs p) -> ig_gone (prune_mark_ig id g) = true -> In ix (ig_indexes g) ->
    In sg (rp_sgs p) -> In s (sg_shards sg) -> sh_index s <> ix_id ix.

Lemma prune_mark_ig_ids : forall id g, map ix_id (ig_indexes (prune_mark_ig id g)) = map ix_id (ig_indexes g) /\ ig_id (prune_mark_ig id g) = ig_id g.
Proof.
  intros. unfold prune_mark_ig. destruct (_ && _); [|auto]. cbn. split; [|reflexivity]. apply updf_map_same.
  intros x _. destruct (ix_id x =? id); reflexivity.
Qed.

Lemma wf_prune_ig : forall c id, wf c -> prune_ig_env c id -> wf (fst (prune_ig c id)).
Proof.
  intros c id H Env. unfold prune_ig. cbn [fst ok].
  eapply (wf_pols_shrink_gen c); try reflexivity; [exact H | | cbn [pols set_pols]; apply nm_same_map; reflexivity | cbn; tauto].
  cbn [pols set_pols].
  assert (G : forall p, In p (pols c) -> pol_shrink p (prune_ig_pol id p)).
  { intros p Hp. unfold pol_shrink, prune_ig_pol. cbn [rp_sgdur rp_db rp_name rp_sgs rp_igs rp_msts pol_set_igs]. repeat split; try apply subl_refl.
    - exists (rp_sgs p). split; [|apply subl_refl]. clear. induction (rp_sgs p); constructor; [apply sg_sim_refl | assumption].
    - eapply subl_trans; [apply subl_map, subl_filter|]. rewrite map_map. erewrite map_ext; [apply subl_refl|].
      intros a. apply prune_mark_ig_ids.
    - unfold ix_ids_of. cbn [rp_igs pol_set_igs]. eapply subl_trans; [apply subl_flat_map, subl_filter|].
      rewrite flat_map_concat_map, map_map, <- flat_map_concat_map. erewrite flat_map_ext; [apply subl_refl|].
      intros a. apply prune_mark_ig_ids.
    - intros sg s Hsg Hs Hin. unfold ix_ids_of in *. cbn [rp_igs pol_set_igs]. apply in_flat_map in Hin.
      destruct Hin as [g [Hg Hix]]. apply in_map_iff in Hix. destruct Hix as [ix [Eix Hix]].
      apply in_flat_map. exists (prune_mark_ig id g). split.
      + apply filter_In. split; [apply in_map; exact Hg|]. destruct (ig_gone (prune_mark_ig id g)) eqn:Eg; [|reflexivity].
        exfalso. eapply (Env p g ix sg s); eauto.
      + rewrite (proj1 (prune_mark_ig_ids id g)). apply in_map_iff. exists ix. auto. }
  clear - G. induction (pols c); cbn; constructor; [apply G; left; reflexivity | apply IHl; intros; apply G; right; assumption].
Qed.
