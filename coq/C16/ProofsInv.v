(* C16: two further invariants of the repaired step function.
   all_aligned - EVERY group (deleted or not) is a non-empty span inside one cell of its creation-time duration: groups are
                 born that way and spans never change. Needed to revive a deleted group (CancelDeleteSg).
   covered     - the index group holding a shard's index does not end before the shard's own group (the C14 invariant, /repo
                 76d3742, seen from the catalogue). *)
From Coq Require Import ZArith List Bool Lia ZifyBool Sorting.Sorted Sorting.Permutation.
From OG Require Import C16.Model C16.Wf C16.Lists C16.Proofs C16.ProofsCmd C16.ProofsSg C16.ProofsNew.
Import ListNotations.
Open Scope Z_scope.

(* every group / index group of p' has an origin in p with the same span, creation duration and references *)
Definition sg_orig (g g' : sgroup) : Prop :=
  sg_start g' = sg_start g /\ sg_end g' = sg_end g /\ sg_dur g' = sg_dur g /\ map sh_index (sg_shards g') = map sh_index (sg_shards g).
Definition ig_orig (g g' : igroup) : Prop :=
  ig_start g' = ig_start g /\ ig_end g' = ig_end g /\ map ix_id (ig_indexes g') = map ix_id (ig_indexes g).
Definition pol_from (p p' : policy) : Prop :=
  (forall g', In g' (rp_sgs p') -> exists g, In g (rp_sgs p) /\ sg_orig g g') /\
  (forall i', In i' (rp_igs p') -> exists i, In i (rp_igs p) /\ ig_orig i i').
Definition pols_from (c c' : cat) : Prop :=
  forall p', In p' (pols c') -> (rp_sgs p' = [] /\ rp_igs p' = []) \/ exists p, In p (pols c) /\ pol_from p p'.

Lemma sg_orig_refl : forall g, sg_orig g g. Proof. intros. unfold sg_orig. auto. Qed.
Lemma ig_orig_refl : forall g, ig_orig g g. Proof. intros. unfold ig_orig. auto. Qed.

Lemma pol_from_same : forall p p', rp_sgs p' = rp_sgs p -> rp_igs p' = rp_igs p -> pol_from p p'.
Proof.
  intros p p' E1 E2. split; [rewrite E1 | rewrite E2]; intros x Hx; exists x; split; auto using sg_orig_refl, ig_orig_refl.
Qed.
Lemma pol_from_refl : forall p, pol_from p p. Proof. intros. apply pol_from_same; reflexivity. Qed.

Lemma pol_from_trans : forall p q r, pol_from p q -> pol_from q r -> pol_from p r.
Proof.
  intros p q r [A1 A2] [B1 B2]. split.
  - intros g' Hg'. destruct (B1 g' Hg') as [g1 [H1 (a & b & c0 & d)]]. destruct (A1 g1 H1) as [g0 [H0 (a' & b' & c' & d')]].
    exists g0. split; [exact H0|]. unfold sg_orig. repeat split; congruence.
  - intros g' Hg'. destruct (B2 g' Hg') as [g1 [H1 (a & b & c0)]]. destruct (A2 g1 H1) as [g0 [H0 (a' & b' & c')]].
    exists g0. split; [exact H0|]. unfold ig_orig. repeat split; congruence.
Qed.

(* ---- how the list of policies changes ---- *)
Lemma pols_from_eq : forall c c', pols c' = pols c -> pols_from c c'.
Proof. intros c c' E p' Hp'. right. exists p'. rewrite E in Hp'. split; [exact Hp' | apply pol_from_refl]. Qed.

Lemma pols_from_filter : forall c c' f, pols c' = filter f (pols c) -> pols_from c c'.
Proof. intros c c' f E p' Hp'. right. exists p'. rewrite E in Hp'. apply filter_In in Hp'. split; [tauto | apply pol_from_refl]. Qed.

Lemma pols_from_snoc : forall c c' db n d sgd igd, pols c' = pols c ++ [new_policy db n d sgd igd] -> pols_from c c'.
Proof.
  intros c c' db n d sgd igd E p' Hp'. rewrite E in Hp'. apply in_app_iff in Hp'. destruct Hp' as [Hp'|[<-|[]]].
  - right. exists p'. split; [exact Hp' | apply pol_from_refl].
  - left. split; reflexivity.
Qed.

Lemma pols_from_updf : forall c c' P g, pols c' = upd_first P g (pols c) -> (forall q, pol_from q (g q)) -> pols_from c c'.
Proof.
  intros c c' P g E Hg p' Hp'. right. rewrite E in Hp'. apply updf_In in Hp'. destruct Hp' as [Hp'|[q [Hq [_ ->]]]].
  - exists p'. split; [exact Hp' | apply pol_from_refl].
  - exists q. split; [exact Hq | apply Hg].
Qed.

Lemma pols_from_map : forall c c' g, pols c' = map g (pols c) -> (forall q, pol_from q (g q)) -> pols_from c c'.
Proof.
  intros c c' g E Hg p' Hp'. right. rewrite E in Hp'. apply in_map_iff in Hp'. destruct Hp' as [q [<- Hq]].
  exists q. split; [exact Hq | apply Hg].
Qed.

Lemma pols_from_trans : forall c c1 c2, pols_from c c1 -> pols_from c1 c2 -> pols_from c c2.
Proof.
  intros c c1 c2 A B p2 Hp2. destruct (B p2 Hp2) as [E|[p1 [Hp1 F12]]]; [left; exact E|].
  destruct (A p1 Hp1) as [[E1 E2]|[p [Hp F01]]].
  - left. destruct F12 as [S I]. split.
    + destruct (rp_sgs p2) as [|g r] eqn:Es; [reflexivity|]. exfalso. destruct (S g (or_introl eq_refl)) as [g0 [Hg0 _]]. rewrite E1 in Hg0. contradiction.
    + destruct (rp_igs p2) as [|g r] eqn:Es; [reflexivity|]. exfalso. destruct (I g (or_introl eq_refl)) as [g0 [Hg0 _]]. rewrite E2 in Hg0. contradiction.
  - right. exists p. split; [exact Hp | eapply pol_from_trans; eassumption].
Qed.

(* ---- how one policy changes ---- *)
Lemma pol_from_sgs_updf : forall q P f, (forall g, sg_orig g (f g)) -> pol_from q (pol_set_sgs q (upd_first P f (rp_sgs q))).
Proof.
  intros q P f Hf. split; cbn [rp_sgs rp_igs pol_set_sgs].
  - intros g' Hg'. apply updf_In in Hg'. destruct Hg' as [Hg'|[g [Hg [_ ->]]]]; [exists g'; split; [exact Hg' | apply sg_orig_refl] | exists g; split; [exact Hg | apply Hf]].
  - intros i Hi. exists i. split; [exact Hi | apply ig_orig_refl].
Qed.

Lemma pol_from_igs_updf : forall q P f, (forall g, ig_orig g (f g)) -> pol_from q (pol_set_igs q (upd_first P f (rp_igs q))).
Proof.
  intros q P f Hf. split; cbn [rp_sgs rp_igs pol_set_igs].
  - intros g Hg. exists g. split; [exact Hg | apply sg_orig_refl].
  - intros g' Hg'. apply updf_In in Hg'. destruct Hg' as [Hg'|[g [Hg [_ ->]]]]; [exists g'; split; [exact Hg' | apply ig_orig_refl] | exists g; split; [exact Hg | apply Hf]].
Qed.

Lemma sg_orig_prune_mark : forall id g, sg_orig g (prune_mark_sg id g).
Proof.
  intros. unfold prune_mark_sg. destruct (_ && _); [|apply sg_orig_refl]. unfold sg_orig. cbn. repeat split.
  apply updf_map_same. intros x _. destruct (sh_id x =? id); reflexivity.
Qed.

Lemma ig_orig_prune_mark : forall id g, ig_orig g (prune_mark_ig id g).
Proof.
  intros. unfold prune_mark_ig. destruct (_ && _); [|apply ig_orig_refl]. unfold ig_orig. cbn. split; [reflexivity|]. split; [reflexivity|].
  apply updf_map_same. intros x _. destruct (ix_id x =? id); reflexivity.
Qed.

Lemma pol_from_prune_sg : forall c id q, pol_from q (prune_sg_pol c id q).
Proof.
  intros c id q. unfold prune_sg_pol.
  assert (B : pol_from q (pol_set_sgs q (filter (fun g => negb (sg_gone g)) (map (prune_mark_sg id) (rp_sgs q))))).
  { split; cbn [rp_sgs rp_igs pol_set_sgs].
    - intros g' Hg'. apply filter_In in Hg'. destruct Hg' as [Hg' _]. apply in_map_iff in Hg'. destruct Hg' as [g [<- Hg]].
      exists g. split; [exact Hg | apply sg_orig_prune_mark].
    - intros i Hi. exists i. split; [exact Hi | apply ig_orig_refl]. }
  destruct (_ && _); [|exact B]. eapply pol_from_trans; [exact B|]. apply pol_from_same; reflexivity.
Qed.

Lemma pol_from_prune_ig : forall id q, pol_from q (prune_ig_pol id q).
Proof.
  intros id q. unfold prune_ig_pol. split; cbn [rp_sgs rp_igs pol_set_igs].
  - intros g Hg. exists g. split; [exact Hg | apply sg_orig_refl].
  - intros g' Hg'. apply filter_In in Hg'. destruct Hg' as [Hg' _]. apply in_map_iff in Hg'. destruct Hg' as [g [<- Hg]].
    exists g. split; [exact Hg | apply ig_orig_prune_mark].
Qed.

(* ---- the invariants follow their origin ---- *)
Lemma pol_from_aligned : forall p p', pol_from p p' -> (forall g, In g (rp_sgs p) -> aligned_any g) -> forall g', In g' (rp_sgs p') -> aligned_any g'.
Proof.
  intros p p' [A _] Hp g' Hg'. destruct (A g' Hg') as [g [Hg (E1 & E2 & E3 & _)]]. specialize (Hp g Hg).
  unfold aligned_any in *. rewrite E1, E2, E3. exact Hp.
Qed.

Lemma pol_from_covered : forall p p', pol_from p p' -> covered_pol p -> covered_pol p'.
Proof.
  intros p p' [A B] Hc g' s' ig' i' Hg' Hs' Hig' Hi' E.
  destruct (A g' Hg') as [g [Hg (_ & E2 & _ & E4)]]. destruct (B ig' Hig') as [ig [Hig (_ & F1 & F2)]].
  rewrite E2, F1.
  assert (S : In (sh_index s') (map sh_index (sg_shards g))) by (rewrite <- E4; apply in_map; exact Hs').
  apply in_map_iff in S. destruct S as [s [Es Hs]].
  assert (I : In (ix_id i') (map ix_id (ig_indexes ig))) by (rewrite <- F2; apply in_map; exact Hi').
  apply in_map_iff in I. destruct I as [i [Ei Hi]].
  apply (Hc g s ig i Hg Hs Hig Hi). congruence.
Qed.

Lemma all_aligned_from : forall c c', pols_from c c' -> all_aligned c -> all_aligned c'.
Proof.
  intros c c' F A p' g' Hp' Hg'. destruct (F p' Hp') as [[E _]|[p [Hp Fp]]]; [rewrite E in Hg'; contradiction|].
  eapply pol_from_aligned; [exact Fp | intros g Hg; exact (A p g Hp Hg) | exact Hg'].
Qed.

Lemma covered_from : forall c c', pols_from c c' -> covered c -> covered c'.
Proof.
  intros c c' F C. unfold covered in *. rewrite Forall_forall in *. intros p' Hp'.
  destruct (F p' Hp') as [[E _]|[p [Hp Fp]]].
  - intros g s ig i Hg. rewrite E in Hg. contradiction.
  - eapply pol_from_covered; [exact Fp | exact (C p Hp)].
Qed.

(* ---- every command but shard-group creation keeps the origin relation ---- *)
Ltac pf_meta := intros; apply pol_from_same; reflexivity.

Lemma pols_from_add_mst : forall c p m v, pols_from c (add_mst c p m v).
Proof. intros. unfold add_mst, upd_pol. eapply pols_from_updf; [reflexivity | pf_meta]. Qed.

Definition is_create_sg (x : cmd) : bool := match x with CreateSg _ _ _ _ => true | _ => false end.

Lemma pols_from_step : forall c x, is_create_sg x = false -> (x = Restore -> restore_state c = c) ->
  pols_from c (fst (apply true true c x)).
Proof.
  intros c x Hx Hr. destruct x; try discriminate; cbn [apply].
  - unfold create_db. destruct (db =? 0); [apply pols_from_eq; reflexivity|]. destruct (ptnum c =? 0); [apply pols_from_eq; reflexivity|].
    destruct (find_db c db) as [y|]; [destruct (db_mark y); apply pols_from_eq; reflexivity|].
    destruct (rp =? 0); [apply pols_from_eq; reflexivity|]. destruct (negb _); [apply pols_from_eq; reflexivity|].
    cbn [fst ok]. eapply pols_from_snoc. reflexivity.
  - unfold mark_db. destruct (find_db c db) as [y|]; [|apply pols_from_eq; reflexivity]. destruct (db_mark y); apply pols_from_eq; reflexivity.
  - unfold drop_db. destruct (find_db c db); [|apply pols_from_eq; reflexivity]. cbn [fst ok]. eapply pols_from_filter. reflexivity.
  - unfold create_rp. destruct (get_db c db); [|apply pols_from_eq; reflexivity]. destruct (rp =? 0); [apply pols_from_eq; reflexivity|].
    destruct (negb (spec_valid _ _)); [apply pols_from_eq; reflexivity|].
    destruct (find_pol c db rp).
    { destruct (negb _); [apply pols_from_eq; reflexivity|]. destruct (_ && _); apply pols_from_eq; reflexivity. }
    cbn [fst ok]. destruct mkdef; eapply pols_from_snoc; reflexivity.
  - unfold update_rp. destruct (get_pol c db rp) as [p|]; [|apply pols_from_eq; reflexivity]. destruct (negb _); [apply pols_from_eq; reflexivity|].
    cbn [fst ok]. destruct mkdef; (eapply pols_from_updf; [reflexivity | pf_meta]).
  - unfold mark_rp. destruct (get_pol c db rp) as [p|]; [|apply pols_from_eq; reflexivity]. cbn [fst ok].
    eapply pols_from_updf; [reflexivity | pf_meta].
  - unfold drop_rp. destruct (get_db c db) as [y|]; [|apply pols_from_eq; reflexivity]. cbn [fst ok andb].
    destruct (db_default y =? rp); eapply pols_from_filter; reflexivity.
  - unfold set_default_rp. destruct (get_pol c db rp); apply pols_from_eq; reflexivity.
  - unfold create_mst. destruct (get_pol c db rp) as [p|]; [|apply pols_from_eq; reflexivity].
    destruct (assoc m (rp_vers p)); [destruct (find_mst p m z) as [y|]; [destruct (ms_mark y)|]|]; cbn [fst ok];
      try apply pols_from_add_mst; apply pols_from_eq; reflexivity.
  - unfold mark_mst. destruct (get_pol c db rp) as [p|]; [|apply pols_from_eq; reflexivity].
    destruct (cur_mst p m) as [y|]; [|apply pols_from_eq; reflexivity]. destruct (ms_mark y); [apply pols_from_eq; reflexivity|]. cbn [fst ok].
    eapply pols_from_updf; [reflexivity | pf_meta].
  - unfold drop_mst. destruct (get_pol c db rp) as [p|]; [|apply pols_from_eq; reflexivity]. cbn [fst ok].
    eapply pols_from_updf; [reflexivity | pf_meta].
  - unfold delete_sg. destruct (get_pol c db rp) as [p|]; [|apply pols_from_eq; reflexivity]. cbn [fst ok].
    eapply pols_from_updf; [reflexivity|]. intros q. apply pol_from_sgs_updf. intros g. unfold sg_orig. cbn. auto.
  - unfold prune_sg. cbn [fst ok]. eapply pols_from_map; [reflexivity|]. apply pol_from_prune_sg.
  - unfold delete_ig. destruct (get_pol c db rp) as [p|]; [|apply pols_from_eq; reflexivity]. cbn [fst ok].
    eapply pols_from_updf; [reflexivity|]. intros q. apply pol_from_igs_updf. intros g. unfold ig_orig. cbn. auto.
  - unfold prune_ig. cbn [fst ok]. eapply pols_from_map; [reflexivity|]. apply pol_from_prune_ig.
  - unfold create_node. destruct (existsb _ _); [|destruct (existsb _ _)]; apply pols_from_eq; reflexivity.
  - unfold create_ptview. destruct (existsb _ _); [apply pols_from_eq; reflexivity|]. destruct (nodes c); [apply pols_from_eq; reflexivity|].
    destruct (ptnum c =? 0); apply pols_from_eq; reflexivity.
  - unfold update_pt. destruct (find _ (ptview c)); [|apply pols_from_eq; reflexivity]. destruct (_ || _); [apply pols_from_eq; reflexivity|].
    destruct (nth_error _ _); [|apply pols_from_eq; reflexivity]. destruct (negb _); [apply pols_from_eq; reflexivity|].
    destruct (_ && _); apply pols_from_eq; reflexivity.
  - cbn [fst ok]. rewrite (Hr eq_refl). apply pols_from_eq. reflexivity.
  - unfold create_mst_bad. destruct (get_pol c db rp) as [p|]; [|apply pols_from_eq; reflexivity].
    assert (A : forall v, pols_from c (fst (if schemafirst c then err c else (add_mst c p m v, false)))).
    { intros v. destruct (schemafirst c); [apply pols_from_eq; reflexivity | apply pols_from_add_mst]. }
    destruct (assoc m (rp_vers p)); [destruct (find_mst p m z) as [y|]; [destruct (ms_mark y)|]|]; try apply A. apply pols_from_eq; reflexivity.
  - unfold rename_rp. destruct (get_db c db) as [y|]; [|apply pols_from_eq; reflexivity].
    destruct (get_pol c db rp) as [p|]; [|apply pols_from_eq; reflexivity].
    match goal with |- context [if ?t then err c else _] => destruct t end; [apply pols_from_eq; reflexivity|].
    destruct (negb (spec_valid _ _)); [apply pols_from_eq; reflexivity|].
    destruct (rekey c); cbn [fst ok].
    + assert (A : forall X, pols_from c X -> pols_from c (if mkdef || (db_default y =? rp_nm p) then set_default X db nn else X)).
      { intros X HX. destruct (mkdef || _); [|exact HX]. intros q Hq. apply HX. exact Hq. }
      apply A. destruct (nn =? rp_name p).
      * eapply pols_from_updf; [reflexivity | pf_meta].
      * eapply pols_from_trans; [eapply (pols_from_filter c (set_pols c _)); reflexivity|].
        eapply pols_from_updf; [reflexivity | pf_meta].
    + destruct mkdef; (eapply pols_from_updf; [reflexivity | pf_meta]).
  - unfold cancel_delete_sg. destruct (get_pol c db rp) as [p|]; [|apply pols_from_eq; reflexivity].
    destruct (find _ (rp_sgs p)) as [g|]; [|apply pols_from_eq; reflexivity]. destruct (negb (sg_del g)); [apply pols_from_eq; reflexivity|].
    destruct (_ && _); [apply pols_from_eq; reflexivity|]. cbn [fst ok].
    eapply pols_from_updf; [reflexivity|]. intros q. apply pol_from_sgs_updf. intros g0. unfold sg_orig. cbn. auto.
  - unfold remove_node. apply pols_from_eq. reflexivity.
Qed.

(* ---- shard-group creation ---- *)
Lemma all_aligned_create_sg : forall c db rp t eng, wf c -> all_aligned c -> MINNANO <= t < MAXNANO1 ->
  all_aligned (fst (create_sg true c db rp t eng)).
Proof.
  intros c db rp t eng H AA Ht. unfold create_sg.
  destruct (ptnum c =? 0); [exact AA|]. destruct (get_pol c db rp) as [p|] eqn:Eg; [|exact AA].
  destruct (existsb (fun g => covers g t eng) (rp_sgs p)) eqn:Ecov; [exact AA|].
  destruct (rp_msts p); [exact AA|].
  destruct (ensure_ig c p t (new_sg_end true p t eng) eng) as [ig isnew]. cbn [fst ok].
  destruct (get_pol_spec _ _ _ _ Eg) as (_ & Hp & _).
  pose proof (wf_dur _ H) as DUR. rewrite Forall_forall in DUR.
  destruct (new_sgroup_ok c p ig t eng Ecov (DUR p Hp) Ht) as [Anew _].
  intros p' g' Hp' Hg'. unfold upd_pol in Hp'. cbn [pols set_pols set_sg_counters] in Hp'. apply updf_In in Hp'.
  destruct Hp' as [Hp'|[q [Hq [Pq ->]]]]; [exact (AA p' g' Hp' Hg')|].
  cbn [rp_sgs pol_set_sgs] in Hg'. apply In_insert_sg in Hg'. destruct Hg' as [->|Hg'].
  - exact Anew.
  - apply (AA q g' Hq). destruct isnew; exact Hg'.
Qed.

Lemma In_ix_ids_of : forall p ig i, In ig (rp_igs p) -> In i (ig_indexes ig) -> In (ix_id i) (ix_ids_of p).
Proof. intros. unfold ix_ids_of. apply in_flat_map. exists ig. split; [assumption | apply in_map; assumption]. Qed.

Lemma NoDup_app_parts : forall {A} (l1 l2 : list A), NoDup (l1 ++ l2) -> NoDup l1 /\ NoDup l2 /\ (forall x, In x l1 -> In x l2 -> False).
Proof.
  intros A. induction l1 as [|a l1 IH]; cbn; intros l2 HN.
  - split; [constructor|]. split; [exact HN | intros x []].
  - inversion HN; subst. destruct (IH l2 H2) as (N1 & N2 & D). split; [|split; [exact N2|]].
    + constructor; [|exact N1]. intro Hin. apply H1. apply in_or_app. left. exact Hin.
    + intros x [->|Hx] Hx2; [apply H1; apply in_or_app; right; exact Hx2 | exact (D x Hx Hx2)].
Qed.

(* within a well-formed catalogue an index id names one index group of its policy *)
Lemma ix_owner_unique : forall c p ig1 ig2 i1 i2, wf c -> In p (pols c) -> In ig1 (rp_igs p) -> In ig2 (rp_igs p) ->
  In i1 (ig_indexes ig1) -> In i2 (ig_indexes ig2) -> ix_id i1 = ix_id i2 -> ig1 = ig2.
Proof.
  intros c p ig1 ig2 i1 i2 H Hp H1 H2 Hi1 Hi2 E.
  destruct (wf_ix _ H) as [ND _]. unfold ix_ids in ND.
  assert (NDp : NoDup (ix_ids_of p)).
  { clear - ND Hp. induction (pols c) as [|a l IH]; [contradiction|]. cbn in ND. destruct (NoDup_app_parts _ _ ND) as (N1 & N2 & _).
    destruct Hp as [->|Hp]; [exact N1 | apply IH; assumption]. }
  unfold ix_ids_of in NDp. clear - NDp H1 H2 Hi1 Hi2 E.
  induction (rp_igs p) as [|g l IH]; [contradiction|]. cbn in NDp. destruct (NoDup_app_parts _ _ NDp) as (N1 & N2 & D).
  destruct H1 as [->|H1], H2 as [->|H2]; [reflexivity| | |].
  - exfalso. apply (D (ix_id i1)); [apply in_map; exact Hi1|].
    rewrite E. apply in_flat_map. exists ig2. split; [exact H2 | apply in_map; exact Hi2].
  - exfalso. apply (D (ix_id i2)); [apply in_map; exact Hi2|].
    rewrite <- E. apply in_flat_map. exists ig1. split; [exact H1 | apply in_map; exact Hi1].
  - apply IH; [exact H1 | exact H2 | exact N2].
Qed.

Lemma new_sg_end_le : forall p t eng, new_sg_end true p t eng <= MAXNANO1.
Proof.
  intros. unfold new_sg_end. eapply Z.le_trans; [apply clip_hi_le|]. unfold cell_end. lia.
Qed.

Lemma covered_create_sg : forall c db rp t eng, wf c -> covered c -> MINNANO <= t < MAXNANO1 ->
  covered (fst (create_sg true c db rp t eng)).
Proof.
  intros c db rp t eng H CV Ht.
  pose proof (wf_create_sg c db rp t eng H Ht) as W'. revert W'. unfold create_sg.
  destruct (ptnum c =? 0) eqn:Ept; [intros _; exact CV|]. destruct (get_pol c db rp) as [p|] eqn:Eg; [|intros _; exact CV].
  destruct (existsb (fun g => covers g t eng) (rp_sgs p)) eqn:Ecov; [intros _; exact CV|].
  destruct (rp_msts p); [intros _; exact CV|].
  destruct (ensure_ig c p t (new_sg_end true p t eng) eng) as [ig isnew] eqn:Eig. cbn [fst ok]. intros W'.
  pose proof (nonneg_get _ H) as NN.
  destruct (get_pol_spec _ _ _ _ Eg) as (Hfind & Hp & _). unfold find_pol in Hfind.
  destruct (ensure_ig_spec _ _ _ _ _ _ _ Eig) as (Ilen & Iold & Inew); [lia|].
  set (g := new_sgroup true c p ig t eng) in *.
  set (upd := fun q => pol_set_sgs (if isnew then pol_set_igs q (insert_ig ig (rp_igs q)) else q) (insert_sg g (rp_sgs q))) in *.
  unfold upd_pol in *. match type of W' with wf ?cc => set (c' := cc) in * end.
  assert (Hup : In (upd p) (pols c')) by (cbn [c' pols set_sg_counters set_pols]; apply In_updf_first; exact Hfind).
  assert (Hig_in : In ig (rp_igs (upd p))).
  { unfold upd. destruct isnew; cbn [rp_igs pol_set_sgs pol_set_igs]; [apply In_insert_ig; left; reflexivity | apply Iold; reflexivity]. }
  assert (Hend : sg_end g <= ig_end ig).
  { cbn [g new_sgroup sg_end]. destruct isnew.
    - rewrite (Inew eq_refl). cbn [new_igroup ig_end]. pose proof (new_sg_end_le p t eng). lia.
    - apply Iold. reflexivity. }
  unfold covered in *. rewrite Forall_forall in *. intros p' Hp'.
  cbn [c' pols set_sg_counters set_pols] in Hp'. apply updf_In in Hp'. destruct Hp' as [Hp'|[q [Hq [Pq ->]]]]; [exact (CV p' Hp')|].
  assert (q = p) by (eapply find_is_pol_unique; [exact H | exact Hfind | exact Hq | exact Pq]). subst q.
  intros g' s ig' i Hg' Hs Hig' Hi E.
  unfold upd in Hg'. cbn [rp_sgs pol_set_sgs] in Hg'. apply In_insert_sg in Hg'. destruct Hg' as [->|Hg'].
  - (* the new group: its shards use indexes of ig *)
    cbn [g new_sgroup sg_shards] in Hs. apply in_map_iff in Hs. destruct Hs as [k [<- Hk]]. cbn [sh_index] in E.
    apply (in_zseq _ (Z.to_nat (ptnum c)) 0 k eq_refl) in Hk.
    set (i0 := nth (Z.to_nat k) (ig_indexes ig) {| ix_id := 0; ix_owners := []; ix_mark := false |}) in *.
    assert (Hi0 : In i0 (ig_indexes ig)) by (apply nth_In; lia).
    assert (ig' = ig) by (eapply (ix_owner_unique c' (upd p)); [exact W' | exact Hup | exact Hig' | exact Hig_in | exact Hi | exact Hi0 | exact E]).
    subst ig'. exact Hend.
  - (* an old group *)
    pose proof (wf_refs _ H) as RR. rewrite Forall_forall in RR. destruct (RR p Hp g' s Hg' Hs) as (R1 & _).
    assert (Hold : In ig' (rp_igs p) \/ (isnew = true /\ ig' = ig)).
    { unfold upd in Hig'. destruct isnew; cbn [rp_igs pol_set_sgs pol_set_igs] in Hig'; [|left; exact Hig'].
      apply In_insert_ig in Hig'. destruct Hig' as [->|Hig']; [right; auto | left; exact Hig']. }
    destruct Hold as [Hold|[En ->]]; [exact (CV p Hp g' s ig' i Hg' Hs Hold Hi E)|].
    exfalso. rewrite (Inew En) in Hi. cbn [new_igroup ig_indexes] in Hi. apply in_map_iff in Hi. destruct Hi as [k [<- Hk]].
    cbn [ix_id] in E. apply (in_zseq _ (Z.to_nat (ptnum c)) 0 k eq_refl) in Hk.
    destruct (wf_ix _ H) as [_ F]. rewrite Forall_forall in F.
    assert (In (sh_index s) (ix_ids c)) by (unfold ix_ids; apply in_flat_map; exists p; split; assumption).
    specialize (F _ H0). cbv beta in F. lia.
Qed.
