(* C16: identifiers are never handed out twice. A command only introduces identifiers above the counters; with monotone
   counters and "ids at most the counters" (wf) an identifier that disappeared can never reappear. *)
From Coq Require Import ZArith List Bool Lia ZifyBool Sorting.Permutation.
From OG Require Import C16.Model C16.Wf C16.Lists C16.Proofs C16.ProofsCmd C16.ProofsSg C16.ProofsNew C16.ProofsInv C16.ProofsRun.
Import ListNotations.
Open Scope Z_scope.

Inductive kind := KSg | KSh | KIg | KIx | KMst | KNode.

Definition ids (k : kind) (c : cat) : list Z :=
  match k with KSg => sg_ids c | KSh => sh_ids c | KIg => ig_ids c | KIx => ix_ids c | KMst => mst_ids c | KNode => node_ids c end.
(* the largest identifier handed out so far (measurement ids are post-incremented from 0) *)
Definition issued (k : kind) (c : cat) : Z :=
  match k with KSg => max_sg c | KSh => max_sh c | KIg => max_ig c | KIx => max_ix c | KMst => max_mst c - 1 | KNode => max_node c end.

(* what one step may do to the identifiers: keep or drop old ones, add only fresh ones *)
Definition ids_step (c c' : cat) : Prop := forall k id, In id (ids k c') -> In id (ids k c) \/ issued k c < id.

Lemma ids_step_incl : forall c c', (forall k, incl (ids k c') (ids k c)) -> ids_step c c'.
Proof. intros c c' H k id Hin. left. apply (H k). exact Hin. Qed.

Lemma ids_step_refl : forall c, ids_step c c.
Proof. intros c. apply ids_step_incl. intros k. apply incl_refl. Qed.

(* per-policy projections *)
Definition pol_ids (k : kind) (p : policy) : list Z :=
  match k with
  | KSg => map sg_id (rp_sgs p) | KSh => sh_ids_of p | KIg => map ig_id (rp_igs p) | KIx => ix_ids_of p
  | KMst => map ms_id (rp_msts p) | KNode => []
  end.

Lemma ids_flat : forall k c, k <> KNode -> ids k c = flat_map (pol_ids k) (pols c).
Proof. intros k c Hk. destruct k; try reflexivity. contradiction. Qed.

Definition pol_ids_sub (p p' : policy) : Prop := forall k, subl (pol_ids k p') (pol_ids k p).

Lemma pol_ids_sub_refl : forall p, pol_ids_sub p p.
Proof. intros p k. apply subl_refl. Qed.

Lemma ids_step_pols : forall c c', Forall2 pol_ids_sub (pols c) (pols c') -> nodes c' = nodes c -> ids_step c c'.
Proof.
  intros c c' HF Hn. apply ids_step_incl. intros k id Hin.
  destruct (match k with KNode => true | _ => false end) eqn:E.
  - destruct k; try discriminate. cbn [ids] in *. unfold node_ids in *. rewrite Hn in Hin. exact Hin.
  - rewrite ids_flat in * by (destruct k; discriminate).
    eapply subl_In; [|exact Hin]. apply Forall2_flat_map_subl. eapply (Forall2_impl pol_ids_sub); [|exact HF].
    intros x y S. apply S.
Qed.

Lemma ids_incl_pols : forall c c', Forall2 pol_ids_sub (pols c) (pols c') -> nodes c' = nodes c -> forall k, incl (ids k c') (ids k c).
Proof.
  intros c c' HF Hn k id Hin.
  destruct (match k with KNode => true | _ => false end) eqn:E.
  - destruct k; try discriminate. cbn [ids] in *. unfold node_ids in *. rewrite Hn in Hin. exact Hin.
  - rewrite ids_flat in * by (destruct k; discriminate).
    eapply subl_In; [|exact Hin]. apply Forall2_flat_map_subl. eapply (Forall2_impl pol_ids_sub); [|exact HF].
    intros x y S. apply S.
Qed.

Lemma ids_incl_filter : forall c c' f, pols c' = filter f (pols c) -> nodes c' = nodes c -> forall k, incl (ids k c') (ids k c).
Proof.
  intros c c' f Ep En k id Hin. destruct k; cbn [ids] in *;
    unfold sg_ids, sh_ids, ig_ids, ix_ids, mst_ids, node_ids in *; rewrite ?Ep, ?En in Hin;
    try (eapply subl_In; [apply subl_flat_map, subl_filter | exact Hin]). exact Hin.
Qed.

Lemma pol_shrink_ids_sub : forall p p', pol_shrink p p' -> pol_ids_sub p p'.
Proof.
  intros p p' (_ & _ & _ & (mid & M1 & M2) & S1 & S2 & S3 & _) k. destruct k; cbn [pol_ids].
  - rewrite <- (sg_sim_ids _ _ M1). apply subl_map. exact M2.
  - unfold sh_ids_of. rewrite <- (sg_sim_sh_ids _ _ M1). apply subl_flat_map. exact M2.
  - exact S1.
  - exact S2.
  - exact S3.
  - apply subl_refl.
Qed.

Lemma ids_step_upd_pol : forall c db n g, (forall q, pol_ids_sub q (g q)) -> ids_step c (upd_pol c db n g).
Proof.
  intros c db n g H. apply ids_step_pols; [|reflexivity]. unfold upd_pol. cbn [pols set_pols].
  apply updf_Forall2; [apply pol_ids_sub_refl | intros; apply H].
Qed.

Lemma pol_ids_sub_meta : forall p p', rp_sgs p' = rp_sgs p -> rp_igs p' = rp_igs p -> subl (map ms_id (rp_msts p')) (map ms_id (rp_msts p)) ->
  pol_ids_sub p p'.
Proof.
  intros p p' E1 E2 S k. destruct k; cbn [pol_ids]; unfold sh_ids_of, ix_ids_of; rewrite ?E1, ?E2; try apply subl_refl. exact S.
Qed.

Lemma ids_step_trans_db : forall c c1 c2, ids_step c c1 -> (forall k, ids k c2 = ids k c1) -> ids_step c c2.
Proof. intros c c1 c2 H E k id Hin. rewrite E in Hin. apply H. exact Hin. Qed.

Lemma ids_step_same : forall c c', (forall k, ids k c' = ids k c) -> ids_step c c'.
Proof. intros c c' E. eapply ids_step_trans_db; [apply ids_step_refl | exact E]. Qed.

Lemma ids_set_default : forall c db n k, ids k (set_default c db n) = ids k c.
Proof. intros. destruct k; reflexivity. Qed.

Lemma ids_step_filter : forall c c' f, pols c' = filter f (pols c) -> nodes c' = nodes c -> ids_step c c'.
Proof.
  intros c c' f Ep En. apply ids_step_incl. intros k id Hin. destruct k; cbn [ids] in *;
    unfold sg_ids, sh_ids, ig_ids, ix_ids, mst_ids, node_ids in *; rewrite ?Ep, ?En in Hin;
    try (eapply subl_In; [apply subl_flat_map, subl_filter | exact Hin]). exact Hin.
Qed.

Lemma ids_step_snoc : forall c c' db n d sgd igd, pols c' = pols c ++ [new_policy db n d sgd igd] -> nodes c' = nodes c -> ids_step c c'.
Proof.
  intros c c' db n d sgd igd Ep En. apply ids_step_incl. intros k id Hin. destruct k; cbn [ids] in *;
    unfold sg_ids, sh_ids, ig_ids, ix_ids, mst_ids, node_ids in *; rewrite ?Ep, ?En in Hin;
    try (rewrite flat_map_snoc_nil in Hin by reflexivity); exact Hin.
Qed.

(* ---- the step lemma ---- *)
Lemma perm_new : forall (l' extra l : list Z) m id, Permutation l' (extra ++ l) -> Forall (fun x => m < x) extra -> In id l' -> In id l \/ m < id.
Proof.
  intros l' extra l m id HP HF Hin. apply (Permutation_in _ HP) in Hin. apply in_app_iff in Hin. destruct Hin as [Hin|Hin]; [right|left; exact Hin].
  rewrite Forall_forall in HF. apply HF. exact Hin.
Qed.

Lemma ids_step_add_mst : forall c p m ver, find_pol c (rp_db p) (rp_name p) = Some p -> ids_step c (add_mst c p m ver).
Proof.
  intros c p m ver Hf k id Hin. unfold add_mst, upd_pol in Hin.
  destruct k; cbn [ids issued] in *;
    unfold sg_ids, sh_ids, sh_ids_of, ig_ids, ix_ids, ix_ids_of, mst_ids, node_ids in *; cbn [pols nodes set_pols set_max_mst] in Hin;
    try (rewrite updf_flat_map_same in Hin by reflexivity; left; exact Hin); [|left; exact Hin].
  eapply (perm_new _ [max_mst c]); [|constructor; [|constructor]|exact Hin]; [|lia].
  apply (updf_flat_map_perm _ _ _ _ p); [exact Hf|]. cbn [rp_msts pol_set_msts]. rewrite map_app. apply Permutation_app_comm.
Qed.

Lemma ids_step_create_sg : forall c db rp t eng, wf c -> ids_step c (fst (create_sg true c db rp t eng)).
Proof.
  intros c db rp t eng H. unfold create_sg.
  destruct (ptnum c =? 0); [apply ids_step_refl|].
  destruct (get_pol c db rp) as [p|] eqn:Eg; [|apply ids_step_refl].
  destruct (existsb _ (rp_sgs p)); [apply ids_step_refl|].
  destruct (rp_msts p) as [|m0 mr]; [apply ids_step_refl|].
  destruct (ensure_ig c p t (new_sg_end true p t eng) eng) as [ig isnew] eqn:Eig. cbn [fst ok].
  pose proof (nonneg_get _ H) as NN.
  destruct (get_pol_spec _ _ _ _ Eg) as (Hfind & Hp & Edb & _). unfold find_pol in Hfind.
  destruct (ensure_ig_spec _ _ _ _ _ _ _ Eig) as (_ & _ & Inew); [lia|].
  set (n := Z.to_nat (ptnum c)).
  intros k id Hin. unfold upd_pol in Hin.
  destruct k; cbn [ids issued] in *; unfold sg_ids, sh_ids, ig_ids, ix_ids, mst_ids, node_ids in *;
    cbn [pols nodes set_pols set_sg_counters] in Hin.
  - eapply (perm_new _ [max_sg c + 1]); [|constructor; [|constructor]|exact Hin]; [|lia].
    apply (updf_flat_map_perm _ _ _ _ p); [exact Hfind|]. cbn [rp_sgs pol_set_sgs].
    eapply Permutation_trans; [apply Permutation_map, insert_sg_perm|]. apply Permutation_refl.
  - eapply (perm_new _ (map sh_id (sg_shards (new_sgroup true c p ig t eng)))); [| |exact Hin].
    + apply (updf_flat_map_perm _ _ _ _ p); [exact Hfind|]. unfold sh_ids_of. cbn [rp_sgs pol_set_sgs].
      eapply Permutation_trans; [apply Permutation_flat_map, insert_sg_perm|]. apply Permutation_refl.
    + cbn [new_sgroup sg_shards]. rewrite map_map. cbn [sh_id]. fold n.
      eapply Forall_impl; [|apply (zseq_shift_bounds (max_sh c + 1) n)]. cbv beta. intros. lia.
  - destruct isnew.
    + eapply (perm_new _ [max_ig c + 1]); [|constructor; [|constructor]|exact Hin]; [|lia].
      apply (updf_flat_map_perm _ _ _ _ p); [exact Hfind|]. cbn [rp_igs pol_set_sgs pol_set_igs].
      eapply Permutation_trans; [apply Permutation_map, insert_ig_perm|]. rewrite (Inew eq_refl). apply Permutation_refl.
    + rewrite updf_flat_map_same in Hin by reflexivity. left. exact Hin.
  - destruct isnew.
    + eapply (perm_new _ (map ix_id (ig_indexes ig))); [| |exact Hin].
      * apply (updf_flat_map_perm _ _ _ _ p); [exact Hfind|]. unfold ix_ids_of. cbn [rp_igs pol_set_sgs pol_set_igs].
        eapply Permutation_trans; [apply Permutation_flat_map, insert_ig_perm|]. apply Permutation_refl.
      * rewrite (Inew eq_refl). cbn [new_igroup ig_indexes]. rewrite map_map. cbn [ix_id]. fold n.
        eapply Forall_impl; [|apply (zseq_shift_bounds (max_ix c + 1) n)]. cbv beta. intros. lia.
    + rewrite updf_flat_map_same in Hin by reflexivity. left. exact Hin.
  - rewrite updf_flat_map_same in Hin; [left; exact Hin|]. intros x _. destruct isnew; reflexivity.
  - left. exact Hin.
Qed.

Lemma ids_step_create_node : forall c h t, ids_step c (fst (create_node c h t)).
Proof.
  intros c h t k id Hin. unfold create_node in Hin.
  destruct (existsb (fun n => nd_http n =? h) (nodes c)); [|destruct (existsb (fun n => nd_tcp n =? t) (nodes c))]; cbn [fst ok] in Hin;
    destruct k; cbn [ids issued] in *; try (left; exact Hin); unfold node_ids in *; cbn [nodes set_nodes] in Hin.
  - rewrite updf_map_same in Hin by reflexivity. left. exact Hin.
  - rewrite updf_map_same in Hin by reflexivity. left. exact Hin.
  - rewrite map_app in Hin. apply in_app_iff in Hin. destruct Hin as [Hin|Hin]; [left; exact Hin|right]. cbn in Hin. lia.
Qed.

Lemma step_ids : forall c x, wf c -> ids_step c (fst (apply true true c x)).
Proof.
  intros c x H. destruct x; cbn [apply].
  - (* create_db *) unfold create_db.
    destruct (db =? 0); [apply ids_step_refl|]. destruct (ptnum c =? 0); [apply ids_step_refl|].
    destruct (find_db c db) as [y|]; [destruct (db_mark y); apply ids_step_refl|].
    destruct (rp =? 0); [apply ids_step_refl|]. destruct (negb _); [apply ids_step_refl|]. cbn [fst ok].
    eapply ids_step_snoc; reflexivity.
  - unfold mark_db. destruct (find_db c db) as [y|]; [|apply ids_step_refl]. destruct (db_mark y); [apply ids_step_refl|]. cbn [fst ok].
    eapply ids_step_trans_db; [apply ids_step_refl|]. intros k. destruct k; reflexivity.
  - unfold drop_db. destruct (find_db c db); [|apply ids_step_refl]. cbn [fst ok]. eapply ids_step_filter; reflexivity.
  - (* create_rp *) unfold create_rp.
    destruct (get_db c db); [|apply ids_step_refl]. destruct (rp =? 0); [apply ids_step_refl|].
    destruct (negb (spec_valid _ _)); [apply ids_step_refl|].
    destruct (find_pol c db rp).
    { destruct (negb _); [apply ids_step_refl|]. destruct (_ && _); apply ids_step_refl. }
    cbn [fst ok]. destruct mkdef; [eapply ids_step_trans_db; [|intros; apply ids_set_default]|]; eapply ids_step_snoc; reflexivity.
  - (* update_rp *) unfold update_rp.
    destruct (get_pol c db rp) as [p|]; [|apply ids_step_refl]. destruct (negb _); [apply ids_step_refl|]. cbn [fst ok].
    destruct mkdef; [eapply ids_step_trans_db; [|intros; apply ids_set_default]|];
      apply ids_step_upd_pol; intros q; apply pol_ids_sub_meta; try reflexivity; apply subl_refl.
  - unfold mark_rp. destruct (get_pol c db rp) as [p|]; [|apply ids_step_refl]. cbn [fst ok].
    apply ids_step_upd_pol; intros q; apply pol_ids_sub_meta; try reflexivity; apply subl_refl.
  - (* drop_rp *) unfold drop_rp. destruct (get_db c db) as [y|]; [|apply ids_step_refl]. cbn [fst ok andb].
    destruct (db_default y =? rp); [eapply ids_step_trans_db; [|intros; apply ids_set_default]|]; eapply ids_step_filter; reflexivity.
  - unfold set_default_rp. destruct (get_pol c db rp); [|apply ids_step_refl]. cbn [fst ok].
    eapply ids_step_trans_db; [apply ids_step_refl | intros; apply ids_set_default].
  - (* create_mst *) unfold create_mst. destruct (get_pol c db rp) as [p|] eqn:Eg; [|apply ids_step_refl].
    destruct (get_pol_spec _ _ _ _ Eg) as (Hf & _ & Edb & _). rewrite <- Edb in Hf.
    destruct (assoc m (rp_vers p)); [destruct (find_mst p m z) as [y|]; [destruct (ms_mark y)|]|]; cbn [fst ok];
      try apply ids_step_refl; apply ids_step_add_mst; exact Hf.
  - unfold mark_mst. destruct (get_pol c db rp) as [p|]; [|apply ids_step_refl].
    destruct (cur_mst p m) as [y|]; [|apply ids_step_refl]. destruct (ms_mark y); [apply ids_step_refl|]. cbn [fst ok].
    apply ids_step_upd_pol; intros q; apply pol_ids_sub_meta; try reflexivity. cbn [rp_msts pol_set_msts].
    rewrite updf_map_same; [apply subl_refl | reflexivity].
  - unfold drop_mst. destruct (get_pol c db rp) as [p|]; [|apply ids_step_refl]. cbn [fst ok].
    apply ids_step_upd_pol; intros q; apply pol_ids_sub_meta; try reflexivity. cbn [rp_msts pol_set_msts]. apply subl_map, subl_filter.
  - apply ids_step_create_sg. exact H.
  - (* delete_sg *) unfold delete_sg. destruct (get_pol c db rp) as [p|]; [|apply ids_step_refl]. cbn [fst ok].
    apply ids_step_upd_pol. intros q. apply pol_shrink_ids_sub.
    unfold pol_shrink. cbn [rp_sgdur rp_db rp_name rp_sgs rp_igs rp_msts pol_set_sgs]. repeat split; try apply subl_refl; [|auto].
    eexists. split; [|apply subl_refl]. apply updf_Forall2; [apply sg_sim_refl | intros; apply sg_sim_set_del].
  - unfold prune_sg. cbn [fst ok]. apply ids_step_pols; [|reflexivity]. cbn [pols set_pols].
    apply Forall2_map_r. intros p. apply pol_shrink_ids_sub. apply prune_sg_pol_shrink.
  - (* delete_ig *) unfold delete_ig. destruct (get_pol c db rp) as [p|]; [|apply ids_step_refl]. cbn [fst ok].
    apply ids_step_upd_pol. intros q k. destruct k; cbn [pol_ids]; unfold sh_ids_of, ix_ids_of; cbn [rp_sgs rp_igs rp_msts pol_set_igs];
      try apply subl_refl.
    + rewrite updf_map_same; [apply subl_refl | reflexivity].
    + rewrite updf_flat_map_same; [apply subl_refl | reflexivity].
  - (* prune_ig *) unfold prune_ig. cbn [fst ok]. apply ids_step_pols; [|reflexivity]. cbn [pols set_pols].
    apply Forall2_map_r. intros p k. destruct k; cbn [pol_ids]; unfold sh_ids_of, ix_ids_of, prune_ig_pol; cbn [rp_sgs rp_igs rp_msts pol_set_igs];
      try apply subl_refl.
    + eapply subl_trans; [apply subl_map, subl_filter|]. rewrite map_map. erewrite map_ext; [apply subl_refl|]. intros a. apply prune_mark_ig_ids.
    + eapply subl_trans; [apply subl_flat_map, subl_filter|].
      rewrite flat_map_concat_map, map_map, <- flat_map_concat_map. erewrite flat_map_ext; [apply subl_refl|]. intros a. apply prune_mark_ig_ids.
  - apply ids_step_create_node.
  - unfold create_ptview. destruct (existsb _ _); [apply ids_step_refl|]. destruct (nodes c) eqn:En; [apply ids_step_refl|].
    destruct (ptnum c =? 0); [apply ids_step_refl|]. cbn [fst ok]. apply ids_step_same. intros k. destruct k; reflexivity.
  - unfold update_pt. destruct (find _ (ptview c)); [|apply ids_step_refl]. destruct (_ || _); [apply ids_step_refl|].
    destruct (nth_error _ _); [|apply ids_step_refl]. destruct (negb _); [apply ids_step_refl|]. destruct (_ && _); [apply ids_step_refl|].
    cbn [fst ok]. apply ids_step_same. intros k. destruct k; reflexivity.
  - (* restore: identifiers are untouched whatever happens to the instants *)
    cbn [fst ok]. apply ids_step_pols; [|reflexivity]. unfold restore_state. cbn [pols set_pols]. apply Forall2_map_r.
    intros p k. destruct k; cbn [pol_ids]; unfold sh_ids_of, ix_ids_of; cbn [rp_sgs rp_igs rp_msts pol_set_sgs pol_set_igs];
      rewrite ?map_map, ?flat_map_concat_map, ?map_map; cbn [sg_id ig_id restore_sg restore_ig sg_shards ig_indexes]; apply subl_refl.
  - (* create_mst_bad *) unfold create_mst_bad. destruct (get_pol c db rp) as [p|] eqn:Eg; [|apply ids_step_refl].
    destruct (get_pol_spec _ _ _ _ Eg) as (Hf & _ & Edb & _). rewrite <- Edb in Hf.
    assert (A : forall v, ids_step c (fst (if schemafirst c then err c else (add_mst c p m v, false)))).
    { intros v. destruct (schemafirst c); [apply ids_step_refl | apply ids_step_add_mst; exact Hf]. }
    destruct (assoc m (rp_vers p)); [destruct (find_mst p m z) as [y|]; [destruct (ms_mark y)|]|]; try apply A. apply ids_step_refl.
  - (* rename_rp *) unfold rename_rp. destruct (get_db c db) as [y|]; [|apply ids_step_refl].
    destruct (get_pol c db rp) as [p|]; [|apply ids_step_refl].
    match goal with |- context [if ?t then err c else _] => destruct t end; [apply ids_step_refl|].
    destruct (negb (spec_valid _ _)); [apply ids_step_refl|].
    destruct (rekey c); cbn [fst ok].
    + assert (A : forall X, ids_step c X -> ids_step c (if mkdef || (db_default y =? rp_nm p) then set_default X db nn else X)).
      { intros X HX. destruct (mkdef || _); [|exact HX]. eapply ids_step_trans_db; [exact HX | intros; apply ids_set_default]. }
      apply A. destruct (nn =? rp_name p).
      * apply ids_step_upd_pol; intros q; apply pol_ids_sub_meta; try reflexivity; apply subl_refl.
      * apply ids_step_incl. intros k0. eapply incl_tran.
        -- apply (ids_incl_pols (set_pols c (filter (fun q => negb (is_pol db nn q)) (pols c)))); [|reflexivity]. unfold upd_pol. cbn [pols set_pols].
           apply updf_Forall2; [apply pol_ids_sub_refl | intros q _; apply pol_ids_sub_meta; try reflexivity; apply subl_refl].
        -- eapply ids_incl_filter; reflexivity.
    + destruct mkdef; try (eapply ids_step_trans_db; [|intros; apply ids_set_default]);
        apply ids_step_upd_pol; intros q; apply pol_ids_sub_meta; try reflexivity; apply subl_refl.
  - (* cancel_delete_sg *) unfold cancel_delete_sg. destruct (get_pol c db rp) as [p|]; [|apply ids_step_refl].
    destruct (find _ (rp_sgs p)) as [g|]; [|apply ids_step_refl]. destruct (negb (sg_del g)); [apply ids_step_refl|].
    destruct (_ && _); [apply ids_step_refl|]. cbn [fst ok].
    apply ids_step_upd_pol. intros q k. destruct k; cbn [pol_ids]; unfold sh_ids_of, ix_ids_of; cbn [rp_sgs rp_igs rp_msts pol_set_sgs];
      try apply subl_refl.
    + rewrite updf_map_same; [apply subl_refl | reflexivity].
    + rewrite updf_flat_map_same; [apply subl_refl | reflexivity].
  - (* remove_node *) unfold remove_node. cbn [fst ok]. apply ids_step_incl. intros k id0 Hin. destruct k; cbn [ids] in *; try exact Hin.
    unfold node_ids in *. cbn [nodes set_nodes] in Hin. eapply subl_In; [apply subl_map, subl_filter | exact Hin].
Qed.

(* ---- runs ---- *)
Lemma issued_mono : forall k c x, wf c -> issued k c <= issued k (fst (apply true true c x)).
Proof.
  intros k c x H. pose proof (nonneg_get _ H) as NN.
  assert (0 <= ptper c \/ ptper c < 0) as [Hp|Hp] by lia.
  - destruct (counters_mono true true c x) as (A & B & C & D & E & F & _); [lia | exact Hp|]. destruct k; cbn [issued]; lia.
  - (* a negative PtNumPerNode never raises the partition count; the other counters do not depend on it *)
    destruct x; cbn [apply];
      unfold create_db, mark_db, drop_db, create_rp, update_rp, mark_rp, drop_rp, set_default_rp, create_mst, mark_mst, drop_mst,
        create_sg, delete_sg, prune_sg, delete_ig, prune_ig, create_node, create_ptview, update_pt, create_mst_bad, rename_rp,
        cancel_delete_sg, remove_node, ok, err, add_mst, set_default, upd_pol, upd_db, restore_state;
      repeat match goal with
             | |- context [match ?e with _ => _ end] => destruct e eqn:?; cbn [fst snd]
             | |- context [if ?e then _ else _] => destruct e eqn:?; cbn [fst snd]
             end; destruct k; cbn; lia.
Qed.

Lemma ids_le_issued : forall k c id, wf c -> In id (ids k c) -> id <= issued k c.
Proof.
  intros k c id H Hin. destruct k; cbn [ids issued] in *.
  - destruct (wf_sg _ H) as [_ F]. rewrite Forall_forall in F. specialize (F _ Hin). cbn in F. lia.
  - destruct (wf_sh _ H) as [_ F]. rewrite Forall_forall in F. specialize (F _ Hin). cbn in F. lia.
  - destruct (wf_ig _ H) as [_ F]. rewrite Forall_forall in F. specialize (F _ Hin). cbn in F. lia.
  - destruct (wf_ix _ H) as [_ F]. rewrite Forall_forall in F. specialize (F _ Hin). cbn in F. lia.
  - destruct (wf_mst _ H) as [_ F]. rewrite Forall_forall in F. specialize (F _ Hin). cbn in F. lia.
  - destruct (wf_node _ H) as [_ F]. rewrite Forall_forall in F. specialize (F _ Hin). cbn in F. lia.
Qed.

(* an identifier at most the issued mark that is absent now stays absent for ever *)
Lemma gone_stays_gone : forall xs c k id, good c -> env_run c xs -> id <= issued k c -> ~ In id (ids k c) ->
  ~ In id (ids k (run true true c xs)).
Proof.
  induction xs; intros c k id G E Hle Hnot; cbn [run]; [exact Hnot|]. destruct E as [E1 E2]. pose proof (proj1 G) as H.
  apply IHxs; [apply good_step; assumption | exact E2 | |].
  - eapply Z.le_trans; [exact Hle | apply issued_mono; exact H].
  - intro Hin. destruct (step_ids c a H k id Hin) as [Hold|Hnew]; [contradiction | lia].
Qed.

Theorem ids_never_reused : forall xs ys c k id, good c -> env_run c (xs ++ ys) ->
  In id (ids k c) -> ~ In id (ids k (run true true c xs)) -> ~ In id (ids k (run true true c (xs ++ ys))).
Proof.
  intros xs ys c k id G E Hin Hgone. pose proof (proj1 G) as H.
  assert (Esplit : env_run c xs /\ env_run (run true true c xs) ys).
  { clear - E. revert c E. induction xs; intros c E; cbn in *; [tauto|]. destruct E as [E1 E2]. destruct (IHxs _ E2). tauto. }
  destruct Esplit as [Ex Ey].
  assert (R : run true true c (xs ++ ys) = run true true (run true true c xs) ys).
  { clear. revert c. induction xs; intros c; cbn; [reflexivity | apply IHxs]. }
  rewrite R. apply gone_stays_gone; [apply good_run; assumption | exact Ey | | exact Hgone].
  (* id <= issued at the start <= issued after xs *)
  eapply Z.le_trans; [apply ids_le_issued; eassumption|].
  clear - G Ex. revert c G Ex. induction xs; intros c G Ex; cbn [run]; [lia|]. destruct Ex as [E1 E2].
  eapply Z.le_trans; [apply issued_mono; exact (proj1 G) | apply IHxs; [apply good_step; assumption | exact E2]].
Qed.
