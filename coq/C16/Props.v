(* C16 property theorems (placeholder while the proofs are being written). *)
From Coq Require Import ZArith List Bool.
From OG Require Import C16.Model.
Import ListNotations.
Open Scope Z_scope.

Example C16_init_wf_b : forall per sc, wf_b (init_cat per sc) = true.
Proof. intros. reflexivity. Qed.
