(* C16 property theorems. Nothing but statements closed by `exact lemma`, Print Assumptions and non-vacuity Examples.
   apply true true = the repaired step function (new shard groups clipped to their live neighbours; dropping the default
   policy clears the default name); apply false false = today's code, refuted in Refuted.v. *)
From Coq Require Import ZArith List Bool.
From OG Require Import C16.Model C16.Wf C16.Proofs C16.ProofsCmd C16.ProofsSg C16.ProofsRun C16.ProofsIds C16.Order.
Import ListNotations.
Open Scope Z_scope.

(* the boolean the correspondence evaluates on dumps of the REAL catalogue is the statement *)
Theorem C16_wf_b_is_wf : forall c, wf_b c = true <-> wf c.
Proof. exact wf_b_iff. Qed.
Print Assumptions C16_wf_b_is_wf.

Theorem C16_wf_init : forall per sc cl, wf (init_cat_v per sc cl).
Proof. exact wf_init_v. Qed.
Print Assumptions C16_wf_init.

(* every one of the 19 modelled commands, with any arguments (valid or not), preserves well-formedness:
   live groups of a policy and engine type pairwise disjoint, inside one cell of their creation-time duration, list sorted;
   all ids unique, positive, at most their counters; every shard's index and owner partitions exist; defaults resolve. *)
Theorem C16_wf_preserved : forall c x, wf c -> env_ok c x -> wf (fst (apply_repaired c x)).
Proof. exact wf_step. Qed.
Print Assumptions C16_wf_preserved.

(* after every single step of every command sequence *)
Theorem C16_wf_every_prefix : forall xs k per sc cl, env_run (init_cat_v per sc cl) xs -> wf (run true true (init_cat_v per sc cl) (firstn k xs)).
Proof. intros xs k per sc cl. apply wf_run_prefix. apply wf_init_v. Qed.
Print Assumptions C16_wf_every_prefix.

(* a command that fails leaves the catalogue unchanged (both variants) *)
Theorem C16_failed_identity : forall clip cleardef c x, snd (apply clip cleardef c x) = false -> fst (apply clip cleardef c x) = c.
Proof. exact failed_is_identity. Qed.
Print Assumptions C16_failed_identity.

(* id counters never decrease (both variants of the step function) *)
Theorem C16_counters_monotone : forall clip cleardef c x, 0 <= ptnum c -> 0 <= ptper c ->
  counters_le c (fst (apply clip cleardef c x)).
Proof. exact counters_mono. Qed.
Print Assumptions C16_counters_monotone.

(* a command only introduces identifiers above everything issued so far (kinds: shard group, shard, index group, index,
   measurement, node) *)
Theorem C16_new_ids_fresh : forall c x k id, wf c ->
  In id (ids k (fst (apply_repaired c x))) -> In id (ids k c) \/ issued k c < id.
Proof. intros c x k id H. exact (step_ids c x H k id). Qed.
Print Assumptions C16_new_ids_fresh.

(* identifiers are never handed out twice, even after deletions: an identifier present at some point and gone after the
   commands xs is absent after any continuation ys *)
Theorem C16_ids_never_reused : forall xs ys c k id, wf c -> env_run c (xs ++ ys) ->
  In id (ids k c) -> ~ In id (ids k (run true true c xs)) -> ~ In id (ids k (run true true c (xs ++ ys))).
Proof. exact ids_never_reused. Qed.
Print Assumptions C16_ids_never_reused.

(* the repaired creation: the new group contains the instant, is inside one cell, and is disjoint from every live group *)
Theorem C16_new_group_disjoint : forall c p ig t eng,
  existsb (fun g => covers g t eng) (rp_sgs p) = false -> 0 < rp_sgdur p -> MINNANO <= t < MAXNANO1 ->
  aligned (new_sgroup true c p ig t eng) /\ Forall (disjoint2 (new_sgroup true c p ig t eng)) (rp_sgs p).
Proof. exact new_sgroup_ok. Qed.
Print Assumptions C16_new_group_disjoint.

(* TODAY's creation (no clipping) also preserves well-formedness as long as the live groups of that engine type are whole cells
   of the policy's current shard-group duration, i.e. the duration was not changed since they were created. PARTIAL with
   respect to the statement: without that hypothesis today's code is refuted (Refuted.v, C16_overlap_refuted). *)
Theorem C16_disjoint_partial : forall c db rp t eng, wf c -> MINNANO <= t < MAXNANO1 ->
  (forall p, get_pol c db rp = Some p -> full_cells p eng) ->
  wf (fst (create_sg false c db rp t eng)).
Proof. exact wf_create_sg_current. Qed.
Print Assumptions C16_disjoint_partial.

(* C15 on this command model: the step function is a function of (state, command) - replicas applying the same log hold the
   same state - and a snapshot/restore inserted at any position of a log is invisible, provided every instant of the catalogue
   at that position is representable as int64 nanoseconds (both variants of the step function) *)
Theorem C16_restore_transparent : forall clip cleardef l1 l2 c, representable (run clip cleardef c l1) ->
  run clip cleardef c (l1 ++ Restore :: l2) = run clip cleardef c (l1 ++ l2).
Proof. exact restore_transparent. Qed.
Print Assumptions C16_restore_transparent.

(* ---- C15 on this command model: explicit map-iteration-order oracles (Order.v) ----
   shard_type: the sharding type of a measurement; range_create: the unmodelled RANGE branch, abstract; an oracle returns some
   element of a non-empty collection. Under uniform sharding one step gives the same state AND the same result for any two
   valid oracles, for all 20 commands (only CreateShardGroup and CreateMeasurement consult the oracle). *)
Theorem apply_order_independent : forall shard_type range_create clip cleardef c x o1 o2,
  valid o1 -> valid o2 -> uniform_sharding shard_type c ->
  applyO shard_type range_create clip cleardef o1 c x = applyO shard_type range_create clip cleardef o2 c x.
Proof. exact apply_order_independent_lemma. Qed.
Print Assumptions apply_order_independent.

(* two replicas applying the same log, each under its own sequence of oracles, end in the same state and return the same
   result for every command, provided uniform sharding holds in the states one of them goes through (today's code does not
   maintain that invariant by itself: see the note in Order.v) *)
Theorem C15_convergence : forall shard_type range_create clip cleardef xs os1 os2 c,
  length os1 = length xs -> length os2 = length xs -> Forall valid os1 -> Forall valid os2 ->
  uniform_along shard_type range_create clip cleardef os1 c xs ->
  runO shard_type range_create clip cleardef os1 c xs = runO shard_type range_create clip cleardef os2 c xs.
Proof. exact convergence_lemma. Qed.
Print Assumptions C15_convergence.

(* for the HASH-only catalogues of the correspondence the oracle step IS the step function compared with the real code *)
Theorem C15_oracle_step_is_model_step : forall range_create clip cleardef o c x, valid o ->
  applyO (fun _ => 0) range_create clip cleardef o c x = apply clip cleardef c x.
Proof. intros. apply applyO_hash; [assumption | reflexivity]. Qed.
Print Assumptions C15_oracle_step_is_model_step.

(* non-vacuity: the environment hypotheses are satisfiable on a run that creates, alters, deletes and prunes *)
Definition example_run : list cmd :=
  [CreateNode 1 1; CreateDb 1 1 0 HOUR; CreateMst 1 1 1; CreateSg 1 1 1700042400000000005 0;
   UpdateRp 1 1 None (Some DAY) false; CreateSg 1 1 1700053200000000000 0; CreateNode 2 2; CreateSg 1 1 0 0;
   DeleteSg 1 1 1; PruneSg 1; PruneIg 77; Restore; MarkRp 1 1; DropRp 1 1; CreateSg 1 0 5 0].

Example C16_example_env : env_run (init_cat 1 true) example_run.
Proof. apply env_run_b_sound. vm_compute. reflexivity. Qed.

Example C16_example_state :
  let c := run true true (init_cat 1 true) example_run in
  wf_b c = true /\ map db_default (dbs c) = [0].
Proof. vm_compute. repeat split. Qed.
