(* C16 property theorems. Nothing but statements closed by `exact lemma`, Print Assumptions and non-vacuity Examples.
   apply true true on a catalogue with rekey = safecancel = true ([repaired]) is the repaired step function: new shard groups
   clipped to their live neighbours, dropping the default policy clears the default name, a rename moves the map entry, a
   cancelled deletion does not revive a group under a live one. The variants without a repair are refuted in Refuted.v.
   [good] = wf (the statement) + all_aligned (every group, deleted or not, lies in one cell: needed to revive a group) +
   covered (the C14 clause) + repaired; it is the inductive invariant. *)
From Coq Require Import ZArith List Bool Lia.
From OG Require Import C16.Model C16.Wf C16.Proofs C16.ProofsCmd C16.ProofsSg C16.ProofsNew C16.ProofsInv C16.ProofsRun C16.ProofsIds C16.Order
  C16.Expand C16.ProofsExpand C16.ProofsExpandWf.
Import ListNotations.
Open Scope Z_scope.

(* the boolean the correspondence evaluates on dumps of the REAL catalogue is the statement *)
Theorem C16_wf_b_is_wf : forall c, wf_b c = true <-> wf c.
Proof. exact wf_b_iff. Qed.
Print Assumptions C16_wf_b_is_wf.

Theorem C16_covered_b_is_covered : forall c, covered_b c = true <-> covered c.
Proof. exact covered_b_iff. Qed.
Print Assumptions C16_covered_b_is_covered.

Theorem C16_wf_init : forall per sc cl sf rk sca, wf (init_cat_o per sc cl sf rk sca).
Proof. exact wf_init_o. Qed.
Print Assumptions C16_wf_init.

Theorem C16_good_init : forall per sc cl sf, good (init_cat_o per sc cl sf true true).
Proof. exact good_init. Qed.
Print Assumptions C16_good_init.

(* every one of the 24 modelled commands, with any arguments (valid or not), preserves well-formedness:
   live groups of a policy and engine type pairwise disjoint, inside one cell of their creation-time duration, list sorted;
   all ids unique, positive, at most their counters; every shard's index and owner partitions exist; defaults resolve;
   every policy is stored under its name. *)
Theorem C16_wf_preserved : forall c x, wf c -> all_aligned c -> repaired c -> env_ok c x -> wf (fst (apply_repaired c x)).
Proof. exact wf_step. Qed.
Print Assumptions C16_wf_preserved.

(* ... and the whole invariant is inductive *)
Theorem C16_good_preserved : forall c x, good c -> env_ok c x -> good (fst (apply_repaired c x)).
Proof. exact good_step. Qed.
Print Assumptions C16_good_preserved.

(* after every single step of every command sequence *)
Theorem C16_wf_every_prefix : forall xs k per sc cl sf, env_run (init_cat_o per sc cl sf true true) xs ->
  wf (run true true (init_cat_o per sc cl sf true true) (firstn k xs)).
Proof. intros xs k per sc cl sf E. apply (good_run_prefix xs _ k (good_init per sc cl sf) E). Qed.
Print Assumptions C16_wf_every_prefix.

(* cancelling the deletion of a shard group (DeleteShardGroup with CancelDelete) behind the interval-overlap guard of the code
   (/repo b51128b: no live group of the same engine kind overlaps the revived span, wherever it lies in it): the live groups stay
   pairwise disjoint, sorted, inside their cells - whatever durations the groups were created under. A guard that only looks at who
   serves the start of the revived group is refuted in Refuted.v (C16_cancel_start_only_refuted). *)
Theorem C16_cancel_keeps_disjoint : forall c db rp id, wf c -> all_aligned c -> safecancel c = true ->
  wf (fst (cancel_delete_sg c db rp id)).
Proof. exact wf_cancel_delete_sg. Qed.
Print Assumptions C16_cancel_keeps_disjoint.

(* the C14 clause as a clause about the catalogue: the index group of every shard does not end before the shard's group;
   preserved by every command (index groups created as in /repo 76d3742) *)
Theorem C16_cover_preserved : forall c x, wf c -> covered c -> env_ok c x -> covered (fst (apply_repaired c x)).
Proof. exact covered_step. Qed.
Print Assumptions C16_cover_preserved.

Theorem C16_cover_every_prefix : forall xs k per sc cl sf, env_run (init_cat_o per sc cl sf true true) xs ->
  covered (run true true (init_cat_o per sc cl sf true true) (firstn k xs)).
Proof. intros xs k per sc cl sf E. apply (good_run_prefix xs _ k (good_init per sc cl sf) E). Qed.
Print Assumptions C16_cover_every_prefix.

(* with group starts clamped to models.MinNanoTime (/repo 3695b47) the catalogue stays representable in int64 nanoseconds, so
   the hypothesis env_ok makes about Restore holds by itself: env_run0 = env_run without the clause for Restore *)
Theorem C16_representable_preserved : forall c x, wf c -> clampst c = true -> representable c -> env_ok c x ->
  representable (fst (apply_repaired c x)).
Proof. exact representable_step. Qed.
Print Assumptions C16_representable_preserved.

Theorem C16_clamped_restore_needs_no_assumption : forall xs c, good c -> clampst c = true -> representable c ->
  env_run0 c xs -> env_run c xs.
Proof. exact clamped_env_run. Qed.
Print Assumptions C16_clamped_restore_needs_no_assumption.

(* a command that fails leaves the catalogue unchanged (every variant in which CreateMeasurement checks its schema list
   first, /repo f21700b; without it: Refuted.v, C16_half_applied_refuted) *)
Theorem C16_failed_identity : forall clip cleardef c x, schemafirst c = true ->
  snd (apply clip cleardef c x) = false -> fst (apply clip cleardef c x) = c.
Proof. exact failed_is_identity. Qed.
Print Assumptions C16_failed_identity.

(* id counters never decrease (both variants of the step function) *)
Theorem C16_counters_monotone : forall clip cleardef c x, 0 <= ptnum c -> 0 <= ptper c ->
  counters_le c (fst (apply clip cleardef c x)).
Proof. exact counters_mono. Qed.
Print Assumptions C16_counters_monotone.

(* a command only introduces identifiers above everything issued so far (kinds: shard group, shard, index group, index,
   measurement, node) *)
Theorem C16_new_ids_fresh : forall c x k id, wf c ->
  In id (ids k (fst (apply_repaired c x))) -> In id (ids k c) \/ issued k c < id.
Proof. intros c x k id H. exact (step_ids c x H k id). Qed.
Print Assumptions C16_new_ids_fresh.

(* identifiers are never handed out twice, even after deletions: an identifier present at some point and gone after the
   commands xs is absent after any continuation ys *)
Theorem C16_ids_never_reused : forall xs ys c k id, good c -> env_run c (xs ++ ys) ->
  In id (ids k c) -> ~ In id (ids k (run true true c xs)) -> ~ In id (ids k (run true true c (xs ++ ys))).
Proof. exact ids_never_reused. Qed.
Print Assumptions C16_ids_never_reused.

(* the repaired creation: the new group contains the instant, is inside one cell, and is disjoint from every live group *)
Theorem C16_new_group_disjoint : forall c p ig t eng,
  existsb (fun g => covers g t eng) (rp_sgs p) = false -> 0 < rp_sgdur p -> MINNANO <= t < MAXNANO1 ->
  aligned_any (new_sgroup true c p ig t eng) /\ Forall (disjoint2 (new_sgroup true c p ig t eng)) (rp_sgs p).
Proof. exact new_sgroup_ok. Qed.
Print Assumptions C16_new_group_disjoint.

(* TODAY's creation (no clipping) also preserves well-formedness as long as the live groups of that engine type are whole cells
   of the policy's current shard-group duration, i.e. the duration was not changed since they were created. PARTIAL with
   respect to the statement: without that hypothesis today's code is refuted (Refuted.v, C16_overlap_refuted). *)
Theorem C16_disjoint_partial : forall c db rp t eng, wf c -> MINNANO <= t < MAXNANO1 ->
  (forall p, get_pol c db rp = Some p -> full_cells p eng) ->
  wf (fst (create_sg false c db rp t eng)).
Proof. exact wf_create_sg_current. Qed.
Print Assumptions C16_disjoint_partial.

(* C15 on this command model: the step function is a function of (state, command) - replicas applying the same log hold the
   same state - and a snapshot/restore inserted at any position of a log is invisible, provided every instant of the catalogue
   at that position is representable as int64 nanoseconds (both variants of the step function) *)
Theorem C16_restore_transparent : forall clip cleardef l1 l2 c, representable (run clip cleardef c l1) ->
  run clip cleardef c (l1 ++ Restore :: l2) = run clip cleardef c (l1 ++ l2).
Proof. exact restore_transparent. Qed.
Print Assumptions C16_restore_transparent.

(* ---- C15 on this command model: explicit map-iteration-order oracles (Order.v) ----
   shard_type: the sharding type of a measurement; range_create: the unmodelled RANGE branch, abstract; an oracle returns some
   element of a non-empty collection. Under uniform sharding one step gives the same state AND the same result for any two
   valid oracles, for all 24 commands (only CreateShardGroup and CreateMeasurement consult the oracle). *)
Theorem apply_order_independent : forall shard_type range_create clip cleardef c x o1 o2,
  valid o1 -> valid o2 -> uniform_sharding shard_type c ->
  applyO shard_type range_create clip cleardef o1 c x = applyO shard_type range_create clip cleardef o2 c x.
Proof. exact apply_order_independent_lemma. Qed.
Print Assumptions apply_order_independent.

(* two replicas applying the same log, each under its own sequence of oracles, end in the same state and return the same
   result for every command, provided uniform sharding holds in the states one of them goes through (today's code does not
   maintain that invariant by itself: see the note in Order.v) *)
Theorem C15_convergence : forall shard_type range_create clip cleardef xs os1 os2 c,
  length os1 = length xs -> length os2 = length xs -> Forall valid os1 -> Forall valid os2 ->
  uniform_along shard_type range_create clip cleardef os1 c xs ->
  runO shard_type range_create clip cleardef os1 c xs = runO shard_type range_create clip cleardef os2 c xs.
Proof. exact convergence_lemma. Qed.
Print Assumptions C15_convergence.

(* for the HASH-only catalogues of the correspondence the oracle step IS the step function compared with the real code *)
Theorem C15_oracle_step_is_model_step : forall range_create clip cleardef o c x, valid o ->
  applyO (fun _ => 0) range_create clip cleardef o c x = apply clip cleardef c x.
Proof. intros. apply applyO_hash; [assumption | reflexivity]. Qed.
Print Assumptions C15_oracle_step_is_model_step.

(* ---- ExpandGroups (outside [cmd]; see Expand.v): identifiers ---- *)
(* an expansion keeps every identifier and adds only identifiers above the counters; counters do not decrease: so the
   never-handed-out-twice argument extends over expansions *)
Theorem C16_expand_ids_fresh : forall c k id, 0 <= ptnum c ->
  In id (ids k (expand_groups c)) -> In id (ids k c) \/ issued k c < id.
Proof. exact expand_ids_step. Qed.
Print Assumptions C16_expand_ids_fresh.

Theorem C16_expand_counters_monotone : forall c, 0 <= ptnum c -> counters_le c (expand_groups c).
Proof. exact expand_counters_le. Qed.
Print Assumptions C16_expand_counters_monotone.

(* ExpandGroups preserves the whole invariant: well-formedness (new shards and indexes get unique ids below the raised counters,
   name partitions that exist and an index of their own policy), the C14 clause (the index group looked up or created for a shard
   does not end before the shard's group) and the one-cell shape of every group *)
Theorem C16_expand_preserves_good : forall c, good c -> good (expand_groups c).
Proof. exact good_expand_groups. Qed.
Print Assumptions C16_expand_preserves_good.

(* hence every command of the correspondence - the 24 of [cmd], the expansion, a node join on a store that expands - preserves it *)
Theorem C16_good_preserved_x : forall c x, good c -> env_okx c x -> good (fst (applyx true true c x)).
Proof. exact good_stepx. Qed.
Print Assumptions C16_good_preserved_x.

Theorem C16_wf_every_prefix_x : forall xs k per sc cl sf, env_runx (init_cat_o per sc cl sf true true) xs ->
  wf (runx (init_cat_o per sc cl sf true true) (firstn k xs)) /\ covered (runx (init_cat_o per sc cl sf true true) (firstn k xs)).
Proof.
  intros xs k per sc cl sf E. destruct (good_runx_prefix xs _ k (good_init per sc cl sf) E) as (W & _ & C & _). split; assumption.
Qed.
Print Assumptions C16_wf_every_prefix_x.

Example C16_example_x :
  let xs := [Base (CreateNode 1 1); Base (CreateDb 1 1 0 HOUR); Base (CreateMst 1 1 1); Base (CreateSg 1 1 1700042400000000005 0);
             XJoin 2 2; Base (CreateSg 1 1 1700053200000000000 1); XJoin 3 3; XExpand; Base (PruneSg 2); Base Restore] in
  env_runx (init_cat_rep 2 true) xs /\ wf_b (runx (init_cat_rep 2 true) xs) = true /\ covered_b (runx (init_cat_rep 2 true) xs) = true.
Proof. cbv zeta. split; [apply env_runx_b_sound; vm_compute; reflexivity | vm_compute; split; reflexivity]. Qed.

(* non-vacuity: the environment hypotheses are satisfiable on a run that creates, alters, renames, deletes, revives and prunes *)
Definition example_run : list cmd :=
  [CreateNode 1 1; CreateDb 1 1 0 HOUR; CreateMst 1 1 1; CreateSg 1 1 1700042400000000005 0;
   UpdateRp 1 1 None (Some DAY) false; CreateSg 1 1 1700053200000000000 0; CreateNode 2 2; CreateSg 1 1 0 0;
   DeleteSg 1 1 1; CreateSg 1 1 1700042400000000005 0; CancelDeleteSg 1 1 1; PruneSg 1; PruneIg 77; Restore;
   CreateMstBad 1 1 2; RenameRp 1 1 2 None None false; RenameRp 1 0 0 None None false; SetDefault 1 2; RemoveNode 1; CreateSg 1 0 MINNANO 1; Restore;
   MarkRp 1 2; DropRp 1 2; CreateSg 1 0 5 0; DropDb 3].

Example C16_example_env : env_run (init_cat_rep 1 true) example_run.
Proof. apply env_run_b_sound. vm_compute. reflexivity. Qed.

Example C16_example_env0 : env_run0 (init_cat_rep 1 true) example_run /\ representable (init_cat_rep 1 true).
Proof. split; [apply env_run_env_run0; exact C16_example_env | constructor]. Qed.

Example C16_example_state :
  let c := run true true (init_cat_rep 1 true) example_run in
  wf_b c = true /\ covered_b c = true /\ map db_default (dbs c) = [0] /\ map rp_name (pols c) = [0].
Proof. vm_compute. repeat split. Qed.
