(* C16: shard-group creation. The repaired creation (new group clipped to its live neighbours) preserves
   well-formedness for every instant of the time domain. *)
From Coq Require Import ZArith List Bool Lia ZifyBool Sorting.Sorted Sorting.Permutation.
From OG Require Import C16.Model C16.Wf C16.Lists C16.Proofs C16.ProofsCmd.
Import ListNotations.
Open Scope Z_scope.

(* ---------------------------------------------------------------- time.Truncate *)
Lemma trunc_le : forall t d, 0 < d -> trunc t d <= t.
Proof. intros. unfold trunc. destruct (Z.leb_spec d 0); [lia|]. pose proof (Z.mod_pos_bound (t + YEAR1) d). lia. Qed.

Lemma trunc_gt : forall t d, 0 < d -> t < trunc t d + d.
Proof. intros. unfold trunc. destruct (Z.leb_spec d 0); [lia|]. pose proof (Z.mod_pos_bound (t + YEAR1) d). lia. Qed.

Lemma trunc_idem : forall t d x, 0 < d -> trunc t d <= x -> x < trunc t d + d -> trunc x d = trunc t d.
Proof.
  intros t d x Hd. unfold trunc. destruct (Z.leb_spec d 0); [lia|]. intros H1 H2.
  set (s := t - (t + YEAR1) mod d) in *.
  assert (E : (x + YEAR1) mod d = x - s).
  { symmetry. apply (Z.mod_unique_pos _ _ ((t + YEAR1) / d)); [lia|].
    pose proof (Z.div_mod (t + YEAR1) d). unfold s. lia. }
  rewrite E. lia.
Qed.

(* ---------------------------------------------------------------- clipping *)
Lemma clip_lo_ge : forall l eng t s, s <= clip_lo l eng t s.
Proof.
  unfold clip_lo. induction l; intros; cbn [fold_left]; [lia|].
  destruct (_ && _); [eapply Z.le_trans; [|apply IHl]; lia | apply IHl].
Qed.

Lemma clip_lo_le : forall l eng t s, s <= t -> clip_lo l eng t s <= t.
Proof.
  unfold clip_lo. induction l; intros eng t s Hs; cbn [fold_left]; [lia|].
  destruct ((sg_eng a =? eng) && negb (sg_del a) && (sg_end a <=? t)) eqn:E; apply IHl; lia.
Qed.

Lemma clip_lo_bound : forall l eng t s g, In g l -> sg_eng g = eng -> sg_del g = false -> sg_end g <= t ->
  sg_end g <= clip_lo l eng t s.
Proof.
  unfold clip_lo. induction l; intros eng t s g Hin He Hd Ht; cbn [fold_left]; [contradiction|].
  destruct Hin as [->|Hin].
  - replace ((sg_eng g =? eng) && negb (sg_del g) && (sg_end g <=? t)) with true by (rewrite Hd; lia).
    eapply Z.le_trans; [|apply (clip_lo_ge l eng t)]. lia.
  - apply IHl; assumption.
Qed.

Lemma clip_hi_le : forall l eng t e, clip_hi l eng t e <= e.
Proof.
  unfold clip_hi. induction l; intros; cbn [fold_left]; [lia|].
  destruct (_ && _); [eapply Z.le_trans; [apply IHl|]; lia | apply IHl].
Qed.

Lemma clip_hi_gt : forall l eng t e, t < e -> t < clip_hi l eng t e.
Proof.
  unfold clip_hi. induction l; intros eng t e He; cbn [fold_left]; [lia|].
  destruct ((sg_eng a =? eng) && negb (sg_del a) && (t <? sg_start a)) eqn:E; apply IHl; lia.
Qed.

Lemma clip_hi_bound : forall l eng t e g, In g l -> sg_eng g = eng -> sg_del g = false -> t < sg_start g ->
  clip_hi l eng t e <= sg_start g.
Proof.
  unfold clip_hi. induction l; intros eng t e g Hin He Hd Ht; cbn [fold_left]; [contradiction|].
  destruct Hin as [->|Hin].
  - replace ((sg_eng g =? eng) && negb (sg_del g) && (t <? sg_start g)) with true by (rewrite Hd; lia).
    eapply Z.le_trans; [apply (clip_hi_le l eng t)|]. lia.
  - apply IHl; assumption.
Qed.

(* ---------------------------------------------------------------- sorted insertion *)
Lemma insert_sg_perm : forall g l, Permutation (insert_sg g l) (g :: l).
Proof.
  induction l; cbn; [apply Permutation_refl|]. destruct (key_lt _ _ _ _); [apply Permutation_refl|].
  eapply Permutation_trans; [apply perm_skip; exact IHl | apply perm_swap].
Qed.

Lemma insert_ig_perm : forall g l, Permutation (insert_ig g l) (g :: l).
Proof.
  induction l; cbn; [apply Permutation_refl|]. destruct (key_lt _ _ _ _); [apply Permutation_refl|].
  eapply Permutation_trans; [apply perm_skip; exact IHl | apply perm_swap].
Qed.

Lemma insert_sg_sorted : forall g l, LocallySorted key_leP l -> LocallySorted key_leP (insert_sg g l).
Proof.
  intros g l. induction l as [|x r IH]; intros HS; cbn [insert_sg]; [constructor|].
  destruct (key_lt (sg_end g) (sg_start g) (sg_end x) (sg_start x)) eqn:E.
  - constructor; [exact HS|]. unfold key_lt in E. unfold key_leP. lia.
  - assert (Kx : key_leP x g) by (unfold key_lt in E; unfold key_leP; lia).
    inversion HS; subst.
    + cbn. constructor; [constructor | exact Kx].
    + specialize (IH H1). cbn [insert_sg] in *.
      destruct (key_lt (sg_end g) (sg_start g) (sg_end b) (sg_start b)) eqn:E2.
      * constructor; [exact IH | exact Kx].
      * constructor; [exact IH | exact H2].
Qed.

Lemma disjoint2_sym : forall a b, disjoint2 a b -> disjoint2 b a.
Proof. unfold disjoint2. intros a b H Hb Ha He. destruct (H Ha Hb (eq_sym He)); [right | left]; assumption. Qed.

Lemma insert_sg_pairs : forall g l, Forall (disjoint2 g) l -> ForallOrdPairs disjoint2 l -> ForallOrdPairs disjoint2 (insert_sg g l).
Proof.
  intros g l. induction l as [|x r IH]; intros HF HP; cbn [insert_sg]; [constructor; constructor|].
  destruct (key_lt _ _ _ _); [constructor; assumption|].
  inversion HF; subst. inversion HP; subst. constructor.
  - eapply Permutation_Forall; [apply Permutation_sym, insert_sg_perm|]. constructor; [apply disjoint2_sym; assumption | assumption].
  - apply IH; assumption.
Qed.

(* ---------------------------------------------------------------- the new group *)
Lemma not_covered : forall l t eng g, existsb (fun g => covers g t eng) l = false -> In g l -> sg_eng g = eng -> sg_del g = false ->
  t < sg_start g \/ sg_end g <= t.
Proof.
  intros l t eng g Hex Hin He Hd. destruct (covers g t eng) eqn:E.
  - assert (existsb (fun g => covers g t eng) l = true) by (apply existsb_exists; exists g; auto). congruence.
  - unfold covers, sg_contains in E. rewrite Hd in E. lia.
Qed.

Lemma new_sgroup_ok : forall c p ig t eng, existsb (fun g => covers g t eng) (rp_sgs p) = false -> 0 < rp_sgdur p ->
  MINNANO <= t < MAXNANO1 ->
  let g := new_sgroup true c p ig t eng in
  aligned_any g /\ Forall (disjoint2 g) (rp_sgs p).
Proof.
  intros c p ig t eng Hex Hd Ht g. unfold new_sgroup, new_sg_end in g.
  set (d := rp_sgdur p) in *. set (s := trunc t d) in *. set (e := cell_end s d) in *.
  set (s0 := if clampst c then Z.max s MINNANO else s).
  assert (Hs : s <= t) by (apply trunc_le; assumption).
  assert (Hs0 : s <= s0 <= t) by (unfold s0; destruct (clampst c); lia).
  assert (He : t < e) by (unfold e, cell_end; pose proof (trunc_gt t d Hd); fold s in H; lia).
  pose proof (clip_lo_ge (rp_sgs p) eng t s0) as L1. pose proof (clip_lo_le (rp_sgs p) eng t s0 (proj2 Hs0)) as L2.
  pose proof (clip_hi_le (rp_sgs p) eng t e) as U1. pose proof (clip_hi_gt (rp_sgs p) eng t e He) as U2.
  split.
  - unfold aligned_any. cbn [g sg_start sg_end sg_dur]. fold s0. split; [lia|]. split; [exact Hd|].
    assert (E : trunc (clip_lo (rp_sgs p) eng t s0) d = s).
    { apply trunc_idem; [exact Hd | lia|]. pose proof (trunc_gt t d Hd). fold s in H. lia. }
    rewrite E. fold e. exact U1.
  - apply Forall_forall. intros x Hx Hdg Hdx Hex'. cbn [g sg_start sg_end sg_eng sg_del] in *. fold s0.
    destruct (not_covered _ _ _ _ Hex Hx (eq_sym Hex') Hdx) as [A|A].
    + left. apply clip_hi_bound; auto.
    + right. apply clip_lo_bound; auto.
Qed.

(* ---------------------------------------------------------------- the fresh ids *)
Lemma zseq_shift_NoDup : forall a n, NoDup (map (fun i => a + i) (zseq 0 n)).
Proof.
  intros. apply NoDup_map_inj_in; [intros; lia | apply NoDup_zseq].
Qed.

Lemma zseq_shift_bounds : forall a n, Forall (fun x => a <= x < a + Z.of_nat n) (map (fun i => a + i) (zseq 0 n)).
Proof.
  intros. rewrite Forall_map. apply Forall_forall. intros x Hx. apply (in_zseq _ n 0 x eq_refl) in Hx. lia.
Qed.

Lemma uniq_le_same_or_extend : forall extra l m m', uniq_le l m -> NoDup extra -> Forall (fun x => m < x <= m') extra -> m <= m' -> 0 <= m ->
  forall l', Permutation l' (extra ++ l) -> uniq_le l' m'.
Proof. intros. eapply uniq_le_perm; [eassumption|]. eapply uniq_le_extend; eassumption. Qed.

Lemma In_insert_sg : forall g l x, In x (insert_sg g l) <-> x = g \/ In x l.
Proof.
  intros. split; intros Hx.
  - apply (Permutation_in _ (insert_sg_perm g l)) in Hx. cbn in Hx. intuition.
  - apply (Permutation_in _ (Permutation_sym (insert_sg_perm g l))). cbn. intuition.
Qed.

Lemma In_insert_ig : forall g l x, In x (insert_ig g l) <-> x = g \/ In x l.
Proof.
  intros. split; intros Hx.
  - apply (Permutation_in _ (insert_ig_perm g l)) in Hx. cbn in Hx. intuition.
  - apply (Permutation_in _ (Permutation_sym (insert_ig_perm g l))). cbn. intuition.
Qed.

(* the index group chosen for a new shard group: present afterwards, with at least ptnum indexes *)
Lemma ensure_ig_spec : forall c p t e eng ig isnew, ensure_ig c p t e eng = (ig, isnew) -> 0 <= ptnum c ->
  ptnum c <= Z.of_nat (length (ig_indexes ig)) /\
  (isnew = false -> In ig (rp_igs p) /\ e <= ig_end ig) /\
  (isnew = true -> ig = new_igroup c p t e eng).
Proof.
  intros c p t e eng ig isnew E Hn. unfold ensure_ig in E.
  assert (N : Z.of_nat (length (ig_indexes (new_igroup c p t e eng))) = ptnum c).
  { cbn [new_igroup ig_indexes]. rewrite map_length, length_zseq. lia. }
  destruct (find_last (ig_match t e eng) (rp_igs p)) as [g|] eqn:Ef.
  - destruct (Z.of_nat (length (ig_indexes g)) >=? ptnum c) eqn:El; inversion E; subst.
    + split; [lia|]. split; [|discriminate]. intros _. unfold find_last in Ef. apply find_some in Ef.
      destruct Ef as [Ef1 Ef2]. unfold ig_match in Ef2. split; [apply in_rev; exact Ef1 | lia].
    + split; [lia|]. split; [discriminate | reflexivity].
  - inversion E; subst. split; [lia|]. split; [discriminate | reflexivity].
Qed.

(* ---------------------------------------------------------------- creation preserves well-formedness *)
Lemma wf_create_sg_gen : forall clip c db rp t eng, wf c ->
  (forall p ig, get_pol c db rp = Some p -> existsb (fun g => covers g t eng) (rp_sgs p) = false ->
     aligned (new_sgroup clip c p ig t eng) /\ Forall (disjoint2 (new_sgroup clip c p ig t eng)) (rp_sgs p)) ->
  wf (fst (create_sg clip c db rp t eng)).
Proof.
  intros clip c db rp t eng H Hnew. unfold create_sg.
  destruct (ptnum c =? 0) eqn:Ept; [exact H|].
  destruct (get_pol c db rp) as [p|] eqn:Eg; [|exact H].
  destruct (existsb (fun g => covers g t eng) (rp_sgs p)) eqn:Ecov; [exact H|].
  destruct (rp_msts p) as [|m0 mr] eqn:Em; [exact H|].
  destruct (ensure_ig c p t (new_sg_end clip p t eng) eng) as [ig isnew] eqn:Eig.
  cbn [fst ok].
  pose proof (nonneg_get _ H) as NN.
  destruct (get_pol_spec _ _ _ _ Eg) as (Hfind & Hp & Edb & _). unfold find_pol in Hfind.
  destruct (ensure_ig_spec _ _ _ _ _ _ _ Eig) as (Ilen & Iold & Inew); [lia|].
  destruct (Hnew p ig eq_refl Ecov) as [Gal Gdis].
  set (g := new_sgroup clip c p ig t eng) in *.
  set (n := Z.to_nat (ptnum c)).
  assert (En : Z.of_nat n = ptnum c) by (unfold n; lia).
  set (upd := fun q => pol_set_sgs (if isnew then pol_set_igs q (insert_ig ig (rp_igs q)) else q) (insert_sg g (rp_sgs q))).
  assert (Hkeys : forall q, rp_db (upd q) = rp_db q /\ rp_name (upd q) = rp_name q /\ rp_sgdur (upd q) = rp_sgdur q /\ rp_msts (upd q) = rp_msts q).
  { intros q. unfold upd. destruct isnew; cbn; tauto. }
  assert (Higs : forall q x, In x (rp_igs q) -> In x (rp_igs (upd q))).
  { intros q x Hx. unfold upd. destruct isnew; cbn [rp_igs pol_set_sgs pol_set_igs]; [apply In_insert_ig; right|]; exact Hx. }
  assert (Hig_in : In ig (rp_igs (upd p))).
  { unfold upd. destruct isnew; cbn [rp_igs pol_set_sgs pol_set_igs]; [apply In_insert_ig; left; reflexivity | apply Iold; reflexivity]. }
  unfold upd_pol.
  match goal with |- wf ?cc => set (c' := cc) end.
  assert (Epols : pols c' = upd_first (is_pol db (rp_name p)) upd (pols c)) by reflexivity.
  assert (Ek : pol_keys c' = pol_keys c).
  { unfold pol_keys. rewrite Epols. apply updf_map_same. intros x _. destruct (Hkeys x) as (-> & -> & _). reflexivity. }
  constructor.
  - (* groups *)
    rewrite Epols. apply (updf_Forall_first _ _ _ _ p Hfind (wf_groups _ H)).
    pose proof (wf_groups _ H) as GG. rewrite Forall_forall in GG. destruct (GG p Hp) as (S1 & S2 & S3).
    unfold upd. cbn [rp_sgs pol_set_sgs]. split; [|split].
    + apply insert_sg_sorted. exact S1.
    + eapply Permutation_Forall; [apply Permutation_sym, insert_sg_perm|]. constructor; assumption.
    + apply insert_sg_pairs; assumption.
  - (* shard group ids *)
    unfold sg_ids. rewrite Epols. cbn [max_sg c' set_sg_counters].
    apply (uniq_le_same_or_extend [max_sg c + 1] (sg_ids c) (max_sg c)); [exact (wf_sg _ H) | repeat constructor; cbn; tauto | | lia | lia |].
    + constructor; [lia | constructor].
    + apply (updf_flat_map_perm _ _ _ _ p); [exact Hfind|]. unfold upd. cbn [rp_sgs pol_set_sgs].
      eapply Permutation_trans; [apply Permutation_map, insert_sg_perm|]. apply Permutation_refl.
  - (* shard ids *)
    unfold sh_ids. rewrite Epols. cbn [max_sh c' set_sg_counters].
    apply (uniq_le_same_or_extend (map sh_id (sg_shards g)) (sh_ids c) (max_sh c)); [exact (wf_sh _ H) | | | lia | lia |].
    + cbn [g new_sgroup sg_shards]. rewrite map_map. cbn [sh_id]. apply (zseq_shift_NoDup (max_sh c + 1)).
    + cbn [g new_sgroup sg_shards]. rewrite map_map. cbn [sh_id]. fold n.
      eapply Forall_impl; [|apply (zseq_shift_bounds (max_sh c + 1) n)]. cbv beta. intros. lia.
    + apply (updf_flat_map_perm _ _ _ _ p); [exact Hfind|]. unfold upd, sh_ids_of. cbn [rp_sgs pol_set_sgs].
      eapply Permutation_trans; [apply Permutation_flat_map, insert_sg_perm|]. apply Permutation_refl.
  - (* index group ids *)
    unfold ig_ids. rewrite Epols. cbn [max_ig c' set_sg_counters]. destruct isnew.
    + apply (uniq_le_same_or_extend [max_ig c + 1] (ig_ids c) (max_ig c)); [exact (wf_ig _ H) | repeat constructor; cbn; tauto | | lia | lia |].
      * constructor; [lia | constructor].
      * apply (updf_flat_map_perm _ _ _ _ p); [exact Hfind|]. unfold upd. cbn [rp_igs pol_set_sgs pol_set_igs].
        eapply Permutation_trans; [apply Permutation_map, insert_ig_perm|]. rewrite (Inew eq_refl). apply Permutation_refl.
    + rewrite updf_flat_map_same; [exact (wf_ig _ H) | reflexivity].
  - (* index ids *)
    unfold ix_ids. rewrite Epols. cbn [max_ix c' set_sg_counters]. destruct isnew.
    + apply (uniq_le_same_or_extend (map ix_id (ig_indexes ig)) (ix_ids c) (max_ix c)); [exact (wf_ix _ H) | | | lia | lia |].
      * rewrite (Inew eq_refl). cbn [new_igroup ig_indexes]. rewrite map_map. cbn [ix_id]. apply (zseq_shift_NoDup (max_ix c + 1)).
      * rewrite (Inew eq_refl). cbn [new_igroup ig_indexes]. rewrite map_map. cbn [ix_id]. fold n.
        eapply Forall_impl; [|apply (zseq_shift_bounds (max_ix c + 1) n)]. cbv beta. intros. lia.
      * apply (updf_flat_map_perm _ _ _ _ p); [exact Hfind|]. unfold upd, ix_ids_of. cbn [rp_igs pol_set_sgs pol_set_igs].
        eapply Permutation_trans; [apply Permutation_flat_map, insert_ig_perm|]. apply Permutation_refl.
    + rewrite updf_flat_map_same; [exact (wf_ix _ H) | reflexivity].
  - (* measurement ids *)
    unfold mst_ids. rewrite Epols. rewrite updf_flat_map_same; [exact (wf_mst _ H)|].
    intros x _. destruct (Hkeys x) as (_ & _ & _ & ->). reflexivity.
  - exact (wf_node _ H).
  - exact (wf_dbn _ H).
  - rewrite Ek. exact (wf_poln _ H).
  - rewrite Epols. apply updf_Forall; [|exact (wf_poldb _ H)]. intros x _ Q. destruct (Hkeys x) as (-> & _). exact Q.
  - (* references *)
    rewrite Epols. apply (updf_Forall_first _ _ _ _ p Hfind).
    + eapply Forall_impl; [|exact (wf_refs _ H)]. intros q. apply refs_ok_same. reflexivity.
    + pose proof (wf_refs _ H) as RR. rewrite Forall_forall in RR. specialize (RR p Hp).
      assert (Hix : forall i, In i (ix_ids_of p) -> In i (ix_ids_of (upd p))).
      { intros i Hi. unfold ix_ids_of in *. apply in_flat_map in Hi. destruct Hi as [x [Hx Hi]]. apply in_flat_map. exists x. split; [apply Higs; exact Hx | exact Hi]. }
      intros g' s Hg' Hs. unfold upd in Hg'. cbn [rp_sgs pol_set_sgs] in Hg'. apply In_insert_sg in Hg'. destruct Hg' as [->|Hg'].
      * cbn [g new_sgroup sg_shards] in Hs. apply in_map_iff in Hs. destruct Hs as [i [<- Hi]]. cbn [sh_index sh_owners].
        apply (in_zseq _ n 0 i eq_refl) in Hi. split; [|split].
        -- unfold ix_ids_of. apply in_flat_map. exists ig. split; [exact Hig_in|]. apply in_map. apply nth_In. lia.
        -- discriminate.
        -- constructor; [|constructor]. cbn [ptnum c' set_sg_counters set_pols]. lia.
      * destruct (RR g' s Hg' Hs) as (R1 & R2 & R3). split; [apply Hix; exact R1|]. split; [exact R2 | exact R3].
  - cbn [dbs c' set_sg_counters set_pols]. eapply Forall_impl; [|exact (wf_def _ H)]. intros d. unfold default_ok. rewrite Ek. auto.
  - exact (wf_ptv _ H).
  - cbn [max_sg max_sh max_ig max_ix max_mst max_node ptnum c' set_sg_counters set_pols]. destruct isnew; repeat (constructor; [lia|]); constructor.
  - rewrite Epols. apply updf_Forall; [|exact (wf_dur _ H)]. intros x _ Q. destruct (Hkeys x) as (_ & _ & -> & _). exact Q.
  - rewrite Epols. apply updf_Forall; [|exact (wf_nm _ H)]. intros x _ Q. unfold upd. destruct isnew; cbn; exact Q.
Qed.

Lemma aligned_any_aligned : forall g, aligned_any g -> aligned g.
Proof. intros g A _. exact A. Qed.

Lemma wf_create_sg : forall c db rp t eng, wf c -> MINNANO <= t < MAXNANO1 -> wf (fst (create_sg true c db rp t eng)).
Proof.
  intros c db rp t eng H Ht. apply wf_create_sg_gen; [exact H|]. intros p ig Eg Ecov.
  destruct (get_pol_spec _ _ _ _ Eg) as (_ & Hp & _).
  pose proof (wf_dur _ H) as DUR. rewrite Forall_forall in DUR.
  destruct (new_sgroup_ok c p ig t eng Ecov (DUR p Hp) Ht) as [A B]. split; [apply aligned_any_aligned; exact A | exact B].
Qed.

(* ---------------------------------------------------------------- today's creation, duration unchanged *)
(* two cells of one duration are the same cell or lie apart *)
Lemma cells_apart : forall a b d, 0 < d -> a = trunc a d -> b = trunc b d -> a = b \/ a + d <= b \/ b + d <= a.
Proof.
  intros a b d Hd Ha Hb. unfold trunc in *. destruct (Z.leb_spec d 0); [lia|].
  assert (A : (a + YEAR1) mod d = 0) by lia. assert (B : (b + YEAR1) mod d = 0) by lia.
  apply Z.mod_divide in A; [|lia]. apply Z.mod_divide in B; [|lia]. destruct A as [q1 A]. destruct B as [q2 B].
  assert (q1 = q2 \/ q1 + 1 <= q2 \/ q2 + 1 <= q1) as [E|[E|E]] by lia; [left | right; left | right; right]; nia.
Qed.

(* the live groups of that engine type are whole cells of the policy's CURRENT shard-group duration *)
Definition full_cells (p : policy) (eng : Z) : Prop :=
  forall g, In g (rp_sgs p) -> sg_del g = false -> sg_eng g = eng ->
    sg_start g = trunc (sg_start g) (rp_sgdur p) /\ sg_end g = cell_end (sg_start g) (rp_sgdur p).

Lemma new_sgroup_ok_current : forall c p ig t eng, existsb (fun g => covers g t eng) (rp_sgs p) = false -> 0 < rp_sgdur p ->
  MINNANO <= t < MAXNANO1 -> full_cells p eng ->
  let g := new_sgroup false c p ig t eng in aligned_any g /\ Forall (disjoint2 g) (rp_sgs p).
Proof.
  intros c p ig t eng Hex Hd Ht Hfull g. unfold new_sgroup, new_sg_end in g.
  set (d := rp_sgdur p) in *. set (s := trunc t d) in *. set (e := cell_end s d) in *.
  set (s0 := if clampst c then Z.max s MINNANO else s).
  assert (Hs : s <= t) by (apply trunc_le; assumption).
  assert (Hs0 : s <= s0 <= t) by (unfold s0; destruct (clampst c); lia).
  pose proof (trunc_gt t d Hd) as Hg. fold s in Hg.
  assert (He : t < e) by (unfold e, cell_end; lia).
  assert (Es : trunc s d = s) by (apply trunc_idem; [exact Hd | apply Z.le_refl | lia]).
  assert (Es0 : trunc s0 d = s) by (apply trunc_idem; [exact Hd | lia | lia]).
  split.
  - unfold aligned_any. cbn [g sg_start sg_end sg_dur]. fold s0. split; [lia|]. split; [exact Hd|]. rewrite Es0. fold e. lia.
  - apply Forall_forall. intros x Hx Hdg Hdx Hex'. cbn [g sg_start sg_end sg_eng sg_del] in *. fold s0.
    destruct (Hfull x Hx Hdx (eq_sym Hex')) as [F1 F2]. fold d in F1, F2.
    destruct (not_covered _ _ _ _ Hex Hx (eq_sym Hex') Hdx) as [A|A].
    + destruct (cells_apart s (sg_start x) d Hd (eq_sym Es) F1) as [E|[E|E]]; [lia | left; unfold e, cell_end; lia | lia].
    + destruct (cells_apart s (sg_start x) d Hd (eq_sym Es) F1) as [E|[E|E]].
      * exfalso. rewrite F2, <- E in A. fold e in A. lia.
      * exfalso. rewrite F2 in A. unfold cell_end in A. lia.
      * right. rewrite F2. unfold cell_end. lia.
Qed.

Lemma wf_create_sg_current : forall c db rp t eng, wf c -> MINNANO <= t < MAXNANO1 ->
  (forall p, get_pol c db rp = Some p -> full_cells p eng) ->
  wf (fst (create_sg false c db rp t eng)).
Proof.
  intros c db rp t eng H Ht Hfull. apply wf_create_sg_gen; [exact H|]. intros p ig Eg Ecov.
  destruct (get_pol_spec _ _ _ _ Eg) as (_ & Hp & _).
  pose proof (wf_dur _ H) as DUR. rewrite Forall_forall in DUR.
  destruct (new_sgroup_ok_current c p ig t eng Ecov (DUR p Hp) Ht (Hfull p Eg)) as [A B].
  split; [apply aligned_any_aligned; exact A | exact B].
Qed.
