(* C16: lemmas - every command of the repaired step function preserves well-formedness; failed commands are the
   identity; counters are monotone and ids are never reused. *)
From Coq Require Import ZArith List Bool Lia ZifyBool Sorting.Sorted Sorting.Permutation.
From OG Require Import C16.Model C16.Wf C16.Lists.
Import ListNotations.
Open Scope Z_scope.

(* ------------------------------------------------------------------------------------------------ failed = identity *)
(* schemafirst: CreateMeasurement checks its schema list before it registers the measurement (/repo f21700b); without it
   the statement is false (Refuted.v, C16_half_applied_refuted) *)
Lemma failed_is_identity : forall clip cd c x, schemafirst c = true -> snd (apply clip cd c x) = false -> fst (apply clip cd c x) = c.
Proof.
  intros clip cd c x SF. destruct x; cbn [apply];
    unfold create_db, mark_db, drop_db, create_rp, update_rp, mark_rp, drop_rp, set_default_rp, create_mst, mark_mst, drop_mst,
      create_sg, delete_sg, prune_sg, delete_ig, prune_ig, create_node, create_ptview, update_pt, create_mst_bad, rename_rp,
      cancel_delete_sg, remove_node, ok, err; rewrite ?SF;
    repeat match goal with
           | |- context [match ?e with _ => _ end] => destruct e eqn:?; cbn [fst snd]
           | |- context [if ?e then _ else _] => destruct e eqn:?; cbn [fst snd]
           end; try reflexivity; try discriminate.
Qed.

(* ------------------------------------------------------------------------------------------------ order facts *)
Lemma key_leP_trans : forall x y z, key_leP x y -> key_leP y z -> key_leP x z.
Proof. unfold key_leP. intros. lia. Qed.

(* groups related by: same id, span, engine, creation duration, shard ids and references; deletion marks only set *)
Definition sg_sim (a b : sgroup) : Prop :=
  sg_id b = sg_id a /\ sg_start b = sg_start a /\ sg_end b = sg_end a /\ sg_eng b = sg_eng a /\ sg_dur b = sg_dur a /\
  (sg_del a = true -> sg_del b = true) /\
  Forall2 (fun s s' => sh_id s' = sh_id s /\ sh_index s' = sh_index s /\ sh_owners s' = sh_owners s) (sg_shards a) (sg_shards b).

Lemma sh_sim_refl : forall l, Forall2 (fun s s' : shard => sh_id s' = sh_id s /\ sh_index s' = sh_index s /\ sh_owners s' = sh_owners s) l l.
Proof. induction l; constructor; auto. Qed.

Lemma sg_sim_refl : forall a, sg_sim a a.
Proof. intros. unfold sg_sim. repeat split; auto. apply sh_sim_refl. Qed.

Lemma sg_sim_groups_ok : forall l l', Forall2 sg_sim l l' -> groups_ok l -> groups_ok l'.
Proof.
  intros l l' HS [H1 [H2 H3]]. split; [|split].
  - eapply Forall2_LocallySorted; [|exact HS|exact H1].
    unfold sg_sim, key_leP. intros x y x' y' (_ & X2 & X3 & _) (_ & Y2 & Y3 & _). lia.
  - eapply Forall2_Forall; [|exact HS|exact H2].
    unfold sg_sim, aligned. intros x y (_ & X2 & X3 & _ & X5 & X6 & _) Ha Hd.
    destruct (sg_del x) eqn:E; [rewrite X6 in Hd by reflexivity; discriminate|].
    specialize (Ha eq_refl). rewrite X2, X3, X5. assumption.
  - eapply Forall2_ForallOrdPairs; [|exact HS|exact H3].
    unfold sg_sim, disjoint2. intros x y x' y' (_ & X2 & X3 & X4 & _ & X6 & _) (_ & Y2 & Y3 & Y4 & _ & Y6 & _) HD Hdx Hdy He.
    destruct (sg_del x) eqn:E1; [rewrite X6 in Hdx by reflexivity; discriminate|].
    destruct (sg_del y) eqn:E2; [rewrite Y6 in Hdy by reflexivity; discriminate|].
    rewrite X2, X3, Y2, Y3. apply HD; congruence.
Qed.

Lemma sg_sim_ids : forall l l', Forall2 sg_sim l l' -> map sg_id l' = map sg_id l.
Proof. intros. eapply Forall2_map_eq; [|eassumption]. unfold sg_sim. intros x y Hx. tauto. Qed.

Lemma sh_sim_ids : forall (l l' : list shard),
  Forall2 (fun s s' => sh_id s' = sh_id s /\ sh_index s' = sh_index s /\ sh_owners s' = sh_owners s) l l' -> map sh_id l' = map sh_id l.
Proof. induction 1; cbn; [reflexivity|]. destruct H as [-> _]. f_equal. assumption. Qed.

Lemma sg_sim_sh_ids : forall l l', Forall2 sg_sim l l' ->
  flat_map (fun g => map sh_id (sg_shards g)) l' = flat_map (fun g => map sh_id (sg_shards g)) l.
Proof.
  intros. eapply Forall2_flat_map_eq; [|eassumption]. unfold sg_sim. intros x y (_ & _ & _ & _ & _ & _ & X7).
  apply sh_sim_ids. assumption.
Qed.

Lemma sh_sim_In : forall (l l' : list shard) s',
  Forall2 (fun s s' => sh_id s' = sh_id s /\ sh_index s' = sh_index s /\ sh_owners s' = sh_owners s) l l' -> In s' l' ->
  exists s, In s l /\ sh_index s' = sh_index s /\ sh_owners s' = sh_owners s.
Proof.
  induction 1; cbn; [tauto|]. intros [E|Hin].
  - subst. exists x. tauto.
  - destruct (IHForall2 Hin) as [s [? ?]]. exists s. tauto.
Qed.

Lemma Forall2_In_r : forall {A} (R : A -> A -> Prop) l l' y, Forall2 R l l' -> In y l' -> exists x, In x l /\ R x y.
Proof.
  induction 1; cbn; [tauto|]. intros [E|Hin]; [subst; exists x; auto|].
  destruct (IHForall2 Hin) as [z [? ?]]. exists z. auto.
Qed.

(* references survive when groups change only by sg_sim / removal and the index ids and partition count only grow *)
Lemma refs_ok_mono : forall c c' p p',
  (forall g', In g' (rp_sgs p') -> exists g, In g (rp_sgs p) /\ sg_sim g g') ->
  (forall i, In i (ix_ids_of p) -> In i (ix_ids_of p')) -> ptnum c <= ptnum c' ->
  refs_ok c p -> refs_ok c' p'.
Proof.
  intros c c' p p' Hg Hi Hn HR g' s' Hg' Hs'.
  destruct (Hg g' Hg') as [g [Hgin Hsim]]. unfold sg_sim in Hsim. destruct Hsim as (_ & _ & _ & _ & _ & _ & X7).
  destruct (sh_sim_In _ _ _ X7 Hs') as [s [Hsin [E1 E2]]].
  destruct (HR g s Hgin Hsin) as [R1 [R2 R3]]. rewrite E1, E2. split; [auto|]. split; [assumption|].
  eapply Forall_impl; [|exact R3]. cbn. intros. lia.
Qed.

(* ------------------------------------------------------------------------------------------------ small facts *)
Lemma find_is_pol : forall c db n p, find_pol c db n = Some p -> In p (pols c) /\ rp_db p = db /\ rp_name p = n.
Proof.
  unfold find_pol. intros c db n p H. apply find_some in H. destruct H as [H1 H2]. unfold is_pol in H2. split; [assumption|]. lia.
Qed.

Lemma get_pol_spec : forall c db n p, get_pol c db n = Some p ->
  find_pol c db (rp_name p) = Some p /\ In p (pols c) /\ rp_db p = db /\ rp_mark p = false /\ rp_name p <> 0 /\
  exists d, get_db c db = Some d.
Proof.
  unfold get_pol. intros c db n p H. destruct (get_db c db) as [d|] eqn:Ed; [|discriminate].
  destruct (resolve d n =? 0) eqn:Ek; [discriminate|].
  destruct (find_pol c db (resolve d n)) as [q|] eqn:Eq; [|discriminate].
  destruct (rp_mark q) eqn:Em; [discriminate|]. inversion H; subst q.
  destruct (find_is_pol _ _ _ _ Eq) as [H1 [H2 H3]]. rewrite H3. repeat split; auto; [lia | eauto].
Qed.

Lemma get_db_spec : forall c db d, get_db c db = Some d -> In d (dbs c) /\ db_name d = db /\ db_mark d = false.
Proof.
  unfold get_db, find_db. intros c db d H. destruct (find _ (dbs c)) as [x|] eqn:E; [|discriminate].
  destruct (db_mark x) eqn:Em; [discriminate|]. inversion H; subst x. apply find_some in E. destruct E. repeat split; auto. lia.
Qed.

Lemma In_pol_keys : forall c p, In p (pols c) -> In (rp_db p, rp_name p) (pol_keys c).
Proof. intros. unfold pol_keys. apply (in_map (fun p => (rp_db p, rp_name p))). assumption. Qed.

