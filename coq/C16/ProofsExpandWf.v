(* C16: ExpandGroups (and a node join that expands) preserves the whole invariant: well-formedness, the C14 clause, all groups
   inside one cell. The walk is followed with three kinds of facts: the id lists grow by exactly the consecutive numbers above
   the counters ([ext]), the groups keep their spans ([sg_same]), and every shard - old or appended - names an index of an index
   group of its policy that does not end before the shard's group ([good_shard], monotone while index groups only grow). *)
From Coq Require Import ZArith List Bool Lia ZifyBool Sorting.Sorted Sorting.Permutation.
From OG Require Import C16.Model C16.Wf C16.Lists C16.Proofs C16.ProofsCmd C16.ProofsSg C16.ProofsNew C16.ProofsInv C16.ProofsRun
  C16.ProofsIds C16.Expand C16.ProofsExpand.
Import ListNotations.
Open Scope Z_scope.

(* ------------------------------------------------------------------------------------------------ consecutive numbers *)
Lemma map_shift_zseq : forall a n b, map (fun i => a + i) (zseq b n) = zseq (a + b) n.
Proof. intros a. induction n; intros b; cbn; [reflexivity|]. f_equal. rewrite IHn. f_equal. lia. Qed.

Lemma map_rebase_zseq : forall n a b, map (fun x => a + (x - b)) (zseq b n) = zseq a n.
Proof.
  induction n; intros a b; cbn; [reflexivity|]. f_equal; [lia|]. rewrite <- (IHn (a + 1) (b + 1)). apply map_ext. intros x. lia.
Qed.

Lemma zseq_app : forall n1 n2 a, zseq a (n1 + n2) = zseq a n1 ++ zseq (a + Z.of_nat n1) n2.
Proof.
  induction n1; intros n2 a; cbn [plus zseq app].
  - f_equal. lia.
  - f_equal. rewrite IHn1. f_equal. f_equal. lia.
Qed.

(* l' is l plus exactly the numbers m+1 .. m' *)
Definition ext (m m' : Z) (l l' : list Z) : Prop := m <= m' /\ Permutation l' (zseq (m + 1) (Z.to_nat (m' - m)) ++ l).

Lemma ext_refl : forall m l, ext m m l l.
Proof. intros. split; [lia|]. replace (m - m) with 0 by lia. cbn. apply Permutation_refl. Qed.

Lemma ext_trans : forall m m1 m2 l l1 l2, ext m m1 l l1 -> ext m1 m2 l1 l2 -> ext m m2 l l2.
Proof.
  intros m m1 m2 l l1 l2 [A1 A2] [B1 B2]. split; [lia|].
  replace (Z.to_nat (m2 - m)) with (Z.to_nat (m1 - m) + Z.to_nat (m2 - m1))%nat by lia. rewrite zseq_app.
  replace (m + 1 + Z.of_nat (Z.to_nat (m1 - m))) with (m1 + 1) by lia.
  eapply Permutation_trans; [exact B2|]. eapply Permutation_trans; [apply Permutation_app_head; exact A2|].
  rewrite !app_assoc. apply Permutation_app_tail. apply Permutation_app_comm.
Qed.

Lemma ext_app : forall m m1 m2 a a1 b b1, ext m m1 a a1 -> ext m1 m2 b b1 -> ext m m2 (a ++ b) (a1 ++ b1).
Proof.
  intros m m1 m2 a a1 b b1 [A1 A2] [B1 B2]. split; [lia|].
  replace (Z.to_nat (m2 - m)) with (Z.to_nat (m1 - m) + Z.to_nat (m2 - m1))%nat by lia. rewrite zseq_app.
  replace (m + 1 + Z.of_nat (Z.to_nat (m1 - m))) with (m1 + 1) by lia.
  eapply Permutation_trans; [apply Permutation_app; [exact A2 | exact B2]|].
  set (x := zseq (m + 1) (Z.to_nat (m1 - m))). set (y := zseq (m1 + 1) (Z.to_nat (m2 - m1))).
  (* (x ++ a) ++ (y ++ b)  ~  (x ++ y) ++ (a ++ b) *)
  rewrite <- !app_assoc. apply Permutation_app_head. rewrite !app_assoc. apply Permutation_app_tail. apply Permutation_app_comm.
Qed.

Lemma ext_perm : forall m m' l l0 l' l0', Permutation l l0 -> Permutation l' l0' -> ext m m' l l' -> ext m m' l0 l0'.
Proof.
  intros m m' l l0 l' l0' P P' [A B]. split; [exact A|].
  eapply Permutation_trans; [apply Permutation_sym; exact P'|]. eapply Permutation_trans; [exact B|]. apply Permutation_app_head. exact P.
Qed.

Lemma ext_uniq : forall m m' l l', uniq_le l m -> 0 <= m -> ext m m' l l' -> uniq_le l' m'.
Proof.
  intros m m' l l' U H0 [A B]. eapply uniq_le_perm; [exact B|].
  apply (uniq_le_extend _ _ m); [exact U | apply NoDup_zseq | | exact A | exact H0].
  apply Forall_forall. intros x Hx. apply (in_zseq _ (Z.to_nat (m' - m)) (m + 1) x eq_refl) in Hx. lia.
Qed.

Lemma ext_In_old : forall m m' l l' x, ext m m' l l' -> In x l -> In x l'.
Proof. intros m m' l l' x [_ B] Hx. apply (Permutation_in _ (Permutation_sym B)). apply in_or_app. right. exact Hx. Qed.

Lemma ext_one : forall m l, ext m (m + 1) l (l ++ [m + 1]).
Proof.
  intros. split; [lia|]. replace (m + 1 - m) with 1 by lia. cbn. apply Permutation_sym. apply Permutation_cons_append.
Qed.

(* ------------------------------------------------------------------------------------------------ what is kept *)
Definition sg_same (g g1 : sgroup) : Prop :=
  sg_id g1 = sg_id g /\ sg_start g1 = sg_start g /\ sg_end g1 = sg_end g /\ sg_del g1 = sg_del g /\ sg_eng g1 = sg_eng g /\ sg_dur g1 = sg_dur g.

Lemma sg_same_refl : forall g, sg_same g g. Proof. intros. unfold sg_same. tauto. Qed.

Lemma groups_ok_same : forall l l', Forall2 sg_same l l' -> groups_ok l -> groups_ok l'.
Proof.
  intros l l' HS [H1 [H2 H3]]. split; [|split].
  - eapply Forall2_LocallySorted; [|exact HS|exact H1].
    unfold sg_same, key_leP. intros x y x' y' (_ & X2 & X3 & _) (_ & Y2 & Y3 & _). lia.
  - eapply Forall2_Forall; [|exact HS|exact H2].
    unfold sg_same, aligned. intros x y (_ & X2 & X3 & X4 & _ & X6) Ha Hd. rewrite X4 in Hd. specialize (Ha Hd). rewrite X2, X3, X6. exact Ha.
  - eapply Forall2_ForallOrdPairs; [|exact HS|exact H3].
    unfold sg_same, disjoint2. intros x y x' y' (_ & X2 & X3 & X4 & X5 & _) (_ & Y2 & Y3 & Y4 & Y5 & _) HD Hdx Hdy He.
    rewrite X2, X3, Y2, Y3. apply HD; congruence.
Qed.

(* index groups only grow: every old one is still there with its end, and with at least its indexes *)
Definition igs_le (l l' : list igroup) : Prop :=
  forall ig, In ig l -> exists ig', In ig' l' /\ ig_end ig' = ig_end ig /\ incl (ig_indexes ig) (ig_indexes ig').

Lemma igs_le_refl : forall l, igs_le l l.
Proof. intros l ig H. exists ig. split; [exact H|]. split; [reflexivity | apply incl_refl]. Qed.

Lemma igs_le_trans : forall a b c0, igs_le a b -> igs_le b c0 -> igs_le a c0.
Proof.
  intros a b c0 A B ig H. destruct (A ig H) as (i1 & H1 & E1 & I1). destruct (B i1 H1) as (i2 & H2 & E2 & I2).
  exists i2. split; [exact H2|]. split; [congruence | eapply incl_tran; eassumption].
Qed.

(* a shard names partitions that exist and an index of an index group of its policy that does not end before the shard's group *)
Definition good_shard (n : Z) (igs : list igroup) (e : Z) (s : shard) : Prop :=
  sh_owners s <> [] /\ Forall (fun o => 0 <= o < n) (sh_owners s) /\
  exists ig i, In ig igs /\ In i (ig_indexes ig) /\ ix_id i = sh_index s /\ e <= ig_end ig.

Lemma good_shard_mono : forall n igs igs' e s, igs_le igs igs' -> good_shard n igs e s -> good_shard n igs' e s.
Proof.
  intros n igs igs' e s L (A & B & ig & i & H1 & H2 & H3 & H4). split; [exact A|]. split; [exact B|].
  destruct (L ig H1) as (ig' & G1 & G2 & G3). exists ig', i. split; [exact G1|]. split; [apply G3; exact H2|]. split; [exact H3 | lia].
Qed.

Definition good_group (n : Z) (igs : list igroup) (g : sgroup) : Prop := Forall (good_shard n igs (sg_end g)) (sg_shards g).

Lemma good_group_mono : forall n igs igs' g, igs_le igs igs' -> good_group n igs g -> good_group n igs' g.
Proof. intros n igs igs' g L H. unfold good_group in *. eapply Forall_impl; [|exact H]. intros s. apply good_shard_mono. exact L. Qed.

(* the fields of a policy the expansion never touches *)
Definition pol_meta_eq (p p1 : policy) : Prop :=
  rp_db p1 = rp_db p /\ rp_name p1 = rp_name p /\ rp_nm p1 = rp_nm p /\ rp_sgdur p1 = rp_sgdur p /\ rp_igdur p1 = rp_igdur p /\ rp_msts p1 = rp_msts p.

(* ------------------------------------------------------------------------------------------------ index groups *)
Definition ixs (g : igroup) : list Z := map ix_id (ig_indexes g).

Lemma expand_ig_strong : forall n mx g mx1 g1, expand_ig n mx g = (mx1, g1) ->
  ext mx mx1 (ixs g) (ixs g1) /\ ig_id g1 = ig_id g /\ ig_end g1 = ig_end g /\ incl (ig_indexes g) (ig_indexes g1).
Proof.
  intros n mx g mx1 g1. unfold expand_ig. set (k := Z.of_nat (length (ig_indexes g))).
  destruct (k <? n) eqn:E; intros X; inversion X; subst; clear X.
  - split; [|split; [reflexivity|split; [reflexivity|]]].
    + split; [lia|]. unfold ixs. cbn [ig_set_indexes ig_indexes]. rewrite map_app, map_map. cbn [ix_id].
      replace (mx + (n - k) - mx) with (n - k) by lia.
      assert (Em : map (fun x => mx + 1 + (x - k)) (zseq k (Z.to_nat (n - k))) = zseq (mx + 1) (Z.to_nat (n - k))) by apply map_rebase_zseq.
      rewrite Em. apply Permutation_app_comm.
    + cbn [ig_set_indexes ig_indexes]. apply incl_appl. apply incl_refl.
  - split; [apply ext_refl|]. split; [reflexivity|]. split; [reflexivity | apply incl_refl].
Qed.

Lemma expand_igs_strong : forall n l mx mx1 l1, expand_igs n mx l = (mx1, l1) ->
  ext mx mx1 (flat_map ixs l) (flat_map ixs l1) /\ map ig_id l1 = map ig_id l /\ igs_le l l1.
Proof.
  intros n. induction l as [|g r IH]; intros mx mx1 l1; cbn [expand_igs].
  - intros X. inversion X; subst. split; [apply ext_refl|]. split; [reflexivity | apply igs_le_refl].
  - destruct (expand_ig n mx g) as [mxa g1] eqn:E1. destruct (expand_igs n mxa r) as [mxb r1] eqn:E2. intros X. inversion X; subst; clear X.
    destruct (expand_ig_strong _ _ _ _ _ E1) as (A1 & A2 & A3 & A4). destruct (IH _ _ _ E2) as (B1 & B2 & B3).
    split; [cbn [flat_map]; eapply ext_app; eassumption|]. split; [cbn; rewrite A2, B2; reflexivity|].
    intros ig [<-|Hin].
    + exists g1. split; [left; reflexivity|]. split; [exact A3 | exact A4].
    + destruct (B3 ig Hin) as (ig' & H1 & H2 & H3). exists ig'. split; [right; exact H1|]. tauto.
Qed.

(* ------------------------------------------------------------------------------------------------ shards of one group *)
Definition shs (g : sgroup) : list Z := map sh_id (sg_shards g).
Definition igids (p : policy) : list Z := map ig_id (rp_igs p).

Record grow (c : cat) (p : policy) (c1 : cat) (p1 : policy) : Prop := {
  gr_ctr : ctr_ext c c1;
  gr_meta : pol_meta_eq p p1;
  gr_sgs : rp_sgs p1 = rp_sgs p;
  gr_igs : igs_le (rp_igs p) (rp_igs p1);
  gr_ig : ext (max_ig c) (max_ig c1) (igids p) (igids p1);
  gr_ix : ext (max_ix c) (max_ix c1) (ix_ids_of p) (ix_ids_of p1)
}.

Lemma pol_meta_eq_refl : forall p, pol_meta_eq p p. Proof. intros. unfold pol_meta_eq. tauto. Qed.
Lemma pol_meta_eq_trans : forall p q r, pol_meta_eq p q -> pol_meta_eq q r -> pol_meta_eq p r.
Proof. unfold pol_meta_eq. intros p q r (a1 & a2 & a3 & a4 & a5 & a6) (b1 & b2 & b3 & b4 & b5 & b6). repeat split; congruence. Qed.

Lemma grow_refl : forall c p, grow c p c p.
Proof. intros. constructor; [apply ctr_ext_refl | apply pol_meta_eq_refl | reflexivity | apply igs_le_refl | apply ext_refl | apply ext_refl]. Qed.

Lemma grow_trans : forall c p c1 p1 c2 p2, grow c p c1 p1 -> grow c1 p1 c2 p2 -> grow c p c2 p2.
Proof.
  intros c p c1 p1 c2 p2 [A1 A2 A3 A4 A5 A6] [B1 B2 B3 B4 B5 B6]. constructor.
  - eapply ctr_ext_trans; eassumption.
  - eapply pol_meta_eq_trans; eassumption.
  - congruence.
  - eapply igs_le_trans; eassumption.
  - eapply ext_trans; eassumption.
  - eapply ext_trans; eassumption.
Qed.

Lemma new_igroup_ixs : forall c p t e eng, 0 <= ptnum c -> ixs (new_igroup c p t e eng) = zseq (max_ix c + 1) (Z.to_nat (ptnum c)).
Proof.
  intros. unfold ixs. cbn [new_igroup ig_indexes]. rewrite map_map. cbn [ix_id]. rewrite (map_shift_zseq (max_ix c + 1) (Z.to_nat (ptnum c)) 0). f_equal. lia.
Qed.

Lemma expand_shards_strong : forall parts c p g c1 p1 g1, 0 <= ptnum c -> Forall (fun i => 0 <= i < ptnum c) parts ->
  good_group (ptnum c) (rp_igs p) g -> sg_end g <= MAXNANO1 -> expand_shards c p g parts = (c1, p1, g1) ->
  grow c p c1 p1 /\ sg_same g g1 /\ ext (max_sh c) (max_sh c1) (shs g) (shs g1) /\ good_group (ptnum c) (rp_igs p1) g1.
Proof.
  induction parts as [|i r IH]; intros c p g c1 p1 g1 Hn Hparts Hg Hcap; cbn [expand_shards].
  - intros X. inversion X; subst. split; [apply grow_refl|]. split; [apply sg_same_refl|]. split; [apply ext_refl | exact Hg].
  - destruct (ensure_ig c p (sg_start g) (sg_end g) (sg_eng g)) as [ig isnew] eqn:Eig.
    destruct (ensure_ig_spec _ _ _ _ _ _ _ Eig Hn) as (Ilen & Iold & Inew).
    set (pa := if isnew then pol_set_igs p (insert_ig ig (rp_igs p)) else p).
    set (ca := set_sg_counters c (max_sg c) (max_sh c + 1) (if isnew then max_ig c + 1 else max_ig c) (if isnew then max_ix c + ptnum c else max_ix c)).
    set (s := {| sh_id := max_sh c + 1; sh_owners := [i];
                 sh_index := ix_id (nth (Z.to_nat i) (ig_indexes ig) {| ix_id := 0; ix_owners := []; ix_mark := false |}); sh_mark := false |}).
    set (ga := sg_set_shards g (sg_shards g ++ [s])).
    intros X. inversion Hparts as [|i0 r0 Hi Hr]; subst.
    assert (Hig_in : In ig (rp_igs pa)).
    { unfold pa. destruct isnew; cbn [rp_igs pol_set_igs]; [apply In_insert_ig; left; reflexivity | apply Iold; reflexivity]. }
    assert (Hend : sg_end g <= ig_end ig).
    { destruct isnew; [|apply Iold; reflexivity]. rewrite (Inew eq_refl). cbn [new_igroup ig_end].
      (* a new index group is stretched to the end of the shard group (and capped like it) *)
      lia. }
    assert (Ga : grow c p ca pa).
    { constructor.
      - exists (max_sg c), (max_sh c + 1), (if isnew then max_ig c + 1 else max_ig c), (if isnew then max_ix c + ptnum c else max_ix c).
        split; [reflexivity|]. destruct isnew; lia.
      - unfold pa. destruct isnew; [|apply pol_meta_eq_refl]. unfold pol_meta_eq. cbn. tauto.
      - unfold pa. destruct isnew; reflexivity.
      - unfold pa. destruct isnew; [|apply igs_le_refl]. cbn [rp_igs pol_set_igs]. intros x Hx. exists x.
        split; [apply In_insert_ig; right; exact Hx|]. split; [reflexivity | apply incl_refl].
      - unfold pa, ca, igids. cbn [max_ig set_sg_counters]. destruct isnew; [|apply ext_refl]. cbn [rp_igs pol_set_igs].
        eapply ext_perm; [apply Permutation_refl | | apply ext_one].
        eapply Permutation_trans; [|apply Permutation_sym, Permutation_map, insert_ig_perm]. cbn [map]. rewrite (Inew eq_refl). cbn [new_igroup ig_id].
        apply Permutation_sym. apply Permutation_cons_append.
      - unfold pa, ca. cbn [max_ix set_sg_counters]. destruct isnew; [|apply ext_refl]. unfold ix_ids_of. cbn [rp_igs pol_set_igs].
        split; [lia|]. eapply Permutation_trans; [apply Permutation_flat_map, insert_ig_perm|]. cbn [flat_map].
        replace (max_ix c + ptnum c - max_ix c) with (ptnum c) by lia.
        rewrite (Inew eq_refl). fold (ixs (new_igroup c p (sg_start g) (sg_end g) (sg_eng g))). rewrite new_igroup_ixs by exact Hn. apply Permutation_refl. }
    assert (Hga : good_group (ptnum ca) (rp_igs pa) ga).
    { unfold good_group, ga. cbn [sg_set_shards sg_shards sg_end ptnum ca set_sg_counters]. apply Forall_app. split.
      - eapply Forall_impl; [|exact Hg]. intros s0. apply good_shard_mono. exact (gr_igs _ _ _ _ Ga).
      - constructor; [|constructor]. split; [cbn; discriminate|]. split; [cbn; constructor; [exact Hi | constructor]|].
        exists ig, (nth (Z.to_nat i) (ig_indexes ig) {| ix_id := 0; ix_owners := []; ix_mark := false |}).
        split; [exact Hig_in|]. split; [apply nth_In; lia|]. split; [reflexivity | exact Hend]. }
    assert (Hn' : 0 <= ptnum ca) by (cbn; exact Hn).
    assert (Hr' : Forall (fun i1 => 0 <= i1 < ptnum ca) r) by (cbn [ptnum ca set_sg_counters]; exact Hr).
    destruct (IH ca pa ga c1 p1 g1 Hn' Hr' Hga Hcap X) as (B1 & B2 & B3 & B4).
    split; [eapply grow_trans; eassumption|]. split.
    { destruct B2 as (b1 & b2 & b3 & b4 & b5 & b6). unfold sg_same. cbn [ga sg_set_shards sg_id sg_start sg_end sg_del sg_eng sg_dur] in *. tauto. }
    split.
    { eapply ext_trans; [|exact B3]. unfold shs, ga. cbn [sg_set_shards sg_shards ca max_sh set_sg_counters]. rewrite map_app. cbn [map sh_id s]. apply ext_one. }
    exact B4.
Qed.

(* ------------------------------------------------------------------------------------------------ all groups of a policy *)
Lemma expand_sgs_strong : forall l c p c1 p1 l1, 0 <= ptnum c ->
  Forall (good_group (ptnum c) (rp_igs p)) l -> Forall (fun g => sg_end g <= MAXNANO1) l -> expand_sgs c p l = (c1, p1, l1) ->
  grow c p c1 p1 /\ Forall2 sg_same l l1 /\ ext (max_sh c) (max_sh c1) (flat_map shs l) (flat_map shs l1) /\
  Forall (good_group (ptnum c) (rp_igs p1)) l1.
Proof.
  induction l as [|g r IH]; intros c p c1 p1 l1 Hn Hg Hcap; cbn [expand_sgs].
  - intros X. inversion X; subst. split; [apply grow_refl|]. split; [constructor|]. split; [apply ext_refl | constructor].
  - destruct (expand_shards c p g _) as [[ca pa] ga] eqn:E1. destruct (expand_sgs ca pa r) as [[cb pb] rb] eqn:E2.
    intros X. inversion X; subst; clear X. inversion Hg as [|g0 r0 Hg1 Hgr]; subst. inversion Hcap as [|g0 r0 Hc1 Hcr]; subst.
    assert (Hparts : Forall (fun i => 0 <= i < ptnum c) (zseq (Z.of_nat (length (sg_shards g))) (Z.to_nat (ptnum c - Z.of_nat (length (sg_shards g)))))).
    { apply Forall_forall. intros i Hi. apply (in_zseq _ _ _ i eq_refl) in Hi. lia. }
    destruct (expand_shards_strong _ _ _ _ _ _ _ Hn Hparts Hg1 Hc1 E1) as (A1 & A2 & A3 & A4).
    destruct (ctr_ext_facts _ _ (gr_ctr _ _ _ _ A1)) as (Ep & _).
    assert (Hn' : 0 <= ptnum ca) by (rewrite Ep; exact Hn).
    assert (Hgr' : Forall (good_group (ptnum ca) (rp_igs pa)) r).
    { rewrite Ep. eapply Forall_impl; [|exact Hgr]. intros g0. apply good_group_mono. exact (gr_igs _ _ _ _ A1). }
    destruct (IH _ _ _ _ _ Hn' Hgr' Hcr E2) as (B1 & B2 & B3 & B4). rewrite Ep in B4.
    split; [eapply grow_trans; eassumption|]. split; [constructor; assumption|]. split; [cbn [flat_map]; eapply ext_app; eassumption|].
    constructor; [|exact B4]. eapply good_group_mono; [exact (gr_igs _ _ _ _ B1)|]. exact A4.
Qed.

(* ------------------------------------------------------------------------------------------------ one policy *)
Definition pol_good (n : Z) (p : policy) : Prop := Forall (good_group n (rp_igs p)) (rp_sgs p).

Record pol_rel (n : Z) (p p1 : policy) : Prop := {
  pr_meta : pol_meta_eq p p1;
  pr_sgs : Forall2 sg_same (rp_sgs p) (rp_sgs p1);
  pr_good : pol_good n p1
}.

Lemma expand_pol_strong : forall c p c1 p1, 0 <= ptnum c -> pol_good (ptnum c) p -> Forall (fun g => sg_end g <= MAXNANO1) (rp_sgs p) ->
  expand_pol c p = (c1, p1) ->
  ctr_ext c c1 /\ pol_rel (ptnum c) p p1 /\
  ext (max_sh c) (max_sh c1) (sh_ids_of p) (sh_ids_of p1) /\ ext (max_ig c) (max_ig c1) (igids p) (igids p1) /\
  ext (max_ix c) (max_ix c1) (ix_ids_of p) (ix_ids_of p1).
Proof.
  intros c p c1 p1 Hn Hgood Hcap. unfold expand_pol.
  destruct (expand_igs (ptnum c) (max_ix c) (rp_igs p)) as [mx igs1] eqn:E1.
  set (c0 := set_sg_counters c (max_sg c) (max_sh c) (max_ig c) mx).
  set (p0 := pol_set_igs p igs1).
  destruct (expand_sgs c0 p0 (rp_sgs p)) as [[cb pb] sgs1] eqn:E2. intros X. inversion X; subst; clear X.
  destruct (expand_igs_strong _ _ _ _ _ E1) as (A1 & A2 & A3).
  assert (H0 : ctr_ext c c0) by (exists (max_sg c), (max_sh c), (max_ig c), mx; split; [reflexivity | destruct A1; lia]).
  assert (Hn0 : 0 <= ptnum c0) by (cbn; exact Hn).
  assert (Hg0 : Forall (good_group (ptnum c0) (rp_igs p0)) (rp_sgs p)).
  { cbn [ptnum c0 set_sg_counters rp_igs p0 pol_set_igs]. eapply Forall_impl; [|exact Hgood]. intros g. apply good_group_mono. exact A3. }
  destruct (expand_sgs_strong _ _ _ _ _ _ Hn0 Hg0 Hcap E2) as ([G1 G2 G3 G4 G5 G6] & B2 & B3 & B4).
  cbn [ptnum c0 set_sg_counters] in B4.
  split; [eapply ctr_ext_trans; eassumption|]. split; [|split; [|split]].
  - constructor.
    + destruct G2 as (a1 & a2 & a3 & a4 & a5 & a6). unfold pol_meta_eq. cbn [rp_db rp_name rp_nm rp_sgdur rp_igdur rp_msts pol_set_sgs p0 pol_set_igs] in *. tauto.
    + cbn [rp_sgs pol_set_sgs]. exact B2.
    + unfold pol_good. cbn [rp_sgs rp_igs pol_set_sgs]. exact B4.
  - unfold sh_ids_of. cbn [rp_sgs pol_set_sgs]. cbn [max_sh c0 set_sg_counters] in B3. exact B3.
  - unfold igids in *. cbn [rp_igs pol_set_sgs]. cbn [max_ig c0 set_sg_counters rp_igs p0 pol_set_igs] in G5. rewrite A2 in G5. exact G5.
  - cbn [rp_igs pol_set_sgs]. eapply ext_trans; [|exact G6]. unfold ix_ids_of. cbn [max_ix c0 set_sg_counters rp_igs p0 pol_set_igs]. exact A1.
Qed.

(* ------------------------------------------------------------------------------------------------ all policies *)
Lemma expand_pols_strong : forall l c c1 l1, 0 <= ptnum c -> Forall (pol_good (ptnum c)) l ->
  Forall (fun p => Forall (fun g => sg_end g <= MAXNANO1) (rp_sgs p)) l -> expand_pols c l = (c1, l1) ->
  ctr_ext c c1 /\ Forall2 (pol_rel (ptnum c)) l l1 /\
  ext (max_sh c) (max_sh c1) (flat_map sh_ids_of l) (flat_map sh_ids_of l1) /\
  ext (max_ig c) (max_ig c1) (flat_map igids l) (flat_map igids l1) /\
  ext (max_ix c) (max_ix c1) (flat_map ix_ids_of l) (flat_map ix_ids_of l1).
Proof.
  induction l as [|p r IH]; intros c c1 l1 Hn Hg Hcap; cbn [expand_pols].
  - intros X. inversion X; subst. split; [apply ctr_ext_refl|]. split; [constructor|]. split; [apply ext_refl|]. split; apply ext_refl.
  - destruct (expand_pol c p) as [ca pa] eqn:E1. destruct (expand_pols ca r) as [cb rb] eqn:E2. intros X. inversion X; subst; clear X.
    inversion Hg as [|p0 r0 Hg1 Hgr]; subst. inversion Hcap as [|p0 r0 Hc1 Hcr]; subst.
    destruct (expand_pol_strong _ _ _ _ Hn Hg1 Hc1 E1) as (A1 & A2 & A3 & A4 & A5).
    destruct (ctr_ext_facts _ _ A1) as (Ep & _).
    assert (Hn' : 0 <= ptnum ca) by (rewrite Ep; exact Hn).
    rewrite <- Ep in Hgr. destruct (IH _ _ _ Hn' Hgr Hcr E2) as (B1 & B2 & B3 & B4 & B5). rewrite Ep in B2.
    split; [eapply ctr_ext_trans; eassumption|]. split; [constructor; assumption|].
    cbn [flat_map]. split; [eapply ext_app; eassumption|]. split; eapply ext_app; eassumption.
Qed.

(* ------------------------------------------------------------------------------------------------ the catalogue *)
Lemma pol_good_of_wf : forall c p, wf c -> covered c -> In p (pols c) -> pol_good (ptnum c) p.
Proof.
  intros c p H CV Hp. unfold pol_good, good_group. apply Forall_forall. intros g Hg. apply Forall_forall. intros s Hs.
  pose proof (wf_refs _ H) as RR. rewrite Forall_forall in RR. destruct (RR p Hp g s Hg Hs) as (R1 & R2 & R3).
  unfold covered in CV. rewrite Forall_forall in CV.
  split; [exact R2|]. split; [exact R3|].
  unfold ix_ids_of in R1. apply in_flat_map in R1. destruct R1 as [ig [Hig Hi]]. apply in_map_iff in Hi. destruct Hi as [i [Ei Hi]].
  exists ig, i. split; [exact Hig|]. split; [exact Hi|]. split; [exact Ei|]. exact (CV p Hp g s ig i Hg Hs Hig Hi Ei).
Qed.

Lemma cap_of_aligned : forall c p g, all_aligned c -> In p (pols c) -> In g (rp_sgs p) -> sg_end g <= MAXNANO1.
Proof. intros c p g AA Hp Hg. destruct (AA p g Hp Hg) as (_ & _ & E). unfold cell_end in E. lia. Qed.

Lemma sg_same_ids : forall l l1, Forall2 sg_same l l1 -> map sg_id l1 = map sg_id l.
Proof. intros. eapply Forall2_map_eq; [|eassumption]. intros x y (E & _). exact E. Qed.

Section Final.
  Variable c : cat.
  Hypothesis H : wf c.
  Hypothesis AA : all_aligned c.
  Hypothesis CV : covered c.

  Let n := ptnum c.
  Let L0 := sort_pols (pols c).

  Lemma L0_perm : Permutation L0 (pols c).
  Proof. apply sort_pols_perm. Qed.

  Lemma L0_in : forall p, In p L0 -> In p (pols c).
  Proof. intros p Hp. exact (Permutation_in _ L0_perm Hp). Qed.

  Lemma expand_facts : exists c1 l1,
    expand_groups c = set_pols c1 l1 /\ ctr_ext c c1 /\ Forall2 (pol_rel n) L0 l1 /\
    ext (max_sh c) (max_sh c1) (sh_ids c) (flat_map sh_ids_of l1) /\
    ext (max_ig c) (max_ig c1) (ig_ids c) (flat_map igids l1) /\
    ext (max_ix c) (max_ix c1) (ix_ids c) (flat_map ix_ids_of l1).
  Proof.
    pose proof (nonneg_get _ H) as NN. assert (Hn : 0 <= ptnum c) by lia.
    destruct (expand_ctr_ext c Hn) as (c1 & l1 & E & Eg). exists c1, l1. split; [exact Eg|].
    assert (G : Forall (pol_good (ptnum c)) L0).
    { apply Forall_forall. intros p Hp. apply pol_good_of_wf; [exact H | exact CV | apply L0_in; exact Hp]. }
    assert (K : Forall (fun p => Forall (fun g => sg_end g <= MAXNANO1) (rp_sgs p)) L0).
    { apply Forall_forall. intros p Hp. apply Forall_forall. intros g Hg. eapply cap_of_aligned; [exact AA | apply L0_in; exact Hp | exact Hg]. }
    destruct (expand_pols_strong _ _ _ _ Hn G K E) as (A1 & A2 & A3 & A4 & A5).
    split; [exact A1|]. split; [exact A2|].
    split; [|split].
    - eapply ext_perm; [apply (Permutation_flat_map _ L0_perm) | apply Permutation_refl | exact A3].
    - eapply ext_perm; [apply (Permutation_flat_map _ L0_perm) | apply Permutation_refl | exact A4].
    - eapply ext_perm; [apply (Permutation_flat_map _ L0_perm) | apply Permutation_refl | exact A5].
  Qed.

  Lemma rel_keys : forall l l1, Forall2 (pol_rel n) l l1 ->
    map (fun p => (rp_db p, rp_name p)) l1 = map (fun p => (rp_db p, rp_name p)) l.
  Proof. intros. eapply Forall2_map_eq; [|eassumption]. intros x y [(E1 & E2 & _) _ _]. rewrite E1, E2. reflexivity. Qed.

  Theorem wf_expand_groups : wf (expand_groups c).
  Proof.
    destruct expand_facts as (c1 & l1 & -> & (a & b & d & e & -> & Ha & Hb & Hd & He) & R & Xsh & Xig & Xix).
    cbn [max_sh max_ig max_ix set_sg_counters] in Xsh, Xig, Xix.
    pose proof (nonneg_get _ H) as NN.
    assert (Ek : pol_keys (set_pols (set_sg_counters c a b d e) l1) = map (fun p => (rp_db p, rp_name p)) L0).
    { unfold pol_keys. cbn [pols set_pols]. apply rel_keys. exact R. }
    assert (Pk : Permutation (map (fun p => (rp_db p, rp_name p)) L0) (pol_keys c)) by (apply Permutation_map, L0_perm).
    constructor; cbn [pols dbs nodes ptview ptnum set_pols set_sg_counters max_sg max_sh max_ig max_ix max_mst max_node].
    - (* groups *)
      eapply Forall2_Forall; [| exact R |].
      + intros p p1 [_ S _] Q. eapply groups_ok_same; [exact S | exact Q].
      + eapply Permutation_Forall; [apply Permutation_sym, L0_perm | exact (wf_groups _ H)].
    - (* shard group ids *)
      unfold sg_ids. cbn [pols set_pols].
      assert (E : flat_map (fun p => map sg_id (rp_sgs p)) l1 = flat_map (fun p => map sg_id (rp_sgs p)) L0).
      { eapply Forall2_flat_map_eq; [|exact R]. intros p p1 [_ S _]. apply sg_same_ids. exact S. }
      rewrite E. eapply uniq_le_perm; [apply (Permutation_flat_map _ L0_perm)|]. eapply uniq_le_weaken; [exact (wf_sg _ H) | exact Ha].
    - unfold sh_ids. cbn [pols set_pols]. eapply ext_uniq; [exact (wf_sh _ H) | lia | exact Xsh].
    - unfold ig_ids. cbn [pols set_pols]. eapply ext_uniq; [exact (wf_ig _ H) | lia | exact Xig].
    - unfold ix_ids. cbn [pols set_pols]. eapply ext_uniq; [exact (wf_ix _ H) | lia | exact Xix].
    - unfold mst_ids. cbn [pols set_pols].
      assert (E : flat_map (fun p => map ms_id (rp_msts p)) l1 = flat_map (fun p => map ms_id (rp_msts p)) L0).
      { eapply Forall2_flat_map_eq; [|exact R]. intros p p1 [(_ & _ & _ & _ & _ & E) _ _]. rewrite E. reflexivity. }
      rewrite E. destruct (wf_mst _ H) as [N1 N2]. split.
      + eapply Permutation_NoDup; [apply Permutation_sym, (Permutation_flat_map _ L0_perm) | exact N1].
      + eapply Permutation_Forall; [apply Permutation_sym, (Permutation_flat_map _ L0_perm) | exact N2].
    - exact (wf_node _ H).
    - exact (wf_dbn _ H).
    - fold (pol_keys (set_pols (set_sg_counters c a b d e) l1)). rewrite Ek.
      eapply Permutation_NoDup; [apply Permutation_sym; exact Pk | exact (wf_poln _ H)].
    - eapply Forall2_Forall; [| exact R |].
      + intros p p1 [(E1 & _) _ _] Q. cbv beta in *. rewrite E1. exact Q.
      + eapply Permutation_Forall; [apply Permutation_sym, L0_perm | exact (wf_poldb _ H)].
    - (* references *)
      apply Forall_forall. intros p1 Hp1. destruct (Forall2_In_r _ _ _ _ R Hp1) as [p [_ [_ _ G]]].
      intros g s Hg Hs. unfold pol_good, good_group in G. rewrite Forall_forall in G. specialize (G g Hg). rewrite Forall_forall in G.
      destruct (G s Hs) as (G1 & G2 & ig & i & I1 & I2 & I3 & _).
      split; [|split; [exact G1 | exact G2]]. rewrite <- I3. eapply In_ix_ids_of; eassumption.
    - (* defaults *)
      eapply Forall_impl; [|exact (wf_def _ H)]. intros d0 [E0|Hin]; [left; exact E0 | right].
      rewrite Ek. apply (Permutation_in _ (Permutation_sym Pk)). exact Hin.
    - exact (wf_ptv _ H).
    - repeat (constructor; [lia|]). constructor.
    - eapply Forall2_Forall; [| exact R |].
      + intros p p1 [(_ & _ & _ & E & _) _ _] Q. cbv beta in *. rewrite E. exact Q.
      + eapply Permutation_Forall; [apply Permutation_sym, L0_perm | exact (wf_dur _ H)].
    - eapply Forall2_Forall; [| exact R |].
      + intros p p1 [(_ & E2 & E3 & _) _ _] Q. cbv beta in *. rewrite E2, E3. exact Q.
      + eapply Permutation_Forall; [apply Permutation_sym, L0_perm | exact (wf_nm _ H)].
  Qed.

  Theorem covered_expand_groups : covered (expand_groups c).
  Proof.
    pose proof wf_expand_groups as W. revert W.
    destruct expand_facts as (c1 & l1 & -> & _ & R & _). intros W.
    unfold covered. cbn [pols set_pols]. apply Forall_forall. intros p1 Hp1.
    destruct (Forall2_In_r _ _ _ _ R Hp1) as [p [_ [_ _ G]]].
    intros g s ig i Hg Hs Hig Hi E.
    unfold pol_good, good_group in G. rewrite Forall_forall in G. specialize (G g Hg). rewrite Forall_forall in G.
    destruct (G s Hs) as (_ & _ & ig0 & i0 & I1 & I2 & I3 & I4).
    assert (ig = ig0).
    { eapply (ix_owner_unique (set_pols c1 l1) p1); [exact W | exact Hp1 | exact Hig | exact I1 | exact Hi | exact I2 | congruence]. }
    subst ig0. exact I4.
  Qed.

  Theorem aligned_expand_groups : all_aligned (expand_groups c).
  Proof.
    destruct expand_facts as (c1 & l1 & -> & _ & R & _). intros p1 g1 Hp1 Hg1. cbn [pols set_pols] in Hp1.
    destruct (Forall2_In_r _ _ _ _ R Hp1) as [p [Hp [_ S _]]].
    destruct (Forall2_In_r _ _ _ _ S Hg1) as [g [Hg (_ & E2 & E3 & _ & _ & E6)]].
    pose proof (AA p g (L0_in p Hp) Hg) as A. unfold aligned_any in *. rewrite E2, E3, E6. exact A.
  Qed.
End Final.

Lemma switches_expand_groups : forall c, 0 <= ptnum c -> switches (expand_groups c) = switches c.
Proof.
  intros c Hn. destruct (expand_ctr_ext c Hn) as (c1 & l1 & E & Eg). rewrite Eg.
  destruct (expand_pols_spec _ _ _ _ Hn E) as ((a & b & d & e & -> & _) & _). reflexivity.
Qed.

Theorem good_expand_groups : forall c, good c -> good (expand_groups c).
Proof.
  intros c (H & AA & CV & R). pose proof (nonneg_get _ H) as NN.
  split; [apply wf_expand_groups; assumption|]. split; [apply aligned_expand_groups; assumption|].
  split; [apply covered_expand_groups; assumption|].
  pose proof (switches_expand_groups c ltac:(lia)) as S. unfold switches in S. inversion S as [[S1 S2 S3 S4]].
  destruct R as [R1 R2]. unfold repaired. rewrite S3, S4. tauto.
Qed.

(* the commands of the correspondence (Expand.xcmd): those of [cmd], the expansion, a join that expands *)
Definition env_okx (c : cat) (x : xcmd) : Prop := match x with Base y => env_ok c y | _ => True end.

Theorem good_stepx : forall c x, good c -> env_okx c x -> good (fst (applyx true true c x)).
Proof.
  intros c x G E. destruct x; cbn [applyx].
  - apply good_step; assumption.
  - cbn [fst ok]. apply good_expand_groups. exact G.
  - pose proof (good_step c (CreateNode h t) G I) as G1. cbn [apply] in G1.
    destruct (create_node c h t) as [c1 r]. cbn [fst] in G1. destruct (Nat.ltb _ _); cbn [fst]; [apply good_expand_groups; exact G1 | exact G1].
Qed.

Fixpoint runx (c : cat) (xs : list xcmd) : cat :=
  match xs with [] => c | x :: r => runx (fst (applyx true true c x)) r end.
Fixpoint env_runx (c : cat) (xs : list xcmd) : Prop :=
  match xs with [] => True | x :: r => env_okx c x /\ env_runx (fst (applyx true true c x)) r end.

Lemma good_runx_prefix : forall xs c k, good c -> env_runx c xs -> good (runx c (firstn k xs)).
Proof.
  induction xs; intros c k G E; destruct k; cbn [firstn runx]; try exact G.
  destruct E as [E1 E2]. apply IHxs; [apply good_stepx; assumption | exact E2].
Qed.

Definition env_okx_b (c : cat) (x : xcmd) : bool := match x with Base y => env_ok_b c y | _ => true end.
Fixpoint env_runx_b (c : cat) (xs : list xcmd) : bool :=
  match xs with [] => true | x :: r => env_okx_b c x && env_runx_b (fst (applyx true true c x)) r end.
Lemma env_runx_b_sound : forall xs c, env_runx_b c xs = true -> env_runx c xs.
Proof.
  induction xs; intros c Hb; cbn [env_runx env_runx_b] in *; [exact I|]. apply andb_true_iff in Hb. destruct Hb as [H1 H2].
  split; [destruct a; cbn [env_okx env_okx_b] in *; try exact I; apply env_ok_b_sound; exact H1 | apply IHxs; exact H2].
Qed.
