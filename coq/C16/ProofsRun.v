(* C16: the step theorem for the whole command alphabet, runs, and counter monotonicity. *)
From Coq Require Import ZArith List Bool Lia ZifyBool.
From OG Require Import C16.Model C16.Wf C16.Lists C16.Proofs C16.ProofsCmd C16.ProofsSg.
Import ListNotations.
Open Scope Z_scope.

(* what the environment guarantees about a command (everything else is unconstrained):
   - instants of shard-group creation lie below the end of the time domain (models.MaxNanoTime + 1);
   - an index is pruned only once no shard refers to it. *)
(* every instant of the catalogue is representable as int64 nanoseconds *)
Definition span_ok (s e : Z) : Prop := MININT <= s <= MAXNANO1 /\ MININT <= e <= MAXNANO1.
Definition representable (c : cat) : Prop :=
  Forall (fun p => Forall (fun g => span_ok (sg_start g) (sg_end g)) (rp_sgs p) /\
                   Forall (fun g => span_ok (ig_start g) (ig_end g)) (rp_igs p)) (pols c).

Definition env_ok (c : cat) (x : cmd) : Prop :=
  match x with
  | CreateSg _ _ t _ => MINNANO <= t < MAXNANO1
  | PruneIg id => prune_ig_env c id
  | Restore => representable c     (* no group starts before -2^63 ns (finding C16-restore-wraps-early-group-start) *)
  | _ => True
  end.

Lemma wrap64_id : forall z, MININT <= z <= MAXNANO1 -> wrap64 z = z.
Proof. intros z H. unfold wrap64, MININT, MAXNANO1 in *. rewrite Z.mod_small; lia. Qed.

Lemma restore_state_id : forall c, representable c -> restore_state c = c.
Proof.
  intros c H. unfold restore_state.
  assert (E : map (fun p => pol_set_igs (pol_set_sgs p (map restore_sg (rp_sgs p))) (map restore_ig (rp_igs p))) (pols c) = pols c).
  { rewrite <- (map_id (pols c)) at 2. apply map_ext_in. intros p Hp. unfold representable in H. rewrite Forall_forall in H.
    destruct (H p Hp) as [Hs Hi].
    assert (E1 : map restore_sg (rp_sgs p) = rp_sgs p).
    { rewrite <- (map_id (rp_sgs p)) at 2. apply map_ext_in. intros g Hg. rewrite Forall_forall in Hs. destruct (Hs g Hg) as [A B].
      destruct g. unfold restore_sg. cbn in *. rewrite !wrap64_id by assumption. reflexivity. }
    assert (E2 : map restore_ig (rp_igs p) = rp_igs p).
    { rewrite <- (map_id (rp_igs p)) at 2. apply map_ext_in. intros g Hg. rewrite Forall_forall in Hi. destruct (Hi g Hg) as [A B].
      destruct g. unfold restore_ig. cbn in *. rewrite !wrap64_id by assumption. reflexivity. }
    rewrite E1, E2. destruct p. reflexivity. }
  rewrite E. destruct c. reflexivity.
Qed.

Lemma wf_init_v : forall per sc cl, wf (init_cat_v per sc cl).
Proof. intros. apply wf_b_iff. reflexivity. Qed.

Lemma wf_init : forall per sc, wf (init_cat per sc).
Proof. intros. apply wf_init_v. Qed.

Lemma wf_step : forall c x, wf c -> env_ok c x -> wf (fst (apply true true c x)).
Proof.
  intros c x H E. destruct x; cbn [apply].
  - apply wf_create_db; assumption.
  - apply wf_mark_db; assumption.
  - apply wf_drop_db; assumption.
  - apply wf_create_rp; assumption.
  - apply wf_update_rp; assumption.
  - apply wf_mark_rp; assumption.
  - apply wf_drop_rp; assumption.
  - apply wf_set_default_rp; assumption.
  - apply wf_create_mst; assumption.
  - apply wf_mark_mst; assumption.
  - apply wf_drop_mst; assumption.
  - apply wf_create_sg; assumption.
  - apply wf_delete_sg; assumption.
  - apply wf_prune_sg; assumption.
  - apply wf_delete_ig; assumption.
  - apply wf_prune_ig; assumption.
  - apply wf_create_node; assumption.
  - apply wf_create_ptview; assumption.
  - apply wf_update_pt; assumption.
  - cbn [fst ok]. rewrite restore_state_id by exact E. exact H.
Qed.

(* every command of the sequence meets the environment's guarantee in the state it is applied to *)
Fixpoint env_run (c : cat) (xs : list cmd) : Prop :=
  match xs with
  | [] => True
  | x :: r => env_ok c x /\ env_run (fst (apply true true c x)) r
  end.

Lemma wf_run : forall xs c, wf c -> env_run c xs -> wf (run true true c xs).
Proof.
  induction xs; intros c H E; cbn [run]; [exact H|]. destruct E as [E1 E2].
  apply IHxs; [apply wf_step; assumption | exact E2].
Qed.

(* every prefix of a run is well-formed, i.e. the statement holds after every single step *)
Lemma wf_run_prefix : forall xs c k, wf c -> env_run c xs -> wf (run true true c (firstn k xs)).
Proof.
  induction xs; intros c k H E; destruct k; cbn [firstn run]; try exact H.
  destruct E as [E1 E2]. apply IHxs; [apply wf_step; assumption | exact E2].
Qed.

(* ---- counters never decrease (both variants of the step function) ---- *)
Definition counters_le (c c' : cat) : Prop :=
  max_sg c <= max_sg c' /\ max_sh c <= max_sh c' /\ max_ig c <= max_ig c' /\ max_ix c <= max_ix c' /\
  max_mst c <= max_mst c' /\ max_node c <= max_node c' /\ ptnum c <= ptnum c'.

Lemma counters_le_refl : forall c, counters_le c c.
Proof. intros. unfold counters_le. lia. Qed.

Lemma counters_mono : forall clip cd c x, 0 <= ptnum c -> 0 <= ptper c -> counters_le c (fst (apply clip cd c x)).
Proof.
  intros clip cd c x Hp Hpp. destruct x; cbn [apply];
    unfold create_db, mark_db, drop_db, create_rp, update_rp, mark_rp, drop_rp, set_default_rp, create_mst, mark_mst, drop_mst,
      create_sg, delete_sg, prune_sg, delete_ig, prune_ig, create_node, create_ptview, update_pt, ok, err, add_mst, set_default, upd_pol, upd_db, restore_state;
    repeat match goal with
           | |- context [match ?e with _ => _ end] => destruct e eqn:?; cbn [fst snd]
           | |- context [if ?e then _ else _] => destruct e eqn:?; cbn [fst snd]
           end; try apply counters_le_refl; unfold counters_le; cbn; try lia.
Qed.

(* ---- a decidable form of the environment guarantee (used for the non-vacuity example and by nothing else) ---- *)
Definition prune_ig_env_b (c : cat) (id : Z) : bool :=
  forallb (fun p => forallb (fun g => negb (ig_gone (prune_mark_ig id g)) ||
     forallb (fun ix => forallb (fun sg => forallb (fun s => negb (sh_index s =? ix_id ix)) (sg_shards sg)) (rp_sgs p)) (ig_indexes g))
     (rp_igs p)) (pols c).
Definition span_ok_b (s e : Z) : bool := (MININT <=? s) && (s <=? MAXNANO1) && (MININT <=? e) && (e <=? MAXNANO1).
Definition representable_b (c : cat) : bool :=
  forallb (fun p => forallb (fun g => span_ok_b (sg_start g) (sg_end g)) (rp_sgs p) &&
                    forallb (fun g => span_ok_b (ig_start g) (ig_end g)) (rp_igs p)) (pols c).
Definition env_ok_b (c : cat) (x : cmd) : bool :=
  match x with CreateSg _ _ t _ => (MINNANO <=? t) && (t <? MAXNANO1) | PruneIg id => prune_ig_env_b c id | Restore => representable_b c | _ => true end.
Fixpoint env_run_b (c : cat) (xs : list cmd) : bool :=
  match xs with [] => true | x :: r => env_ok_b c x && env_run_b (fst (apply true true c x)) r end.

Lemma env_ok_b_sound : forall c x, env_ok_b c x = true -> env_ok c x.
Proof.
  intros c x. destruct x; cbn [env_ok_b env_ok]; try (intros; exact I); [lia| |].
  2: { unfold representable_b, representable. intros Hb. rewrite forallb_forall in Hb. apply Forall_forall. intros p Hp.
       specialize (Hb p Hp). apply andb_true_iff in Hb. destruct Hb as [B1 B2]. rewrite forallb_forall in B1, B2.
       split; apply Forall_forall; intros g Hg; [specialize (B1 g Hg) | specialize (B2 g Hg)]; unfold span_ok_b, span_ok in *; lia. }
  unfold prune_ig_env_b, prune_ig_env. intros Hb p g ix sg s Hp Hg Hgone Hix Hsg Hs.
  rewrite forallb_forall in Hb. specialize (Hb p Hp). rewrite forallb_forall in Hb. specialize (Hb g Hg).
  rewrite Hgone in Hb. cbn [negb orb] in Hb. rewrite forallb_forall in Hb. specialize (Hb ix Hix).
  rewrite forallb_forall in Hb. specialize (Hb sg Hsg). rewrite forallb_forall in Hb. specialize (Hb s Hs). lia.
Qed.

Lemma env_run_b_sound : forall xs c, env_run_b c xs = true -> env_run c xs.
Proof.
  induction xs; intros c H; cbn [env_run env_run_b] in *; [exact I|].
  apply andb_true_iff in H. destruct H as [H1 H2]. split; [apply env_ok_b_sound; exact H1 | apply IHxs; exact H2].
Qed.

(* ---- a snapshot/restore inserted anywhere in a log is invisible (C15's second half, on this command model) ---- *)
Lemma run_app : forall clip cd xs ys c, run clip cd c (xs ++ ys) = run clip cd (run clip cd c xs) ys.
Proof. intros clip cd xs. induction xs; intros ys c; cbn [app run]; [reflexivity | apply IHxs]. Qed.

Lemma restore_transparent : forall clip cd l1 l2 c, representable (run clip cd c l1) ->
  run clip cd c (l1 ++ Restore :: l2) = run clip cd c (l1 ++ l2).
Proof.
  intros clip cd l1 l2 c R. rewrite !run_app. cbn [run apply fst ok]. rewrite restore_state_id by exact R. reflexivity.
Qed.
