(* C16: the step theorem for the whole command alphabet, runs, and counter monotonicity. *)
From Coq Require Import ZArith List Bool Lia ZifyBool.
From OG Require Import C16.Model C16.Wf C16.Lists C16.Proofs C16.ProofsCmd C16.ProofsSg.
Import ListNotations.
Open Scope Z_scope.

(* what the environment guarantees about a command (everything else is unconstrained):
   - instants of shard-group creation lie below the end of the time domain (models.MaxNanoTime + 1);
   - an index is pruned only once no shard refers to it. *)
Definition env_ok (c : cat) (x : cmd) : Prop :=
  match x with
  | CreateSg _ _ t _ => t < MAXNANO1
  | PruneIg id => prune_ig_env c id
  | _ => True
  end.

Lemma wf_init : forall per sc, wf (init_cat per sc).
Proof. intros. apply wf_b_iff. reflexivity. Qed.

Lemma wf_step : forall c x, wf c -> env_ok c x -> wf (fst (apply true true c x)).
Proof.
  intros c x H E. destruct x; cbn [apply].
  - apply wf_create_db; assumption.
  - apply wf_mark_db; assumption.
  - apply wf_drop_db; assumption.
  - apply wf_create_rp; assumption.
  - apply wf_update_rp; assumption.
  - apply wf_mark_rp; assumption.
  - apply wf_drop_rp; assumption.
  - apply wf_set_default_rp; assumption.
  - apply wf_create_mst; assumption.
  - apply wf_mark_mst; assumption.
  - apply wf_drop_mst; assumption.
  - apply wf_create_sg; assumption.
  - apply wf_delete_sg; assumption.
  - apply wf_prune_sg; assumption.
  - apply wf_delete_ig; assumption.
  - apply wf_prune_ig; assumption.
  - apply wf_create_node; assumption.
  - apply wf_create_ptview; assumption.
  - apply wf_update_pt; assumption.
Qed.

(* every command of the sequence meets the environment's guarantee in the state it is applied to *)
Fixpoint env_run (c : cat) (xs : list cmd) : Prop :=
  match xs with
  | [] => True
  | x :: r => env_ok c x /\ env_run (fst (apply true true c x)) r
  end.

Lemma wf_run : forall xs c, wf c -> env_run c xs -> wf (run true true c xs).
Proof.
  induction xs; intros c H E; cbn [run]; [exact H|]. destruct E as [E1 E2].
  apply IHxs; [apply wf_step; assumption | exact E2].
Qed.

(* every prefix of a run is well-formed, i.e. the statement holds after every single step *)
Lemma wf_run_prefix : forall xs c k, wf c -> env_run c xs -> wf (run true true c (firstn k xs)).
Proof.
  induction xs; intros c k H E; destruct k; cbn [firstn run]; try exact H.
  destruct E as [E1 E2]. apply IHxs; [apply wf_step; assumption | exact E2].
Qed.

(* ---- counters never decrease (both variants of the step function) ---- *)
Definition counters_le (c c' : cat) : Prop :=
  max_sg c <= max_sg c' /\ max_sh c <= max_sh c' /\ max_ig c <= max_ig c' /\ max_ix c <= max_ix c' /\
  max_mst c <= max_mst c' /\ max_node c <= max_node c' /\ ptnum c <= ptnum c'.

Lemma counters_le_refl : forall c, counters_le c c.
Proof. intros. unfold counters_le. lia. Qed.

Lemma counters_mono : forall clip cd c x, 0 <= ptnum c -> 0 <= ptper c -> counters_le c (fst (apply clip cd c x)).
Proof.
  intros clip cd c x Hp Hpp. destruct x; cbn [apply];
    unfold create_db, mark_db, drop_db, create_rp, update_rp, mark_rp, drop_rp, set_default_rp, create_mst, mark_mst, drop_mst,
      create_sg, delete_sg, prune_sg, delete_ig, prune_ig, create_node, create_ptview, update_pt, ok, err, add_mst, set_default, upd_pol, upd_db;
    repeat match goal with
           | |- context [match ?e with _ => _ end] => destruct e eqn:?; cbn [fst snd]
           | |- context [if ?e then _ else _] => destruct e eqn:?; cbn [fst snd]
           end; try apply counters_le_refl; unfold counters_le; cbn; try lia.
Qed.

(* ---- a decidable form of the environment guarantee (used for the non-vacuity example and by nothing else) ---- *)
Definition prune_ig_env_b (c : cat) (id : Z) : bool :=
  forallb (fun p => forallb (fun g => negb (ig_gone (prune_mark_ig id g)) ||
     forallb (fun ix => forallb (fun sg => forallb (fun s => negb (sh_index s =? ix_id ix)) (sg_shards sg)) (rp_sgs p)) (ig_indexes g))
     (rp_igs p)) (pols c).
Definition env_ok_b (c : cat) (x : cmd) : bool :=
  match x with CreateSg _ _ t _ => t <? MAXNANO1 | PruneIg id => prune_ig_env_b c id | _ => true end.
Fixpoint env_run_b (c : cat) (xs : list cmd) : bool :=
  match xs with [] => true | x :: r => env_ok_b c x && env_run_b (fst (apply true true c x)) r end.

Lemma env_ok_b_sound : forall c x, env_ok_b c x = true -> env_ok c x.
Proof.
  intros c x. destruct x; cbn [env_ok_b env_ok]; try (intros; exact I); [lia|].
  unfold prune_ig_env_b, prune_ig_env. intros Hb p g ix sg s Hp Hg Hgone Hix Hsg Hs.
  rewrite forallb_forall in Hb. specialize (Hb p Hp). rewrite forallb_forall in Hb. specialize (Hb g Hg).
  rewrite Hgone in Hb. cbn [negb orb] in Hb. rewrite forallb_forall in Hb. specialize (Hb ix Hix).
  rewrite forallb_forall in Hb. specialize (Hb sg Hsg). rewrite forallb_forall in Hb. specialize (Hb s Hs). lia.
Qed.

Lemma env_run_b_sound : forall xs c, env_run_b c xs = true -> env_run c xs.
Proof.
  induction xs; intros c H; cbn [env_run env_run_b] in *; [exact I|].
  apply andb_true_iff in H. destruct H as [H1 H2]. split; [apply env_ok_b_sound; exact H1 | apply IHxs; exact H2].
Qed.
