(* C16: the step theorem for the whole command alphabet, runs, and counter monotonicity. *)
From Coq Require Import ZArith List Bool Lia ZifyBool Sorting.Permutation.
From OG Require Import C16.Model C16.Wf C16.Lists C16.Proofs C16.ProofsCmd C16.ProofsSg C16.ProofsNew C16.ProofsInv.
Import ListNotations.
Open Scope Z_scope.

(* what the environment guarantees about a command (everything else is unconstrained):
   - instants of shard-group creation lie below the end of the time domain (models.MaxNanoTime + 1);
   - an index is pruned only once no shard refers to it. *)
(* every instant of the catalogue is representable as int64 nanoseconds *)
Definition span_ok (s e : Z) : Prop := MININT <= s <= MAXNANO1 /\ MININT <= e <= MAXNANO1.
Definition representable (c : cat) : Prop :=
  Forall (fun p => Forall (fun g => span_ok (sg_start g) (sg_end g)) (rp_sgs p) /\
                   Forall (fun g => span_ok (ig_start g) (ig_end g)) (rp_igs p)) (pols c).

Definition env_ok (c : cat) (x : cmd) : Prop :=
  match x with
  | CreateSg _ _ t _ => MINNANO <= t < MAXNANO1
  | PruneIg id => prune_ig_env c id
  | Restore => representable c     (* no group starts before -2^63 ns (finding C16-restore-wraps-early-group-start) *)
  | _ => True
  end.

(* the code variant with the repairs that well-formedness needs *)
Definition repaired (c : cat) : Prop := rekey c = true /\ safecancel c = true.
(* the inductive invariant: the statement plus what its preservation needs *)
Definition good (c : cat) : Prop := wf c /\ all_aligned c /\ covered c /\ repaired c.

Definition switches (c : cat) : bool * bool * bool * bool := (clampst c, schemafirst c, rekey c, safecancel c).
Lemma apply_switches : forall clip cd c x, switches (fst (apply clip cd c x)) = switches c.
Proof.
  intros clip cd c x. destruct x; cbn [apply];
    unfold create_db, mark_db, drop_db, create_rp, update_rp, mark_rp, drop_rp, set_default_rp, create_mst, mark_mst, drop_mst,
      create_sg, delete_sg, prune_sg, delete_ig, prune_ig, create_node, create_ptview, update_pt, create_mst_bad, rename_rp,
      cancel_delete_sg, remove_node, ok, err, add_mst, set_default, upd_pol, upd_db, restore_state;
    repeat match goal with
           | |- context [match ?e with _ => _ end] => destruct e eqn:?; cbn [fst snd]
           | |- context [if ?e then _ else _] => destruct e eqn:?; cbn [fst snd]
           end; reflexivity.
Qed.

Lemma repaired_step : forall clip cd c x, repaired c -> repaired (fst (apply clip cd c x)).
Proof.
  intros clip cd c x [R1 R2]. pose proof (apply_switches clip cd c x) as E. unfold switches in E. inversion E as [[E1 E2 E3 E4]].
  unfold repaired. rewrite E3, E4. tauto.
Qed.

Lemma wrap64_id : forall z, MININT <= z <= MAXNANO1 -> wrap64 z = z.
Proof. intros z H. unfold wrap64, MININT, MAXNANO1 in *. rewrite Z.mod_small; lia. Qed.

Lemma restore_state_id : forall c, representable c -> restore_state c = c.
Proof.
  intros c H. unfold restore_state.
  assert (E : map (fun p => pol_set_igs (pol_set_sgs p (map restore_sg (rp_sgs p))) (map restore_ig (rp_igs p))) (pols c) = pols c).
  { rewrite <- (map_id (pols c)) at 2. apply map_ext_in. intros p Hp. unfold representable in H. rewrite Forall_forall in H.
    destruct (H p Hp) as [Hs Hi].
    assert (E1 : map restore_sg (rp_sgs p) = rp_sgs p).
    { rewrite <- (map_id (rp_sgs p)) at 2. apply map_ext_in. intros g Hg. rewrite Forall_forall in Hs. destruct (Hs g Hg) as [A B].
      destruct g. unfold restore_sg. cbn in *. rewrite !wrap64_id by assumption. reflexivity. }
    assert (E2 : map restore_ig (rp_igs p) = rp_igs p).
    { rewrite <- (map_id (rp_igs p)) at 2. apply map_ext_in. intros g Hg. rewrite Forall_forall in Hi. destruct (Hi g Hg) as [A B].
      destruct g. unfold restore_ig. cbn in *. rewrite !wrap64_id by assumption. reflexivity. }
    rewrite E1, E2. destruct p. reflexivity. }
  rewrite E. destruct c. reflexivity.
Qed.

Lemma wf_init_v : forall per sc cl, wf (init_cat_v per sc cl).
Proof. intros. apply wf_b_iff. reflexivity. Qed.

Lemma wf_init : forall per sc, wf (init_cat per sc).
Proof. intros. apply wf_init_v. Qed.

Lemma wf_init_o : forall per sc cl sf rk sca, wf (init_cat_o per sc cl sf rk sca).
Proof. intros. apply wf_b_iff. reflexivity. Qed.

Lemma wf_step : forall c x, wf c -> all_aligned c -> repaired c -> env_ok c x -> wf (fst (apply true true c x)).
Proof.
  intros c x H AA [RK SC] E. destruct x; cbn [apply].
  - apply wf_create_db; assumption.
  - apply wf_mark_db; assumption.
  - apply wf_drop_db; assumption.
  - apply wf_create_rp; assumption.
  - apply wf_update_rp; assumption.
  - apply wf_mark_rp; assumption.
  - apply wf_drop_rp; assumption.
  - apply wf_set_default_rp; assumption.
  - apply wf_create_mst; assumption.
  - apply wf_mark_mst; assumption.
  - apply wf_drop_mst; assumption.
  - apply wf_create_sg; assumption.
  - apply wf_delete_sg; assumption.
  - apply wf_prune_sg; assumption.
  - apply wf_delete_ig; assumption.
  - apply wf_prune_ig; assumption.
  - apply wf_create_node; assumption.
  - apply wf_create_ptview; assumption.
  - apply wf_update_pt; assumption.
  - cbn [fst ok]. rewrite restore_state_id by exact E. exact H.
  - apply wf_create_mst_bad; assumption.
  - apply wf_rename_rp; assumption.
  - apply wf_cancel_delete_sg; assumption.
  - apply wf_remove_node; assumption.
Qed.

Lemma aligned_step : forall c x, wf c -> all_aligned c -> env_ok c x -> all_aligned (fst (apply true true c x)).
Proof.
  intros c x H AA E. destruct (is_create_sg x) eqn:Ex.
  - destruct x; try discriminate. cbn [apply]. apply all_aligned_create_sg; assumption.
  - eapply all_aligned_from; [|exact AA]. apply pols_from_step; [exact Ex|]. intros ->. apply restore_state_id. exact E.
Qed.

Lemma covered_step : forall c x, wf c -> covered c -> env_ok c x -> covered (fst (apply true true c x)).
Proof.
  intros c x H CV E. destruct (is_create_sg x) eqn:Ex.
  - destruct x; try discriminate. cbn [apply]. apply covered_create_sg; assumption.
  - eapply covered_from; [|exact CV]. apply pols_from_step; [exact Ex|]. intros ->. apply restore_state_id. exact E.
Qed.

(* ---- with group starts clamped to models.MinNanoTime (/repo 3695b47) every instant of the catalogue stays representable
        as int64 nanoseconds, so the hypothesis of Restore holds by itself ---- *)
Lemma representable_from : forall c c', pols_from c c' -> representable c -> representable c'.
Proof.
  intros c c' F R. unfold representable in *. rewrite Forall_forall in *. intros p' Hp'.
  destruct (F p' Hp') as [[E1 E2]|[p [Hp [A B]]]]; [rewrite E1, E2; split; constructor|].
  destruct (R p Hp) as [Rs Ri]. rewrite Forall_forall in Rs, Ri. split; apply Forall_forall.
  - intros g' Hg'. destruct (A g' Hg') as [g [Hg (E1 & E2 & _)]]. rewrite E1, E2. exact (Rs g Hg).
  - intros g' Hg'. destruct (B g' Hg') as [g [Hg (E1 & E2 & _)]]. rewrite E1, E2. exact (Ri g Hg).
Qed.

Lemma representable_create_sg : forall c db rp t eng, wf c -> clampst c = true -> MINNANO <= t < MAXNANO1 -> representable c ->
  representable (fst (create_sg true c db rp t eng)).
Proof.
  intros c db rp t eng H CL Ht R. unfold create_sg.
  destruct (ptnum c =? 0); [exact R|]. destruct (get_pol c db rp) as [p|] eqn:Eg; [|exact R].
  destruct (existsb (fun g => covers g t eng) (rp_sgs p)) eqn:Ecov; [exact R|].
  destruct (rp_msts p); [exact R|].
  destruct (ensure_ig c p t (new_sg_end true p t eng) eng) as [ig isnew] eqn:Eig. cbn [fst ok].
  pose proof (nonneg_get _ H) as NN.
  destruct (get_pol_spec _ _ _ _ Eg) as (_ & Hp & _).
  pose proof (wf_dur _ H) as DUR. rewrite Forall_forall in DUR. pose proof (DUR p Hp) as Hd.
  destruct (ensure_ig_spec _ _ _ _ _ _ _ Eig) as (_ & _ & Inew); [lia|].
  (* the new group *)
  assert (Gs : span_ok (sg_start (new_sgroup true c p ig t eng)) (sg_end (new_sgroup true c p ig t eng))).
  { cbn [new_sgroup sg_start sg_end]. rewrite CL. unfold new_sg_end.
    set (s := trunc t (rp_sgdur p)). set (e := cell_end s (rp_sgdur p)).
    assert (Hs : s <= t) by (apply trunc_le; exact Hd).
    assert (He : t < e) by (unfold e, cell_end; pose proof (trunc_gt t (rp_sgdur p) Hd); fold s in H0; lia).
    pose proof (clip_lo_ge (rp_sgs p) eng t (Z.max s MINNANO)). pose proof (clip_lo_le (rp_sgs p) eng t (Z.max s MINNANO)).
    pose proof (clip_hi_le (rp_sgs p) eng t e). pose proof (clip_hi_gt (rp_sgs p) eng t e He).
    assert (e <= MAXNANO1) by (unfold e, cell_end; lia).
    unfold span_ok, MININT, MINNANO, MAXNANO1 in *. lia. }
  assert (Is : isnew = true -> span_ok (ig_start ig) (ig_end ig)).
  { intros En. rewrite (Inew En). cbn [new_igroup ig_start ig_end]. rewrite CL.
    pose proof (new_sg_end_le p t eng). destruct Gs as [_ Ge]. cbn [new_sgroup sg_end] in Ge.
    destruct (Z.leb_spec (rp_igdur p) 0).
    - unfold trunc. replace (rp_igdur p <=? 0) with true by lia. unfold span_ok, MININT, MINNANO, MAXNANO1 in *. lia.
    - pose proof (trunc_le t (rp_igdur p) H1). unfold span_ok, MININT, MINNANO, MAXNANO1 in *. lia. }
  unfold representable in *. rewrite Forall_forall in *. intros p' Hp'. unfold upd_pol in Hp'. cbn [pols set_pols set_sg_counters] in Hp'.
  apply updf_In in Hp'. destruct Hp' as [Hp'|[q [Hq [_ ->]]]]; [exact (R p' Hp')|].
  destruct (R q Hq) as [Rs Ri]. cbn [rp_sgs rp_igs pol_set_sgs]. split.
  - eapply Permutation_Forall; [apply Permutation_sym, insert_sg_perm|]. constructor; [exact Gs|]. destruct isnew; exact Rs.
  - destruct isnew; cbn [rp_igs pol_set_igs]; [|exact Ri].
    eapply Permutation_Forall; [apply Permutation_sym, insert_ig_perm|]. constructor; [apply Is; reflexivity | exact Ri].
Qed.

Lemma representable_step : forall c x, wf c -> clampst c = true -> representable c -> env_ok c x ->
  representable (fst (apply true true c x)).
Proof.
  intros c x H CL R E. destruct (is_create_sg x) eqn:Ex.
  - destruct x; try discriminate. cbn [apply]. apply representable_create_sg; assumption.
  - eapply representable_from; [|exact R]. apply pols_from_step; [exact Ex|]. intros ->. apply restore_state_id. exact R.
Qed.

Lemma good_step : forall c x, good c -> env_ok c x -> good (fst (apply true true c x)).
Proof.
  intros c x (H & AA & CV & R) E. split; [|split; [|split]].
  - apply wf_step; assumption.
  - apply aligned_step; assumption.
  - apply covered_step; assumption.
  - apply repaired_step; assumption.
Qed.

Lemma good_init : forall per sc cl sf, good (init_cat_o per sc cl sf true true).
Proof.
  intros. split; [apply wf_init_o|]. split; [intros p g []|]. split; [constructor | split; reflexivity].
Qed.

(* every command of the sequence meets the environment's guarantee in the state it is applied to *)
Fixpoint env_run (c : cat) (xs : list cmd) : Prop :=
  match xs with
  | [] => True
  | x :: r => env_ok c x /\ env_run (fst (apply true true c x)) r
  end.

Lemma good_run : forall xs c, good c -> env_run c xs -> good (run true true c xs).
Proof.
  induction xs; intros c H E; cbn [run]; [exact H|]. destruct E as [E1 E2].
  apply IHxs; [apply good_step; assumption | exact E2].
Qed.

(* every prefix of a run is well-formed, i.e. the statement holds after every single step *)
Lemma good_run_prefix : forall xs c k, good c -> env_run c xs -> good (run true true c (firstn k xs)).
Proof.
  induction xs; intros c k H E; destruct k; cbn [firstn run]; try exact H.
  destruct E as [E1 E2]. apply IHxs; [apply good_step; assumption | exact E2].
Qed.

(* ---- counters never decrease (both variants of the step function) ---- *)
Definition counters_le (c c' : cat) : Prop :=
  max_sg c <= max_sg c' /\ max_sh c <= max_sh c' /\ max_ig c <= max_ig c' /\ max_ix c <= max_ix c' /\
  max_mst c <= max_mst c' /\ max_node c <= max_node c' /\ ptnum c <= ptnum c'.

Lemma counters_le_refl : forall c, counters_le c c.
Proof. intros. unfold counters_le. lia. Qed.

Lemma counters_mono : forall clip cd c x, 0 <= ptnum c -> 0 <= ptper c -> counters_le c (fst (apply clip cd c x)).
Proof.
  intros clip cd c x Hp Hpp. destruct x; cbn [apply];
    unfold create_db, mark_db, drop_db, create_rp, update_rp, mark_rp, drop_rp, set_default_rp, create_mst, mark_mst, drop_mst,
      create_sg, delete_sg, prune_sg, delete_ig, prune_ig, create_node, create_ptview, update_pt, create_mst_bad, rename_rp,
      cancel_delete_sg, remove_node, ok, err, add_mst, set_default, upd_pol, upd_db, restore_state;
    repeat match goal with
           | |- context [match ?e with _ => _ end] => destruct e eqn:?; cbn [fst snd]
           | |- context [if ?e then _ else _] => destruct e eqn:?; cbn [fst snd]
           end; try apply counters_le_refl; unfold counters_le; cbn; try lia.
Qed.

(* ---- a decidable form of the environment guarantee (used for the non-vacuity example and by nothing else) ---- *)
Definition prune_ig_env_b (c : cat) (id : Z) : bool :=
  forallb (fun p => forallb (fun g => negb (ig_gone (prune_mark_ig id g)) ||
     forallb (fun ix => forallb (fun sg => forallb (fun s => negb (sh_index s =? ix_id ix)) (sg_shards sg)) (rp_sgs p)) (ig_indexes g))
     (rp_igs p)) (pols c).
Definition span_ok_b (s e : Z) : bool := (MININT <=? s) && (s <=? MAXNANO1) && (MININT <=? e) && (e <=? MAXNANO1).
Definition representable_b (c : cat) : bool :=
  forallb (fun p => forallb (fun g => span_ok_b (sg_start g) (sg_end g)) (rp_sgs p) &&
                    forallb (fun g => span_ok_b (ig_start g) (ig_end g)) (rp_igs p)) (pols c).
Definition env_ok_b (c : cat) (x : cmd) : bool :=
  match x with CreateSg _ _ t _ => (MINNANO <=? t) && (t <? MAXNANO1) | PruneIg id => prune_ig_env_b c id | Restore => representable_b c
             | _ => true end.
Fixpoint env_run_b (c : cat) (xs : list cmd) : bool :=
  match xs with [] => true | x :: r => env_ok_b c x && env_run_b (fst (apply true true c x)) r end.

Lemma env_ok_b_sound : forall c x, env_ok_b c x = true -> env_ok c x.
Proof.
  intros c x. destruct x; cbn [env_ok_b env_ok]; try (intros; exact I); [lia| |].
  2: { unfold representable_b, representable. intros Hb. rewrite forallb_forall in Hb. apply Forall_forall. intros p Hp.
       specialize (Hb p Hp). apply andb_true_iff in Hb. destruct Hb as [B1 B2]. rewrite forallb_forall in B1, B2.
       split; apply Forall_forall; intros g Hg; [specialize (B1 g Hg) | specialize (B2 g Hg)]; unfold span_ok_b, span_ok in *; lia. }
  unfold prune_ig_env_b, prune_ig_env. intros Hb p g ix sg s Hp Hg Hgone Hix Hsg Hs.
  rewrite forallb_forall in Hb. specialize (Hb p Hp). rewrite forallb_forall in Hb. specialize (Hb g Hg).
  rewrite Hgone in Hb. cbn [negb orb] in Hb. rewrite forallb_forall in Hb. specialize (Hb ix Hix).
  rewrite forallb_forall in Hb. specialize (Hb sg Hsg). rewrite forallb_forall in Hb. specialize (Hb s Hs). lia.
Qed.

Lemma env_run_b_sound : forall xs c, env_run_b c xs = true -> env_run c xs.
Proof.
  induction xs; intros c H; cbn [env_run env_run_b] in *; [exact I|].
  apply andb_true_iff in H. destruct H as [H1 H2]. split; [apply env_ok_b_sound; exact H1 | apply IHxs; exact H2].
Qed.

(* ---- a snapshot/restore inserted anywhere in a log is invisible (C15's second half, on this command model) ---- *)
Lemma run_app : forall clip cd xs ys c, run clip cd c (xs ++ ys) = run clip cd (run clip cd c xs) ys.
Proof. intros clip cd xs. induction xs; intros ys c; cbn [app run]; [reflexivity | apply IHxs]. Qed.

Lemma restore_transparent : forall clip cd l1 l2 c, representable (run clip cd c l1) ->
  run clip cd c (l1 ++ Restore :: l2) = run clip cd c (l1 ++ l2).
Proof.
  intros clip cd l1 l2 c R. rewrite !run_app. cbn [run apply fst ok]. rewrite restore_state_id by exact R. reflexivity.
Qed.

(* ---- the clamped variant needs no assumption about Restore ---- *)
Definition env_ok0 (c : cat) (x : cmd) : Prop := match x with Restore => True | _ => env_ok c x end.
Fixpoint env_run0 (c : cat) (xs : list cmd) : Prop :=
  match xs with
  | [] => True
  | x :: r => env_ok0 c x /\ env_run0 (fst (apply true true c x)) r
  end.

Lemma env_ok0_clamped : forall c x, representable c -> env_ok0 c x -> env_ok c x.
Proof. intros c x R E. destruct x; try exact E. exact R. Qed.

Lemma clamped_env_run : forall xs c, good c -> clampst c = true -> representable c -> env_run0 c xs -> env_run c xs.
Proof.
  induction xs as [|x r IH]; intros c G CL R E; cbn [env_run env_run0] in *; [exact I|]. destruct E as [E1 E2].
  pose proof (env_ok0_clamped c x R E1) as E1'. split; [exact E1'|].
  apply IH; [apply good_step; assumption | | | exact E2].
  - pose proof (apply_switches true true c x) as S. unfold switches in S. inversion S as [[S1 S2 S3 S4]]. rewrite S1. exact CL.
  - destruct G as (W & _). apply representable_step; assumption.
Qed.

Lemma env_run_env_run0 : forall xs c, env_run c xs -> env_run0 c xs.
Proof.
  induction xs as [|x r IH]; intros c E; cbn [env_run env_run0] in *; [exact I|]. destruct E as [E1 E2].
  split; [destruct x; try exact E1; exact I | apply IH; exact E2].
Qed.
