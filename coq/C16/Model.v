(* C16 - the meta catalogue: executable model (definitions only; proofs live in Proofs*.v).
   Mirrors lib/util/lifted/influx/meta: Data.CreateDatabase / MarkDatabaseDelete / DropDatabase / CreateRetentionPolicy /
   UpdateRetentionPolicy / MarkRetentionPolicyDelete / DropRetentionPolicy / SetDefaultRetentionPolicy /
   CreateMeasurement / MarkMeasurementDelete / DropMeasurement / CreateShardGroup (newShardGroup, createShards,
   createIndexGroupIfNeeded, CreateIndexGroup) / DeleteShardGroup / DeleteIndexGroup / PruneGroups / CreateDataNode /
   CreateDBPtView / UpdatePtInfo, RetentionPolicyInfo.CheckSpecValid and the normalisation helpers, as reached through
   app/ts-meta/meta storeFSM.executeCmd.
   Names are integer codes (0 = the empty string); instants and durations are unbounded Z nanoseconds; ids are Z.
   The catalogue is kept flat: policies carry the name of their database.
   Switches select the code before or after each repair of a defect found (arguments of the step function, or constant
   fields of the state):
     clip        : a new shard group is clipped to its live neighbours            (false = today's code; finding open)
     cleardef    : dropping the default policy clears the database's default name (/repo b424c13)
     clampst     : group starts are clamped to models.MinNanoTime                 (/repo 3695b47)
     schemafirst : CreateMeasurement checks its schema list before registering    (/repo f21700b)
     rekey       : a policy rename moves the map entry and the default name       (/repo f36a23d)
     safecancel  : cancelling a group deletion is refused over a live group       (false = today's code; finding open)
   Index groups are created as in /repo 76d3742 (never ending before the shard group they serve), pruning marks only the
   element carrying the pruned id (/repo b988d37). *)
From Coq Require Import ZArith List Bool.
Import ListNotations.
Open Scope Z_scope.

Definition HOUR : Z := 3600000000000.
Definition DAY : Z := 24 * HOUR.
(* nanoseconds between 0001-01-01T00:00:00Z, the anchor of Go's time.Truncate, and the Unix epoch *)
Definition YEAR1 : Z := 62135596800000000000.
Definition MAXNANO1 : Z := 9223372036854775807.   (* models.MaxNanoTime + 1 *)
Definition MINNANO : Z := -9223372036854775806.   (* models.MinNanoTime *)

(* time.Time.Truncate(d): d <= 0 returns t unchanged *)
Definition trunc (t d : Z) : Z := if d <=? 0 then t else t - (t + YEAR1) mod d.
(* end of a group starting at s: s + d, capped at MaxNanoTime + 1 *)
Definition cell_end (s d : Z) : Z := Z.min (s + d) MAXNANO1.

Record shard := { sh_id : Z; sh_owners : list Z; sh_index : Z; sh_mark : bool }.
Record sgroup := { sg_id : Z; sg_start : Z; sg_end : Z; sg_del : bool; sg_eng : Z;
                   sg_dur : Z;   (* ghost: the policy's shard group duration in force when the group was created *)
                   sg_shards : list shard }.
Record index := { ix_id : Z; ix_owners : list Z; ix_mark : bool }.
Record igroup := { ig_id : Z; ig_start : Z; ig_end : Z; ig_del : bool; ig_eng : Z; ig_indexes : list index }.
Record mst := { ms_name : Z; ms_ver : Z; ms_id : Z; ms_mark : bool }.
(* rp_name is the KEY of the policy in DatabaseInfo.RetentionPolicies (what every lookup uses); rp_nm is the Name field of the
   RetentionPolicyInfo. They differ only after a rename in the code variant that does not re-key the map (rekey = false). *)
Record policy := { rp_db : Z; rp_name : Z; rp_nm : Z; rp_dur : Z; rp_sgdur : Z; rp_igdur : Z; rp_mark : bool;
                   rp_msts : list mst; rp_vers : list (Z * Z); rp_sgs : list sgroup; rp_igs : list igroup }.
Record database := { db_name : Z; db_default : Z (* 0 = none *); db_mark : bool }.
Record node := { nd_id : Z; nd_http : Z; nd_tcp : Z; nd_conn : Z }.
Record ptinfo := { pt_owner : Z; pt_status : Z; pt_ver : Z }.
Record cat := { dbs : list database; pols : list policy; nodes : list node; ptview : list (Z * list ptinfo);
                ptnum : Z; ptper : Z; sclean : bool;
                clampst : bool;   (* code variant, constant: group starts are clamped to models.MinNanoTime (false = before /repo 3695b47) *)
                schemafirst : bool; (* code variant, constant: CreateMeasurement refuses an inconsistent schema list before it registers
                                       the measurement (false = before /repo f21700b) *)
                rekey : bool;     (* code variant, constant: a policy rename moves the map entry and the default name (false = before /repo f36a23d) *)
                safecancel : bool; (* code variant, constant: cancelling the deletion of a shard group is refused while a live group of the same
                                      engine type overlaps it (false = today's code) *)
                max_node : Z; max_sg : Z; max_sh : Z; max_mst : Z; max_ig : Z; max_ix : Z; max_conn : Z }.

Definition init_cat_o (per : Z) (sc cl sf rk sca : bool) : cat :=
  {| dbs := []; pols := []; nodes := []; ptview := []; ptnum := 0; ptper := per; sclean := sc; clampst := cl;
     schemafirst := sf; rekey := rk; safecancel := sca;
     max_node := 0; max_sg := 0; max_sh := 0; max_mst := 0; max_ig := 0; max_ix := 0; max_conn := 0 |}.
Definition init_cat_v (per : Z) (sc cl : bool) : cat := init_cat_o per sc cl false false false.
(* the snapshot the verification started from (none of the repairs) *)
Definition init_cat (per : Z) (sc : bool) : cat := init_cat_v per sc false.
(* every repair: the catalogue Props.v proves well-formedness for *)
Definition init_cat_rep (per : Z) (sc : bool) : cat := init_cat_o per sc true true true true.

(* ---- record updates ---- *)
Definition set_pols (c : cat) (l : list policy) : cat :=
  {| dbs := dbs c; pols := l; nodes := nodes c; ptview := ptview c; ptnum := ptnum c; ptper := ptper c; sclean := sclean c; clampst := clampst c; schemafirst := schemafirst c; rekey := rekey c; safecancel := safecancel c;
     max_node := max_node c; max_sg := max_sg c; max_sh := max_sh c; max_mst := max_mst c; max_ig := max_ig c;
     max_ix := max_ix c; max_conn := max_conn c |}.
Definition set_dbs (c : cat) (l : list database) : cat :=
  {| dbs := l; pols := pols c; nodes := nodes c; ptview := ptview c; ptnum := ptnum c; ptper := ptper c; sclean := sclean c; clampst := clampst c; schemafirst := schemafirst c; rekey := rekey c; safecancel := safecancel c;
     max_node := max_node c; max_sg := max_sg c; max_sh := max_sh c; max_mst := max_mst c; max_ig := max_ig c;
     max_ix := max_ix c; max_conn := max_conn c |}.
Definition set_ptview (c : cat) (l : list (Z * list ptinfo)) : cat :=
  {| dbs := dbs c; pols := pols c; nodes := nodes c; ptview := l; ptnum := ptnum c; ptper := ptper c; sclean := sclean c; clampst := clampst c; schemafirst := schemafirst c; rekey := rekey c; safecancel := safecancel c;
     max_node := max_node c; max_sg := max_sg c; max_sh := max_sh c; max_mst := max_mst c; max_ig := max_ig c;
     max_ix := max_ix c; max_conn := max_conn c |}.
Definition set_sg_counters (c : cat) (sg sh ig ix : Z) : cat :=
  {| dbs := dbs c; pols := pols c; nodes := nodes c; ptview := ptview c; ptnum := ptnum c; ptper := ptper c; sclean := sclean c; clampst := clampst c; schemafirst := schemafirst c; rekey := rekey c; safecancel := safecancel c;
     max_node := max_node c; max_sg := sg; max_sh := sh; max_mst := max_mst c; max_ig := ig;
     max_ix := ix; max_conn := max_conn c |}.
Definition set_max_mst (c : cat) (m : Z) : cat :=
  {| dbs := dbs c; pols := pols c; nodes := nodes c; ptview := ptview c; ptnum := ptnum c; ptper := ptper c; sclean := sclean c; clampst := clampst c; schemafirst := schemafirst c; rekey := rekey c; safecancel := safecancel c;
     max_node := max_node c; max_sg := max_sg c; max_sh := max_sh c; max_mst := m; max_ig := max_ig c;
     max_ix := max_ix c; max_conn := max_conn c |}.

Definition pol_set_meta (p : policy) (d sgd igd : Z) (mk : bool) : policy :=
  {| rp_db := rp_db p; rp_name := rp_name p; rp_nm := rp_nm p; rp_dur := d; rp_sgdur := sgd; rp_igdur := igd; rp_mark := mk;
     rp_msts := rp_msts p; rp_vers := rp_vers p; rp_sgs := rp_sgs p; rp_igs := rp_igs p |}.
Definition pol_set_msts (p : policy) (ms : list mst) (vs : list (Z * Z)) : policy :=
  {| rp_db := rp_db p; rp_name := rp_name p; rp_nm := rp_nm p; rp_dur := rp_dur p; rp_sgdur := rp_sgdur p; rp_igdur := rp_igdur p; rp_mark := rp_mark p;
     rp_msts := ms; rp_vers := vs; rp_sgs := rp_sgs p; rp_igs := rp_igs p |}.
Definition pol_set_sgs (p : policy) (l : list sgroup) : policy :=
  {| rp_db := rp_db p; rp_name := rp_name p; rp_nm := rp_nm p; rp_dur := rp_dur p; rp_sgdur := rp_sgdur p; rp_igdur := rp_igdur p; rp_mark := rp_mark p;
     rp_msts := rp_msts p; rp_vers := rp_vers p; rp_sgs := l; rp_igs := rp_igs p |}.
Definition pol_set_igs (p : policy) (l : list igroup) : policy :=
  {| rp_db := rp_db p; rp_name := rp_name p; rp_nm := rp_nm p; rp_dur := rp_dur p; rp_sgdur := rp_sgdur p; rp_igdur := rp_igdur p; rp_mark := rp_mark p;
     rp_msts := rp_msts p; rp_vers := rp_vers p; rp_sgs := rp_sgs p; rp_igs := l |}.

(* ---- lookups ---- *)
Definition is_pol (db n : Z) (p : policy) : bool := (rp_db p =? db) && (rp_name p =? n).
Definition find_db (c : cat) (db : Z) : option database := find (fun d => db_name d =? db) (dbs c).
Definition find_pol (c : cat) (db n : Z) : option policy := find (is_pol db n) (pols c).

(* Data.GetDatabase: present and not marked for deletion *)
Definition get_db (c : cat) (db : Z) : option database :=
  match find_db c db with Some d => if db_mark d then None else Some d | None => None end.

(* Data.RetentionPolicy(db, name): the empty name resolves to the default policy; marked policies are not returned *)
Definition resolve (d : database) (n : Z) : Z := if n =? 0 then db_default d else n.
Definition get_pol (c : cat) (db n : Z) : option policy :=
  match get_db c db with
  | None => None
  | Some d =>
      let k := resolve d n in
      if k =? 0 then None else
      match find_pol c db k with Some p => if rp_mark p then None else Some p | None => None end
  end.

(* update the first element satisfying f *)
Fixpoint upd_first {A} (f : A -> bool) (g : A -> A) (l : list A) : list A :=
  match l with
  | [] => []
  | x :: r => if f x then g x :: r else x :: upd_first f g r
  end.

Definition upd_pol (c : cat) (db n : Z) (g : policy -> policy) : cat := set_pols c (upd_first (is_pol db n) g (pols c)).
Definition upd_db (c : cat) (db : Z) (g : database -> database) : cat :=
  set_dbs c (upd_first (fun d => db_name d =? db) g (dbs c)).

(* ---- retention policy specification (RetentionPolicyInfo.CheckSpecValid with hot/warm/cold/merge durations 0) ---- *)
Definition sg_default (d : Z) : Z :=
  if (d >=? 180 * DAY) || (d =? 0) then 7 * DAY else if d >=? 2 * DAY then DAY else HOUR.
Definition norm_sgd (sgd d : Z) : Z := if sgd =? 0 then sg_default d else if sgd <? HOUR then HOUR else sgd.
Definition norm_igd (igd sgd : Z) : Z :=
  if igd <? sgd then sgd else if igd mod sgd =? 0 then igd else (igd / sgd + 1) * sgd.
Definition spec_valid (d sgd : Z) : bool :=
  negb (negb (d =? 0) && (d <? HOUR)) && negb (negb (d =? 0) && (d <? sgd)).

Definition new_policy (db n d sgd igd : Z) : policy :=
  {| rp_db := db; rp_name := n; rp_nm := n; rp_dur := d; rp_sgdur := sgd; rp_igdur := igd; rp_mark := false;
     rp_msts := []; rp_vers := []; rp_sgs := []; rp_igs := [] |}.

(* ---- commands ---- *)
Inductive cmd :=
| CreateDb (db : Z) (rp d sgd : Z)                    (* with the policy of the command or the auto-created one *)
| MarkDb (db : Z)
| DropDb (db : Z)
| CreateRp (db rp d sgd : Z) (mkdef : bool)
| UpdateRp (db rp : Z) (d sgd : option Z) (mkdef : bool)
| MarkRp (db rp : Z)
| DropRp (db rp : Z)
| SetDefault (db rp : Z)
| CreateMst (db rp m : Z)
| MarkMst (db rp m : Z)
| DropMst (db rp m ver : Z)
| CreateSg (db rp ts eng : Z)
| DeleteSg (db rp id : Z)
| PruneSg (id : Z)
| DeleteIg (db rp id : Z)
| PruneIg (id : Z)
| CreateNode (http tcp : Z)
| CreatePtView (db : Z)
| UpdatePt (db pt cowner cstat owner status : Z)
| Restore                                             (* snapshot (clone, marshal) and restore (unmarshal) of the whole catalogue *)
| CreateMstBad (db rp m : Z)                          (* CreateMeasurement whose schema list names a field twice with different types *)
| RenameRp (db rp nn : Z) (d sgd : option Z) (mkdef : bool)   (* UpdateRetentionPolicy carrying NewName *)
| CancelDeleteSg (db rp id : Z)                       (* DeleteShardGroup with DeleteType = CancelDelete (RevertRetentionPolicyDelete) *)
| RemoveNode (id : Z).                                (* RemoveNodeCommand for one data node *)

Definition ok (c : cat) : cat * bool := (c, true).
Definition err (c : cat) : cat * bool := (c, false).

(* -- databases -- *)
Definition create_db (c : cat) (db rp d sgd : Z) : cat * bool :=
  if db =? 0 then err c else
  if ptnum c =? 0 then err c else
  match find_db c db with
  | Some x => if db_mark x then err c else ok c
  | None =>
      if rp =? 0 then err c else
      let sgd' := norm_sgd sgd d in
      if negb (spec_valid d sgd') then err c else
      ok (set_pols (set_dbs c (dbs c ++ [{| db_name := db; db_default := rp; db_mark := false |}]))
                   (pols c ++ [new_policy db rp d sgd' (norm_igd 0 sgd')]))
  end.

Definition mark_db (c : cat) (db : Z) : cat * bool :=
  match find_db c db with
  | None => err c
  | Some x => if db_mark x then err c
              else ok (upd_db c db (fun x => {| db_name := db_name x; db_default := db_default x; db_mark := true |}))
  end.

(* storeFSM.applyDropDatabaseCommand returns before Data.DropDatabase for an unknown database: its partition view, if the
   server created one ahead of the database, stays *)
Definition drop_db (c : cat) (db : Z) : cat * bool :=
  match find_db c db with None => ok c | Some _ =>
  ok (set_ptview (set_pols (set_dbs c (filter (fun d => negb (db_name d =? db)) (dbs c)))
                           (filter (fun p => negb (rp_db p =? db)) (pols c)))
                 (filter (fun e => negb (fst e =? db)) (ptview c)))
  end.

(* -- retention policies -- *)
Definition set_default (c : cat) (db n : Z) : cat :=
  upd_db c db (fun x => {| db_name := db_name x; db_default := n; db_mark := db_mark x |}).

Definition create_rp (c : cat) (db rp d sgd : Z) (mkdef : bool) : cat * bool :=
  match get_db c db with
  | None => err c
  | Some x =>
      if rp =? 0 then err c else
      let sgd' := norm_sgd sgd d in
      let igd' := norm_igd 0 sgd' in
      if negb (spec_valid d sgd') then err c else
      match find_pol c db rp with
      | None =>
          let c1 := set_pols c (pols c ++ [new_policy db rp d sgd' igd']) in
          ok (if mkdef then set_default c1 db rp else c1)
      | Some q =>
          if negb ((rp_dur q =? d) && (rp_sgdur q =? sgd') && (rp_igdur q =? igd')) then err c
          else if mkdef && negb (db_default x =? rp) then err c
          else ok c
      end
  end.

Definition opt_or (o : option Z) (v : Z) : Z := match o with Some x => x | None => v end.

Definition update_rp (c : cat) (db rp : Z) (d sgd : option Z) (mkdef : bool) : cat * bool :=
  match get_pol c db rp with
  | None => err c
  | Some p =>
      let d' := opt_or d (rp_dur p) in
      let sgd' := norm_sgd (opt_or sgd (rp_sgdur p)) d' in
      let igd' := norm_igd (rp_igdur p) sgd' in
      if negb (spec_valid d' sgd') then err c else
      let c1 := upd_pol c db (rp_name p) (fun q => pol_set_meta q d' sgd' igd' (rp_mark q)) in
      ok (if mkdef then set_default c1 db (rp_name p) else c1)
  end.

(* UpdateRetentionPolicy with NewName = nn. checkUpdateRetentionPolicyName compares nn with the command's literal name and
   otherwise looks nn up like any policy name (the empty name is the default policy; marked policies count). With rekey
   the entry moves to the new key and a default naming the old key follows; without, only the Name field changes (and
   makeDefault stores a name that is not a key). *)
Definition pol_rename (p : policy) (key nm : Z) : policy :=
  {| rp_db := rp_db p; rp_name := key; rp_nm := nm; rp_dur := rp_dur p; rp_sgdur := rp_sgdur p; rp_igdur := rp_igdur p; rp_mark := rp_mark p;
     rp_msts := rp_msts p; rp_vers := rp_vers p; rp_sgs := rp_sgs p; rp_igs := rp_igs p |}.

Definition rename_rp (c : cat) (db rp nn : Z) (d sgd : option Z) (mkdef : bool) : cat * bool :=
  match get_db c db, get_pol c db rp with
  | Some x, Some p =>
      let taken := if nn =? rp then false else
                   let k := resolve x nn in
                   if k =? 0 then false else match find_pol c db k with Some _ => true | None => false end in
      if taken then err c else
      let d' := opt_or d (rp_dur p) in
      let sgd' := norm_sgd (opt_or sgd (rp_sgdur p)) d' in
      let igd' := norm_igd (rp_igdur p) sgd' in
      if negb (spec_valid d' sgd') then err c else
      let old := rp_name p in
      if rekey c then
        (* delete(RetentionPolicies, old); RetentionPolicies[nn] = rpi: an entry already stored under nn is overwritten. Only the
           empty name gets that far (the default policy renamed to "" while a policy named "" exists): that policy is lost *)
        let c0 := if nn =? old then c else set_pols c (filter (fun q => negb (is_pol db nn q)) (pols c)) in
        let c1 := upd_pol c0 db old (fun q => pol_rename (pol_set_meta q d' sgd' igd' (rp_mark q)) nn nn) in
        ok (if mkdef || (db_default x =? rp_nm p) then set_default c1 db nn else c1)
      else
        let c1 := upd_pol c db old (fun q => pol_rename (pol_set_meta q d' sgd' igd' (rp_mark q)) old nn) in
        ok (if mkdef then set_default c1 db nn else c1)
  | _, _ => err c
  end.

Definition mark_rp (c : cat) (db rp : Z) : cat * bool :=
  match get_pol c db rp with
  | None => err c
  | Some p => ok (upd_pol c db (rp_name p) (fun q => pol_set_meta q (rp_dur q) (rp_sgdur q) (rp_igdur q) true))
  end.

Definition drop_rp (cleardef : bool) (c : cat) (db rp : Z) : cat * bool :=
  match get_db c db with
  | None => err c
  | Some x =>
      let c1 := set_pols c (filter (fun p => negb (is_pol db rp p)) (pols c)) in
      ok (if cleardef && (db_default x =? rp) then set_default c1 db 0 else c1)
  end.

Definition set_default_rp (c : cat) (db rp : Z) : cat * bool :=
  match get_pol c db rp with
  | None => err c
  | Some _ => ok (set_default c db rp)       (* the literal name of the command, as in the code *)
  end.

(* -- measurements -- *)
Fixpoint assoc (k : Z) (l : list (Z * Z)) : option Z :=
  match l with [] => None | (a, b) :: r => if a =? k then Some b else assoc k r end.
Fixpoint assoc_set (k v : Z) (l : list (Z * Z)) : list (Z * Z) :=
  match l with [] => [(k, v)] | (a, b) :: r => if a =? k then (k, v) :: r else (a, b) :: assoc_set k v r end.
Definition is_mst (m ver : Z) (x : mst) : bool := (ms_name x =? m) && (ms_ver x =? ver).
Definition find_mst (p : policy) (m ver : Z) : option mst := find (is_mst m ver) (rp_msts p).

(* RetentionPolicyInfo.Measurement(name): the current version's entry, if it is still there *)
Definition cur_mst (p : policy) (m : Z) : option mst :=
  match assoc m (rp_vers p) with None => None | Some v => find_mst p m v end.

Definition add_mst (c : cat) (p : policy) (m ver : Z) : cat :=
  set_max_mst
    (upd_pol c (rp_db p) (rp_name p)
       (fun q => pol_set_msts q (rp_msts q ++ [{| ms_name := m; ms_ver := ver; ms_id := max_mst c; ms_mark := false |}])
                              (assoc_set m ver (rp_vers q))))
    (max_mst c + 1).

Definition create_mst (c : cat) (db rp m : Z) : cat * bool :=
  match get_pol c db rp with
  | None => err c
  | Some p =>
      match assoc m (rp_vers p) with
      | None => ok (add_mst c p m 0)
      | Some v =>
          match find_mst p m v with
          | None => ok (add_mst c p m (Z.land (v + 1) 65535))
          | Some x => if ms_mark x then ok (add_mst c p m (Z.land (v + 1) 65535)) else ok c
          end
      end
  end.

(* CreateMeasurement with a schema list that names one field twice with different types. A measurement that exists (same
   shard key) is left alone and the command succeeds; otherwise the code before f21700b registered the measurement and then
   failed in UpdateSchema: a failed command that changed the catalogue. *)
Definition create_mst_bad (c : cat) (db rp m : Z) : cat * bool :=
  match get_pol c db rp with
  | None => err c
  | Some p =>
      let add v := if schemafirst c then err c else (add_mst c p m v, false) in
      match assoc m (rp_vers p) with
      | None => add 0
      | Some v =>
          match find_mst p m v with
          | None => add (Z.land (v + 1) 65535)
          | Some x => if ms_mark x then add (Z.land (v + 1) 65535) else ok c
          end
      end
  end.

Definition mark_one (x : mst) : mst := {| ms_name := ms_name x; ms_ver := ms_ver x; ms_id := ms_id x; ms_mark := true |}.

Definition mark_mst (c : cat) (db rp m : Z) : cat * bool :=
  match get_pol c db rp with
  | None => err c
  | Some p =>
      match cur_mst p m with
      | None => err c
      | Some x => if ms_mark x then err c
                  else ok (upd_pol c db (rp_name p) (fun q => pol_set_msts q (upd_first (is_mst m (ms_ver x)) mark_one (rp_msts q)) (rp_vers q)))
      end
  end.

Definition drop_mst (c : cat) (db rp m ver : Z) : cat * bool :=
  match get_pol c db rp with
  | None => err c
  | Some p =>
      ok (upd_pol c db (rp_name p)
            (fun q => pol_set_msts q (filter (fun x => negb (is_mst m ver x && ms_mark x)) (rp_msts q)) (rp_vers q)))
  end.

(* -- shard groups -- *)
Definition sg_contains (g : sgroup) (t : Z) : bool := (sg_start g <=? t) && (t <? sg_end g).
(* ShardGroupByTimestampAndEngineType: a live group of that engine type containing the instant *)
Definition covers (g : sgroup) (t eng : Z) : bool := (sg_eng g =? eng) && sg_contains g t && negb (sg_del g).

(* ShardGroupInfos.Less / IndexGroupInfos.Less: by end, then start *)
Definition key_lt (e1 s1 e2 s2 : Z) : bool := (e1 <? e2) || ((e1 =? e2) && (s1 <? s2)).
Fixpoint insert_sg (g : sgroup) (l : list sgroup) : list sgroup :=
  match l with
  | [] => [g]
  | x :: r => if key_lt (sg_end g) (sg_start g) (sg_end x) (sg_start x) then g :: l else x :: insert_sg g r
  end.
Fixpoint insert_ig (g : igroup) (l : list igroup) : list igroup :=
  match l with
  | [] => [g]
  | x :: r => if key_lt (ig_end g) (ig_start g) (ig_end x) (ig_start x) then g :: l else x :: insert_ig g r
  end.

(* ids n, n+1, .. : k consecutive numbers starting at a *)
Fixpoint zseq (a : Z) (k : nat) : list Z := match k with O => [] | S k' => a :: zseq (a + 1) k' end.

(* createIndexGroupCovering(t, e): the LAST index group of that engine type that contains the instant t (deleted or not)
   and does not end before e - the end of the shard group it is to serve - is reused if it has at least ptnum indexes;
   otherwise createIndexGroupUntil makes a new one: the cell of t for the policy's index-group duration, stretched to e *)
Definition ig_match (t e eng : Z) (g : igroup) : bool := (ig_eng g =? eng) && (ig_start g <=? t) && (t <? ig_end g) && (e <=? ig_end g).
Definition find_last {A} (f : A -> bool) (l : list A) : option A := find f (rev l).

Definition new_igroup (c : cat) (p : policy) (t e eng : Z) : igroup :=
  let s := trunc t (rp_igdur p) in
  {| ig_id := max_ig c + 1; ig_start := if clampst c then Z.max s MINNANO else s;
     ig_end := Z.min (Z.max (s + rp_igdur p) e) MAXNANO1; ig_del := false; ig_eng := eng;
     ig_indexes := map (fun i => {| ix_id := max_ix c + 1 + i; ix_owners := [i]; ix_mark := false |}) (zseq 0 (Z.to_nat (ptnum c))) |}.

(* returns the index group to use and whether it is new *)
Definition ensure_ig (c : cat) (p : policy) (t e eng : Z) : igroup * bool :=
  match find_last (ig_match t e eng) (rp_igs p) with
  | Some g => if Z.of_nat (length (ig_indexes g)) >=? ptnum c then (g, false) else (new_igroup c p t e eng, true)
  | None => (new_igroup c p t e eng, true)
  end.

(* the minimal repair: clip [s, e) to the live neighbours of the same engine type around t *)
Definition clip_lo (l : list sgroup) (eng t s : Z) : Z :=
  fold_left (fun acc g => if (sg_eng g =? eng) && negb (sg_del g) && (sg_end g <=? t) then Z.max acc (sg_end g) else acc) l s.
Definition clip_hi (l : list sgroup) (eng t e : Z) : Z :=
  fold_left (fun acc g => if (sg_eng g =? eng) && negb (sg_del g) && (t <? sg_start g) then Z.min acc (sg_start g) else acc) l e.

(* the end of the group newShardGroup makes for the instant t *)
Definition new_sg_end (clip : bool) (p : policy) (t eng : Z) : Z :=
  let e := cell_end (trunc t (rp_sgdur p)) (rp_sgdur p) in
  if clip then clip_hi (rp_sgs p) eng t e else e.

Definition new_sgroup (clip : bool) (c : cat) (p : policy) (ig : igroup) (t eng : Z) : sgroup :=
  let s := trunc t (rp_sgdur p) in
  let s0 := if clampst c then Z.max s MINNANO else s in   (* the first cell of the time domain begins before int64 ns *)
  {| sg_id := max_sg c + 1;
     sg_start := if clip then clip_lo (rp_sgs p) eng t s0 else s0;
     sg_end := new_sg_end clip p t eng;
     sg_del := false; sg_eng := eng; sg_dur := rp_sgdur p;
     sg_shards := map (fun i => {| sh_id := max_sh c + 1 + i; sh_owners := [i];
                                   sh_index := ix_id (nth (Z.to_nat i) (ig_indexes ig) {| ix_id := 0; ix_owners := []; ix_mark := false |});
                                   sh_mark := false |})
                      (zseq 0 (Z.to_nat (ptnum c))) |}.

Definition create_sg (clip : bool) (c : cat) (db rp t eng : Z) : cat * bool :=
  if ptnum c =? 0 then err c else
  match get_pol c db rp with
  | None => err c
  | Some p =>
      if existsb (fun g => covers g t eng) (rp_sgs p) then ok c else
      match rp_msts p with
      | [] => err c
      | _ :: _ =>
          let '(ig, isnew) := ensure_ig c p t (new_sg_end clip p t eng) eng in
          let g := new_sgroup clip c p ig t eng in
          let c1 := upd_pol c db (rp_name p)
                      (fun q => pol_set_sgs (if isnew then pol_set_igs q (insert_ig ig (rp_igs q)) else q) (insert_sg g (rp_sgs q))) in
          ok (set_sg_counters c1 (max_sg c + 1) (max_sh c + ptnum c)
                (if isnew then max_ig c + 1 else max_ig c) (if isnew then max_ix c + ptnum c else max_ix c))
      end
  end.

Definition sg_set_del (g : sgroup) : sgroup :=
  {| sg_id := sg_id g; sg_start := sg_start g; sg_end := sg_end g; sg_del := true; sg_eng := sg_eng g; sg_dur := sg_dur g; sg_shards := sg_shards g |}.
Definition ig_set_del (g : igroup) : igroup :=
  {| ig_id := ig_id g; ig_start := ig_start g; ig_end := ig_end g; ig_del := true; ig_eng := ig_eng g; ig_indexes := ig_indexes g |}.

Definition delete_sg (c : cat) (db rp id : Z) : cat * bool :=
  match get_pol c db rp with
  | None => err c
  | Some p => ok (upd_pol c db (rp_name p) (fun q => pol_set_sgs q (upd_first (fun g => sg_id g =? id) sg_set_del (rp_sgs q))))
  end.
(* DeleteShardGroup with CancelDelete: the deletion stamp of the group with that id is cleared. Repair (safecancel): not
   while a live group of the same engine type overlaps it - a group created for that span while this one was deleted. *)
Definition sg_set_live (g : sgroup) : sgroup :=
  {| sg_id := sg_id g; sg_start := sg_start g; sg_end := sg_end g; sg_del := false; sg_eng := sg_eng g; sg_dur := sg_dur g; sg_shards := sg_shards g |}.
Definition overlaps_live (l : list sgroup) (g : sgroup) : bool :=
  existsb (fun x => negb (sg_del x) && (sg_eng x =? sg_eng g) && (sg_start x <? sg_end g) && (sg_start g <? sg_end x)) l.
Definition cancel_delete_sg (c : cat) (db rp id : Z) : cat * bool :=
  match get_pol c db rp with
  | None => err c
  | Some p =>
      match find (fun g => sg_id g =? id) (rp_sgs p) with
      | None => ok c
      | Some g =>
          if negb (sg_del g) then ok c else
          if safecancel c && overlaps_live (rp_sgs p) g then ok c else
          ok (upd_pol c db (rp_name p) (fun q => pol_set_sgs q (upd_first (fun g => sg_id g =? id) sg_set_live (rp_sgs q))))
      end
  end.

Definition delete_ig (c : cat) (db rp id : Z) : cat * bool :=
  match get_pol c db rp with
  | None => err c
  | Some p => ok (upd_pol c db (rp_name p) (fun q => pol_set_igs q (upd_first (fun g => ig_id g =? id) ig_set_del (rp_igs q))))
  end.

(* pruneShardGroups id: in every policy, inside each group whose id range [first, last] contains the argument, the first shard
   with id >= the argument (sort.Search) is marked if it carries exactly that id; drop groups that are deleted and whose shards are all marked. With schema
   cleaning on, a policy that lost a group has the current version of every measurement (schemas are empty in the modelled
   subset) marked for deletion, provided its database and itself are not being deleted. *)
Definition sh_set_mark (x : shard) : shard := {| sh_id := sh_id x; sh_owners := sh_owners x; sh_index := sh_index x; sh_mark := true |}.
Definition ix_set_mark (x : index) : index := {| ix_id := ix_id x; ix_owners := ix_owners x; ix_mark := true |}.
Definition first_sh (l : list shard) : Z := match l with [] => 0 | x :: _ => sh_id x end.
Definition last_sh (l : list shard) : Z := sh_id (last l {| sh_id := 0; sh_owners := []; sh_index := 0; sh_mark := false |}).
Definition first_ix (l : list index) : Z := match l with [] => 0 | x :: _ => ix_id x end.
Definition last_ix (l : list index) : Z := ix_id (last l {| ix_id := 0; ix_owners := []; ix_mark := false |}).

Definition prune_mark_sg (id : Z) (g : sgroup) : sgroup :=
  if (first_sh (sg_shards g) <=? id) && (id <=? last_sh (sg_shards g)) then
    {| sg_id := sg_id g; sg_start := sg_start g; sg_end := sg_end g; sg_del := sg_del g; sg_eng := sg_eng g; sg_dur := sg_dur g;
       sg_shards := upd_first (fun x => id <=? sh_id x) (fun x => if sh_id x =? id then sh_set_mark x else x) (sg_shards g) |}
  else g.
Definition prune_mark_ig (id : Z) (g : igroup) : igroup :=
  if (first_ix (ig_indexes g) <=? id) && (id <=? last_ix (ig_indexes g)) then
    {| ig_id := ig_id g; ig_start := ig_start g; ig_end := ig_end g; ig_del := ig_del g; ig_eng := ig_eng g;
       ig_indexes := upd_first (fun x => id <=? ix_id x) (fun x => if ix_id x =? id then ix_set_mark x else x) (ig_indexes g) |}
  else g.
Definition sg_gone (g : sgroup) : bool := sg_del g && forallb sh_mark (sg_shards g).
Definition ig_gone (g : igroup) : bool := forallb ix_mark (ig_indexes g).

Definition db_live (c : cat) (db : Z) : bool := match get_db c db with Some _ => true | None => false end.

Definition prune_sg_pol (c : cat) (id : Z) (p : policy) : policy :=
  let l := map (prune_mark_sg id) (rp_sgs p) in
  let p1 := pol_set_sgs p (filter (fun g => negb (sg_gone g)) l) in
  if sclean c && existsb sg_gone l && db_live c (rp_db p) && negb (rp_mark p) then
    pol_set_msts p1 (map (fun x => match assoc (ms_name x) (rp_vers p) with
                                   | Some v => if ms_ver x =? v then mark_one x else x
                                   | None => x end) (rp_msts p)) (rp_vers p)
  else p1.
Definition prune_sg (c : cat) (id : Z) : cat * bool := ok (set_pols c (map (prune_sg_pol c id) (pols c))).

Definition prune_ig_pol (id : Z) (p : policy) : policy :=
  pol_set_igs p (filter (fun g => negb (ig_gone g)) (map (prune_mark_ig id) (rp_igs p))).
Definition prune_ig (c : cat) (id : Z) : cat * bool := ok (set_pols c (map (prune_ig_pol id) (pols c))).

(* -- data nodes and the partition view (all nodes are writers, HA policy write-available-first) -- *)
Definition OFFLINE : Z := 3.
Definition fresh_pt (owner : Z) : ptinfo := {| pt_owner := owner; pt_status := OFFLINE; pt_ver := 1 |}.

Definition set_nodes (c : cat) (l : list node) (mn mc pn : Z) (pv : list (Z * list ptinfo)) : cat :=
  {| dbs := dbs c; pols := pols c; nodes := l; ptview := pv; ptnum := pn; ptper := ptper c; sclean := sclean c; clampst := clampst c; schemafirst := schemafirst c; rekey := rekey c; safecancel := safecancel c;
     max_node := mn; max_sg := max_sg c; max_sh := max_sh c; max_mst := max_mst c; max_ig := max_ig c;
     max_ix := max_ix c; max_conn := mc |}.
Definition nd_set_conn (v : Z) (n : node) : node := {| nd_id := nd_id n; nd_http := nd_http n; nd_tcp := nd_tcp n; nd_conn := v |}.

Definition create_node (c : cat) (h t : Z) : cat * bool :=
  let mc := max_conn c + 1 in
  if existsb (fun n => nd_http n =? h) (nodes c) then
    ok (set_nodes c (upd_first (fun n => nd_http n =? h) (nd_set_conn mc) (nodes c)) (max_node c) mc (ptnum c) (ptview c))
  else if existsb (fun n => nd_tcp n =? t) (nodes c) then
    ok (set_nodes c (upd_first (fun n => nd_tcp n =? t) (nd_set_conn mc) (nodes c)) (max_node c) mc (ptnum c) (ptview c))
  else
    let id := max_node c + 1 in
    let l := nodes c ++ [{| nd_id := id; nd_http := h; nd_tcp := t; nd_conn := mc |}] in
    let want := ptper c * Z.of_nat (length l) in
    let pn := if ptnum c <? want then want else ptnum c in
    ok (set_nodes c l id mc pn
          (map (fun e => (fst e, snd e ++ repeat (fresh_pt id) (Z.to_nat pn - length (snd e)))) (ptview c))).

(* Data.RemoveNode: the node leaves the list; its id is not handed out again (MaxNodeID stays) *)
Definition remove_node (c : cat) (id : Z) : cat * bool :=
  ok (set_nodes c (filter (fun n => negb (nd_id n =? id)) (nodes c)) (max_node c) (max_conn c) (ptnum c) (ptview c)).

Definition create_ptview (c : cat) (db : Z) : cat * bool :=
  if existsb (fun e => fst e =? db) (ptview c) then ok c else
  match nodes c with
  | [] => err c
  | n0 :: _ =>
      if ptnum c =? 0 then ok c else
      ok (set_ptview c (ptview c ++ [(db, map (fun i => fresh_pt (nd_id (nth (Z.to_nat (i mod Z.of_nat (length (nodes c)))) (nodes c) n0)))
                                                (zseq 0 (Z.to_nat (ptnum c))))]))
  end.

Fixpoint upd_nth {A} (k : nat) (g : A -> A) (l : list A) : list A :=
  match l, k with
  | [], _ => []
  | x :: r, O => g x :: r
  | x :: r, S k' => x :: upd_nth k' g r
  end.

Definition update_pt (c : cat) (db pt cowner cstat owner status : Z) : cat * bool :=
  match find (fun e => fst e =? db) (ptview c) with
  | None => err c
  | Some e =>
      if (pt <? 0) || (pt >=? Z.of_nat (length (snd e))) then err c else
      match nth_error (snd e) (Z.to_nat pt) with
      | None => err c
      | Some x =>
          if negb ((pt_owner x =? cowner) && (pt_status x =? cstat)) then err c else
          (* nodes never become alive in the modelled subset: setting a partition of a known node online is refused silently *)
          if (status =? 0) && existsb (fun n => nd_id n =? owner) (nodes c) then ok c else
          ok (set_ptview c (upd_first (fun e => fst e =? db)
                (fun e => (fst e, upd_nth (Z.to_nat pt)
                   (fun x => {| pt_owner := owner; pt_status := status; pt_ver := if pt_ver x =? 0 then 1 else pt_ver x |}) (snd e)))
                (ptview c)))
      end
  end.

(* -- snapshot and restore of the whole catalogue (storeFSM.Snapshot / Persist / Restore) --
   Instants are persisted as int64 nanoseconds (MarshalTime = time.Time.UnixNano): a group start before -2^63 ns - the
   cell of an instant close to models.MinNanoTime begins there - wraps around. Everything else the model observes comes back
   unchanged. *)
Definition MININT : Z := -9223372036854775808.
Definition wrap64 (z : Z) : Z := (z - MININT) mod 18446744073709551616 + MININT.
Definition restore_sg (g : sgroup) : sgroup :=
  {| sg_id := sg_id g; sg_start := wrap64 (sg_start g); sg_end := wrap64 (sg_end g); sg_del := sg_del g; sg_eng := sg_eng g;
     sg_dur := sg_dur g; sg_shards := sg_shards g |}.
Definition restore_ig (g : igroup) : igroup :=
  {| ig_id := ig_id g; ig_start := wrap64 (ig_start g); ig_end := wrap64 (ig_end g); ig_del := ig_del g; ig_eng := ig_eng g;
     ig_indexes := ig_indexes g |}.
Definition restore_state (c : cat) : cat :=
  set_pols c (map (fun p => pol_set_igs (pol_set_sgs p (map restore_sg (rp_sgs p))) (map restore_ig (rp_igs p))) (pols c)).

(* ---- the step function ---- *)
Definition apply (clip cleardef : bool) (c : cat) (x : cmd) : cat * bool :=
  match x with
  | CreateDb db rp d sgd => create_db c db rp d sgd
  | MarkDb db => mark_db c db
  | DropDb db => drop_db c db
  | CreateRp db rp d sgd k => create_rp c db rp d sgd k
  | UpdateRp db rp d sgd k => update_rp c db rp d sgd k
  | MarkRp db rp => mark_rp c db rp
  | DropRp db rp => drop_rp cleardef c db rp
  | SetDefault db rp => set_default_rp c db rp
  | CreateMst db rp m => create_mst c db rp m
  | MarkMst db rp m => mark_mst c db rp m
  | DropMst db rp m v => drop_mst c db rp m v
  | CreateSg db rp t eng => create_sg clip c db rp t eng
  | DeleteSg db rp id => delete_sg c db rp id
  | PruneSg id => prune_sg c id
  | DeleteIg db rp id => delete_ig c db rp id
  | PruneIg id => prune_ig c id
  | CreateNode h t => create_node c h t
  | CreatePtView db => create_ptview c db
  | UpdatePt db pt co cs o s => update_pt c db pt co cs o s
  | Restore => ok (restore_state c)
  | CreateMstBad db rp m => create_mst_bad c db rp m
  | RenameRp db rp nn d sgd k => rename_rp c db rp nn d sgd k
  | CancelDeleteSg db rp id => cancel_delete_sg c db rp id
  | RemoveNode id => remove_node c id
  end.

Definition apply_current := apply false false.
Definition apply_repaired := apply true true.

Fixpoint run (clip cleardef : bool) (c : cat) (xs : list cmd) : cat :=
  match xs with [] => c | x :: r => run clip cleardef (fst (apply clip cleardef c x)) r end.

(* ---- well-formedness (the statement of C16), boolean form; Prop form and the equivalence are in Proofs ---- *)
Definition sg_ids (c : cat) : list Z := flat_map (fun p => map sg_id (rp_sgs p)) (pols c).
Definition sh_ids_of (p : policy) : list Z := flat_map (fun g => map sh_id (sg_shards g)) (rp_sgs p).
Definition sh_ids (c : cat) : list Z := flat_map sh_ids_of (pols c).
Definition ig_ids (c : cat) : list Z := flat_map (fun p => map ig_id (rp_igs p)) (pols c).
Definition ix_ids_of (p : policy) : list Z := flat_map (fun g => map ix_id (ig_indexes g)) (rp_igs p).
Definition ix_ids (c : cat) : list Z := flat_map ix_ids_of (pols c).
Definition mst_ids (c : cat) : list Z := flat_map (fun p => map ms_id (rp_msts p)) (pols c).
Definition node_ids (c : cat) : list Z := map nd_id (nodes c).

Fixpoint nodup_b (l : list Z) : bool :=
  match l with [] => true | x :: r => negb (existsb (Z.eqb x) r) && nodup_b r end.
(* unique, positive, at most the counter *)
Definition uniq_le_b (l : list Z) (m : Z) : bool := nodup_b l && forallb (fun x => (0 <? x) && (x <=? m)) l.
(* measurement ids are post-incremented from 0 *)
Definition uniq_lt_b (l : list Z) (m : Z) : bool := nodup_b l && forallb (fun x => (0 <=? x) && (x <? m)) l.

(* a live group lies inside one cell of the duration in force at its creation and is not empty *)
Definition aligned_b (g : sgroup) : bool :=
  sg_del g ||
  ((sg_start g <? sg_end g) && (0 <? sg_dur g) &&
   (sg_end g <=? cell_end (trunc (sg_start g) (sg_dur g)) (sg_dur g))).
Definition disjoint2_b (a b : sgroup) : bool :=
  sg_del a || sg_del b || negb (sg_eng a =? sg_eng b) || (sg_end a <=? sg_start b) || (sg_end b <=? sg_start a).
Fixpoint pairwise_b {A} (f : A -> A -> bool) (l : list A) : bool :=
  match l with [] => true | x :: r => forallb (f x) r && pairwise_b f r end.
Definition key_le (a b : sgroup) : bool := negb (key_lt (sg_end b) (sg_start b) (sg_end a) (sg_start a)).
Fixpoint sorted_b (l : list sgroup) : bool :=
  match l with
  | [] => true
  | x :: r => match r with [] => true | y :: _ => key_le x y && sorted_b r end
  end.
Definition groups_ok_b (l : list sgroup) : bool := sorted_b l && forallb aligned_b l && pairwise_b disjoint2_b l.

Definition refs_ok_b (c : cat) (p : policy) : bool :=
  forallb (fun g => forallb (fun s =>
      existsb (Z.eqb (sh_index s)) (ix_ids_of p) &&
      negb (match sh_owners s with [] => true | _ => false end) &&
      forallb (fun o => (0 <=? o) && (o <? ptnum c)) (sh_owners s)) (sg_shards g)) (rp_sgs p).

Definition pol_keys (c : cat) : list (Z * Z) := map (fun p => (rp_db p, rp_name p)) (pols c).
Definition pair_eqb (a b : Z * Z) : bool := (fst a =? fst b) && (snd a =? snd b).
Fixpoint nodup_pairs_b (l : list (Z * Z)) : bool :=
  match l with [] => true | x :: r => negb (existsb (pair_eqb x) r) && nodup_pairs_b r end.

Definition default_ok_b (c : cat) (d : database) : bool :=
  (db_default d =? 0) || existsb (pair_eqb (db_name d, db_default d)) (pol_keys c).

Definition wf_b (c : cat) : bool :=
  forallb (fun p => groups_ok_b (rp_sgs p)) (pols c) &&
  uniq_le_b (sg_ids c) (max_sg c) && uniq_le_b (sh_ids c) (max_sh c) &&
  uniq_le_b (ig_ids c) (max_ig c) && uniq_le_b (ix_ids c) (max_ix c) &&
  uniq_lt_b (mst_ids c) (max_mst c) && uniq_le_b (node_ids c) (max_node c) &&
  nodup_b (map db_name (dbs c)) && nodup_pairs_b (pol_keys c) &&
  forallb (fun p => existsb (Z.eqb (rp_db p)) (map db_name (dbs c))) (pols c) &&
  forallb (refs_ok_b c) (pols c) &&
  forallb (default_ok_b c) (dbs c) &&
  forallb (fun e => Z.of_nat (length (snd e)) =? ptnum c) (ptview c) &&
  forallb (fun x => 0 <=? x) [max_sg c; max_sh c; max_ig c; max_ix c; max_mst c; max_node c; ptnum c] &&
  forallb (fun p => 0 <? rp_sgdur p) (pols c) &&
  forallb (fun p => rp_nm p =? rp_name p) (pols c).   (* a policy is stored under its name *)

(* ---- the C14 invariant seen from the catalogue: the index group of every shard does not end before the shard's group ---- *)
Definition ig_of (p : policy) (ix : Z) : list igroup := filter (fun g => existsb (fun i => ix_id i =? ix) (ig_indexes g)) (rp_igs p).
Definition covered_pol_b (p : policy) : bool :=
  forallb (fun g => forallb (fun s => forallb (fun ig => sg_end g <=? ig_end ig) (ig_of p (sh_index s))) (sg_shards g)) (rp_sgs p).
Definition covered_b (c : cat) : bool := forallb covered_pol_b (pols c).
