(* C16: generic list lemmas (sublists, first-match update, sorted insertion, consecutive numbers). *)
From Coq Require Import ZArith List Bool Lia Sorting.Sorted Sorting.Permutation Relations.
From OG Require Import C16.Model.
Import ListNotations.
Open Scope Z_scope.

(* ---- order-preserving sublists ---- *)
Inductive subl {A} : list A -> list A -> Prop :=
| subl_nil : subl [] []
| subl_skip : forall x l1 l2, subl l1 l2 -> subl l1 (x :: l2)
| subl_keep : forall x l1 l2, subl l1 l2 -> subl (x :: l1) (x :: l2).

Lemma subl_refl : forall {A} (l : list A), subl l l.
Proof. induction l; constructor; assumption. Qed.

Lemma subl_nil_l : forall {A} (l : list A), subl [] l.
Proof. induction l; constructor; assumption. Qed.

Lemma subl_In : forall {A} (l1 l2 : list A) x, subl l1 l2 -> In x l1 -> In x l2.
Proof. induction 1; cbn; intros; tauto. Qed.

Lemma subl_Forall : forall {A} (P : A -> Prop) l1 l2, subl l1 l2 -> Forall P l2 -> Forall P l1.
Proof.
  induction 1; intros HF; [constructor | inversion HF; auto |].
  inversion HF; subst. constructor; auto.
Qed.

Lemma subl_NoDup : forall {A} (l1 l2 : list A), subl l1 l2 -> NoDup l2 -> NoDup l1.
Proof.
  induction 1; intros HN; [constructor | inversion HN; auto |].
  inversion HN; subst. constructor; [|auto]. intro Hin. apply (subl_In _ _ _ H) in Hin. contradiction.
Qed.

Lemma subl_app : forall {A} (a1 a2 b1 b2 : list A), subl a1 a2 -> subl b1 b2 -> subl (a1 ++ b1) (a2 ++ b2).
Proof. induction 1; cbn; intros; [assumption | apply subl_skip; auto | apply subl_keep; auto]. Qed.

Lemma subl_filter : forall {A} (f : A -> bool) l, subl (filter f l) l.
Proof. induction l; cbn; [constructor|]. destruct (f a); [apply subl_keep | apply subl_skip]; assumption. Qed.

Lemma subl_map : forall {A B} (f : A -> B) l1 l2, subl l1 l2 -> subl (map f l1) (map f l2).
Proof. induction 1; cbn; [constructor | apply subl_skip; assumption | apply subl_keep; assumption]. Qed.

Lemma subl_flat_map : forall {A B} (f : A -> list B) l1 l2, subl l1 l2 -> subl (flat_map f l1) (flat_map f l2).
Proof.
  induction 1; cbn; [constructor | | apply subl_app; [apply subl_refl | assumption]].
  change (flat_map f l1) with ([] ++ flat_map f l1). apply subl_app; [apply subl_nil_l | assumption].
Qed.

Lemma subl_flat_map_pointwise : forall {A B} (f : A -> list B) (h : A -> A) l,
  (forall x, subl (f (h x)) (f x)) -> subl (flat_map f (map h l)) (flat_map f l).
Proof. intros A B f h l H. induction l; cbn; [constructor | apply subl_app; auto]. Qed.

Lemma subl_trans : forall {A} (l1 l2 l3 : list A), subl l1 l2 -> subl l2 l3 -> subl l1 l3.
Proof.
  intros A l1 l2 l3 H12 H23. revert l1 H12. induction H23; intros l0 H12.
  - assumption.
  - apply subl_skip. auto.
  - inversion H12; subst; [apply subl_skip; auto | apply subl_keep; auto].
Qed.

Lemma subl_ForallOrdPairs : forall {A} (R : A -> A -> Prop) l1 l2, subl l1 l2 -> ForallOrdPairs R l2 -> ForallOrdPairs R l1.
Proof.
  induction 1; intros HF; [constructor | inversion HF; auto |].
  inversion HF; subst. constructor; [|auto]. eapply subl_Forall; eassumption.
Qed.

Lemma subl_StronglySorted : forall {A} (R : A -> A -> Prop) l1 l2, subl l1 l2 -> StronglySorted R l2 -> StronglySorted R l1.
Proof.
  induction 1; intros HS; [constructor | inversion HS; auto |].
  inversion HS; subst. constructor; [auto|]. eapply subl_Forall; eassumption.
Qed.

(* ---- LocallySorted and StronglySorted for a transitive relation ---- *)
Lemma LocallySorted_Strongly : forall {A} (R : A -> A -> Prop), (forall x y z, R x y -> R y z -> R x z) ->
  forall l, LocallySorted R l <-> StronglySorted R l.
Proof.
  intros A R T l. rewrite <- Sorted_LocallySorted_iff. split.
  - apply Sorted_StronglySorted. exact T.
  - apply StronglySorted_Sorted.
Qed.

(* ---- first-match update ---- *)
Section UpdFirst.
  Context {A : Type} (P : A -> bool) (g : A -> A).

  Notation updf := (upd_first P g).

  Lemma updf_length : forall l, length (updf l) = length l.
  Proof. induction l; cbn; [reflexivity|]. destruct (P a); cbn; congruence. Qed.

  Lemma updf_none : forall l, find P l = None -> updf l = l.
  Proof. induction l; cbn; [reflexivity|]. destruct (P a); [discriminate | intros; f_equal; auto]. Qed.

  Lemma updf_Forall2 : forall (R : A -> A -> Prop), (forall x, R x x) -> (forall x, P x = true -> R x (g x)) ->
    forall l, Forall2 R l (updf l).
  Proof.
    intros R Hr Hg. induction l; cbn; [constructor|]. destruct (P a) eqn:E.
    - constructor; [auto|]. clear IHl. induction l; constructor; auto.
    - constructor; auto.
  Qed.

  Lemma updf_map_same : forall {B} (h : A -> B), (forall x, P x = true -> h (g x) = h x) -> forall l, map h (updf l) = map h l.
  Proof. intros B h H. induction l; cbn; [reflexivity|]. destruct (P a) eqn:E; cbn; f_equal; auto. Qed.

  Lemma updf_flat_map_same : forall {B} (h : A -> list B), (forall x, P x = true -> h (g x) = h x) ->
    forall l, flat_map h (updf l) = flat_map h l.
  Proof. intros B h H. induction l; cbn; [reflexivity|]. destruct (P a) eqn:E; cbn; f_equal; auto. Qed.

  Lemma updf_Forall : forall (Q : A -> Prop), (forall x, P x = true -> Q x -> Q (g x)) -> forall l, Forall Q l -> Forall Q (updf l).
  Proof.
    intros Q H. induction l; cbn; intros HF; [constructor|]. inversion HF; subst.
    destruct (P a) eqn:E; constructor; auto.
  Qed.

  Lemma updf_flat_map_perm : forall {B} (h : A -> list B) (extra : list B) x l,
    find P l = Some x -> Permutation (h (g x)) (extra ++ h x) ->
    Permutation (flat_map h (updf l)) (extra ++ flat_map h l).
  Proof.
    intros B h extra x. induction l; cbn; [discriminate|]. destruct (P a) eqn:E.
    - intros Hx Hp. inversion Hx; subst. rewrite app_assoc. apply Permutation_app_tail. assumption.
    - intros Hx Hp. specialize (IHl Hx Hp).
      eapply Permutation_trans; [apply Permutation_app_head; exact IHl|].
      rewrite !app_assoc. apply Permutation_app_tail. apply Permutation_app_comm.
  Qed.

  Lemma updf_In : forall l y, In y (updf l) -> In y l \/ exists x, In x l /\ P x = true /\ y = g x.
  Proof.
    induction l; cbn; [tauto|]. intros y. destruct (P a) eqn:E; cbn.
    - intros [H|H]; [right; exists a; auto | auto].
    - intros [H|H]; [auto|]. destruct (IHl y H) as [?|[x [? [? ?]]]]; [auto | right; exists x; auto].
  Qed.
End UpdFirst.

Lemma find_some_In : forall {A} (P : A -> bool) l x, find P l = Some x -> In x l /\ P x = true.
Proof. intros. apply find_some. assumption. Qed.

(* ---- Forall2-related lists ---- *)
Lemma Forall2_map_eq : forall {A B} (R : A -> A -> Prop) (h : A -> B) l l',
  (forall x y, R x y -> h y = h x) -> Forall2 R l l' -> map h l' = map h l.
Proof. intros A B R h l l' H. induction 1; cbn; [reflexivity | f_equal; auto]. Qed.

Lemma Forall2_flat_map_eq : forall {A B} (R : A -> A -> Prop) (h : A -> list B) l l',
  (forall x y, R x y -> h y = h x) -> Forall2 R l l' -> flat_map h l' = flat_map h l.
Proof. intros A B R h l l' H. induction 1; cbn; [reflexivity | f_equal; auto]. Qed.

Lemma Forall2_Forall : forall {A} (R : A -> A -> Prop) (Q : A -> Prop) l l',
  (forall x y, R x y -> Q x -> Q y) -> Forall2 R l l' -> Forall Q l -> Forall Q l'.
Proof. intros A R Q l l' H. induction 1; intros HF; [constructor|]. inversion HF; subst. constructor; eauto. Qed.

Lemma Forall2_ForallOrdPairs : forall {A} (R : A -> A -> Prop) (D : A -> A -> Prop) l l',
  (forall x y x' y', R x x' -> R y y' -> D x y -> D x' y') -> Forall2 R l l' -> ForallOrdPairs D l -> ForallOrdPairs D l'.
Proof.
  intros A R D l l' H. induction 1; intros HF; [constructor|]. inversion HF; subst. constructor; [|auto].
  clear - H H0 H1 H4. induction H1; [constructor|]. inversion H4; subst. constructor; eauto.
Qed.

Lemma Forall2_LocallySorted : forall {A} (R : A -> A -> Prop) (K : A -> A -> Prop) l l',
  (forall x y x' y', R x x' -> R y y' -> K x y -> K x' y') -> Forall2 R l l' -> LocallySorted K l -> LocallySorted K l'.
Proof.
  intros A R K l l' H. induction 1; intros HS; [constructor|].
  inversion HS; subst.
  - inversion H1; subst. constructor.
  - inversion H1; subst. constructor; [apply IHForall2; assumption | eauto].
Qed.

Lemma Forall2_map_r : forall {A} (R : A -> A -> Prop) (h : A -> A) l, (forall x, R x (h x)) -> Forall2 R l (map h l).
Proof. intros. induction l; cbn; constructor; auto. Qed.

(* ---- consecutive numbers ---- *)
Lemma in_zseq : forall zs k a x, zs = zseq a k -> (In x zs <-> a <= x < a + Z.of_nat k).
Proof.
  intros zs k. revert zs. induction k; intros zs a x ->; cbn [zseq In].
  - lia.
  - rewrite (IHk _ (a + 1) x eq_refl). lia.
Qed.

Lemma NoDup_zseq : forall k a, NoDup (zseq a k).
Proof.
  induction k; intros a; cbn; constructor; [|apply IHk].
  rewrite (in_zseq _ k (a + 1) a eq_refl). lia.
Qed.

Lemma length_zseq : forall k a, length (zseq a k) = k.
Proof. induction k; intros; cbn; [reflexivity | f_equal; apply IHk]. Qed.

Lemma NoDup_map_inj_in : forall {A B} (f : A -> B) l, (forall x y, In x l -> In y l -> f x = f y -> x = y) -> NoDup l -> NoDup (map f l).
Proof.
  intros A B f l. induction l; intros Hinj HN; cbn; [constructor|]. inversion HN; subst. constructor.
  - intro Hin. apply in_map_iff in Hin. destruct Hin as [y [E Hy]].
    assert (y = a) by (apply Hinj; cbn; auto). subst. contradiction.
  - apply IHl; [|assumption]. intros. apply Hinj; cbn; auto.
Qed.

(* NoDup of an append when the new elements are all above the old ones *)
Lemma NoDup_app_bound : forall (l1 l2 : list Z) m, NoDup l1 -> NoDup l2 -> Forall (fun x => m < x) l1 -> Forall (fun x => x <= m) l2 -> NoDup (l1 ++ l2).
Proof.
  induction l1; intros l2 m H1 H2 F1 F2; cbn; [assumption|].
  inversion H1; subst. inversion F1; subst. constructor; [|eapply IHl1; eassumption].
  rewrite in_app_iff. intros [Hin|Hin]; [contradiction|].
  rewrite Forall_forall in F2. specialize (F2 _ Hin). cbn in F2. lia.
Qed.

Lemma Forall2_flat_map_subl : forall {A B} (f : A -> list B) l l',
  Forall2 (fun x y => subl (f y) (f x)) l l' -> subl (flat_map f l') (flat_map f l).
Proof. induction 1; cbn; [constructor | apply subl_app; assumption]. Qed.

Lemma upd_first_flat_map_subl : forall {A B} (P : A -> bool) (g : A -> A) (f : A -> list B) l,
  (forall x, P x = true -> subl (f (g x)) (f x)) -> subl (flat_map f (upd_first P g l)) (flat_map f l).
Proof.
  intros. apply Forall2_flat_map_subl. apply (updf_Forall2 P g (fun x y => subl (f y) (f x))).
  - intros. apply subl_refl.
  - assumption.
Qed.

Lemma find_none_forall : forall {A} (P : A -> bool) l, find P l = None -> forall x, In x l -> P x = false.
Proof. intros. eapply find_none; eassumption. Qed.

Lemma NoDup_map_eq : forall {A B} (f : A -> B) l x y, NoDup (map f l) -> In x l -> In y l -> f x = f y -> x = y.
Proof.
  induction l; cbn; intros x y HN Hx Hy E; [tauto|]. inversion HN; subst.
  destruct Hx as [Hx|Hx], Hy as [Hy|Hy]; subst; auto.
  - exfalso. apply H1. rewrite E. apply in_map. assumption.
  - exfalso. apply H1. rewrite <- E. apply in_map. assumption.
Qed.

Lemma find_first_unique : forall {A} (P : A -> bool) l x y, find P l = Some x -> (forall a b, In a l -> In b l -> P a = true -> P b = true -> a = b) ->
  In y l -> P y = true -> y = x.
Proof. intros A P l x y Hf Hu Hy Py. apply find_some in Hf. destruct Hf. apply Hu; auto. Qed.

Lemma NoDup_snoc : forall {A} (l : list A) x, NoDup l -> ~ In x l -> NoDup (l ++ [x]).
Proof.
  intros A l x HN Hx. induction l; cbn; [constructor; [tauto | constructor]|].
  inversion HN; subst. constructor.
  - rewrite in_app_iff. cbn. intros [?|[?|[]]]; [contradiction|]. subst. apply Hx. left. reflexivity.
  - apply IHl; [assumption|]. intro. apply Hx. right. assumption.
Qed.

Lemma upd_first_as_map : forall {A} (key : A -> Z) (k : Z) (g : A -> A) l, NoDup (map key l) ->
  upd_first (fun x => key x =? k) g l = map (fun x => if key x =? k then g x else x) l.
Proof.
  induction l; cbn; intros HN; [reflexivity|]. inversion HN; subst.
  destruct (key a =? k) eqn:E.
  - f_equal. rewrite <- (map_id l) at 1. apply map_ext_in. intros x Hx.
    destruct (key x =? k) eqn:Ex; [|reflexivity]. exfalso. apply H1.
    assert (key a = key x) by lia. rewrite H. apply in_map. assumption.
  - f_equal. apply IHl. assumption.
Qed.

Lemma Forall2_impl : forall {A B} (R1 R2 : A -> B -> Prop) l l', (forall x y, R1 x y -> R2 x y) -> Forall2 R1 l l' -> Forall2 R2 l l'.
Proof. intros A B R1 R2 l l' H. induction 1; constructor; auto. Qed.

Lemma updf_Forall_first : forall {A} (P : A -> bool) (g : A -> A) (Q : A -> Prop) l x,
  find P l = Some x -> Forall Q l -> Q (g x) -> Forall Q (upd_first P g l).
Proof.
  intros A P g Q l x. induction l; cbn; [discriminate|]. destruct (P a) eqn:E; intros Hf HF Hq; inversion HF; subst.
  - inversion Hf; subst. constructor; assumption.
  - constructor; [assumption | apply IHl; assumption].
Qed.

Lemma updf_map_first : forall {A B} (P : A -> bool) (g : A -> A) (h : A -> B) l x,
  find P l = Some x -> h (g x) = h x -> map h (upd_first P g l) = map h l.
Proof.
  intros A B P g h l x. induction l; cbn; [discriminate|]. destruct (P a) eqn:E; intros Hf Hh; cbn; f_equal.
  - inversion Hf; subst. assumption.
  - apply IHl; assumption.
Qed.
