(* C16: well-formedness is preserved by the commands added in round 5: CreateMeasurement with an inconsistent schema list,
   policy rename (re-keying variant), cancelling a group deletion (guarded variant), node removal. *)
From Coq Require Import ZArith List Bool Lia ZifyBool Sorting.Sorted Sorting.Permutation.
From OG Require Import C16.Model C16.Wf C16.Lists C16.Proofs C16.ProofsCmd C16.ProofsSg.
Import ListNotations.
Open Scope Z_scope.

(* ---------------------------------------------------------------- CreateMeasurement, inconsistent schema (either variant) *)
Lemma wf_create_mst_bad : forall c db rp m, wf c -> wf (fst (create_mst_bad c db rp m)).
Proof.
  intros c db rp m H. unfold create_mst_bad. destruct (get_pol c db rp) as [p|] eqn:Eg; [|exact H].
  destruct (get_pol_spec _ _ _ _ Eg) as (Hf & _ & Edb & _). rewrite <- Edb in Hf.
  assert (A : forall v, wf (fst (if schemafirst c then err c else (add_mst c p m v, false)))).
  { intros v. destruct (schemafirst c); [exact H | apply wf_add_mst; assumption]. }
  destruct (assoc m (rp_vers p)); [destruct (find_mst p m z) as [x|]; [destruct (ms_mark x)|]|]; try apply A. exact H.
Qed.

(* ---------------------------------------------------------------- node removal *)
Lemma wf_remove_node : forall c id, wf c -> wf (fst (remove_node c id)).
Proof.
  intros c id H. unfold remove_node. cbn [fst ok]. constructor; try (same H).
  unfold node_ids. cbn [nodes set_nodes max_node]. eapply uniq_le_subl; [|exact (wf_node _ H)]. apply subl_map, subl_filter.
Qed.

(* ---------------------------------------------------------------- policy rename, re-keying variant *)
Lemma In_updf_first : forall {A} (P : A -> bool) (g : A -> A) l x, find P l = Some x -> In (g x) (upd_first P g l).
Proof.
  intros A P g. induction l as [|a l IH]; cbn; [discriminate|]. intros x. destruct (P a) eqn:E; intros Hf.
  - inversion Hf; subst. left. reflexivity.
  - right. apply IH. exact Hf.
Qed.

Lemma find_is_pol_unique : forall c db n p q, wf c -> find_pol c db n = Some p -> In q (pols c) -> is_pol db n q = true -> q = p.
Proof.
  intros c db n p q H Hf Hq Pq. destruct (find_is_pol _ _ _ _ Hf) as (Hp & E1 & E2). unfold is_pol in Pq.
  apply (NoDup_map_eq (fun p => (rp_db p, rp_name p)) (pols c)); [exact (wf_poln _ H) | exact Hq | exact Hp|].
  f_equal; lia.
Qed.

(* policies are filtered; every default that names a policy names one that stays *)
Lemma wf_filter_pols : forall c f, wf c ->
  (forall d p, In d (dbs c) -> In p (pols c) -> (rp_db p, rp_name p) = (db_name d, db_default d) -> db_default d <> 0 -> f p = true) ->
  wf (set_pols c (filter f (pols c))).
Proof.
  intros c f H Keep. constructor; cbn [pols dbs ptview ptnum nodes set_pols max_sg max_sh max_ig max_ix max_mst max_node].
  - eapply subl_Forall; [apply subl_filter | exact (wf_groups _ H)].
  - eapply uniq_le_subl; [|exact (wf_sg _ H)]. apply subl_flat_map, subl_filter.
  - eapply uniq_le_subl; [|exact (wf_sh _ H)]. apply subl_flat_map, subl_filter.
  - eapply uniq_le_subl; [|exact (wf_ig _ H)]. apply subl_flat_map, subl_filter.
  - eapply uniq_le_subl; [|exact (wf_ix _ H)]. apply subl_flat_map, subl_filter.
  - eapply uniq_lt_subl; [|exact (wf_mst _ H)]. apply subl_flat_map, subl_filter.
  - exact (wf_node _ H).
  - exact (wf_dbn _ H).
  - eapply subl_NoDup; [|exact (wf_poln _ H)]. apply subl_map, subl_filter.
  - eapply subl_Forall; [apply subl_filter | exact (wf_poldb _ H)].
  - eapply subl_Forall; [apply subl_filter|]. eapply Forall_impl; [|exact (wf_refs _ H)]. intros q. apply refs_ok_same. reflexivity.
  - apply Forall_forall. intros d Hd. pose proof (wf_def _ H) as D. rewrite Forall_forall in D.
    destruct (D d Hd) as [E0|Hin]; [left; exact E0|].
    destruct (Z.eq_dec (db_default d) 0) as [E0|N0]; [left; exact E0 | right].
    unfold pol_keys in *. cbn [pols set_pols]. apply in_map_iff in Hin. destruct Hin as [q [Eq Hq]].
    apply in_map_iff. exists q. split; [exact Eq|]. apply filter_In. split; [exact Hq|]. eapply Keep; eassumption.
  - exact (wf_ptv _ H).
  - exact (wf_nonneg _ H).
  - eapply subl_Forall; [apply subl_filter | exact (wf_dur _ H)].
  - eapply subl_Forall; [apply subl_filter | exact (wf_nm _ H)].
Qed.

Lemma find_filter_some : forall {A} (g f : A -> bool) l x, find g l = Some x -> f x = true -> find g (filter f l) = Some x.
Proof.
  intros A g f. induction l as [|a l IH]; cbn; [discriminate|]. intros x. destruct (g a) eqn:Eg; intros Hf Fx.
  - inversion Hf; subst. rewrite Fx. cbn. rewrite Eg. reflexivity.
  - destruct (f a); [cbn; rewrite Eg|]; apply IH; assumption.
Qed.

(* the renaming itself, the new key being the old one or free *)
Lemma wf_rename_core : forall c db x p nn d' sgd' igd' k, wf c -> In x (dbs c) -> db_name x = db ->
  find (is_pol db (rp_name p)) (pols c) = Some p -> In p (pols c) -> rp_db p = db ->
  (nn = rp_name p \/ ~ In (db, nn) (pol_keys c)) -> 0 < sgd' ->
  wf (let c1 := upd_pol c db (rp_name p) (fun q => pol_rename (pol_set_meta q d' sgd' igd' (rp_mark q)) nn nn) in
      if k || (db_default x =? rp_nm p) then set_default c1 db nn else c1).
Proof.
  intros c db x p nn d' sgd' igd' k H Hx Exn Hfind Hp Edb Hfresh Hsgd. cbv zeta.
  set (g := fun q => pol_rename (pol_set_meta q d' sgd' igd' (rp_mark q)) nn nn).
  set (old := rp_name p) in *.
  assert (Hold : db_default x = rp_nm p <-> db_default x = old).
  { pose proof (wf_nm _ H) as NM. rewrite Forall_forall in NM. rewrite (NM p Hp). reflexivity. }
  set (c1 := upd_pol c db old g).
  assert (Ekeys : forall k0, In k0 (pol_keys c) -> k0 <> (db, old) -> In k0 (pol_keys c1)).
  { intros k0 Hk Hne. unfold pol_keys, c1, upd_pol. cbn [pols set_pols]. apply updf_map_In_other; [exact Hk|].
    intros y Py. unfold is_pol in Py. intro Ey. apply Hne. rewrite <- Ey. f_equal; lia. }
  assert (Enew : In (db, nn) (pol_keys c1)).
  { unfold pol_keys, c1, upd_pol. cbn [pols set_pols]. apply in_map_iff. exists (g p). split; [cbn; rewrite Edb; reflexivity|].
    apply In_updf_first. exact Hfind. }
  assert (Knd : NoDup (pol_keys c1)).
  { unfold pol_keys, c1, upd_pol. cbn [pols set_pols]. apply updf_map_NoDup; [exact (wf_poln _ H)|].
    intros y Hy Py. assert (y = p) by (eapply find_is_pol_unique; [exact H | exact Hfind | exact Hy | exact Py]). subst y.
    cbn [g pol_rename pol_set_meta rp_db rp_name].
    destruct Hfresh as [->|Nin]; [left; reflexivity | right; rewrite Edb; exact Nin]. }
  assert (Gen : forall c2, pols c2 = pols c1 -> map db_name (dbs c2) = map db_name (dbs c) -> Forall (default_ok c2) (dbs c2) ->
            nodes c2 = nodes c -> ptview c2 = ptview c -> ptnum c2 = ptnum c ->
            (max_sg c2 = max_sg c /\ max_sh c2 = max_sh c /\ max_ig c2 = max_ig c /\ max_ix c2 = max_ix c /\ max_node c2 = max_node c /\ max_mst c2 = max_mst c) ->
            wf c2).
  { intros c2 Ep Edn Hdef End Epv Epn (E1 & E2 & E3 & E4 & E6 & E5).
    eapply (wf_pols_meta_gen2 c c2 (is_pol db old) g); try eassumption.
    - intros q. cbn. tauto.
    - intros q _. cbn. exact Hsgd.
    - intros q _. reflexivity.
    - unfold pol_keys. rewrite Ep. exact Knd.
    - tauto.
    - unfold mst_ids. rewrite Ep, E5. unfold c1, upd_pol. cbn [pols set_pols].
      rewrite updf_flat_map_same; [exact (wf_mst _ H) | reflexivity].
    - rewrite E5. pose proof (nonneg_get _ H). lia. }
  pose proof (wf_def _ H) as D. rewrite Forall_forall in D.
  assert (Other : forall y, In y (dbs c) -> db_name y <> db -> default_ok c1 y).
  { intros y Hy Hne. destruct (D y Hy) as [E0|Hin]; [left; exact E0 | right]. apply Ekeys; [exact Hin|]. intro E. inversion E. contradiction. }
  destruct (k || (db_default x =? rp_nm p)) eqn:Emove.
  - (* the default is (re)pointed at the new name *)
    unfold set_default, upd_db. rewrite (upd_first_as_map db_name db) by exact (wf_dbn _ H).
    apply Gen; try reflexivity; [| |cbn; tauto].
    + cbn [dbs set_dbs c1 upd_pol set_pols]. rewrite map_map. apply map_ext. intros a. destruct (db_name a =? db); reflexivity.
    + cbn [dbs set_dbs c1 upd_pol set_pols]. rewrite Forall_map. apply Forall_forall. intros y Hy.
      destruct (db_name y =? db) eqn:Ey.
      * right. cbn [db_name db_default]. replace (db_name y) with db by lia. exact Enew.
      * assert (Ok1 : default_ok c1 y) by (apply Other; [exact Hy | lia]). exact Ok1.
  - apply Gen; try reflexivity; [|cbn; tauto].
    cbn [dbs c1 upd_pol set_pols]. apply Forall_forall. intros y Hy.
    destruct (Z.eq_dec (db_name y) db) as [Ey|Ey]; [|apply Other; assumption].
    assert (y = x) by (eapply (NoDup_map_eq db_name); [exact (wf_dbn _ H) | exact Hy | exact Hx | congruence]). subst y.
    destruct (D x Hx) as [E0|Hin]; [left; exact E0 | right]. apply Ekeys; [exact Hin|].
    intro E. inversion E as [[E1 E2]]. apply orb_false_iff in Emove. destruct Emove as [_ Em]. apply Hold in E2. lia.
Qed.


Lemma wf_rename_rp : forall c db rp nn d sgd k, wf c -> rekey c = true -> wf (fst (rename_rp c db rp nn d sgd k)).
Proof.
  intros c db rp nn d sgd k H RK. unfold rename_rp.
  destruct (get_db c db) as [x|] eqn:Ex; [|exact H].
  destruct (get_pol c db rp) as [p|] eqn:Eg; [|exact H].
  destruct (get_db_spec _ _ _ Ex) as (Hx & Exn & _).
  destruct (get_pol_spec _ _ _ _ Eg) as (Hfind & Hp & Edb & _ & Hn0 & _). unfold find_pol in Hfind.
  match goal with |- context [if ?t then err c else _] => destruct t eqn:Etaken end; [exact H|].
  destruct (negb (spec_valid _ _)); [exact H|]. rewrite RK. cbn [fst ok].
  set (old := rp_name p) in *.
  destruct (nn =? old) eqn:Eno.
  - apply (wf_rename_core c db x p nn); try assumption; [left; unfold old in Eno; lia | apply norm_sgd_pos].
  - (* an entry stored under the new name, if there is one, is overwritten; that only happens for the empty name *)
    set (f := fun q => negb (is_pol db nn q)).
    assert (Hnn : nn = 0 \/ ~ In (db, nn) (pol_keys c)).
    { destruct (Z.eq_dec nn 0) as [E0|N0]; [left; exact E0 | right].
      destruct (nn =? rp) eqn:Er.
      - exfalso. destruct (get_pol_name _ _ _ _ Eg) as [E1|E1]; [lia | unfold old in Eno; lia].
      - unfold resolve in Etaken. replace (nn =? 0) with false in Etaken by lia. replace (nn =? 0) with false in Etaken by lia.
        destruct (find_pol c db nn) eqn:Ef; [discriminate|]. apply find_pol_none. exact Ef. }
    assert (W0 : wf (set_pols c (filter f (pols c)))).
    { apply wf_filter_pols; [exact H|]. intros d0 q Hd0 Hq Ek Ndef. unfold f, is_pol.
      destruct ((rp_db q =? db) && (rp_name q =? nn)) eqn:E; [|reflexivity]. exfalso. inversion Ek as [[E1 E2]].
      destruct Hnn as [E0|Nin]; [lia|]. apply Nin. unfold pol_keys. apply in_map_iff. exists q. split; [f_equal; lia | exact Hq]. }
    assert (Fp : f p = true) by (unfold f, is_pol; unfold old in Eno; lia).
    apply (wf_rename_core (set_pols c (filter f (pols c))) db x p nn); try assumption; [| | |apply norm_sgd_pos].
    + cbn [pols set_pols]. apply find_filter_some; assumption.
    + cbn [pols set_pols]. apply filter_In. split; assumption.
    + right. unfold pol_keys. cbn [pols set_pols]. intro Hin. apply in_map_iff in Hin. destruct Hin as [q [Eq Hq]].
      apply filter_In in Hq. destruct Hq as [_ Fq]. unfold f, is_pol in Fq. inversion Eq. lia.
Qed.

(* ---------------------------------------------------------------- cancelling a group deletion, guarded variant *)
Lemma find_split : forall {A} (P : A -> bool) l x, find P l = Some x ->
  exists l1 l2, l = l1 ++ x :: l2 /\ forall g, upd_first P g l = l1 ++ g x :: l2.
Proof.
  intros A P. induction l as [|a l IH]; cbn; [discriminate|]. intros x. destruct (P a) eqn:E; intros Hf.
  - inversion Hf; subst. exists [], l. split; reflexivity.
  - destruct (IH x Hf) as (l1 & l2 & E1 & E2). exists (a :: l1), l2. split; [cbn; rewrite E1; reflexivity|].
    intros g. cbn. rewrite E2. reflexivity.
Qed.

Lemma FOP_replace : forall {A} (R : A -> A -> Prop) l1 x y l2, ForallOrdPairs R (l1 ++ x :: l2) ->
  Forall (fun a => R a y) l1 -> Forall (R y) l2 -> ForallOrdPairs R (l1 ++ y :: l2).
Proof.
  intros A R. induction l1 as [|a l1 IH]; cbn; intros x y l2 HP H1 H2.
  - inversion HP; subst. constructor; assumption.
  - inversion HP; subst. inversion H1; subst. constructor; [|eapply IH; eassumption].
    apply Forall_app in H3. destruct H3 as [F1 F2]. inversion F2; subst.
    apply Forall_app. split; [exact F1|]. constructor; assumption.
Qed.

Lemma LocallySorted_replace : forall l1 x y l2, LocallySorted key_leP (l1 ++ x :: l2) -> sg_start y = sg_start x -> sg_end y = sg_end x ->
  LocallySorted key_leP (l1 ++ y :: l2).
Proof.
  intros l1 x y l2 HS E1 E2.
  eapply (Forall2_LocallySorted (fun a b => sg_start b = sg_start a /\ sg_end b = sg_end a)); [| |exact HS].
  - unfold key_leP. intros a b a' b' (A1 & A2) (B1 & B2). lia.
  - clear HS. induction l1; cbn; constructor; auto. clear. induction l2; constructor; auto.
Qed.

Lemma wf_cancel_delete_sg : forall c db rp id, wf c -> all_aligned c -> safecancel c = true -> wf (fst (cancel_delete_sg c db rp id)).
Proof.
  intros c db rp id H AA SC. unfold cancel_delete_sg.
  destruct (get_pol c db rp) as [p|] eqn:Eg; [|exact H].
  destruct (find (fun g => sg_id g =? id) (rp_sgs p)) as [x|] eqn:Ef; [|exact H].
  destruct (negb (sg_del x)) eqn:Edel; [exact H|]. rewrite SC. cbn [andb].
  destruct (overlaps_live (rp_sgs p) x) eqn:Eov; [exact H|]. cbn [fst ok].
  destruct (get_pol_spec _ _ _ _ Eg) as (Hfind & Hp & Edb & _). unfold find_pol in Hfind.
  destruct (find_split _ _ _ Ef) as (l1 & l2 & El & Eu).
  set (upd := fun q => pol_set_sgs q (upd_first (fun g => sg_id g =? id) sg_set_live (rp_sgs q))).
  unfold upd_pol. match goal with |- wf ?cc => set (c' := cc) end.
  assert (Epols : pols c' = upd_first (is_pol db (rp_name p)) upd (pols c)) by reflexivity.
  assert (Ek : pol_keys c' = pol_keys c).
  { unfold pol_keys. rewrite Epols. apply updf_map_same. reflexivity. }
  assert (Eids : forall q, map sg_id (rp_sgs (upd q)) = map sg_id (rp_sgs q)).
  { intros q. unfold upd. cbn [rp_sgs pol_set_sgs]. apply updf_map_same. reflexivity. }
  assert (Eshs : forall q, sh_ids_of (upd q) = sh_ids_of q).
  { intros q. unfold upd, sh_ids_of. cbn [rp_sgs pol_set_sgs]. apply updf_flat_map_same. reflexivity. }
  constructor.
  - (* groups *)
    rewrite Epols. apply (updf_Forall_first _ _ _ _ p Hfind (wf_groups _ H)).
    pose proof (wf_groups _ H) as GG. rewrite Forall_forall in GG. destruct (GG p Hp) as (S1 & S2 & S3).
    unfold upd. cbn [rp_sgs pol_set_sgs]. rewrite Eu. rewrite El in S1, S2, S3.
    assert (Hxin : In x (rp_sgs p)) by (rewrite El; apply in_or_app; right; left; reflexivity).
    assert (Live : forall a, In a (rp_sgs p) -> sg_del a = false -> sg_eng a = sg_eng x -> sg_end a <= sg_start x \/ sg_end x <= sg_start a).
    { intros a Ha Hd He. unfold overlaps_live in Eov.
      assert (N : (negb (sg_del a) && (sg_eng a =? sg_eng x) && (sg_start a <? sg_end x) && (sg_start x <? sg_end a)) = false).
      { destruct (negb (sg_del a) && (sg_eng a =? sg_eng x) && (sg_start a <? sg_end x) && (sg_start x <? sg_end a)) eqn:E; [|reflexivity].
        assert (existsb (fun x0 => negb (sg_del x0) && (sg_eng x0 =? sg_eng x) && (sg_start x0 <? sg_end x) && (sg_start x <? sg_end x0)) (rp_sgs p) = true)
          by (apply existsb_exists; exists a; split; assumption). congruence. }
      rewrite Hd in N. lia. }
    split; [|split].
    + eapply LocallySorted_replace; [exact S1 | reflexivity | reflexivity].
    + apply Forall_app in S2. destruct S2 as [A1 A2]. inversion A2; subst. apply Forall_app. split; [exact A1|]. constructor; [|assumption].
      intros _. cbn [sg_set_live sg_start sg_end sg_dur]. exact (AA p x Hp Hxin).
    + eapply FOP_replace; [exact S3 | |].
      * apply Forall_forall. intros a Ha Hda _ He. cbn [sg_set_live sg_start sg_end sg_eng] in *.
        apply Live; [rewrite El; apply in_or_app; left; exact Ha | exact Hda | exact He].
      * apply Forall_forall. intros a Ha _ Hda He. cbn [sg_set_live sg_start sg_end sg_eng] in *.
        destruct (Live a) as [L|L]; [rewrite El; apply in_or_app; right; right; exact Ha | exact Hda | symmetry; exact He | right; exact L | left; exact L].
  - unfold sg_ids. rewrite Epols. cbn [max_sg c' set_pols]. rewrite updf_flat_map_same; [exact (wf_sg _ H) | intros; apply Eids].
  - unfold sh_ids. rewrite Epols. cbn [max_sh c' set_pols]. rewrite updf_flat_map_same; [exact (wf_sh _ H) | intros; apply Eshs].
  - unfold ig_ids. rewrite Epols. cbn [max_ig c' set_pols]. rewrite updf_flat_map_same; [exact (wf_ig _ H) | reflexivity].
  - unfold ix_ids. rewrite Epols. cbn [max_ix c' set_pols]. rewrite updf_flat_map_same; [exact (wf_ix _ H) | reflexivity].
  - unfold mst_ids. rewrite Epols. cbn [max_mst c' set_pols]. rewrite updf_flat_map_same; [exact (wf_mst _ H) | reflexivity].
  - exact (wf_node _ H).
  - exact (wf_dbn _ H).
  - rewrite Ek. exact (wf_poln _ H).
  - rewrite Epols. apply updf_Forall; [|exact (wf_poldb _ H)]. intros q _ Q. exact Q.
  - (* references: shards and index groups are untouched *)
    rewrite Epols. apply updf_Forall; [|exact (wf_refs _ H)]. intros q _ Q g' s Hg' Hs.
    unfold upd in Hg'. cbn [rp_sgs pol_set_sgs] in Hg'. apply updf_In in Hg'.
    destruct Hg' as [Hg'|[g0 [Hg0 [_ ->]]]]; [exact (Q g' s Hg' Hs) | exact (Q g0 s Hg0 Hs)].
  - cbn [dbs c' set_pols]. eapply Forall_impl; [|exact (wf_def _ H)]. intros d0. unfold default_ok. rewrite Ek. auto.
  - exact (wf_ptv _ H).
  - exact (wf_nonneg _ H).
  - rewrite Epols. apply updf_Forall; [|exact (wf_dur _ H)]. intros q _ Q. exact Q.
  - rewrite Epols. apply updf_Forall; [|exact (wf_nm _ H)]. intros q _ Q. exact Q.
Qed.
