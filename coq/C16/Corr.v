(* C16 correspondence evaluator: runs the model on a harness case (commands + canonical dump of the REAL catalogue after
   every step) in the code variants of [variants] and reports, per variant, the first step at which the model state
   and the real dump differ; and evaluates wf_b and covered_b on every real dump. *)
From Coq Require Import ZArith List Bool.
From OG Require Import C16.Model C16.Expand.
Import ListNotations.
Open Scope Z_scope.

(* ---- canonical form: containers whose order is not observable are sorted ---- *)
Fixpoint insert_by {A} (leb : A -> A -> bool) (x : A) (l : list A) : list A :=
  match l with [] => [x] | y :: r => if leb x y then x :: l else y :: insert_by leb x r end.
Definition sort_by {A} (leb : A -> A -> bool) (l : list A) : list A := fold_right (insert_by leb) [] l.

Definition lex3 (a1 a2 a3 b1 b2 b3 : Z) : bool :=
  (a1 <? b1) || ((a1 =? b1) && ((a2 <? b2) || ((a2 =? b2) && (a3 <=? b3)))).

Definition canon_pol (p : policy) : policy :=
  {| rp_db := rp_db p; rp_name := rp_name p; rp_nm := rp_nm p; rp_dur := rp_dur p; rp_sgdur := rp_sgdur p; rp_igdur := rp_igdur p; rp_mark := rp_mark p;
     rp_msts := sort_by (fun a b => ms_id a <=? ms_id b) (rp_msts p);
     rp_vers := sort_by (fun a b => fst a <=? fst b) (rp_vers p);
     rp_sgs := sort_by (fun a b => lex3 (sg_end a) (sg_start a) (sg_id a) (sg_end b) (sg_start b) (sg_id b)) (rp_sgs p);
     rp_igs := sort_by (fun a b => lex3 (ig_end a) (ig_start a) (ig_id a) (ig_end b) (ig_start b) (ig_id b)) (rp_igs p) |}.

Definition canon (c : cat) : cat :=
  {| dbs := sort_by (fun a b => db_name a <=? db_name b) (dbs c);
     pols := sort_by (fun a b => lex3 (rp_db a) (rp_name a) 0 (rp_db b) (rp_name b) 0) (map canon_pol (pols c));
     nodes := sort_by (fun a b => nd_id a <=? nd_id b) (nodes c);
     ptview := sort_by (fun a b => fst a <=? fst b) (ptview c);
     ptnum := ptnum c; ptper := ptper c; sclean := sclean c; clampst := clampst c; schemafirst := schemafirst c; rekey := rekey c; safecancel := safecancel c;
     max_node := max_node c; max_sg := max_sg c; max_sh := max_sh c; max_mst := max_mst c; max_ig := max_ig c;
     max_ix := max_ix c; max_conn := max_conn c |}.

(* ---- equality ---- *)
Fixpoint list_eqb {A} (eqb : A -> A -> bool) (a b : list A) : bool :=
  match a, b with
  | [], [] => true
  | x :: a', y :: b' => eqb x y && list_eqb eqb a' b'
  | _, _ => false
  end.
Definition shard_eqb (a b : shard) := (sh_id a =? sh_id b) && list_eqb Z.eqb (sh_owners a) (sh_owners b) && (sh_index a =? sh_index b) && Bool.eqb (sh_mark a) (sh_mark b).
Definition sgroup_eqb (a b : sgroup) :=
  (sg_id a =? sg_id b) && (sg_start a =? sg_start b) && (sg_end a =? sg_end b) && Bool.eqb (sg_del a) (sg_del b) &&
  (sg_eng a =? sg_eng b) && (sg_dur a =? sg_dur b) && list_eqb shard_eqb (sg_shards a) (sg_shards b).
Definition index_eqb (a b : index) := (ix_id a =? ix_id b) && list_eqb Z.eqb (ix_owners a) (ix_owners b) && Bool.eqb (ix_mark a) (ix_mark b).
Definition igroup_eqb (a b : igroup) :=
  (ig_id a =? ig_id b) && (ig_start a =? ig_start b) && (ig_end a =? ig_end b) && Bool.eqb (ig_del a) (ig_del b) &&
  (ig_eng a =? ig_eng b) && list_eqb index_eqb (ig_indexes a) (ig_indexes b).
Definition mst_eqb (a b : mst) := (ms_name a =? ms_name b) && (ms_ver a =? ms_ver b) && (ms_id a =? ms_id b) && Bool.eqb (ms_mark a) (ms_mark b).
Definition policy_eqb (a b : policy) :=
  (rp_db a =? rp_db b) && (rp_name a =? rp_name b) && (rp_nm a =? rp_nm b) && (rp_dur a =? rp_dur b) && (rp_sgdur a =? rp_sgdur b) &&
  (rp_igdur a =? rp_igdur b) && Bool.eqb (rp_mark a) (rp_mark b) && list_eqb mst_eqb (rp_msts a) (rp_msts b) &&
  list_eqb pair_eqb (rp_vers a) (rp_vers b) && list_eqb sgroup_eqb (rp_sgs a) (rp_sgs b) && list_eqb igroup_eqb (rp_igs a) (rp_igs b).
Definition database_eqb (a b : database) := (db_name a =? db_name b) && (db_default a =? db_default b) && Bool.eqb (db_mark a) (db_mark b).
Definition node_eqb (a b : node) := (nd_id a =? nd_id b) && (nd_http a =? nd_http b) && (nd_tcp a =? nd_tcp b) && (nd_conn a =? nd_conn b).
Definition pt_eqb (a b : ptinfo) := (pt_owner a =? pt_owner b) && (pt_status a =? pt_status b) && (pt_ver a =? pt_ver b).
Definition cat_eqb (a b : cat) :=
  list_eqb database_eqb (dbs a) (dbs b) && list_eqb policy_eqb (pols a) (pols b) && list_eqb node_eqb (nodes a) (nodes b) &&
  list_eqb (fun x y => (fst x =? fst y) && list_eqb pt_eqb (snd x) (snd y)) (ptview a) (ptview b) &&
  (ptnum a =? ptnum b) && (ptper a =? ptper b) &&
  (max_node a =? max_node b) && (max_sg a =? max_sg b) && (max_sh a =? max_sh b) && (max_mst a =? max_mst b) &&
  (max_ig a =? max_ig b) && (max_ix a =? max_ix b) && (max_conn a =? max_conn b).

(* ---- one case: commands, the implementation's result (true = no error) and dump after each step ---- *)
Definition step_obs := (xcmd * bool * cat)%type.

(* first step at which the variant disagrees with the implementation (state or result), None if it never does *)
Fixpoint check_from (clip cleardef : bool) (i : nat) (c : cat) (tr : list step_obs) : option nat :=
  match tr with
  | [] => None
  | (x, r, d) :: rest =>
      let '(c', r') := applyx clip cleardef c x in
      if Bool.eqb r r' && cat_eqb (canon c') (canon d) then check_from clip cleardef (S i) c' rest else Some i
  end.

Definition opt_nat_z (o : option nat) : Z := match o with None => -1 | Some n => Z.of_nat n end.

(* steps whose real dump fails a predicate *)
Fixpoint fail_from (f : cat -> bool) (i : nat) (tr : list step_obs) : list nat :=
  match tr with
  | [] => []
  | (_, _, d) :: rest => if f d then fail_from f (S i) rest else i :: fail_from f (S i) rest
  end.

(* code variants (clip, cleardef, clampst, schemafirst, rekey, safecancel), in the order run.py names them: today's tree (every
   repair has landed) and today's tree with one landed repair taken out again *)
Definition variants : list (bool * bool * bool * bool * bool * bool) :=
  [(true, true, true, true, true, true);       (* head *)
   (false, true, true, true, true, true);      (* head without 2b62e48 (clip) *)
   (true, false, true, true, true, true);      (* head without b424c13 *)
   (true, true, false, true, true, true);      (* head without 3695b47 *)
   (true, true, true, false, true, true);      (* head without f21700b *)
   (true, true, true, true, false, true);      (* head without f36a23d *)
   (true, true, true, true, true, false)].     (* head without b51128b (guarded cancel-delete) *)
Record verdict := { v_match : list Z; v_wf : list nat; v_cover : list nat }.

Definition check_case (per : Z) (sc : bool) (modelled : bool) (tr : list step_obs) : verdict :=
  {| v_match := map (fun v => match v with (clip, cleardef, clamp, sf, rk, sca) =>
                        if modelled then opt_nat_z (check_from clip cleardef 0 (init_cat_o per sc clamp sf rk sca) tr) else -2 end) variants;
     v_wf := fail_from wf_b 0 tr; v_cover := fail_from covered_b 0 tr |}.

Definition check_cases (l : list (Z * bool * bool * list step_obs)) : list verdict :=
  map (fun x => match x with (per, sc, m, tr) => check_case per sc m tr end) l.
