(* C16: the well-formedness statement as a proposition, and its equivalence with the boolean wf_b of Model.v that the
   correspondence evaluates on dumps of the real catalogue. *)
From Coq Require Import ZArith List Bool Lia ZifyBool Sorting.Sorted.
From OG Require Import C16.Model.
Import ListNotations.
Open Scope Z_scope.

(* unique, positive, at most the counter *)
Definition uniq_le (l : list Z) (m : Z) : Prop := NoDup l /\ Forall (fun x => 0 < x <= m) l.
Definition uniq_lt (l : list Z) (m : Z) : Prop := NoDup l /\ Forall (fun x => 0 <= x < m) l.

(* a live group is a non-empty span inside one cell [k*d, (k+1)*d) (anchored like time.Truncate, capped at the end of the time
   domain) of the shard-group duration d in force when it was created *)
Definition aligned (g : sgroup) : Prop :=
  sg_del g = false ->
  sg_start g < sg_end g /\ 0 < sg_dur g /\ sg_end g <= cell_end (trunc (sg_start g) (sg_dur g)) (sg_dur g).
(* the same of any group, deleted or not: every group the commands create is born this way and spans never change *)
Definition aligned_any (g : sgroup) : Prop :=
  sg_start g < sg_end g /\ 0 < sg_dur g /\ sg_end g <= cell_end (trunc (sg_start g) (sg_dur g)) (sg_dur g).
Definition all_aligned (c : cat) : Prop := forall p g, In p (pols c) -> In g (rp_sgs p) -> aligned_any g.
(* two live groups of one engine type do not overlap *)
Definition disjoint2 (a b : sgroup) : Prop :=
  sg_del a = false -> sg_del b = false -> sg_eng a = sg_eng b -> sg_end a <= sg_start b \/ sg_end b <= sg_start a.
(* the order the rest of the system relies on: by end, then start *)
Definition key_leP (a b : sgroup) : Prop := sg_end a < sg_end b \/ (sg_end a = sg_end b /\ sg_start a <= sg_start b).

Definition groups_ok (l : list sgroup) : Prop :=
  LocallySorted key_leP l /\ Forall aligned l /\ ForallOrdPairs disjoint2 l.

(* every shard names an index of its own policy and at least one partition, all of them existing *)
Definition refs_ok (c : cat) (p : policy) : Prop :=
  forall g s, In g (rp_sgs p) -> In s (sg_shards g) ->
    In (sh_index s) (ix_ids_of p) /\ sh_owners s <> [] /\ Forall (fun o => 0 <= o < ptnum c) (sh_owners s).

Definition default_ok (c : cat) (d : database) : Prop :=
  db_default d = 0 \/ In (db_name d, db_default d) (pol_keys c).

Record wf (c : cat) : Prop := {
  wf_groups : Forall (fun p => groups_ok (rp_sgs p)) (pols c);
  wf_sg : uniq_le (sg_ids c) (max_sg c);
  wf_sh : uniq_le (sh_ids c) (max_sh c);
  wf_ig : uniq_le (ig_ids c) (max_ig c);
  wf_ix : uniq_le (ix_ids c) (max_ix c);
  wf_mst : uniq_lt (mst_ids c) (max_mst c);
  wf_node : uniq_le (node_ids c) (max_node c);
  wf_dbn : NoDup (map db_name (dbs c));
  wf_poln : NoDup (pol_keys c);
  wf_poldb : Forall (fun p => In (rp_db p) (map db_name (dbs c))) (pols c);
  wf_refs : Forall (refs_ok c) (pols c);
  wf_def : Forall (default_ok c) (dbs c);
  wf_ptv : Forall (fun e => Z.of_nat (length (snd e)) = ptnum c) (ptview c);
  wf_nonneg : Forall (fun x => 0 <= x) [max_sg c; max_sh c; max_ig c; max_ix c; max_mst c; max_node c; ptnum c];
  wf_dur : Forall (fun p => 0 < rp_sgdur p) (pols c);  (* shard-group durations are normalised to at least one hour *)
  wf_nm : Forall (fun p => rp_nm p = rp_name p) (pols c)   (* a policy is stored under its name *)
}.

(* the C14 invariant as a clause about the catalogue: the index group holding a shard's index does not end before the shard's
   own group (an index must not expire before a shard that uses it) *)
Definition covered_pol (p : policy) : Prop :=
  forall g s ig i, In g (rp_sgs p) -> In s (sg_shards g) -> In ig (rp_igs p) -> In i (ig_indexes ig) -> ix_id i = sh_index s ->
    sg_end g <= ig_end ig.
Definition covered (c : cat) : Prop := Forall covered_pol (pols c).

(* ---- reflection ---- *)
Lemma existsb_eqb_In : forall x l, existsb (Z.eqb x) l = true <-> In x l.
Proof.
  intros x l. rewrite existsb_exists. split.
  - intros [y [Hy E]]. apply Z.eqb_eq in E. subst. assumption.
  - intros H. exists x. split; [assumption | apply Z.eqb_refl].
Qed.

Lemma nodup_b_iff : forall l, nodup_b l = true <-> NoDup l.
Proof.
  induction l as [|x r IH]; cbn [nodup_b].
  - split; [constructor | reflexivity].
  - rewrite andb_true_iff, negb_true_iff, IH. split.
    + intros [H1 H2]. constructor; [|assumption]. intro Hin. apply existsb_eqb_In in Hin. congruence.
    + intros H. inversion H; subst. split; [|assumption].
      destruct (existsb (Z.eqb x) r) eqn:E; [|reflexivity]. apply existsb_eqb_In in E. contradiction.
Qed.

Lemma pair_eqb_eq : forall a b, pair_eqb a b = true <-> a = b.
Proof.
  intros [a1 a2] [b1 b2]. unfold pair_eqb. cbn [fst snd]. rewrite andb_true_iff, !Z.eqb_eq.
  split; [intros [-> ->]; reflexivity | intros H; inversion H; auto].
Qed.

Lemma existsb_pair_In : forall x l, existsb (pair_eqb x) l = true <-> In x l.
Proof.
  intros x l. rewrite existsb_exists. split.
  - intros [y [Hy E]]. apply pair_eqb_eq in E. subst. assumption.
  - intros H. exists x. split; [assumption | apply pair_eqb_eq; reflexivity].
Qed.

Lemma nodup_pairs_b_iff : forall l, nodup_pairs_b l = true <-> NoDup l.
Proof.
  induction l as [|x r IH]; cbn [nodup_pairs_b].
  - split; [constructor | reflexivity].
  - rewrite andb_true_iff, negb_true_iff, IH. split.
    + intros [H1 H2]. constructor; [|assumption]. intro Hin. apply existsb_pair_In in Hin. congruence.
    + intros H. inversion H; subst. split; [|assumption].
      destruct (existsb (pair_eqb x) r) eqn:E; [|reflexivity]. apply existsb_pair_In in E. contradiction.
Qed.

Lemma forallb_Forall : forall {A} (f : A -> bool) (P : A -> Prop) l,
  (forall x, f x = true <-> P x) -> (forallb f l = true <-> Forall P l).
Proof.
  intros A f P l H. induction l as [|x r IH]; cbn [forallb].
  - split; [constructor | reflexivity].
  - rewrite andb_true_iff, IH, H. split; [intros [? ?]; constructor; assumption | intros X; inversion X; auto].
Qed.

Lemma uniq_le_b_iff : forall l m, uniq_le_b l m = true <-> uniq_le l m.
Proof.
  intros. unfold uniq_le_b, uniq_le. rewrite andb_true_iff, nodup_b_iff.
  rewrite (forallb_Forall _ (fun x => 0 < x <= m)); [reflexivity | intros; lia].
Qed.
Lemma uniq_lt_b_iff : forall l m, uniq_lt_b l m = true <-> uniq_lt l m.
Proof.
  intros. unfold uniq_lt_b, uniq_lt. rewrite andb_true_iff, nodup_b_iff.
  rewrite (forallb_Forall _ (fun x => 0 <= x < m)); [reflexivity | intros; lia].
Qed.

Lemma aligned_b_iff : forall g, aligned_b g = true <-> aligned g.
Proof.
  intros g. unfold aligned_b, aligned. destruct (sg_del g); cbn [orb].
  - split; [intros _ H; discriminate | reflexivity].
  - rewrite !andb_true_iff. split.
    + intros [[H1 H2] H3] _. lia.
    + intros H. specialize (H eq_refl). lia.
Qed.

Lemma disjoint2_b_iff : forall a b, disjoint2_b a b = true <-> disjoint2 a b.
Proof.
  intros a b. unfold disjoint2_b, disjoint2.
  destruct (sg_del a); cbn [orb]; [split; [intros _ H; discriminate | reflexivity]|].
  destruct (sg_del b); cbn [orb]; [split; [intros _ _ H; discriminate | reflexivity]|].
  destruct (Z.eqb_spec (sg_eng a) (sg_eng b)) as [E|E]; cbn [negb orb].
  - rewrite orb_true_iff. split; [intros H _ _ _; lia | intros H; specialize (H eq_refl eq_refl E); lia].
  - split; [intros _ _ _ H; contradiction | reflexivity].
Qed.

Lemma pairwise_b_iff : forall {A} (f : A -> A -> bool) (P : A -> A -> Prop) l,
  (forall x y, f x y = true <-> P x y) -> (pairwise_b f l = true <-> ForallOrdPairs P l).
Proof.
  intros A f P l H. induction l as [|x r IH]; cbn [pairwise_b].
  - split; [constructor | reflexivity].
  - rewrite andb_true_iff, IH, (forallb_Forall (f x) (P x)) by (intro; apply H).
    split; [intros [? ?]; constructor; assumption | intros X; inversion X; auto].
Qed.

Lemma key_le_iff : forall a b, key_le a b = true <-> key_leP a b.
Proof. intros. unfold key_le, key_lt, key_leP. lia. Qed.

Lemma sorted_b_iff : forall l, sorted_b l = true <-> LocallySorted key_leP l.
Proof.
  induction l as [|x r IH].
  - split; [constructor | reflexivity].
  - destruct r as [|y r'].
    + split; [constructor | reflexivity].
    + change (sorted_b (x :: y :: r')) with (key_le x y && sorted_b (y :: r')).
      rewrite andb_true_iff, IH, key_le_iff. split.
      * intros [? ?]. constructor; assumption.
      * intros X. inversion X; subst. auto.
Qed.

Lemma groups_ok_b_iff : forall l, groups_ok_b l = true <-> groups_ok l.
Proof.
  intros. unfold groups_ok_b, groups_ok. rewrite !andb_true_iff, sorted_b_iff.
  rewrite (forallb_Forall _ _ l aligned_b_iff), (pairwise_b_iff _ _ l disjoint2_b_iff). tauto.
Qed.

Lemma refs_ok_b_iff : forall c p, refs_ok_b c p = true <-> refs_ok c p.
Proof.
  intros c p. unfold refs_ok_b, refs_ok. rewrite forallb_forall. split.
  - intros H g s Hg Hs. specialize (H g Hg). rewrite forallb_forall in H. specialize (H s Hs).
    rewrite !andb_true_iff in H. destruct H as [[H1 H2] H3].
    apply existsb_eqb_In in H1. split; [assumption|]. split.
    + destruct (sh_owners s); [discriminate | discriminate].
    + apply (forallb_Forall _ (fun o => 0 <= o < ptnum c)) in H3; [assumption | intros; lia].
  - intros H g Hg. rewrite forallb_forall. intros s Hs. destruct (H g s Hg Hs) as [H1 [H2 H3]].
    rewrite !andb_true_iff. split; [split|].
    + apply existsb_eqb_In. assumption.
    + destruct (sh_owners s); [contradiction | reflexivity].
    + apply (forallb_Forall _ (fun o => 0 <= o < ptnum c)); [intros; lia | assumption].
Qed.

Lemma default_ok_b_iff : forall c d, default_ok_b c d = true <-> default_ok c d.
Proof.
  intros. unfold default_ok_b, default_ok. rewrite orb_true_iff, Z.eqb_eq, existsb_pair_In. reflexivity.
Qed.

Theorem wf_b_iff : forall c, wf_b c = true <-> wf c.
Proof.
  intros c. unfold wf_b. rewrite !andb_true_iff.
  rewrite (forallb_Forall _ (fun p => groups_ok (rp_sgs p))) by (intro; apply groups_ok_b_iff).
  rewrite !uniq_le_b_iff, uniq_lt_b_iff, nodup_b_iff, nodup_pairs_b_iff.
  rewrite (forallb_Forall _ (fun p => In (rp_db p) (map db_name (dbs c)))) by (intro; apply existsb_eqb_In).
  rewrite (forallb_Forall _ (refs_ok c)) by (intro; apply refs_ok_b_iff).
  rewrite (forallb_Forall _ (default_ok c)) by (intro; apply default_ok_b_iff).
  rewrite (forallb_Forall _ (fun e => Z.of_nat (length (snd e)) = ptnum c)) by (intro; apply Z.eqb_eq).
  rewrite (forallb_Forall _ (fun x => 0 <= x)) by (intro; lia).
  rewrite (forallb_Forall _ (fun p => 0 < rp_sgdur p)) by (intro; lia).
  rewrite (forallb_Forall _ (fun p => rp_nm p = rp_name p)) by (intro; apply Z.eqb_eq).
  split.
  - intros H. decompose [and] H. constructor; assumption.
  - intros [? ? ? ? ? ? ? ? ? ? ? ? ? ? ? ?]. tauto.
Qed.

Lemma covered_pol_b_iff : forall p, covered_pol_b p = true <-> covered_pol p.
Proof.
  intros p. unfold covered_pol_b, covered_pol, ig_of. rewrite forallb_forall. split.
  - intros H g s ig i Hg Hs Hig Hi E. specialize (H g Hg). rewrite forallb_forall in H. specialize (H s Hs).
    rewrite forallb_forall in H. assert (X : (sg_end g <=? ig_end ig) = true); [|lia].
    apply H. apply filter_In. split; [exact Hig|]. apply existsb_exists. exists i. split; [exact Hi | lia].
  - intros H g Hg. rewrite forallb_forall. intros s Hs. rewrite forallb_forall. intros ig Hig.
    apply filter_In in Hig. destruct Hig as [Hig Hex]. apply existsb_exists in Hex. destruct Hex as [i [Hi E]].
    assert (sg_end g <= ig_end ig); [|lia]. apply (H g s ig i); auto. lia.
Qed.

Lemma covered_b_iff : forall c, covered_b c = true <-> covered c.
Proof. intros c. unfold covered_b, covered. apply forallb_Forall. apply covered_pol_b_iff. Qed.
