(* C16: Data.ExpandGroups (ExpandGroupsCommand, also run by a node join when expand-shards is enabled) - executable model used by
   the correspondence and by the identifier-freshness lemmas of ProofsExpand.v. Kept outside [cmd]: the preservation theorems of
   Props.v are stated for the commands of [cmd]; what is proved about expansion is stated separately.
   Walk order: databases, then policies, in the order of their names (sort.Strings); inside a policy first every index group gets
   one index per missing partition, then every shard group one shard per missing partition, each shard looking its index group
   up with createIndexGroupCovering(start, end of the shard group) - which may create one. Identifiers come from the counters in
   exactly this order, so after an expansion the id ranges of different groups interleave. HASH sharding only (RANGE policies are
   skipped by the code and are not modelled). *)
From Coq Require Import ZArith List Bool.
From OG Require Import C16.Model.
Import ListNotations.
Open Scope Z_scope.

(* names are integer codes; the walks go in string order: "" (0) < "autogen" (4) < "db1"/"rp1" (1) < .. *)
Definition name_ord (n : Z) : Z := if n =? 0 then -1 else if n =? 4 then 0 else n.
Definition pol_le (a b : policy) : bool :=
  (name_ord (rp_db a) <? name_ord (rp_db b)) ||
  ((name_ord (rp_db a) =? name_ord (rp_db b)) && (name_ord (rp_name a) <=? name_ord (rp_name b))).
Fixpoint insert_pol (x : policy) (l : list policy) : list policy :=
  match l with [] => [x] | y :: r => if pol_le x y then x :: l else y :: insert_pol x r end.
Definition sort_pols (l : list policy) : list policy := fold_right insert_pol [] l.

Definition ig_set_indexes (g : igroup) (l : list index) : igroup :=
  {| ig_id := ig_id g; ig_start := ig_start g; ig_end := ig_end g; ig_del := ig_del g; ig_eng := ig_eng g; ig_indexes := l |}.
Definition sg_set_shards (g : sgroup) (l : list shard) : sgroup :=
  {| sg_id := sg_id g; sg_start := sg_start g; sg_end := sg_end g; sg_del := sg_del g; sg_eng := sg_eng g; sg_dur := sg_dur g; sg_shards := l |}.

(* one index per missing partition; mx = MaxIndexID *)
Definition expand_ig (n mx : Z) (g : igroup) : Z * igroup :=
  let k := Z.of_nat (length (ig_indexes g)) in
  if k <? n then
    (mx + (n - k),
     ig_set_indexes g (ig_indexes g ++ map (fun i => {| ix_id := mx + 1 + (i - k); ix_owners := [i]; ix_mark := false |}) (zseq k (Z.to_nat (n - k)))))
  else (mx, g).
Fixpoint expand_igs (n mx : Z) (l : list igroup) : Z * list igroup :=
  match l with
  | [] => (mx, [])
  | g :: r => let '(mx1, g1) := expand_ig n mx g in let '(mx2, r1) := expand_igs n mx1 r in (mx2, g1 :: r1)
  end.

(* one shard per missing partition of one shard group; c carries the counters, p the policy's index groups *)
Fixpoint expand_shards (c : cat) (p : policy) (g : sgroup) (parts : list Z) : cat * policy * sgroup :=
  match parts with
  | [] => (c, p, g)
  | i :: r =>
      let '(ig, isnew) := ensure_ig c p (sg_start g) (sg_end g) (sg_eng g) in
      let p1 := if isnew then pol_set_igs p (insert_ig ig (rp_igs p)) else p in
      let c1 := set_sg_counters c (max_sg c) (max_sh c + 1) (if isnew then max_ig c + 1 else max_ig c)
                  (if isnew then max_ix c + ptnum c else max_ix c) in
      let s := {| sh_id := max_sh c + 1; sh_owners := [i];
                  sh_index := ix_id (nth (Z.to_nat i) (ig_indexes ig) {| ix_id := 0; ix_owners := []; ix_mark := false |});
                  sh_mark := false |} in
      expand_shards c1 p1 (sg_set_shards g (sg_shards g ++ [s])) r
  end.

Fixpoint expand_sgs (c : cat) (p : policy) (l : list sgroup) : cat * policy * list sgroup :=
  match l with
  | [] => (c, p, [])
  | g :: r =>
      let k := Z.of_nat (length (sg_shards g)) in
      let '(c1, p1, g1) := expand_shards c p g (zseq k (Z.to_nat (ptnum c - k))) in
      let '(c2, p2, r1) := expand_sgs c1 p1 r in
      (c2, p2, g1 :: r1)
  end.

Definition expand_pol (c : cat) (p : policy) : cat * policy :=
  let '(mx, igs1) := expand_igs (ptnum c) (max_ix c) (rp_igs p) in
  let c0 := set_sg_counters c (max_sg c) (max_sh c) (max_ig c) mx in
  let '(c1, p1, sgs1) := expand_sgs c0 (pol_set_igs p igs1) (rp_sgs p) in
  (c1, pol_set_sgs p1 sgs1).

Fixpoint expand_pols (c : cat) (l : list policy) : cat * list policy :=
  match l with
  | [] => (c, [])
  | p :: r => let '(c1, p1) := expand_pol c p in let '(c2, r1) := expand_pols c1 r in (c2, p1 :: r1)
  end.

Definition expand_groups (c : cat) : cat :=
  let '(c1, l) := expand_pols c (sort_pols (pols c)) in set_pols c1 l.

(* the commands of the correspondence: those of [cmd] and the expansion *)
(* XJoin: CreateDataNodeCommand on a store configured with expand-shards: a node that is really new (the list grew) is followed
   by an expansion inside the same command *)
Inductive xcmd := Base (x : cmd) | XExpand | XJoin (h t : Z).
Definition applyx (clip cleardef : bool) (c : cat) (x : xcmd) : cat * bool :=
  match x with
  | Base y => apply clip cleardef c y
  | XExpand => ok (expand_groups c)
  | XJoin h t =>
      let '(c1, r) := create_node c h t in
      if Nat.ltb (length (nodes c)) (length (nodes c1)) then (expand_groups c1, r) else (c1, r)
  end.
