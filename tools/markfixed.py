#!/usr/bin/env python3
"""tools/markfixed.py <finding-id> <commit> ...pairs : set status fixed + commit in the property's findings fragment, then re-merge."""
import json, sys, subprocess, os
V = os.path.dirname(os.path.dirname(os.path.abspath(__file__)))
args = sys.argv[1:]
for fid, commit in zip(args[0::2], args[1::2]):
    pid = fid.split('-')[0]
    fn = os.path.join(V, 'props', pid, 'findings.json')
    d = json.load(open(fn))
    hit = False
    for f in d['findings']:
        if f['id'] == fid:
            f['status'] = 'fixed'; f['commit'] = commit
            f['fixed'] = 'fixed: property=%s %s %s' % (pid, commit, f.get('description', '')[:160])
            hit = True
    json.dump(d, open(fn, 'w'), indent=1)
    print(fid, 'ok' if hit else 'NOT FOUND')
subprocess.run([sys.executable, os.path.join(V, 'tools', 'merge.py')], stdout=subprocess.DEVNULL)
