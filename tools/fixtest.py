#!/usr/bin/env python3
"""tools/fixtest.py Cxx <patch> [--pkgs ./a/... ./b/...] [--tier quick]
Validates a candidate repair: scratch worktree of /repo HEAD + patch; go build ./...; go test (json) of the packages the
patch touches (plus --pkgs) and comparison with BASELINE stable_pass; VERIF_REPO=<worktree> ./check Cxx.
Prints a JSON summary; never touches /repo's working tree."""
import hashlib, json, os, re, shutil, subprocess, sys, time
pid, patch = sys.argv[1], os.path.abspath(sys.argv[2])
extra = []
if "--pkgs" in sys.argv:
    i = sys.argv.index("--pkgs") + 1
    while i < len(sys.argv) and not sys.argv[i].startswith("--"):
        extra.append(sys.argv[i]); i += 1
tier = sys.argv[sys.argv.index("--tier") + 1] if "--tier" in sys.argv else "quick"
nocheck = "--no-check" in sys.argv
env = dict(os.environ, GOFLAGS="-mod=mod", GOPROXY="off")
env.pop("GOTOOLCHAIN", None); env.pop("GOSUMDB", None)
wt = "/tmp/wt_fix_%s_%d" % (pid, os.getpid())


def sh(cmd, cwd=None, timeout=5400, e=None):
    p = subprocess.run(cmd, shell=True, cwd=cwd, env=e or env, stdout=subprocess.PIPE, stderr=subprocess.STDOUT, text=True,
                       timeout=timeout, errors="replace")
    return p.returncode, p.stdout


res = {"property": pid, "patch": patch}
rc, out = sh("git -C /repo worktree add -q %s HEAD" % wt)
assert rc == 0, out
try:
    for m in ("lib/util/lifted/VictoriaMetrics", "lib/util/lifted/influxdb"):
        if os.path.exists("/repo/%s/go.sum" % m):
            shutil.copy("/repo/%s/go.sum" % m, os.path.join(wt, m, "go.sum"))
    rc, out = sh("git apply %s" % patch, cwd=wt)
    res["applies"] = rc == 0
    assert rc == 0, out
    files = re.findall(r"^\+\+\+ b/(.*)$", open(patch).read(), re.M)
    res["files"] = files
    pk = sorted({"./" + os.path.dirname(f) for f in files} | set(extra))
    rc, out = sh("gofmt -l " + " ".join(files), cwd=wt)
    res["gofmt_dirty"] = out.split()
    rc, out = sh("go build ./... 2>&1 | tail -20", cwd=wt)
    res["build_tail"] = out[-800:]
    base = json.load(open("/root/.vp/BASELINE.json"))
    stable = set(base["stable_pass"])
    results = {}
    for p in pk:
        # lifted sub-modules are separate go modules
        cwd, arg = wt, p
        for m in ("lib/util/lifted/VictoriaMetrics", "lib/util/lifted/influxdb"):
            if p.startswith("./" + m):
                cwd, arg = os.path.join(wt, m), "./" + p[len("./" + m):].lstrip("/")
                if arg == "./":
                    arg = "."
        rc, out = sh("go test -json -vet=off -count=1 -timeout 25m %s" % arg, cwd=cwd)
        for l in out.splitlines():
            try:
                ev = json.loads(l)
            except Exception:
                continue
            if ev.get("Test") and ev.get("Action") in ("pass", "fail", "skip"):
                results[ev["Package"] + "::" + ev["Test"]] = ev["Action"]
    pkgs_seen = {k.split("::")[0] for k in results}
    bad = sorted(t for t in stable if t.split("::")[0] in pkgs_seen and results.get(t) != "pass")
    res["tests"] = {"packages": pk, "ran": len(results), "stable_in_these_packages": sum(1 for t in stable if t.split("::")[0] in pkgs_seen),
                    "stable_not_passing": bad}
    if not nocheck:
        t0 = time.time()
        rc, out = sh("./check %s --tier %s" % (pid, tier), cwd="/verif", e=dict(env, VERIF_REPO=wt), timeout=7200)
        lines = [l for l in out.splitlines() if l.startswith(("VIOLATION", "KNOWN-FINDING", "[%s]" % pid))]
        res["check"] = {"rc": rc, "wall_s": round(time.time() - t0, 1), "lines": lines[-16:]}
finally:
    sh("git -C /repo worktree remove --force %s" % wt)
    key = "alt-" + hashlib.sha1(wt.encode()).hexdigest()[:10]
    shutil.rmtree(os.path.join("/verif", "build", key), ignore_errors=True)
print(json.dumps(res, indent=1))
