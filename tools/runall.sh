#!/bin/bash
# tools/runall.sh [tier] [ids...] : run the registered checks sequentially against /repo, summary in build/runall.log
cd /verif
T=${1:-quick}; shift
IDS=${@:-C01 C02 C03 C04 C05 C06 C07 C08 C09 C10 C11 C12 C13 C14 C15 C16 C17 C18 C19 C20}
mkdir -p build/runall
: > build/runall/summary.txt
for p in $IDS; do
  s=$(date +%s)
  ./check $p --tier $T > build/runall/$p.log 2>&1; rc=$?
  e=$(( $(date +%s) - s ))
  echo "$p rc=$rc ${e}s $(grep -c '^KNOWN-FINDING' build/runall/$p.log) known; $(grep '^VIOLATION' build/runall/$p.log | head -3 | tr '\n' ' ')" | tee -a build/runall/summary.txt
done
echo RUNALL-DONE
