#!/bin/bash
# tools/fixfull.sh <name> <patch>... : full baseline suite on a scratch worktree of /repo HEAD with the patches applied
N=$1; shift
WT=/tmp/wt_full_$N
git -C /repo worktree remove --force $WT 2>/dev/null
git -C /repo worktree add -q --detach $WT HEAD || exit 2
for p in "$@"; do q=$(readlink -f "$p"); (cd $WT && git apply "$q") || { echo "patch $p does not apply"; git -C /repo worktree remove --force $WT; exit 3; }; done
mkdir -p /tmp/ft
/verif/tools/fulltest.sh $WT /tmp/ft/$N | tail -40
git -C /repo worktree remove --force $WT
