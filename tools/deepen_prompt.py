#!/usr/bin/env python3
"""print the prompt for a deepening sub-agent: tools/deepen_prompt.py Cxx "<goal text>" """
import json, sys
pid = sys.argv[1]
goals = sys.argv[2]
p = [json.loads(l) for l in open('/verif/properties.jsonl') if json.loads(l)['id'] == pid][0]
num = int(pid[1:])
print(f"""You are continuing the verification work for ONE property ({pid}) of openGemini (/repo, Go) in the framework under /verif. The technique is fixed: machine-checked proof in Coq 8.16.1 (models + theorems for all inputs/histories, no axioms) plus a checked tie between the Coq model and the real code on every run (translator and/or correspondence harness). A complete pipeline for {pid} already exists and is green on the unchanged tree; your job is to DEEPEN it: more of the code inside the model, more theorems (at full strength, over all inputs), a tighter tie between model and code, and better detection of realistic breaking changes - without ever raising a false alarm on correct code.

Read first, in this order: /verif/AGENT_GUIDE.md (rules, layout, commit protocol, how checks decide - follow it strictly); the {pid} line of /verif/properties.jsonl (the statement is fixed and decides what is a violation); /verif/props/{pid}/NOTES.md (what exists, what is not covered); /verif/DESIGN.md section 4 "{pid}" and the {pid} part of section 8; then the existing files coq/{pid}/*.v, harness/cmd/c{num:02d}*/, props/{pid}/run.py, props/{pid}/findings.json.

Property {pid}: {p['title']}
Statement: {p['statement']}

Goals for this round (in priority order; do as many as you can do soundly; stop a goal that turns out to be a rabbit hole and say so):
{goals}

Hard rules (in addition to AGENT_GUIDE.md):
* `./check {pid}` must stay exit 0 on the unchanged /repo tree (only KNOWN-FINDING lines for `open` findings), quick tier <= ~2 min wall on a warm cache. Run it before every commit of yours. Never loosen or remove a check that is right in order to make it quiet; never special-case an input.
* If you discover a NEW genuine defect of /repo (the property statement fails on the real code for a concrete input you can replay): reproduce it through the harness, add an `open` entry with a narrow decidable signature to props/{pid}/findings.json (implemented as code in run.py), add `_current`/`_repaired` model variants + a `_refuted` theorem where the model can express it, and if a small safe maintainer-grade repair exists write it as props/{pid}/fixN.patch (next free N) validated in a scratch worktree (package tests + `VERIF_REPO=<wt> ./check {pid}`; never edit tracked files in /repo). I apply fixes to /repo centrally.
* A disagreement that is the machinery's fault (model/oracle demands more than the statement) is a false alarm: fix the machinery and say so in NOTES.md.
* New /repo hooks: add-only `//go:build verif` files named verif_export_c{num:02d}*.go committed by themselves with message "verif hooks: ... for {pid} (build tag verif)".
* Self-test every new piece with at least 2 realistic mutants of the newly covered code (scratch worktrees under /tmp, `VERIF_REPO=<wt> ./check {pid}` must exit 1 with a VIOLATION line) and 1 behaviour-preserving refactor (must stay exit 0). Remove every worktree (`git -C /repo worktree remove --force <dir>`) and `/verif/build/alt-*` dir you created.
* Coq: no Axiom/Parameter/Admitted/admit anywhere; every new property theorem goes to Props.v (or Refuted.v) as `Theorem .. Proof. exact lemma. Qed.` + `Print Assumptions`; add an `Example` showing hypotheses are satisfiable. Run coqc/make under shell `timeout`; `timeout 20 sauto`, never bare.
* Shell: per call `export GOFLAGS=-mod=mod GOPROXY=off` (never GOTOOLCHAIN/GOSUMDB). Other agents work in /verif and /repo at the same time on OTHER properties: touch only {pid}'s paths (coq/{pid}, harness/cmd/c{num:02d}*, props/{pid}, corpus/{pid}) and new files under coq/Base you create; commit only your own paths (`git add <paths>; git commit -m "{pid}: ..."`, retry on index.lock); never run git checkout/reset/stash/clean in /verif or /repo; never pkill by name. If every command prints a conda traceback, rewrite /root/.condarc as the two lines `channels:\\n  - defaults` + `auto_activate: false` (a known profile race) and go on; a single conda WARNING line per command is normal.
* Update props/{pid}/NOTES.md (what is modelled / proved / assumed / tied / not covered, mutants tried) and props/{pid}/manifest_entry.json (level text and level_note must describe exactly what is proved and what is only correspondence). Commit early and often in /verif.

Final report (your last message): what you added (theorem names with one-line meanings), how the tie got tighter, new findings + patch status, mutants caught/missed, hook commits in /repo, wall time of quick tier, and what you would do next.""")
