#!/usr/bin/env python3
"""tools/seedtest.py Cxx <seed_src_dir> <id> [--no-demo] [--tier quick]
Confirms a seeded change (patch applies, compiles, demo fails with / passes without), runs ./check Cxx against a scratch
worktree with the change applied, and stores patch+demo+meta under /verif/seeded/<id>/ with the results."""
import json, os, shutil, subprocess, sys, time
pid, src, sid = sys.argv[1], sys.argv[2], sys.argv[3]
nodemo = "--no-demo" in sys.argv
tier = sys.argv[sys.argv.index("--tier") + 1] if "--tier" in sys.argv else "quick"
V = "/verif"
env = dict(os.environ, GOFLAGS="-mod=mod", GOPROXY="off")
env.pop("GOTOOLCHAIN", None); env.pop("GOSUMDB", None)
wt = "/tmp/wt_seed_%s" % sid

def sh(cmd, cwd=None, timeout=3600, e=None):
    p = subprocess.run(cmd, shell=True, cwd=cwd, env=e or env, stdout=subprocess.PIPE, stderr=subprocess.STDOUT, text=True, timeout=timeout, errors="replace")
    return p.returncode, p.stdout

meta = json.load(open(os.path.join(src, "meta.json")))
res = {"checked_at": time.strftime("%Y-%m-%d %H:%M:%S"), "property": pid}
sh("git -C /repo worktree remove --force %s" % wt)
rc, out = sh("git -C /repo worktree add -q %s HEAD" % wt)
assert rc == 0, out
try:
    demo = meta.get("demo", {})
    demo_src = None
    for f in os.listdir(src):
        if f.endswith("_test.go") or (f.endswith(".go") and f != "patch.diff"):
            demo_src = os.path.join(src, f)
    dest = (demo.get("path_in_tree") or "").split(" ")[0] or None
    cmd = demo.get("command")
    if dest and dest.endswith("/") and demo_src:
        dest = dest + os.path.basename(demo_src)
    if not nodemo and demo_src and dest and cmd:
        os.makedirs(os.path.dirname(os.path.join(wt, dest)), exist_ok=True)
        shutil.copy(demo_src, os.path.join(wt, dest))
        rc0, out0 = sh(cmd, cwd=wt)
        res["demo_without_change"] = {"rc": rc0, "tail": out0[-600:]}
    rc, out = sh("git apply %s" % os.path.join(src, "patch.diff"), cwd=wt)
    res["patch_applies"] = rc == 0
    assert rc == 0, out
    pk = sorted({("./" + os.path.dirname(f)) for f in meta.get("files_changed", [])})
    rc, out = sh("go build " + " ".join(pk), cwd=wt)
    res["compiles"] = rc == 0
    if not nodemo and demo_src and dest and cmd:
        rc1, out1 = sh(cmd, cwd=wt)
        res["demo_with_change"] = {"rc": rc1, "tail": out1[-600:]}
        os.remove(os.path.join(wt, dest))
    t0 = time.time()
    e2 = dict(env, VERIF_REPO=wt)
    rc, out = sh("./check %s --tier %s" % (pid, tier), cwd=V, e=e2, timeout=7200)
    lines = [l for l in out.splitlines() if l.startswith("VIOLATION") or l.startswith("KNOWN-FINDING") or l.startswith("[%s]" % pid)]
    res["check"] = {"cmd": "VERIF_REPO=<worktree with patch> ./check %s --tier %s" % (pid, tier), "rc": rc, "wall_s": round(time.time() - t0, 1), "lines": lines[-8:]}
    res["caught"] = rc == 1 and any(l.startswith("VIOLATION") for l in lines)
    res["caught_with_failing_input"] = res["caught"] and any(l.startswith("VIOLATION") and "no-failing-input-found" not in l for l in lines)
finally:
    sh("git -C /repo worktree remove --force %s" % wt)
    import hashlib
    key = "alt-" + hashlib.sha1(wt.encode()).hexdigest()[:10]
    shutil.rmtree(os.path.join(V, "build", key), ignore_errors=True)
dst = os.path.join(V, "seeded", sid)
os.makedirs(dst, exist_ok=True)
for f in os.listdir(src):
    if f == "meta.json" or f.endswith(".log") or os.path.abspath(src) == os.path.abspath(dst):
        continue
    shutil.copy(os.path.join(src, f), os.path.join(dst, f))
prev_meta = {}
try:
    prev_meta = json.load(open(os.path.join(dst, "meta.json")))
except Exception:
    pass
if prev_meta.get("verification"):
    hist = prev_meta.get("previous_verifications", [])
    pv = prev_meta["verification"]
    hist.append({k: pv.get(k) for k in ("checked_at", "caught", "caught_with_failing_input")} | {"check": pv.get("check", {})})
    meta["previous_verifications"] = hist
    if pv.get("other_checks"):
        res["other_checks"] = pv["other_checks"]
meta["verification"] = res
json.dump(meta, open(os.path.join(dst, "meta.json"), "w"), indent=1)
print(json.dumps(res, indent=1))
