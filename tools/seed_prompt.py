#!/usr/bin/env python3
"""print the prompt for a seeded-defect sub-agent: tools/seed_prompt.py Cxx /tmp/seed_cxx [n]"""
import json, sys
pid, wt = sys.argv[1], sys.argv[2]
n = int(sys.argv[3]) if len(sys.argv) > 3 else 3
start = int(sys.argv[4]) if len(sys.argv) > 4 else 1
import glob
prev = [json.load(open(f)).get('summary', '') for f in sorted(glob.glob('/verif/seeded/%s-m*/meta.json' % pid))]
avoid = ("\n\nChanges of these kinds were already produced by someone else for this property; do something DIFFERENT in mechanism and location:\n" + "\n".join("  - " + x for x in prev) + "\n") if prev and start > 1 else ""
p = [json.loads(l) for l in open('/verif/properties.jsonl') if json.loads(l)['id'] == pid][0]
print(f"""You are helping to evaluate a verification tool by planting realistic defects in a Go code base. You have your own scratch git worktree of the openGemini repository (a distributed time-series database) at {wt} (branch detached at the pinned commit). Work ONLY inside {wt} (and, for notes, {wt}/SEED/). Do not read or write anything under /verif or /repo (they are off limits; everything you need is in your worktree). Environment: per shell call `export GOFLAGS=-mod=mod GOPROXY=off` (do NOT set GOTOOLCHAIN or GOSUMDB); the sandbox is offline; `go build ./...` and `go test ./pkg/...` work from the worktree.

The semantic property under study (the system is supposed to satisfy it):

  Title: {p['title']}
  Statement: {p['statement']}
  Quantified over: {p['quantifier']['text']}
  Code it is anchored in: {', '.join(p['anchors']['files'])}

Task: produce {n} DIFFERENT small changes to the openGemini source (each independent of the others, each a separate patch against the pinned commit) that BREAK this property, such that with the change applied
  (a) the repository still compiles (`go build ./...` in the affected packages, and `go vet` is not required),
  (b) the existing unit tests of the affected packages still pass (`go test -count=1 ./<affected packages>/...`; run them; if a test fails, pick a different change), and
  (c) the breakage needs something SPECIFIC to manifest - a particular interleaving, a crash or fault at a particular point, a multi-step sequence of operations, an unusual input or boundary value, or two cooperating sites that each look fine alone - not something ordinary use would expose at once. Make them the kind of mistake a competent developer could plausibly make in a refactor or "optimisation" (off-by-one at a boundary, a dropped special case, a reordered step, a stale cache, a missing copy of a field, a wrong comparison operator, a lost error), not sabotage that disables a feature wholesale. Aim for variety: different files / mechanisms among the {n} changes.{avoid} Do not touch *_test.go files or files with a `//go:build verif` tag in the patches.
For each change i = {start}..{start+n-1} write into {wt}/SEED/m<i>/ :
  - patch.diff : `git diff` output against the pinned commit (apply-able with `git apply` at the repository root; only the source change, not the demonstration),
  - a demonstration: a Go test file or small program (say where it must be placed in the tree and the exact command to run it) that FAILS with the change applied and PASSES without it, showing the property's statement being violated (e.g. an acknowledged point not returned, a wrong value decoded, a shard deleted too early ...). Run it both ways yourself and record the two outputs.
  - meta.json : {{"property": "{pid}", "summary": "<one line>", "mechanism": "<what was changed and why it breaks the property>", "needs": "<what specific input/sequence/interleaving/crash point is needed to manifest>", "files_changed": [...], "tests_run": ["<commands you ran with the change applied and their pass/fail>"], "demo": {{"path_in_tree": "...", "command": "...", "fails_with_change": true, "passes_without": true}}}}
After recording each change, restore the worktree source to the pinned state (`git checkout -- <files>`; keep SEED/) before starting the next one. Finish with a short report listing the {n} changes. If after honest effort you can only produce fewer than {n} that satisfy (a)-(c), deliver those and say so.""")
