#!/usr/bin/env python3
"""Assemble MANIFEST.json (checks, not_applicable) and known_findings.json from the per-property fragments."""
import json, os, sys
V = os.path.dirname(os.path.dirname(os.path.abspath(__file__)))
props = [json.loads(l) for l in open(os.path.join(V, "properties.jsonl"))]
m = json.load(open(os.path.join(V, "MANIFEST.json")))
checks, findings, na = [], [], []
old_na = {x["property_id"]: x["reason"] for x in m.get("not_applicable", [])}
for p in props:
    pid = p["id"]
    d = os.path.join(V, "props", pid)
    me = os.path.join(d, "manifest_entry.json")
    if os.path.exists(me) and os.path.exists(os.path.join(d, "run.py")) and os.path.exists(os.path.join(d, "READY")):
        e = json.load(open(me))
        e["property_id"] = pid
        e.setdefault("quick_cmd", "./check %s --tier quick" % pid)
        e.setdefault("thorough_cmd", "./check %s --tier thorough" % pid)
        e["evidence_file"] = "/verif/evidence/%s.json" % pid
        e.setdefault("replay_cmd_template", "./check %s --replay {path}" % pid)
        checks.append(e)
    else:
        na.append({"property_id": pid, "reason": old_na.get(pid, "check not built yet (work in progress; will be claimed)")})
    ff = os.path.join(d, "findings.json")
    if os.path.exists(ff) and os.path.exists(os.path.join(d, "READY")):
        findings += json.load(open(ff))["findings"]
m["checks"] = checks
m["not_applicable"] = na
hooks = os.path.join(V, "hooks_commits.txt")
if os.path.exists(hooks):
    m["hooks"]["source_commits"] = [l.strip() for l in open(hooks) if l.strip()]
json.dump(m, open(os.path.join(V, "MANIFEST.json"), "w"), indent=1)
json.dump({"findings": findings}, open(os.path.join(V, "known_findings.json"), "w"), indent=1)
print("checks:", [c["property_id"] for c in checks], "findings:", [f["id"] for f in findings])
