#!/bin/bash
# tools/fulltest.sh <repo-dir> <out-prefix>  : runs the baseline test command (guard off) and lists stable_pass tests that did not pass
D=$1; O=$2
export GOFLAGS=-mod=mod GOPROXY=off
for m in lib/util/lifted/VictoriaMetrics lib/util/lifted/influxdb; do [ -f $D/$m/go.sum ] || cp /repo/$m/go.sum $D/$m/go.sum 2>/dev/null; done
: > $O.json
for m in . lib/util/lifted/VictoriaMetrics lib/util/lifted/influxdb; do (cd $D/$m && go test -mod=mod -json -vet=off -count=1 -timeout 25m ./... >> $O.json 2>>$O.err); done
python3 - "$O" <<'PY'
import json,sys
o=sys.argv[1]
base=json.load(open('/root/.vp/BASELINE.json'))
stable=set(base['stable_pass'])
res={}
for l in open(o+'.json'):
    try: e=json.loads(l)
    except Exception: continue
    if e.get('Test') and e.get('Action') in ('pass','fail','skip'):
        res[e['Package']+'::'+e['Test']]=e['Action']
bad=sorted(t for t in stable if res.get(t)!='pass')
json.dump({'ran':len(res),'stable':len(stable),'not_passing':bad},open(o+'.summary.json','w'),indent=1)
print('ran',len(res),'stable',len(stable),'stable-not-passing',len(bad))
for t in bad[:60]: print(' ',t,res.get(t))
PY
