// C01 correspondence harness: generated histories of acknowledged write batches (fresh, out-of-order, overwriting,
// partial-field) and forced flushes are run on a REAL shard (engine/verif_export_c02.go through internal/tsdrv) with
// 1/2/3/16 WAL partitions, through the recording VFS (internal/crashfs, hook lib/fileops/verif_export_c03.go). At file
// system mutations of the write path (WAL append - also torn), of the memtable flush (data-file create/write/sync/
// rename, WAL file removal) and of log replay itself, a crash image (copy of the shard directory) is frozen. Every image
// is opened with the real code as a NEW shard (WAL replay, force flush, log removal), all rows are dumped through the
// real cursors, and the DIRECT ORACLE is applied: the dump equals the Go last-write-wins map of the writes acknowledged
// before the crash (optionally plus the one write in flight): no loss, no reversion, no invention.
// One JSON object per history; every image carries the abstract WAL contents at the crash (per partition, per file, the
// indexes of the write ops whose records are complete) so that the driver can run the Coq model (current / repaired
// replay order) on it and classify failures against the known finding.
//
// usage: c01 <n-histories> [replay-file]
package main

import (
	"encoding/json"
	"flag"
	"fmt"
	"os"
	"path/filepath"
	"regexp"
	"runtime/debug"
	"sort"
	"strconv"
	"strings"
	"time"

	"github.com/openGemini/openGemini/lib/util/lifted/vm/protoparser/influx"
	"github.com/openGemini/openGemini/lib/config"
	"verifharness/internal/crashfs"
	"verifharness/internal/gen"
	"verifharness/internal/tsdrv"
)

const NT = 10 // timestamps 0..9

type Op struct {
	K    string      `json:"k"` // W F FB FE D(rop measurement)
	Rows []tsdrv.Row `json:"rows,omitempty"`
}

type Cell struct {
	S    int   `json:"s"`
	T    int   `json:"t"`
	F    int   `json:"f"`
	Want int64 `json:"want"`
	WOk  bool  `json:"wok"`
	Got  int64 `json:"got"`
	GOk  bool  `json:"gok"`
}

type Image struct {
	At       string  `json:"at"`       // description of the crash point
	Op       int     `json:"op"`       // index of the op during which the crash happens (len(ops) = after the last op)
	Acked    int     `json:"acked"`    // ops[0:acked] were acknowledged before the crash
	Inflight int     `json:"inflight"` // write op in flight (-1 none)
	Torn     int     `json:"torn"`     // bytes of the in-flight WAL record on disk (-1: not a torn image)
	Sub      int     `json:"sub"`      // second crash after this many mutations of the recovery pass (-1 none)
	Parts    [][]int `json:"parts"`    // live WAL: per partition, write-op indexes of the complete records, oldest first
	Epochs   [][]int `json:"epochs"`   // same shape: flush generation (epoch) of each record
	Dump     []Cell  `json:"dump"`     // recovered cells (Got) - all series, all fields, full range
	Match    string  `json:"match"`    // "acked", "acked+inflight" or "" (oracle failed)
	Diff     []Cell  `json:"diff,omitempty"`
	Err      string  `json:"err,omitempty"`
	Extra    []tsdrv.Row `json:"extra,omitempty"` // async replay: a write acknowledged by the re-opened shard while the log was being re-applied
	Txn      int     `json:"txn"` // pending (non-temporary) transaction files of the series index in the image
}

type History struct {
	Case   int     `json:"case"`
	NWal   int     `json:"nwal"`
	NSer   int     `json:"nser"`
	Ops    []Op    `json:"ops"`
	Auto   bool    `json:"auto"`  // size-triggered (automatic) flushes: memtable limit of 1 byte, 100 ms snapshot timer
	Async  bool    `json:"async"` // crash images are opened with wal-replay-async = true and written to while the log is re-applied
	Pre    int     `json:"pre"` // leading warm-up ops (write+flush rounds that age the shard); no crash images there
	Images []Image `json:"images"`
	Crash  string  `json:"crash,omitempty"`
	Flags  Flags   `json:"flags"`
}

type Flags struct {
	Overwrite     bool `json:"overwrite"`      // some (series,time,field) written twice
	SameEpochOver bool `json:"same_epoch_over"` // ... twice within one WAL epoch
	Late          bool `json:"late"`           // a row at or below already flushed time of its series
	Partial       bool `json:"partial"`
	Flushes       int  `json:"flushes"`
	Drops         int  `json:"drops"`
}

// ---- generation ----

func genHistory(r *gen.Rand) (nser, nwal, pre int, ops []Op) {
	nser = r.Range(1, 5)
	nwal = gen.Pick(r, []int{1, 2, 3, 16, 16})
	now := 2
	val := int64(1)
	n := r.Range(4, 26)
	active := 1 // series introduced so far: new series keep appearing during the history, often right before a flush
	mkRowS := func(s int) tsdrv.Row {
		var t int
		switch r.Intn(6) {
		case 0, 1:
			t = now
			if r.Chance(1, 2) && now < NT-1 {
				now++
			}
		case 2:
			t = r.Intn(NT) // anywhere: out-of-order or overwrite
		default:
			t = r.Range(max(0, now-2), now) // recent: overwrites
		}
		row := tsdrv.Row{S: s, T: t}
		for f := 0; f < 2; f++ { // int and float fields carry values that identify the write
			if r.Chance(2, 3) {
				row.F = append(row.F, tsdrv.FV{F: f, V: val})
			}
		}
		if r.Chance(1, 5) {
			row.F = append(row.F, tsdrv.FV{F: 3, V: int64(r.Intn(len(tsdrv.StrPool)))})
		}
		if len(row.F) == 0 {
			row.F = []tsdrv.FV{{F: 0, V: val}}
		}
		val++
		return row
	}
	mkRow := func() tsdrv.Row {
		if active < nser && r.Chance(1, 8) {
			active++
			return mkRowS(active - 1)
		}
		return mkRowS(r.Intn(active))
	}
	newSeries := func() { // a write that creates a brand-new series (its index entry is not durable yet)
		if active < nser && r.Chance(2, 3) {
			active++
			ops = append(ops, Op{K: "W", Rows: []tsdrv.Row{mkRowS(active - 1)}})
		}
	}
	// a minority of histories start on an aged shard: k cheap write+flush rounds first, so that the WAL file numbers
	// reach / cross a power of ten (9.wal -> 10.wal, 99.wal -> 100.wal); one partition, so every round advances the number
	if r.Chance(1, 5) {
		nwal = gen.Pick(r, []int{1, 1, 1, 2})
		k := gen.Pick(r, []int{8, 8, 9, 10, 11})
		if r.Chance(1, 4) {
			k = gen.Pick(r, []int{98, 98, 99, 100})
		}
		if nwal == 2 {
			k *= 2
		}
		for i := 0; i < k; i++ {
			ops = append(ops, Op{K: "W", Rows: []tsdrv.Row{{S: 0, T: i % NT, F: []tsdrv.FV{{F: 0, V: val}}}}}, Op{K: "F"})
			val++
		}
		pre = len(ops)
		n += pre
		// an overwrite that spans the log switch of a paused flush: older value in file k+1, newer in file k+2
		s, t := 0, r.Intn(NT)
		ops = append(ops, Op{K: "W", Rows: []tsdrv.Row{{S: s, T: t, F: []tsdrv.FV{{F: 0, V: val}}}}})
		val++
		ops = append(ops, Op{K: "FB"})
		for i := 0; i < nwal; i++ {
			ops = append(ops, Op{K: "W", Rows: []tsdrv.Row{{S: s, T: t, F: []tsdrv.FV{{F: 0, V: val}}}}})
			val++
		}
		newSeries()
		ops = append(ops, Op{K: "FE"})
	}
	for len(ops) < n {
		if r.Chance(1, 14) && len(ops) > 2 {
			ops = append(ops, Op{K: "D"}) // DROP MEASUREMENT: everything written so far must stay gone
			continue
		}
		switch k := r.Intn(10); {
		case k < 7:
			nb := 1
			if r.Chance(1, 4) {
				nb = r.Range(2, 4)
			}
			var rows []tsdrv.Row
			seen := map[[2]int]bool{}
			for i := 0; i < nb; i++ {
				rw := mkRow()
				if seen[[2]int{rw.S, rw.T}] {
					continue // one row per (series,time) in a batch: in-batch order is C02's subject
				}
				seen[[2]int{rw.S, rw.T}] = true
				rows = append(rows, rw)
			}
			ops = append(ops, Op{K: "W", Rows: rows})
		case k < 9:
			newSeries()
			if r.Chance(1, 2) {
				// a flush that is paused after the log switch / memtable swap while more writes are acknowledged:
				// two WAL epochs are live until the flush finishes
				ops = append(ops, Op{K: "FB"})
				s, t := r.Intn(active), r.Range(max(0, now-1), now)
				for i := 0; i < r.Range(1, 3); i++ {
					if r.Chance(1, 2) {
						ops = append(ops, Op{K: "W", Rows: []tsdrv.Row{{S: s, T: t, F: []tsdrv.FV{{F: 0, V: val}}}}})
						val++
					} else {
						ops = append(ops, Op{K: "W", Rows: []tsdrv.Row{mkRow()}})
					}
				}
				ops = append(ops, Op{K: "FE"})
			} else {
				ops = append(ops, Op{K: "F"})
			}
		default:
			// burst of single-point writes (fills WAL partitions unevenly before a switch), flush, overwrites
			m := r.Range(1, 2*nwal)
			if m > 20 {
				m = r.Range(1, 20)
			}
			for i := 0; i < m && len(ops) < n+20; i++ {
				ops = append(ops, Op{K: "W", Rows: []tsdrv.Row{mkRow()}})
			}
			ops = append(ops, Op{K: "F"})
			s, t := r.Intn(active), r.Intn(NT)
			for i := 0; i < r.Range(2, 3); i++ {
				ops = append(ops, Op{K: "W", Rows: []tsdrv.Row{{S: s, T: t, F: []tsdrv.FV{{F: 0, V: val}}}}})
				val++
			}
		}
	}
	return
}

// the witness of DESIGN.md: N=16, 15 single-point writes, flush, two writes to one (series,time)
func witness() (int, int, []Op) {
	var ops []Op
	for i := 0; i < 15; i++ {
		ops = append(ops, Op{K: "W", Rows: []tsdrv.Row{{S: 0, T: i % NT, F: []tsdrv.FV{{F: 0, V: int64(1000 + i)}}}}})
	}
	ops = append(ops, Op{K: "F"})
	ops = append(ops, Op{K: "W", Rows: []tsdrv.Row{{S: 0, T: 3, F: []tsdrv.FV{{F: 0, V: 111}}}}})
	ops = append(ops, Op{K: "W", Rows: []tsdrv.Row{{S: 0, T: 3, F: []tsdrv.FV{{F: 0, V: 222}}}}})
	return 1, 16, ops
}

// write one batch through shard.WriteRows WITHOUT flushing the series index afterwards (tsdrv.Write does flush it):
// a series created by the batch is durable only through its WAL record until the engine itself flushes the index
// (memtable flush, background timer).
func writeRows(sh *tsdrv.Shard, rows []tsdrv.Row) error {
	irs := make([]influx.Row, len(rows))
	for i, r := range rows {
		ir := &irs[i]
		ir.Name = tsdrv.Mst
		ir.Timestamp = tsdrv.TimeOf(r.T)
		ir.Tags = influx.PointTags{{Key: "host", Value: "h" + strconv.Itoa(r.S)}, {Key: "zone", Value: "z" + strconv.Itoa(r.S%2)}}
		for _, fv := range r.F {
			f := influx.Field{Key: tsdrv.FieldNames[fv.F], Type: tsdrv.FieldTypes[fv.F]}
			switch fv.F {
			case 0:
				f.NumValue = float64(fv.V)
			case 1:
				f.NumValue = tsdrv.FloatOf(fv.V)
			case 2:
				f.NumValue = float64(fv.V & 1)
			case 3:
				f.StrValue = tsdrv.StrPool[int(fv.V)%len(tsdrv.StrPool)]
			}
			ir.Fields = append(ir.Fields, f)
		}
	}
	return sh.V.WriteRows(irs)
}

// fixed history: a shard aged by 8 write+flush rounds (WAL file numbers reach 9), then an overwrite spanning the log
// switch of a paused flush: the older value sits in 9.wal, the newer one in 10.wal
func aged8() (int, int, int, []Op) {
	var ops []Op
	for i := 0; i < 8; i++ {
		ops = append(ops, Op{K: "W", Rows: []tsdrv.Row{{S: 0, T: i, F: []tsdrv.FV{{F: 0, V: int64(500 + i)}}}}}, Op{K: "F"})
	}
	pre := len(ops)
	ops = append(ops, Op{K: "W", Rows: []tsdrv.Row{{S: 0, T: 4, F: []tsdrv.FV{{F: 0, V: 1}}}}})
	ops = append(ops, Op{K: "FB"})
	ops = append(ops, Op{K: "W", Rows: []tsdrv.Row{{S: 0, T: 4, F: []tsdrv.FV{{F: 0, V: 2}}}}})
	ops = append(ops, Op{K: "FE"})
	return 1, 1, pre, ops
}

// fixed history: series that are created right before a flush (their index entry is durable only through the index
// flush of that memtable flush) - crash points after the log removal must still find them
func newSeriesBeforeFlush() (int, int, int, []Op) {
	ops := []Op{
		{K: "W", Rows: []tsdrv.Row{{S: 0, T: 1, F: []tsdrv.FV{{F: 0, V: 10}}}}}, {K: "F"},
		{K: "W", Rows: []tsdrv.Row{{S: 1, T: 2, F: []tsdrv.FV{{F: 0, V: 11}, {F: 1, V: 11}}}}}, {K: "F"},
		{K: "W", Rows: []tsdrv.Row{{S: 2, T: 3, F: []tsdrv.FV{{F: 0, V: 12}}}, {S: 0, T: 3, F: []tsdrv.FV{{F: 0, V: 13}}}}},
		{K: "FB"}, {K: "W", Rows: []tsdrv.Row{{S: 3, T: 4, F: []tsdrv.FV{{F: 0, V: 14}}}}}, {K: "FE"},
		{K: "W", Rows: []tsdrv.Row{{S: 1, T: 5, F: []tsdrv.FV{{F: 0, V: 15}}}}},
	}
	return 4, 2, 0, ops
}

// fixed history: DROP MEASUREMENT between flushed and unflushed data, later writes to the same name are fresh
func dropHistory() (int, int, int, []Op) {
	ops := []Op{
		{K: "W", Rows: []tsdrv.Row{{S: 0, T: 1, F: []tsdrv.FV{{F: 0, V: 20}}}, {S: 1, T: 1, F: []tsdrv.FV{{F: 0, V: 21}}}}}, {K: "F"},
		{K: "W", Rows: []tsdrv.Row{{S: 0, T: 2, F: []tsdrv.FV{{F: 0, V: 22}, {F: 1, V: 22}}}}},
		{K: "W", Rows: []tsdrv.Row{{S: 1, T: 0, F: []tsdrv.FV{{F: 0, V: 23}}}}},
		{K: "D"},
		{K: "W", Rows: []tsdrv.Row{{S: 0, T: 2, F: []tsdrv.FV{{F: 1, V: 24}}}}},
		{K: "F"},
		{K: "W", Rows: []tsdrv.Row{{S: 1, T: 1, F: []tsdrv.FV{{F: 1, V: 25}}}}},
		{K: "D"},
		{K: "W", Rows: []tsdrv.Row{{S: 1, T: 3, F: []tsdrv.FV{{F: 0, V: 26}}}}},
	}
	return 2, 2, 0, ops
}

// ---- run ----

type pending struct {
	dir      string
	img      Image
	wal      map[string][]int // rel wal path -> write-op indexes of complete records
	walEpoch map[string]int
}

func allFields() []int { return []int{0, 1, 2, 3} }

var tmpName = regexp.MustCompile(`\.tmp\.\d+$`)

func copyWal(m map[string][]int) map[string][]int {
	out := map[string][]int{}
	for k, v := range m {
		out[k] = append([]int(nil), v...)
	}
	return out
}

// abstract WAL of an image directory: per partition the records of the files still present, oldest file first
func partsOf(imgDir string, nwal int, wal map[string][]int, walEpoch map[string]int) (parts, epochs [][]int) {
	parts = make([][]int, nwal)
	epochs = make([][]int, nwal)
	for p := 0; p < nwal; p++ {
		parts[p], epochs[p] = []int{}, []int{}
		es, err := os.ReadDir(filepath.Join(imgDir, "wal", strconv.Itoa(p)))
		if err != nil {
			continue
		}
		type fe struct {
			seq int
			rel string
		}
		var fl []fe
		for _, e := range es {
			n, err := strconv.Atoi(strings.TrimSuffix(e.Name(), ".wal"))
			if err != nil {
				continue
			}
			fl = append(fl, fe{n, filepath.Join("wal", strconv.Itoa(p), e.Name())})
		}
		sort.Slice(fl, func(i, j int) bool { return fl[i].seq < fl[j].seq })
		for _, f := range fl {
			for _, w := range wal[f.rel] {
				parts[p] = append(parts[p], w)
				epochs[p] = append(epochs[p], walEpoch[f.rel])
			}
		}
	}
	return
}

func runHistory(idx int, work string, nser, nwal, pre int, auto, async bool, ops []Op, r *gen.Rand, rec *crashfs.Recorder, quick bool) (h History) {
	dense := idx > 100000 // the fixed histories: every first-level crash point, sampled second-level ones
	h = History{Case: idx, NWal: nwal, NSer: nser, Ops: ops, Pre: pre, Auto: auto, Async: async, Images: []Image{}}
	base := filepath.Join(work, "c01", strconv.Itoa(idx))
	dir := filepath.Join(base, "live")
	_ = os.RemoveAll(base)
	defer os.RemoveAll(base)
	defer func() {
		if e := recover(); e != nil {
			rec.Stop()
			h.Crash = fmt.Sprint("panic: ", e)
			if os.Getenv("VERIF_DEBUG") != "" {
				fmt.Fprintf(os.Stderr, "PANIC %v\n%s\n", e, debug.Stack())
			}
		}
	}()
	tsdrv.SetWalPartitions(nwal)
	if auto {
		config.SetShardMemTableSizeLimit(1)
		defer config.SetShardMemTableSizeLimit(30 * 1024 * 1024)
	}
	sh, err := tsdrv.Open(dir, nser)
	if err != nil {
		h.Crash = "open: " + err.Error()
		return
	}
	closed := false
	defer func() {
		if !closed {
			_ = sh.Close()
		}
	}()
	// flags
	lastEpoch := map[tsdrv.Key]int{}
	flushedMax := map[int]int{}
	memMax := map[int]int{}
	epoch := 0

	var pend []pending
	nimg := 0
	capImg := 14
	if dense {
		capImg = 36
	}
	if !quick {
		capImg = 400
	}
	wal := map[string][]int{}
	walEpoch := map[string]int{}
	txnData := map[string][]byte{} // contents of the index transaction files written so far (rel path -> bytes)
	txnFinal := map[string][]byte{}
	var txnOrder []string
	cur, acked := 0, 0
	inWrite := false
	paused := false
	rel := func(p string) string { x, _ := filepath.Rel(dir, p); return x }
	isWal := func(p string) bool { return strings.HasPrefix(rel(p), "wal"+string(os.PathSeparator)) }
	take := func(at string, inflight, torn int, ev *crashfs.Event, force bool) {
		if cur < pre || (!force && len(pend) >= capImg) {
			return
		}
		d := filepath.Join(base, fmt.Sprintf("img%d", nimg))
		nimg++
		if err := crashfs.CopyTree(dir, d); err != nil {
			panic(err)
		}
		if torn >= 0 {
			if err := crashfs.ApplyTorn(dir, d, ev, torn); err != nil {
				panic(err)
			}
		}
		pend = append(pend, pending{dir: d, wal: copyWal(wal), walEpoch: walEpoch,
			img: Image{At: at, Op: cur, Acked: acked, Inflight: inflight, Torn: torn, Sub: -1}})
	}
	// sampling of crash points in the quick tier (every eligible point in thorough)
	ch := func(num, den int) bool { return !quick || dense || r.Chance(num, den) }
	isIndex := func(p string) bool { return strings.Contains(rel(p), "index"+string(os.PathSeparator)) }
	walDone := false // the WAL record of the write in flight is completely on disk
	inDrop := false
	infl := func() int {
		if inWrite || inDrop {
			return cur
		}
		return -1
	}
	// one write op per history always gets the header-only torn image (5 bytes = type + length, no payload)
	var wops []int
	for i := range ops {
		if ops[i].K == "W" && i > 0 {
			wops = append(wops, i)
		}
	}
	hdrOp := map[int]bool{} // up to 4 write ops per history (all in thorough)
	for i := 0; i < 4 && len(wops) > 0; i++ {
		hdrOp[wops[r.Intn(len(wops))]] = true
	}
	if !quick {
		for _, w := range wops {
			hdrOp[w] = true
		}
	}
	rec.Start(dir, func(ev *crashfs.Event) {
		if ev.Kind == "write" && isWal(ev.Path) && inWrite && hdrOp[cur] && len(ev.Data) > 5 {
			take(fmt.Sprintf("torn wal append %d/%d", 5, len(ev.Data)), cur, 5, ev, true)
		}
		if ev.Kind == "write" && isWal(ev.Path) && inWrite && ch(1, 4) {
			n := len(ev.Data)
			cuts := []int{r.Intn(n)}
			if ch(1, 3) {
				cuts = append(cuts, n-1, 0, 4, 5)
			}
			for _, k := range cuts {
				if k >= 0 && k < n {
					take(fmt.Sprintf("torn wal append %d/%d", k, n), cur, k, ev, false)
				}
			}
		}
	}, func(ev *crashfs.Event) {
		rp := rel(ev.Path)
		txnSeg := "mergeset" + string(os.PathSeparator) + "txn" + string(os.PathSeparator)
		if ev.Kind == "rename" && strings.Contains(rel(ev.Path2), txnSeg) {
			// transaction files are written under a temporary name and renamed into place
			if d, ok := txnData[rp]; ok {
				txnFinal[rel(ev.Path2)] = d
				txnOrder = append(txnOrder, rel(ev.Path2))
			}
		}
		switch {
		case ev.Kind == "write" && isWal(ev.Path):
			if inWrite {
				wal[rp] = append(wal[rp], cur)
				walEpoch[rp] = epoch
				walDone = true
				if ch(1, 4) {
					take("wal append complete, not yet acknowledged", cur, -1, nil, false)
				}
			}
		case ev.Kind == "remove" && isWal(ev.Path):
			delete(wal, rp)
			if ch(1, 2) {
				take("flush: removed "+rp, infl(), -1, nil, false)
			}
		case ev.Kind == "sync" && isWal(ev.Path):
			// periodic/explicit syncs of log files change nothing under process-kill semantics
		case isIndex(ev.Path):
			if ev.Kind == "write" && strings.Contains(rp, "mergeset"+string(os.PathSeparator)+"txn"+string(os.PathSeparator)) {
				txnData[rp] = append(txnData[rp], ev.Data...)
			}
			if ch(1, 12) {
				take("index: after "+ev.Kind+" "+filepath.Base(ev.Path), infl(), -1, nil, false)
			}
		case ev.Kind == "write":
			if ch(1, 10) {
				take("flush: data write "+filepath.Base(ev.Path), infl(), -1, nil, false)
			}
		default:
			if ch(1, 2) {
				take("after "+ev.Kind+" "+rp, infl(), -1, nil, false)
			}
		}
	})
	_ = walDone
	for i := range ops {
		cur = i
		op := &ops[i]
		switch op.K {
		case "W":
			for _, rw := range op.Rows {
				if ft, ok := flushedMax[rw.S]; ok && rw.T <= ft {
					h.Flags.Late = true
				}
				if len(rw.F) < 2 {
					h.Flags.Partial = true
				}
				for _, fv := range rw.F {
					k := tsdrv.Key{S: rw.S, T: rw.T, F: fv.F}
					if e0, ok := lastEpoch[k]; ok {
						h.Flags.Overwrite = true
						if e0 == epoch {
							h.Flags.SameEpochOver = true
						}
					}
					lastEpoch[k] = epoch
				}
				if t, ok := memMax[rw.S]; !ok || rw.T > t {
					memMax[rw.S] = rw.T
				}
			}
			inWrite = true
			err := writeRows(sh, op.Rows)
			inWrite = false
			if err != nil {
				rec.Stop()
				h.Crash = fmt.Sprintf("write op %d: %v", i, err)
				return
			}
			acked = i + 1
			if auto && r.Chance(1, 3) {
				time.Sleep(110 * time.Millisecond) // let the snapshot timer see the (over-full) memtable
			}
			if ch(1, 3) || i == len(ops)-1 || (paused && i >= pre) {
				cur = i + 1
				rec.Locked(func() { take("after acknowledgement of op "+strconv.Itoa(i), -1, -1, nil, i == len(ops)-1 || paused) })
			}
		case "D":
			if paused {
				sh.V.FinishPausedFlush()
				paused = false
			}
			inDrop = true
			err := sh.V.VerifDropMeasurement(tsdrv.Mst)
			inDrop = false
			if err != nil {
				rec.Stop()
				h.Crash = fmt.Sprintf("drop op %d: %v", i, err)
				return
			}
			acked = i + 1
			epoch++
			h.Flags.Drops++
			lastEpoch = map[tsdrv.Key]int{}
			cur = i + 1
			rec.Locked(func() { take("after acknowledgement of drop op "+strconv.Itoa(i), -1, -1, nil, true) })
		case "FB":
			if sh.V.BeginPausedFlush() {
				paused = true
				epoch++
			}
			acked = i + 1
		case "FE", "F":
			if op.K == "FE" {
				if !paused {
					acked = i + 1
					continue
				}
				sh.V.FinishPausedFlush()
				paused = false
			} else {
				if paused {
					sh.V.FinishPausedFlush()
					paused = false
				}
				sh.V.ForceFlush()
				epoch++
			}
			acked = i + 1
			h.Flags.Flushes++
			for s, t := range memMax {
				if ft, ok := flushedMax[s]; !ok || t > ft {
					flushedMax[s] = t
				}
			}
			memMax = map[int]int{}
		}
	}
	if paused {
		sh.V.FinishPausedFlush()
	}
	// corpus-like image: the last two index transactions are still pending (their files are removed asynchronously,
	// after the parts they replaced are gone): the final state plus the two transaction files as they were written
	if len(txnOrder) >= 2 {
		cur = len(ops)
		rec.Locked(func() {
			take("planted: final state with the last two index transaction files not yet removed", -1, -1, nil, true)
			d := pend[len(pend)-1].dir
			for _, rp := range txnOrder[len(txnOrder)-2:] {
				p := filepath.Join(d, rp)
				_ = os.MkdirAll(filepath.Dir(p), 0750)
				if _, err := os.Stat(p); err != nil {
					_ = os.WriteFile(p, txnFinal[rp], 0600)
				}
			}
		})
	}
	rec.Stop()
	_ = sh.Close()
	closed = true

	// ---- reopen every image with the real code ----
	q := tsdrv.Query{Fields: allFields(), Tmin: 0, Tmax: NT - 1, Asc: true, Parallel: 1}
	expect := func(a, inflight int) *tsdrv.LWW {
		l := tsdrv.NewLWW()
		for i := 0; i < a; i++ {
			if ops[i].K == "W" {
				l.Apply(ops[i].Rows)
			}
			if ops[i].K == "D" {
				l = tsdrv.NewLWW() // an acknowledged drop: nothing written before may come back
			}
		}
		if inflight >= 0 {
			if ops[inflight].K == "D" {
				l = tsdrv.NewLWW()
			} else {
				l.Apply(ops[inflight].Rows)
			}
		}
		return l
	}
	var subNo []int
	check := func(im *Image, d string, record bool) (subs []string) {
		subNo = subNo[:0]
		im.Parts, im.Epochs = nil, nil
		// the image is restored at the path of the live shard (the index keeps absolute paths in its transaction files)
		_ = os.RemoveAll(dir)
		if err := os.Rename(d, dir); err != nil {
			panic(err)
		}
		im.Txn = 0
		if es, err := os.ReadDir(filepath.Join(dir, "db0", "index", "data", "mergeset", "txn")); err == nil {
			for _, e := range es {
				if !tmpName.MatchString(e.Name()) {
					im.Txn++
				}
			}
		}
		if record {
			nsub := 0
			rec.Start(dir, nil, func(ev *crashfs.Event) {
				if ev.Kind == "write" || ev.Kind == "sync" {
					return
				}
				nsub++
				if quick && !(isIndex(ev.Path) && r.Chance(1, 20)) && !(!isIndex(ev.Path) && r.Chance(1, 5)) {
					return
				}
				sd := filepath.Join(base, fmt.Sprintf("sub%d", nimg))
				nimg++
				if err := crashfs.CopyTree(dir, sd); err != nil {
					panic(err)
				}
				subs = append(subs, sd)
				subNo = append(subNo, nsub)
			})
		}
		s2, err := tsdrv.Open(dir, nser)
		if record {
			rec.Stop()
		}
		if err != nil {
			im.Err = "open after crash failed: " + err.Error()
			return
		}
		dump, err := s2.Dump(q)
		_ = s2.Close()
		if err != nil {
			im.Err = "dump after crash failed: " + err.Error()
			return
		}
		got := map[tsdrv.Key]int64{}
		im.Dump = []Cell{}
		for sr := 0; sr < nser; sr++ {
			for _, rw := range dump[sr] {
				for _, fv := range rw.F {
					got[tsdrv.Key{S: sr, T: rw.T, F: fv.F}] = fv.V
					im.Dump = append(im.Dump, Cell{S: sr, T: rw.T, F: fv.F, Got: fv.V, GOk: true})
				}
			}
		}
		diff := func(l *tsdrv.LWW) []Cell {
			var out []Cell
			for k, v := range l.M {
				g, ok := got[k]
				if !ok || g != v {
					out = append(out, Cell{S: k.S, T: k.T, F: k.F, Want: v, WOk: true, Got: g, GOk: ok})
				}
			}
			for k, g := range got {
				if _, ok := l.M[k]; !ok {
					out = append(out, Cell{S: k.S, T: k.T, F: k.F, Got: g, GOk: true})
				}
			}
			sort.Slice(out, func(i, j int) bool {
				a, b := out[i], out[j]
				if a.S != b.S {
					return a.S < b.S
				}
				if a.T != b.T {
					return a.T < b.T
				}
				return a.F < b.F
			})
			return out
		}
		d1 := diff(expect(im.Acked, -1))
		if len(d1) == 0 {
			im.Match = "acked"
			return
		}
		if im.Inflight >= 0 {
			d2 := diff(expect(im.Acked, im.Inflight))
			if len(d2) == 0 {
				im.Match = "acked+inflight"
				return
			}
			if ops[im.Inflight].K == "D" {
				// a drop that was not acknowledged: any part of the measurement may already be gone, nothing may change
				sub := true
				pre := expect(im.Acked, -1)
				for k, g := range got {
					if v, ok := pre.M[k]; !ok || v != g {
						sub = false
					}
				}
				if sub {
					im.Match = "partial-drop"
					return
				}
			}
			if len(d2) < len(d1) {
				d1 = d2 // report the difference against the closer of the two allowed states
			}
		}
		im.Diff = d1
		return
	}
	for _, p := range pend {
		im := p.img
		parts, epochs := partsOf(p.dir, nwal, p.wal, p.walEpoch)
		subs := check(&im, p.dir, true)
		im.Parts, im.Epochs = parts, epochs
		h.Images = append(h.Images, im)
		nos := append([]int(nil), subNo...)
		for j, sd := range subs {
			sub := p.img
			sub.Sub = nos[j]
			sp, se := partsOf(sd, nwal, p.wal, p.walEpoch)
			check(&sub, sd, false)
			sub.Parts, sub.Epochs = sp, se
			h.Images = append(h.Images, sub)
			os.RemoveAll(sd)
		}
		os.RemoveAll(p.dir)
	}
	return
}

func main() {
	flag.Parse() // the lifted VictoriaMetrics memory package insists on it
	args := flag.Args()
	n := 20
	if len(args) > 0 {
		n, _ = strconv.Atoi(args[0])
	}
	quick := gen.Tier() != "thorough"
	work := os.Getenv("VERIF_WORK")
	if work == "" {
		work = filepath.Join(os.TempDir(), "verif-c01")
	}
	if err := tsdrv.Init(work); err != nil {
		fmt.Fprintln(os.Stderr, "init:", err)
		os.Exit(2)
	}
	rec := crashfs.Install()
	defer rec.Uninstall()
	enc := json.NewEncoder(os.Stdout)
	if len(args) > 1 { // replay: a file holding one History
		b, err := os.ReadFile(args[1])
		if err != nil {
			fmt.Fprintln(os.Stderr, err)
			os.Exit(2)
		}
		var h History
		if err := json.Unmarshal(b, &h); err != nil {
			fmt.Fprintln(os.Stderr, err)
			os.Exit(2)
		}
		_ = enc.Encode(runHistory(h.Case, work, h.NSer, h.NWal, h.Pre, h.Auto, h.Async, h.Ops, gen.FromEnv(1001), rec, false))
		fmt.Fprintln(os.Stderr, "c01 done")
		return
	}
	// the witness first
	ns, nw, ops := witness()
	_ = enc.Encode(runHistory(100000, work, ns, nw, 0, false, false, ops, gen.FromEnv(1001), rec, quick))
	ns, nw, pre, ops := aged8()
	_ = enc.Encode(runHistory(100001, work, ns, nw, pre, false, false, ops, gen.FromEnv(1002), rec, quick))
	ns, nw, pre, ops = newSeriesBeforeFlush()
	_ = enc.Encode(runHistory(100002, work, ns, nw, pre, false, false, ops, gen.FromEnv(1003), rec, quick))
	ns, nw, pre, ops = dropHistory()
	_ = enc.Encode(runHistory(100003, work, ns, nw, pre, false, false, ops, gen.FromEnv(1004), rec, quick))
	master := gen.FromEnv(1)
	for i := 0; i < n; i++ {
		r := master.Fork()
		nser, nwal, pre, ops := genHistory(r)
		if only := os.Getenv("VERIF_ONLY"); only != "" && only != strconv.Itoa(i) {
			continue
		}
		_ = enc.Encode(runHistory(i, work, nser, nwal, pre, r.Chance(1, 6), false, ops, r.Fork(), rec, quick))
	}
	fmt.Fprintln(os.Stderr, "c01 done")
}
