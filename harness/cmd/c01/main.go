// C01 correspondence harness: generated histories of acknowledged write batches (fresh, out-of-order, overwriting,
// partial-field, one or two measurements), forced / paused / size-triggered flushes and DROP MEASUREMENT are run on a REAL
// shard (engine/verif_export_c02.go, verif_export_c01*.go) with 1/2/3/16 WAL partitions, through the recording VFS
// (internal/crashfs, hook lib/fileops/verif_export_c03.go) and a gate on top of it (gate.go) that can hold the flusher
// in the middle of a memtable flush (before the data-file create / rename / first or second log removal) while more
// writes are acknowledged, and can hold the log replay of a re-opened shard. At file system mutations of the write path
// (WAL append - also torn, every byte prefix for one write per run), of the memtable flush (data-file create/write/sync/
// rename, WAL file removal), of the series index and of log replay itself, a crash image (copy of the shard directory)
// is frozen. Every image is opened with the real code as a NEW shard (WAL replay, force flush, log removal), all rows of
// all measurements are dumped through the real cursors, and the DIRECT ORACLE is applied: the dump equals the Go
// last-write-wins map of the writes acknowledged before the crash (optionally plus the one operation in flight), minus
// acknowledged drops: no loss, no reversion, no resurrection, no invention.
// Asynchronous replay (wal-replay-async): images of "async" histories are opened with the replay held before its first
// log file; a DROP MEASUREMENT is attempted (must be refused and must leave no mark), a write is acknowledged, the
// replay is released, the shard is read, killed, re-opened and read again.
// One JSON object per history; every image carries the abstract WAL contents at the crash (per partition the indexes of
// the write ops whose records are complete), the number of log switches, of completed log removals and the partitions
// already removed from the epoch being removed, so that the driver can run the Coq model on it (live-log tie, current /
// repaired replay order) and classify failures against the known finding.
// A history that makes no progress for a while (watchdog) or whose flush path panics is reported with its ops and the
// images evaluated so far; the run then stops.
//
// usage: c01 <n-histories> [replay-file]
package main

import (
	"encoding/json"
	"flag"
	"fmt"
	"os"
	"path/filepath"
	"regexp"
	"runtime"
	"runtime/debug"
	"sort"
	"strconv"
	"strings"
	"sync"
	"sync/atomic"
	"time"

	"github.com/openGemini/openGemini/lib/config"
	"verifharness/internal/crashfs"
	"verifharness/internal/gen"
	"verifharness/internal/tsdrv"
)

const NT = 10 // timestamps 0..9

type Op struct {
	K    string      `json:"k"` // W F FB FE D(rop measurement)
	Rows []tsdrv.Row `json:"rows,omitempty"`
	M    int         `json:"m,omitempty"` // D: measurement index
	H    int         `json:"h,omitempty"` // W: this request is held at its log append (slot taken, partition lock held, nothing on disk)
	// while the next h write ops are started: the WAL's exclusive section at the head of WAL.Write keeps them from taking a slot
	P    int         `json:"p,omitempty"` // FB: where the flusher is held (0 before the first data-file create, 1 before the first
	// data-file rename, 2 before the first log removal, 3 before the second log removal)
}

type Cell struct {
	S    int   `json:"s"`
	T    int   `json:"t"`
	F    int   `json:"f"`
	Want int64 `json:"want"`
	WOk  bool  `json:"wok"`
	Got  int64 `json:"got"`
	GOk  bool  `json:"gok"`
}

// what happened while the asynchronous replay of an image was held
type AsyncInfo struct {
	WalFiles    int         `json:"walfiles"`  // log files in the image
	Replaying   bool        `json:"replaying"` // shard.replayingWal right after the open, replay held
	DropTried   bool        `json:"drop_tried"`
	DropM       int         `json:"drop_m"`
	DropRefused bool        `json:"drop_refused"`
	MarkAfter   bool        `json:"mark_after"` // the measurement still carries the deleting mark after the drop returned
	Extra       []tsdrv.Row `json:"extra,omitempty"`
	ExtraAcked  bool        `json:"extra_acked"`
	Closed      bool        `json:"closed"` // the shard was closed (clean shutdown) while the replay was held; no live read
	Live        string      `json:"live"` // oracle verdict on the dump of the live shard after the replay finished
	LiveDiff    []Cell      `json:"live_diff,omitempty"`
}

type Image struct {
	At       string     `json:"at"`       // description of the crash point
	Op       int        `json:"op"`       // index of the op during which the crash happens (len(ops) = after the last op)
	Acked    int        `json:"acked"`    // ops[0:acked] were acknowledged before the crash
	Inflight int        `json:"inflight"` // op in flight (-1 none)
	Torn     int        `json:"torn"`     // bytes of the in-flight WAL record on disk (-1: not a torn image)
	Sub      int        `json:"sub"`      // second crash after this many mutations of the recovery pass (-1 none)
	Parts    [][]int    `json:"parts"`    // live WAL: per partition, write-op indexes of the complete records, oldest first
	Epochs   [][]int    `json:"epochs"`   // same shape: flush generation (epoch) of each record
	NRec     int        `json:"nrec"`     // write ops whose log record is completely on disk
	NSw      int        `json:"nsw"`      // log switches so far
	NJ       int        `json:"nj"`       // flushes whose log removal is complete
	Gone     []int      `json:"gone"`     // partitions whose file of epoch NJ has been removed already
	Tie      bool       `json:"tie"`      // the live-log tie applies
	Missing  []int      `json:"missing"`  // write ops that hold a WAL slot but whose record is not on disk yet (a held writer)
	Dump     []Cell     `json:"dump"`     // recovered cells (Got) - all series, all fields, full range
	Match    string     `json:"match"`    // "acked", "acked+inflight", "partial-drop" or "" (oracle failed)
	Diff     []Cell     `json:"diff,omitempty"`
	Err      string     `json:"err,omitempty"`
	Async    *AsyncInfo `json:"async,omitempty"`
	Txn      int        `json:"txn"` // pending (non-temporary) transaction files of the series index in the image
	WalBytes []WalFile  `json:"walbytes,omitempty"` // raw log files of the image (sampled) for the framing tie
}

// one log file of a crash image: its bytes, the number of records completely appended to it and the bytes of a torn
// append at its end
type WalFile struct {
	Rel  string `json:"rel"`
	Hex  string `json:"hex"`
	NRec int    `json:"nrec"`
	Torn int    `json:"torn"`
}

type History struct {
	Case   int     `json:"case"`
	NWal   int     `json:"nwal"`
	NSer   int     `json:"nser"`
	NMst   int     `json:"nmst"`
	Ops    []Op    `json:"ops"`
	Auto   bool    `json:"auto"`  // size-triggered (automatic) flushes: memtable limit of 1 byte, 100 ms snapshot timer
	Async  bool    `json:"async"` // crash images are opened with wal-replay-async = true (see AsyncInfo)
	Par    bool    `json:"par"`   // crash images are opened with wal-replay-parallel = true (every partition re-applied by its own goroutine)
	Pre    int     `json:"pre"`   // leading warm-up ops (write+flush rounds that age the shard); no crash images there
	Images []Image `json:"images"`
	Crash  string  `json:"crash,omitempty"`
	TieErr string  `json:"tie_err,omitempty"` // the flush removed a log file the model's flush may not remove (or left one)
	Flags  Flags   `json:"flags"`
}

type Flags struct {
	Overwrite     bool `json:"overwrite"`       // some (series,time,field) written twice
	SameEpochOver bool `json:"same_epoch_over"` // ... twice within one WAL epoch
	Late          bool `json:"late"`            // a row at or below already flushed time of its series
	Partial       bool `json:"partial"`
	Flushes       int  `json:"flushes"`
	Drops         int  `json:"drops"`
	PausedWrites  int  `json:"paused_writes"` // writes acknowledged while a flush was held
	TornAll       int  `json:"torn_all"`      // images of the every-byte-prefix sweep
	HeldWriters   int  `json:"held_writers"`  // write requests held at their log append while later ones were started
}

// ---- generation ----

type spec struct {
	nser, nwal, nmst, pre int
	auto, async, par      bool
	tornAll               int // index of the write op that gets an image for every byte prefix of its log record (-1 none)
	ops                   []Op
}

func genHistory(r *gen.Rand) (sp spec) {
	sp.tornAll = -1
	sp.nser = r.Range(1, 5)
	sp.nwal = gen.Pick(r, []int{1, 2, 3, 16, 16})
	sp.nmst = 1
	if sp.nser >= 2 && r.Chance(1, 3) {
		sp.nmst = 2
	}
	var ops []Op
	now := 2
	val := int64(1)
	n := r.Range(4, 26)
	active := 1 // series introduced so far: new series keep appearing during the history, often right before a flush
	mkRowS := func(s int) tsdrv.Row {
		var t int
		switch r.Intn(6) {
		case 0, 1:
			t = now
			if r.Chance(1, 2) && now < NT-1 {
				now++
			}
		case 2:
			t = r.Intn(NT) // anywhere: out-of-order or overwrite
		default:
			t = r.Range(max(0, now-2), now) // recent: overwrites
		}
		row := tsdrv.Row{S: s, T: t}
		for f := 0; f < 2; f++ { // int and float fields carry values that identify the write
			if r.Chance(2, 3) {
				row.F = append(row.F, tsdrv.FV{F: f, V: val})
			}
		}
		if r.Chance(1, 5) {
			row.F = append(row.F, tsdrv.FV{F: 3, V: int64(r.Intn(len(tsdrv.StrPool)))})
		}
		if len(row.F) == 0 {
			row.F = []tsdrv.FV{{F: 0, V: val}}
		}
		val++
		return row
	}
	mkRow := func() tsdrv.Row {
		if active < sp.nser && r.Chance(1, 8) {
			active++
			return mkRowS(active - 1)
		}
		return mkRowS(r.Intn(active))
	}
	newSeries := func() { // a write that creates a brand-new series (its index entry is not durable yet)
		if active < sp.nser && r.Chance(2, 3) {
			active++
			ops = append(ops, Op{K: "W", Rows: []tsdrv.Row{mkRowS(active - 1)}})
		}
	}
	pausePoint := func() int { return gen.Pick(r, []int{0, 0, 1, 2, 2, 3}) }
	// a minority of histories start on an aged shard: k cheap write+flush rounds first, so that the WAL file numbers
	// reach / cross a power of ten (9.wal -> 10.wal, 99.wal -> 100.wal); one partition, so every round advances the number
	if r.Chance(1, 5) {
		sp.nwal = gen.Pick(r, []int{1, 1, 1, 2})
		k := gen.Pick(r, []int{8, 8, 9, 10, 11})
		if r.Chance(1, 4) {
			k = gen.Pick(r, []int{98, 98, 99, 100})
		}
		if sp.nwal == 2 {
			k *= 2
		}
		for i := 0; i < k; i++ {
			ops = append(ops, Op{K: "W", Rows: []tsdrv.Row{{S: 0, T: i % NT, F: []tsdrv.FV{{F: 0, V: val}}}}}, Op{K: "F"})
			val++
		}
		sp.pre = len(ops)
		n += sp.pre
		// an overwrite that spans the log switch of a paused flush: older value in file k+1, newer in file k+2
		s, t := 0, r.Intn(NT)
		ops = append(ops, Op{K: "W", Rows: []tsdrv.Row{{S: s, T: t, F: []tsdrv.FV{{F: 0, V: val}}}}})
		val++
		ops = append(ops, Op{K: "FB", P: pausePoint()})
		for i := 0; i < sp.nwal; i++ {
			ops = append(ops, Op{K: "W", Rows: []tsdrv.Row{{S: s, T: t, F: []tsdrv.FV{{F: 0, V: val}}}}})
			val++
		}
		newSeries()
		ops = append(ops, Op{K: "FE"})
	}
	for len(ops) < n {
		if r.Chance(1, 14) && len(ops) > 2 {
			ops = append(ops, Op{K: "D", M: r.Intn(sp.nmst)}) // DROP MEASUREMENT: everything written to it so far must stay gone
			continue
		}
		switch k := r.Intn(10); {
		case k < 7 && r.Chance(1, 7):
			// a request held at its log append while 1..3 later requests are started (they must wait for it)
			nb := r.Range(1, 3)
			first := len(ops)
			for i := 0; i <= nb; i++ {
				ops = append(ops, Op{K: "W", Rows: []tsdrv.Row{mkRow()}})
			}
			ops[first].H = nb
		case k < 7:
			nb := 1
			if r.Chance(1, 4) {
				nb = r.Range(2, 4)
			}
			var rows []tsdrv.Row
			seen := map[[2]int]bool{}
			for i := 0; i < nb; i++ {
				rw := mkRow()
				if seen[[2]int{rw.S, rw.T}] {
					continue // one row per (series,time) in a batch: in-batch order is C02's subject
				}
				seen[[2]int{rw.S, rw.T}] = true
				rows = append(rows, rw)
			}
			ops = append(ops, Op{K: "W", Rows: rows})
		case k < 9:
			newSeries()
			if r.Chance(1, 2) {
				// a flush that is held in the middle (after the log switch / memtable swap) while more writes are
				// acknowledged: two WAL epochs are live until the flush finishes; the number of writes reaches the
				// partition count now and then, so that the round-robin comes back to every partition
				ops = append(ops, Op{K: "FB", P: pausePoint()})
				s, t := r.Intn(active), r.Range(max(0, now-1), now)
				nw := r.Range(1, 3)
				if r.Chance(1, 3) {
					nw = min(sp.nwal, 4) + r.Intn(2)
				}
				for i := 0; i < nw; i++ {
					if r.Chance(1, 2) {
						ops = append(ops, Op{K: "W", Rows: []tsdrv.Row{{S: s, T: t, F: []tsdrv.FV{{F: 0, V: val}}}}})
						val++
					} else {
						ops = append(ops, Op{K: "W", Rows: []tsdrv.Row{mkRow()}})
					}
				}
				ops = append(ops, Op{K: "FE"})
			} else {
				ops = append(ops, Op{K: "F"})
			}
		default:
			// burst of single-point writes (fills WAL partitions unevenly before a switch), flush, overwrites
			m := r.Range(1, 2*sp.nwal)
			if m > 20 {
				m = r.Range(1, 20)
			}
			for i := 0; i < m && len(ops) < n+20; i++ {
				ops = append(ops, Op{K: "W", Rows: []tsdrv.Row{mkRow()}})
			}
			ops = append(ops, Op{K: "F"})
			s, t := r.Intn(active), r.Intn(NT)
			for i := 0; i < r.Range(2, 3); i++ {
				ops = append(ops, Op{K: "W", Rows: []tsdrv.Row{{S: s, T: t, F: []tsdrv.FV{{F: 0, V: val}}}}})
				val++
			}
		}
	}
	sp.ops = ops
	sp.auto = r.Chance(1, 6)
	sp.async = !sp.auto && r.Chance(1, 5)
	sp.par = !sp.auto && !sp.async && sp.nwal >= 2 && r.Chance(1, 8)
	return
}

func w1(s, t int, v int64) Op { return Op{K: "W", Rows: []tsdrv.Row{{S: s, T: t, F: []tsdrv.FV{{F: 0, V: v}}}}} }

// the witness of DESIGN.md: N=16, 15 single-point writes, flush, two writes to one (series,time)
func witness() spec {
	var ops []Op
	for i := 0; i < 15; i++ {
		ops = append(ops, w1(0, i%NT, int64(1000+i)))
	}
	ops = append(ops, Op{K: "F"}, w1(0, 3, 111), w1(0, 3, 222))
	return spec{nser: 1, nwal: 16, nmst: 1, tornAll: -1, ops: ops}
}

// fixed history: a shard aged by 8 write+flush rounds (WAL file numbers reach 9), then an overwrite spanning the log
// switch of a paused flush: the older value sits in 9.wal, the newer one in 10.wal
func aged8() spec {
	var ops []Op
	for i := 0; i < 8; i++ {
		ops = append(ops, w1(0, i, int64(500+i)), Op{K: "F"})
	}
	pre := len(ops)
	ops = append(ops, w1(0, 4, 1), Op{K: "FB"}, w1(0, 4, 2), Op{K: "FE"})
	return spec{nser: 1, nwal: 1, nmst: 1, pre: pre, tornAll: -1, ops: ops}
}

// fixed history: series that are created right before a flush (their index entry is durable only through the index
// flush of that memtable flush) - crash points after the log removal must still find them
func newSeriesBeforeFlush() spec {
	ops := []Op{
		w1(0, 1, 10), {K: "F"},
		{K: "W", Rows: []tsdrv.Row{{S: 1, T: 2, F: []tsdrv.FV{{F: 0, V: 11}, {F: 1, V: 11}}}}}, {K: "F"},
		{K: "W", Rows: []tsdrv.Row{{S: 2, T: 3, F: []tsdrv.FV{{F: 0, V: 12}}}, {S: 0, T: 3, F: []tsdrv.FV{{F: 0, V: 13}}}}},
		{K: "FB"}, w1(3, 4, 14), {K: "FE"},
		w1(1, 5, 15),
	}
	return spec{nser: 4, nwal: 2, nmst: 1, tornAll: -1, ops: ops}
}

// fixed history: DROP MEASUREMENT between flushed and unflushed data, later writes to the same name are fresh; two
// measurements (series 0,2 -> m, series 1 -> m2): the other measurement must be untouched
func dropHistory() spec {
	ops := []Op{
		{K: "W", Rows: []tsdrv.Row{{S: 0, T: 1, F: []tsdrv.FV{{F: 0, V: 20}}}, {S: 1, T: 1, F: []tsdrv.FV{{F: 0, V: 21}}}}}, {K: "F"},
		{K: "W", Rows: []tsdrv.Row{{S: 0, T: 2, F: []tsdrv.FV{{F: 0, V: 22}, {F: 1, V: 22}}}}},
		w1(1, 0, 23),
		{K: "D", M: 0},
		{K: "W", Rows: []tsdrv.Row{{S: 0, T: 2, F: []tsdrv.FV{{F: 1, V: 24}}}}},
		{K: "F"},
		{K: "W", Rows: []tsdrv.Row{{S: 1, T: 1, F: []tsdrv.FV{{F: 1, V: 25}}}}},
		{K: "D", M: 1},
		w1(1, 3, 26), w1(2, 3, 27),
	}
	return spec{nser: 3, nwal: 2, nmst: 2, tornAll: -1, ops: ops}
}

// fixed histories: writes acknowledged while the flusher is held at each of its steps, with 1 partition and with
// several (as many writes as partitions during the hold: the round-robin comes back to the partition written before
// the flush), an overwrite of a flushed-in-progress cell among them, a second flush afterwards, two more writes
func duringFlush(nwal, point int) spec {
	ops := []Op{w1(0, 1, 31), {K: "FB", P: point}}
	for i := 0; i < nwal; i++ {
		ops = append(ops, w1(0, 1+(i%2), int64(32+i)))
	}
	ops = append(ops, w1(1, 2, 60), Op{K: "FE"}, w1(0, 3, 61), Op{K: "F"}, w1(0, 1, 62), w1(1, 2, 63))
	return spec{nser: 2, nwal: nwal, nmst: 1, tornAll: -1, ops: ops}
}

// fixed history: 3 partitions; a request is held at its log append while two more are started (they must wait), an overwrite of
// its cell among them; crash image during the hold and after the group; flush; the same again on one cell
func heldWriterHistory() spec {
	ops := []Op{w1(0, 1, 81),
		{K: "W", H: 2, Rows: []tsdrv.Row{{S: 0, T: 4, F: []tsdrv.FV{{F: 0, V: 82}}}}}, w1(0, 2, 83), w1(0, 4, 84),
		w1(1, 3, 85), {K: "F"},
		{K: "W", H: 1, Rows: []tsdrv.Row{{S: 0, T: 4, F: []tsdrv.FV{{F: 0, V: 86}}}}}, w1(0, 4, 87),
		w1(0, 4, 88)}
	return spec{nser: 2, nwal: 3, nmst: 1, tornAll: -1, ops: ops}
}

// fixed history for parallel replay: 3 partitions, overwrites of one cell that land in different partitions, no flush
func parallelHistory() spec {
	ops := []Op{w1(0, 1, 91), w1(0, 1, 92), w1(0, 2, 93), w1(0, 1, 94), w1(0, 2, 95), w1(1, 1, 96), w1(0, 1, 97)}
	return spec{nser: 2, nwal: 3, nmst: 1, par: true, tornAll: -1, ops: ops}
}

// fixed history: every byte prefix of one log record (the overwrite after a flush), 2 partitions
func tornSweep() spec {
	ops := []Op{w1(0, 1, 41), w1(0, 2, 42), {K: "F"}, w1(0, 1, 43),
		{K: "W", Rows: []tsdrv.Row{{S: 0, T: 1, F: []tsdrv.FV{{F: 0, V: 44}, {F: 1, V: 44}}}}}}
	return spec{nser: 1, nwal: 2, nmst: 1, tornAll: 4, ops: ops}
}

// fixed history for asynchronous replay: two measurements, flushed and unflushed rows of both, the images are opened
// with the replay held, a drop is refused, a write is acknowledged, the replay's own flush runs, kill, re-open
func asyncHistory() spec {
	ops := []Op{
		{K: "W", Rows: []tsdrv.Row{{S: 0, T: 1, F: []tsdrv.FV{{F: 0, V: 70}}}, {S: 1, T: 1, F: []tsdrv.FV{{F: 0, V: 71}}}}}, {K: "F"},
		w1(0, 2, 72), w1(1, 2, 73), w1(0, 1, 74),
		{K: "FB", P: 2}, w1(1, 1, 75), {K: "FE"},
		w1(2, 3, 76),
	}
	return spec{nser: 3, nwal: 2, nmst: 2, async: true, tornAll: -1, ops: ops}
}

// ---- run ----

type pending struct {
	tornRel  string // log file that received the torn append
	dir      string
	img      Image
	wal      map[string][]int // rel wal path -> write-op indexes of complete records
	walEpoch map[string]int
}

var tmpName = regexp.MustCompile(`\.tmp\.\d+$`)

func copyWal(m map[string][]int) map[string][]int {
	out := map[string][]int{}
	for k, v := range m {
		out[k] = append([]int(nil), v...)
	}
	return out
}
func copyEpoch(m map[string]int) map[string]int {
	out := map[string]int{}
	for k, v := range m {
		out[k] = v
	}
	return out
}

// abstract WAL of an image directory: per partition the records of the files still present, oldest file first
func partsOf(imgDir string, nwal int, wal map[string][]int, walEpoch map[string]int) (parts, epochs [][]int, nfiles int) {
	parts = make([][]int, nwal)
	epochs = make([][]int, nwal)
	for p := 0; p < nwal; p++ {
		parts[p], epochs[p] = []int{}, []int{}
		es, err := os.ReadDir(filepath.Join(imgDir, "wal", strconv.Itoa(p)))
		if err != nil {
			continue
		}
		type fe struct {
			seq int
			rel string
		}
		var fl []fe
		for _, e := range es {
			n, err := strconv.Atoi(strings.TrimSuffix(e.Name(), ".wal"))
			if err != nil {
				continue
			}
			nfiles++
			fl = append(fl, fe{n, filepath.Join("wal", strconv.Itoa(p), e.Name())})
		}
		sort.Slice(fl, func(i, j int) bool { return fl[i].seq < fl[j].seq })
		for _, f := range fl {
			for _, w := range wal[f.rel] {
				parts[p] = append(parts[p], w)
				epochs[p] = append(epochs[p], walEpoch[f.rel])
			}
		}
	}
	return
}

// the raw log files of an image directory (framing tie); files above 4 KiB are left out
func walBytes(imgDir string, nwal int, wal map[string][]int, tornRel string, torn int) []WalFile {
	var out []WalFile
	for p := 0; p < nwal; p++ {
		d := filepath.Join(imgDir, "wal", strconv.Itoa(p))
		es, err := os.ReadDir(d)
		if err != nil {
			continue
		}
		for _, e := range es {
			b, err := os.ReadFile(filepath.Join(d, e.Name()))
			if err != nil || len(b) > 4096 {
				continue
			}
			rp := filepath.Join("wal", strconv.Itoa(p), e.Name())
			wf := WalFile{Rel: rp, Hex: fmt.Sprintf("%x", b), NRec: len(wal[rp])}
			if rp == tornRel {
				wf.Torn = torn
			}
			out = append(out, wf)
		}
	}
	return out
}

// progress of the running history, read by the watchdog
var (
	progress atomic.Int64
	phase    atomic.Value // string
)

func tick(what string) {
	progress.Add(1)
	phase.Store(what)
}

type runner struct {
	g     *gate
	rec   *crashfs.Recorder
	work  string
	quick bool
	hmu   sync.Mutex // guards the History being built (the watchdog copies it)
	cur   *History
}

// run f in a goroutine, give up after d (the goroutine is left behind)
func withTimeout(d time.Duration, f func()) bool {
	done := make(chan struct{})
	go func() {
		defer func() { _ = recover(); close(done) }()
		f()
	}()
	select {
	case <-done:
		return true
	case <-time.After(d):
		return false
	}
}

func (rn *runner) runHistory(idx int, sp spec, r *gen.Rand) *History {
	quick, rec, g := rn.quick, rn.rec, rn.g
	ops, nser, nwal, nmst, pre := sp.ops, sp.nser, sp.nwal, max(sp.nmst, 1), sp.pre
	dense := idx > 100000 // the fixed histories: every first-level crash point, sampled second-level ones
	h := &History{Case: idx, NWal: nwal, NSer: nser, NMst: nmst, Ops: ops, Pre: pre, Auto: sp.auto, Async: sp.async, Par: sp.par, Images: []Image{}}
	rn.hmu.Lock()
	rn.cur = h
	rn.hmu.Unlock()
	base := filepath.Join(rn.work, "c01", strconv.Itoa(idx))
	dir := filepath.Join(base, "live")
	_ = os.RemoveAll(base)
	defer os.RemoveAll(base)
	tsdrv.SetWalPartitions(nwal)
	if sp.auto {
		config.SetShardMemTableSizeLimit(1)
		defer config.SetShardMemTableSizeLimit(30 * 1024 * 1024)
	}
	tick("open")
	sh, err := openShard(dir, false)
	if err != nil {
		h.Crash = "open: " + err.Error()
		return h
	}
	// flags
	lastEpoch := map[tsdrv.Key]int{}
	flushedMax := map[int]int{}
	memMax := map[int]int{}
	epoch := 0 // log switches so far
	nj := 0    // flushes whose log removal is complete
	var gone []int
	nrec := 0

	var pend []pending
	nimg := 0
	capImg := 14
	if dense {
		capImg = 30
	}
	if !quick {
		capImg = 150
	}
	wal := map[string][]int{}
	walEpoch := map[string]int{}
	txnData := map[string][]byte{} // contents of the index transaction files written so far (rel path -> bytes)
	txnFinal := map[string][]byte{}
	var txnOrder []string
	cur, acked := 0, 0
	inWrite := false
	inFlush := false // a flush (forced, held, the one of a drop) is between its log switch and its completion
	rel := func(p string) string { x, _ := filepath.Rel(dir, p); return x }
	sep := string(os.PathSeparator)
	isWal := func(p string) bool { return strings.HasPrefix(rel(p), "wal"+sep) }
	isData := func(p string) bool { return strings.HasPrefix(rel(p), "data"+sep) }
	isIndex := func(p string) bool { return strings.Contains(rel(p), "index"+sep) }
	partOf := func(rp string) int {
		f := strings.Split(rp, sep)
		if len(f) >= 3 {
			if n, err := strconv.Atoi(f[1]); err == nil {
				return n
			}
		}
		return -1
	}
	heldIdx := -1     // a writer that has taken its slot and is held at its log append
	var walQueue []int // inside a held-writer group: the write ops whose log appends will come next, in order
	inGroup := false
	missingNow := func() []int {
		if heldIdx >= 0 {
			return []int{heldIdx}
		}
		return []int{}
	}
	take := func(at string, inflight, torn int, ev *crashfs.Event, force bool) {
		if inGroup && !strings.HasPrefix(at, "held writer") {
			return
		}
		if cur < pre || (!force && len(pend) >= capImg) {
			return
		}
		d := filepath.Join(base, fmt.Sprintf("img%d", nimg))
		nimg++
		if err := crashfs.CopyTree(dir, d); err != nil {
			panic(err)
		}
		if torn >= 0 {
			if err := crashfs.ApplyTorn(dir, d, ev, torn); err != nil {
				panic(err)
			}
		}
		tr := ""
		if torn >= 0 && ev != nil {
			tr = rel(ev.Path)
		}
		pend = append(pend, pending{dir: d, tornRel: tr, wal: copyWal(wal), walEpoch: copyEpoch(walEpoch),
			img: Image{At: at, Op: cur, Acked: acked, Inflight: inflight, Torn: torn, Sub: -1, NRec: nrec, NSw: epoch, NJ: nj,
				Gone: append([]int{}, gone...), Tie: !sp.auto, Missing: missingNow()}})
	}
	// sampling of crash points in the quick tier (every eligible point in thorough)
	ch := func(num, den int) bool { return !quick || dense || r.Chance(num, den) }
	inDrop := false
	infl := func() int {
		if inWrite || inDrop {
			return cur
		}
		return -1
	}
	tieErr := func(s string) {
		if h.TieErr == "" && !sp.auto {
			h.TieErr = s
		}
	}
	// one write op per history always gets the header-only torn image (5 bytes = type + length, no payload)
	var wops []int
	for i := range ops {
		if ops[i].K == "W" && i > 0 {
			wops = append(wops, i)
		}
	}
	hdrOp := map[int]bool{} // up to 4 write ops per history (all in thorough)
	for i := 0; i < 4 && len(wops) > 0; i++ {
		hdrOp[wops[r.Intn(len(wops))]] = true
	}
	if !quick {
		for _, w := range wops {
			hdrOp[w] = true
		}
	}
	rec.Start(dir, func(ev *crashfs.Event) {
		if ev.Kind == "write" && isWal(ev.Path) && inWrite && cur == sp.tornAll {
			for k := 0; k < len(ev.Data); k++ {
				take(fmt.Sprintf("torn wal append %d/%d", k, len(ev.Data)), cur, k, ev, true)
				h.Flags.TornAll++
			}
			return
		}
		if ev.Kind == "write" && isWal(ev.Path) && inWrite && hdrOp[cur] && len(ev.Data) > 5 {
			take(fmt.Sprintf("torn wal append %d/%d", 5, len(ev.Data)), cur, 5, ev, true)
		}
		if ev.Kind == "write" && isWal(ev.Path) && inWrite && ch(1, 4) {
			n := len(ev.Data)
			cuts := []int{r.Intn(n)}
			if ch(1, 3) {
				cuts = append(cuts, n-1, 0, 4, 5)
			}
			for _, k := range cuts {
				if k >= 0 && k < n {
					take(fmt.Sprintf("torn wal append %d/%d", k, n), cur, k, ev, false)
				}
			}
		}
	}, func(ev *crashfs.Event) {
		rp := rel(ev.Path)
		txnSeg := "mergeset" + sep + "txn" + sep
		if ev.Kind == "rename" && strings.Contains(rel(ev.Path2), txnSeg) {
			// transaction files are written under a temporary name and renamed into place
			if d, ok := txnData[rp]; ok {
				txnFinal[rel(ev.Path2)] = d
				txnOrder = append(txnOrder, rel(ev.Path2))
			}
		}
		switch {
		case ev.Kind == "write" && isWal(ev.Path):
			if inWrite {
				wop := cur
				if len(walQueue) > 0 {
					wop, walQueue = walQueue[0], walQueue[1:]
				}
				wal[rp] = append(wal[rp], wop)
				walEpoch[rp] = epoch
				nrec++
				if heldIdx == wop {
					heldIdx = -1 // the held writer's record is on disk now
				}
				if ch(1, 4) {
					take("wal append complete, not yet acknowledged", cur, -1, nil, false)
				}
			}
		case ev.Kind == "remove" && isWal(ev.Path):
			// the flush of epoch nj may remove exactly the log files of epoch nj (model: WRemove, nj < nf)
			if e, ok := walEpoch[rp]; !ok {
				tieErr("a log file without a known record was removed: " + rp)
			} else if !inFlush || e != nj {
				tieErr(fmt.Sprintf("op %d: log file %s holding records of switch epoch %d was removed while the flush of epoch %d %s", cur, rp, e, nj,
					map[bool]string{true: "is running", false: "is not running"}[inFlush]))
			}
			delete(wal, rp)
			delete(walEpoch, rp)
			gone = append(gone, partOf(rp))
			if ch(1, 2) {
				take("flush: removed "+rp, infl(), -1, nil, false)
			}
		case ev.Kind == "sync" && isWal(ev.Path):
			// periodic/explicit syncs of log files change nothing under process-kill semantics
		case isIndex(ev.Path):
			if ev.Kind == "write" && strings.Contains(rp, txnSeg) {
				txnData[rp] = append(txnData[rp], ev.Data...)
			}
			if ch(1, 12) {
				take("index: after "+ev.Kind+" "+filepath.Base(ev.Path), infl(), -1, nil, false)
			}
		case ev.Kind == "write":
			if ch(1, 10) {
				take("flush: data write "+filepath.Base(ev.Path), infl(), -1, nil, false)
			}
		default:
			if ch(1, 2) {
				take("after "+ev.Kind+" "+rp, infl(), -1, nil, false)
			}
		}
	})

	// ---- flushes: forced (synchronous), held at a chosen step, and their accounting ----
	type heldFlush struct {
		resume func()
		done   chan any
	}
	var held *heldFlush
	flushBegin := func() { // the log switch is the first thing a flush does
		inFlush = true
		epoch++
	}
	flushEnd := func() {
		for rp, e := range walEpoch {
			if e <= nj {
				tieErr(fmt.Sprintf("op %d: the flush of epoch %d finished but the log file %s of epoch %d is still there", cur, nj, rp, e))
			}
		}
		inFlush = false
		nj++
		gone = nil
		h.Flags.Flushes++
		for s, t := range memMax {
			if ft, ok := flushedMax[s]; !ok || t > ft {
				flushedMax[s] = t
			}
		}
		memMax = map[int]int{}
	}
	pausePred := func(point int) func(kind, path string) bool {
		removes := 0
		return func(kind, path string) bool {
			if !strings.HasPrefix(filepath.Clean(path), dir+sep) {
				return false
			}
			switch point {
			case 0:
				return kind == "create" && isData(path)
			case 1:
				return kind == "rename" && isData(path)
			case 2:
				return kind == "remove" && isWal(path)
			default:
				if kind == "remove" && isWal(path) {
					removes++
					return removes == 2
				}
				return false
			}
		}
	}
	finishHeld := func() {
		if held == nil {
			return
		}
		hf := held
		held = nil
		tick("finishing the held flush")
		hf.resume()
		if e := <-hf.done; e != nil {
			panic(e)
		}
		flushEnd()
	}
	beginHeld := func(point int) {
		reached, resume := g.arm(pausePred(point))
		done := make(chan any, 1)
		flushBegin()
		go func() {
			defer func() { done <- recover() }()
			sh.ForceFlush()
		}()
		select {
		case <-reached:
			held = &heldFlush{resume: resume, done: done}
		case e := <-done: // the flush never came to that step
			resume()
			if e != nil {
				panic(e)
			}
			flushEnd()
		}
	}

	// ---- a writer held at its log append while the following write requests are started ----
	// Model (Model.v cwstate): WAL.Write begins with an exclusive section on the WAL's lock; a request inside writeBinary holds
	// that lock shared from before it takes its slot until its record is appended. So while a request holds a slot without
	// a record, no other request can be acknowledged - that is what makes the replay order respect the acknowledgement order
	// (C01_barrier_replay_respects_ack_order). The harness checks it: the k followers must not complete while A is held.
	skip := map[int]bool{}
	heldGroup := func(i, k int) string {
		for x := 1; x <= k; x++ {
			if ops[i+x].K != "W" {
				k = x - 1
				break
			}
		}
		walDir := filepath.Join(dir, "wal") + sep
		reached, resume := g.arm(func(kind, path string) bool { return kind == "write" && strings.HasPrefix(filepath.Clean(path), walDir) })
		type res struct {
			err any
		}
		doneA := make(chan res, 1)
		run := func(idx int, out chan res) {
			defer func() {
				if e := recover(); e != nil {
					out <- res{e}
				}
			}()
			if err := writeRows(sh, nmst, ops[idx].Rows); err != nil {
				out <- res{err}
				return
			}
			out <- res{nil}
		}
		cur, inWrite, inGroup = i, true, true
		defer func() { inWrite, inGroup, walQueue = false, false, nil }()
		walQueue = walQueue[:0]
		for x := 0; x <= k; x++ {
			walQueue = append(walQueue, i+x)
			skip[i+x] = true
		}
		go run(i, doneA)
		select {
		case <-reached:
		case r := <-doneA:
			resume()
			if r.err != nil {
				return fmt.Sprintf("write op %d: %v", i, r.err)
			}
			return fmt.Sprintf("write op %d never came to a log append", i)
		}
		heldIdx = i
		var completed atomic.Int32
		doneB := make(chan res, 1)
		go func() {
			for x := 1; x <= k; x++ {
				c := make(chan res, 1)
				run(i+x, c)
				if r := <-c; r.err != nil {
					doneB <- r
					return
				}
				completed.Add(1)
			}
			doneB <- res{nil}
		}()
		time.Sleep(250 * time.Millisecond)
		if n := completed.Load(); n > 0 {
			tieErr(fmt.Sprintf("op %d: %d later write request(s) were acknowledged while the request of op %d held its WAL slot without a record "+
				"(the exclusive section at the head of WAL.Write must keep them out)", i+1, n, i))
		}
		rec.Locked(func() { take("held writer: slot taken, record not on disk, followers waiting", i, -1, nil, true) })
		resume()
		if r := <-doneA; r.err != nil {
			return fmt.Sprintf("write op %d (held at its log append): %v", i, r.err)
		}
		if r := <-doneB; r.err != nil {
			return fmt.Sprintf("write ops after the held op %d: %v", i, r.err)
		}
		heldIdx = -1
		h.Flags.HeldWriters++
		acked = i + k + 1
		cur = i + k + 1
		inGroup = false
		rec.Locked(func() { take("after acknowledgement of the held-writer group at op "+strconv.Itoa(i), -1, -1, nil, true) })
		return ""
	}

	crash := func() (msg string) {
		defer func() {
			if e := recover(); e != nil {
				msg = fmt.Sprintf("panic during op %d (%s): %v", cur, ops[min(cur, len(ops)-1)].K, e)
				if os.Getenv("VERIF_DEBUG") != "" {
					fmt.Fprintf(os.Stderr, "PANIC %v\n%s\n", e, debug.Stack())
				}
			}
		}()
		for i := range ops {
			cur = i
			op := &ops[i]
			tick(fmt.Sprintf("op %d (%s)", i, op.K))
			switch op.K {
			case "W":
				for _, rw := range op.Rows {
					if ft, ok := flushedMax[rw.S]; ok && rw.T <= ft {
						h.Flags.Late = true
					}
					if len(rw.F) < 2 {
						h.Flags.Partial = true
					}
					for _, fv := range rw.F {
						k := tsdrv.Key{S: rw.S, T: rw.T, F: fv.F}
						if e0, ok := lastEpoch[k]; ok {
							h.Flags.Overwrite = true
							if e0 == epoch {
								h.Flags.SameEpochOver = true
							}
						}
						lastEpoch[k] = epoch
					}
					if t, ok := memMax[rw.S]; !ok || rw.T > t {
						memMax[rw.S] = rw.T
					}
				}
				if skip[i] {
					continue // executed as part of a held-writer group
				}
				if op.H > 0 && i >= pre && !sp.auto && held == nil {
					if msg := heldGroup(i, min(op.H, len(ops)-1-i)); msg != "" {
						return msg
					}
					continue
				}
				inWrite = true
				err := writeRows(sh, nmst, op.Rows)
				inWrite = false
				if err != nil {
					return fmt.Sprintf("write op %d: %v", i, err)
				}
				acked = i + 1
				if held != nil {
					h.Flags.PausedWrites++
				}
				if sp.auto && r.Chance(1, 3) {
					time.Sleep(110 * time.Millisecond) // let the snapshot timer see the (over-full) memtable
				}
				if ch(1, 3) || i == len(ops)-1 || (held != nil && i >= pre) {
					cur = i + 1
					rec.Locked(func() { take("after acknowledgement of op "+strconv.Itoa(i), -1, -1, nil, i == len(ops)-1 || held != nil) })
				}
			case "D":
				finishHeld()
				inDrop = true
				flushBegin()
				err := sh.VerifDropMeasurement(mstNames[op.M%nmst])
				inDrop = false
				if err != nil {
					return fmt.Sprintf("drop op %d: %v", i, err)
				}
				flushEnd()
				acked = i + 1
				h.Flags.Drops++
				for k := range lastEpoch {
					if mstOf(k.S, nmst) == op.M%nmst {
						delete(lastEpoch, k)
					}
				}
				cur = i + 1
				rec.Locked(func() { take("after acknowledgement of drop op "+strconv.Itoa(i), -1, -1, nil, true) })
			case "FB":
				if held == nil {
					beginHeld(op.P)
				}
				acked = i + 1
			case "FE":
				finishHeld()
				acked = i + 1
			case "F":
				finishHeld()
				flushBegin()
				sh.ForceFlush()
				flushEnd()
				acked = i + 1
			}
		}
		finishHeld()
		return ""
	}()
	if crash != "" {
		// in a server the panic ends the process: that instant is a crash image too. The shard is not closed
		// (shard.Close would wait for the snapshot that will never finish); its index builder is.
		h.Crash = crash
		if held != nil {
			held.resume()
			held = nil
		}
		tick("image at the panic")
		withTimeout(20*time.Second, func() {
			rec.Locked(func() { take("the process died here: "+crash, infl(), -1, nil, true) })
		})
		rec.Stop()
		withTimeout(20*time.Second, func() { _ = sh.VerifAbandon() })
	} else {
		// corpus-like image: the last two index transactions are still pending (their files are removed asynchronously,
		// after the parts they replaced are gone): the final state plus the two transaction files as they were written
		if len(txnOrder) >= 2 {
			cur = len(ops)
			rec.Locked(func() {
				take("planted: final state with the last two index transaction files not yet removed", -1, -1, nil, true)
				d := pend[len(pend)-1].dir
				for _, rp := range txnOrder[len(txnOrder)-2:] {
					p := filepath.Join(d, rp)
					_ = os.MkdirAll(filepath.Dir(p), 0750)
					if _, err := os.Stat(p); err != nil {
						_ = os.WriteFile(p, txnFinal[rp], 0600)
					}
				}
			})
		}
		rec.Stop()
		tick("close")
		if !withTimeout(60*time.Second, func() { _ = sh.Close() }) {
			h.Crash = "closing the shard after the last op did not return within 60 s"
		}
	}

	// ---- reopen every image with the real code ----
	dropMst := func(l *tsdrv.LWW, m int) {
		for k := range l.M {
			if mstOf(k.S, nmst) == m {
				delete(l.M, k)
			}
		}
	}
	applyOp := func(l *tsdrv.LWW, op *Op) {
		switch op.K {
		case "W":
			l.Apply(op.Rows)
		case "D":
			dropMst(l, op.M%nmst) // an acknowledged drop: nothing written to the measurement before may come back
		}
	}
	expect := func(a, inflight int, ai *AsyncInfo) *tsdrv.LWW {
		l := tsdrv.NewLWW()
		for i := 0; i < a; i++ {
			applyOp(l, &ops[i])
		}
		if inflight >= 0 && inflight < len(ops) {
			applyOp(l, &ops[inflight])
		}
		if ai != nil {
			if ai.DropTried && !ai.DropRefused {
				dropMst(l, ai.DropM)
			}
			if ai.ExtraAcked {
				l.Apply(ai.Extra)
			}
		}
		return l
	}
	diff := func(l *tsdrv.LWW, got map[tsdrv.Key]int64) []Cell {
		var out []Cell
		for k, v := range l.M {
			g, ok := got[k]
			if !ok || g != v {
				out = append(out, Cell{S: k.S, T: k.T, F: k.F, Want: v, WOk: true, Got: g, GOk: ok})
			}
		}
		for k, g := range got {
			if _, ok := l.M[k]; !ok {
				out = append(out, Cell{S: k.S, T: k.T, F: k.F, Got: g, GOk: true})
			}
		}
		sort.Slice(out, func(i, j int) bool {
			a, b := out[i], out[j]
			if a.S != b.S {
				return a.S < b.S
			}
			if a.T != b.T {
				return a.T < b.T
			}
			return a.F < b.F
		})
		return out
	}
	// every value an acknowledged write gave to a cell since the last acknowledged drop of the cell's measurement
	everWritten := func(a int, ai *AsyncInfo) map[tsdrv.Key]map[int64]bool {
		ev := map[tsdrv.Key]map[int64]bool{}
		put := func(rows []tsdrv.Row) {
			for _, rw := range rows {
				for _, fv := range rw.F {
					k := tsdrv.Key{S: rw.S, T: rw.T, F: fv.F}
					if ev[k] == nil {
						ev[k] = map[int64]bool{}
					}
					ev[k][fv.V] = true
				}
			}
		}
		forget := func(m int) {
			for k := range ev {
				if mstOf(k.S, nmst) == m {
					delete(ev, k)
				}
			}
		}
		for i := 0; i < a; i++ {
			switch ops[i].K {
			case "W":
				put(ops[i].Rows)
			case "D":
				forget(ops[i].M % nmst)
			}
		}
		if ai != nil {
			if ai.DropTried && !ai.DropRefused {
				forget(ai.DropM)
			}
			if ai.ExtraAcked {
				put(ai.Extra)
			}
		}
		return ev
	}
	// the oracle: which allowed state does the dump equal?
	judge := func(im *Image, got map[tsdrv.Key]int64, ai *AsyncInfo) (string, []Cell) {
		d1 := diff(expect(im.Acked, -1, ai), got)
		if len(d1) == 0 {
			return "acked", nil
		}
		if im.Inflight >= 0 && im.Inflight < len(ops) {
			d2 := diff(expect(im.Acked, im.Inflight, ai), got)
			if len(d2) == 0 {
				return "acked+inflight", nil
			}
			if ops[im.Inflight].K == "D" {
				// a drop that was not acknowledged: other measurements exactly as acknowledged; of THAT measurement any part
				// may be gone already or back at an older (flushed) value - the drop's own flush discards the measurement's
				// memtable rows before its data files are removed - but every cell shown carries a value that some
				// acknowledged write since the last acknowledged drop gave to it (nothing invented, nothing resurrected)
				m := ops[im.Inflight].M % nmst
				ok := true
				pre := expect(im.Acked, -1, ai)
				for k, v := range pre.M {
					if mstOf(k.S, nmst) != m {
						if g, has := got[k]; !has || g != v {
							ok = false
						}
					}
				}
				ever := everWritten(im.Acked, ai)
				for k, g := range got {
					if mstOf(k.S, nmst) != m {
						if _, has := pre.M[k]; !has {
							ok = false
						}
					} else if !ever[k][g] {
						ok = false
					}
				}
				if ok {
					return "partial-drop", nil
				}
			}
			if len(d2) < len(d1) {
				d1 = d2 // report the difference against the closer of the two allowed states
			}
		}
		return "", d1
	}
	cells := func(got map[tsdrv.Key]int64) []Cell {
		out := []Cell{}
		for k, v := range got {
			out = append(out, Cell{S: k.S, T: k.T, F: k.F, Got: v, GOk: true})
		}
		sort.Slice(out, func(i, j int) bool {
			a, b := out[i], out[j]
			if a.S != b.S {
				return a.S < b.S
			}
			if a.T != b.T {
				return a.T < b.T
			}
			return a.F < b.F
		})
		return out
	}
	extraVal := int64(900000)
	var subNo []int
	var liveOps []int // write ops with a record in the live log of the image being recovered
	pi := 0
	check := func(im *Image, d string, record, async bool, nfiles int) (subs []string) {
		defer func() {
			if e := recover(); e != nil {
				rec.Stop()
				im.Err = fmt.Sprintf("panic while recovering the crash image: %v", e)
				if os.Getenv("VERIF_DEBUG") != "" {
					fmt.Fprintf(os.Stderr, "PANIC %v\n%s\n", e, debug.Stack())
				}
			}
		}()
		subNo = subNo[:0]
		im.Parts, im.Epochs = nil, nil
		// the image is restored at the path of the live shard (the index keeps absolute paths in its transaction files)
		_ = os.RemoveAll(dir)
		if err := os.Rename(d, dir); err != nil {
			panic(err)
		}
		im.Txn = 0
		if es, err := os.ReadDir(filepath.Join(dir, "db0", "index", "data", "mergeset", "txn")); err == nil {
			for _, e := range es {
				if !tmpName.MatchString(e.Name()) {
					im.Txn++
				}
			}
		}
		if async {
			ai := &AsyncInfo{WalFiles: nfiles}
			im.Async = ai
			_, release := g.holdReads(func(p string) bool { return strings.HasPrefix(filepath.Clean(p), filepath.Join(dir, "wal")+sep) })
			released := false
			defer func() {
				if !released {
					release()
				}
			}()
			s2, err := openShard(dir, true)
			if err != nil {
				im.Err = "open after crash failed: " + err.Error()
				return
			}
			ai.Replaying = s2.VerifReplayingWal()
			if nfiles > 0 && ai.Replaying {
				// the replay cannot finish: it has at least one log file to open. A drop must be refused now.
				if r.Chance(2, 3) || dense {
					ai.DropTried = true
					ai.DropM = r.Intn(nmst)
					ai.DropRefused = s2.VerifDropMeasurement(mstNames[ai.DropM]) != nil
					ai.MarkAfter = s2.VerifMstDeleting(mstNames[ai.DropM])
				}
				if r.Chance(2, 3) || dense {
					s, t := r.Intn(nser), r.Intn(NT)
					if len(liveOps) > 0 && (dense || r.Chance(1, 2)) {
						// overwrite a cell that has a record in the live log (the replay will meet the newer write)
						if rows := ops[liveOps[r.Intn(len(liveOps))]].Rows; len(rows) > 0 {
							s, t = rows[0].S, rows[0].T
						}
					}
					ai.Extra = []tsdrv.Row{{S: s, T: t, F: []tsdrv.FV{{F: 0, V: extraVal}}}}
					extraVal++
					ai.ExtraAcked = writeRows(s2, nmst, ai.Extra) == nil
				}
			}
			if nfiles > 0 && ai.Replaying && (r.Chance(1, 4) || (dense && pi%3 == 1)) {
				// clean shutdown while the log is still being re-applied: Close cancels the replay and waits for it
				ai.Closed = true
				cdone := make(chan struct{})
				go func() { _ = s2.VerifCloseShardFirst(); close(cdone) }()
				time.Sleep(150 * time.Millisecond)
				released = true
				release()
				tick("closing the shard during its asynchronous replay")
				<-cdone
				ai.Live = "closed"
				s3, err := openShard(dir, false)
				if err != nil {
					im.Err = "open after the shutdown during the replay failed: " + err.Error()
					return
				}
				got, err := dumpAll(s3, nser, nmst)
				_ = s3.Close()
				if err != nil {
					im.Err = "dump after the shutdown during the replay failed: " + err.Error()
					return
				}
				im.Dump = cells(got)
				im.Match, im.Diff = judge(im, got, ai)
				return
			}
			released = true
			release()
			tick("waiting for the asynchronous replay")
			s2.VerifWaitWalReplay()
			live, err := dumpAll(s2, nser, nmst)
			if err != nil {
				ai.Live = ""
				im.Err = "dump after the asynchronous replay failed: " + err.Error()
				_ = s2.Close()
				return
			}
			ai.Live, ai.LiveDiff = judge(im, live, ai)
			_ = s2.Close() // kill (Close does not flush the memtable) ...
			s3, err := openShard(dir, false) // ... and restart
			if err != nil {
				im.Err = "open after the second crash failed: " + err.Error()
				return
			}
			got, err := dumpAll(s3, nser, nmst)
			_ = s3.Close()
			if err != nil {
				im.Err = "dump after the second crash failed: " + err.Error()
				return
			}
			im.Dump = cells(got)
			im.Match, im.Diff = judge(im, got, ai)
			return
		}
		if record {
			nsub := 0
			rec.Start(dir, nil, func(ev *crashfs.Event) {
				if ev.Kind == "write" || ev.Kind == "sync" {
					return
				}
				nsub++
				if quick && !(isIndex(ev.Path) && r.Chance(1, 20)) && !(!isIndex(ev.Path) && r.Chance(1, 5)) {
					return
				}
				if !quick && !(isIndex(ev.Path) && r.Chance(1, 8)) && !(!isIndex(ev.Path) && r.Chance(1, 2)) {
					return // thorough: half of the recovery's own mutations, an eighth of the index ones
				}
				sd := filepath.Join(base, fmt.Sprintf("sub%d", nimg))
				nimg++
				if err := crashfs.CopyTree(dir, sd); err != nil {
					panic(err)
				}
				subs = append(subs, sd)
				subNo = append(subNo, nsub)
			})
		}
		s2, err := openShard(dir, false)
		if record {
			rec.Stop()
		}
		if err != nil {
			im.Err = "open after crash failed: " + err.Error()
			return
		}
		got, err := dumpAll(s2, nser, nmst)
		_ = s2.Close()
		if err != nil {
			im.Err = "dump after crash failed: " + err.Error()
			return
		}
		im.Dump = cells(got)
		im.Match, im.Diff = judge(im, got, nil)
		return
	}
	add := func(im Image) {
		rn.hmu.Lock()
		h.Images = append(h.Images, im)
		rn.hmu.Unlock()
	}
	replayParallel = sp.par
	defer func() { replayParallel = false }()
	for pix, p := range pend {
		pi = pix
		im := p.img
		tick(fmt.Sprintf("recovering image %d/%d (%s)", pi+1, len(pend), im.At))
		parts, epochs, nfiles := partsOf(p.dir, nwal, p.wal, p.walEpoch)
		var wb []WalFile
		if im.Torn >= 0 || pi == 0 || pi == len(pend)-1 || pi%7 == 3 {
			wb = walBytes(p.dir, nwal, p.wal, p.tornRel, im.Torn)
		}
		async := sp.async && im.Torn < 0
		liveOps = liveOps[:0]
		for _, pp := range parts {
			liveOps = append(liveOps, pp...)
		}
		subs := check(&im, p.dir, !async && !(sp.tornAll >= 0 && im.Torn >= 0), async, nfiles)
		im.Parts, im.Epochs = parts, epochs
		im.WalBytes = wb
		add(im)
		nos := append([]int(nil), subNo...)
		for j, sd := range subs {
			tick(fmt.Sprintf("recovering image %d/%d (%s), second crash %d", pi+1, len(pend), im.At, j))
			sub := p.img
			sub.Sub = nos[j]
			sub.Tie = false
			sp2, se, nf2 := partsOf(sd, nwal, p.wal, p.walEpoch)
			check(&sub, sd, false, false, nf2)
			sub.Parts, sub.Epochs = sp2, se
			add(sub)
			os.RemoveAll(sd)
		}
		os.RemoveAll(p.dir)
	}
	return h
}

func main() {
	flag.Parse() // the lifted VictoriaMetrics memory package insists on it
	args := flag.Args()
	n := 20
	if len(args) > 0 {
		n, _ = strconv.Atoi(args[0])
	}
	quick := gen.Tier() != "thorough"
	work := os.Getenv("VERIF_WORK")
	if work == "" {
		work = filepath.Join(os.TempDir(), "verif-c01")
	}
	if err := tsdrv.Init(work); err != nil {
		fmt.Fprintln(os.Stderr, "init:", err)
		os.Exit(2)
	}
	rec := crashfs.Install()
	defer rec.Uninstall()
	rn := &runner{g: installGate(), rec: rec, work: work, quick: quick}
	enc := json.NewEncoder(os.Stdout)
	// watchdog: a history that makes no progress (an op, an image) for stuckAfter is reported and the run ends
	stuckAfter := 60 * time.Second
	if v, err := strconv.Atoi(os.Getenv("VERIF_C01_STUCK_S")); err == nil && v > 0 {
		stuckAfter = time.Duration(v) * time.Second
	}
	guarded := func(idx int, sp spec, r *gen.Rand) {
		_ = enc.Encode(map[string]any{"start": idx, "nwal": sp.nwal, "nser": sp.nser, "nmst": max(sp.nmst, 1), "pre": sp.pre, "auto": sp.auto, "async": sp.async, "par": sp.par, "ops": sp.ops})
		done := make(chan *History, 1)
		go func() {
			defer func() {
				if e := recover(); e != nil {
					done <- &History{Case: idx, NWal: sp.nwal, NSer: sp.nser, NMst: max(sp.nmst, 1), Ops: sp.ops, Pre: sp.pre, Auto: sp.auto, Async: sp.async,
						Images: []Image{}, Crash: fmt.Sprintf("harness panic: %v\n%s", e, debug.Stack())}
				}
			}()
			done <- rn.runHistory(idx, sp, r)
		}()
		last, lastAt := progress.Load(), time.Now()
		for {
			select {
			case h := <-done:
				_ = enc.Encode(h)
				return
			case <-time.After(500 * time.Millisecond):
			}
			if p := progress.Load(); p != last {
				last, lastAt = p, time.Now()
				continue
			}
			if time.Since(lastAt) < stuckAfter {
				continue
			}
			ph, _ := phase.Load().(string)
			rn.hmu.Lock()
			h := History{Case: idx, NWal: sp.nwal, NSer: sp.nser, NMst: max(sp.nmst, 1), Ops: sp.ops, Pre: sp.pre, Auto: sp.auto, Async: sp.async, Images: []Image{}}
			if rn.cur != nil && rn.cur.Case == idx {
				h.Images = append(h.Images, rn.cur.Images...)
				h.Flags, h.TieErr = rn.cur.Flags, rn.cur.TieErr
			}
			rn.hmu.Unlock()
			h.Crash = fmt.Sprintf("watchdog: no progress for %v while %s", stuckAfter, ph)
			_ = enc.Encode(&h)
			if os.Getenv("VERIF_DEBUG") != "" {
				buf := make([]byte, 1<<22)
				fmt.Fprintf(os.Stderr, "%s\n", buf[:runtime.Stack(buf, true)])
			}
			fmt.Fprintln(os.Stderr, "c01 done (stopped by the watchdog)")
			os.Exit(0)
		}
	}
	if len(args) > 1 { // replay: a file holding one History
		b, err := os.ReadFile(args[1])
		if err != nil {
			fmt.Fprintln(os.Stderr, err)
			os.Exit(2)
		}
		var h struct {
			History
			TornAll *int `json:"torn_all_op"`
		}
		if err := json.Unmarshal(b, &h); err != nil {
			fmt.Fprintln(os.Stderr, err)
			os.Exit(2)
		}
		sp := spec{nser: h.NSer, nwal: h.NWal, nmst: h.NMst, pre: h.Pre, auto: h.Auto, async: h.Async, par: h.Par, tornAll: -1, ops: h.Ops}
		if h.TornAll != nil {
			sp.tornAll = *h.TornAll
		}
		rn.quick = false
		guarded(h.Case, sp, gen.FromEnv(1001))
		fmt.Fprintln(os.Stderr, "c01 done")
		return
	}
	only := os.Getenv("VERIF_ONLY")
	fixed := []spec{witness(), aged8(), newSeriesBeforeFlush(), dropHistory(), tornSweep(), asyncHistory(),
		duringFlush(1, 0), duringFlush(1, 2), duringFlush(3, 1), duringFlush(3, 3), duringFlush(2, 2), heldWriterHistory(), parallelHistory()}
	for i, sp := range fixed {
		if !quick || i < 6 || i-6 == int(gen.FromEnv(77).Intn(5)) || i == 7 || i == 11 || i == 12 { // quick: two of the five held-flush histories
			if only != "" && only != strconv.Itoa(100000+i) {
				continue
			}
			guarded(100000+i, sp, gen.FromEnv(uint64(1001+i)))
		}
	}
	master := gen.FromEnv(1)
	for i := 0; i < n; i++ {
		r := master.Fork()
		sp := genHistory(r)
		if only != "" && only != strconv.Itoa(i) {
			continue
		}
		guarded(i, sp, r.Fork())
	}
	fmt.Fprintln(os.Stderr, "c01 done")
}
