package main

// gateFS sits on top of the recording VFS (internal/crashfs) and can block the goroutine that is about to perform a
// chosen file-system operation, BEFORE the recorder's lock is taken, so that other goroutines (the writer) can go on
// mutating the file system while e.g. the flusher is held in the middle of a memtable flush, or the log replay of a
// re-opened shard is held before it reads its first log file.

import (
	"os"
	"sync"

	"github.com/openGemini/openGemini/lib/fileops"
)

type gate struct {
	mu      sync.Mutex
	pred    func(kind, path string) bool // one-shot: the first matching operation blocks
	reached chan struct{}
	resume  chan struct{}
	hold    chan struct{} // read-only opens matching holdP block until the channel is closed
	holdP   func(path string) bool
	hit     chan struct{} // closed when the first reader was held
	hitOnce *sync.Once
}

// arm installs a one-shot pause: the first operation for which pred holds blocks until the returned resume function is
// called; reached is closed when the operation has arrived.
func (g *gate) arm(pred func(kind, path string) bool) (reached chan struct{}, resume func()) {
	g.mu.Lock()
	defer g.mu.Unlock()
	g.pred = pred
	g.reached = make(chan struct{})
	res := make(chan struct{})
	g.resume = res
	var once sync.Once
	return g.reached, func() {
		g.mu.Lock()
		if g.resume == res {
			g.pred = nil
		}
		g.mu.Unlock()
		once.Do(func() { close(res) })
	}
}

func (g *gate) pass(kind, path string) {
	g.mu.Lock()
	p := g.pred
	if p == nil || !p(kind, path) {
		g.mu.Unlock()
		return
	}
	g.pred = nil
	reached, resume := g.reached, g.resume
	g.mu.Unlock()
	close(reached)
	<-resume
}

// holdReads blocks every read-only open of a path accepted by p until the returned release function is called.
func (g *gate) holdReads(p func(path string) bool) (hit chan struct{}, release func()) {
	g.mu.Lock()
	defer g.mu.Unlock()
	ch := make(chan struct{})
	g.hold, g.holdP = ch, p
	g.hit = make(chan struct{})
	g.hitOnce = &sync.Once{}
	var once sync.Once
	return g.hit, func() {
		g.mu.Lock()
		if g.hold == ch {
			g.hold, g.holdP = nil, nil
		}
		g.mu.Unlock()
		once.Do(func() { close(ch) })
	}
}

func (g *gate) read(path string) {
	g.mu.Lock()
	ch, p, hit, once := g.hold, g.holdP, g.hit, g.hitOnce
	g.mu.Unlock()
	if ch == nil || p == nil || !p(path) {
		return
	}
	once.Do(func() { close(hit) })
	<-ch
}

type gateFS struct {
	fileops.VFS
	g *gate
}

func installGate() *gate {
	g := &gate{}
	cur := fileops.VerifSwapLocalFS(nil)
	fileops.VerifSwapLocalFS(&gateFS{VFS: cur, g: g})
	return g
}

func lexists(p string) bool { _, err := os.Lstat(p); return err == nil }

func (v *gateFS) OpenFile(name string, flag int, perm os.FileMode, opt ...fileops.FSOption) (fileops.File, error) {
	switch {
	case flag&os.O_CREATE != 0 && !lexists(name):
		v.g.pass("create", name)
	case flag&(os.O_WRONLY|os.O_RDWR) == 0:
		v.g.read(name)
	}
	f, err := v.VFS.OpenFile(name, flag, perm, opt...)
	if err == nil && f != nil && flag&(os.O_WRONLY|os.O_RDWR) != 0 {
		return &gateFile{File: f, g: v.g, name: name}, nil
	}
	return f, err
}

// gateFile lets a one-shot pause catch a goroutine right before it writes to a file (kind "write"): a writer held there
// has taken its WAL slot and holds the partition's lock, and nothing of its record is on disk yet.
type gateFile struct {
	fileops.File
	g    *gate
	name string
}

func (f *gateFile) Write(b []byte) (int, error) {
	f.g.pass("write", f.name)
	return f.File.Write(b)
}

func (v *gateFS) Open(name string, opt ...fileops.FSOption) (fileops.File, error) {
	v.g.read(name)
	return v.VFS.Open(name, opt...)
}
func (v *gateFS) Create(name string, opt ...fileops.FSOption) (fileops.File, error) {
	v.g.pass("create", name)
	return v.VFS.Create(name, opt...)
}
func (v *gateFS) CreateV1(name string, opt ...fileops.FSOption) (fileops.File, error) {
	v.g.pass("create", name)
	return v.VFS.CreateV1(name, opt...)
}
func (v *gateFS) CreateV2(name string, opt ...fileops.FSOption) (fileops.File, error) {
	v.g.pass("create", name)
	return v.VFS.CreateV2(name, opt...)
}
func (v *gateFS) Remove(name string, opt ...fileops.FSOption) error {
	v.g.pass("remove", name)
	return v.VFS.Remove(name, opt...)
}
func (v *gateFS) RemoveLocal(name string, opt ...fileops.FSOption) error {
	v.g.pass("remove", name)
	return v.VFS.RemoveLocal(name, opt...)
}
func (v *gateFS) RemoveAll(path string, opt ...fileops.FSOption) error {
	v.g.pass("removeall", path)
	return v.VFS.RemoveAll(path, opt...)
}
func (v *gateFS) RemoveAllWithOutDir(path string, opt ...fileops.FSOption) error {
	v.g.pass("removeall", path)
	return v.VFS.RemoveAllWithOutDir(path, opt...)
}
func (v *gateFS) RenameFile(oldPath, newPath string, opt ...fileops.FSOption) error {
	v.g.pass("rename", oldPath)
	return v.VFS.RenameFile(oldPath, newPath, opt...)
}
func (v *gateFS) WriteFile(filename string, data []byte, perm os.FileMode, opt ...fileops.FSOption) error {
	if !lexists(filename) {
		v.g.pass("create", filename)
	}
	return v.VFS.WriteFile(filename, data, perm, opt...)
}
