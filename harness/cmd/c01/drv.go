package main

// Shard driver pieces that are specific to C01: per-shard engine options with synchronous / asynchronous log replay,
// several measurements (series s belongs to measurement s mod nmst), a dump of every measurement through the real cursors.

import (
	"fmt"
	"strconv"
	"time"

	"github.com/openGemini/openGemini/engine"
	"github.com/openGemini/openGemini/engine/executor"
	"github.com/openGemini/openGemini/lib/util/lifted/influx/influxql"
	"github.com/openGemini/openGemini/lib/util/lifted/vm/protoparser/influx"
	"verifharness/internal/tsdrv"
)

var mstNames = []string{tsdrv.Mst, "m2"}

func mstOf(s, nmst int) int {
	if nmst <= 1 {
		return 0
	}
	return s % nmst
}

// the per-shard options of internal/tsdrv (tsdrv.Init must have run: it creates the engine and its limiters)
func shardOpts(async, parallel bool) engine.EngineOptions {
	o := engine.NewEngineOptions()
	o.WriteColdDuration = 5000 * time.Second
	o.ShardMutableSizeLimit = 30 * 1024 * 1024
	o.NodeMutableSizeLimit = 1e9
	o.MaxWriteHangTime = time.Second
	o.MemDataReadEnabled = true
	o.WalSyncInterval = 100 * time.Millisecond
	o.WalEnabled = true
	o.WalReplayParallel = parallel
	o.WalReplayAsync = async
	o.DownSampleWriteDrop = true
	o.FullCompactColdDuration = time.Hour
	o.CompactThroughput = 48 * 1024 * 1024
	o.CompactThroughputBurst = 64 * 1024 * 1024
	o.SnapshotThroughput = 48 * 1024 * 1024
	o.SnapshotThroughputBurst = 48 * 1024 * 1024
	o.BackgroundReadThroughput = 64 * 1024 * 1024
	o.CompactRecovery = true
	o.MaxConcurrentCompactions = 4
	o.MaxFullCompactions = 2
	o.OpenShardLimit = 8
	o.ReadPageSize = "32kb"
	o.ReadMetaPageSize = []string{"4kb", "32kb"}
	return o
}

// replayParallel: the crash images of the running history are re-opened with wal-replay-parallel = true
var replayParallel bool

func openShard(dir string, async bool) (*engine.VerifShard, error) {
	v, err := engine.VerifOpenShardOpts(dir, shardOpts(async, replayParallel))
	if err != nil {
		return nil, err
	}
	v.SetBackground(false, false)
	return v, nil
}

// write one batch through shard.WriteRows WITHOUT flushing the series index afterwards (tsdrv.Write does flush it):
// a series created by the batch is durable only through its WAL record until the engine itself flushes the index
// (memtable flush, background timer).
func writeRows(v *engine.VerifShard, nmst int, rows []tsdrv.Row) error {
	irs := make([]influx.Row, len(rows))
	for i, r := range rows {
		ir := &irs[i]
		ir.Name = mstNames[mstOf(r.S, nmst)]
		ir.Timestamp = tsdrv.TimeOf(r.T)
		ir.Tags = influx.PointTags{{Key: "host", Value: "h" + strconv.Itoa(r.S)}, {Key: "zone", Value: "z" + strconv.Itoa(r.S%2)}}
		for _, fv := range r.F {
			f := influx.Field{Key: tsdrv.FieldNames[fv.F], Type: tsdrv.FieldTypes[fv.F]}
			switch fv.F {
			case 0:
				f.NumValue = float64(fv.V)
			case 1:
				f.NumValue = tsdrv.FloatOf(fv.V)
			case 2:
				f.NumValue = float64(fv.V & 1)
			case 3:
				f.StrValue = tsdrv.StrPool[int(fv.V)%len(tsdrv.StrPool)]
			}
			ir.Fields = append(ir.Fields, f)
		}
	}
	return v.WriteRows(irs)
}

func seriesOfHost(v string) int {
	if len(v) > 1 && v[0] == 'h' {
		if n, err := strconv.Atoi(v[1:]); err == nil {
			return n
		}
	}
	return -1
}

// dumpAll reads every measurement, every field, the whole time grid through shard.CreateCursor (GROUP BY host).
func dumpAll(v *engine.VerifShard, nser, nmst int) (map[tsdrv.Key]int64, error) {
	out := map[tsdrv.Key]int64{}
	for m := 0; m < nmst; m++ {
		vq := engine.VerifQuery{Mst: mstNames[m], Tmin: tsdrv.TimeOf(0), Tmax: tsdrv.TimeOf(NT - 1), Ascending: true, MaxParallel: 1,
			Dims: []string{"host"}}
		for f := 0; f < tsdrv.NFields; f++ {
			vq.Fields = append(vq.Fields, influxql.VarRef{Val: tsdrv.FieldNames[f], Type: tsdrv.FieldQL[f]})
		}
		chunks, err := v.Dump(vq)
		if err != nil {
			return nil, err
		}
		for _, c := range chunks {
			rows, _, err := tsdrv.RowsOf(c.Rec)
			if err != nil {
				return nil, err
			}
			for i := range rows {
				sr := -1
				for k := len(c.TagIndex) - 1; k >= 0; k-- {
					if c.TagIndex[k] <= i {
						hv, _ := executor.NewChunkTagsV2(c.TagKeys[k]).GetChunkTagValue("host")
						sr = seriesOfHost(hv)
						break
					}
				}
				if sr < 0 || sr >= nser {
					return nil, fmt.Errorf("row of unknown series in measurement %s", mstNames[m])
				}
				if mstOf(sr, nmst) != m {
					return nil, fmt.Errorf("series %d found in measurement %s", sr, mstNames[m])
				}
				for _, fv := range rows[i].F {
					out[tsdrv.Key{S: sr, T: rows[i].T, F: fv.F}] = fv.V
				}
			}
		}
	}
	return out, nil
}
