// C09 correspondence harness: paired queries on a REAL shard (engine/verif_export_c02.go + verif_export_c09.go).
// Histories in the style of C02 (write batches with partial rows, late data, null-heavy columns; flush, level / full
// compaction, out-of-order merge, reopen) build layouts with memtable rows, ordered and out-of-order files and several
// segments per series (max-rows-per-segment = 8, 24 timestamps). At check points the harness issues, through the store-side reader the
// planner would build (LogicalPlanBuilder series/measurement plan -> ChunkReader over shard.CreateCursor):
//
//	SELECT f(x)[, g(y)[, h(z)]] FROM m WHERE <range> [AND <field filter>] GROUP BY [time(w),] host
//
// (f,g,h in count,sum,min,max,first,last over mostly different fields; mean as the sum/count pair)
// with and without the exact-statistics hint, and the paired plain select
//
//	SELECT x FROM m WHERE <range> [AND <field filter>] GROUP BY host        (one per field)
//
// Range ends are placed on / next to the time ranges of files and segments. DIRECT ORACLE: combining the partial results
// the reader emits (what the executor's upper aggregation does: sum of counts and sums, min of mins, ...) must equal
// the function applied to the rows of the paired plain select - whenever the hint is given, or a field filter or a time
// bucket is present, or no (series,time) of the history was written in more than one flush generation.
// One JSON object per history; each carries the checked queries with rows and results for the Coq model.
//
// usage: c09 <n-histories>
package main

import (
	"encoding/json"
	"flag"
	"fmt"
	"os"
	"path/filepath"
	"runtime/debug"
	"sort"
	"strconv"
	"strings"

	"github.com/openGemini/openGemini/engine"
	"verifharness/internal/gen"
	"verifharness/internal/tsdrv"
)

// NT: number of timestamps (with max-rows-per-segment = 8 a fully compacted series spans up to 5 segments)
const NT = 40

// rows per segment (config max-rows-per-segment): small, so that one series has several segments in a file
var segRows = 8

type Op struct {
	K     string      `json:"k"` // W F LC FC MO R Q
	Rows  []tsdrv.Row `json:"rows,omitempty"`
	Level int         `json:"level,omitempty"`
}

// PRow: one row of the plain select: time index and value code
type PRow struct {
	T int    `json:"t"`
	V int64  `json:"v"`
	A *int64 `json:"a,omitempty"` // selector-with-aux statements: the aux field's value in this row (nil = null)
}

// Agg: a combined aggregate of one group
type Agg struct {
	Col    int    `json:"col"`
	Fn     string `json:"fn"`
	Field  int    `json:"field"`
	Group  string `json:"group"` // host[/bucket]
	Null   bool   `json:"null"`
	V      int64  `json:"v"`
	Cnt    int64  `json:"cnt"` // mean: the count part (V is the sum part)
	T      int    `json:"t"`   // time index of the selected point (first/last/min/max), -1 when not applicable
	Rows   []PRow `json:"rows"`
	WantOK bool   `json:"want_ok"`
	// selector-with-aux statements: the aux value that came with the winning partial result, and the oracle's verdict
	AuxSeen bool   `json:"aux_seen,omitempty"`
	AuxGot  *int64 `json:"aux_got,omitempty"`
	AuxOK   bool   `json:"aux_ok,omitempty"`
}

type Check struct {
	Op         int                 `json:"op"`
	SQL        string              `json:"sql"`
	Plain      string              `json:"plain"`
	Fn         string              `json:"fn"`    // first call (kept for single-call corpus cases)
	Field      int                 `json:"field"` // first call
	Calls      []Call              `json:"calls"`
	Lo         int                 `json:"lo"`
	Hi         int                 `json:"hi"`
	Hint       bool                `json:"hint"`
	Filter     bool                `json:"filter"`
	Bucket     int                 `json:"bucket"`               // seconds, 0 none
	Desc       bool                `json:"desc"`                 // ORDER BY time DESC
	GroupBy    string              `json:"group_by"`             // "host" (one series per group), "zone" (several), "" (no tag grouping)
	TagFilter  string              `json:"tag_filter,omitempty"` // additional tag predicate of the WHERE clause
	GroupHosts map[string][]string `json:"group_hosts,omitempty"`
	// selector with an auxiliary field: `SELECT last(x), y`; the call's value is checked like every other, the aux
	// value (y of the selected row) is compared and reported as an observation (AuxChecked / AuxFail)
	HasAux        bool     `json:"has_aux,omitempty"`
	AuxField      int      `json:"aux_field,omitempty"`
	AuxChecked    int      `json:"aux_checked,omitempty"`
	AuxFail       string   `json:"aux_fail,omitempty"`
	AuxFailGroups []string `json:"aux_fail_groups,omitempty"`
	PreAgg        bool     `json:"preagg"`        // the shard classified the statement as eligible for the statistics shortcut
	SchemaPreAgg  bool     `json:"schema_preagg"` // executor.QuerySchema.MatchPreAgg as the shard computed it (the hint is tested by the cursors)
	Compared      bool     `json:"compared"`
	Skipped       string   `json:"skipped,omitempty"`
	Groups        []Agg    `json:"groups"`
	Fail          string   `json:"fail,omitempty"`
	// SigChunkTime: groups (hosts) for which some file holds a chunk of >= 2 segments that the range enters after its
	// first row (first) / leaves before its last row (last) - where FirstLastReader may report the chunk's time
	SigChunkTime []string `json:"sig_chunk_time,omitempty"`
	// SigMemLast: "col:host" for last() calls on the shortcut path where the memtable holds, inside the range, a row
	// carrying another selected field LATER than its last row carrying this call's field
	SigMemLast []string `json:"sig_mem_last,omitempty"`
	// SigDup: hosts with a (series, time) inside the range that was written in more than one flush generation
	SigDup     []string `json:"sig_dup,omitempty"`
	FailGroups []string `json:"fail_groups,omitempty"`
	FailCols   []string `json:"fail_cols,omitempty"` // "col:group" of every failing result
}

type History struct {
	Case    int            `json:"case"`
	NSer    int            `json:"nser"`
	NoDup   bool           `json:"nodup_mode"`
	Dup     bool           `json:"dup"` // some (series,time) was written in more than one flush generation
	Ops     []Op           `json:"ops"`
	Checks  []Check        `json:"checks"`
	Files   int            `json:"files"`
	OOO     int            `json:"ooo_files"`
	MaxSegs int            `json:"max_segments"`
	Crash   string         `json:"crash,omitempty"`
	mem     map[[2]int]int // unflushed rows: (series,time) -> mask of fields written since the last flush / reopen
	Fix     string         `json:"fix,omitempty"` // corpus cases: "field,lo,hi,fn" - every Q issues exactly this shortcut-path statement
	// Chunks: every (data file, series) the history produced: decoded segments, stored statistics, pre-aggregation reads
	Chunks    []ChunkDump `json:"chunks"`
	ChunkErr  string      `json:"chunk_err,omitempty"`
	seenChunk map[string]bool
	dupKeys   map[[2]int]bool // (series, time) written in more than one flush generation so far
}

// ---- generation ----

type genState struct {
	r       *gen.Rand
	nser    int
	now     []int // per series: the series' own clock (series advance at different speeds, so the files hold different
	speed   []int // time extents per series)
	nodup   bool
	gen_    int
	seen    map[[2]int]int  // (s,t) -> generation of first write
	flushed map[[2]int]bool // points that were in the memtable at some flush
	pending map[[2]int]bool
	rewrote bool            // the last batch rewrote stored points
	noise   int             // out of 6: share of rows written at a random time instead of near the series' clock
	lastGen map[[2]int]bool // points of the most recent flush (they live in the latest files)
}

func (g *genState) value(f int) int64 {
	switch f {
	case 0:
		return int64(g.r.Range(-3, 8)) // narrow: ties and near-ties between containers are common
	case 1:
		return int64(g.r.Range(-6, 12)) // float = v/4
	case 2:
		return int64(g.r.Intn(2))
	default:
		return int64(g.r.Range(0, len(tsdrv.StrPool)-1))
	}
}

// fields: null-heavy, most rows carry one or two fields
func (g *genState) fields(r *tsdrv.Row) {
	mask := 1 << uint(g.r.Intn(4))
	if g.r.Chance(1, 2) {
		mask |= 1 << uint(g.r.Intn(4))
	}
	if g.r.Chance(1, 6) {
		mask = 15
	}
	for f := 0; f < tsdrv.NFields; f++ {
		if mask&(1<<uint(f)) != 0 {
			r.F = append(r.F, tsdrv.FV{F: f, V: g.value(f)})
		}
	}
}

// add: one row, unless the no-duplicate mode forbids touching this point
func (g *genState) add(rows []tsdrv.Row, s, t int) []tsdrv.Row {
	if t < 0 {
		t = 0
	}
	if t >= NT {
		t = NT - 1
	}
	k := [2]int{s, t}
	if g0, ok := g.seen[k]; ok && g0 != g.gen_ && g.nodup {
		return rows // no-duplicate mode: never touch a point of an earlier flush generation
	}
	if _, ok := g.seen[k]; !ok {
		g.seen[k] = g.gen_
	}
	g.pending[k] = true
	r := tsdrv.Row{S: s, T: t}
	g.fields(&r)
	return append(rows, r)
}

func (g *genState) batch() []tsdrv.Row {
	var rows []tsdrv.Row
	switch kind := g.r.Intn(10); {
	case kind == 0 && g.nser >= 3:
		// late data for EVERY series (lands in one out-of-order file holding many series once flushed)
		for s := 0; s < g.nser; s++ {
			for k := g.r.Range(1, 2); k > 0; k-- {
				rows = g.add(rows, s, g.r.Intn(g.now[s]+1))
			}
		}
	case (kind == 1 || kind == 3 || kind == 4) && !g.nodup && len(g.flushed) > 0:
		// rewrite points that already live in files - any file: the first, a later one, one whose time range another
		// series stretches beyond this series' own rows
		g.rewrote = true
		var keys [][2]int
		for k := range g.flushed {
			keys = append(keys, k)
		}
		sort.Slice(keys, func(a, b int) bool {
			return keys[a][0] < keys[b][0] || (keys[a][0] == keys[b][0] && keys[a][1] < keys[b][1])
		})
		var recent [][2]int
		for _, k := range keys {
			if g.lastGen[k] {
				recent = append(recent, k)
			}
		}
		for k := g.r.Range(2, 8); k > 0; k-- {
			key := gen.Pick(g.r, keys)
			if len(recent) > 0 && g.r.Bool() {
				key = gen.Pick(g.r, recent)
			}
			rows = g.add(rows, key[0], key[1])
		}
	case kind == 2:
		// a dense run of one series: many rows per file, chunks of several segments
		s, start := g.r.Intn(g.nser), g.r.Intn(NT/4)
		for t, end := start, start+g.r.Range(14, NT); t < end && t < NT; t++ {
			if g.r.Chance(7, 8) {
				rows = g.add(rows, s, t)
			}
		}
	default:
		n := g.r.Range(2, 12)
		if g.nser > 3 {
			n = g.r.Range(g.nser, 3*g.nser)
		}
		for i := 0; i < n; i++ {
			s := g.r.Intn(g.nser)
			var t int
			switch x := g.r.Intn(6); {
			case x >= 6-g.noise:
				t = g.r.Intn(NT)
			case x == 0:
				t = g.r.Intn(g.now[s] + 1)
			default:
				t = g.now[s] + g.r.Range(-3, 2)
			}
			rows = g.add(rows, s, t)
		}
	}
	for s := 0; s < g.nser; s++ {
		if g.now[s] < NT-1 {
			g.now[s] += g.r.Range(0, g.speed[s])
			if g.now[s] > NT-1 {
				g.now[s] = NT - 1
			}
		}
	}
	return rows
}

// staggered: a layout family - 2-3 ordered files in which every series covers its own stretch of time (the file's time
// range is wider than most of its chunks), then rewrites of stored points of any file, read from the memtable or from an
// out-of-order file.
func (g *genState) staggered() []Op {
	var ops []Op
	end := make([]int, g.nser)
	for gen_ := g.r.Range(2, 3); gen_ > 0; gen_-- {
		var rows []tsdrv.Row
		for s := 0; s < g.nser; s++ {
			from := end[s]
			end[s] = from + g.r.Range(2, 9)
			for t := from; t < end[s] && t < NT; t++ {
				if g.r.Chance(4, 5) {
					rows = g.add(rows, s, t)
				}
			}
			if end[s] > NT-1 {
				end[s] = NT - 1
			}
			g.now[s] = end[s]
		}
		if len(rows) > 0 {
			ops = append(ops, Op{K: "W", Rows: rows}, Op{K: "F"})
			g.flush()
		}
	}
	var keys [][2]int
	for k := range g.flushed {
		keys = append(keys, k)
	}
	sort.Slice(keys, func(a, b int) bool {
		return keys[a][0] < keys[b][0] || (keys[a][0] == keys[b][0] && keys[a][1] < keys[b][1])
	})
	if len(keys) == 0 {
		return ops
	}
	var rows []tsdrv.Row
	for k := g.r.Range(1, 5); k > 0; k-- {
		key := gen.Pick(g.r, keys)
		rows = g.add(rows, key[0], key[1])
	}
	ops = append(ops, Op{K: "W", Rows: rows})
	if g.r.Chance(1, 3) {
		ops = append(ops, Op{K: "F"})
		g.flush()
	}
	return append(ops, Op{K: "Q"})
}

func (g *genState) flush() {
	g.gen_++
	if len(g.pending) > 0 {
		g.lastGen = map[[2]int]bool{}
	}
	for k := range g.pending {
		g.flushed[k] = true
		g.lastGen[k] = true
	}
	g.pending = map[[2]int]bool{}
}

func genHistory(r *gen.Rand) (int, bool, []Op) {
	nser := 1
	switch x := r.Intn(20); {
	case x < 3:
		nser = 1
	case x < 8:
		nser = 2
	case x < 12:
		nser = 3
	case x < 17:
		nser = r.Range(4, 6)
	default:
		nser = r.Range(8, 12) // many series per tag group / sub-cursor
	}
	g := &genState{r: r, nser: nser, nodup: r.Chance(1, 2), seen: map[[2]int]int{}, flushed: map[[2]int]bool{}, pending: map[[2]int]bool{}, lastGen: map[[2]int]bool{}, noise: r.Intn(3)}
	for s := 0; s < nser; s++ {
		g.now = append(g.now, r.Range(1, 3))
		g.speed = append(g.speed, r.Range(1, 4))
	}
	n := r.Range(6, 16)
	if !g.nodup {
		n = r.Range(10, 22) // rewrites need files to rewrite into
	}
	var ops []Op
	if !g.nodup && r.Chance(2, 5) {
		ops = g.staggered()
	}
	for len(ops) < n {
		switch x := r.Intn(100); {
		case x < 45:
			g.rewrote = false
			if b := g.batch(); len(b) > 0 {
				ops = append(ops, Op{K: "W", Rows: b})
				if g.rewrote && r.Chance(2, 3) { // read the rewritten points while they sit in the memtable, or in an out-of-order file
					if r.Chance(1, 3) {
						ops = append(ops, Op{K: "F"})
						g.flush()
					}
					ops = append(ops, Op{K: "Q"})
				}
			}
		case x < 62:
			ops = append(ops, Op{K: "F"})
			g.flush()
			if r.Chance(1, 3) { // queries over files only (nothing left in the memtable)
				ops = append(ops, Op{K: "Q"})
			}
		case x < 68:
			ops = append(ops, Op{K: "LC", Level: r.Intn(2)})
		case x < 73:
			ops = append(ops, Op{K: "FC"})
		case x < 80:
			ops = append(ops, Op{K: "MO"})
		case x < 84:
			ops = append(ops, Op{K: "R"})
			g.flush()
		default:
			ops = append(ops, Op{K: "Q"})
		}
	}
	ops = append(ops, Op{K: "Q"})
	return g.nser, g.nodup, ops
}

// ---- queries ----

var fns = []string{"count", "sum", "min", "max", "first", "last"}

func fnApplies(fn string, f int) bool {
	switch fn {
	case "sum":
		return f <= 1
	case "min", "max":
		return f <= 2
	}
	return true
}

func hostOfTags(t map[string]string) string { return t["host"] }

func cellCode(f int, c engine.VerifCell) int64 {
	switch f {
	case 0:
		return c.I
	case 1:
		return int64(c.F * 4)
	case 2:
		if c.B {
			return 1
		}
		return 0
	default:
		for k, p := range tsdrv.StrPool {
			if p == c.S {
				return int64(k)
			}
		}
		return -1
	}
}

func bucketOf(t int, w int) int {
	if w == 0 {
		return -1
	}
	ns := tsdrv.TimeOf(t)
	wn := int64(w) * 1e9
	return tsdrv.IdxOf(ns - ns%wn)
}

// boundary-biased range ends: on / next to the per-series time ranges of the files, the time ranges of the SEGMENTS of
// every chunk seen so far, and (for bucketed statements) the bucket boundaries
func pickRange(r *gen.Rand, files []tsdrv.File, chunks []ChunkDump, bucket int) (int, int) {
	var cands []int
	for _, f := range files {
		for _, s := range f.Series {
			cands = append(cands, s.MinT-1, s.MinT, s.MinT+1, s.MaxT-1, s.MaxT, s.MaxT+1, (s.MinT+s.MaxT)/2)
		}
	}
	for _, ch := range chunks {
		if len(ch.Ranges) < 2 {
			continue
		}
		for _, rg := range ch.Ranges {
			cands = append(cands, rg[0]-1, rg[0], rg[1], rg[1]+1)
		}
	}
	if bucket > 0 {
		for t := 0; t < NT; t++ {
			if tsdrv.TimeOf(t)%(int64(bucket)*1e9) == 0 {
				cands = append(cands, t-1, t, t, t+1)
			}
		}
	}
	pick := func() int {
		if len(cands) > 0 && r.Chance(3, 4) {
			return gen.Pick(r, cands)
		}
		return r.Range(-1, NT)
	}
	a, b := pick(), pick()
	if a > b {
		a, b = b, a
	}
	if a < 0 {
		a = 0
	}
	if b < a {
		b = a
	}
	return a, b
}

// Call: one aggregate of a statement
type Call struct {
	Fn    string `json:"fn"`
	Field int    `json:"field"`
}

// tag predicates carry the ::tag cast: the export does not run the compiler pass that types the VarRefs of the condition
var tagFilters = []string{"host::tag = 'h0'", "host::tag != 'h0'", "zone::tag = 'z1'", "zone::tag = 'z0'"}

func zoneOfHost(host string) string {
	if len(host) > 1 {
		if n, err := strconv.Atoi(host[1:]); err == nil {
			return "z" + strconv.Itoa(n%2)
		}
	}
	return ""
}

// groupOfHost: the group a series (host) belongs to under the statement's GROUP BY
func groupOfHost(groupBy, host string) string {
	switch groupBy {
	case "host":
		return host
	case "zone":
		return zoneOfHost(host)
	}
	return "*"
}

func tagFilterKeeps(tf string, host string) bool {
	switch tf {
	case tagFilters[0]:
		return host == "h0"
	case tagFilters[1]:
		return host != "h0"
	case tagFilters[2]:
		return zoneOfHost(host) == "z1"
	case tagFilters[3]:
		return zoneOfHost(host) == "z0"
	}
	return true
}

func (h *History) query(sh *tsdrv.Shard, opi int, r *gen.Rand, files []tsdrv.File) {
	// 1-3 aggregates, mostly over DIFFERENT fields (a column all-null in one container must not disturb the others)
	ncall := 1
	switch r.Intn(10) {
	case 0, 1, 2, 3:
		ncall = 2
	case 4, 5:
		ncall = 3
	}
	var calls []Call
	used := map[int]bool{}
	for len(calls) < ncall {
		f := r.Intn(4)
		if used[f] && r.Chance(3, 4) {
			continue
		}
		fn := gen.Pick(r, fns)
		for !fnApplies(fn, f) {
			fn = gen.Pick(r, fns)
		}
		if f <= 1 && r.Chance(1, 7) {
			fn = "mean" // first-class mean(x): the reader ships sum(x) and count(x)
		}
		dupCall := false
		for _, cl := range calls {
			if cl.Fn == fn && cl.Field == f {
				dupCall = true // the statement compiler folds identical calls into one column
			}
			isSC := func(x string) bool { return x == "mean" || x == "sum" || x == "count" }
			if cl.Field == f && isSC(cl.Fn) && isSC(fn) && (cl.Fn == "mean" || fn == "mean") {
				dupCall = true // mean(x) ships sum(x) and count(x): would be folded with an explicit sum(x) / count(x)
			}
		}
		if dupCall {
			continue
		}
		used[f] = true
		calls = append(calls, Call{fn, f})
	}
	if r.Chance(1, 12) { // the explicit sum/count pair
		f := r.Intn(2)
		calls = []Call{{"sum", f}, {"count", f}}
		if r.Bool() {
			g := (f + 1 + r.Intn(3)) % 4
			calls = append(calls, Call{"count", g})
		}
	}
	c := Check{Op: opi, GroupBy: "host"}
	mode := r.Intn(8)
	switch mode {
	case 0, 1:
		c.Hint = true
	case 2:
		c.Filter = true
	case 3:
		c.Bucket = gen.Pick(r, []int{2, 3, 5})
	}
	gb := r.Intn(20)
	if h.NSer >= 3 { // more series: more statements whose groups hold several series
		gb /= 2
	}
	switch {
	case gb < 4:
		c.GroupBy = "zone" // several series per group: cross-series time ties
	case gb < 6:
		c.GroupBy = ""
	}
	c.Desc = r.Chance(1, 6)
	if r.Chance(1, 6) {
		c.TagFilter = gen.Pick(r, tagFilters)
	}
	if r.Chance(1, 8) { // one selector + an auxiliary field
		f := r.Intn(4)
		fn := gen.Pick(r, []string{"min", "max", "first", "last"})
		for !fnApplies(fn, f) {
			fn = gen.Pick(r, []string{"first", "last"})
		}
		calls = []Call{{fn, f}}
		c.HasAux, c.AuxField = true, (f+1+r.Intn(3))%4
		c.GroupBy, c.Bucket = "host", 0
	}
	lo, hi := pickRange(r, files, h.Chunks, c.Bucket)
	fixed := false
	fx := os.Getenv("VERIF_FIX")
	if h.Fix != "" {
		fx = h.Fix
	}
	forceHint := strings.HasPrefix(fx, "MULTIH:") // same with the exact-statistics hint (row path)
	if forceHint {
		fx = "MULTI:" + strings.TrimPrefix(fx, "MULTIH:")
	}
	if strings.HasPrefix(fx, "MULTI:") { // corpus: MULTI:fn:field,fn:field;lo;hi[;flag,flag]  (shortcut path unless a flag says otherwise)
		parts := strings.Split(strings.TrimPrefix(fx, "MULTI:"), ";")
		if len(parts) >= 3 {
			calls = nil
			for _, cs := range strings.Split(parts[0], ",") {
				kv := strings.Split(cs, ":")
				fi, _ := strconv.Atoi(kv[1])
				calls = append(calls, Call{kv[0], fi})
			}
			lo, _ = strconv.Atoi(parts[1])
			hi, _ = strconv.Atoi(parts[2])
			fixed = true
			c.Hint, c.Filter, c.Bucket, c.Desc, c.GroupBy, c.TagFilter, c.HasAux = forceHint, false, 0, false, "host", "", false
			if len(parts) >= 4 {
				for _, fl := range strings.Split(parts[3], ",") {
					switch {
					case fl == "desc":
						c.Desc = true
					case fl == "zone":
						c.GroupBy = "zone"
					case fl == "nogroup":
						c.GroupBy = ""
					case fl == "hint":
						c.Hint = true
					case strings.HasPrefix(fl, "aux="):
						c.HasAux = true
						c.AuxField, _ = strconv.Atoi(strings.TrimPrefix(fl, "aux="))
					case strings.HasPrefix(fl, "tf="):
						k, _ := strconv.Atoi(strings.TrimPrefix(fl, "tf="))
						c.TagFilter = tagFilters[k%len(tagFilters)]
					case strings.HasPrefix(fl, "bucket="):
						c.Bucket, _ = strconv.Atoi(strings.TrimPrefix(fl, "bucket="))
					}
				}
			}
		}
	} else if fx != "" { // corpus cases / debugging aid: field,lo,hi,fn on the shortcut path
		var a, b, cc int
		var name string
		if n, _ := fmt.Sscanf(fx, "%d,%d,%d,%s", &a, &b, &cc, &name); n == 4 {
			lo, hi, fixed = b, cc, true
			calls = []Call{{name, a}}
			c.Hint, c.Filter, c.Bucket, c.Desc, c.GroupBy, c.TagFilter, c.HasAux = false, false, 0, false, "host", "", false
		}
	}
	if os.Getenv("VERIF_DESC") != "" {
		c.Desc = true
	}
	_ = fixed
	c.Fn, c.Field, c.Calls, c.Lo, c.Hi = calls[0].Fn, calls[0].Field, calls, lo, hi
	where := fmt.Sprintf("time >= %d AND time <= %d", tsdrv.TimeOf(lo), tsdrv.TimeOf(hi))
	if c.Filter {
		ff := r.Intn(2) // filter on fa_int or fb_float
		where += fmt.Sprintf(" AND %s >= %d", tsdrv.FieldNames[ff], r.Range(-2, 8))
	}
	if c.TagFilter != "" {
		where += " AND " + c.TagFilter
	}
	hint := ""
	if c.Hint {
		hint = "/*+ Exact_Statistic_Query */ "
	}
	var dims []string
	if c.Bucket > 0 {
		dims = append(dims, fmt.Sprintf("time(%ds)", c.Bucket))
	}
	if c.GroupBy != "" {
		dims = append(dims, c.GroupBy)
	}
	grp := ""
	if len(dims) > 0 {
		grp = " GROUP BY " + strings.Join(dims, ", ")
	}
	orderBy := ""
	if c.Desc {
		orderBy = " ORDER BY time DESC"
	}
	sel := ""
	for i, cl := range calls {
		if i > 0 {
			sel += ", "
		}
		sel += fmt.Sprintf("%s(%s)", cl.Fn, tsdrv.FieldNames[cl.Field])
	}
	if c.HasAux {
		sel += ", " + tsdrv.FieldNames[c.AuxField]
	}
	c.SQL = fmt.Sprintf("SELECT %s%s FROM m WHERE %s%s%s", hint, sel, where, grp, orderBy)
	// hosts per group (signatures of the older findings are per series)
	c.GroupHosts = map[string][]string{}
	for sr := 0; sr < h.NSer; sr++ {
		host := "h" + strconv.Itoa(sr)
		if tagFilterKeeps(c.TagFilter, host) {
			g := groupOfHost(c.GroupBy, host)
			c.GroupHosts[g] = append(c.GroupHosts[g], host)
		}
	}
	for sr := 0; sr < h.NSer; sr++ {
		for k := range h.dupKeys {
			if k[0] == sr && k[1] >= lo && k[1] <= hi {
				c.SigDup = append(c.SigDup, "h"+strconv.Itoa(sr))
				break
			}
		}
	}
	for _, cl := range calls {
		if cl.Fn == "first" || cl.Fn == "last" {
			for _, fl := range files {
				for _, sr := range fl.Series {
					if sr.Segments >= 2 && ((cl.Fn == "first" && sr.MinT < lo && lo <= sr.MaxT) || (cl.Fn == "last" && sr.MinT <= hi && hi < sr.MaxT)) {
						c.SigChunkTime = append(c.SigChunkTime, "h"+strconv.Itoa(sr.S))
					}
				}
			}
		}
	}
	for ci, cl := range calls {
		if cl.Fn != "last" || len(calls) < 2 {
			continue
		}
		for sr := 0; sr < h.NSer; sr++ {
			lastOwn, lastOther := -1, -1
			for k, mask := range h.mem {
				if k[0] != sr || k[1] < lo || k[1] > hi {
					continue
				}
				if mask&(1<<uint(cl.Field)) != 0 && k[1] > lastOwn {
					lastOwn = k[1]
				}
				for cj, other := range calls {
					if cj != ci && other.Field != cl.Field && mask&(1<<uint(other.Field)) != 0 && mask&(1<<uint(cl.Field)) == 0 && k[1] > lastOther {
						lastOther = k[1]
					}
				}
			}
			if lastOwn >= 0 && lastOther > lastOwn {
				c.SigMemLast = append(c.SigMemLast, fmt.Sprintf("%d:h%d", ci, sr))
			}
		}
	}
	aggRows, info, err := sh.Select(c.SQL)
	if err != nil {
		c.Fail = "aggregate query error: " + err.Error()
		h.Checks = append(h.Checks, c)
		return
	}
	if info != nil {
		c.PreAgg = info.MatchPreAgg && !c.Hint
		c.SchemaPreAgg = info.MatchPreAgg
	}
	c.Compared = c.Hint || c.Filter || c.Bucket > 0 || !h.Dup
	if !c.Compared {
		c.Skipped = "no hint/filter/bucket and the history has a cross-generation duplicate (excluded by the statement)"
	}
	// the paired plain select, one per field, always grouped by host (so that every row is attributed to its series):
	// rows per group of the aggregate statement
	rowsByField := map[int]map[string][]PRow{}
	for _, cl := range calls {
		if _, ok := rowsByField[cl.Field]; ok {
			continue
		}
		plain := fmt.Sprintf("SELECT %s FROM m WHERE %s GROUP BY host%s", tsdrv.FieldNames[cl.Field], where, orderBy)
		xi, ai := 0, 1 // the plain select's columns come in field order whatever the statement says
		if c.HasAux {
			lof, hif := cl.Field, c.AuxField
			if lof > hif {
				lof, hif, xi, ai = hif, lof, 1, 0
			}
			plain = fmt.Sprintf("SELECT %s, %s FROM m WHERE %s GROUP BY host%s", tsdrv.FieldNames[lof], tsdrv.FieldNames[hif], where, orderBy)
		}
		if c.Plain != "" {
			c.Plain += " ; "
		}
		c.Plain += plain
		plainRows, _, err := sh.Select(plain)
		if err != nil {
			c.Fail = "plain query error: " + err.Error()
			h.Checks = append(h.Checks, c)
			return
		}
		m := map[string][]PRow{}
		for _, pr := range plainRows {
			want := 1
			if c.HasAux {
				want = 2
			}
			if len(pr.Cells) != want || pr.Cells[xi].Nil {
				continue
			}
			t := tsdrv.IdxOf(pr.Time)
			g := groupOfHost(c.GroupBy, hostOfTags(pr.Tags))
			if c.Bucket > 0 {
				g += "/" + strconv.Itoa(bucketOf(t, c.Bucket))
			}
			row := PRow{T: t, V: cellCode(cl.Field, pr.Cells[xi])}
			if c.HasAux && !pr.Cells[ai].Nil {
				av := cellCode(c.AuxField, pr.Cells[ai])
				row.A = &av
			}
			m[g] = append(m[g], row)
		}
		rowsByField[cl.Field] = m
	}
	// output columns are positional: one per call, in statement order; mean(x) takes two (sum(x), count(x))
	colOf := make([]int, len(calls))
	ncols := 0
	for i, cl := range calls {
		colOf[i] = ncols
		ncols++
		if cl.Fn == "mean" {
			ncols++
		}
	}
	if c.HasAux {
		ncols++
	}
	type part struct {
		v int64
		t int
	}
	aggGroup := func(ar engine.VerifAggRow) string {
		g := "*"
		switch c.GroupBy {
		case "host":
			g = ar.Tags["host"]
		case "zone":
			g = ar.Tags["zone"]
		}
		if c.Bucket > 0 {
			g += "/" + strconv.Itoa(bucketOf(tsdrv.IdxOf(ar.Time), c.Bucket))
		}
		return g
	}
	// collect the partial results of output column `col` per group
	collect := func(col int, f int, isCount bool) map[string][]part {
		parts := map[string][]part{}
		for _, ar := range aggRows {
			if len(ar.Cells) != ncols || col >= len(ar.Cells) {
				c.Fail = fmt.Sprintf("aggregate row with %d cells", len(ar.Cells))
				break
			}
			cell := ar.Cells[col]
			if cell.Nil {
				continue
			}
			var v int64
			if isCount {
				v = cell.I
			} else {
				v = cellCode(f, cell)
			}
			if os.Getenv("VERIF_DEBUG") != "" {
				fmt.Fprintf(os.Stderr, "DBG %s col=%d group=%s S=%q I=%d F=%v B=%v celltime=%d rowtime=%d\n", c.SQL, col, aggGroup(ar), cell.S, cell.I, cell.F, cell.B, tsdrv.IdxOf(cell.Time), tsdrv.IdxOf(ar.Time))
			}
			parts[aggGroup(ar)] = append(parts[aggGroup(ar)], part{v, tsdrv.IdxOf(cell.Time)})
		}
		return parts
	}
	combine := func(fn string, ps []part) (int64, int, bool) {
		if len(ps) == 0 {
			return 0, -1, true
		}
		v, t := ps[0].v, ps[0].t
		for _, p := range ps[1:] {
			switch fn {
			case "count", "sum":
				v += p.v
			case "min":
				if p.v < v {
					v, t = p.v, p.t
				}
			case "max":
				if p.v > v {
					v, t = p.v, p.t
				}
			case "first":
				if p.t < t {
					v, t = p.v, p.t
				}
			case "last":
				if p.t > t {
					v, t = p.v, p.t
				}
			}
		}
		return v, t, false
	}
	for ci, cl := range calls {
		fn, f := cl.Fn, cl.Field
		rowsOf := rowsByField[f]
		var parts, cparts map[string][]part
		if fn == "mean" {
			parts, cparts = collect(colOf[ci], f, false), collect(colOf[ci]+1, f, true)
		} else {
			parts = collect(colOf[ci], f, fn == "count")
		}
		groups := map[string]bool{}
		for g := range rowsOf {
			groups[g] = true
		}
		for g := range parts {
			groups[g] = true
		}
		for g := range cparts {
			groups[g] = true
		}
		var names []string
		for g := range groups {
			names = append(names, g)
		}
		sort.Strings(names)
		for _, g := range names {
			a := Agg{Group: g, Rows: rowsOf[g], T: -1, Col: ci, Fn: fn, Field: f}
			cfn := fn
			if fn == "mean" {
				cfn = "sum"
				var cnull bool
				a.Cnt, _, cnull = combine("count", cparts[g])
				if cnull {
					a.Cnt = 0
				}
			}
			a.V, a.T, a.Null = combine(cfn, parts[g])
			if a.Null {
				a.V, a.T = 0, -1
			}
			// DIRECT ORACLE: the function over the rows the plain select returns for this field
			rows := rowsOf[g]
			a.WantOK = true
			if c.Compared && !strings.HasSuffix(c.Fail, "cells") {
				var want int64
				wantNull := len(rows) == 0
				ok := true
				switch fn {
				case "count":
					want = int64(len(rows))
					if wantNull { // count over no rows: no value at all, or 0
						ok = a.Null || a.V == 0
					} else {
						ok = !a.Null && a.V == want
					}
				case "sum", "mean":
					for _, x := range rows {
						want += x.V
					}
					if wantNull {
						ok = a.Null && (fn == "sum" || a.Cnt == 0)
					} else {
						ok = !a.Null && a.V == want && (fn == "sum" || a.Cnt == int64(len(rows)))
					}
				case "min", "max":
					if wantNull {
						ok = a.Null
					} else {
						want = rows[0].V
						for _, x := range rows {
							if (fn == "min" && x.V < want) || (fn == "max" && x.V > want) {
								want = x.V
							}
						}
						ok = !a.Null && a.V == want
					}
				case "first", "last":
					// first = the value with the smallest time, last = the greatest time, whatever the ORDER BY (documented
					// meaning; the executor's own FirstReduce / LastReduce compare times); rows of several series with the same
					// time: any of them
					if wantNull {
						ok = a.Null
					} else {
						bt := rows[0].T
						for _, x := range rows {
							if (fn == "first" && x.T < bt) || (fn == "last" && x.T > bt) {
								bt = x.T
							}
						}
						ok = false
						for _, x := range rows {
							if x.T == bt && !a.Null && x.V == a.V {
								ok = true
							}
						}
					}
				}
				if !ok {
					a.WantOK = false
					if c.Fail == "" {
						c.Fail = fmt.Sprintf("group %s: %s(%s) returned %v (null=%v) but the rows of the plain select give a different value", g, fn, tsdrv.FieldNames[f], a.V, a.Null)
					}
					c.FailGroups = append(c.FailGroups, g)
					c.FailCols = append(c.FailCols, fmt.Sprintf("%d:%s", ci, g))
				}
			}
			c.Groups = append(c.Groups, a)
		}
	}
	if c.HasAux && c.Fail == "" && c.Compared {
		// the aux value must be the aux field of a row the selector may have picked: same value as the result, and for
		// first / last the extreme time. The winning partial result is chosen as `combine` does.
		fn, f := calls[0].Fn, calls[0].Field
		type win struct {
			v    int64
			t    int
			aux  *int64
			seen bool
		}
		wins := map[string]*win{}
		for _, ar := range aggRows {
			if len(ar.Cells) != 2 || ar.Cells[0].Nil {
				continue
			}
			g := aggGroup(ar)
			v, t := cellCode(f, ar.Cells[0]), tsdrv.IdxOf(ar.Cells[0].Time)
			var aux *int64
			if !ar.Cells[1].Nil {
				av := cellCode(c.AuxField, ar.Cells[1])
				aux = &av
			}
			w := wins[g]
			if w == nil {
				wins[g] = &win{v, t, aux, true}
				continue
			}
			better := (fn == "min" && v < w.v) || (fn == "max" && v > w.v) || (fn == "first" && t < w.t) || (fn == "last" && t > w.t)
			if better {
				*w = win{v, t, aux, true}
			}
		}
		for g, w := range wins {
			rows := rowsByField[f][g]
			if len(rows) == 0 {
				continue
			}
			bt := rows[0].T
			for _, x := range rows {
				if (fn == "first" && x.T < bt) || (fn == "last" && x.T > bt) {
					bt = x.T
				}
			}
			ok, cands := false, 0
			for _, x := range rows {
				if x.V != w.v || ((fn == "first" || fn == "last") && x.T != bt) {
					continue
				}
				cands++
				if (x.A == nil && w.aux == nil) || (x.A != nil && w.aux != nil && *x.A == *w.aux) {
					ok = true
				}
			}
			if cands == 0 {
				continue // the call's own value is wrong: reported by the oracle above
			}
			c.AuxChecked++
			for gi := range c.Groups {
				if c.Groups[gi].Group == g && c.Groups[gi].Col == 0 {
					c.Groups[gi].AuxSeen, c.Groups[gi].AuxGot, c.Groups[gi].AuxOK = true, w.aux, ok
				}
			}
			if !ok {
				c.AuxFailGroups = append(c.AuxFailGroups, g)
			}
			if !ok && c.AuxFail == "" {
				got := "null"
				if w.aux != nil {
					got = strconv.FormatInt(*w.aux, 10)
				}
				c.AuxFail = fmt.Sprintf("group %s: %s(%s)=%d, aux %s=%s is not the aux value of a row carrying the selected value", g, fn, tsdrv.FieldNames[f], w.v, tsdrv.FieldNames[c.AuxField], got)
			}
		}
	}
	h.Checks = append(h.Checks, c)
}

func runHistory(idx int, work string, nser int, nodup bool, ops []Op, qr *gen.Rand) History {
	return runHistoryFix(idx, work, nser, nodup, ops, qr, "")
}

func runHistoryFix(idx int, work string, nser int, nodup bool, ops []Op, qr *gen.Rand, fix string) (h History) {
	h = History{Case: idx, NSer: nser, NoDup: nodup, Ops: ops, Fix: fix}
	dir := filepath.Join(work, "c09", strconv.Itoa(idx))
	_ = os.RemoveAll(dir)
	defer os.RemoveAll(dir)
	defer func() {
		if e := recover(); e != nil {
			h.Crash = fmt.Sprint("panic: ", e)
			if os.Getenv("VERIF_DEBUG") != "" {
				fmt.Fprintf(os.Stderr, "PANIC %v\n%s\n", e, debug.Stack())
			}
		}
	}()
	tsdrv.SetWalPartitions(1)
	sh, err := tsdrv.Open(dir, nser)
	if err != nil {
		h.Crash = "open: " + err.Error()
		return
	}
	defer func() { _ = sh.Close() }()
	gen_ := 0
	firstGen := map[[2]int]int{}
	h.mem = map[[2]int]int{}
	h.seenChunk = map[string]bool{}
	h.dupKeys = map[[2]int]bool{}
	cr := gen.FromEnv(uint64(7007 + idx))
	for i := range ops {
		op := &ops[i]
		switch op.K {
		case "W":
			for _, r := range op.Rows {
				k := [2]int{r.S, r.T}
				if g0, ok := firstGen[k]; ok && g0 != gen_ {
					h.Dup = true
					h.dupKeys[k] = true
				} else if !ok {
					firstGen[k] = gen_
				}
				for _, fv := range r.F {
					h.mem[k] |= 1 << uint(fv.F)
				}
			}
			if err := sh.Write(op.Rows); err != nil {
				h.Crash = "write: " + err.Error()
				return
			}
		case "F":
			sh.V.ForceFlush()
			gen_++
			h.mem = map[[2]int]int{}
		case "LC":
			sh.V.SetBackground(true, false)
			_ = sh.V.LevelCompact(uint16(op.Level))
			sh.V.SetBackground(false, false)
		case "FC":
			sh.V.SetBackground(true, false)
			_ = sh.V.FullCompact()
			sh.V.SetBackground(false, false)
		case "MO":
			sh.V.SetBackground(false, true)
			_ = sh.V.MergeOutOfOrder(false, true)
			sh.V.SetBackground(false, false)
		case "R":
			if err := sh.Reopen(); err != nil {
				h.Crash = "reopen: " + err.Error()
				return
			}
			gen_++
			h.mem = map[[2]int]int{}
		case "Q":
			files, err := sh.Files()
			if err != nil {
				h.Crash = "files: " + err.Error()
				return
			}
			h.Files, h.OOO = len(files), 0
			for _, f := range files {
				if !f.Order {
					h.OOO++
				}
				for _, s := range f.Series {
					if s.Segments > h.MaxSegs {
						h.MaxSegs = s.Segments
					}
				}
			}
			if os.Getenv("VERIF_NOCHUNKS") == "" {
				if err := h.dumpChunks(sh, cr); err != nil && h.ChunkErr == "" {
					h.ChunkErr = err.Error()
				}
			}
			nq := 6
			if h.Fix != "" {
				nq = 1
			}
			for q := 0; q < nq; q++ {
				h.query(sh, i, qr, files)
			}
		}
	}
	return
}

func main() {
	flag.Parse()
	args := flag.Args()
	n := 150
	if len(args) > 0 {
		n, _ = strconv.Atoi(args[0])
	}
	work := os.Getenv("VERIF_WORK")
	if work == "" {
		work = filepath.Join(os.TempDir(), "verif-c09")
	}
	if v := os.Getenv("VERIF_SEGROWS"); v != "" {
		segRows, _ = strconv.Atoi(v)
	}
	tsdrv.MaxRowsPerSegment = segRows
	if err := tsdrv.Init(work); err != nil {
		fmt.Fprintln(os.Stderr, "init:", err)
		os.Exit(2)
	}
	enc := json.NewEncoder(os.Stdout)
	if len(args) > 1 { // replay
		b, err := os.ReadFile(args[1])
		if err != nil {
			fmt.Fprintln(os.Stderr, err)
			os.Exit(2)
		}
		var h History
		if err := json.Unmarshal(b, &h); err != nil {
			fmt.Fprintln(os.Stderr, err)
			os.Exit(2)
		}
		out := runHistoryFix(h.Case, work, h.NSer, h.NoDup, h.Ops, gen.FromEnv(uint64(9009+h.Case)), h.Fix)
		_ = enc.Encode(out)
		return
	}
	if dir := os.Getenv("VERIF_CORPUS"); dir != "" {
		names, _ := filepath.Glob(filepath.Join(dir, "*.case"))
		sort.Strings(names)
		for k, p := range names {
			b, err := os.ReadFile(p)
			if err != nil {
				continue
			}
			var h History
			if json.Unmarshal(b, &h) != nil {
				continue
			}
			out := runHistoryFix(100000+k, work, h.NSer, h.NoDup, h.Ops, gen.FromEnv(uint64(9009+k)), h.Fix)
			_ = enc.Encode(out)
		}
	}
	if os.Getenv("VERIF_NOMEM") == "" {
		mr := gen.FromEnv(4242)
		nm := 4 * n
		var mcs []MemCase
		for i := 0; i < nm; i++ {
			mcs = append(mcs, runMemCase(mr.Fork()))
		}
		_ = enc.Encode(map[string]interface{}{"memcases": mcs})
		ar := gen.FromEnv(5151)
		var acs []AggCase
		for i := 0; i < 6*n; i++ {
			acs = append(acs, runAggCase(ar.Fork()))
		}
		_ = enc.Encode(map[string]interface{}{"aggcases": acs})
	}
	master := gen.FromEnv(9)
	for i := 0; i < n; i++ {
		r := master.Fork()
		nser, nodup, ops := genHistory(r)
		if only := os.Getenv("VERIF_ONLY"); only != "" && only != strconv.Itoa(i) {
			continue
		}
		out := runHistory(i, work, nser, nodup, ops, gen.FromEnv(uint64(9009+i)))
		_ = enc.Encode(out)
	}
}
