// C09 component-level tie (second part of the harness):
//
//  1. STORED STATISTICS: for every data file the history produced (after flush / compaction / merge) and every series
//     in it, the chunk meta is read through the real reader, the per-column chunk statistics (ColumnMeta.preAgg: count,
//     sum, min and max with their times) are decoded the way readers decode them, every segment is decoded
//     (TSSPFile.ReadAt), and both are handed to the Coq model (build_stats of the decoded rows must equal what is
//     stored) - after a Go-side direct comparison.
//  2. CHUNK READS: on the same chunk the real pre-aggregation read (immutable.Location.Contains + ReadData with
//     ReadContext.ops = one call, exactly what tsmMergeCursor does per file) is run for count / sum / min / max / first /
//     last of every field over boundary-biased time ranges, ascending and descending; the partial result (value AND
//     time) goes to the Coq model of the chunk reader (chunk_partial_repaired / _current).
//  3. MEMTABLE BUILDERS: recordIter.readMemTableMetaRecord is run on generated records (ascending times, 1-3 selected
//     columns of the four types, every row non-null in at least one selected column); the statistics it leaves in
//     RecMeta go to the Coq model (mem_stats_repaired / _current).
package main

import (
	"fmt"
	"math"
	"sort"

	"github.com/openGemini/openGemini/engine"
	"github.com/openGemini/openGemini/engine/comm"
	"github.com/openGemini/openGemini/engine/immutable"
	"github.com/openGemini/openGemini/lib/fileops"
	"github.com/openGemini/openGemini/lib/record"
	"github.com/openGemini/openGemini/lib/util"
	"github.com/openGemini/openGemini/lib/util/lifted/influx/influxql"
	"verifharness/internal/gen"
	"verifharness/internal/tsdrv"
)

// SRow: one decoded row of a segment: time index and the four field codes (nil = null)
type SRow struct {
	T int      `json:"t"`
	V []*int64 `json:"v"`
}

// ColStat: the stored chunk-level statistics of one field (codes as in tsdrv)
type ColStat struct {
	F      int   `json:"f"`
	Count  int64 `json:"count"`
	HasMM  bool  `json:"hasmm"`
	Min    int64 `json:"min"`
	MinT   int   `json:"mint"`
	Max    int64 `json:"max"`
	MaxT   int   `json:"maxt"`
	HasSum bool  `json:"hassum"`
	Sum    int64 `json:"sum"`
}

// Read: one pre-aggregation read of the chunk
type Read struct {
	Lo   int    `json:"lo"`
	Hi   int    `json:"hi"`
	Asc  bool   `json:"asc"`
	F    int    `json:"f"`
	Fn   string `json:"fn"`
	Null bool   `json:"null"`
	V    int64  `json:"v"`
	T    int    `json:"t"` // time of the partial result (min/max/first/last), -1 otherwise
	OK   bool   `json:"ok"`
	Why  string `json:"why,omitempty"`
}

type ChunkDump struct {
	Seq       uint64    `json:"seq"`
	Level     int       `json:"level"`
	Order     bool      `json:"order"`
	Series    int       `json:"series"`
	Segs      [][]SRow  `json:"segs"`
	Ranges    [][2]int  `json:"ranges"`
	Stats     []ColStat `json:"stats"`
	TimeCount int64     `json:"time_count"`
	Reads     []Read    `json:"reads"`
	StatFail  string    `json:"stat_fail,omitempty"` // Go-side direct comparison of stored statistics with the decoded rows
	// StatTimeFail: values right, but the stored time of an integer / float min / max is not the earliest row carrying it
	StatTimeFail string   `json:"stat_time_fail,omitempty"`
	AllNullCols  []int    `json:"all_null_cols,omitempty"`
	TimeOnly     []string `json:"time_only,omitempty"` // observations: statistics whose VALUE is right but whose time is not
}

var fullSchema = func() record.Schemas {
	var s record.Schemas
	for i, n := range tsdrv.FieldNames {
		s = append(s, record.Field{Name: n, Type: int(tsdrv.FieldTypes[i])})
	}
	s = append(s, record.Field{Name: record.TimeField, Type: int(tsdrv.FieldTypes[0])})
	return s
}()

func codeOfIface(f int, v interface{}) (int64, bool) {
	switch x := v.(type) {
	case int64:
		return x, true
	case float64:
		c := x * 4
		if c != math.Trunc(c) || math.IsInf(c, 0) || math.IsNaN(c) {
			return math.MinInt64, true
		}
		return int64(c), true
	case bool:
		if x {
			return 1, true
		}
		return 0, true
	case string:
		for k, p := range tsdrv.StrPool {
			if p == x {
				return int64(k), true
			}
		}
		return math.MinInt64, true
	}
	return 0, false
}

func colCode(f int, col *record.ColVal, i int) *int64 {
	var v int64
	switch f {
	case 0:
		x, isNil := col.IntegerValue(i)
		if isNil {
			return nil
		}
		v = x
	case 1:
		x, isNil := col.FloatValue(i)
		if isNil {
			return nil
		}
		v, _ = codeOfIface(f, x)
	case 2:
		x, isNil := col.BooleanValue(i)
		if isNil {
			return nil
		}
		v, _ = codeOfIface(f, x)
	default:
		x, isNil := col.StringValueSafe(i)
		if isNil {
			return nil
		}
		v, _ = codeOfIface(f, x)
	}
	return &v
}

// ---- expected values over decoded rows (Go-side direct oracle) ----

type vt struct {
	v int64
	t int
}

func rowsInRange(segs [][]SRow, f, lo, hi int) []vt {
	var out []vt
	for _, s := range segs {
		for _, r := range s {
			if r.T >= lo && r.T <= hi && r.V[f] != nil {
				out = append(out, vt{*r.V[f], r.T})
			}
		}
	}
	return out
}

// expect: value, time, null for fn over rows (rows are in ascending time order)
func expect(fn string, rows []vt) (int64, int, bool) {
	if len(rows) == 0 {
		return 0, -1, true
	}
	switch fn {
	case "count":
		return int64(len(rows)), -1, false
	case "sum":
		var s int64
		for _, r := range rows {
			s += r.v
		}
		return s, -1, false
	case "min", "max":
		b := rows[0]
		for _, r := range rows[1:] {
			if (fn == "min" && r.v < b.v) || (fn == "max" && r.v > b.v) {
				b = r
			}
		}
		return b.v, b.t, false
	case "first":
		return rows[0].v, rows[0].t, false
	}
	return rows[len(rows)-1].v, rows[len(rows)-1].t, false
}

func callOf(fn string, f int) *comm.CallOption {
	ref := &influxql.VarRef{Val: tsdrv.FieldNames[f], Type: tsdrv.FieldQL[f]}
	return &comm.CallOption{Call: &influxql.Call{Name: fn, Args: []influxql.Expr{ref}}, Ref: ref}
}

// preAggRead runs the real per-file pre-aggregation read for one call: Location.Contains + ReadData, the sequence of
// AddLocations / tsmMergeCursor.readData.
func preAggRead(file immutable.TSSPFile, sid uint64, f int, fn string, lo, hi int, asc bool) (Read, error) {
	rd := Read{Lo: lo, Hi: hi, Asc: asc, F: f, Fn: fn, T: -1}
	schema := record.Schemas{fullSchema[f], fullSchema[len(fullSchema)-1]}
	ops := []*comm.CallOption{callOf(fn, f)}
	tr := util.TimeRange{Min: tsdrv.TimeOf(lo), Max: tsdrv.TimeOf(hi)}
	ctx := immutable.NewReadContext(asc)
	defer ctx.Release()
	ctx.Set(asc, tr, false, ops)
	loc := immutable.NewLocation(file, ctx)
	mctx := immutable.NewChunkMetaContext(schema)
	defer mctx.Release()
	ok, err := loc.Contains(sid, tr, mctx)
	if err != nil {
		return rd, err
	}
	rd.Null = true
	if !ok {
		return rd, nil
	}
	dst := record.NewRecordBuilder(schema)
	fo := immutable.NewFilterOpts(nil, &immutable.BaseFilterOptions{}, nil, nil)
	rec, err := loc.ReadData(fo, dst, nil)
	if err != nil {
		return rd, err
	}
	if rec == nil || rec.RecMeta == nil || len(rec.ColMeta) < 1 {
		return rd, nil
	}
	m := &rec.ColMeta[0]
	var v interface{}
	var t int64
	hasT := true
	switch fn {
	case "count":
		v, hasT = m.Count(), false
	case "sum":
		v, hasT = m.Sum(), false
	case "min":
		v, t = m.Min()
	case "max":
		v, t = m.Max()
	case "first":
		v, t = m.First()
	case "last":
		v, t = m.Last()
	}
	if immutable.IsInterfaceNil(v) {
		return rd, nil
	}
	c, ok2 := codeOfIface(f, v)
	if !ok2 {
		return rd, fmt.Errorf("statistic of unexpected type %T", v)
	}
	if fn == "count" {
		c = v.(int64)
	}
	rd.Null, rd.V = false, c
	if hasT {
		rd.T = tsdrv.IdxOf(t)
		if tsdrv.TimeOf(rd.T) != t {
			rd.T = -1000000 // a time off the grid: never a row's time
		}
	}
	return rd, nil
}

func dumpChunk(file immutable.TSSPFile, order bool, sid uint64, series int, r *gen.Rand) (*ChunkDump, error) {
	full := util.TimeRange{Min: influxql.MinTime, Max: influxql.MaxTime}
	cm, err := engine.VerifChunkMeta(file, sid, full)
	if err != nil || cm == nil {
		return nil, err
	}
	lv, seq := file.LevelAndSequence()
	d := &ChunkDump{Seq: seq, Level: int(lv), Order: order, Series: series}
	stats, ranges, err := immutable.VerifC09Stats(cm)
	if err != nil {
		return nil, err
	}
	for _, rg := range ranges {
		d.Ranges = append(d.Ranges, [2]int{tsdrv.IdxOf(rg[0]), tsdrv.IdxOf(rg[1])})
	}
	// decode every segment through the real reader
	for seg := 0; seg < cm.SegmentCount(); seg++ {
		rec := record.NewRecordBuilder(fullSchema)
		ctx := immutable.NewReadContext(true)
		got, err := file.ReadAt(cm, seg, rec, ctx, fileops.IO_PRIORITY_ULTRA_HIGH)
		if err != nil {
			ctx.Release()
			return nil, err
		}
		var rows []SRow
		if got != nil {
			times := got.Times()
			for i := range times {
				row := SRow{T: tsdrv.IdxOf(times[i]), V: make([]*int64, tsdrv.NFields)}
				for f := 0; f < tsdrv.NFields; f++ {
					col := got.Column(f)
					if col.Len == len(times) {
						row.V[f] = colCode(f, col, i)
					}
				}
				rows = append(rows, row)
			}
		}
		ctx.Release()
		d.Segs = append(d.Segs, rows)
	}
	// stored statistics, per field
	present := map[int]bool{}
	for _, st := range stats {
		if st.IsTime {
			d.TimeCount = st.Count
			continue
		}
		f := -1
		for i, n := range tsdrv.FieldNames {
			if n == st.Name {
				f = i
			}
		}
		if f < 0 {
			continue
		}
		present[f] = true
		cs := ColStat{F: f, Count: st.Count, HasMM: st.HasMinMax && st.Count > 0, HasSum: st.HasSum}
		if cs.HasMM {
			cs.Min, _ = codeOfIface(f, st.Min)
			cs.Max, _ = codeOfIface(f, st.Max)
			cs.MinT, cs.MaxT = tsdrv.IdxOf(st.MinT), tsdrv.IdxOf(st.MaxT)
		}
		if cs.HasSum {
			cs.Sum, _ = codeOfIface(f, st.Sum)
		}
		d.Stats = append(d.Stats, cs)
	}
	// Go-side direct comparison: stored == computed from the decoded rows
	nrows := 0
	for si, s := range d.Segs {
		nrows += len(s)
		if len(s) == 0 || si >= len(d.Ranges) || d.Ranges[si][0] != s[0].T || d.Ranges[si][1] != s[len(s)-1].T {
			d.StatFail = fmt.Sprintf("segment %d: stored time range does not match its decoded rows", si)
		}
	}
	if int64(nrows) != d.TimeCount && d.StatFail == "" {
		d.StatFail = fmt.Sprintf("time column: stored count %d, %d rows decoded", d.TimeCount, nrows)
	}
	for _, cs := range d.Stats {
		all := rowsInRange(d.Segs, cs.F, math.MinInt32, math.MaxInt32)
		bad := ""
		if int64(len(all)) != cs.Count {
			bad = fmt.Sprintf("count %d stored, %d non-null values decoded", cs.Count, len(all))
		}
		if cs.HasSum && bad == "" {
			if s, _, _ := expect("sum", all); s != cs.Sum {
				bad = fmt.Sprintf("sum %d stored, %d over the decoded values", cs.Sum, s)
			}
		}
		if cs.HasMM && bad == "" {
			mn, mnT, _ := expect("min", all)
			mx, mxT, _ := expect("max", all)
			if mn != cs.Min || mx != cs.Max {
				bad = fmt.Sprintf("min/max %d/%d stored, %d/%d over the decoded values", cs.Min, cs.Max, mn, mx)
			} else if mnT != cs.MinT || mxT != cs.MaxT {
				if cs.F == 2 {
					// boolean statistics: the value is right, the stored TIME is not the time of the first row carrying it. No
					// query VALUE depends on it (FirstLastReader uses stored min/max of integer and float columns only), so this
					// is recorded as an observation, not a failure of the property.
					d.TimeOnly = append(d.TimeOnly, fmt.Sprintf("%s: min time %d/%d max time %d/%d (stored/rows)", tsdrv.FieldNames[cs.F], cs.MinT, mnT, cs.MaxT, mxT))
				} else if d.StatTimeFail == "" {
					// integer / float: the VALUES are right; the stored time is not the EARLIEST time carrying the extreme value,
					// which is the tie rule the model (and the hypothesis c_stats = build_stats of the chunk theorems) assumes
					d.StatTimeFail = fmt.Sprintf("%s: min/max time %d/%d stored, %d/%d (earliest row carrying the value) over the decoded values", tsdrv.FieldNames[cs.F], cs.MinT, cs.MaxT, mnT, mxT)
				}
			}
		}
		if bad != "" && d.StatFail == "" {
			d.StatFail = tsdrv.FieldNames[cs.F] + ": " + bad
		}
	}
	// A column the chunk's schema lists but that holds no value in this chunk (stored count 0; it arises when an
	// out-of-order merge writes the union schema): the chunk-level read of sum / min / max leaves the builder's neutral
	// elements (0, +-max) in the partial result. No statement result was ever seen to carry them (the end-to-end oracle
	// stays in force), so such columns are recorded and not read at component level.
	allNull := map[int]bool{}
	for _, cs := range d.Stats {
		if cs.Count == 0 {
			allNull[cs.F] = true
			d.AllNullCols = append(d.AllNullCols, cs.F)
		}
	}
	// pre-aggregation reads over boundary-biased ranges
	var cands []int
	for _, rg := range d.Ranges {
		cands = append(cands, rg[0]-1, rg[0], rg[0]+1, rg[1]-1, rg[1], rg[1]+1)
	}
	nr := 1 // one-segment chunks: 1-2 ranges; the segment logic of the readers needs chunks of several segments
	if r.Chance(1, 3) {
		nr = 2
	}
	if len(d.Ranges) >= 2 {
		nr = 4
	}
	for k := 0; k < nr; k++ {
		lo, hi := gen.Pick(r, cands), gen.Pick(r, cands)
		if r.Chance(1, 5) {
			lo, hi = r.Range(-1, NT), r.Range(-1, NT)
		}
		if k == 0 && r.Bool() { // the whole chunk, or more
			lo, hi = d.Ranges[0][0]-r.Intn(2), d.Ranges[len(d.Ranges)-1][1]+r.Intn(2)
		}
		if lo > hi {
			lo, hi = hi, lo
		}
		if lo < 0 {
			lo = 0
		}
		if hi < lo {
			hi = lo
		}
		asc := !r.Chance(1, 4)
		for f := 0; f < tsdrv.NFields; f++ {
			if !present[f] || allNull[f] {
				continue
			}
			for _, fn := range fns {
				if !fnApplies(fn, f) {
					continue
				}
				// first / last are read ascending only: whether the engine runs its pre-aggregation readers on descending
				// data at all is decided above them (open finding C09-desc-firstlast-shortcut, judged end to end)
				rd, err := preAggRead(file, sid, f, fn, lo, hi, asc || fn == "first" || fn == "last")
				if err != nil {
					return nil, fmt.Errorf("pre-aggregation read %s(%s) %d..%d: %v", fn, tsdrv.FieldNames[f], lo, hi, err)
				}
				// Go-side direct oracle: the partial result is the function over the chunk's rows in range. The time of
				// first/last is part of the partial result (it decides which container wins); the time of min/max only
				// breaks ties between equal values and is compared by the model for integer and float columns.
				wv, wt, wnull := expect(fn, rowsInRange(d.Segs, f, lo, hi))
				rd.OK = true
				switch {
				case wnull != rd.Null && !(fn == "count" && wnull && !rd.Null && rd.V == 0):
					rd.OK, rd.Why = false, fmt.Sprintf("null=%v, rows say null=%v", rd.Null, wnull)
				case !wnull && rd.V != wv:
					rd.OK, rd.Why = false, fmt.Sprintf("value %d, rows say %d", rd.V, wv)
				case !wnull && (fn == "first" || fn == "last") && rd.T != wt:
					rd.OK, rd.Why = false, fmt.Sprintf("value %d right but stamped with time %d, the row's time is %d", rd.V, rd.T, wt)
				}
				d.Reads = append(d.Reads, rd)
			}
		}
	}
	return d, nil
}

// dumpChunks: every (file, series) of the shard not seen before in this history
func (h *History) dumpChunks(sh *tsdrv.Shard, r *gen.Rand) error {
	order, unorder, release := sh.V.VerifC09Files(tsdrv.Mst)
	defer release()
	do := func(files []immutable.TSSPFile, isOrder bool) error {
		for _, f := range files {
			for sr := 0; sr < h.NSer; sr++ {
				sid := sh.Sid(sr)
				if sid == 0 {
					continue
				}
				key := fmt.Sprintf("%s/%d", f.Path(), sr)
				if h.seenChunk[key] {
					continue
				}
				h.seenChunk[key] = true
				if h.NSer > 3 && !r.Chance(3, h.NSer) { // many series: a sample of the (file, series) chunks
					continue
				}
				d, err := dumpChunk(f, isOrder, sid, sr, r)
				if err != nil {
					return err
				}
				if d != nil {
					h.Chunks = append(h.Chunks, *d)
				}
			}
		}
		return nil
	}
	if err := do(order, true); err != nil {
		return err
	}
	return do(unorder, false)
}

// ---- memtable statistics builders ----

// MemCase: one generated memtable record and what the builder made of it
type MemCase struct {
	Fields []int     `json:"fields"` // selected fields (columns of the record), ascending
	Calls  []Call    `json:"calls"`
	Rows   []SRow    `json:"rows"`  // V indexed by field id, nil = null
	Stats  []MemStat `json:"stats"` // per call
	Drop   bool      `json:"drop"`  // the builder dropped the record (single call on an all-null column)
	OK     bool      `json:"ok"`
	Why    string    `json:"why,omitempty"`
	// TimeOnly: min / max VALUES right, but their time is not the earliest row carrying them
	TimeOnly string `json:"time_only,omitempty"`
}

// MemStat: all statistics the builder left for the call's column
type MemStat struct {
	F      int   `json:"f"`
	Set    bool  `json:"set"`
	Count  int64 `json:"count"`
	HasSum bool  `json:"hassum"`
	Sum    int64 `json:"sum"`
	HasMM  bool  `json:"hasmm"`
	Min    int64 `json:"min"`
	MinT   int   `json:"mint"`
	Max    int64 `json:"max"`
	MaxT   int   `json:"maxt"`
	First  int64 `json:"first"`
	FirstT int   `json:"firstt"`
	Last   int64 `json:"last"`
	LastT  int   `json:"lastt"`
}

func genMemCase(r *gen.Rand) MemCase {
	var mc MemCase
	nf := r.Range(1, 3)
	used := map[int]bool{}
	for len(mc.Fields) < nf {
		f := r.Intn(4)
		if !used[f] {
			used[f] = true
			mc.Fields = append(mc.Fields, f)
		}
	}
	for i := 0; i < len(mc.Fields); i++ {
		for j := i + 1; j < len(mc.Fields); j++ {
			if mc.Fields[j] < mc.Fields[i] {
				mc.Fields[i], mc.Fields[j] = mc.Fields[j], mc.Fields[i]
			}
		}
	}
	for _, f := range mc.Fields {
		fn := gen.Pick(r, fns)
		for !fnApplies(fn, f) {
			fn = gen.Pick(r, fns)
		}
		mc.Calls = append(mc.Calls, Call{fn, f})
	}
	g := &genState{r: r}
	n := r.Range(1, 7)
	t := r.Range(0, 4)
	for i := 0; i < n; i++ {
		row := SRow{T: t, V: make([]*int64, tsdrv.NFields)}
		// every row carries at least one selected field (the memtable record has no all-null rows: KickNilRow)
		must := gen.Pick(r, mc.Fields)
		for _, f := range mc.Fields {
			if f == must || r.Chance(1, 3) {
				v := g.value(f)
				row.V[f] = &v
			}
		}
		mc.Rows = append(mc.Rows, row)
		t += r.Range(1, 3)
	}
	return mc
}

func buildMemRecord(mc *MemCase) *record.Record {
	var schema record.Schemas
	for _, f := range mc.Fields {
		schema = append(schema, fullSchema[f])
	}
	schema = append(schema, fullSchema[len(fullSchema)-1])
	rec := record.NewRecordBuilder(schema)
	for _, row := range mc.Rows {
		for ci, f := range mc.Fields {
			col := rec.Column(ci)
			v := row.V[f]
			switch f {
			case 0:
				if v == nil {
					col.AppendIntegerNull()
				} else {
					col.AppendInteger(*v)
				}
			case 1:
				if v == nil {
					col.AppendFloatNull()
				} else {
					col.AppendFloat(tsdrv.FloatOf(*v))
				}
			case 2:
				if v == nil {
					col.AppendBooleanNull()
				} else {
					col.AppendBoolean(*v != 0)
				}
			default:
				if v == nil {
					col.AppendStringNull()
				} else {
					col.AppendString(tsdrv.StrPool[int(*v)%len(tsdrv.StrPool)])
				}
			}
		}
		rec.TimeColumn().AppendInteger(tsdrv.TimeOf(row.T))
	}
	return rec
}

func runMemCase(r *gen.Rand) (mc MemCase) {
	mc = genMemCase(r)
	defer func() {
		if e := recover(); e != nil {
			mc.OK, mc.Why = false, fmt.Sprint("panic: ", e)
		}
	}()
	rec := buildMemRecord(&mc)
	var ops []*comm.CallOption
	for _, c := range mc.Calls {
		ops = append(ops, callOf(c.Fn, c.Field))
	}
	out := engine.VerifC09MemStats(rec, ops)
	mc.OK = true
	if out == nil {
		mc.Drop = true
	}
	for ci, c := range mc.Calls {
		ms := MemStat{F: c.Field, MinT: -1, MaxT: -1, FirstT: -1, LastT: -1}
		var all []vt
		for _, row := range mc.Rows {
			if row.V[c.Field] != nil {
				all = append(all, vt{*row.V[c.Field], row.T})
			}
		}
		if out != nil && out.RecMeta != nil && ci < len(out.ColMeta) {
			m := &out.ColMeta[ci]
			if cnt := m.Count(); !immutable.IsInterfaceNil(cnt) {
				ms.Set = true
				ms.Count = cnt.(int64)
				if s := m.Sum(); !immutable.IsInterfaceNil(s) {
					ms.HasSum = true
					ms.Sum, _ = codeOfIface(c.Field, s)
				}
				if v, t := m.Min(); !immutable.IsInterfaceNil(v) {
					ms.HasMM = true
					ms.Min, _ = codeOfIface(c.Field, v)
					ms.MinT = tsdrv.IdxOf(t)
					v2, t2 := m.Max()
					ms.Max, _ = codeOfIface(c.Field, v2)
					ms.MaxT = tsdrv.IdxOf(t2)
				}
				if v, t := m.First(); !immutable.IsInterfaceNil(v) {
					ms.First, _ = codeOfIface(c.Field, v)
					ms.FirstT = tsdrv.IdxOf(t)
				}
				if v, t := m.Last(); !immutable.IsInterfaceNil(v) {
					ms.Last, _ = codeOfIface(c.Field, v)
					ms.LastT = tsdrv.IdxOf(t)
				}
			}
		}
		// Go-side direct oracle: statistics of the column == functions over its non-null rows
		if len(all) == 0 {
			if ms.Set && ms.Count != 0 {
				mc.OK, mc.Why = false, fmt.Sprintf("%s: statistics for a column without values", tsdrv.FieldNames[c.Field])
			}
		} else if !ms.Set {
			if !(mc.Drop && len(mc.Calls) == 1) {
				mc.OK, mc.Why = false, fmt.Sprintf("%s: no statistics although the column has values", tsdrv.FieldNames[c.Field])
			}
		} else {
			fv, ft, _ := expect("first", all)
			lv, lt, _ := expect("last", all)
			why := ""
			if ms.Count != int64(len(all)) {
				why = fmt.Sprintf("count %d, rows say %d", ms.Count, len(all))
			} else if ms.First != fv || ms.FirstT != ft {
				why = fmt.Sprintf("first (%d at %d), rows say (%d at %d)", ms.First, ms.FirstT, fv, ft)
			} else if ms.Last != lv || ms.LastT != lt {
				why = fmt.Sprintf("last (%d at %d), rows say (%d at %d)", ms.Last, ms.LastT, lv, lt)
			}
			if ms.HasSum && why == "" {
				if s, _, _ := expect("sum", all); s != ms.Sum {
					why = fmt.Sprintf("sum %d, rows say %d", ms.Sum, s)
				}
			}
			if ms.HasMM && why == "" {
				mn, mnT, _ := expect("min", all)
				mx, mxT, _ := expect("max", all)
				if mn != ms.Min || mx != ms.Max {
					why = fmt.Sprintf("min (%d at %d) max (%d at %d), rows say (%d at %d) (%d at %d)", ms.Min, ms.MinT, ms.Max, ms.MaxT, mn, mnT, mx, mxT)
				} else if (mnT != ms.MinT || mxT != ms.MaxT) && mc.TimeOnly == "" {
					// values right; the time is not the earliest row carrying the extreme value (the model's tie rule)
					mc.TimeOnly = fmt.Sprintf("%s: min (%d at %d) max (%d at %d), earliest rows carrying them: %d, %d", tsdrv.FieldNames[c.Field], ms.Min, ms.MinT, ms.Max, ms.MaxT, mnT, mxT)
				}
			}
			if why != "" && mc.OK {
				mc.OK, mc.Why = false, tsdrv.FieldNames[c.Field]+": "+why
			}
		}
		mc.Stats = append(mc.Stats, ms)
	}
	return mc
}

// ---- combination of partial results: immutable.AggregateData (minMeta / maxMeta / firstMeta / lastMeta / countMeta /
// sumMeta) - the real code behind the model's `combine` ----

// AggCase: two containers (rows of one column, ascending distinct times each; the two may share times), their partial
// results as the readers leave them in RecMeta, and what AggregateData made of them
type AggCase struct {
	F   int     `json:"f"`
	A   []SRow  `json:"a"` // V has one entry
	B   []SRow  `json:"b"`
	Got MemStat `json:"got"`
	OK  bool    `json:"ok"`
	Why string  `json:"why,omitempty"`
	Tie string  `json:"tie,omitempty"` // values right, a min/max time is not the earliest row carrying the value
}

// string codes of the combination cases are RANKS in lexicographic order (the engine breaks equal-time ties of first /
// last by comparing the strings; the model compares codes)
var rankedPool = func() []string {
	p := append([]string{}, tsdrv.StrPool...)
	sort.Strings(p)
	return p
}()

func ifaceOf(f int, code int64) interface{} {
	switch f {
	case 0:
		return code
	case 1:
		return tsdrv.FloatOf(code)
	case 2:
		return code != 0
	}
	return rankedPool[int(code)%len(rankedPool)]
}

func rankCode(f int, v interface{}) (int64, bool) {
	if s, ok := v.(string); ok && f == 3 {
		for k, p := range rankedPool {
			if p == s {
				return int64(k), true
			}
		}
		return math.MinInt64, true
	}
	return codeOfIface(f, v)
}

func genContainer(g *genState, f int) []SRow {
	var rows []SRow
	if g.r.Chance(1, 8) {
		return nil
	}
	t := g.r.Range(0, 3)
	for n := g.r.Range(1, 4); n > 0; n-- {
		row := SRow{T: t, V: make([]*int64, 1)}
		if g.r.Chance(4, 5) {
			v := g.value(f)
			row.V[0] = &v
		}
		rows = append(rows, row)
		t += g.r.Range(1, 2)
	}
	return rows
}

// partialRecord: a record carrying the statistics of rows the way the readers leave them (nothing set for a column
// without values)
func partialRecord(f int, rows []SRow) *record.Record {
	schema := record.Schemas{fullSchema[f], fullSchema[len(fullSchema)-1]}
	rec := record.NewRecordBuilder(schema)
	rec.RecMeta = &record.RecMeta{}
	rec.ColMeta = make([]record.ColMeta, 1)
	var all []vt
	for _, r := range rows {
		if r.V[0] != nil {
			all = append(all, vt{*r.V[0], r.T})
		}
	}
	setColumnDefault(f, rec.Column(0))
	rec.TimeColumn().AppendInteger(0)
	if len(all) == 0 {
		return rec
	}
	m := &rec.ColMeta[0]
	m.SetCount(int64(len(all)))
	if f <= 1 {
		s, _, _ := expect("sum", all)
		m.SetSum(ifaceOf(f, s))
	}
	if f <= 2 {
		v, t, _ := expect("min", all)
		m.SetMin(ifaceOf(f, v), tsdrv.TimeOf(t))
		v, t, _ = expect("max", all)
		m.SetMax(ifaceOf(f, v), tsdrv.TimeOf(t))
	}
	v, t, _ := expect("first", all)
	m.SetFirst(ifaceOf(f, v), tsdrv.TimeOf(t))
	v, t, _ = expect("last", all)
	m.SetLast(ifaceOf(f, v), tsdrv.TimeOf(t))
	return rec
}

func setColumnDefault(f int, col *record.ColVal) {
	switch f {
	case 0:
		col.AppendInteger(0)
	case 1:
		col.AppendFloat(0)
	case 2:
		col.AppendBoolean(true)
	default:
		col.AppendString("")
	}
}

// expectUnion: the function over the rows of both containers; equal times (one in each container): the greater value
// wins for first / last; equal values: the earlier time for min / max
func expectUnion(fn string, rows []vt) (int64, int, bool) {
	if len(rows) == 0 {
		return 0, -1, true
	}
	b := rows[0]
	for _, r := range rows[1:] {
		switch fn {
		case "min":
			if r.v < b.v || (r.v == b.v && r.t < b.t) {
				b = r
			}
		case "max":
			if r.v > b.v || (r.v == b.v && r.t < b.t) {
				b = r
			}
		case "first":
			if r.t < b.t || (r.t == b.t && r.v > b.v) {
				b = r
			}
		case "last":
			if r.t > b.t || (r.t == b.t && r.v > b.v) {
				b = r
			}
		}
	}
	return b.v, b.t, false
}

func runAggCase(r *gen.Rand) (ac AggCase) {
	g := &genState{r: r}
	ac.F = r.Intn(4)
	ac.A, ac.B = genContainer(g, ac.F), genContainer(g, ac.F)
	defer func() {
		if e := recover(); e != nil {
			ac.OK, ac.Why = false, fmt.Sprint("panic: ", e)
		}
	}()
	var ops []*comm.CallOption
	for _, fn := range fns {
		if fnApplies(fn, ac.F) {
			ops = append(ops, callOf(fn, ac.F))
		}
	}
	newRec, baseRec := partialRecord(ac.F, ac.A), partialRecord(ac.F, ac.B)
	immutable.AggregateData(newRec, baseRec, ops)
	m := &newRec.ColMeta[0]
	ms := MemStat{F: ac.F, MinT: -1, MaxT: -1, FirstT: -1, LastT: -1}
	if cnt := m.Count(); !immutable.IsInterfaceNil(cnt) {
		ms.Set = true
		ms.Count = cnt.(int64)
	}
	if s := m.Sum(); !immutable.IsInterfaceNil(s) {
		ms.HasSum = true
		ms.Sum, _ = rankCode(ac.F, s)
	}
	if v, t := m.Min(); !immutable.IsInterfaceNil(v) {
		ms.HasMM = true
		ms.Min, _ = rankCode(ac.F, v)
		ms.MinT = tsdrv.IdxOf(t)
		v2, t2 := m.Max()
		ms.Max, _ = rankCode(ac.F, v2)
		ms.MaxT = tsdrv.IdxOf(t2)
	}
	if v, t := m.First(); !immutable.IsInterfaceNil(v) {
		ms.First, _ = rankCode(ac.F, v)
		ms.FirstT = tsdrv.IdxOf(t)
	}
	if v, t := m.Last(); !immutable.IsInterfaceNil(v) {
		ms.Last, _ = rankCode(ac.F, v)
		ms.LastT = tsdrv.IdxOf(t)
	}
	ac.Got = ms
	// direct oracle: the combined partial result is the function over the rows of both containers
	var all []vt
	for _, rows := range [][]SRow{ac.A, ac.B} {
		for _, row := range rows {
			if row.V[0] != nil {
				all = append(all, vt{*row.V[0], row.T})
			}
		}
	}
	ac.OK = true
	fail := func(s string) {
		if ac.OK {
			ac.OK, ac.Why = false, s
		}
	}
	if len(all) == 0 {
		if ms.Set && ms.Count != 0 {
			fail("a count although neither container has a value")
		}
		return
	}
	if !ms.Set || ms.Count != int64(len(all)) {
		fail(fmt.Sprintf("count %d (set=%v), rows say %d", ms.Count, ms.Set, len(all)))
	}
	if ac.F <= 1 {
		var s int64
		for _, x := range all {
			s += x.v
		}
		if !ms.HasSum || ms.Sum != s {
			fail(fmt.Sprintf("sum %d, rows say %d", ms.Sum, s))
		}
	}
	if ac.F <= 2 {
		mn, mnT, _ := expectUnion("min", all)
		mx, mxT, _ := expectUnion("max", all)
		if !ms.HasMM || ms.Min != mn || ms.Max != mx {
			fail(fmt.Sprintf("min %d max %d, rows say %d %d", ms.Min, ms.Max, mn, mx))
		} else if ms.MinT != mnT || ms.MaxT != mxT {
			ac.Tie = fmt.Sprintf("min time %d max time %d, earliest rows carrying the values: %d %d", ms.MinT, ms.MaxT, mnT, mxT)
		}
	}
	fv, ft, _ := expectUnion("first", all)
	lv, lt, _ := expectUnion("last", all)
	if ms.First != fv || ms.FirstT != ft {
		fail(fmt.Sprintf("first (%d at %d), rows say (%d at %d)", ms.First, ms.FirstT, fv, ft))
	}
	if ms.Last != lv || ms.LastT != lt {
		fail(fmt.Sprintf("last (%d at %d), rows say (%d at %d)", ms.Last, ms.LastT, lv, lt))
	}
	return
}
