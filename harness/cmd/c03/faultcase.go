// C03 fault-injection cases: the same generated stores as the crash cases, but instead of killing the process between two
// file-system mutations, ONE mutation of the replace protocol returns an I/O error (intent-log create / write / sync,
// rename of a new file, removal or parking of an old file, removal of the log, removal of an out-of-order input), or
// compaction and merge are stopped (DisableCompAndMerge) right before a chosen mutation of the write phase or of the
// protocol. DIRECT ORACLE after the failed / stopped reorganisation: the LIVE store answers as before, and after closing
// and re-opening the directory with the real loader the answers are again as before, no .init file is visible or left.
// For the model tie every run also prints the protocol mutations attempted, the files on disk, the live file lists and
// the files visible after the reopen (coq/C03/FaultCorr.v).
package main

import (
	"fmt"
	"math"
	"os"
	"path/filepath"
	"sort"
	"strings"
	"time"

	"github.com/openGemini/openGemini/engine/immutable"
	"github.com/openGemini/openGemini/lib/config"
	"github.com/openGemini/openGemini/lib/util"
	"verifharness/internal/crashfs"
	"verifharness/internal/gen"
)

type FaultRun struct {
	Kind     string       `json:"kind"`            // dry error stop-write stop-protocol
	At       int          `json:"at"`              // ordinal of the failed / hooked mutation (-1 for the dry run)
	Failed   *faultEvent  `json:"failed"`          // the mutation that returned the injected error
	Events   []faultEvent `json:"events"`          // protocol mutations attempted, in order (the failed one included)
	Disk     []string     `json:"disk"`            // data files on disk after the operation: o/<name> u/<name>, .init kept
	Logs     int          `json:"logs"`            // intent-log files on disk after the operation
	Live     []string     `json:"live"`            // files in the live store's lists after the operation
	Reopened []string     `json:"reopened"`        // files loaded after close + reopen
	LogsRe   int          `json:"logs_reopened"`   // intent-log files left after the reopen
	Then     string       `json:"then,omitempty"`  // a fault-free follow-up operation run in the same live store before the restart
	Early    []string     `json:"early"`           // out-of-order inputs removed before the intent log was created
	LogOld   []string     `json:"logold"`          // old / new names in the intent log (with directory prefix), if it was written
	LogNew   []string     `json:"lognew"`
	Fail     []string     `json:"fail,omitempty"`
}

type FaultInstance struct {
	FaultCase int        `json:"faultcase"`
	Op        string     `json:"op"`
	Held      int        `json:"held"` // files referenced by a reader during the operation
	HeldNames []string   `json:"heldnames"`
	Start     []string   `json:"start"` // data files on disk before the operation
	Runs      []FaultRun `json:"runs"`
	Hist      string     `json:"hist"`
	Fail      []string   `json:"fail,omitempty"`
}

func diskList(shardDir string) (out []string, logs int) {
	ents, logs := listDir(shardDir)
	for _, e := range ents {
		n := e.Name
		if e.Init {
			n += initSuffix
		}
		out = append(out, n)
	}
	sort.Strings(out)
	return out, logs
}

func liveList(st *immutable.MmsTables, root string) []string {
	var out []string
	for _, order := range []bool{true, false} {
		for _, f := range storeFiles(st, order) {
			n, isInit, ok := relName(root, f.Path())
			if !ok {
				n = "?/" + filepath.Base(f.Path())
			}
			if isInit {
				n += initSuffix
			}
			out = append(out, n)
		}
	}
	sort.Strings(out)
	return out
}

func openStoreAt(dir string, conf *immutable.Config) (*immutable.MmsTables, error) {
	st := newStore(dir, conf)
	_, err := st.Open(nil)
	st.CompactionEnable()
	st.MergeEnable()
	return st, err
}

func doOp(st *immutable.MmsTables, op string, fullSelf bool) error {
	var err error
	switch op {
	case "level0":
		err = st.LevelCompact(0, 1)
	case "full":
		err = st.FullCompact(1)
	case "merge":
		err = st.MergeOutOfOrder(1, false, true)
	case "mergeself":
		sc := config.GetStoreConfig()
		saved, savedN := sc.Merge.MergeSelfOnly, immutable.LevelMergeFileNum
		sc.Merge.MergeSelfOnly = true
		immutable.LevelMergeFileNum = []int{2, 2}
		err = st.MergeOutOfOrder(1, fullSelf, false)
		st.Wait()
		sc.Merge.MergeSelfOnly, immutable.LevelMergeFileNum = saved, savedN
	}
	st.Wait()
	return err
}

// one run on a fresh copy of the master directory
func (c *caseCtx) faultRun(fc *faultCtl, master string, op string, kind string, failAt, hookAt, preHook int, hold map[string]bool,
	before map[key]string) (run FaultRun, held int, pre int) {
	run = FaultRun{Kind: kind, At: failAt}
	if kind != "error" && kind != "dry" && kind != "error-then" {
		run.At = hookAt
		if kind == "stop-write" {
			run.At = preHook
		}
	}
	dir := filepath.Join(c.dir, fmt.Sprintf("frun%d", c.nimg))
	c.nimg++
	if err := crashfs.CopyTree(master, dir); err != nil {
		panic(err)
	}
	defer os.RemoveAll(dir)
	st, err := openStoreAt(dir, c.conf)
	if err != nil {
		run.Fail = append(run.Fail, "open of the copy failed: "+err.Error())
		return
	}
	var refs []immutable.TSSPFile
	if len(hold) > 0 {
		// a reader holds references on the chosen files (all of them, or a subset) while the reorganisation runs
		tr := util.TimeRange{Min: math.MinInt64, Max: math.MaxInt64}
		o, u, _ := st.GetBothFilesRef(mst, false, tr, nil)
		for _, f := range append(append([]immutable.TSSPFile{}, o...), u...) {
			n, _, ok := relName(dir, f.Path())
			if ok && hold[n] {
				refs = append(refs, f)
			} else {
				f.Unref()
			}
		}
		held = len(refs)
	}
	stopped := false
	var hook func()
	if hookAt >= 0 || preHook >= 0 {
		hook = func() {
			if stopped {
				return
			}
			stopped = true
			go st.DisableCompAndMerge() // closes the stop channel, then waits for the running work
			for i := 0; i < 2000 && st.CompactionEnabled(); i++ {
				time.Sleep(time.Millisecond)
			}
		}
	}
	fc.start(dir, failAt, hookAt, preHook, hook)
	if e := doOp(st, op, c.fullSelf); e != nil {
		run.Fail = append(run.Fail, "operation returned an error to the caller: "+e.Error())
	}
	run.Events, run.Failed, pre = fc.stop()
	run.Early = fc.early
	if _, isOrd, old, nw, ok := parseLog(fc.logData); ok {
		px := "o/"
		if !isOrd {
			px = "u/"
		}
		for _, o := range old {
			run.LogOld = append(run.LogOld, px+o)
		}
		for _, n := range nw {
			run.LogNew = append(run.LogNew, px+strings.TrimSuffix(n, initSuffix))
		}
	}
	if len(run.Early) > 0 {
		run.Fail = append(run.Fail, fmt.Sprintf("out-of-order input %s was deleted before the replacement of the ordered files was committed", run.Early[0]))
	}
	if stopped {
		st.Wait()
		st.EnableCompAndMerge()
	}
	// the live store
	live, layout := dumpStore(st)
	if d := dumpDiff(before, live); d != "" {
		run.Fail = append(run.Fail, "answers of the live store changed: "+d)
	}
	run.Fail = append(run.Fail, layout...)
	if c.followOp != "" {
		// the store lives on after the failed reorganisation: a further, fault-free reorganisation, then the restart below
		// (what the failed one left behind - a complete intent log, new files as .init - meets a changed directory)
		run.Then = c.followOp
		func() {
			defer func() {
				if e := recover(); e != nil {
					run.Fail = append(run.Fail, fmt.Sprintf("the follow-up %s panicked: %v", c.followOp, e))
				}
			}()
			if e := doOp(st, c.followOp, c.fullSelf); e != nil {
				run.Fail = append(run.Fail, "follow-up operation returned an error: "+e.Error())
			}
		}()
		live2, layout2 := dumpStore(st)
		if d := dumpDiff(before, live2); d != "" {
			run.Fail = append(run.Fail, "answers of the live store changed by the follow-up "+c.followOp+": "+d)
		}
		run.Fail = append(run.Fail, layout2...)
	}
	run.Live = liveList(st, dir)
	run.Disk, run.Logs = diskList(dir)
	if len(refs) > 0 {
		immutable.UnrefFiles(refs...)
	}
	_ = st.Close()
	// restart
	st2 := newStore(dir, c.conf)
	if _, e := st2.Open(nil); e != nil {
		run.Fail = append(run.Fail, "open after the failed operation: "+e.Error())
	}
	re, layout2 := dumpStore(st2)
	if d := dumpDiff(before, re); d != "" {
		run.Fail = append(run.Fail, "answers changed after restart: "+d)
	}
	run.Fail = append(run.Fail, layout2...)
	run.Reopened = liveList(st2, dir)
	for _, n := range run.Reopened {
		if strings.HasSuffix(n, initSuffix) {
			run.Fail = append(run.Fail, "half-written file visible after restart: "+n)
		}
	}
	_ = st2.Close()
	disk2, logs2 := diskList(dir)
	run.LogsRe = logs2
	for _, n := range disk2 {
		if strings.HasSuffix(n, initSuffix) {
			run.Fail = append(run.Fail, "half-written (.init) file left after restart: "+n)
			break
		}
	}
	return
}

func runFaultCase(idx int, r *gen.Rand, work string, fc *faultCtl, quick bool, emit func(*FaultInstance)) {
	c := &caseCtx{idx: idx, r: r, quick: quick, lastFl: map[uint64]int64{}, hasFl: map[uint64]bool{}, seen: map[uint64]int64{}}
	c.dir = filepath.Join(work, fmt.Sprintf("fault%d", idx))
	c.shardDir = filepath.Join(c.dir, "shard")
	_ = os.RemoveAll(c.dir)
	if err := os.MkdirAll(filepath.Join(c.shardDir, immutable.TsspDirName), 0750); err != nil {
		panic(err)
	}
	defer os.RemoveAll(c.dir)
	immutable.SetMaxRowsPerSegment4TsStore(gen.Pick(r, []int{8, 16, 1000}))
	c.conf = immutable.NewTsStoreConfig()
	c.nSeries = r.Range(1, 4)
	nf := r.Range(1, len(fieldPool))
	perm := r.Intn(len(fieldPool))
	for i := 0; i < nf; i++ {
		c.fields = append(c.fields, fieldPool[(perm+i)%len(fieldPool)])
	}
	sort.Slice(c.fields, func(i, j int) bool { return c.fields[i].Name < c.fields[j].Name })
	minGroup := gen.Pick(r, []int{4, 3, 2})
	immutable.LeveLMinGroupFiles[0] = minGroup
	immutable.SetMergeFlag4TsStore(int32(gen.Pick(r, []int{util.AutoCompact, util.NonStreamingCompact, util.StreamingCompact})))
	c.st = newStore(c.shardDir, c.conf)
	c.st.CompactionEnable()
	maxT := int64(100)
	c.fullSelf = r.Bool()
	op := gen.Pick(r, []string{"level0", "merge", "merge", "full", "mergeself"})
	nfl := r.Range(minGroup, 2*minGroup-1)
	switch op {
	case "mergeself":
		c.flushKind(&maxT, 1)
		for i := 0; i < r.Range(2, 3); i++ {
			c.flushKind(&maxT, 3)
		}
	case "merge":
		if r.Bool() {
			for i := 0; i < r.Range(2, 4); i++ {
				c.flushKind(&maxT, 1)
			}
			for i := 0; i < r.Range(1, 2); i++ {
				c.flushKind(&maxT, 2)
			}
		} else {
			for i := 0; i < nfl; i++ {
				c.flush(&maxT)
			}
		}
	default:
		for i := 0; i < nfl; i++ {
			c.flush(&maxT)
		}
	}
	before, _ := dumpStore(c.st)
	_ = c.st.Close()
	// reader: none / holds every file / holds a random subset of the files
	hold := map[string]bool{}
	inst0, _ := diskList(c.shardDir)
	switch r.Intn(6) {
	case 0, 1:
		for _, n := range inst0 {
			hold[n] = true
		}
	case 2:
		for _, n := range inst0 {
			if r.Bool() {
				hold[n] = true
			}
		}
	}
	inst := &FaultInstance{FaultCase: idx, Op: op}
	inst.Start, _ = diskList(c.shardDir)
	// dry run: how many protocol mutations, how many write-phase mutations
	dry, held, pre := c.faultRun(fc, c.shardDir, op, "dry", -1, -1, -1, hold, before)
	inst.Held = held
	for n := range hold {
		inst.HeldNames = append(inst.HeldNames, n)
	}
	sort.Strings(inst.HeldNames)
	inst.Runs = append(inst.Runs, dry)
	m := len(dry.Events)
	pick := map[int]bool{}
	for j := 0; j < m; j++ {
		pick[j] = true
	}
	if quick && m > 10 {
		pick = map[int]bool{0: true, 1: true, 2: true, 3: true, m - 1: true, m - 2: true}
		for len(pick) < 10 {
			pick[r.Intn(m)] = true
		}
	}
	for j := 0; j < m; j++ {
		if pick[j] {
			run, _, _ := c.faultRun(fc, c.shardDir, op, "error", j, -1, -1, hold, before)
			inst.Runs = append(inst.Runs, run)
		}
	}
	// stop compaction and merge right before a protocol mutation / somewhere in the write phase
	if m > 0 {
		for _, j := range []int{0, r.Intn(m), m - 1} {
			run, _, _ := c.faultRun(fc, c.shardDir, op, "stop-protocol", -1, j, -1, hold, before)
			inst.Runs = append(inst.Runs, run)
		}
	}
	for k := 0; k < 3 && pre > 0; k++ {
		run, _, _ := c.faultRun(fc, c.shardDir, op, "stop-write", -1, -1, r.Intn(pre), hold, before)
		inst.Runs = append(inst.Runs, run)
	}
	// stale intent log: the log sync (the complete log stays, the new files stay .init) or the log removal (the complete log
	// stays after a finished replacement) fails, the store lives on and merges / compacts again, then restarts
	hasU := false
	for _, n := range inst.Start {
		hasU = hasU || strings.HasPrefix(n, "u/")
	}
	if m > 0 {
		follow := "level0"
		if op != "merge" && op != "mergeself" && hasU {
			follow = "merge"
		}
		rmAt := -1
		for j, e := range dry.Events {
			if e.Class == "logremove" {
				rmAt = j
			}
		}
		for _, j := range []int{2, rmAt} {
			if j < 0 || j >= m {
				continue
			}
			if j == 2 && follow == "level0" && op != "merge" && op != "mergeself" {
				// the same compaction would be planned again and meet its own leftover <name>.init: NewFile / NewMsBuilder
				// panic with "file exist" in the compaction goroutine and the process dies (observation in NOTES.md)
				continue
			}
			c.followOp = follow
			run, _, _ := c.faultRun(fc, c.shardDir, op, "error-then", j, -1, -1, nil, before)
			c.followOp = ""
			inst.Runs = append(inst.Runs, run)
		}
	}
	c.hist = append(c.hist, op)
	inst.Hist = strings.Join(c.hist, " ")
	emit(inst)
}
