// C03 column-level cases: compaction (streaming AND non-streaming) and out-of-order merge of files whose chunks have
// several segments, row counts exactly at / around the segment size, sparse columns, and columns that are missing from
// whole input chunks (schema differences between files: the nil padding of compactColumn). No crash images here: the
// point is WHAT the new files contain.
//   DIRECT ORACLE: logical dump before = dump after the operation = dump after reopen; every stored column segment has as
//   many rows as its time segment; ordered files stay per-series time-ordered.
//   MODEL TIE: for every series touched by a compaction the physical layout of the inputs (per file: time segments and per
//   column the segments of cells, or "column absent") and of the outputs is printed; the Coq model of the column compactor
//   (coq/C03/ColModel.v: compact_col, code-shaped) must produce exactly the output layout (run.py / ColCorr.v).
package main

import (
	"bytes"
	"encoding/json"
	"fmt"
	"math"
	"os"
	"os/exec"
	"path/filepath"
	"sort"
	"strings"

	"github.com/openGemini/openGemini/engine/immutable"
	"github.com/openGemini/openGemini/lib/config"
	"github.com/openGemini/openGemini/lib/fileops"
	"github.com/openGemini/openGemini/lib/record"
	"github.com/openGemini/openGemini/lib/util"
	"github.com/openGemini/openGemini/lib/util/lifted/vm/protoparser/influx"
	"verifharness/internal/crashfs"
	"verifharness/internal/gen"
)

// ---------- physical layout of one chunk (one series in one file) ----------

type ChunkLayout struct {
	T [][]int64          `json:"t"` // time segments
	C map[string][][]int `json:"c"` // column name -> segments of cell codes (-1 = nil)
}

type SeriesLayout struct {
	Sid    uint64        `json:"sid"`
	Group  int           `json:"group"` // which of the operation's compaction plans (by output sequence)
	Fields []string      `json:"fields"` // union of the column names, sorted (the order the compactor walks them)
	In     []ChunkLayout `json:"in"`     // the series' chunk in every input file that holds it, in file order
	UIn    []ChunkLayout `json:"uin,omitempty"` // merge: the series' chunk in every out-of-order input file, oldest first
	Out    []ChunkLayout `json:"out"`    // the series' chunk in every output file that holds it, in file order
}

type ColInstance struct {
	ColCase  int            `json:"colcase"`
	Op       string         `json:"op"`
	Mode     string         `json:"mode"` // stream nonstream auto
	MaxRows  int            `json:"maxrows"`
	SegLimit int            `json:"seglimit"` // 0: repository default
	MaxSegs  int            `json:"maxsegs"`  // max over the series of the number of segments it has in all ordered files together
	IllForm  bool           `json:"illformed"` // some ordered chunk has a non-final segment of another size than max-rows-per-segment, or a longer one
	SegChg   string         `json:"segchange,omitempty"` // the files were written under this other max-rows-per-segment
	Series   []SeriesLayout `json:"series"`
	Replaced []string       `json:"replaced"`
	Created  []string       `json:"created"`
	Aband    bool           `json:"abandoned"` // a plan existed but no file was replaced (compaction gave up / panicked and was recovered)
	TmpLeft  int            `json:"tmpleft"`   // .init files lying in the live directories after the operation
	Died     bool           `json:"died"`      // the process died inside the operation (panic in the compaction / merge goroutine)
	Panic    string         `json:"panic,omitempty"`
	Again    string         `json:"again,omitempty"` // after the restart the same operation was run once more: "completed" or "died again: <panic>"
	Fail     []string       `json:"fail,omitempty"`
	Hist     string         `json:"hist"`
	Codes    []string       `json:"codes,omitempty"`
}

type interner struct {
	ids   map[string]int
	names []string
}

func (in *interner) code(s string) int {
	if v, ok := in.ids[s]; ok {
		return v
	}
	in.ids[s] = len(in.names)
	in.names = append(in.names, s)
	return in.ids[s]
}

// fileLayout reads every chunk of f through the repository's own metadata + segment reader.
func fileLayout(f immutable.TSSPFile, in *interner) (out map[uint64]*ChunkLayout, bad []string) {
	out = map[uint64]*ChunkLayout{}
	defer func() {
		if e := recover(); e != nil {
			bad = append(bad, fmt.Sprintf("reading %s panics: %v", filepath.Base(f.Path()), e))
		}
	}()
	n := int(f.MetaIndexItemNum())
	for i := 0; i < n; i++ {
		mi, err := f.MetaIndexAt(i)
		if err != nil {
			bad = append(bad, fmt.Sprintf("meta index %d of %s: %v", i, filepath.Base(f.Path()), err))
			return
		}
		cms, err := f.ReadChunkMetaData(i, mi, nil, fileops.IO_PRIORITY_ULTRA_HIGH)
		if err != nil {
			bad = append(bad, fmt.Sprintf("chunk metas %d of %s: %v", i, filepath.Base(f.Path()), err))
			return
		}
		for k := range cms {
			cm := &cms[k]
			lay := &ChunkLayout{C: map[string][][]int{}}
			var schema record.Schemas
			for _, col := range cm.GetColMeta() {
				schema = append(schema, record.Field{Name: col.Name(), Type: int(col.Type())})
			}
			for seg := 0; seg < cm.SegmentCount(); seg++ {
				rec := record.NewRecordBuilder(schema)
				ctx := immutable.NewReadContext(true)
				got, err := f.ReadAt(cm, seg, rec, ctx, fileops.IO_PRIORITY_ULTRA_HIGH)
				if err != nil || got == nil {
					ctx.Release()
					bad = append(bad, fmt.Sprintf("segment %d of series %d in %s unreadable: %v", seg, cm.GetSid(), filepath.Base(f.Path()), err))
					return
				}
				times := append([]int64(nil), got.Times()...)
				lay.T = append(lay.T, times)
				for c := 0; c < len(schema)-1; c++ {
					cv := got.Column(c)
					cells := make([]int, 0, cv.Len)
					for r := 0; r < cv.Len; r++ {
						if v, ok := canon(schema[c].Type, cv, r); ok {
							cells = append(cells, in.code(fmt.Sprintf("%d:%s", schema[c].Type, v)))
						} else {
							cells = append(cells, -1)
						}
					}
					if cv.Len != len(times) {
						bad = append(bad, fmt.Sprintf("column %s of series %d segment %d in %s has %d rows, its time segment has %d",
							schema[c].Name, cm.GetSid(), seg, filepath.Base(f.Path()), cv.Len, len(times)))
					}
					lay.C[schema[c].Name] = append(lay.C[schema[c].Name], cells)
				}
				ctx.Release()
			}
			// stored chunk statistics (what count()/min()/max() queries are answered from) against the decoded rows
			if stats, _, err := immutable.VerifC09Stats(cm); err != nil {
				bad = append(bad, fmt.Sprintf("statistics of series %d in %s unreadable: %v", cm.GetSid(), filepath.Base(f.Path()), err))
			} else {
				rows := 0
				for _, t := range lay.T {
					rows += len(t)
				}
				for _, st := range stats {
					want := rows
					if !st.IsTime {
						want = 0
						for _, seg := range lay.C[st.Name] {
							for _, v := range seg {
								if v >= 0 {
									want++
								}
							}
						}
					}
					if int(st.Count) != want {
						bad = append(bad, fmt.Sprintf("stored count of column %s of series %d in %s is %d, the chunk holds %d values",
							st.Name, cm.GetSid(), filepath.Base(f.Path()), st.Count, want))
					}
				}
			}
			out[cm.GetSid()] = lay
		}
	}
	return
}

type fileSnap struct {
	name string
	lay  map[uint64]*ChunkLayout
}

func snapOrdered(st *immutable.MmsTables, in *interner) (snaps []fileSnap, bad []string) {
	for _, f := range storeFiles(st, true) {
		l, b := fileLayout(f, in)
		bad = append(bad, b...)
		snaps = append(snaps, fileSnap{filepath.Base(f.Path()), l})
	}
	return
}

// safeDump is dumpStore that turns a panic of the repository's readers (e.g. on a malformed file) into an oracle failure
func safeDump(st *immutable.MmsTables) (d map[key]string, bad []string) {
	defer func() {
		if e := recover(); e != nil {
			bad = append(bad, fmt.Sprintf("reading the store panics: %v", e))
			if d == nil {
				d = map[key]string{}
			}
		}
	}()
	return dumpStore(st)
}

// ---------- generator ----------

type colCtx struct {
	idx      int
	r        *gen.Rand
	dir      string
	shardDir string
	conf     *immutable.Config
	st       *immutable.MmsTables
	maxRows  int
	nSeries  int
	fields   []fieldDef
	hist     []string
	maxT     int64
	lastOrd  map[uint64]int64 // per series: newest time in an ordered file
	in       *interner
	mode     string
	segLimit int
	segChg   string
}

func (c *colCtx) boundaryRows() int {
	m := c.maxRows
	opts := []int{1, 2, m - 1, m, m + 1, 2*m - 1, 2 * m, 2*m + 1, 3 * m, 3*m + 3, c.r.Range(1, 4*m)}
	n := gen.Pick(c.r, opts)
	if c.segLimit > 0 && n > m*c.segLimit {
		n = m * c.segLimit // MsBuilder.WriteData refuses a record of more than max-segment-limit segments
	}
	return n
}

func (c *colCtx) genVal(f fieldDef) string {
	switch f.Typ {
	case influx.Field_Type_Int:
		return fmt.Sprint(c.r.Range(-50, 500))
	case influx.Field_Type_Float:
		return fmt.Sprintf("%x", math.Float64bits(float64(c.r.Range(0, 1000))/8))
	case influx.Field_Type_Boolean:
		return fmt.Sprint(c.r.Bool())
	default:
		return "s" + fmt.Sprint(c.r.Range(0, 30))
	}
}

// one file: for every chosen series a chunk with a boundary-biased row count and its own subset of the fields
// (a field may be absent from the whole chunk, present in other files). order=false writes an out-of-order file whose
// rows lie at or below the series' newest ordered time.
func (c *colCtx) writeFile(order bool) {
	seq := c.st.NextSequence()
	type chunk struct {
		sid  uint64
		flds []fieldDef
		rows []row
	}
	var chunks []chunk
	for sid := uint64(1); sid <= uint64(c.nSeries); sid++ {
		if !c.r.Chance(4, 5) && !(sid == uint64(c.nSeries) && len(chunks) == 0) {
			continue
		}
		if !order && c.lastOrd[sid] == 0 {
			continue
		}
		var flds []fieldDef
		for _, f := range c.fields {
			if c.r.Chance(2, 3) {
				flds = append(flds, f)
			}
		}
		if len(flds) == 0 {
			flds = []fieldDef{gen.Pick(c.r, c.fields)}
		}
		n := c.boundaryRows()
		var rows []row
		ts := map[int64]bool{}
		for i := 0; i < n; i++ {
			var t int64
			if order {
				c.maxT += int64(c.r.Range(1, 3))
				t = c.maxT
			} else {
				t = c.lastOrd[sid] - int64(c.r.Range(0, 6*c.maxRows))
				if t < 1 {
					t = 1
				}
				if ts[t] {
					continue
				}
			}
			ts[t] = true
			rw := row{T: t, Vals: map[string]string{}}
			for _, f := range flds {
				if c.r.Chance(3, 4) {
					rw.Vals[f.Name] = c.genVal(f)
				}
			}
			rows = append(rows, rw)
		}
		sort.Slice(rows, func(i, j int) bool { return rows[i].T < rows[j].T })
		// every listed column holds at least one value (a flush never writes an all-null column), no row is all-null
		for _, f := range flds {
			has := false
			for _, rw := range rows {
				_, ok := rw.Vals[f.Name]
				has = has || ok
			}
			if !has {
				rows[c.r.Intn(len(rows))].Vals[f.Name] = c.genVal(f)
			}
		}
		for _, rw := range rows {
			if len(rw.Vals) == 0 {
				f := gen.Pick(c.r, flds)
				rw.Vals[f.Name] = c.genVal(f)
			}
		}
		chunks = append(chunks, chunk{sid, flds, rows})
	}
	if len(chunks) == 0 {
		return
	}
	fn := immutable.NewTSSPFileName(seq, 0, 0, 0, order, &lockPath)
	b := immutable.NewMsBuilder(c.st.Path(), mst, &lockPath, c.conf, len(chunks), fn, tier, nil, 2, config.TSSTORE, nil, 0)
	desc := []string{}
	for _, ch := range chunks {
		rec := buildRecord(ch.flds, ch.rows)
		if err := b.WriteData(ch.sid, rec); err != nil {
			panic(err)
		}
		if order {
			c.lastOrd[ch.sid] = ch.rows[len(ch.rows)-1].T
		}
		var fl []string
		for _, f := range ch.flds {
			fl = append(fl, f.Name)
		}
		desc = append(desc, fmt.Sprintf("s%d:%d:%s", ch.sid, len(ch.rows), strings.Join(fl, "")))
	}
	f, err := b.NewTSSPFile(false)
	if err != nil {
		panic(err)
	}
	c.st.AddTSSPFiles(mst, order, f)
	k := "O"
	if !order {
		k = "U"
	}
	c.hist = append(c.hist, fmt.Sprintf("%s%d(%s)", k, seq, strings.Join(desc, ",")))
}

func countTmp(shardDir string) int {
	ents, _ := listDir(shardDir)
	n := 0
	for _, e := range ents {
		if e.Init {
			n++
		}
	}
	return n
}

func (c *colCtx) runOp(op string, emit func(*ColInstance)) {
	inst := &ColInstance{ColCase: c.idx, Op: op, Mode: c.mode, MaxRows: c.maxRows, SegLimit: c.segLimit}
	before, bad0 := safeDump(c.st)
	snapB, badB := snapOrdered(c.st, c.in)
	nUnordB := len(storeFiles(c.st, false))
	var snapU []fileSnap // the out-of-order files before the operation (inputs of a merge)
	if op == "merge" {
		for _, f := range storeFiles(c.st, false) {
			l, b := fileLayout(f, c.in)
			badB = append(badB, b...)
			snapU = append(snapU, fileSnap{filepath.Base(f.Path()), l})
		}
	}
	segs := map[uint64]int{}
	for _, s := range snapB {
		for sid, l := range s.lay {
			segs[sid] += len(l.T)
			if segs[sid] > inst.MaxSegs {
				inst.MaxSegs = segs[sid]
			}
		}
	}
	for _, s := range snapB {
		for _, l := range s.lay {
			for i, seg := range l.T {
				if len(seg) > c.maxRows || (i < len(l.T)-1 && len(seg) != c.maxRows) {
					inst.IllForm = true
				}
			}
		}
	}
	for _, f := range storeFiles(c.st, false) { // the out-of-order inputs of a merge count as well
		l, _ := fileLayout(f, c.in)
		for _, ch := range l {
			for i, seg := range ch.T {
				if len(seg) > c.maxRows || (i < len(ch.T)-1 && len(seg) != c.maxRows) {
					inst.IllForm = true
				}
			}
		}
	}
	inst.SegChg = c.segChg
	saveBefore(c.dir, &beforeFile{MinGroup: immutable.LeveLMinGroupFiles[0], Flag: immutable.GetMergeFlag4TsStore(), IllForm: inst.IllForm, SegChg: c.segChg, MaxSegs: inst.MaxSegs, Op: op, Hist: strings.Join(append(append([]string{}, c.hist...), op), " "), Mode: c.mode,
		MaxRows: c.maxRows, SegLimit: c.segLimit, Dump: flatDump(before), Bad: len(bad0) > 0})
	var err error
	switch op {
	case "level0":
		err = c.st.LevelCompact(0, 1)
	case "full":
		err = c.st.FullCompact(1)
	case "merge":
		err = c.st.MergeOutOfOrder(1, false, true)
	}
	c.st.Wait()
	if err != nil {
		inst.Fail = append(inst.Fail, "operation returned an error: "+err.Error())
	}
	after, bad1 := safeDump(c.st)
	snapA, badA := snapOrdered(c.st, c.in)
	if d := dumpDiff(before, after); d != "" {
		inst.Fail = append(inst.Fail, "answers changed by "+op+": "+d)
	}
	if len(bad0) == 0 && len(badB) == 0 {
		inst.Fail = append(inst.Fail, bad1...)
		inst.Fail = append(inst.Fail, badA...)
	}
	// which files were replaced / created
	nameB := map[string]int{}
	for i, s := range snapB {
		nameB[s.name] = i
	}
	nameA := map[string]bool{}
	for _, s := range snapA {
		nameA[s.name] = true
	}
	var ins, outs []fileSnap
	for _, s := range snapB {
		if !nameA[s.name] {
			ins = append(ins, s)
			inst.Replaced = append(inst.Replaced, s.name)
		}
	}
	for _, s := range snapA {
		if _, ok := nameB[s.name]; !ok {
			outs = append(outs, s)
			inst.Created = append(inst.Created, s.name)
		}
	}
	inst.TmpLeft = countTmp(c.shardDir)
	// "fully compacted" for the planner: all ordered files share level and sequence (one split series)
	sameSeq := true
	for _, s := range snapB {
		sameSeq = sameSeq && len(s.name) >= 13 && len(snapB[0].name) >= 13 && s.name[:13] == snapB[0].name[:13]
	}
	inst.Aband = len(ins) == 0 && len(outs) == 0 && (op != "merge" || nUnordB > 0) && len(snapB) > 1 && !(op == "full" && sameSeq)
	// out-of-order merge: the layouts of the replaced ordered files, of the consumed out-of-order files and of the new
	// ordered files, per series (compared with MergeModel.merge_series column by column)
	if op == "merge" && len(ins) > 0 && len(outs) > 0 {
		left := map[string]bool{}
		for _, f := range storeFiles(c.st, false) {
			left[filepath.Base(f.Path())] = true
		}
		var uins []fileSnap
		for _, s := range snapU {
			if !left[s.name] {
				uins = append(uins, s)
			}
		}
		sids := map[uint64]bool{}
		for _, l := range [][]fileSnap{ins, uins} {
			for _, s := range l {
				for sid := range s.lay {
					sids[sid] = true
				}
			}
		}
		var sl []uint64
		for sid := range sids {
			sl = append(sl, sid)
		}
		sort.Slice(sl, func(i, j int) bool { return sl[i] < sl[j] })
		for _, sid := range sl {
			ser := SeriesLayout{Sid: sid}
			fset := map[string]bool{}
			add := func(dst *[]ChunkLayout, l []fileSnap) {
				for _, s := range l {
					if ch, ok := s.lay[sid]; ok {
						*dst = append(*dst, *ch)
						for f := range ch.C {
							fset[f] = true
						}
					}
				}
			}
			add(&ser.In, ins)
			add(&ser.UIn, uins)
			add(&ser.Out, outs)
			for f := range fset {
				ser.Fields = append(ser.Fields, f)
			}
			sort.Strings(ser.Fields)
			inst.Series = append(inst.Series, ser)
		}
	}
	// layouts per series for a compaction.
	// Several plans may have run (one output sequence per plan): the inputs of the plan that wrote the files of sequence s
	// are the replaced files with a sequence from s up to the next output sequence.
	if op != "merge" && len(ins) > 0 {
		seqOf := func(name string) string { return strings.SplitN(name, "-", 2)[0] }
		var outSeqs []string
		seenSeq := map[string]bool{}
		for _, s := range outs {
			if q := seqOf(s.name); !seenSeq[q] {
				seenSeq[q] = true
				outSeqs = append(outSeqs, q)
			}
		}
		sort.Strings(outSeqs)
		groupOf := func(name string) int {
			g := -1
			for i, q := range outSeqs {
				if seqOf(name) >= q {
					g = i
				}
			}
			return g
		}
		for g := range outSeqs {
			var gin, gout []fileSnap
			for _, s := range ins {
				if groupOf(s.name) == g {
					gin = append(gin, s)
				}
			}
			for _, s := range outs {
				if groupOf(s.name) == g {
					gout = append(gout, s)
				}
			}
			sids := map[uint64]bool{}
			for _, s := range gin {
				for sid := range s.lay {
					sids[sid] = true
				}
			}
			var sl []uint64
			for sid := range sids {
				sl = append(sl, sid)
			}
			sort.Slice(sl, func(i, j int) bool { return sl[i] < sl[j] })
			for _, sid := range sl {
				ser := SeriesLayout{Sid: sid, Group: g}
				fset := map[string]bool{}
				for _, s := range gin {
					if l, ok := s.lay[sid]; ok {
						ser.In = append(ser.In, *l)
						for f := range l.C {
							fset[f] = true
						}
					}
				}
				for _, s := range gout {
					if l, ok := s.lay[sid]; ok {
						ser.Out = append(ser.Out, *l)
						for f := range l.C {
							fset[f] = true
						}
					}
				}
				for f := range fset {
					ser.Fields = append(ser.Fields, f)
				}
				sort.Strings(ser.Fields)
				inst.Series = append(inst.Series, ser)
			}
		}
	}
	// reopen a copy of the shard: the same answers, nothing half-written visible or left
	img := filepath.Join(c.dir, "reopen")
	_ = os.RemoveAll(img)
	if e := crashfs.CopyTree(c.shardDir, img); e != nil {
		panic(e)
	}
	st2 := newStore(img, c.conf)
	if _, e := st2.Open(nil); e != nil {
		inst.Fail = append(inst.Fail, "open after "+op+" failed: "+e.Error())
	}
	re, badR := safeDump(st2)
	if d := dumpDiff(before, re); d != "" {
		inst.Fail = append(inst.Fail, "answers changed after "+op+" + restart: "+d)
	}
	if len(bad0) == 0 {
		inst.Fail = append(inst.Fail, badR...)
	}
	for _, order := range []bool{true, false} {
		for _, f := range storeFiles(st2, order) {
			if strings.HasSuffix(f.Path(), initSuffix) {
				inst.Fail = append(inst.Fail, "half-written file visible after restart: "+f.Path())
			}
		}
	}
	_ = st2.Close()
	if n := countTmp(img); n > 0 {
		inst.Fail = append(inst.Fail, fmt.Sprintf("%d half-written (.init) files left after restart", n))
	}
	_ = os.RemoveAll(img)
	c.hist = append(c.hist, op)
	inst.Hist = strings.Join(c.hist, " ")
	emit(inst)
}

// ---------- one case per child process ----------
// A panic inside a compaction / merge goroutine kills the process (the repository's compact-recovery does not catch
// it: CompactRecovery / MergeRecovery call recover() one frame too deep). Every column case therefore runs in a child
// process; if the child dies the parent applies the crash oracle to what it left behind: re-open the shard directory
// with the real loader, the answers must equal the dump the child saved before the operation, no .init may stay.

type beforeFile struct {
	Op       string      `json:"op"`
	Hist     string      `json:"hist"`
	Mode     string      `json:"mode"`
	MaxRows  int         `json:"maxrows"`
	SegLimit int         `json:"seglimit"`
	MaxSegs  int         `json:"maxsegs"`
	IllForm  bool        `json:"illformed"`
	SegChg   string      `json:"segchange"`
	MinGroup int         `json:"mingroup"`
	Flag     int32       `json:"flag"`
	Dump     [][4]string `json:"dump"`
	Bad      bool        `json:"bad"`
}

func flatDump(d map[key]string) [][4]string {
	out := make([][4]string, 0, len(d))
	for k, v := range d {
		out = append(out, [4]string{fmt.Sprint(k.Sid), fmt.Sprint(k.T), k.Field, v})
	}
	return out
}

func saveBefore(dir string, b *beforeFile) {
	buf, _ := json.Marshal(b)
	if err := os.WriteFile(filepath.Join(dir, "before.json"), buf, 0600); err != nil {
		panic(err)
	}
}

func colCaseDir(work string, idx int) string { return filepath.Join(work, fmt.Sprintf("col%d", idx)) }

// spawnColCase runs case idx in a child process and emits its instances; a dead child is judged by the crash oracle.
func spawnColCase(idx int, seed uint64, work string, kind int, emit func(*ColInstance)) {
	flag := fmt.Sprint(kind)
	cmd := exec.Command(os.Args[0], "colchild", fmt.Sprint(idx), fmt.Sprint(seed), flag)
	cmd.Env = append(os.Environ(), "VERIF_WORK="+filepath.Dir(work))
	var so, se bytes.Buffer
	cmd.Stdout, cmd.Stderr = &so, &se
	err := cmd.Run()
	nDone := 0
	for _, l := range strings.Split(so.String(), "\n") {
		if strings.HasPrefix(l, `{"colcase"`) {
			var in ColInstance
			if json.Unmarshal([]byte(l), &in) == nil {
				emit(&in)
				nDone++
			}
		}
	}
	dir := colCaseDir(work, idx)
	defer os.RemoveAll(dir)
	if err == nil {
		return
	}
	inst := &ColInstance{ColCase: idx, Died: true}
	for _, l := range strings.Split(se.String(), "\n") {
		if inst.Panic == "" && (strings.HasPrefix(l, "panic:") || strings.HasPrefix(l, "fatal error:")) {
			inst.Panic = l
		} else if inst.Panic != "" && strings.Contains(l, "/engine/immutable/") && strings.Contains(l, ".go:") {
			// first frame inside the storage package: <file>:<line>
			f := strings.Fields(strings.TrimSpace(l))[0]
			inst.Panic += " at " + filepath.Base(f)
			break
		}
	}
	if inst.Panic == "" {
		inst.Panic = "child failed: " + err.Error()
	}
	var bf beforeFile
	buf, e := os.ReadFile(filepath.Join(dir, "before.json"))
	if e != nil || json.Unmarshal(buf, &bf) != nil {
		inst.Fail = append(inst.Fail, "child died before its first operation: "+inst.Panic)
		emit(inst)
		return
	}
	inst.Op, inst.Hist, inst.Mode, inst.MaxRows, inst.SegLimit, inst.MaxSegs = bf.Op, bf.Hist, bf.Mode, bf.MaxRows, bf.SegLimit, bf.MaxSegs
	inst.IllForm, inst.SegChg = bf.IllForm, bf.SegChg
	before := map[key]string{}
	for _, e := range bf.Dump {
		var k key
		fmt.Sscan(e[0], &k.Sid)
		fmt.Sscan(e[1], &k.T)
		k.Field = e[2]
		before[k] = e[3]
	}
	immutable.SetMaxRowsPerSegment4TsStore(bf.MaxRows)
	shard := filepath.Join(dir, "shard")
	inst.TmpLeft = countTmp(shard)
	st2 := newStore(shard, immutable.NewTsStoreConfig())
	if _, e := st2.Open(nil); e != nil {
		inst.Fail = append(inst.Fail, "open after the process died in "+bf.Op+" failed: "+e.Error())
	}
	re, badR := safeDump(st2)
	if d := dumpDiff(before, re); d != "" {
		inst.Fail = append(inst.Fail, "answers changed after the process died in "+bf.Op+" + restart: "+d)
	}
	if !bf.Bad {
		inst.Fail = append(inst.Fail, badR...)
	}
	for _, order := range []bool{true, false} {
		for _, f := range storeFiles(st2, order) {
			if strings.HasSuffix(f.Path(), initSuffix) {
				inst.Fail = append(inst.Fail, "half-written file visible after restart: "+f.Path())
			}
		}
	}
	_ = st2.Close()
	if n := countTmp(shard); n > 0 {
		inst.Fail = append(inst.Fail, fmt.Sprintf("%d half-written (.init) files left after restart", n))
	}
	// probe: does the reorganisation die again when it is attempted after the restart (the process death would repeat for ever)?
	if len(inst.Fail) == 0 && strings.HasPrefix(inst.Panic, "panic") {
		retry := exec.Command(os.Args[0], "colretry", fmt.Sprint(idx), "0", flag)
		retry.Env = append(os.Environ(), "VERIF_WORK="+filepath.Dir(work))
		var ro, re bytes.Buffer
		retry.Stdout, retry.Stderr = &ro, &re
		if e := retry.Run(); e == nil && strings.Contains(ro.String(), "retry completed") {
			inst.Again = "completed"
		} else {
			inst.Again = "died again"
			for _, l := range strings.Split(re.String(), "\n") {
				if strings.HasPrefix(l, "panic:") {
					inst.Again += ": " + l
					break
				}
			}
		}
	}
	emit(inst)
}

// runColRetry re-runs the operation recorded in before.json on the shard directory a dead child left behind
func runColRetry(idx int, work string) {
	dir := colCaseDir(work, idx)
	var bf beforeFile
	buf, err := os.ReadFile(filepath.Join(dir, "before.json"))
	if err != nil || json.Unmarshal(buf, &bf) != nil {
		fmt.Println("retry: no before.json")
		os.Exit(4)
	}
	immutable.SetMaxRowsPerSegment4TsStore(bf.MaxRows)
	conf := immutable.NewTsStoreConfig()
	if bf.SegLimit > 0 {
		conf.SetMaxSegmentLimit(bf.SegLimit)
	}
	config.GetStoreConfig().Compact.CompactRecovery = true
	immutable.LeveLMinGroupFiles[0] = bf.MinGroup
	immutable.SetMergeFlag4TsStore(bf.Flag)
	st := immutable.NewTableStore(filepath.Join(dir, "shard", immutable.TsspDirName), &lockPath, &tier, true, conf)
	st.SetImmTableType(config.TSSTORE)
	if _, err := st.Open(nil); err != nil {
		fmt.Println("retry: open failed:", err)
		os.Exit(5)
	}
	st.CompactionEnable()
	switch bf.Op {
	case "level0":
		_ = st.LevelCompact(0, 1)
	case "full":
		_ = st.FullCompact(1)
	case "merge":
		_ = st.MergeOutOfOrder(1, false, true)
	}
	st.Wait()
	_ = st.Close()
	fmt.Println("retry completed")
}

func runColCase(idx int, r *gen.Rand, work string, kind int, emit func(*ColInstance)) {
	segLimit := kind == 1
	c := &colCtx{idx: idx, r: r, lastOrd: map[uint64]int64{}, in: &interner{ids: map[string]int{}}, maxT: 100}
	c.dir = colCaseDir(work, idx)
	c.shardDir = filepath.Join(c.dir, "shard")
	_ = os.RemoveAll(c.dir)
	if err := os.MkdirAll(filepath.Join(c.shardDir, immutable.TsspDirName), 0750); err != nil {
		panic(err)
	}
	c.maxRows = gen.Pick(r, []int{8, 8, 16})
	immutable.SetMaxRowsPerSegment4TsStore(c.maxRows)
	c.conf = immutable.NewTsStoreConfig()
	flag := gen.Pick(r, []int32{util.StreamingCompact, util.StreamingCompact, util.NonStreamingCompact, util.AutoCompact})
	if kind == 2 && flag == util.AutoCompact {
		flag = util.StreamingCompact
	}
	c.mode = map[int32]string{util.StreamingCompact: "stream", util.NonStreamingCompact: "nonstream", util.AutoCompact: "auto"}[flag]
	sc := config.GetStoreConfig()
	savedRec := sc.Compact.CompactRecovery
	defer func() { sc.Compact.CompactRecovery = savedRec }()
	// compact-recovery as in the shipped configuration (config.NewCompactConfig): a panicking compaction / merge is
	// abandoned and the process lives on, so that the oracle still sees what the store answers afterwards
	sc.Compact.CompactRecovery = true
	if segLimit {
		// chunks longer than max-segment-limit segments: the compactor must split the series over several files
		c.segLimit = gen.Pick(r, []int{2, 3, 5})
		c.conf.SetMaxSegmentLimit(c.segLimit)
		flag = util.StreamingCompact
		c.mode = "stream"
	}
	immutable.SetMergeFlag4TsStore(flag)
	c.nSeries = r.Range(1, 3)
	nf := r.Range(2, len(fieldPool))
	perm := r.Intn(len(fieldPool))
	for i := 0; i < nf; i++ {
		c.fields = append(c.fields, fieldPool[(perm+i)%len(fieldPool)])
	}
	sort.Slice(c.fields, func(i, j int) bool { return c.fields[i].Name < c.fields[j].Name })
	c.st = immutable.NewTableStore(filepath.Join(c.shardDir, immutable.TsspDirName), &lockPath, &tier, true, c.conf)
	c.st.SetImmTableType(config.TSSTORE)
	c.st.CompactionEnable()
	nFiles := r.Range(2, 5)
	immutable.LeveLMinGroupFiles[0] = gen.Pick(r, []int{2, nFiles, nFiles})
	for i := 0; i < nFiles; i++ {
		c.writeFile(true)
	}
	if kind == 2 {
		// the files were written under another max-rows-per-segment than the one in force now (the option was changed
		// and the server restarted): usually a smaller one (inner segments shorter than max-rows), sometimes a bigger one
		_ = c.st.Close()
		nm := 2 * c.maxRows
		if r.Chance(1, 4) && c.maxRows >= 16 {
			nm = c.maxRows / 2 // stays a multiple of 8 (the bitmap code of the merge column writer needs that)
		}
		c.segChg = fmt.Sprint(c.maxRows)
		c.hist = append(c.hist, fmt.Sprintf("maxrows%d->%d", c.maxRows, nm))
		c.maxRows = nm
		immutable.SetMaxRowsPerSegment4TsStore(nm)
		c.conf = immutable.NewTsStoreConfig()
		c.st = immutable.NewTableStore(filepath.Join(c.shardDir, immutable.TsspDirName), &lockPath, &tier, true, c.conf)
		c.st.SetImmTableType(config.TSSTORE)
		if _, err := c.st.Open(nil); err != nil {
			panic(err)
		}
		c.st.CompactionEnable()
	}
	var ops []string
	switch r.Intn(5) {
	case 0:
		ops = []string{"full"}
	case 1:
		ops = []string{"level0", "full"}
	case 2:
		c.writeFile(false)
		ops = []string{"merge", "full"}
	case 3:
		c.writeFile(false)
		c.writeFile(false)
		ops = []string{"level0", "merge"}
	default:
		ops = []string{"level0"}
	}
	failed := false
	for _, op := range ops {
		if failed {
			break // the store is already wrong: later operations would only repeat the failure
		}
		c.runOp(op, func(in *ColInstance) { failed = failed || len(in.Fail) > 0; emit(in) })
	}
	_ = c.st.Close()
}
