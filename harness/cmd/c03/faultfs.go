// Fault-injecting VFS for the C03 harness: sits on top of the recording VFS (internal/crashfs) and can make ONE chosen
// file-system mutation of the replace protocol return an error (the mutation does not happen), or call back right
// before a chosen mutation (used to stop compaction / merge at that point). The mutations of the protocol window are
// numbered from the attempt to create the intent log on: logcreate, logwrite, logsync, rename, remove (data files below
// the measurement directory and the log itself).
package main

import (
	"errors"
	"os"
	"path/filepath"
	"strings"
	"sync"

	"github.com/openGemini/openGemini/lib/fileops"
)

var errInjected = errors.New("injected I/O error (verification harness)")

type faultEvent struct {
	Class string `json:"class"` // logcreate logwrite logsync rename remove logremove
	Name  string `json:"name"`  // base name (source for rename)
	Name2 string `json:"name2,omitempty"`
	Dir   string `json:"dir"` // o = ordered directory, u = out-of-order directory, l = log directory
	Data  []byte `json:"-"`   // payload of the intent-log write
}

type faultCtl struct {
	mu      sync.Mutex
	on      bool
	root    string // shard directory
	inWin   bool
	n       int          // protocol mutations attempted so far in the window
	pre     int          // mutations below root before the window (write phase)
	failAt  int          // fail the mutation with this ordinal (-1: none)
	hookAt  int          // call hook right before the protocol mutation with this ordinal (-1: none)
	preHook int          // call hook right before the write-phase mutation with this ordinal (-1: none)
	hook    func()       // runs outside the lock
	events  []faultEvent // every protocol mutation attempted (including the failed one)
	failed  *faultEvent
	early   []string // out-of-order data files removed / parked BEFORE the intent log of the operation was created
	logData []byte
}

type faultFS struct {
	fileops.VFS
	c *faultCtl
}

func installFaultFS() *faultCtl {
	c := &faultCtl{failAt: -1, hookAt: -1, preHook: -1}
	prev := fileops.VerifSwapLocalFS(nil)
	fileops.VerifSwapLocalFS(&faultFS{VFS: prev, c: c})
	return c
}

func (c *faultCtl) start(root string, failAt, hookAt, preHook int, hook func()) {
	c.mu.Lock()
	defer c.mu.Unlock()
	c.on, c.root, c.inWin, c.n, c.pre = true, filepath.Clean(root), false, 0, 0
	c.failAt, c.hookAt, c.preHook, c.hook = failAt, hookAt, preHook, hook
	c.events, c.failed, c.early, c.logData = nil, nil, nil, nil
}

func (c *faultCtl) stop() (events []faultEvent, failed *faultEvent, pre int) {
	c.mu.Lock()
	defer c.mu.Unlock()
	c.on = false
	return c.events, c.failed, c.pre
}

func (c *faultCtl) classify(p string) (dir string, ok bool) {
	p = filepath.Clean(p)
	if !strings.HasPrefix(p, c.root+string(os.PathSeparator)) {
		return "", false
	}
	d := filepath.Base(filepath.Dir(p))
	switch {
	case d == compactLogDir:
		return "l", true
	case d == unorderedDir:
		return "u", true
	case d == mst:
		return "o", true
	}
	return "", false
}

// gate is called before a mutation; it returns true if the mutation must fail
func (c *faultCtl) gate(class, p, p2 string) bool {
	c.mu.Lock()
	if !c.on {
		c.mu.Unlock()
		return false
	}
	dir, ok := c.classify(p)
	if !ok {
		c.mu.Unlock()
		return false
	}
	if class == "logcreate" {
		c.inWin = true
	}
	if !c.inWin {
		if dir == "u" && (class == "remove" || class == "rename") && !strings.HasSuffix(p, initSuffix) {
			c.early = append(c.early, filepath.Base(p))
		}
		k := c.pre
		c.pre++
		h := c.hook
		c.mu.Unlock()
		if k == c.preHook && h != nil {
			h()
		}
		return false
	}
	if class == "remove" && dir == "l" {
		class = "logremove"
	}
	if class == "create" || class == "write" || class == "sync" {
		c.mu.Unlock()
		return false // data-file writes inside the window are not protocol mutations
	}
	ev := faultEvent{Class: class, Name: filepath.Base(p), Dir: dir}
	if p2 != "" {
		ev.Name2 = filepath.Base(p2)
	}
	k := c.n
	c.n++
	c.events = append(c.events, ev)
	fail := k == c.failAt
	if fail {
		c.failed = &ev
	}
	h := c.hook
	doHook := k == c.hookAt && h != nil
	c.mu.Unlock()
	if doHook {
		h()
	}
	return fail
}

func (v *faultFS) OpenFile(name string, flag int, perm os.FileMode, opt ...fileops.FSOption) (fileops.File, error) {
	isLog := filepath.Base(filepath.Dir(name)) == compactLogDir
	if flag&os.O_CREATE != 0 {
		if _, err := os.Lstat(name); err != nil {
			class := "create"
			if isLog {
				class = "logcreate"
			}
			if v.c.gate(class, name, "") {
				return nil, errInjected
			}
		}
	}
	f, err := v.VFS.OpenFile(name, flag, perm, opt...)
	if err != nil || f == nil {
		return f, err
	}
	if flag&(os.O_WRONLY|os.O_RDWR) != 0 {
		return &faultFile{File: f, c: v.c, name: name, isLog: isLog}, nil
	}
	return f, nil
}

func (v *faultFS) Create(name string, opt ...fileops.FSOption) (fileops.File, error) {
	return v.OpenFile(name, os.O_RDWR|os.O_CREATE|os.O_TRUNC, 0600, opt...)
}
func (v *faultFS) CreateV1(name string, opt ...fileops.FSOption) (fileops.File, error) {
	return v.Create(name, opt...)
}
func (v *faultFS) CreateV2(name string, opt ...fileops.FSOption) (fileops.File, error) {
	return v.Create(name, opt...)
}

func (v *faultFS) Remove(name string, opt ...fileops.FSOption) error {
	if v.c.gate("remove", name, "") {
		return errInjected
	}
	return v.VFS.Remove(name, opt...)
}
func (v *faultFS) RemoveLocal(name string, opt ...fileops.FSOption) error {
	if v.c.gate("remove", name, "") {
		return errInjected
	}
	return v.VFS.RemoveLocal(name, opt...)
}
func (v *faultFS) RenameFile(oldPath, newPath string, opt ...fileops.FSOption) error {
	if v.c.gate("rename", oldPath, newPath) {
		return errInjected
	}
	return v.VFS.RenameFile(oldPath, newPath, opt...)
}

type faultFile struct {
	fileops.File
	c     *faultCtl
	name  string
	isLog bool
}

func (f *faultFile) Write(b []byte) (int, error) {
	class := "write"
	if f.isLog {
		class = "logwrite"
		f.c.mu.Lock()
		f.c.logData = append([]byte(nil), b...)
		f.c.mu.Unlock()
	}
	if f.c.gate(class, f.name, "") {
		return 0, errInjected
	}
	return f.File.Write(b)
}
func (f *faultFile) Sync() error {
	class := "sync"
	if f.isLog {
		class = "logsync"
	}
	if f.c.gate(class, f.name, "") {
		return errInjected
	}
	return f.File.Sync()
}
