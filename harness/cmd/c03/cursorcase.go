// C03 cursor-level cases: a REAL shard (index, WAL, memtable flushes splitting rows into ordered / out-of-order files)
// driven through the engine hooks of internal/tsdrv; level compaction / full compaction / out-of-order merge run through
// the recording VFS; a copy of the whole shard directory is frozen after every mutation of the replace protocol (plus a
// few points of the write phase), every copy is re-opened as a shard (index + WAL replay + MmsTables.Open recovery) and
// read through the production cursors (shard.CreateCursor: group cursor -> tag set cursor -> series cursor -> file
// cursors), in both read shapes (GROUP BY series / flat) and both directions.
// DIRECT ORACLE: the cursor-level rows after (operation | crash + reopen) equal the cursor-level rows before the
// operation and the last-write-wins reference of what was written; no .init file is left below the data directory.
package main

import (
	"fmt"
	"os"
	"path/filepath"
	"strings"

	"verifharness/internal/crashfs"
	"verifharness/internal/gen"
	"verifharness/internal/tsdrv"
)

type CursorInstance struct {
	CurCase int      `json:"curcase"`
	Op      string   `json:"op"`
	Images  int      `json:"images"`
	Events  int      `json:"events"`
	Rows    int      `json:"rows"` // rows of the reference
	Files   string   `json:"files"`
	WalB    int64    `json:"walbytes"` // bytes in the WAL directory when the operation starts (0: nothing to replay at restart)
	Fail    []string `json:"fail,omitempty"`
	Hist    string   `json:"hist"`
}

type curShapes struct {
	q    tsdrv.Query
	name string
}

func cursorShapes(ntimes int) []curShapes {
	all := []int{0, 1, 2, 3}
	return []curShapes{
		{tsdrv.Query{Fields: all, Tmin: 0, Tmax: ntimes, Asc: true}, "group-by-series ascending"},
		{tsdrv.Query{Fields: all, Tmin: 0, Tmax: ntimes, Asc: false}, "group-by-series descending"},
		{tsdrv.Query{Fields: all, Tmin: 0, Tmax: ntimes, Asc: true, Flat: true}, "flat ascending"},
	}
}

// dumpAll reads the shard through the cursors in every shape; the result is canonical text per shape
func dumpAll(sh *tsdrv.Shard, nser, ntimes int) ([]string, error) {
	var out []string
	for _, s := range cursorShapes(ntimes) {
		d, err := sh.Dump(s.q)
		if err != nil {
			return nil, fmt.Errorf("%s: %v", s.name, err)
		}
		var b strings.Builder
		for sr := 0; sr < nser; sr++ {
			rows := d[sr]
			if !s.q.Asc {
				rows = tsdrv.Reverse(rows)
			}
			fmt.Fprintf(&b, "s%d:", sr)
			for _, r := range rows {
				fmt.Fprintf(&b, " %d", r.T)
				for _, fv := range r.F {
					fmt.Fprintf(&b, ",%d=%d", fv.F, fv.V)
				}
			}
			b.WriteString("\n")
		}
		out = append(out, b.String())
	}
	return out, nil
}

func refText(l *tsdrv.LWW, nser, ntimes int) string {
	var b strings.Builder
	q := tsdrv.Query{Fields: []int{0, 1, 2, 3}, Tmin: 0, Tmax: ntimes, Asc: true}
	for sr := 0; sr < nser; sr++ {
		fmt.Fprintf(&b, "s%d:", sr)
		for _, r := range l.Rows(sr, q, ntimes+1) {
			fmt.Fprintf(&b, " %d", r.T)
			for _, fv := range r.F {
				fmt.Fprintf(&b, ",%d=%d", fv.F, fv.V)
			}
		}
		b.WriteString("\n")
	}
	return b.String()
}

func firstDiff(a, b string) string {
	la, lb := strings.Split(a, "\n"), strings.Split(b, "\n")
	for i := 0; i < len(la) && i < len(lb); i++ {
		if la[i] != lb[i] {
			x, y := la[i], lb[i]
			if len(x) > 160 {
				x = x[:160]
			}
			if len(y) > 160 {
				y = y[:160]
			}
			return fmt.Sprintf("expected %q got %q", x, y)
		}
	}
	return "different number of series"
}

func countInitBelow(dir string) int {
	n := 0
	_ = filepath.Walk(filepath.Join(dir, "data"), func(p string, info os.FileInfo, err error) error {
		if err == nil && !info.IsDir() && strings.HasSuffix(p, initSuffix) {
			n++
		}
		return nil
	})
	return n
}

func runCursorCase(idx int, r *gen.Rand, work string, rec *crashfs.Recorder, quick bool, emit func(*CursorInstance)) {
	dir := filepath.Join(work, fmt.Sprintf("cur%d", idx))
	_ = os.RemoveAll(dir)
	defer os.RemoveAll(dir)
	shardDir := filepath.Join(dir, "shard")
	nser := r.Range(1, 3)
	sh, err := tsdrv.Open(shardDir, nser)
	if err != nil {
		emit(&CursorInstance{CurCase: idx, Fail: []string{"open: " + err.Error()}})
		return
	}
	lww := tsdrv.NewLWW()
	var hist []string
	tmax := 0
	nfl := r.Range(2, 4)
	for fl := 0; fl < nfl; fl++ {
		var rows []tsdrv.Row
		for sr := 0; sr < nser; sr++ {
			if !r.Chance(4, 5) && sr > 0 {
				continue
			}
			n := gen.Pick(r, []int{1, 3, 15, 16, 17, 33, r.Range(1, 40)})
			seen := map[int]bool{}
			for i := 0; i < n; i++ {
				t := tmax + 1 + r.Intn(n+4)
				if fl > 0 && r.Chance(1, 4) {
					t = r.Intn(tmax + 1) // a late row: goes to the out-of-order file of this flush, may overwrite
				}
				if seen[t] {
					continue
				}
				seen[t] = true
				row := tsdrv.Row{S: sr, T: t}
				val := func(f int) int64 { // value codes of the driver: int, float*4, bool 0/1, index into the string pool
					switch f {
					case 2:
						return int64(r.Intn(2))
					case 3:
						return int64(r.Intn(len(tsdrv.StrPool)))
					}
					return int64(r.Range(0, 40))
				}
				for f := 0; f < tsdrv.NFields; f++ {
					if r.Chance(2, 3) {
						row.F = append(row.F, tsdrv.FV{F: f, V: val(f)})
					}
				}
				if len(row.F) == 0 {
					f := r.Intn(tsdrv.NFields)
					row.F = []tsdrv.FV{{F: f, V: val(f)}}
				}
				rows = append(rows, row)
			}
		}
		for _, rw := range rows {
			if rw.T > tmax {
				tmax = rw.T
			}
		}
		if err := sh.Write(rows); err != nil {
			emit(&CursorInstance{CurCase: idx, Fail: []string{"write: " + err.Error()}})
			_ = sh.Close()
			return
		}
		lww.Apply(rows)
		sh.V.ForceFlush()
		hist = append(hist, fmt.Sprintf("W%d+F", len(rows)))
	}
	ntimes := tmax + 1
	op := gen.Pick(r, []string{"level0", "merge", "merge", "full"})
	inst := &CursorInstance{CurCase: idx, Op: op}
	ref := refText(lww, nser, ntimes)
	inst.Rows = strings.Count(ref, " ")
	before, err := dumpAll(sh, nser, ntimes)
	if err != nil {
		inst.Fail = append(inst.Fail, "dump before: "+err.Error())
	} else if before[0] != ref {
		inst.Fail = append(inst.Fail, "cursor rows before the operation differ from what was written: "+firstDiff(ref, before[0]))
	}
	_ = filepath.Walk(filepath.Join(shardDir, "wal"), func(p string, info os.FileInfo, err error) error {
		if err == nil && !info.IsDir() {
			inst.WalB += info.Size()
		}
		return nil
	})
	// the operation through the recording VFS
	var imgs []string
	nimg := 0
	inWin, tail := false, false
	logPath := ""
	nev, wp := 0, 0
	take := func() {
		d := filepath.Join(dir, fmt.Sprintf("img%d", nimg))
		nimg++
		// data files and WAL at this instant; the index (not touched by the reorganisation, but busy with its own
		// background merges, which do not go through this VFS) is copied after the shard has been closed
		for _, sub := range []string{"data", "wal"} {
			if err := crashfs.CopyTree(filepath.Join(shardDir, sub), filepath.Join(d, sub)); err != nil {
				panic(err)
			}
		}
		imgs = append(imgs, d)
	}
	isLog := func(p string) bool { return filepath.Base(filepath.Dir(p)) == compactLogDir }
	rec.Start(shardDir, func(ev *crashfs.Event) {
		if ev.Kind == "create" && isLog(ev.Path) && !inWin {
			inWin, logPath = true, ev.Path
			take() // all new files written, protocol not started
		}
	}, func(ev *crashfs.Event) {
		nev++
		if inWin || tail {
			if ev.Kind != "write" || isLog(ev.Path) {
				take()
			}
			if ev.Kind == "remove" && ev.Path == logPath {
				inWin, tail = false, true
			}
		} else {
			wp++
			if wp == 1 || r.Chance(1, 10) {
				take()
			}
		}
	})
	switch op {
	case "level0":
		sh.V.SetBackground(true, false)
		err = sh.V.LevelCompact(0)
	case "full":
		sh.V.SetBackground(true, false)
		err = sh.V.FullCompact()
	case "merge":
		sh.V.SetBackground(false, true)
		err = sh.V.MergeOutOfOrder(false, true)
	}
	sh.V.SetBackground(false, false)
	rec.Stop()
	inst.Events = nev
	if err != nil {
		inst.Fail = append(inst.Fail, "operation error: "+err.Error())
	}
	if fs, e := sh.Files(); e == nil {
		o, u := 0, 0
		for _, f := range fs {
			if f.Order {
				o++
			} else {
				u++
			}
		}
		inst.Files = fmt.Sprintf("o%d,u%d", o, u)
	}
	after, err := dumpAll(sh, nser, ntimes)
	if err != nil {
		inst.Fail = append(inst.Fail, "dump after "+op+": "+err.Error())
	} else if before != nil {
		for i := range after {
			if after[i] != before[i] {
				inst.Fail = append(inst.Fail, fmt.Sprintf("cursor rows (%s) changed by %s: %s", cursorShapes(ntimes)[i].name, op, firstDiff(before[i], after[i])))
			}
		}
	}
	_ = sh.Close()
	// every image: reopen as a shard, read through the cursors
	if quick && len(imgs) > 8 {
		keep := map[int]bool{0: true, 1: true, len(imgs) - 1: true, len(imgs) - 2: true}
		for len(keep) < 8 {
			keep[r.Intn(len(imgs))] = true
		}
		var sel []string
		for i, d := range imgs {
			if keep[i] {
				sel = append(sel, d)
			} else {
				os.RemoveAll(d)
			}
		}
		imgs = sel
	}
	for _, d := range imgs {
		inst.Images++
		if err := crashfs.CopyTree(filepath.Join(shardDir, "db0"), filepath.Join(d, "db0")); err != nil {
			panic(err)
		}
		s2, err := tsdrv.Open(d, nser)
		if err != nil {
			inst.Fail = append(inst.Fail, "shard does not open after crash: "+err.Error())
			os.RemoveAll(d)
			continue
		}
		got, err := dumpAll(s2, nser, ntimes)
		if err != nil {
			inst.Fail = append(inst.Fail, "cursor read after crash + restart: "+err.Error())
		} else if before != nil {
			for i := range got {
				if got[i] != before[i] {
					inst.Fail = append(inst.Fail, fmt.Sprintf("cursor rows (%s) changed after crash + restart: %s", cursorShapes(ntimes)[i].name, firstDiff(before[i], got[i])))
					break
				}
			}
		}
		_ = s2.Close()
		if n := countInitBelow(d); n > 0 {
			inst.Fail = append(inst.Fail, fmt.Sprintf("%d half-written (.init) files left after restart", n))
		}
		os.RemoveAll(d)
		if len(inst.Fail) > 6 {
			break
		}
	}
	hist = append(hist, op)
	inst.Hist = strings.Join(hist, " ")
	emit(inst)
}
