// C03 correspondence harness: builds real TSSP files with MsBuilder from generated write histories (several series,
// overlapping/disjoint ranges, sparse columns, schema differences), runs the real planner and the real level / full
// compaction and out-of-order merge through a recording VFS, freezes a crash image after every file-system mutation
// of the replace protocol (plus torn prefixes of the intent-log write, plus sampled points of the write phase), re-opens
// every image with the real loader (MmsTables.Open = recoverFile + fileLoader), freezes second-level images during that
// recovery pass, and prints one JSON object per protocol instance: the recorded step list, the file-system listing at
// protocol start, and for every image the names+contents visible after recovery and the recovery's own steps.
// DIRECT ORACLE (applied here, on the implementation): logical dump after (operation | crash + reopen) equals the dump
// before; ordered files stay time-ordered and duplicate-free; no .init file is visible or left behind; reopening twice
// changes nothing.
package main

import (
	"bytes"
	"crypto/sha1"
	"encoding/binary"
	"encoding/hex"
	"flag"
	"fmt"
	"math"
	"os"
	"os/exec"
	"path/filepath"
	"sort"
	"strconv"
	"strings"
	"time"

	"github.com/openGemini/openGemini/engine/immutable"
	"github.com/openGemini/openGemini/lib/config"
	"github.com/openGemini/openGemini/lib/record"
	"github.com/openGemini/openGemini/lib/util"
	"github.com/openGemini/openGemini/lib/util/lifted/vm/protoparser/influx"
	"verifharness/internal/crashfs"
	"verifharness/internal/gen"
	"verifharness/internal/tsdrv"
)

const mst = "mst"

// Names the repository does not export. The check (props/C03/run.py) reads them from the repository's source on every run
// and passes them in the environment; the literals are only the fallback for running the harness by hand.
var unorderedDir = envOr("C03_UNORDERED_DIR", "out-of-order")
var initSuffix = envOr("C03_TMP_SUFFIX", ".init")
var compactLogDir = envOr("C03_LOG_DIR", "compact_log")
var compLogMagic = envOr("C03_LOG_MAGIC", "2021A5A5")

func envOr(k, d string) string {
	if v := os.Getenv(k); v != "" {
		return v
	}
	return d
}

// ---------- data model of the generator ----------

type fieldDef struct {
	Name string
	Typ  int32
}

var fieldPool = []fieldDef{
	{"fa", influx.Field_Type_Int}, {"fb", influx.Field_Type_Float}, {"fc", influx.Field_Type_Boolean}, {"fd", influx.Field_Type_String},
}

type row struct {
	T    int64
	Vals map[string]string // field -> canonical value ("" never used; absent = null)
}

type key struct {
	Sid   uint64
	T     int64
	Field string
}

// ---------- JSON output ----------

type Ent struct {
	ID   int  `json:"id"`
	Init bool `json:"init"`
	C    int  `json:"c"`
}

type Step struct {
	K    string `json:"k"` // logcreate logwrite logsync logremove mv rm other
	Src  int    `json:"src"`
	SrcI bool   `json:"srci"`
	Dst  int    `json:"dst"`
	DstI bool   `json:"dsti"`
	Old  []int  `json:"old,omitempty"`
	New  []int  `json:"new,omitempty"`
	What string `json:"what,omitempty"`
}

type Image struct {
	K      int      `json:"k"`              // protocol steps applied before the crash (-1: crash in the write phase, before the protocol)
	Torn   int      `json:"torn"`           // -1: none; else number of bytes of the log write that reached the file
	Sub    int      `json:"sub"`            // -1: none; else number of recovery mutations applied before a second crash
	Vis    []Ent    `json:"vis"`            // data files loaded by the real loader after recovery (init is always false)
	Left   []Ent    `json:"left"`           // .init files left in the directories after recovery
	RSteps []Step   `json:"rsteps"`         // mutations performed by the recovery pass itself (Sub == -1 only)
	LogLeft int     `json:"logleft"`        // intent-log files left after recovery
	Fail   []string `json:"fail,omitempty"` // direct-oracle failures
}

type Instance struct {
	Case     int      `json:"case"`
	Op       string   `json:"op"`
	Names    []string `json:"names"`
	FS0      []Ent    `json:"fs0"` // listing when the protocol starts
	Old      []int    `json:"old"`
	New      []int    `json:"new"`
	IsOrder  bool     `json:"isorder"`
	Unord    []int    `json:"unord"` // out-of-order inputs deleted after the replacement (merge)
	Steps    []Step   `json:"steps"`
	Images   []Image  `json:"images"`
	LogBytes int      `json:"logbytes"`
	Fail     []string `json:"fail,omitempty"`
	Nontriv  bool     `json:"nontrivial"`
	Concur   bool     `json:"concurrent"` // several replacements interleaved in this operation: direct oracle only
	Hist     string   `json:"hist"` // short description of the generated history
}

// ---------- store helpers on the real code ----------

var lockPath = "lock"
var tier uint64 = util.Warm

func newStore(shardDir string, conf *immutable.Config) *immutable.MmsTables {
	st := immutable.NewTableStore(filepath.Join(shardDir, immutable.TsspDirName), &lockPath, &tier, false, conf)
	st.SetImmTableType(config.TSSTORE)
	return st
}

func buildRecord(fields []fieldDef, rows []row) *record.Record {
	schema := record.Schemas{}
	for _, f := range fields {
		schema = append(schema, record.Field{Type: int(f.Typ), Name: f.Name})
	}
	schema = append(schema, record.Field{Type: influx.Field_Type_Int, Name: record.TimeField})
	rec := record.NewRecordBuilder(schema)
	for _, r := range rows {
		for i, f := range fields {
			v, ok := r.Vals[f.Name]
			cv := &rec.ColVals[i]
			switch f.Typ {
			case influx.Field_Type_Int:
				if ok {
					n, _ := strconv.ParseInt(v, 10, 64)
					cv.AppendInteger(n)
				} else {
					cv.AppendIntegerNull()
				}
			case influx.Field_Type_Float:
				if ok {
					b, _ := strconv.ParseUint(v, 16, 64)
					cv.AppendFloat(math.Float64frombits(b))
				} else {
					cv.AppendFloatNull()
				}
			case influx.Field_Type_Boolean:
				if ok {
					cv.AppendBoolean(v == "true")
				} else {
					cv.AppendBooleanNull()
				}
			case influx.Field_Type_String:
				if ok {
					cv.AppendString(v)
				} else {
					cv.AppendStringNull()
				}
			}
		}
		rec.AppendTime(r.T)
	}
	return rec
}

func canon(typ int, cv *record.ColVal, i int) (string, bool) {
	switch typ {
	case influx.Field_Type_Int:
		v, null := cv.IntegerValue(i)
		return strconv.FormatInt(v, 10), !null
	case influx.Field_Type_Float:
		v, null := cv.FloatValue(i)
		return strconv.FormatUint(math.Float64bits(v), 16), !null
	case influx.Field_Type_Boolean:
		v, null := cv.BooleanValue(i)
		return strconv.FormatBool(v), !null
	case influx.Field_Type_String:
		v, null := cv.StringValueSafe(i)
		return v, !null
	}
	return "", false
}

// iterate one real file through the repository's own chunk iterator
func readFile(f immutable.TSSPFile, cb func(sid uint64, t int64, field string, val string)) (times map[uint64][]int64) {
	times = map[uint64][]int64{}
	fi := immutable.NewFileIterator(f, immutable.CLog)
	itr := immutable.NewChunkIterator(fi)
	for itr.Next() {
		sid := itr.GetSeriesID()
		rec := itr.GetRecord()
		n := rec.RowNums()
		tcol := rec.TimeColumn()
		for i := 0; i < n; i++ {
			t, _ := tcol.IntegerValue(i)
			times[sid] = append(times[sid], t)
			for c := 0; c < len(rec.Schema)-1; c++ {
				if v, ok := canon(rec.Schema[c].Type, &rec.ColVals[c], i); ok {
					cb(sid, t, rec.Schema[c].Name, v)
				}
			}
		}
	}
	itr.Close()
	return times
}

func storeFiles(st *immutable.MmsTables, order bool) []immutable.TSSPFile {
	m := st.Order
	if !order {
		m = st.OutOfOrder
	}
	fs, ok := m[mst]
	if !ok || fs == nil {
		return nil
	}
	return append([]immutable.TSSPFile(nil), fs.Files()...)
}

// logical dump: last-write-wins over ordered files (sequence order) then out-of-order files (sequence order), per field.
// Also checks the layout invariant of the ordered list (per series: strictly increasing times inside a file and across
// files in list order), i.e. "not duplicated, not reordered".
func dumpStore(st *immutable.MmsTables) (map[key]string, []string) {
	d := map[key]string{}
	var bad []string
	last := map[uint64]int64{}
	seen := map[uint64]bool{}
	for _, f := range storeFiles(st, true) {
		tm := readFile(f, func(sid uint64, t int64, field, val string) { d[key{sid, t, field}] = val })
		sids := make([]uint64, 0, len(tm))
		for sid := range tm {
			sids = append(sids, sid)
		}
		sort.Slice(sids, func(i, j int) bool { return sids[i] < sids[j] })
		for _, sid := range sids {
			for _, t := range tm[sid] {
				if seen[sid] && t <= last[sid] {
					bad = append(bad, fmt.Sprintf("ordered files not time-ordered/duplicate-free: series %d time %d after %d in %s", sid, t, last[sid], filepath.Base(f.Path())))
				}
				seen[sid] = true
				last[sid] = t
			}
		}
	}
	for _, f := range storeFiles(st, false) {
		readFile(f, func(sid uint64, t int64, field, val string) { d[key{sid, t, field}] = val })
	}
	if len(bad) > 3 {
		bad = bad[:3]
	}
	return d, bad
}

func dumpDiff(a, b map[key]string) string {
	var ks []key
	for k := range a {
		if v, ok := b[k]; !ok || v != a[k] {
			ks = append(ks, k)
		}
	}
	for k := range b {
		if _, ok := a[k]; !ok {
			ks = append(ks, k)
		}
	}
	if len(ks) == 0 {
		return ""
	}
	sort.Slice(ks, func(i, j int) bool {
		if ks[i].Sid != ks[j].Sid {
			return ks[i].Sid < ks[j].Sid
		}
		if ks[i].T != ks[j].T {
			return ks[i].T < ks[j].T
		}
		return ks[i].Field < ks[j].Field
	})
	k := ks[0]
	va, oka := a[k]
	vb, okb := b[k]
	return fmt.Sprintf("%d differing cells; first: series=%d time=%d field=%s before=%q(%v) after=%q(%v)", len(ks), k.Sid, k.T, k.Field, va, oka, vb, okb)
}

// ---------- directory listing / naming ----------

type namer struct {
	ids   map[string]int
	names []string
	cids  map[string]int
}

func relName(shardDir, p string) (string, bool, bool) { // -> "o/<base>" or "u/<base>" without .init ; isInit ; ok
	rel, err := filepath.Rel(filepath.Join(shardDir, immutable.TsspDirName, mst), p)
	if err != nil || strings.HasPrefix(rel, "..") {
		return "", false, false
	}
	isInit := strings.HasSuffix(rel, initSuffix)
	rel = strings.TrimSuffix(rel, initSuffix)
	if strings.HasPrefix(rel, unorderedDir+"/") {
		return "u/" + strings.TrimPrefix(rel, unorderedDir+"/"), isInit, true
	}
	if strings.Contains(rel, "/") || rel == unorderedDir || rel == "." {
		return "", false, false
	}
	return "o/" + rel, isInit, true
}

func fileHash(p string) string {
	b, err := os.ReadFile(p)
	if err != nil {
		return "ERR"
	}
	h := sha1.Sum(b)
	return hex.EncodeToString(h[:8])
}

type rawEnt struct {
	Name string
	Init bool
	Hash string
}

func listDir(shardDir string) (ents []rawEnt, logs int) {
	base := filepath.Join(shardDir, immutable.TsspDirName, mst)
	for _, d := range []string{base, filepath.Join(base, unorderedDir)} {
		es, err := os.ReadDir(d)
		if err != nil {
			continue
		}
		for _, e := range es {
			if e.IsDir() {
				continue
			}
			p := filepath.Join(d, e.Name())
			n, isInit, ok := relName(shardDir, p)
			if !ok {
				continue
			}
			ents = append(ents, rawEnt{n, isInit, fileHash(p)})
		}
	}
	es, _ := os.ReadDir(filepath.Join(shardDir, compactLogDir))
	return ents, len(es)
}

func visKey(v []rawEnt) string {
	var l []string
	for _, e := range v {
		l = append(l, fmt.Sprintf("%s/%v/%s", e.Name, e.Init, e.Hash))
	}
	sort.Strings(l)
	return strings.Join(l, " ")
}

// ---------- intent-log decoding (independent of the repository's unmarshal) ----------

func parseLog(b []byte) (name string, isOrder bool, old, nw []string, ok bool) {
	magic := compLogMagic
	if len(b) < len(magic) || string(b[len(b)-len(magic):]) != magic {
		return
	}
	b = b[:len(b)-len(magic)]
	rd := func() (string, bool) {
		if len(b) < 2 {
			return "", false
		}
		l := int(binary.BigEndian.Uint16(b))
		b = b[2:]
		if len(b) < l {
			return "", false
		}
		s := string(b[:l])
		b = b[l:]
		return s, true
	}
	var good bool
	if name, good = rd(); !good || len(b) < 1 {
		return
	}
	isOrder = b[0] == 1
	b = b[1:]
	for pass := 0; pass < 2; pass++ {
		if len(b) < 2 {
			return
		}
		n := int(binary.BigEndian.Uint16(b))
		b = b[2:]
		for i := 0; i < n; i++ {
			s, g := rd()
			if !g {
				return
			}
			if pass == 0 {
				old = append(old, s)
			} else {
				nw = append(nw, s)
			}
		}
	}
	ok = len(b) == 0
	return
}

// ---------- one case ----------

type caseCtx struct {
	idx      int
	r        *gen.Rand
	dir      string // case directory
	shardDir string
	conf     *immutable.Config
	st       *immutable.MmsTables
	rec      *crashfs.Recorder
	lastFl   map[uint64]int64
	hasFl    map[uint64]bool
	seen     map[uint64]int64 // per series: newest time written to any file
	nSeries  int
	fields   []fieldDef
	hist     []string
	nimg     int
	quick    bool
	readers  bool
	fullSelf bool
	followOp string // fault cases: a fault-free operation run after the failed one, before the restart
}

func (c *caseCtx) genValue(f fieldDef) string {
	switch f.Typ {
	case influx.Field_Type_Int:
		if c.r.Chance(1, 6) {
			return strconv.FormatInt(c.r.Int64Boundary(), 10)
		}
		return strconv.Itoa(c.r.Range(-50, 500))
	case influx.Field_Type_Float:
		vals := []float64{0, 1.5, -2.25, 1e300, math.Inf(1), 3.141592653589793, float64(c.r.Range(0, 1000)) / 8}
		return strconv.FormatUint(math.Float64bits(gen.Pick(c.r, vals)), 16)
	case influx.Field_Type_Boolean:
		return strconv.FormatBool(c.r.Bool())
	default:
		return "s" + strconv.Itoa(c.r.Range(0, 30)) + strings.Repeat("x", c.r.Intn(3))
	}
}

// flush: one generated batch is split per series exactly like a memtable flush does (times above the series' last
// flushed time go to an ordered file, the rest to an out-of-order file with the same sequence number).
// kind 0: the ordinary split; kind 1: fresh rows only (ordered file only); kind 2: a flush that found ordered files but
// no loaded sequencer (mutable/ts_table.go: flushTime = MaxInt64): EVERY row, however new, goes to the out-of-order file.
func (c *caseCtx) flush(maxT *int64) { c.flushKind(maxT, 0) }

func (c *caseCtx) flushKind(maxT *int64, kind int) {
	seq := c.st.NextSequence()
	ord := map[uint64][]row{}
	unord := map[uint64][]row{}
	nser := c.r.Range(1, c.nSeries)
	sids := map[uint64]bool{}
	for len(sids) < nser {
		sids[uint64(c.r.Range(1, c.nSeries))] = true
	}
	// schema of this batch: a non-empty subset of the field pool (schema differences between files)
	var flds []fieldDef
	for _, f := range c.fields {
		if c.r.Chance(3, 4) {
			flds = append(flds, f)
		}
	}
	if len(flds) == 0 {
		flds = []fieldDef{c.fields[c.r.Intn(len(c.fields))]}
	}
	mode := c.r.Intn(10) // 0-5 fresh, 6-7 mixed, 8-9 old only
	if kind == 1 || kind == 2 {
		mode = 0
	}
	if kind == 3 {
		mode = 6 // every series gets fresh and late rows: an ordered and an out-of-order file with the same sequence
	}
	var sidList []uint64
	for sid := range sids {
		sidList = append(sidList, sid)
	}
	sort.Slice(sidList, func(i, j int) bool { return sidList[i] < sidList[j] }) // map order must not steer the PRNG
	for _, sid := range sidList {
		n := c.r.Range(1, 12)
		if kind == 3 {
			n = c.r.Range(6, 12)
		}
		if c.r.Chance(1, 8) {
			n = c.r.Range(20, 45) // many segments
		}
		ts := map[int64]bool{}
		for i := 0; i < n; i++ {
			var t int64
			fresh := mode <= 5 || (mode <= 7 && c.r.Bool()) || !c.hasFl[sid]
			if fresh {
				base := *maxT
				if kind == 0 && c.r.Chance(1, 3) && c.hasFl[sid] {
					base = c.lastFl[sid] // right after the series' own last time: overlapping ranges between series
					if c.seen[sid] > base {
						base = c.seen[sid] // never on top of rows that sit (newer) in an out-of-order file
					}
				}
				t = base + int64(c.r.Range(1, 6))
			} else {
				t = c.lastFl[sid] - int64(c.r.Range(0, 15)) // at or below the flushed time: overwrite or gap fill
				if t < 1 {
					t = 1
				}
			}
			ts[t] = true
		}
		var tl []int64
		for t := range ts {
			tl = append(tl, t)
		}
		sort.Slice(tl, func(i, j int) bool { return tl[i] < tl[j] })
		for _, t := range tl {
			rw := row{T: t, Vals: map[string]string{}}
			for _, f := range flds {
				if c.r.Chance(3, 4) { // sparse columns
					rw.Vals[f.Name] = c.genValue(f)
				}
			}
			if len(rw.Vals) == 0 {
				f := flds[c.r.Intn(len(flds))]
				rw.Vals[f.Name] = c.genValue(f)
			}
			if t > c.seen[sid] {
				c.seen[sid] = t
			}
			if kind == 2 || (c.hasFl[sid] && t <= c.lastFl[sid]) {
				unord[sid] = append(unord[sid], rw)
			} else {
				ord[sid] = append(ord[sid], rw)
			}
		}
	}
	write := func(rows map[uint64][]row, order bool) int {
		if len(rows) == 0 {
			return 0
		}
		var sl []uint64
		for sid := range rows {
			sl = append(sl, sid)
		}
		sort.Slice(sl, func(i, j int) bool { return sl[i] < sl[j] })
		fn := immutable.NewTSSPFileName(seq, 0, 0, 0, order, &lockPath)
		b := immutable.NewMsBuilder(c.st.Path(), mst, &lockPath, c.conf, len(sl), fn, tier, nil, 2, config.TSSTORE, nil, 0)
		cnt := 0
		for _, sid := range sl {
			// fields actually present for this series (a column that is null in every row is not written by a flush)
			var fl []fieldDef
			for _, f := range flds {
				for _, rw := range rows[sid] {
					if _, ok := rw.Vals[f.Name]; ok {
						fl = append(fl, f)
						break
					}
				}
			}
			rec := buildRecord(fl, rows[sid])
			if err := b.WriteData(sid, rec); err != nil {
				panic(err)
			}
			cnt += len(rows[sid])
		}
		f, err := b.NewTSSPFile(false)
		if err != nil {
			panic(err)
		}
		c.st.AddTSSPFiles(mst, order, f)
		return cnt
	}
	no := write(ord, true)
	nu := write(unord, false)
	for _, rs := range unord {
		for _, rw := range rs {
			if rw.T > *maxT {
				*maxT = rw.T
			}
		}
	}
	for sid, rs := range ord {
		for _, rw := range rs {
			if !c.hasFl[sid] || rw.T > c.lastFl[sid] {
				c.lastFl[sid] = rw.T
				c.hasFl[sid] = true
			}
			if rw.T > *maxT {
				*maxT = rw.T
			}
		}
	}
	c.hist = append(c.hist, fmt.Sprintf("F%d(o%d,u%d)", seq, no, nu))
}

type pendingImage struct {
	dir  string
	k    int // index of the event (within the op) after which the image was taken
	torn int
	evno int
}

// runOp runs one reorganisation through the recording VFS and returns the protocol instances observed.
func (c *caseCtx) runOp(op string, emit func(*Instance)) {
	before, bad0 := dumpStore(c.st)
	var events []*crashfs.Event
	var pend []pendingImage
	var fs0 []rawEnt
	inWin := false
	logPath := ""
	logRemoved := false
	takeImage := func(evno int, torn int, ev *crashfs.Event) {
		d := filepath.Join(c.dir, fmt.Sprintf("img%d", c.nimg))
		c.nimg++
		if err := crashfs.CopyTree(c.shardDir, d); err != nil {
			panic(err)
		}
		if torn >= 0 {
			if err := crashfs.ApplyTorn(c.shardDir, d, ev, torn); err != nil {
				panic(err)
			}
		}
		pend = append(pend, pendingImage{dir: d, torn: torn, evno: evno})
	}
	isLog := func(p string) bool { return filepath.Base(filepath.Dir(p)) == compactLogDir }
	writePhase := 0
	c.rec.Start(c.shardDir, func(ev *crashfs.Event) {
		// BEFORE the mutation
		if ev.Kind == "create" && isLog(ev.Path) && !inWin {
			inWin = true
			logPath = ev.Path
			logRemoved = false
			if fs0 == nil {
				fs0, _ = listDir(c.shardDir) // the listing at the FIRST replacement of the operation (later plans must not overwrite it)
			}
			takeImage(len(events)-1, -1, nil) // crash just before the protocol starts (all new files written)
		}
		if ev.Kind == "write" && isLog(ev.Path) {
			n := len(ev.Data)
			cuts := map[int]bool{0: true, 1: true, n / 2: true, n - 9: true, n - 8: true, n - 7: true, n - 1: true}
			if !c.quick {
				for i := 0; i < n; i++ {
					cuts[i] = true
				}
			} else {
				cuts[c.r.Intn(n)] = true
			}
			var cl []int
			for k := range cuts {
				if k >= 0 && k < n {
					cl = append(cl, k)
				}
			}
			sort.Ints(cl)
			for _, k := range cl {
				takeImage(len(events)-1, k, ev)
			}
		}
	}, func(ev *crashfs.Event) {
		// AFTER the mutation
		events = append(events, ev)
		if inWin || logRemoved {
			if ev.Kind != "write" || isLog(ev.Path) {
				takeImage(len(events)-1, -1, nil)
			}
			if ev.Kind == "remove" && ev.Path == logPath {
				inWin = false
				logRemoved = true // trailing deletions of out-of-order inputs are still imaged
			}
		} else {
			// write phase of the new files: sample a few crash points (first create, some writes, syncs)
			writePhase++
			if writePhase == 1 || ev.Kind == "sync" || c.r.Chance(1, 12) {
				takeImage(len(events)-1, -1, nil)
			}
		}
	})
	// a reader (query) that holds references on the current files while the reorganisation replaces them: the old
	// files are then parked as .init and collected later instead of being removed (deleteFiles / removeFile)
	var held []immutable.TSSPFile
	if c.readers {
		tr := util.TimeRange{Min: math.MinInt64, Max: math.MaxInt64}
		o, u, _ := c.st.GetBothFilesRef(mst, false, tr, nil)
		held = append(append(held, o...), u...)
		if c.r.Chance(1, 2) && len(held) > 1 { // sometimes only some of the files are held
			keep := held[:0:0]
			for _, f := range held {
				if c.r.Bool() {
					keep = append(keep, f)
				} else {
					f.Unref()
				}
			}
			held = keep
		}
	}
	var err error
	switch op {
	case "level0":
		err = c.st.LevelCompact(0, 1)
	case "level1":
		err = c.st.LevelCompact(1, 1)
	case "full":
		err = c.st.FullCompact(1)
	case "merge":
		err = c.st.MergeOutOfOrder(1, false, true)
	case "merge1":
		// out-of-order merge limited to one input file per run (max-unordered-file-number = 1)
		sc := config.GetStoreConfig()
		saved := sc.Merge.MaxUnorderedFileNumber
		sc.Merge.MaxUnorderedFileNumber = 1
		err = c.st.MergeOutOfOrder(1, false, true)
		c.st.Wait()
		sc.Merge.MaxUnorderedFileNumber = saved
	case "mergeself":
		// out-of-order files merged among themselves (non-default configuration merge-self-only)
		sc := config.GetStoreConfig()
		saved, savedN := sc.Merge.MergeSelfOnly, immutable.LevelMergeFileNum
		sc.Merge.MergeSelfOnly = true
		immutable.LevelMergeFileNum = []int{2, 2}
		err = c.st.MergeOutOfOrder(1, c.fullSelf, false)
		c.st.Wait()
		sc.Merge.MergeSelfOnly, immutable.LevelMergeFileNum = saved, savedN
	}
	c.st.Wait()
	c.rec.Stop()
	if err != nil {
		panic(err)
	}
	if len(held) > 0 {
		immutable.UnrefFiles(held...)
		// let the table-store GC (200 ms tick) remove the parked files before the next operation is recorded
		for i := 0; i < 40; i++ {
			ents, _ := listDir(c.shardDir)
			left := false
			for _, e := range ents {
				left = left || e.Init
			}
			if !left {
				break
			}
			time.Sleep(50 * time.Millisecond)
		}
	}
	after, bad1 := dumpStore(c.st)
	var opFail []string
	if d := dumpDiff(before, after); d != "" {
		opFail = append(opFail, "answers changed by "+op+": "+d)
	}
	if len(bad0) == 0 {
		opFail = append(opFail, bad1...)
	}
	rd := ""
	if len(held) > 0 {
		rd = fmt.Sprintf(",held%d", len(held))
	}
	c.hist = append(c.hist, fmt.Sprintf("%s[%dev%s]", op, len(events), rd))
	c.analyse(op, events, pend, fs0, before, opFail, emit)
	for _, p := range pend {
		os.RemoveAll(p.dir)
	}
}

// reopen an image with the real loader; optionally record the recovery's own mutations and freeze second-level images
type reopenResult struct {
	vis     []rawEnt
	left    []rawEnt
	logLeft int
	dump    map[key]string
	bad     []string
	events  []*crashfs.Event
	subDirs []string
}

func (c *caseCtx) reopen(dir string, record bool) reopenResult {
	var res reopenResult
	if record {
		c.rec.Start(dir, nil, func(ev *crashfs.Event) {
			res.events = append(res.events, ev)
			d := filepath.Join(c.dir, fmt.Sprintf("sub%d", c.nimg))
			c.nimg++
			if err := crashfs.CopyTree(dir, d); err != nil {
				panic(err)
			}
			res.subDirs = append(res.subDirs, d)
		})
	}
	st := newStore(dir, c.conf)
	_, err := st.Open(nil)
	if record {
		c.rec.Stop()
	}
	if err != nil {
		res.bad = append(res.bad, "open failed: "+err.Error())
	}
	res.dump, _ = dumpStore(st)
	_, lay := dumpStore(st)
	res.bad = append(res.bad, lay...)
	for _, order := range []bool{true, false} {
		for _, f := range storeFiles(st, order) {
			n, isInit, ok := relName(dir, f.Path())
			if !ok {
				res.bad = append(res.bad, "loaded file outside the measurement directory: "+f.Path())
				continue
			}
			if isInit {
				res.bad = append(res.bad, "half-written file visible after restart: "+f.Path())
			}
			res.vis = append(res.vis, rawEnt{n, isInit, fileHash(f.Path())})
		}
	}
	_ = st.Close()
	ents, logs := listDir(dir)
	res.logLeft = logs
	for _, e := range ents {
		if e.Init {
			res.left = append(res.left, e)
		}
	}
	return res
}

func (c *caseCtx) analyse(op string, events []*crashfs.Event, pend []pendingImage, fs0 []rawEnt, before map[key]string,
	opFail []string, emit func(*Instance)) {
	// split the event list into protocol windows: [create log .. remove log] plus trailing deletions
	type win struct{ lo, hi int } // event indexes, inclusive; hi extended over trailing deletions
	isLog := func(p string) bool { return filepath.Base(filepath.Dir(p)) == compactLogDir }
	var wins []win
	for i := 0; i < len(events); i++ {
		if events[i].Kind == "create" && isLog(events[i].Path) {
			w := win{i, len(events) - 1}
			for j := i + 1; j < len(events); j++ {
				if events[j].Kind == "create" {
					w.hi = j - 1
					break
				}
			}
			wins = append(wins, w)
			i = w.hi
		}
	}
	if len(wins) == 0 {
		if len(opFail) > 0 {
			emit(&Instance{Case: c.idx, Op: op, Fail: opFail, Hist: strings.Join(c.hist, " ")})
		}
		return
	}
	if len(wins) > 1 {
		// several replacements in one operation: fs0 was captured for the first only; analyse the first, still run the
		// direct oracle on every image
	}
	w := wins[0]
	// explicit ordering obligation of the out-of-order merge: no out-of-order data file is removed or parked before the
	// intent log of the operation's first replacement exists (the inputs go only after the replacement is committed)
	for i := 0; i < w.lo; i++ {
		ev := events[i]
		if ev.Kind != "remove" && ev.Kind != "rename" {
			continue
		}
		if n, isInit, ok := relName(c.shardDir, ev.Path); ok && !isInit && strings.HasPrefix(n, "u/") {
			opFail = append(opFail, "out-of-order input "+n+" was deleted before the replacement of the ordered files was committed")
			break
		}
	}
	nm := &namer{ids: map[string]int{}, cids: map[string]int{}}
	// universe of names: fs0 + every path touched in the window, sorted by (directory, base name) = load order
	uni := map[string]bool{}
	for _, e := range fs0 {
		uni[e.Name] = true
	}
	for i := range events { // every path the operation touched (several plans may interleave), not only the analysed window
		for _, p := range []string{events[i].Path, events[i].Path2} {
			if n, _, ok := relName(c.shardDir, p); ok && p != "" {
				uni[n] = true
			}
		}
	}
	for n := range uni {
		nm.names = append(nm.names, n)
	}
	sort.Strings(nm.names)
	for i, n := range nm.names {
		nm.ids[n] = i
	}
	cid := func(h string) int {
		if v, ok := nm.cids[h]; ok {
			return v
		}
		nm.cids[h] = len(nm.cids) + 1
		return nm.cids[h]
	}
	toEnts := func(rs []rawEnt, root string, fail *[]string) []Ent {
		out := []Ent{}
		for _, e := range rs {
			id, ok := nm.ids[e.Name]
			if !ok {
				*fail = append(*fail, "file of unknown name after restart: "+e.Name)
				continue
			}
			out = append(out, Ent{id, e.Init, cid(e.Hash)})
		}
		sort.Slice(out, func(i, j int) bool {
			if out[i].ID != out[j].ID {
				return out[i].ID < out[j].ID
			}
			return !out[i].Init && out[j].Init
		})
		return out
	}
	inst := &Instance{Case: c.idx, Op: op, Names: nm.names, Fail: opFail, Hist: strings.Join(c.hist, " "), Old: []int{}, New: []int{}, Unord: []int{}}
	inst.FS0 = toEnts(fs0, c.shardDir, &inst.Fail)
	normalise := func(root string, ev *crashfs.Event, inProtocol bool) Step {
		switch {
		case isLog(ev.Path):
			switch ev.Kind {
			case "create":
				return Step{K: "logcreate"}
			case "sync":
				return Step{K: "logsync"}
			case "remove":
				return Step{K: "logremove"}
			case "write":
				_, isOrd, old, nw, ok := parseLog(ev.Data)
				if !ok {
					return Step{K: "other", What: "unparsable log write"}
				}
				s := Step{K: "logwrite", Old: []int{}, New: []int{}}
				pre := "o/"
				if !isOrd {
					pre = "u/"
				}
				for _, o := range old {
					id, ok := nm.ids[pre+o]
					if !ok {
						return Step{K: "other", What: "log names unknown old file " + o}
					}
					s.Old = append(s.Old, id)
				}
				for _, n := range nw {
					if !strings.HasSuffix(n, initSuffix) {
						return Step{K: "other", What: "log names new file without .init: " + n}
					}
					id, ok := nm.ids[pre+strings.TrimSuffix(n, initSuffix)]
					if !ok {
						return Step{K: "other", What: "log names unknown new file " + n}
					}
					s.New = append(s.New, id)
				}
				if inProtocol {
					inst.Old, inst.New, inst.IsOrder, inst.LogBytes = s.Old, s.New, isOrd, len(ev.Data)
				}
				return s
			}
		case ev.Kind == "rename":
			a, ai, ok1 := relName(root, ev.Path)
			b, bi, ok2 := relName(root, ev.Path2)
			if ok1 && ok2 {
				ia, k1 := nm.ids[a]
				ib, k2 := nm.ids[b]
				if k1 && k2 {
					return Step{K: "mv", Src: ia, SrcI: ai, Dst: ib, DstI: bi}
				}
			}
		case ev.Kind == "remove":
			a, ai, ok := relName(root, ev.Path)
			if ok {
				if ia, k := nm.ids[a]; k {
					return Step{K: "rm", Src: ia, SrcI: ai}
				}
			}
		case ev.Kind == "mkdir":
			return Step{K: "mkdir"}
		}
		return Step{K: "other", What: ev.Kind + " " + filepath.Base(ev.Path)}
	}
	stepIdx := map[int]int{} // event index -> number of protocol steps applied after it
	for i := w.lo; i <= w.hi; i++ {
		s := normalise(c.shardDir, events[i], true)
		inst.Steps = append(inst.Steps, s)
		stepIdx[i] = len(inst.Steps)
	}
	// trailing deletions (after logremove) of out-of-order inputs
	seenRm := false
	for _, s := range inst.Steps {
		if s.K == "logremove" {
			seenRm = true
		} else if seenRm && (s.K == "rm" || s.K == "mv") {
			// one entry per input (an input may be parked and then removed: two mutations)
			if n := len(inst.Unord); n == 0 || inst.Unord[n-1] != s.Src {
				inst.Unord = append(inst.Unord, s.Src)
			}
		}
	}
	inst.Nontriv = len(inst.Old) >= 2 && len(inst.Steps) >= 6
	inst.Concur = len(wins) > 1
	for _, s := range inst.Steps {
		if s.K == "other" || s.K == "mkdir" {
			inst.Concur = true
		}
	}
	// images
	for _, p := range pend {
		if len(wins) > 1 && p.evno > w.hi {
			// beyond the analysed window: oracle only
			r := c.reopen(p.dir, false)
			if d := dumpDiff(before, r.dump); d != "" {
				inst.Fail = append(inst.Fail, fmt.Sprintf("answers changed after crash at event %d + restart: %s", p.evno, d))
			}
			inst.Fail = append(inst.Fail, r.bad...)
			continue
		}
		img := Image{Torn: p.torn, Sub: -1}
		switch {
		case p.evno < w.lo:
			img.K = 0
			if p.evno < w.lo-1 {
				img.K = -1 // inside the write phase: some .init files incomplete
			}
		default:
			img.K = stepIdx[p.evno]
		}
		if p.torn >= 0 {
			// image copied before the log write happened: the steps applied are those before the write
			img.K = stepIdx[p.evno]
		}
		r := c.reopen(p.dir, true)
		c.fillImage(&img, r, before, p.dir, nm, toEnts, normalise)
		inst.Images = append(inst.Images, img)
		// second-level crashes inside the recovery pass
		pick := map[int]bool{}
		if c.quick {
			if n := len(r.subDirs); n > 0 {
				pick[0], pick[n-1], pick[c.r.Intn(n)] = true, true, true
			}
		}
		for j, sd := range r.subDirs {
			if !c.quick || pick[j] {
				sub := Image{K: img.K, Torn: p.torn, Sub: j + 1}
				r2 := c.reopen(sd, false)
				c.fillImage(&sub, r2, before, sd, nm, toEnts, normalise)
				// idempotence on the implementation: a third start changes nothing
				r3 := c.reopen(sd, false)
				if visKey(r3.vis) != visKey(r2.vis) || dumpDiff(r2.dump, r3.dump) != "" {
					sub.Fail = append(sub.Fail, "restarting twice gives different files/answers")
				}
				inst.Images = append(inst.Images, sub)
			}
			os.RemoveAll(sd)
		}
	}
	emit(inst)
}

func (c *caseCtx) fillImage(img *Image, r reopenResult, before map[key]string, root string, nm *namer,
	toEnts func([]rawEnt, string, *[]string) []Ent, normalise func(string, *crashfs.Event, bool) Step) {
	img.Vis = toEnts(r.vis, root, &img.Fail)
	img.Left = toEnts(r.left, root, &img.Fail)
	img.LogLeft = r.logLeft
	img.RSteps = []Step{}
	for _, ev := range r.events {
		img.RSteps = append(img.RSteps, normalise(root, ev, false))
	}
	if d := dumpDiff(before, r.dump); d != "" {
		img.Fail = append(img.Fail, "answers changed after crash + restart: "+d)
	}
	if len(r.left) > 0 {
		img.Fail = append(img.Fail, fmt.Sprintf("%d half-written (.init) files left after restart, e.g. %s", len(r.left), r.left[0].Name))
	}
	img.Fail = append(img.Fail, r.bad...)
}

func runCase(idx int, r *gen.Rand, work string, rec *crashfs.Recorder, quick bool, emit func(*Instance)) {
	c := &caseCtx{idx: idx, r: r, rec: rec, quick: quick, lastFl: map[uint64]int64{}, hasFl: map[uint64]bool{}, seen: map[uint64]int64{}}
	c.dir = filepath.Join(work, fmt.Sprintf("case%d", idx))
	c.shardDir = filepath.Join(c.dir, "shard")
	_ = os.RemoveAll(c.dir)
	if err := os.MkdirAll(filepath.Join(c.shardDir, immutable.TsspDirName), 0750); err != nil {
		panic(err)
	}
	defer os.RemoveAll(c.dir)
	// the segment size is a package-level setting of the store (merge reads the global one)
	immutable.SetMaxRowsPerSegment4TsStore(gen.Pick(r, []int{8, 16, 1000}))
	c.conf = immutable.NewTsStoreConfig()
	if os.Getenv("C03_SEGLIMIT") != "" {
		c.conf.SetMaxSegmentLimit(gen.Pick(r, []int{2, 3, 5}))
	}
	c.nSeries = r.Range(1, 4)
	nf := r.Range(1, len(fieldPool))
	perm := []int{0, 1, 2, 3}
	for i := 3; i > 0; i-- {
		j := r.Intn(i + 1)
		perm[i], perm[j] = perm[j], perm[i]
	}
	for _, i := range perm[:nf] {
		c.fields = append(c.fields, fieldPool[i])
	}
	sort.Slice(c.fields, func(i, j int) bool { return c.fields[i].Name < c.fields[j].Name })
	// planner threshold for level 0: the repository default (8) or a smaller value of the exported knob
	minGroup := gen.Pick(r, []int{8, 4, 3, 2})
	immutable.LeveLMinGroupFiles[0] = minGroup
	immutable.SetMergeFlag4TsStore(int32(gen.Pick(r, []int{util.AutoCompact, util.NonStreamingCompact, util.StreamingCompact})))
	c.st = newStore(c.shardDir, c.conf)
	c.st.CompactionEnable()
	maxT := int64(100)
	program := r.Intn(11)
	if idx == 0 {
		program = 10 // first case: limited merge, flush, merge-self (name collision between the two directories)
	}
	if os.Getenv("C03_MERGESELF") != "" {
		program = 8 + r.Intn(3)
	}
	c.readers = r.Chance(1, 3)
	nfl := r.Range(minGroup, minGroup+3)
	if nfl >= 2*minGroup && !r.Chance(1, 6) {
		nfl = 2*minGroup - 1 // a single compaction plan; otherwise two plans run concurrently (direct oracle only)
	}
	c.fullSelf = program == 10 || r.Bool()
	if program == 10 {
		c.flushKind(&maxT, 1)
		c.flushKind(&maxT, 3)
		c.flushKind(&maxT, 3)
	} else if program >= 6 {
		// several ordered files sharing series, then out-of-order data NEWER than everything ordered (flushed without a
		// loaded sequencer), then the merge: no ordered file overlaps or follows the out-of-order time range
		nfl = r.Range(2, 5)
		for i := 0; i < nfl; i++ {
			c.flushKind(&maxT, 1)
		}
		for i := 0; i < r.Range(1, 2); i++ {
			c.flushKind(&maxT, 2)
		}
	} else {
		for i := 0; i < nfl; i++ {
			c.flush(&maxT)
		}
	}
	var ops []string
	switch program {
	case 6:
		ops = []string{"merge"}
	case 7:
		ops = []string{"merge", "flush", "level0", "full"}
	case 10:
		ops = []string{"merge1", "flush3", "mergeself"}
	case 8:
		ops = []string{"mergeself"}
	case 9:
		ops = []string{"level0", "mergeself", "merge"}
	case 0:
		ops = []string{"level0"}
	case 1:
		ops = []string{"full"}
	case 2:
		ops = []string{"merge"}
	case 3:
		ops = []string{"merge", "level0"}
	case 4:
		ops = []string{"level0", "merge", "full"}
	default:
		ops = []string{"level0", "flush", "flush", "merge", "level0", "full"}
	}
	for _, op := range ops {
		if op == "flush" {
			c.flush(&maxT)
			continue
		}
		if op == "flush3" {
			c.flushKind(&maxT, 3)
			continue
		}
		c.runOp(op, emit)
	}
	_ = c.st.Close()
}

func main() {
	if len(os.Args) > 4 && os.Args[1] == "colretry" {
		idx, _ := strconv.Atoi(os.Args[2])
		runColRetry(idx, filepath.Join(os.Getenv("VERIF_WORK"), "c03"))
		return
	}
	if len(os.Args) > 4 && os.Args[1] == "colchild" {
		// child process of spawnColCase: colchild <idx> <seed> <seglimit 0|1>
		idx, _ := strconv.Atoi(os.Args[2])
		seed, _ := strconv.ParseUint(os.Args[3], 10, 64)
		work := filepath.Join(os.Getenv("VERIF_WORK"), "c03")
		kind, _ := strconv.Atoi(os.Args[4])
		runColCase(idx, gen.New(seed), work, kind, func(in *ColInstance) { gen.Emit(in) })
		return
	}
	if len(os.Args) > 3 && os.Args[1] == "curchild" {
		// child process for the cursor-level cases (the engine's package state is initialised once per process):
		// curchild <n> <seed>
		n, _ := strconv.Atoi(os.Args[2])
		seed, _ := strconv.ParseUint(os.Args[3], 10, 64)
		work := filepath.Join(os.Getenv("VERIF_WORK"), "c03")
		_ = os.MkdirAll(work, 0750)
		os.Args = os.Args[:1]
		flag.Parse() // the lifted VictoriaMetrics memory package insists on it
		tsdrv.MaxRowsPerSegment = 16
		if err := tsdrv.Init(work); err != nil {
			fmt.Fprintln(os.Stderr, "tsdrv init:", err)
			os.Exit(3)
		}
		rec := crashfs.Install()
		r := gen.New(seed)
		for i := 0; i < n; i++ {
			runCursorCase(i, r.Fork(), work, rec, gen.Tier() != "thorough", func(in *CursorInstance) { gen.Emit(in) })
		}
		rec.Uninstall()
		return
	}
	n := 40
	if len(os.Args) > 1 {
		n, _ = strconv.Atoi(os.Args[1])
	}
	quick := gen.Tier() != "thorough"
	work := os.Getenv("VERIF_WORK")
	if work == "" {
		work, _ = os.MkdirTemp("", "c03")
	}
	work = filepath.Join(work, "c03")
	_ = os.MkdirAll(work, 0750)
	rec := crashfs.Install()
	defer rec.Uninstall()
	r := gen.FromEnv(3)
	// C03_CASE_RANGE=a:b runs only the cases a <= i < b (the check splits the stream over parallel processes); every case
	// keeps the input it has in a full run because the PRNG is forked for every index
	lo, hi := 0, n
	if rg := os.Getenv("C03_CASE_RANGE"); rg != "" {
		if p := strings.SplitN(rg, ":", 2); len(p) == 2 {
			lo, _ = strconv.Atoi(p[0])
			hi, _ = strconv.Atoi(p[1])
		}
	}
	for i := 0; i < n; i++ {
		rf := r.Fork()
		if i >= lo && i < hi {
			runCase(i, rf, work, rec, quick, func(in *Instance) { gen.Emit(in) })
		}
	}
	// column-level cases (no crash images): their own stream of the same seed, so the cases above keep their inputs
	ncol, nseg := 0, 0
	if len(os.Args) > 2 {
		ncol, _ = strconv.Atoi(os.Args[2])
	}
	if len(os.Args) > 3 {
		nseg, _ = strconv.Atoi(os.Args[3])
	}
	rc := gen.FromEnv(303)
	for i := 0; i < ncol; i++ {
		spawnColCase(i, rc.Uint64(), work, 0, func(in *ColInstance) { gen.Emit(in) })
	}
	rs := gen.FromEnv(3003)
	for i := 0; i < nseg; i++ {
		spawnColCase(100000+i, rs.Uint64(), work, 1, func(in *ColInstance) { gen.Emit(in) })
	}
	// column-level cases with files written under another max-rows-per-segment
	nchg := 0
	if len(os.Args) > 5 {
		nchg, _ = strconv.Atoi(os.Args[5])
	}
	rg := gen.FromEnv(300003)
	for i := 0; i < nchg; i++ {
		spawnColCase(200000+i, rg.Uint64(), work, 2, func(in *ColInstance) { gen.Emit(in) })
	}
	// fault-injection cases (injected I/O errors and stops instead of process kills)
	nfault := 0
	if len(os.Args) > 4 {
		nfault, _ = strconv.Atoi(os.Args[4])
	}
	if nfault > 0 {
		rec.Uninstall()
		fc := installFaultFS()
		rf := gen.FromEnv(30003)
		for i := 0; i < nfault; i++ {
			runFaultCase(i, rf.Fork(), work, fc, quick, func(in *FaultInstance) { gen.Emit(in) })
		}
	}
	// cursor-level cases: a real shard read through the production cursors after every crash image (child process)
	ncur := 0
	if len(os.Args) > 6 {
		ncur, _ = strconv.Atoi(os.Args[6])
	}
	if ncur > 0 {
		cmd := exec.Command(os.Args[0], "curchild", strconv.Itoa(ncur), strconv.FormatUint(gen.FromEnv(3000003).Uint64(), 10))
		cmd.Env = append(os.Environ(), "VERIF_WORK="+filepath.Dir(work))
		cmd.Stdout = os.Stdout
		var se bytes.Buffer
		cmd.Stderr = &se
		if err := cmd.Run(); err != nil {
			t := se.String()
			if len(t) > 1500 {
				t = t[len(t)-1500:]
			}
			gen.Emit(&CursorInstance{CurCase: -1, Fail: []string{"the cursor-case process died: " + err.Error() + ": " + t}})
		}
	}
	fmt.Fprintln(os.Stderr, "c03 done")
}
