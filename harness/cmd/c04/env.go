// Shared environment of the C04 harness: engine initialisation, row construction, and the query helper that dumps
// rows through the shard's ordinary cursor path.
package main

import (
	"context"
	"fmt"
	"math"
	"os"
	"path/filepath"
	"runtime/debug"
	"sort"
	"strconv"
	"time"

	"github.com/openGemini/openGemini/engine"
	"github.com/openGemini/openGemini/engine/executor"
	"github.com/openGemini/openGemini/lib/config"
	"github.com/openGemini/openGemini/lib/logger"
	"github.com/openGemini/openGemini/lib/record"
	"github.com/openGemini/openGemini/lib/resourceallocator"
	"github.com/openGemini/openGemini/lib/util/lifted/influx/influxql"
	"github.com/openGemini/openGemini/lib/util/lifted/influx/query"
	"github.com/openGemini/openGemini/lib/util/lifted/vm/protoparser/influx"
	"go.uber.org/zap/zapcore"
)

const mst = "m"

// the stress spreads its series over two live measurements (odd series -> "m", even series -> "m3"), so that one
// snapshot flushes two measurements in parallel, each with its own flushed flag and file lists
const mst3 = "m3"

func mstOf(s int) string {
	if s%2 == 1 {
		return mst
	}
	return mst3
}

var twoMeasurements = false // only the stress sets it; forced schedules and probes use "m" alone

// timestamps: baseTime + k seconds (k = logical time of the point)
var baseTime = time.Date(2024, 1, 1, 0, 0, 0, 0, time.UTC).UnixNano()

func tsOf(k int64) int64 { return baseTime + k*int64(time.Second) }
func kOf(ts int64) int64 { return (ts - baseTime) / int64(time.Second) }

// second field value derived from the first: a row whose two fields do not satisfy w = wOf(v) is torn
func wOf(v int64) int64 { return v*7 + 3 }

func workDir() string {
	d := os.Getenv("VERIF_WORK")
	if d == "" {
		d = "."
	}
	return d
}

var engOpt engine.EngineOptions
var coldDuration = time.Second

func initEngine(memLimit int64) {
	lc := config.NewLogger(config.AppStore)
	lc.Path = filepath.Join(workDir(), "c04-logs")
	lc.Level = zapcore.ErrorLevel
	_ = os.MkdirAll(lc.Path, 0o755)
	// InitLogger prints its configuration on stdout; keep stdout for JSON lines only
	so := os.Stdout
	os.Stdout = os.Stderr
	logger.InitLogger(lc)
	os.Stdout = so

	engOpt = engine.NewEngineOptions()
	engOpt.WriteColdDuration = coldDuration
	engOpt.ShardMutableSizeLimit = memLimit
	engOpt.NodeMutableSizeLimit = 1e9
	engOpt.MaxWriteHangTime = time.Second
	engOpt.MemDataReadEnabled = true
	engOpt.WalSyncInterval = 100 * time.Millisecond
	engOpt.WalEnabled = true
	engOpt.DownSampleWriteDrop = true
	engOpt.OpenShardLimit = 8
	engOpt.MaxConcurrentCompactions = 4
	engOpt.MaxFullCompactions = 2
	engOpt.FullCompactColdDuration = time.Hour
	engOpt.BackgroundReadThroughput = 64 << 20 // production default; 0 would make every background read fail
	engOpt.SnapshotThroughput, engOpt.SnapshotThroughputBurst = 48<<20, 48<<20
	engOpt.CompactThroughput, engOpt.CompactThroughputBurst = 192<<20, 192<<20 // the config corrector never leaves these 0 (a 0 burst makes LimitWriter spin)
	engOpt.CompactRecovery = true                                              // production default: panics inside compaction/merge are logged (the driver greps the log)
	config.SetShardMemTableSizeLimit(memLimit)
	if _, err := engine.NewEngine(filepath.Join(workDir(), "c04-eng"), filepath.Join(workDir(), "c04-eng"), engOpt, nil); err != nil {
		panic(err)
	}
	if err := resourceallocator.InitResAllocator(math.MaxInt64, 1, 1, resourceallocator.GradientDesc, resourceallocator.ChunkReaderRes, 0, 0); err != nil {
		panic(err)
	}
	if err := resourceallocator.InitResAllocator(math.MaxInt64, 1, 1, resourceallocator.GradientDesc, resourceallocator.SeriesParallelismRes, 0, 0); err != nil {
		panic(err)
	}
	if err := resourceallocator.InitResAllocator(math.MaxInt64, 1, 1, resourceallocator.GradientDesc, resourceallocator.ShardsParallelismRes, 0, 1); err != nil {
		panic(err)
	}
}

func openShard(name string) (*engine.VerifC04Shard, error) { return openShardCold(name, coldDuration) }

func openShardCold(name string, cold time.Duration) (*engine.VerifC04Shard, error) {
	dir := filepath.Join(workDir(), name)
	_ = os.RemoveAll(dir)
	st := time.Date(1970, 1, 1, 1, 0, 0, 0, time.UTC)
	en := time.Date(2099, 1, 1, 1, 0, 0, 0, time.UTC)
	opt := engOpt
	opt.WriteColdDuration = cold
	return engine.VerifC04OpenShard(dir, opt, 1, st, en)
}

func seriesTag(s int) string { return "s" + strconv.Itoa(s) }

// mkRow builds one row of measurement mst for series s at logical time k with value code.
func mkRow(s int, k int64, code int64) influx.Row {
	var r influx.Row
	r.Name = mst
	if twoMeasurements {
		r.Name = mstOf(s)
	}
	r.Tags = influx.PointTags{{Key: "sk", Value: seriesTag(s)}}
	r.Fields = influx.Fields{
		{Key: "v", NumValue: float64(code), Type: influx.Field_Type_Int},
		{Key: "w", NumValue: float64(wOf(code)), Type: influx.Field_Type_Int},
	}
	sort.Sort(&r.Fields)
	r.Timestamp = tsOf(k)
	r.UnmarshalIndexKeys(nil)
	r.UnmarshalShardKeyByTag(nil)
	return r
}

func writeRows(sh *engine.VerifC04Shard, rows []influx.Row) error {
	buf, err := influx.FastMarshalMultiRows(nil, rows)
	if err != nil {
		return err
	}
	return sh.WriteRows(rows, buf)
}

type point struct {
	S int   // series
	K int64 // logical time
}
type val struct{ V, W int64 }

type qresult struct {
	rows map[point]val
	dups []point
	bad  []string // malformed rows (null field, unknown series key, ...)
	err  error
}

var fieldAux = []influxql.VarRef{{Val: "v", Type: influxql.Integer}, {Val: "w", Type: influxql.Integer}}

func mkSchema(kmin, kmax int64, asc bool) *executor.QuerySchema { return mkSchemaOf(mst, kmin, kmax, asc) }

func mkSchemaOf(m string, kmin, kmax int64, asc bool) *executor.QuerySchema {
	opt := &query.ProcessorOptions{}
	opt.Name = m
	opt.Ascending = asc
	opt.FieldAux = fieldAux
	opt.MaxParallel = 4
	opt.ChunkSize = 1000
	opt.StartTime = tsOf(kmin)
	opt.EndTime = tsOf(kmax)
	var fields influxql.Fields
	var names []string
	for i := range fieldAux {
		fields = append(fields, &influxql.Field{Expr: &fieldAux[i]})
		names = append(names, fieldAux[i].Val)
	}
	return executor.NewQuerySchema(fields, names, opt, nil)
}

// parse "...sk\x00sN..." style series keys: we only need the value of tag sk; look for the byte pattern "s<digits>"
func seriesOfKey(key []byte) (int, bool) {
	// the series key contains the tag value text "s<number>" preceded by the tag key "sk"
	for i := 0; i+2 < len(key); i++ {
		if key[i] == 's' && key[i+1] == 'k' {
			j := i + 2
			for j < len(key) && key[j] != 's' {
				j++
			}
			if j >= len(key) {
				return 0, false
			}
			j++
			n, d := 0, 0
			for j < len(key) && key[j] >= '0' && key[j] <= '9' {
				n = n*10 + int(key[j]-'0')
				j++
				d++
			}
			if d > 0 {
				return n, true
			}
		}
	}
	return 0, false
}

func runQuery(sh *engine.VerifC04Shard, kmin, kmax int64, asc bool) (res qresult) {
	return runQueryOf(sh, mst, kmin, kmax, asc)
}

func runQueryOf(sh *engine.VerifC04Shard, m string, kmin, kmax int64, asc bool) (res qresult) {
	res.rows = make(map[point]val)
	defer func() {
		if e := recover(); e != nil {
			res.err = fmt.Errorf("PANIC in query: %v\n%s", e, debug.Stack())
		}
	}()
	schema := mkSchemaOf(m, kmin, kmax, asc)
	_, err := sh.VerifC04Scan(context.Background(), schema, func(key []byte, rec *record.Record) {
		s, ok := seriesOfKey(key)
		if !ok {
			res.bad = append(res.bad, fmt.Sprintf("unparsable series key %q", key))
			return
		}
		vi, wi := rec.FieldIndexs("v"), rec.FieldIndexs("w")
		times := rec.Times()
		for i := range times {
			p := point{s, kOf(times[i])}
			var x val
			var n1, n2 bool = true, true
			if vi >= 0 {
				x.V, n1 = rec.ColVals[vi].IntegerValue(i)
			}
			if wi >= 0 {
				x.W, n2 = rec.ColVals[wi].IntegerValue(i)
			}
			if n1 || n2 {
				res.bad = append(res.bad, fmt.Sprintf("null field in row s=%d k=%d (v null=%v, w null=%v)", p.S, p.K, n1, n2))
				continue
			}
			if _, dup := res.rows[p]; dup {
				res.dups = append(res.dups, p)
			}
			res.rows[p] = x
		}
	})
	res.err = err
	return res
}

// kInf: logical time beyond every point the harness writes (tsOf(kInf) still fits an int64)
const kInf = int64(1) << 30

// runCount: count(v) per series of measurement m over the logical time range, through the aggregate path of the
// store (CreateCursor + ChunkReader: pre-aggregation from chunk metadata where the files allow it, memtable rows
// otherwise). Partial counts of one series (several chunks) are summed.
func runCount(sh *engine.VerifC04Shard, m string, kmin, kmax int64) (counts map[int]int64, err error) {
	counts = map[int]int64{}
	defer func() {
		if e := recover(); e != nil {
			err = fmt.Errorf("PANIC in count query: %v\n%s", e, debug.Stack())
		}
	}()
	sql := fmt.Sprintf("select count(v) from %s where time >= %d and time <= %d group by sk", m, tsOf(kmin), tsOf(kmax))
	rows, _, err := sh.VerifC04AsVerifShard().Select(sql, map[string]influxql.DataType{"v": influxql.Integer, "w": influxql.Integer}, []string{"sk"})
	if err != nil {
		return counts, err
	}
	for _, r := range rows {
		tag := r.Tags["sk"]
		if len(tag) < 2 || tag[0] != 's' {
			return counts, fmt.Errorf("count row without series tag: %v", r.Tags)
		}
		n, e := strconv.Atoi(tag[1:])
		if e != nil {
			return counts, fmt.Errorf("count row with series tag %q", tag)
		}
		if len(r.Cells) != 1 || r.Cells[0].Nil {
			continue
		}
		counts[n] += r.Cells[0].I
	}
	return counts, nil
}
